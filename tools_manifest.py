#!/usr/bin/env python3
"""regenerates MANIFEST.json from the table below (keeps it valid at all times)"""
import json, os
ROOT = os.path.dirname(os.path.abspath(__file__))
props = [json.loads(l) for l in open(os.path.join(ROOT, "properties.jsonl"))]
claimed = {}
cd = os.path.join(ROOT, "claims.d")
enabled = open(os.path.join(cd, "ENABLED")).read().split()   # the lead enables a claim once its check passes on /repo
for f in sorted(os.listdir(cd)):
    if f.endswith(".json") and f[:-5] in enabled: claimed[f[:-5]] = json.load(open(os.path.join(cd, f)))
checks, na = [], []
for p in props:
    pid = p["id"]
    if pid in claimed:
        c = claimed[pid]
        checks.append({
            "property_id": pid,
            "quick_cmd": f"./check {pid} --tier quick",
            "thorough_cmd": f"./check {pid} --tier thorough",
            "evidence_file": f"/verif/evidence/{pid}.json",
            "replay_cmd_template": f"./check {pid} --replay {{path}}",
            "engine": "lean4-proof+correspondence",
            "level_claimed": {"category": "proof", "text": c["text"], "design_ref": c.get("design_ref", "DESIGN.md §7 " + pid)},
            "level_note": c["note"],
            "technique": c["technique"],
        })
    else:
        na.append({"property_id": pid, "reason": "check not built yet in this round (work in progress; the technique applies, see DESIGN.md §7)"})
m = {
    "version": 1,
    "setup_cmd": "./setup.sh",
    "hooks": {"guard": "arr_rs_verif", "enable": "none needed: observation uses public getters, catch_unwind and a watchdog thread (DESIGN.md §10)",
              "baseline_off_cmd": "cd /repo && cargo test --workspace --no-fail-fast --offline", "source_commits": [], "add_only": True},
    "engines": [{"name": "lean4-proof+correspondence", "path": "/verif/check", "serves_properties": sorted(claimed.keys()),
                 "kind_free_text": "Lean 4 theorems about an executable model (lean/: hand-written, with the core funnel regenerated from the Rust source by tools/rs2lean.py and proved equivalent), tied to /repo on every run by a Rust differential harness (harness/) driving the compiled model over a line protocol"}],
    "checks": checks,
    "notes": "See DESIGN.md. Every check rebuilds the harness against /repo's working tree (cargo path dependency) and re-checks the Lean theorems.",
    "not_applicable": na,
}
json.dump(m, open(os.path.join(ROOT, "MANIFEST.json"), "w"), indent=1)
print("claimed:", sorted(claimed.keys()))
