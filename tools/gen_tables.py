#!/usr/bin/env python3
"""gen_tables.py — the translator slice of DESIGN.md §4.3.

Re-reads <repo>/src (default /repo, or $VERIF_REPO) on every run and writes lean/ArrModel/Gen/Tables.lean
(only when the content changes):
  (a) the spelling tables of the five option parsers (SortKind, CompareOp, BitOrder, NormOrd, ConvolveMode),
  (b) the `ArrayError` variant list,
  (c) the inventory of public trait methods (trait, method, receiver?, fallible?),
  (d) for every `impl <Trait> for Result<Array<..>, ArrayError>` method whether its body is the pure delegation
      `self.clone()?.m(args…)` (or the UFCS / static forwarding form).
The output is core-only Lean; every piece of text is a `List Char` so that `decide` can evaluate it in the kernel.
The parser is regex/bracket level over very regular code; whenever a block does not match the grammar described
next to each extractor the script exits 1 with a message naming the file and the construct (never a silent default).
"""
import os, re, sys

REPO = os.environ.get("VERIF_REPO") or "/repo"
SRC = os.path.join(REPO, "src")
ROOT = os.path.dirname(os.path.dirname(os.path.abspath(__file__)))
OUT = os.path.join(ROOT, "lean", "ArrModel", "Gen", "Tables.lean")


class Refuse(Exception):
    pass


def refuse(path, msg):
    raise Refuse(f"gen_tables: {os.path.relpath(path, REPO)}: {msg}")


# ---------------------------------------------------------------- lexical helpers

def strip_comments(src):
    """remove // line comments (incl. doc comments) and /* */ block comments, keep string/char literals intact"""
    out, i, n = [], 0, len(src)
    while i < n:
        c = src[i]
        if c == '"':
            j = i + 1
            while j < n and src[j] != '"':
                j += 2 if src[j] == '\\' else 1
            out.append(src[i:j + 1]); i = j + 1
        elif c == "'" and i + 2 < n and (src[i + 2] == "'" or (src[i + 1] == '\\' and "'" in src[i + 2:i + 6])):
            j = src.index("'", i + 2 if src[i + 1] != '\\' else i + 3)
            out.append(src[i:j + 1]); i = j + 1
        elif src.startswith("//", i):
            while i < n and src[i] != "\n": i += 1
        elif src.startswith("/*", i):
            j = src.find("*/", i + 2)
            i = n if j < 0 else j + 2
        else:
            out.append(c); i += 1
    return "".join(out)


def match_close(s, i, path):
    """s[i] is an opening bracket; returns the index just after its partner. Skips string and char literals."""
    pairs = {"{": "}", "(": ")", "[": "]"}
    op = s[i]; cl = pairs[op]
    depth, j, n = 0, i, len(s)
    while j < n:
        c = s[j]
        if c == '"':
            j += 1
            while j < n and s[j] != '"':
                j += 2 if s[j] == '\\' else 1
        elif c == "'" and j + 2 < n and s[j + 2] == "'":
            j += 2
        elif c == op: depth += 1
        elif c == cl:
            depth -= 1
            if depth == 0: return j + 1
        j += 1
    refuse(path, f"unbalanced `{op}` at offset {i}")


def skip_generics(s, i):
    """s[i] == '<': index after the matching '>' (`->` inside closures' types does not close)"""
    depth, j = 0, i
    while j < len(s):
        if s[j] == "<": depth += 1
        elif s[j] == ">" and s[j - 1] != "-":
            depth -= 1
            if depth == 0: return j + 1
        j += 1
    return -1


def norm(s):
    return " ".join(s.split())


def read(rel):
    p = os.path.join(SRC, rel)
    if not os.path.exists(p): refuse(p, "file not found")
    return p, strip_comments(open(p, encoding="utf-8").read())


def rust_str(lit, path):
    """a Rust string literal without escapes other than \\\\ \\\" -> python str"""
    m = re.fullmatch(r'"((?:[^"\\]|\\.)*)"', lit.strip())
    if not m: refuse(path, f"expected a string literal, found `{lit.strip()[:40]}`")
    body = m.group(1)
    if re.search(r"\\[^\\\"]", body): refuse(path, f"unsupported escape in string literal {lit}")
    return body.replace('\\"', '"').replace("\\\\", "\\")


# ---------------------------------------------------------------- fn scanner

def functions(body, path):
    """all `fn` items directly inside a trait/impl body: (name, params:[(name,type)], has_self, ret, body_or_None)"""
    res, i, n = [], 0, len(body)
    while True:
        m = re.compile(r"\bfn\s+((?:r#)?\w+)\s*").search(body, i)
        if not m: break
        name, j = m.group(1), m.end()
        if j < n and body[j] == "<":
            j = skip_generics(body, j)
            if j < 0: refuse(path, f"fn {name}: unbalanced generics")
        while body[j].isspace(): j += 1
        if body[j] != "(": refuse(path, f"fn {name}: expected `(` after the name")
        k = match_close(body, j, path)
        params_src = body[j + 1:k - 1]
        # return type and terminator
        t = k
        depth = 0
        while t < n and not (depth == 0 and body[t] in ";{"):
            if body[t] in "<([": depth += 1
            elif body[t] in ")]" or (body[t] == ">" and body[t - 1] != "-"): depth -= 1
            t += 1
        if t >= n: refuse(path, f"fn {name}: no `;` or body")
        head = body[k:t]
        rm = re.match(r"\s*->\s*(.*?)(\bwhere\b.*)?$", head, re.S)
        ret = norm(rm.group(1)) if rm else ""
        if not rm and head.strip() and not head.strip().startswith("where"):
            refuse(path, f"fn {name}: cannot read the return type `{norm(head)[:60]}`")
        fbody = None
        if body[t] == "{":
            e = match_close(body, t, path)
            fbody = body[t + 1:e - 1]; t = e
        else:
            t += 1
        # parameters: split at top-level commas
        params, has_self, depth, cur = [], False, 0, ""
        for c in params_src + ",":
            if c == "," and depth == 0:
                p = norm(cur); cur = ""
                if not p: continue
                if re.fullmatch(r"&?\s*(mut\s+)?self", p): has_self = True; continue
                pm = re.match(r"(?:mut\s+)?(\w+)\s*:\s*(.+)$", p)
                if not pm: refuse(path, f"fn {name}: cannot read parameter `{p}`")
                params.append((pm.group(1), pm.group(2)))
            else:
                if c in "<([": depth += 1
                elif c in ")]" or c == ">": depth -= 1
                cur += c
        res.append((name, params, has_self, ret, fbody))
        i = t
    return res


# ---------------------------------------------------------------- (a) option parsers

def enum_ctors(s, enum, path):
    m = re.search(r"pub enum\s+" + enum + r"\s*\{", s)
    if not m: refuse(path, f"`pub enum {enum}` not found")
    e = match_close(s, m.end() - 1, path)
    body = re.sub(r"#\[[^\]]*\]", "", s[m.end():e - 1])
    ctors = []
    for item in body.split(","):
        item = norm(item)
        if not item: continue
        cm = re.fullmatch(r"(\w+)(\s*\(([^)]*)\))?", item)
        if not cm: refuse(path, f"enum {enum}: cannot read constructor `{item}`")
        ctors.append((cm.group(1), cm.group(3)))
    if not ctors: refuse(path, f"enum {enum} has no constructors")
    return ctors


def parse_match(src, enum, ctors, path, what):
    """`match <scrutinee> { "a" | "b" => Ok(Enum::X), …, _ => <fallthrough> }`
    -> (scrutinee, rows [(spelling, ctor index)], fallthrough error variant, int_fallback ctor index or None)"""
    m = re.search(r"\bmatch\s+([^{]+?)\s*\{", src)
    if not m: refuse(path, f"{what}: no `match` found")
    scrut = norm(m.group(1))
    e = match_close(src, m.end() - 1, path)
    body = src[m.end():e - 1]
    names = [c for c, _ in ctors]
    rows, fall, intfb = [], None, None
    # split arms at top-level commas / newlines: each arm `pats => expr`
    arms, depth, cur, i = [], 0, "", 0
    while i < len(body):
        c = body[i]
        if c == '"':
            j = i + 1
            while body[j] != '"': j += 2 if body[j] == "\\" else 1
            cur += body[i:j + 1]; i = j + 1; continue
        if c in "({[": depth += 1
        elif c in ")}]": depth -= 1
        if c == "," and depth == 0:
            arms.append(cur); cur = ""
        else: cur += c
        i += 1
    if cur.strip(): arms.append(cur)
    for arm in arms:
        if not arm.strip(): continue
        if "=>" not in arm: refuse(path, f"{what}: arm without `=>`: `{norm(arm)[:60]}`")
        pats, expr = arm.split("=>", 1)
        pats, expr = pats.strip(), norm(expr)
        if fall is not None: refuse(path, f"{what}: arm after the `_` arm")
        if pats == "_":
            em = re.fullmatch(r"Err\(ArrayError::(\w+)(\s*\{.*\})?\)", expr)
            if em: fall = em.group(1); continue
            im = re.fullmatch(r"i32::from_str\(value\)\.map_or\(\s*Err\(ArrayError::(\w+)(\s*\{.*?\})?\),\s*\|(\w+)\|\s*Ok\(" + enum + r"::(\w+)\(\3\)\)\)", expr)
            if im:
                fall = im.group(1)
                if im.group(4) not in names or dict(ctors)[im.group(4)] != "i32":
                    refuse(path, f"{what}: integer fall-back constructor `{im.group(4)}` is not an `(i32)` constructor of {enum}")
                intfb = names.index(im.group(4)); continue
            refuse(path, f"{what}: unrecognised fall-through `{expr[:100]}`")
        om = re.fullmatch(r"Ok\(" + enum + r"::(\w+)\)", expr)
        if not om or om.group(1) not in names: refuse(path, f"{what}: arm value `{expr[:60]}` is not `Ok({enum}::<Ctor>)`")
        for p in pats.split("|"):
            rows.append((rust_str(p, path), names.index(om.group(1))))
    if fall is None: refuse(path, f"{what}: no `_` fall-through arm")
    sp = [r[0] for r in rows]
    if len(set(sp)) != len(sp): refuse(path, f"{what}: a spelling occurs twice")
    return scrut, rows, fall, intfb


def option_parser(rel, enum, trait, method, helper):
    """Two grammars:
      helper != None:  `impl Trait for &str|String { fn method(self) -> .. { helper(<self-expr>) } }` and
                       `fn helper(value: &str) -> .. { match <value-expr> { … } }`
      helper == None:  each of the two impls contains the `match self|self.as_str() { … }` itself.
    lower-cased = `.to_lowercase()` applied at the call site and/or on the match scrutinee (both impls must agree).
    """
    path, s = read(rel)
    ctors = enum_ctors(s, enum, path)
    tables = {}
    for ty in ("&str", "String"):
        m = re.search(r"impl\s+" + trait + r"\s+for\s+" + re.escape(ty) + r"\s*\{", s)
        if not m: refuse(path, f"`impl {trait} for {ty}` not found")
        e = match_close(s, m.end() - 1, path)
        fns = functions(s[m.end():e - 1], path)
        if [f[0] for f in fns] != [method] or fns[0][4] is None: refuse(path, f"impl {trait} for {ty}: expected exactly `fn {method}` with a body")
        body = norm(fns[0][4])
        if helper:
            cm = re.fullmatch(re.escape(helper) + r"\((.*)\)", body)
            if not cm: refuse(path, f"impl {trait} for {ty}: body `{body[:80]}` is not a call of {helper}")
            arg = cm.group(1).replace(" ", "")
            if arg in ("self", "&self"): lower_call = False
            elif arg == "self.to_lowercase().as_str()": lower_call = True
            else: refuse(path, f"impl {trait} for {ty}: unrecognised argument `{arg}` of {helper}")
            hm = re.search(r"\bfn\s+" + helper + r"\s*\(\s*value\s*:\s*&str\s*\)[^{]*\{", s)
            if not hm: refuse(path, f"`fn {helper}(value: &str)` not found")
            he = match_close(s, hm.end() - 1, path)
            scrut, rows, fall, intfb = parse_match(s[hm.end():he - 1], enum, ctors, path, helper)
            sc = scrut.replace(" ", "")
            if sc == "value": lower_m = False
            elif sc == "value.to_lowercase().as_str()": lower_m = True
            else: refuse(path, f"{helper}: unrecognised match scrutinee `{scrut}`")
            # the integer fall-back re-reads the *original* `value`: only sound for the model when the call site does not lower-case
            if intfb is not None and lower_call: refuse(path, f"{helper}: integer fall-back after a lower-casing call site is outside the grammar")
            tables[ty] = (rows, lower_call or lower_m, fall, intfb)
        else:
            scrut, rows, fall, intfb = parse_match(fns[0][4], enum, ctors, path, f"impl {trait} for {ty}")
            sc = scrut.replace(" ", "")
            if sc not in ("self", "self.as_str()"): refuse(path, f"impl {trait} for {ty}: unrecognised match scrutinee `{scrut}`")
            if norm(fns[0][4]).split("{")[0].strip() != "match " + scrut: refuse(path, f"impl {trait} for {ty}: body is more than one `match`")
            tables[ty] = (rows, False, fall, intfb)
    # impl for the enum itself must be the identity
    m = re.search(r"impl\s+" + trait + r"\s+for\s+" + enum + r"\s*\{", s)
    if not m: refuse(path, f"`impl {trait} for {enum}` not found")
    e = match_close(s, m.end() - 1, path)
    fns = functions(s[m.end():e - 1], path)
    if len(fns) != 1 or fns[0][0] != method or norm(fns[0][4] or "") != "Ok(self)":
        refuse(path, f"impl {trait} for {enum}: expected `fn {method}(self) {{ Ok(self) }}`")
    return {"enum": enum, "ctors": ctors, "str": tables["&str"], "string": tables["String"], "file": rel}


# ---------------------------------------------------------------- (b) errors

def error_variants():
    path, s = read("errors/mod.rs")
    m = re.search(r"pub enum ArrayError\s*\{", s)
    if not m: refuse(path, "`pub enum ArrayError` not found")
    e = match_close(s, m.end() - 1, path)
    body = s[m.end():e - 1]
    out, i = [], 0
    while i < len(body):
        vm = re.compile(r"\s*(\w+)\s*").match(body, i)
        if not vm:
            if body[i:].strip(): refuse(path, f"ArrayError: cannot read `{norm(body[i:])[:40]}`")
            break
        name, i = vm.group(1), vm.end()
        fields = []
        if i < len(body) and body[i] == "{":
            j = match_close(body, i, path)
            fields = [norm(f).split(":")[0].strip() for f in body[i + 1:j - 1].split(",") if f.strip()]
            i = j
        elif i < len(body) and body[i] == "(":
            refuse(path, f"ArrayError::{name}: tuple variants are outside the grammar")
        out.append((name, fields))
        tm = re.compile(r"\s*,").match(body, i)
        if tm: i = tm.end()
    if not out: refuse(path, "ArrayError has no variants")
    return out


# ---------------------------------------------------------------- (c), (d) traits and Result impls

def rust_files():
    res = []
    for dp, dn, fs in os.walk(SRC):
        dn.sort()
        for f in sorted(fs):
            if f.endswith(".rs"): res.append(os.path.join(dp, f))
    return sorted(res)


# ---------------------------------------------------------------- (e) state space of the code = state space of the model

# The Lean model is a family of pure functions over `Arr {elems, shape}`.  That the code lives in the same fragment is read
# from the source on every run: no global / thread-local / interior-mutable state, no ambient input (clock, environment,
# addresses), randomness only in the `rand()` constructors, and `Array` has exactly the two modelled fields.
STATE_TOKENS = [
    (r"\bstatic\s+mut\b", "static mut"),
    (r"\bthread_local\s*!", "thread_local!"),
    (r"\blazy_static\s*!", "lazy_static!"),
    (r"\b(UnsafeCell|RefCell|Cell|OnceCell|OnceLock|LazyLock|LazyCell|Mutex|RwLock|Condvar|Atomic(?:Bool|Ptr|Usize|Isize|U8|U16|U32|U64|I8|I16|I32|I64))\b", "interior-mutable / shared state type"),
    (r"\bstd\s*::\s*(env|time|fs|process|thread|net|io|sync|cell)\b", "ambient input / shared state module"),
    (r"\b(Instant|SystemTime)\b", "clock"),
    (r"\b(as_ptr|as_mut_ptr|addr_of|type_name|TypeId)\b|\*\s*const\b|\*\s*mut\b", "address / type identity"),
    (r"\b(size_of|size_of_val|align_of|align_of_val|transmute|downcast_ref|downcast_mut|type_id)\b|\bdyn\s+Any\b", "element layout / dynamic type (breaks parametricity in T)"),
    (r"\bunsafe\b", "unsafe"),
]
RAND_FILES = {"src/boolean/types/mod.rs", "src/numeric/types/numeric.rs"}
ARRAY_FIELDS = [("elements", "Vec<T>"), ("shape", "Vec<usize>")]


def strip_strings(src):
    """comments already removed: blank out string literals (their contents are data, not code)"""
    return re.sub(r'"(?:\\.|[^"\\])*"', '""', src)


def state_space_report():
    """list of (file, line, what) where the source leaves the stateless fragment the model covers"""
    bad = []
    array_seen = False
    for path in rust_files():
        rel = os.path.relpath(path, REPO)
        raw = open(path, encoding="utf-8").read()
        # keep line numbers: strip comments line-wise friendly by replacing with blanks of equal newlines
        code = strip_strings(strip_comments(raw))
        def lineno(pos, code=code, raw=raw):
            frag = code[max(0, pos - 40):pos + 40].strip().split("\n")[0]
            return frag[:70]
        code_no_forbid = re.sub(r"#!\[forbid\(unsafe_code\)\]", "", code)
        for rx, what in STATE_TOKENS:
            for m in re.finditer(rx, code_no_forbid):
                bad.append((rel, what, m.group(0)))
        if rel not in RAND_FILES and re.search(r"\brand\s*::|\bthread_rng\b|\bRng\b", code):
            bad.append((rel, "randomness outside the rand() constructors", "rand"))
        m = re.search(r"\bstruct\s+Array\s*<[^{;]*\{([^}]*)\}", code)
        if m:
            array_seen = True
            fields = [(a, norm(b)) for a, b in re.findall(r"(?:pub\s*(?:\([^)]*\))?\s*)?(\w+)\s*:\s*([^,}]+)", m.group(1))]
            want = [(a, norm(b)) for a, b in ARRAY_FIELDS]
            if fields != want:
                bad.append((rel, "struct Array no longer has exactly the modelled fields elements: Vec<T>, shape: Vec<usize>", str(fields)))
    if not array_seen:
        bad.append(("src", "struct Array<T> not found", ""))
    return bad


def inventory_and_impls():
    methods, impls, sigs = [], [], {}
    for p in rust_files():
        s = strip_comments(open(p, encoding="utf-8").read())
        for m in re.finditer(r"\bpub trait\s+(\w+)", s):
            b = s.find("{", m.end())
            semi = s.find(";", m.end())
            if b < 0 or (0 <= semi < b): refuse(p, f"trait {m.group(1)}: no body")
            e = match_close(s, b, p)
            for (name, params, has_self, ret, _b) in functions(s[b + 1:e - 1], p):
                methods.append((m.group(1), name, has_self, "Result<" in ret, len(params)))
                sigs[(m.group(1), name)] = (params, has_self)
        for m in re.finditer(r"\bimpl\b", s):
            j = m.end()
            while s[j].isspace(): j += 1
            if s[j] == "<":
                j = skip_generics(s, j)
                if j < 0: refuse(p, "impl: unbalanced generics")
            hm = re.compile(r"\s*(\w+)").match(s, j)
            if not hm: continue
            trait, j = hm.group(1), hm.end()
            if j < len(s) and s[j] == "<":
                j = skip_generics(s, j)
            fm = re.compile(r"\s+for\s+Result\s*<").match(s, j)
            if not fm: continue
            tm = re.compile(r"\s+for\s+Result\s*<\s*Array\s*<\s*(\w+)\s*>\s*,\s*ArrayError\s*>\s*\{").match(s, j)
            if not tm: refuse(p, f"impl {trait} for Result<…>: receiver is not `Result<Array<_>, ArrayError>`")
            b = tm.end() - 1
            e = match_close(s, b, p)
            for (name, params, has_self, ret, body) in functions(s[b + 1:e - 1], p):
                if body is None: refuse(p, f"impl {trait} for Result: fn {name} has no body")
                args = ", ".join(a for a, _ in params)
                body_n = norm(body).replace(" ", "")
                forms = []
                if has_self:
                    forms.append(("delegation", f"self.clone()?.{name}({args})"))
                    forms.append(("ufcs", f"{trait}::{name}(&self.clone()?" + (", " + args if args else "") + ")"))
                else:
                    forms.append(("static", f"Array::{name}({args})"))
                    if len(params) == 1: forms.append(("static", f"{params[0][0]}.{name}()"))
                kind = next((k for k, f in forms if f.replace(" ", "") == body_n), "other")
                if kind == "other" and has_self:
                    # equivalent spellings of the pure delegation: an explicit match on the receiver, or `and_then`
                    a_ = re.escape(args.replace(" ", ""))
                    n_ = re.escape(name)
                    pats = [r"matchself\{Ok\((\w+)\)=>\1\." + n_ + r"\(" + a_ + r"\),Err\((\w+)\)=>Err\(\2\.clone\(\)\),?\}",
                            r"match\*?self\{Err\((\w+)\)=>Err\(\1\.clone\(\)\),Ok\((\w+)\)=>\2\." + n_ + r"\(" + a_ + r"\),?\}",
                            r"self\.clone\(\)\.and_then\(\|(\w+)\|\1\." + n_ + r"\(" + a_ + r"\)\)"]
                    if any(re.fullmatch(pt, body_n) for pt in pats): kind = "delegation"
                impls.append((trait, name, has_self, kind, p))
    if not methods: refuse(SRC, "no public trait found")
    if not impls: refuse(SRC, "no `impl … for Result<Array<_>, ArrayError>` found")
    # every Result impl method must be a method of that trait, with the same receiver kind
    for (trait, name, has_self, kind, p) in impls:
        if (trait, name) not in sigs: refuse(p, f"impl {trait} for Result: `{name}` is not a method of the trait")
        if sigs[(trait, name)][1] != has_self: refuse(p, f"impl {trait} for Result: `{name}` receiver differs from the trait")
    return methods, impls


# ---------------------------------------------------------------- Lean output

def chars(s):
    s = s[2:] if s.startswith("r#") else s
    def one(c):
        if c == "'": return "'\\''"
        if c == "\\": return "'\\\\'"
        if not (32 <= ord(c) < 127): raise Refuse(f"gen_tables: non-ASCII character {c!r} in a table entry")
        return f"'{c}'"
    return "[" + ",".join(one(c) for c in s) + "]"


def lean_bool(b): return "true" if b else "false"


def emit(parsers, errors, methods, impls):
    L = []
    L.append("/- GENERATED by tools/gen_tables.py from the Rust sources of the crate under check — do not edit.")
    L.append("   Regenerated at the start of every ./check run; the theorems of ArrProofs/Props/C09.lean (and the table-driven")
    L.append("   option parsers of ArrModel/C09.lean) are re-checked against whatever this file says now. Core Lean only. -/")
    L.append("namespace ArrModel.Gen.Tables")
    L.append("")
    L.append("/-- one option parser: the enum, its constructors (name, has an `i32` payload), the spelling rows of the `&str` impl and")
    L.append("of the `String` impl (spelling, constructor index), whether the text is lower-cased before the match, the error variant of")
    L.append("the `_` arm, and the constructor an `i32::from_str` fall-back builds (NormOrd only) -/")
    L.append("structure OptionParser where")
    L.append("  enumName : List Char")
    L.append("  ctors : List (List Char × Bool)")
    L.append("  rowsStr : List (List Char × Nat)")
    L.append("  rowsString : List (List Char × Nat)")
    L.append("  lowerStr : Bool")
    L.append("  lowerString : Bool")
    L.append("  fallStr : List Char")
    L.append("  fallString : List Char")
    L.append("  intFallbackStr : Option Nat")
    L.append("  intFallbackString : Option Nat")
    L.append("")
    for key, pr in parsers:
        rs, ls, fs, is_ = pr["str"]
        rS, lS, fS, iS = pr["string"]
        L.append(f"/-- `{pr['file']}` -/")
        L.append(f"def {key} : OptionParser where")
        L.append(f"  enumName := {chars(pr['enum'])}")
        L.append("  ctors := [" + ", ".join(f"({chars(c)}, {lean_bool(pl is not None)})" for c, pl in pr["ctors"]) + "]")
        L.append("  rowsStr := [" + ", ".join(f"({chars(sp)}, {ix})" for sp, ix in rs) + "]")
        L.append("  rowsString := [" + ", ".join(f"({chars(sp)}, {ix})" for sp, ix in rS) + "]")
        L.append(f"  lowerStr := {lean_bool(ls)}")
        L.append(f"  lowerString := {lean_bool(lS)}")
        L.append(f"  fallStr := {chars(fs)}")
        L.append(f"  fallString := {chars(fS)}")
        L.append(f"  intFallbackStr := {'none' if is_ is None else 'some ' + str(is_)}")
        L.append(f"  intFallbackString := {'none' if iS is None else 'some ' + str(iS)}")
        L.append("")
    L.append("def optionParsers : List OptionParser := [" + ", ".join(k for k, _ in parsers) + "]")
    L.append("")
    L.append("/-- `ArrayError` variants in declaration order (`errors/mod.rs`), with the number of payload fields -/")
    L.append("def errorVariants : List (List Char × Nat) := [")
    L.append(",\n".join(f"  ({chars(n)}, {len(f)})" for n, f in errors))
    L.append("]")
    L.append("")
    L.append("/-- a public trait method: trait, name, takes `self`, returns a `Result`, number of non-self parameters -/")
    L.append("structure Method where")
    L.append("  trait : List Char")
    L.append("  name : List Char")
    L.append("  receiver : Bool")
    L.append("  fallible : Bool")
    L.append("  arity : Nat")
    L.append("")
    # chunks keep each definition small for the elaborator
    CH = 40
    names = []
    for i in range(0, len(methods), CH):
        nm = f"traitMethods{i // CH}"
        names.append(nm)
        L.append(f"def {nm} : List Method := [")
        L.append(",\n".join(f"  ⟨{chars(t)}, {chars(n)}, {lean_bool(r)}, {lean_bool(f)}, {a}⟩" for t, n, r, f, a in methods[i:i + CH]))
        L.append("]")
    L.append("/-- every method of every `pub trait` of the crate -/")
    L.append("def traitMethods : List Method := " + " ++ ".join(names))
    L.append("")
    L.append("/-- a method of an `impl <Trait> for Result<Array<_>, ArrayError>` block. `kind`: 0 = `self.clone()?.m(args…)`,")
    L.append("1 = `Trait::m(&self.clone()?, args…)`, 2 = static forwarding `Array::m(args…)` / `arg.m()` (no receiver), 3 = anything else -/")
    L.append("structure ResultImpl where")
    L.append("  trait : List Char")
    L.append("  name : List Char")
    L.append("  receiver : Bool")
    L.append("  kind : Nat")
    L.append("")
    L.append("def ResultImpl.isDelegation (m : ResultImpl) : Bool := (m.receiver && (m.kind == 0 || m.kind == 1)) || (!m.receiver && m.kind == 2)")
    L.append("")
    kinds = {"delegation": 0, "ufcs": 1, "static": 2, "other": 3}
    names = []
    for i in range(0, len(impls), CH):
        nm = f"resultImpls{i // CH}"
        names.append(nm)
        L.append(f"def {nm} : List ResultImpl := [")
        L.append(",\n".join(f"  ⟨{chars(t)}, {chars(n)}, {lean_bool(r)}, {kinds[k]}⟩" for t, n, r, k, _ in impls[i:i + CH]))
        L.append("]")
    L.append("def resultImpls : List ResultImpl := " + " ++ ".join(names))
    L.append("")
    L.append("end ArrModel.Gen.Tables")
    return "\n".join(L) + "\n"


def main():
    try:
        parsers = [
            ("sortKind", option_parser("core/types/sort/mod.rs", "SortKind", "SortKindType", "parse_type", "parse_kind")),
            ("compareOp", option_parser("core/types/compare/mod.rs", "CompareOp", "CompareOpType", "parse_type", "parse_op")),
            ("bitOrder", option_parser("numeric/types/binary.rs", "BitOrder", "BitOrderType", "to_bit_order", None)),
            ("normOrd", option_parser("linalg/types/norms/norm_ord.rs", "NormOrd", "NormOrdType", "to_ord", "parse_ord")),
            ("convolveMode", option_parser("math/types/misc/convolve_mode.rs", "ConvolveMode", "ConvolveModeType", "to_mode", None)),
        ]
        errors = error_variants()
        methods, impls = inventory_and_impls()
        text = emit(parsers, errors, methods, impls)
    except Refuse as e:
        print(str(e)); return 1
    os.makedirs(os.path.dirname(OUT), exist_ok=True)
    old = open(OUT, encoding="utf-8").read() if os.path.exists(OUT) else None
    changed = old != text
    if changed:
        tmp = OUT + f".tmp{os.getpid()}"
        with open(tmp, "w", encoding="utf-8") as f: f.write(text)
        os.replace(tmp, OUT)
    nd = sum(1 for i in impls if i[3] != "other")
    print(f"gen_tables: {len(parsers)} option parsers ({sum(len(p['str'][0]) for _, p in parsers)} spellings), {len(errors)} error variants, "
          f"{len(methods)} trait methods ({sum(1 for m in methods if m[3])} fallible), {len(impls)} Result-receiver methods ({nd} delegations); "
          f"Tables.lean {'rewritten' if changed else 'unchanged'}")
    return 0


if __name__ == "__main__":
    sys.exit(main())
