#!/usr/bin/env python3
"""lead-only: refreshes the generated tables of DESIGN.md (§13.5 seeded changes, §13.6 status per property)"""
import json, os, re, subprocess, glob
ROOT = os.path.dirname(os.path.dirname(os.path.abspath(__file__)))
d = open(os.path.join(ROOT, "DESIGN.md")).read()
seeded = subprocess.run(["python3", os.path.join(ROOT, "tools", "seeded_table.py")], capture_output=True, text=True).stdout
rows = ["| id | theorems (obligations) | quick: cases / distinct non-trivial / wall | what the theorems cover (claims.d) |", "|---|---|---|---|"]
for l in open(os.path.join(ROOT, "properties.jsonl")):
    pid = json.loads(l)["id"]
    try:
        e = json.load(open(os.path.join(ROOT, "evidence", pid + ".json"))); c = e["coverage"]
        cl = json.load(open(os.path.join(ROOT, "claims.d", pid + ".json")))
        rows.append(f"| {pid} | {c['discharged']}/{c['obligations']} | {c['evaluations']} / {c['distinct_nontrivial']} / {e['wall_s']} s ({e['tier']}) | {cl['text'][:420].replace('|','/')}… |")
    except Exception as ex:
        rows.append(f"| {pid} | – | – | ({ex}) |")
status = "\n".join(rows)
def put(tag, body, d):
    b, e = f"<!-- {tag}-BEGIN -->", f"<!-- {tag}-END -->"
    if b not in d: d += f"\n{b}\n{e}\n"
    return re.sub(re.escape(b) + r".*?" + re.escape(e), lambda m: b + "\n" + body + "\n" + e, d, flags=re.S)
d = put("SEEDED-TABLE", seeded, d)
d = put("STATUS-TABLE", status, d)
open(os.path.join(ROOT, "DESIGN.md"), "w").write(d)
print("tables refreshed")
