#!/bin/bash
# lead-only helper: apply a validated fix diff to /repo, run the unedited suite, commit as "fix: ..."
# usage: tools/apply_fix.sh <diff> <commit message file>
set -e
cd /repo
git apply --check "$1"
git apply "$1"
out=$(CARGO_NET_OFFLINE=true cargo test --offline --no-fail-fast 2>&1 | grep -E "test result|FAILED|panicked|error\[" | head -12)
echo "$out"
if echo "$out" | grep -q "1571 passed; 0 failed" && echo "$out" | grep -q "258 passed; 0 failed"; then
  git add -A src
  git -c user.name=builder -c user.email=builder@example.com commit -q -F "$2"
  git log --oneline | head -1
else
  echo "SUITE DOES NOT PASS - reverting"; git checkout -- src; exit 1
fi
