#!/bin/bash
# lead-only helper: run a check against a scratch copy of the crate with a seeded change applied; /repo stays untouched.
# usage: tools/run_seeded.sh <Cxx> <patch.diff> [tier]
set -u
prop=$1; diff=$(readlink -f "$2"); tier=${3:-quick}
wt=/tmp/seedrun_$$
git -C /repo worktree add -f "$wt" HEAD -q || exit 2
( cd "$wt" && git apply "$diff" ) || { echo "patch does not apply"; git -C /repo worktree remove --force "$wt"; exit 2; }
cd /verif
VERIF_REPO="$wt" ./check "$prop" --tier "$tier" | grep -E "^(VIOLATION|KNOWN|C[0-9]+ tier)" | head -8
rc=${PIPESTATUS[0]}
if ls replays/$prop/0.json >/dev/null 2>&1; then python3 - "$prop" <<'PY'
import json,sys
d=json.load(open(f"/verif/replays/{sys.argv[1]}/0.json"))
print("  first replay:", d.get("case"), "| real:", str(d.get("observed_on_real_code"))[:90], "| model:", str(d.get("model_expected"))[:90])
PY
fi
git -C /repo worktree remove --force "$wt"
# the generated Lean files are shared: put the /repo versions back (under the same lock `check` uses)
( flock 9; python3 tools/gen_tables.py >/dev/null 2>&1; python3 tools/rs2lean.py >/dev/null 2>&1 ) 9>/verif/work/lake.lock
rm -rf /verif/work/target-$(python3 -c "import hashlib,sys;print(hashlib.sha1(sys.argv[1].encode()).hexdigest()[:10])" "$wt")
exit $rc
