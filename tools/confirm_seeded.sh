#!/bin/bash
# lead-only: independently confirm a seeded change (suite passes with it, demo fails with it and passes without), run the
# property's check against it, and store it under /verif/seeded/<id>/.   usage: confirm_seeded.sh <Cxx> <dir with mK.diff etc> <K> <id>
prop=$1; src=$2; k=$3; id=$4
wt=/tmp/confirm_$$
git -C /repo worktree add -f "$wt" HEAD -q || exit 2
cd "$wt"; mkdir -p examples
git apply "$src/m$k.diff" || { echo "no apply"; git -C /repo worktree remove --force "$wt"; exit 2; }
suite=$(CARGO_NET_OFFLINE=true cargo test --offline --no-fail-fast 2>&1 | grep "test result" | tr '\n' ' ')
suite_ok=false; echo "$suite" | grep -q "1571 passed; 0 failed" && echo "$suite" | grep -q "258 passed; 0 failed" && suite_ok=true
cp "$src/m${k}_demo.rs" examples/demo.rs
CARGO_NET_OFFLINE=true cargo run --offline --example demo >/dev/null 2>&1; with_rc=$?
git checkout -q -- src
CARGO_NET_OFFLINE=true cargo run --offline --example demo >/dev/null 2>&1; without_rc=$?
rm -f examples/demo.rs
cd /verif
git -C /repo worktree remove --force "$wt"
quick=$(tools/run_seeded.sh "$prop" "$src/m$k.diff" quick 2>&1); qrc=$?
caught_quick=false; [ $qrc -eq 1 ] && caught_quick=true
thor=""; caught_thorough=$caught_quick
if [ $qrc -ne 1 ]; then thor=$(tools/run_seeded.sh "$prop" "$src/m$k.diff" thorough 2>&1); [ $? -eq 1 ] && caught_thorough=true || caught_thorough=false; fi
mkdir -p seeded/$id
cp "$src/m$k.diff" seeded/$id/patch.diff; cp "$src/m${k}_demo.rs" seeded/$id/demo.rs
python3 - "$id" "$prop" "$src/m$k.json" "$suite_ok" "$with_rc" "$without_rc" "$caught_quick" "$caught_thorough" "${quick: -1500}" "${thor: -1500}" <<'PY'
import json,sys
id,prop,mj,suite_ok,with_rc,without_rc,cq,ct,quick,thor=sys.argv[1:]
try: m=json.load(open(mj))
except Exception: m={}
meta={"id":id,"breaks_property":prop,"what_changed":m.get("what_changed"),"needs_to_manifest":m.get("needs_to_manifest"),
 "author":"independent sub-agent given only the property text and a scratch worktree",
 "confirmed_by_lead":{"suite_passes_with_change":suite_ok=="true","demo_exit_code_with_change":int(with_rc),"demo_exit_code_without_change":int(without_rc),
   "ran":["git apply patch.diff in a scratch worktree of /repo HEAD","cargo test --offline --no-fail-fast (1571 + 258 doctests)","cargo run --example demo with and without the change"]},
 "check":{"command":f"VERIF_REPO=<scratch worktree with the patch> ./check {prop}","caught_by_quick":cq=="true","caught_by_thorough":ct=="true","quick_output":quick[-900:],"thorough_output":thor[-900:]}}
json.dump(meta,open(f"/verif/seeded/{id}/meta.json","w"),indent=1)
print(id, "suite_ok",suite_ok,"demo with/without",with_rc,without_rc,"caught quick/thorough",cq,ct)
PY
