#!/usr/bin/env python3
"""usage: add_finding.py <id> <property> <commit|open> <what> <found_by> <witness>... (lead-only helper; never used at check time)"""
import json, sys, os
p = os.path.join(os.path.dirname(os.path.dirname(os.path.abspath(__file__))), "known_findings.json")
d = json.load(open(p))
fid, prop, commit, what, found_by, *wit = sys.argv[1:]
d["findings"] = [f for f in d["findings"] if f["id"] != fid]
e = {"id": fid, "property": prop, "status": "open" if commit == "open" else "fixed", "what": what, "witnesses": wit, "found_by": found_by}
if commit != "open":
    e["commit"] = commit
    e["line"] = f"fixed: property={prop} {commit} {what}"
d["findings"].append(e)
json.dump(d, open(p, "w"), indent=1)
