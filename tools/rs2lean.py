#!/usr/bin/env python3
"""rs2lean.py - Rust-subset -> Lean 4 translator for the core funnel of arr-rs.

Re-reads <repo>/src (default /repo, or $VERIF_REPO) on every run and writes lean/ArrModel/Gen/Core.lean (only when the
content changes): one Lean `def` per Rust function of the list TARGETS below (plus the crate functions they call),
translated construct by construct into terms over the hand-written prelude lean/ArrModel/RsPrelude.lean.

  python3 tools/rs2lean.py            regenerate (exit 0; exit 3 + one line `rs2lean: refuse <file>:<fn>: <construct>`)
  python3 tools/rs2lean.py --check    exit 0 iff the file on disk equals what would be generated now
  python3 tools/rs2lean.py --out P    write to P instead (experiments)

Pipeline: tokenizer -> recursive-descent / Pratt parser (items, statements, expressions, patterns, types) -> typed,
effect-aware translation.  Every Rust expression becomes either a PURE Lean term of the value type or a COMPUTATION in
`Res` (ok / err / panic).  `usize`/`isize` are `Nat`/`Int` (wrap-around at 2^64 is outside the model), references and
clones are erased, error payloads are dropped.  No per-function templates: the only tables are the typing/meaning of the
`std` methods (STD_* below), which name the prelude function each one becomes.
"""
import os, re, sys

REPO = os.environ.get("VERIF_REPO") or "/repo"
SRC = os.path.join(REPO, "src")
ROOT = os.path.dirname(os.path.dirname(os.path.abspath(__file__)))
OUT = os.path.join(ROOT, "lean", "ArrModel", "Gen", "Core.lean")

# (file, trait or None, self-type head, [functions])
TARGETS = [
    ("core/operations/meta.rs", "ArrayMeta", "Array", ["get_elements", "get_shape", "ndim", "len", "is_empty"]),
    ("validators/shape.rs", "ValidateShape", "Vec", ["is_broadcastable", "matches_values_len", "matches_shape", "shapes_align"]),
    ("validators/shape.rs", "ValidateShape", "Array", ["is_broadcastable", "matches_values_len", "matches_shape", "shapes_align"]),
    ("core/operations/create.rs", "ArrayCreate", "Array", ["new", "create", "single", "flat", "empty"]),
    ("core/operations/iter.rs", "FromIterator", "Array", ["from_iter"]),
    ("extensions/array_ext.rs", "ArrayCreateExt", "T", ["to_array"]),
    ("extensions/array_ext.rs", "ArrayCreateExt", "Vec", ["to_array"]),
    ("extensions/array_ext.rs", "ArrayExt", "Array", ["to_array_ndim"]),
    ("core/operations/manipulate.rs", "ArrayManipulate", "Array", ["reshape", "ravel", "resize", "atleast"]),
    ("core/operations/manipulate.rs", None, "Array", ["atleast_1d", "atleast_2d", "atleast_3d", "normalize_axis", "normalize_axis_dim"]),
    ("core/operations/indexing.rs", "ArrayIndexing", "Array", ["index_at", "index_to_coord", "at"]),
    ("validators/axis.rs", "ValidateAxis", "Array", ["axis_in_bounds", "axis_opt_in_bounds"]),
    ("validators/dimension.rs", "ValidateDimension", "usize", ["is_dim_supported", "is_dim_unsupported"]),
    ("validators/dimension.rs", "ValidateDimension", "Array", ["is_dim_supported", "is_dim_unsupported"]),
    ("validators/compare.rs", "ValidateEqual", "T", ["is_equal", "is_at_least"]),
    ("extensions/vec_ext.rs", "VecRemoveAt", "Vec", ["remove_at", "remove_at_if"]),
    ("extensions/vec_ext.rs", "VecInsertAt", "Vec", ["insert_at"]),
    ("extensions/vec_ext.rs", "VecUpdateAt", "Vec", ["update_at"]),
    ("extensions/vec_ext.rs", "VecReverse", "Vec", ["reverse_ext", "reverse_if"]),
    ("extensions/vec_ext.rs", "VecSwap", "Vec", ["swap_ext"]),
    # phase 2
    ("extensions/iter_ext.rs", "IterSorted", "Iter", ["sorted"]),
    ("validators/unique.rs", "ValidateUnique", "Vec", ["is_unique"]),
    ("core/operations/axis.rs", "ArrayAxis", "Array", ["moveaxis", "rollaxis", "swapaxes", "expand_dims", "squeeze"]),
    # phase 2b
    ("validators/has_error.rs", "ValidateHasError", "Vec", ["has_error"]),
    ("core/operations/broadcast.rs", None, "Array", ["broadcast_shape"]),
]
# crate functions OUTSIDE the translated set: a caller takes them as a parameter of the generated definition (signature only is read)
EXTERNALS = [
    ("core/operations/axis.rs", "ArrayAxis", "Array", "transpose"),
]
# files whose impls are visible to method resolution (callees are translated on demand)
FILES = sorted({t[0] for t in TARGETS})


class Refuse(Exception):
    def __init__(self, what, where=None):
        Exception.__init__(self, what)
        self.what, self.where = what, where


# ---------------------------------------------------------------------------------------------------------------------
# 1. tokenizer
# ---------------------------------------------------------------------------------------------------------------------
PUNCT3 = ["..=", "<<=", ">>=", "..."]
PUNCT2 = ["::", "->", "=>", "==", "!=", "<=", ">=", "&&", "||", "+=", "-=", "*=", "/=", "%=", "..", "<<", ">>", "|=", "&=", "^="]
TOKEN_RE = re.compile(r"""
    (?P<ws>\s+) | (?P<lc>//[^\n]*) | (?P<bc>/\*.*?\*/) |
    (?P<str>b?"(?:\\.|[^"\\])*") |
    (?P<life>'[A-Za-z_][A-Za-z0-9_]*(?!')) |
    (?P<chr>b?'(?:\\.|[^'\\])') |
    (?P<num>\d[\d_]*(?:\.\d[\d_]*)?(?:[eE][+-]?\d+)?(?:_?[iuf]\d+|_?[iu]size)?\.?(?![\w.])|\d[\d_]*(?:_?[iuf]\d+|_?[iu]size)?) |
    (?P<id>[A-Za-z_][A-Za-z0-9_]*)
""", re.X | re.S)


class Tok:
    __slots__ = ("k", "v", "line")
    def __init__(self, k, v, line): self.k, self.v, self.line = k, v, line
    def __repr__(self): return f"{self.k}:{self.v}"


def tokenize(text):
    toks, i, line, n = [], 0, 1, len(text)
    while i < n:
        m = TOKEN_RE.match(text, i)
        if m and m.end() > i:
            k = m.lastgroup; v = m.group(k)
            if k not in ("ws", "lc", "bc"): toks.append(Tok(k, v, line))
            line += v.count("\n"); i = m.end(); continue
        for p in PUNCT3 + PUNCT2:
            if text.startswith(p, i):
                toks.append(Tok("p", p, line)); i += len(p); break
        else:
            toks.append(Tok("p", text[i], line)); i += 1
    toks.append(Tok("eof", "", line))
    return toks


# ---------------------------------------------------------------------------------------------------------------------
# 2. parser (AST = tuples `(kind, ...)`)
# ---------------------------------------------------------------------------------------------------------------------
BINPREC = {"||": 1, "&&": 2, "==": 3, "!=": 3, "<": 3, ">": 3, "<=": 3, ">=": 3, "|": 4, "^": 5, "&": 6, "<<": 7, ">>": 7,
           "+": 8, "-": 8, "*": 9, "/": 9, "%": 9}
ASSIGN_OPS = {"=", "+=", "-=", "*=", "/=", "%=", "|=", "&=", "^=", "<<=", ">>="}


class Parser:
    def __init__(self, toks, fname):
        self.t, self.i, self.fname = toks, 0, fname
        self.no_struct = False

    # -- helpers
    def peek(self, o=0): return self.t[min(self.i + o, len(self.t) - 1)]
    def at(self, v, o=0): return self.peek(o).v == v and self.peek(o).k in ("p", "id")
    def next(self): tk = self.t[self.i]; self.i += 1; return tk
    def fail(self, what): raise Refuse(f"{what} (line {self.peek().line})")
    def expect(self, v):
        if not self.at(v): self.fail(f"syntax: expected `{v}` before `{self.peek().v}`")
        return self.next()
    def accept(self, v):
        if self.at(v): self.next(); return True
        return False
    def ident(self):
        if self.peek().k != "id": self.fail(f"syntax: identifier expected before `{self.peek().v}`")
        return self.next().v
    def split_shift(self):
        """`>>` closing two generic lists: split into two `>`"""
        tk = self.peek()
        if tk.k == "p" and tk.v in (">>", ">=", ">>="):
            rest = tk.v[1:]
            self.t[self.i:self.i + 1] = [Tok("p", ">", tk.line), Tok("p", rest, tk.line)]

    def skip_balanced(self, open_, close):
        depth = 0
        while True:
            tk = self.next()
            if tk.k == "eof": self.fail("syntax: unbalanced brackets")
            if tk.k == "p" and tk.v == open_: depth += 1
            elif tk.k == "p" and tk.v == close:
                depth -= 1
                if depth == 0: return

    def skip_attrs(self):
        while self.at("#"):
            self.next(); self.accept("!")
            self.skip_balanced("[", "]")

    # -- types
    def parse_type(self):
        if self.accept("&"):
            if self.peek().k == "life": self.next()
            self.accept("mut")
            return ("ref", self.parse_type())
        if self.at("&&"):
            self.next(); self.accept("mut"); return ("ref", ("ref", self.parse_type()))
        if self.accept("("):
            items = []
            while not self.at(")"):
                items.append(self.parse_type())
                if not self.accept(","): break
            self.expect(")")
            return ("tuple", items)
        if self.accept("["):
            t = self.parse_type()
            if self.accept(";"): self.parse_expr()
            self.expect("]")
            return ("path", ["Vec"], [t])
        if self.at("impl") or self.at("dyn"):
            self.next(); b = self.parse_bounds(); return ("impl", b)
        segs, args = [], []
        while True:
            segs.append(self.ident())
            if self.at("<"):
                args = self.parse_generic_args()
            if self.at("::") and self.peek(1).k == "id": self.next(); continue
            break
        return ("path", segs, args)

    def parse_generic_args(self):
        self.expect("<")
        args = []
        while True:
            self.split_shift()
            if self.at(">"): break
            if self.peek().k == "life": self.next()
            elif self.peek().k == "id" and self.at("=", 1):
                name = self.next().v; self.next(); args.append(("assoc", name, self.parse_type()))
            else: args.append(self.parse_type())
            if not self.accept(","): break
        self.split_shift()
        self.expect(">")
        return args

    def parse_bounds(self):
        bounds = []
        while True:
            if self.peek().k == "life": self.next()
            elif self.at("?"): self.next(); self.parse_type()
            else:
                t = self.parse_type()
                if self.at("(") and t[0] == "path":     # FnMut(&T) -> S
                    self.skip_balanced("(", ")")
                    if self.accept("->"): self.parse_type()
                bounds.append(t)
            if not self.accept("+"): break
        return bounds

    def parse_generics(self):
        """`<T: A + B, 'a, N>` -> [(name, bounds)]"""
        out = []
        if not self.at("<"): return out
        self.next()
        while True:
            self.split_shift()
            if self.at(">"): break
            if self.peek().k == "life":
                self.next()
                if self.accept(":"): self.parse_bounds()
            else:
                if self.accept("const"): pass
                name = self.ident(); b = []
                if self.accept(":"): b = self.parse_bounds()
                out.append((name, b))
            if not self.accept(","): break
        self.split_shift(); self.expect(">")
        return out

    def skip_where(self):
        """-> [(type name, bounds)] of the `where` clause"""
        out = []
        if self.accept("where"):
            while not self.at("{") and not self.at(";"):
                t = self.parse_type(); self.expect(":"); b = self.parse_bounds()
                if t[0] == "path" and len(t[1]) == 1 and not t[2]: out.append((t[1][0], b))
                if not self.accept(","): break
        return out

    # -- items
    def parse_file(self):
        """-> list of impls: dict(generics, trait, selfty, fns: {name: fndict})"""
        impls = []
        self.traits = {}
        while self.peek().k != "eof":
            self.skip_attrs()
            if self.at("impl"):
                impls.append(self.parse_impl())
            elif self.at("trait") and self.peek(1).k == "id":
                self.parse_trait()
            elif self.at("{"): self.skip_balanced("{", "}")
            elif self.at("("): self.skip_balanced("(", ")")
            elif self.at("["): self.skip_balanced("[", "]")
            else: self.next()
        return impls

    def parse_trait(self):
        """remember the provided (default-bodied) methods of a trait; an impl without its own version inherits them"""
        self.expect("trait"); name = self.ident()
        gen = self.parse_generics()
        if self.accept(":"): self.parse_bounds()
        self.skip_where()
        fns = self.parse_impl_items(defaults_only=True)
        self.traits[name] = ([g for g, _ in gen], fns)

    def parse_impl(self):
        self.expect("impl")
        gen = self.parse_generics()
        first = self.parse_type()
        trait, selfty = None, first
        if self.accept("for"):
            trait, selfty = first, self.parse_type()
        for name, b in self.skip_where():
            gen = [(g, gb + b) if g == name else (g, gb) for g, gb in gen]
        fns = self.parse_impl_items()
        if trait is not None and trait[0] == "path" and trait[1][-1] in self.traits:
            tgen, tfns = self.traits[trait[1][-1]]
            if all(any(g == n for n, _ in gen) for g in tgen):
                for n, f in tfns.items(): fns.setdefault(n, f)
        return {"generics": gen, "trait": trait, "selfty": selfty, "fns": fns, "consts": []}

    def parse_impl_items(self, defaults_only=False):
        self.expect("{")
        fns, others = {}, []
        while not self.at("}"):
            self.skip_attrs()
            while self.at("pub") or self.at("default") or self.at("async") or self.at("unsafe"):
                v = self.next().v
                if v == "pub" and self.at("("): self.skip_balanced("(", ")")
            if self.at("fn"):
                line = self.peek().line
                self.next(); name = self.ident()
                start_i = self.i
                fn = {"name": name, "line": line, "tok": self.t[start_i], "parsed": False}
                # skip signature + body, remember where it starts (parsed on demand)
                while not self.at("{") and not self.at(";"):
                    if self.at("("): self.skip_balanced("(", ")")
                    elif self.at("["): self.skip_balanced("[", "]")
                    else: self.next()
                has_body = self.at("{")
                if has_body: self.skip_balanced("{", "}")
                else: self.next()
                fn["end_line"] = self.t[self.i - 1].line
                if has_body or not defaults_only: fns[name] = fn
            elif self.at("type") or self.at("const"):
                others.append(self.peek().v)
                while not self.at(";"):
                    if self.at("{"): self.skip_balanced("{", "}")
                    else: self.next()
                self.next()
            else:
                self.fail(f"syntax: item `{self.peek().v}` inside impl")
        self.expect("}")
        return fns

    def parse_fn_at(self, fn, sig_only=False):
        """parse signature and body of the function whose name token precedes index fn['tok']"""
        self.i = next(k for k, tk in enumerate(self.t) if tk is fn["tok"])
        fn["generics"] = self.parse_generics()
        self.expect("(")
        params = []
        while not self.at(")"):
            self.skip_attrs()
            if self.at("&") and (self.at("self", 1) or (self.at("mut", 1) and self.at("self", 2)) or
                                 (self.peek(1).k == "life" and (self.at("self", 2) or self.at("self", 3)))):
                self.next()
                if self.peek().k == "life": self.next()
                mut = self.accept("mut"); self.expect("self")
                params.append(("self", "refmut" if mut else "ref", None))
            elif self.at("self") or (self.at("mut") and self.at("self", 1)):
                mut = self.accept("mut"); self.next()
                params.append(("self", "mut" if mut else "val", None))
            else:
                pat = self.parse_pattern()
                self.expect(":")
                params.append(("pat", pat, self.parse_type()))
            if not self.accept(","): break
        self.expect(")")
        fn["params"] = params
        fn["ret"] = self.parse_type() if self.accept("->") else ("tuple", [])
        self.skip_where()
        if sig_only: return fn
        fn["body"] = self.parse_block()
        fn["parsed"] = True
        return fn

    # -- patterns
    def parse_pattern(self):
        if self.accept("&"):
            self.accept("mut"); return ("pref", self.parse_pattern())
        if self.at("&&"):
            self.next(); return ("pref", ("pref", self.parse_pattern()))
        if self.accept("_"): return ("pwild",)
        if self.accept("("):
            items = []
            while not self.at(")"):
                items.append(self.parse_pattern())
                if not self.accept(","): break
            self.expect(")")
            return items[0] if len(items) == 1 and self.t[self.i - 2].v != "," else ("ptuple", items)
        if self.peek().k == "num":
            return ("plit", self.next().v)
        if self.accept("-") and self.peek().k == "num":
            return ("plit", "-" + self.next().v)
        if self.at("["): self.fail("slice pattern")
        if self.at("ref"): self.fail("`ref` pattern")
        mut = self.accept("mut")
        name = self.ident()
        if self.at("::"):
            segs = [name]
            while self.accept("::"): segs.append(self.ident())
            name = segs[-1]
            if name not in ("Some", "None", "Ok", "Err"): self.fail(f"pattern path `{'::'.join(segs)}`")
        if name in ("Some", "Ok", "Err") and self.at("("):
            self.next(); inner = self.parse_pattern(); self.expect(")")
            return ("pctor", name, inner)
        if name == "None": return ("pctor", "None", None)
        if self.at("(") or self.at("{"): self.fail(f"pattern `{name}(..)`")
        if self.at("@"): self.fail("`@` pattern")
        if self.at("..") or self.at("..="): self.fail("range pattern")
        return ("pid", name, mut)

    # -- statements / blocks
    def parse_block(self):
        self.expect("{")
        stmts, tail = [], None
        while not self.at("}"):
            self.skip_attrs()
            if self.accept(";"): continue
            if self.at("let"):
                self.next()
                pat = self.parse_pattern()
                ty = self.parse_type() if self.accept(":") else None
                init = None
                if self.accept("="): init = self.parse_expr()
                if self.at("else"): self.fail("`let ... else`")
                self.expect(";")
                stmts.append(("let", pat, ty, init))
                continue
            if self.at("const") and self.peek(1).k == "id" and self.at(":", 2):
                # `const NAME: T = e;` inside a body: a `let` whose initialiser must be a pure expression
                self.next(); name = self.ident(); self.expect(":"); ty = self.parse_type(); self.expect("=")
                init = self.parse_expr(); self.expect(";")
                stmts.append(("let", ("pid", name, False), ty, ("constinit", init)))
                continue
            if self.at("const") or self.at("static") or self.at("fn") or self.at("use") or self.at("struct") or self.at("impl"):
                self.fail(f"nested item `{self.peek().v}`")
            e = self.parse_expr(stmt=True)
            if self.accept(";"): stmts.append(("expr", e)); continue
            if self.at("}"): tail = e; break
            if e[0] in ("if", "match", "for", "block", "while", "loop", "iflet"): stmts.append(("expr", e)); continue
            self.fail(f"syntax: `;` expected before `{self.peek().v}`")
        self.expect("}")
        return ("block", stmts, tail)

    # -- expressions
    def parse_expr(self, stmt=False, no_struct=None):
        saved = self.no_struct
        if no_struct is not None: self.no_struct = no_struct
        try:
            return self.parse_assign(stmt)
        finally:
            self.no_struct = saved

    def parse_assign(self, stmt=False):
        lhs = self.parse_range(stmt)
        if self.peek().k == "p" and self.peek().v in ASSIGN_OPS:
            op = self.next().v
            rhs = self.parse_assign()
            return ("assign", op, lhs, rhs)
        return lhs

    def parse_range(self, stmt=False):
        if self.at("..") or self.at("..="):
            op = self.next().v
            hi = None if self.range_end() else self.parse_bin(1)
            return ("range", None, hi, op == "..=")
        lo = self.parse_bin(1, stmt)
        if self.at("..") or self.at("..="):
            op = self.next().v
            hi = None if self.range_end() else self.parse_bin(1)
            return ("range", lo, hi, op == "..=")
        return lo

    def range_end(self):
        tk = self.peek()
        return tk.k == "p" and tk.v in (")", "]", "}", ",", ";", "=>") or (self.no_struct and tk.v == "{")

    def parse_bin(self, minprec, stmt=False):
        lhs = self.parse_unary(stmt)
        if stmt and lhs[0] in ("if", "match", "for", "block", "while", "loop", "iflet"):
            return lhs          # block-like expression statement ends here
        while True:
            tk = self.peek()
            if tk.k != "p" or tk.v not in BINPREC: break
            prec = BINPREC[tk.v]
            if prec < minprec: break
            op = self.next().v
            rhs = self.parse_bin(prec + 1)
            if prec == 3 and self.peek().k == "p" and self.peek().v in BINPREC and BINPREC[self.peek().v] == 3:
                self.fail("syntax: chained comparison")
            lhs = ("bin", op, lhs, rhs)
        if self.at("as"): self.fail("`as` cast")
        return lhs

    def parse_unary(self, stmt=False):
        if self.accept("-"): return ("un", "-", self.parse_unary())
        if self.accept("!"): return ("un", "!", self.parse_unary())
        if self.accept("*"): return ("deref", self.parse_unary())
        if self.accept("&"):
            self.accept("mut"); return ("addr", self.parse_unary())
        if self.at("&&"):
            self.next(); self.accept("mut"); return ("addr", ("addr", self.parse_unary()))
        e = self.parse_postfix(self.parse_primary())
        if self.at("as"): self.fail("`as` cast")
        return e

    def parse_args(self):
        self.expect("(")
        saved, self.no_struct = self.no_struct, False
        args = []
        while not self.at(")"):
            args.append(self.parse_expr())
            if not self.accept(","): break
        self.expect(")")
        self.no_struct = saved
        return args

    def parse_postfix(self, e):
        while True:
            if self.at("?"): self.next(); e = ("try", e); continue
            if self.at("."):
                if self.peek(1).k == "num":
                    self.next(); n = self.next().v
                    for part in n.split("."):           # `x.0.1` tokenises as number `0.1`
                        if part != "": e = ("tfield", e, int(part))
                    continue
                if self.peek(1).k != "id": break
                self.next(); name = self.ident()
                if name == "await": self.fail("`.await`")
                turbofish = None
                if self.at("::") and self.at("<", 1):
                    self.next(); turbofish = self.parse_generic_args()
                if self.at("("):
                    e = ("mcall", e, name, turbofish, self.parse_args())
                else:
                    e = ("field", e, name)
                continue
            if self.at("("):
                e = ("call", e, self.parse_args()); continue
            if self.at("["):
                self.next()
                saved, self.no_struct = self.no_struct, False
                ix = self.parse_expr()
                self.no_struct = saved
                self.expect("]")
                e = ("index", e, ix); continue
            break
        return e

    def parse_closure(self):
        self.accept("move")
        params = []
        if self.accept("||"): pass
        else:
            self.expect("|")
            while not self.at("|"):
                p = self.parse_pattern()
                ty = self.parse_type() if self.accept(":") else None
                params.append((p, ty))
                if not self.accept(","): break
            self.expect("|")
        if self.accept("->"):
            self.parse_type(); body = self.parse_block()
        else:
            body = self.parse_expr()
        return ("closure", params, body)

    def parse_primary(self):
        tk = self.peek()
        if tk.k == "num":
            self.next()
            m = re.fullmatch(r"(\d[\d_]*)(?:_?(usize|isize|[iu]\d+))?", tk.v)
            if not m: self.fail(f"float literal `{tk.v}`")
            return ("int", int(m.group(1).replace("_", "")), m.group(2))
        if tk.k == "str": self.next(); return ("str", tk.v)
        if tk.k == "chr": self.fail("char literal")
        if tk.k == "life": self.fail("loop label")
        if tk.k == "p":
            if tk.v == "(":
                self.next()
                saved, self.no_struct = self.no_struct, False
                items, trailing = [], False
                while not self.at(")"):
                    items.append(self.parse_expr()); trailing = False
                    if not self.accept(","): break
                    trailing = True
                self.expect(")")
                self.no_struct = saved
                if len(items) == 1 and not trailing: return ("paren", items[0])
                return ("tuple", items)
            if tk.v == "[":
                self.next()
                saved, self.no_struct = self.no_struct, False
                items = []
                rep = None
                while not self.at("]"):
                    items.append(self.parse_expr())
                    if self.accept(";"): rep = self.parse_expr(); break
                    if not self.accept(","): break
                self.expect("]")
                self.no_struct = saved
                return ("vecrep", items[0], rep) if rep is not None else ("veclit", items)
            if tk.v in ("|", "||"): return self.parse_closure()
            if tk.v == "{": return self.parse_block()
            if tk.v == "<": self.fail("qualified path `<T as Trait>::`")
            self.fail(f"syntax: unexpected `{tk.v}`")
        # identifiers / keywords
        if tk.v == "move": return self.parse_closure()
        if tk.v == "if": return self.parse_if()
        if tk.v == "match": return self.parse_match()
        if tk.v == "for":
            self.next(); pat = self.parse_pattern(); self.expect("in")
            it = self.parse_expr(no_struct=True)
            return ("for", pat, it, self.parse_block())
        if tk.v in ("while", "loop"): self.fail(f"`{tk.v}` loop")
        if tk.v == "unsafe": self.fail("`unsafe` block")
        if tk.v == "return":
            self.next()
            if self.peek().k == "p" and self.peek().v in (";", "}", ",", ")"): return ("return", None)
            return ("return", self.parse_expr())
        if tk.v in ("break", "continue"): self.fail(f"`{tk.v}`")
        # path, possibly macro / struct literal
        segs, targs = [], None
        while True:
            segs.append(self.ident())
            if self.at("::"):
                if self.at("<", 1):
                    self.next(); targs = self.parse_generic_args()
                    if self.at("::"): continue_ = True
                    else: break
                self.next(); continue
            break
        if self.at("!") and not self.at("=", 1) and self.peek(1).k == "p" and self.peek(1).v in ("(", "[", "{"):
            self.next()
            name = segs[-1]
            if name == "vec":
                self.expect("[")
                saved, self.no_struct = self.no_struct, False
                items, rep = [], None
                while not self.at("]"):
                    items.append(self.parse_expr())
                    if self.accept(";"): rep = self.parse_expr(); break
                    if not self.accept(","): break
                self.expect("]")
                self.no_struct = saved
                return ("vecrep", items[0], rep) if rep is not None else ("veclit", items)
            o = self.peek().v
            self.skip_balanced(o, {"(": ")", "[": "]", "{": "}"}[o])
            return ("macro", name)
        if self.at("{") and not self.no_struct and (segs[-1][0].isupper()):
            self.next()
            fields = []
            while not self.at("}"):
                if self.at(".."): self.fail("struct update syntax")
                fname = self.ident()
                fe = self.parse_expr() if self.accept(":") else ("path", [fname], None)
                fields.append((fname, fe))
                if not self.accept(","): break
            self.expect("}")
            return ("struct", segs, fields)
        return ("path", segs, targs)

    def parse_if(self):
        self.expect("if")
        if self.accept("let"):
            pat = self.parse_pattern(); self.expect("=")
            scrut = self.parse_expr(no_struct=True)
            if self.at("&&"): self.fail("let chain")
            then = self.parse_block()
            els = None
            if self.accept("else"):
                els = self.parse_if() if self.at("if") else self.parse_block()
            return ("iflet", pat, scrut, then, els)
        cond = self.parse_expr(no_struct=True)
        then = self.parse_block()
        els = None
        if self.accept("else"):
            els = self.parse_if() if self.at("if") else self.parse_block()
        return ("if", cond, then, els)

    def parse_match(self):
        self.expect("match")
        scrut = self.parse_expr(no_struct=True)
        self.expect("{")
        arms = []
        while not self.at("}"):
            self.skip_attrs()
            self.accept("|")
            pat = self.parse_pattern()
            if self.at("|"): self.fail("or-pattern")
            if self.at("if"): self.fail("match guard")
            self.expect("=>")
            saved, self.no_struct = self.no_struct, False
            body = self.parse_expr(stmt=True)
            self.no_struct = saved
            arms.append((pat, body))
            if not self.accept(","):
                if not self.at("}") and body[0] not in ("block", "if", "match", "iflet"): self.fail("syntax: `,` expected in match")
        self.expect("}")
        return ("match", scrut, arms)



# ---------------------------------------------------------------------------------------------------------------------
# 3. types
# ---------------------------------------------------------------------------------------------------------------------
UNARY_TYPES = ("Vec", "Iter", "Collect", "Cycle", "Array", "Option", "Result", "HashSet")
USIZE, ISIZE, INTQ, BOOL, UNIT, STR, NEVER, UNK, ERR = ("usize",), ("isize",), ("int?",), ("bool",), ("unit",), ("str",), ("never",), ("unk",), ("Err",)
GREEK = ["α", "β", "γ", "δ"]
LEAN_KEYWORDS = {"at", "from", "end", "then", "fun", "in", "do", "show", "have", "open", "with", "where", "instance", "type", "by",
                 "let", "if", "else", "match", "def", "theorem", "namespace", "section", "variable", "export", "import", "prefix",
                 "infix", "notation", "macro", "syntax", "structure", "class", "inductive", "deriving", "private", "protected",
                 "mutual", "universe", "local", "set_option", "using", "calc", "obtain", "suffices", "return", "for", "unless",
                 "abbrev", "axiom", "example", "opaque", "partial", "unsafe", "nomatch", "nofun", "this", "Type", "Prop", "Sort"}


def is_int(t): return t in (USIZE, ISIZE, INTQ)
def is_seq(t): return t[0] in ("Vec", "Iter", "Collect")


def lean_ty(t):
    k = t[0]
    if k in ("usize", "int?"): return "Nat"
    if k == "isize": return "Int"
    if k == "bool": return "Bool"
    if k == "unit": return "Unit"
    if k == "var": return t[1]
    if k in ("Vec", "Iter", "Collect", "Cycle", "HashSet"): return f"List {par(lean_ty(t[1]))}"
    if k == "Array": return f"Arr {par(lean_ty(t[1]))}"
    if k == "Option": return f"Option {par(lean_ty(t[1]))}"
    if k == "Result": return f"Res {par(lean_ty(t[1]))}"
    if k == "Tuple": return " × ".join(par(lean_ty(x)) for x in t[1])
    if k == "Err": return "Err"
    if k in ("Repeat", "Padded"): return "_"
    if k == "str": return "String"
    return "_"


def has_unknown(t):
    if t[0] in ("unk", "never"): return True
    if t[0] in UNARY_TYPES: return has_unknown(t[1])
    if t[0] == "Tuple": return any(has_unknown(x) for x in t[1])
    return False


ATOM_RE = re.compile(r"[\w.α-ω'?!]+")


def balanced_wrap(s):
    """is `s` one bracketed group?"""
    if not s or s[0] not in "([{⟨" : return False
    close = {"(": ")", "[": "]", "{": "}", "⟨": "⟩"}[s[0]]
    depth = 0
    for i, c in enumerate(s):
        if c == s[0]: depth += 1
        elif c == close:
            depth -= 1
            if depth == 0: return i == len(s) - 1
    return False


def par(s):
    s = s.strip()
    if ATOM_RE.fullmatch(s) or balanced_wrap(s): return s
    return "(" + s + ")"


def unify(a, b, what="types"):
    """least informative common type; raises Refuse on a clash"""
    if a == b: return a
    if a[0] == "never": return b
    if b[0] == "never": return a
    if a[0] == "unk": return b
    if b[0] == "unk": return a
    if a == INTQ and is_int(b): return b
    if b == INTQ and is_int(a): return a
    if is_seq(a) and is_seq(b):
        k = "Vec" if "Vec" in (a[0], b[0]) else ("Iter" if "Iter" in (a[0], b[0]) else "Collect")
        return (k, unify(a[1], b[1], what))
    if a[0] == b[0] and a[0] in ("Array", "Option", "Result", "Cycle", "HashSet"): return (a[0], unify(a[1], b[1], what))
    if a[0] == b[0] == "Tuple" and len(a[1]) == len(b[1]): return ("Tuple", tuple(unify(x, y, what) for x, y in zip(a[1], b[1])))
    raise Refuse(f"type mismatch in {what}: {show_ty(a)} vs {show_ty(b)}")


def show_ty(t):
    if t[0] in UNARY_TYPES: return f"{t[0]}<{show_ty(t[1])}>"
    if t[0] == "Tuple": return "(" + ", ".join(show_ty(x) for x in t[1]) + ")"
    if t[0] == "var": return t[2] if len(t) > 2 else t[1]
    return t[0]


def match_ty(pat, act, sub):
    """instantiate the type variables of `pat` so that it fits `act`"""
    if pat[0] == "var":
        if pat[1] in sub: sub[pat[1]] = unify(sub[pat[1]], act, "generic instantiation")
        else: sub[pat[1]] = act
        return
    if act[0] in ("unk", "never"): return
    if (len(pat) == 1 and pat == act) or (is_int(pat) and is_int(act) and INTQ in (pat, act)): return
    if is_seq(pat) and is_seq(act): return match_ty(pat[1], act[1], sub)
    if pat[0] == act[0] and pat[0] in ("Array", "Option", "Result", "Cycle", "HashSet"): return match_ty(pat[1], act[1], sub)
    if pat[0] == act[0] == "Tuple" and len(pat[1]) == len(act[1]):
        for x, y in zip(pat[1], act[1]): match_ty(x, y, sub)
        return
    raise Refuse(f"argument type {show_ty(act)} where {show_ty(pat)} is expected")


def subst_ty(t, sub):
    if t[0] == "var": return sub.get(t[1], UNK)
    if t[0] in UNARY_TYPES: return (t[0], subst_ty(t[1], sub))
    if t[0] == "Tuple": return ("Tuple", tuple(subst_ty(x, sub) for x in t[1]))
    return t





class E:
    """a translated expression: Lean term, Rust type, purity.
    pure: term : [[ty]]  (a `Result<T,_>` value is a `Res T`)      not pure: term : Res [[ty]]  (`Result<T,_>`: `Res T`, joined)
    early: an error inside may come from `?` / `return Err` (it must reach the function result, so it may not be captured as a value)"""
    __slots__ = ("term", "ty", "pure", "early", "chain")
    def __init__(self, term, ty, pure=True, early=False):
        self.term, self.ty, self.pure, self.early = term, ty, pure, early
        self.chain = None      # (binds, final term, final is a value): set by Seq.wrap, lets an enclosing Seq splice the binds (monad laws)


def emit_binds(binds, body):
    for kind, v, term, ty in reversed(binds):
        ann = v if has_unknown(ty) else f"({v} : {lean_ty(ty)})"
        if kind == "bind": body = f"{par(term)} >>= fun {ann} =>\n{body}"
        else: body = f"Rs.strict {par(term)} fun {ann} =>\n{body}"
    return body


def comp_term(e):
    if not e.pure: return e.term
    if e.ty[0] == "Result": return e.term
    return f"Res.ok {par(e.term)}"


def blk(t):
    return par(t) if ("\n" in t or t.startswith("let ")) else t


def tuple_proj(n, i):
    return ".2" * i + (".1" if i < n - 1 else "")


VEC_MUTATORS = {"push", "extend_from_slice", "extend", "insert", "remove", "swap", "reverse", "clear", "truncate", "sort",
                "sort_unstable", "dedup", "retain", "append", "pop", "resize", "sort_by", "dedup_by_key", "drain", "rotate_left",
                "rotate_right", "fill", "clone_from_slice", "copy_from_slice", "extend_from_within", "swap_remove"}
ERASED = {"clone", "to_vec", "to_owned", "into", "iter", "into_iter", "copied", "cloned", "as_slice", "as_ref", "borrow"}


def walk(ast):
    """all sub-nodes of an AST node"""
    if isinstance(ast, tuple):
        if ast and isinstance(ast[0], str): yield ast
        for x in ast: yield from walk(x)
    elif isinstance(ast, list):
        for x in ast: yield from walk(x)


def place_root(ast):
    """local variable a place expression is rooted in (`x`, `x[i]`, `x.0`, `*x`), else None"""
    while True:
        if ast[0] == "path" and len(ast[1]) == 1: return ast[1][0]
        if ast[0] in ("index", "tfield", "field", "deref", "paren", "addr"): ast = ast[1]; continue
        return None


def pat_names(pat):
    if pat[0] == "pid": return [pat[1]]
    if pat[0] == "pref": return pat_names(pat[1])
    if pat[0] == "ptuple": return [n for p in pat[1] for n in pat_names(p)]
    if pat[0] == "pctor" and pat[2] is not None: return pat_names(pat[2])
    return []


def mutated_vars(ast, env):
    """outer locals assigned / mutated in place inside `ast` (in first-mutation order)"""
    out, local = [], set()
    for n in walk(ast):
        if n[0] == "let": local.update(pat_names(n[1]))
        elif n[0] == "closure":
            for p, _ in n[1]: local.update(pat_names(p))
        elif n[0] == "for": local.update(pat_names(n[1]))
        r = None
        if n[0] == "assign": r = place_root(n[2])
        elif n[0] == "mcall" and n[2] in VEC_MUTATORS: r = place_root(n[1])
        if r is not None and r in env and r not in local and r not in out: out.append(r)
    return out


def always_returns(ast):
    if ast is None: return False
    if ast[0] == "return": return True
    if ast[0] == "block":
        if ast[2] is not None: return always_returns(ast[2])
        return bool(ast[1]) and ast[1][-1][0] == "expr" and always_returns(ast[1][-1][1])
    if ast[0] == "if": return always_returns(ast[2]) and ast[3] is not None and always_returns(ast[3])
    return False


class Crate:
    def __init__(self):
        self.parsers, self.impls = {}, []
        for f in FILES:
            path = os.path.join(SRC, f)
            if not os.path.exists(path): raise Refuse("source file not found", (f, "-"))
            try:
                p = Parser(tokenize(open(path, encoding="utf-8").read()), f)
                impls = p.parse_file()
            except Refuse as e:
                raise Refuse(e.what, (f, "-"))
            self.parsers[f] = p
            for im in impls:
                im["file"] = f
                self.impls.append(im)
        self.sigs, self.order, self.busy = {}, [], []

    @staticmethod
    def head_of(impl):
        t = impl["selfty"]
        while t[0] == "ref": t = t[1]
        if t[0] != "path": return "?"
        name = t[1][-1]
        for g, bounds in impl["generics"]:
            if name == g:
                if any(b[0] == "path" and b[1][-1] in ("Iterator", "IntoIterator") for b in bounds): return "Iter"
                return "T"
        return name

    def impl_selfty(self, impl):
        fc = FnCtx(self, impl, None)
        return fc.selfty

    def find_target(self, file, trait, head, fn):
        for im in self.impls:
            if im["file"] == file and self.head_of(im) == head and (im["trait"][1][-1] if im["trait"] else None) == trait and fn in im["fns"]:
                return im
        raise Refuse("function of the list not found in the source", (file, fn))

    def candidates(self, recv_ty, name):
        """impls offering method `name` whose self type fits `recv_ty`; specific impls before blanket ones"""
        spec, blanket = [], []
        for im in self.impls:
            if name not in im["fns"]: continue
            st = self.impl_selfty(im)
            try: match_ty(st, recv_ty, {})
            except Refuse: continue
            if st[0] == "var":
                if recv_ty[0] in ("var", "usize", "isize", "bool"): blanket.append(im)   # `impl Trait for T`: element-like types only
            elif st[0] == "Iter":
                if recv_ty[0] in ("Iter", "Collect"): spec.append(im)                    # `impl Trait for I where I: Iterator`
            elif recv_ty[0] in ("Iter", "Collect"): continue
            else: spec.append(im)
        return spec or blanket

    def sig(self, impl, name):
        key = (id(impl), name)
        if key in self.sigs: return self.sigs[key]
        tr = impl["trait"][1][-1] if impl["trait"] else None
        if (impl["file"], tr, self.head_of(impl), name) in EXTERNALS:
            fc = FnCtx(self, impl, impl["fns"][name])
            try: sg = fc.signature_only()
            except Refuse as e:
                if e.where is None: e.where = (impl["file"], name)
                raise
            self.sigs[key] = sg
            return sg
        if key in self.busy: raise Refuse(f"recursive call of `{name}`")
        self.busy.append(key)
        fn = impl["fns"][name]
        try:
            sg = FnCtx(self, impl, fn).translate()
        except Refuse as e:
            if e.where is None: e.where = (impl["file"], name)
            raise
        finally:
            self.busy.pop()
        for other in self.sigs.values():
            if other["lean"] == sg["lean"]: raise Refuse(f"two functions would both be named `{sg['lean']}`", (impl["file"], name))
        self.sigs[key] = sg
        self.order.append(sg)
        return sg


class Seq:
    """evaluation order: effectful operands are bound to temporaries, left to right.  A computation that is itself a chain of
    such bindings is spliced in (associativity and left identity of `>>=`), so that nesting in the source does not show in the term."""
    def __init__(self, fc): self.fc, self.binds, self.early = fc, [], False
    def val(self, e):
        self.early = self.early or e.early
        if e.pure: return e.term
        if e.chain is not None:
            binds, final, is_value = e.chain
            if is_value and e.ty[0] != "Result":
                self.binds.extend(binds); return final
            if e.ty[0] != "Result":
                self.binds.extend(binds)
                v = self.fc.fresh(); self.binds.append(("bind", v, final, e.ty)); return v
        v = self.fc.fresh()
        if e.ty[0] == "Result":
            if e.early: raise Refuse("`?` inside a Result-valued operand")
            self.binds.append(("strict", v, e.term, e.ty))
        else: self.binds.append(("bind", v, e.term, e.ty))
        return v
    def wrap(self, e):
        e.early = e.early or self.early
        if not self.binds: return e
        if e.chain is not None and e.ty[0] != "Result":
            binds, final, is_value = self.binds + e.chain[0], e.chain[1], e.chain[2]
        else:
            binds, final, is_value = self.binds, e.term, e.pure
        body = final if not is_value or e.ty[0] == "Result" else f"Res.ok {par(final)}"
        r = E(emit_binds(binds, body), e.ty, False, e.early)
        r.chain = (binds, final, is_value)
        return r


class FnCtx:
    def __init__(self, crate, impl, fn):
        self.crate, self.impl, self.fn = crate, impl, fn
        self.tyenv, self.tyvars = {}, []
        self.counter, self.closure_depth = 0, 0
        self.needs = {}
        self.externs = []          # (name, parameter types, result type) of the external functions this one (or a callee) calls
        self.effectful_maps = set()
        self.names = set()
        self.add_generics(impl["generics"])
        self.selfty = UNK
        self.selfty = self.conv_type(impl["selfty"])

    # ---- types
    def add_generics(self, gens):
        for name, bounds in gens:
            it = None
            for b in bounds:
                if b[0] == "path" and b[1][-1] in ("IntoIterator", "Iterator"):
                    for a in b[2]:
                        if a[0] == "assoc" and a[1] == "Item": it = ("Iter", self.conv_type(a[2]))
            if it is not None: self.tyenv[name] = it; continue
            if len(self.tyvars) >= len(GREEK): raise Refuse("more than four type parameters")
            v = ("var", GREEK[len(self.tyvars)])
            self.tyvars.append((name, v, bounds))
            self.tyenv[name] = v

    def conv_type(self, t):
        k = t[0]
        if k == "ref": return self.conv_type(t[1])
        if k == "tuple": return UNIT if not t[1] else ("Tuple", tuple(self.conv_type(x) for x in t[1]))
        if k == "impl":
            for b in t[1]:
                if b[0] == "path" and b[1][-1] in ("IntoIterator", "Iterator"):
                    for a in b[2]:
                        if a[0] == "assoc" and a[1] == "Item": return ("Iter", self.conv_type(a[2]))
            raise Refuse("type `impl Trait`")
        if k == "assoc": raise Refuse("associated type binding")
        segs, args = t[1], [a for a in t[2] if a[0] != "assoc"]
        name = segs[-1]
        if len(segs) == 1 and name in self.tyenv and not args: return self.tyenv[name]
        if name == "Self": return self.selfty
        if name == "usize": return USIZE
        if name == "isize": return ISIZE
        if name == "bool": return BOOL
        if name == "Vec" and len(args) == 1: return ("Vec", self.conv_type(args[0]))
        if name == "Array" and len(args) == 1: return ("Array", self.conv_type(args[0]))
        if name == "Option" and len(args) == 1: return ("Option", self.conv_type(args[0]))
        if name == "Result" and len(args) in (1, 2):
            if len(args) == 2 and not (args[1][0] == "path" and args[1][1][-1] == "ArrayError"): raise Refuse("Result with a foreign error type")
            return ("Result", self.conv_type(args[0]))
        if name == "ArrayError": return ERR
        if name == "IntoIter" and len(args) == 1: return ("Iter", self.conv_type(args[0]))
        if name == "HashSet" and len(args) == 1: return ("HashSet", self.conv_type(args[0]))
        raise Refuse(f"type `{'::'.join(segs)}`")

    def need(self, ty, what):
        if ty[0] == "var": self.needs.setdefault(ty[1], set()).add(what)
        elif ty[0] in UNARY_TYPES: self.need(ty[1], what)
        elif ty[0] == "Tuple":
            for x in ty[1]: self.need(x, what)

    def need_ord(self, ty):
        """`T: Ord` as used by `sort`: the prelude's linear orders (integers, lexicographic tuples, type parameters with the bound)"""
        if is_int(ty): return
        if ty[0] == "var": self.need(ty, "Ord"); return
        if ty[0] == "Tuple":
            for x in ty[1]: self.need_ord(x)
            return
        raise Refuse(f"`sort` on elements of type {show_ty(ty)}")

    def fresh(self):
        while True:
            self.counter += 1
            v = f"t{self.counter}"
            if v not in self.names: return v

    @staticmethod
    def lname(n): return n + "_" if n in LEAN_KEYWORDS else n

    def read_params(self):
        fn = self.fn
        env, params, self_kind = {}, [], None
        for p in fn["params"]:
            if p[0] == "self":
                self_kind = p[1]
                env["self"] = ("self", self.selfty, 0)
                params.append(("self", self.selfty))
            else:
                pat, ty = p[1], self.conv_type(p[2])
                if pat[0] != "pid": raise Refuse("pattern in parameter position")
                env[pat[1]] = (self.lname(pat[1]), ty, 0)
                params.append((self.lname(pat[1]), ty))
        return env, params, self_kind

    def signature_only(self):
        """an EXTERNAL function: only its signature is read; callers receive it as a parameter"""
        parser = self.crate.parsers[self.impl["file"]]
        parser.parse_fn_at(self.fn, sig_only=True)
        self.add_generics(self.fn["generics"])
        _, params, self_kind = self.read_params()
        ret = self.conv_type(self.fn["ret"])
        return {"extern": True, "lean": self.fn["name"], "params": params, "self_kind": self_kind, "ret": ret, "pure": ret[0] != "Result",
                "needs": {}, "externs": [], "file": self.impl["file"], "fn": self.fn["name"], "impl": self.impl}

    def use_extern(self, name, ptys, ret):
        for n, p, r in self.externs:
            if n == name:
                if (p, r) != (ptys, ret): raise Refuse(f"external `{name}` used at two different types")
                return
        self.externs.append((name, ptys, ret))

    # ---- the function
    def translate(self):
        fn, impl = self.fn, self.impl
        parser = self.crate.parsers[impl["file"]]
        if not fn["parsed"]: parser.parse_fn_at(fn)
        self.names = {tk.v for tk in parser.t if tk.k == "id"}
        self.add_generics(fn["generics"])
        env, params, self_kind = self.read_params()
        self.ret = self.conv_type(fn["ret"])
        head = Crate.head_of(impl)
        lean = f"{head}_{fn['name']}"
        body = self.tr_block(fn["body"], env, expected=self.ret, fnlevel=True)
        rty = unify(self.ret, body.ty, "function result")
        if self.ret[0] == "Result":
            term, pure, defty = comp_term(body), False, lean_ty(self.ret)
        elif body.pure:
            term, pure, defty = body.term, True, lean_ty(self.ret)
        else:
            term, pure, defty = body.term, False, f"Res {par(lean_ty(self.ret))}"
        used = set()
        def collect(t):
            if t[0] == "var": used.add(t[1])
            elif t[0] in UNARY_TYPES: collect(t[1])
            elif t[0] == "Tuple":
                for x in t[1]: collect(x)
        for _, t in params: collect(t)
        collect(self.ret)
        for _, pts, r in self.externs:
            for t in pts: collect(t)
            collect(r)
        tvs = [v[1] for _, v, _ in self.tyvars if v[1] in used]
        binders = ""
        if tvs: binders += " {" + " ".join(tvs) + " : Type}"
        insts = {"BEq": "[BEq {0}]", "LE": "[LE {0}] [DecidableLE {0}]", "LT": "[LT {0}] [DecidableLT {0}]", "Ord": "[Rs.Ord {0}]"}
        for v in tvs:
            for w in sorted(self.needs.get(v, ())): binders += " " + insts[w].format(v)
        for n, pts, r in self.externs:
            binders += f" ({n} : " + " → ".join([par(lean_ty(t)) for t in pts] + [lean_ty(r) if r[0] == "Result" else lean_ty(r)]) + ")"
        for n, t in params: binders += f" ({n} : {lean_ty(t)})"
        src = open(os.path.join(SRC, impl["file"]), encoding="utf-8").read().split("\n")[fn["line"] - 1:fn["end_line"]]
        ind = min((len(l) - len(l.lstrip()) for l in src if l.strip()), default=0)
        header = (f"`impl {render_type(impl['trait']) + ' for ' if impl['trait'] else ''}{render_type(impl['selfty'])}`"
                  f" — {impl['file']}:{fn['line']}")
        text = "/- " + header + "\n" + "\n".join(("   " + l[ind:]).rstrip().replace("-/", "- /") for l in src) + " -/\n"
        text += f"def {lean}{binders} : {defty} :=\n" + "\n".join("  " + l for l in term.split("\n")) + "\n"
        return {"lean": lean, "params": params, "self_kind": self_kind, "ret": self.ret, "pure": pure, "text": text,
                "tyvars": tvs, "needs": self.needs, "file": impl["file"], "fn": fn["name"], "impl": impl, "defty": defty,
                "externs": list(self.externs)}


    # ---- patterns
    def bind_pat(self, pat, ty, env):
        """-> (Lean pattern, extended environment)"""
        k = pat[0]
        if k == "pref": return self.bind_pat(pat[1], ty, env)
        if k == "pwild": return "_", env
        if k == "pid":
            env = dict(env); env[pat[1]] = (self.lname(pat[1]), ty, self.closure_depth)
            return self.lname(pat[1]), env
        if k == "ptuple":
            if ty[0] == "Tuple" and len(ty[1]) == len(pat[1]): tys = ty[1]
            elif ty[0] in ("unk", "never"): tys = [UNK] * len(pat[1])
            else: raise Refuse(f"tuple pattern against {show_ty(ty)}")
            parts = []
            for p, t in zip(pat[1], tys):
                sp, env = self.bind_pat(p, t, env); parts.append(sp)
            return "(" + ", ".join(parts) + ")", env
        if k == "plit":
            if not is_int(ty): raise Refuse(f"integer pattern against {show_ty(ty)}")
            return pat[1].replace("_", ""), env
        if k == "pctor":
            name, inner = pat[1], pat[2]
            if name in ("Some", "None"):
                if ty[0] != "Option": raise Refuse(f"`{name}` pattern against {show_ty(ty)}")
                if name == "None": return "none", env
                sp, env = self.bind_pat(inner, ty[1], env); return f"some {par(sp)}", env
            if ty[0] != "Result": raise Refuse(f"`{name}` pattern against {show_ty(ty)}")
            sp, env = self.bind_pat(inner, ty[1] if name == "Ok" else ERR, env)
            return (".ok " if name == "Ok" else ".err ") + par(sp), env
        raise Refuse("pattern")

    def binder(self, pat, ty, env):
        sp, env = self.bind_pat(pat, ty, env)
        if has_unknown(ty) or ty == UNIT and sp == "_": return (sp if sp != "_" else "_"), env
        return f"({sp} : {lean_ty(ty)})", env

    def state(self, env, names):
        """value / pattern of the tuple of mutated locals"""
        if not names: return E("()", UNIT), "(_ : Unit)"
        vals = [env[n] for n in names]
        if len(names) == 1:
            ty = vals[0][1]
            return E(vals[0][0], ty), (vals[0][0] if has_unknown(ty) else f"({vals[0][0]} : {lean_ty(ty)})")
        ty = ("Tuple", tuple(v[1] for v in vals))
        sp = "(" + ", ".join(v[0] for v in vals) + ")"
        return E(sp, ty), (sp if has_unknown(ty) else f"({sp} : {lean_ty(ty)})")

    def state_pat(self, names):
        if not names: return ("pwild",)
        if len(names) == 1: return ("pid", names[0], True)
        return ("ptuple", [("pid", n, True) for n in names])

    # ---- blocks and statements
    def tr_block(self, block, env, expected=None, fnlevel=False, result_vars=None):
        stmts, tail = list(block[1]), block[2]
        if result_vars is not None:
            if tail is not None: stmts.append(("expr", tail))
            return self.tr_seq(stmts, 0, env, lambda env2: self.state(env2, result_vars)[0], fnlevel)
        if tail is None:
            if stmts and stmts[-1][0] == "expr" and stmts[-1][1][0] == "return":
                last = stmts.pop()
                return self.tr_seq(stmts, 0, env, lambda env2: self.tr_return(last[1], env2, fnlevel), fnlevel)
            return self.tr_seq(stmts, 0, env, lambda env2: E("()", UNIT), fnlevel)
        if tail[0] in ("if", "for") and mutated_vars(tail, env): raise Refuse("mutation of a local in the value position of a block")
        return self.tr_seq(stmts, 0, env, lambda env2: self.tr_expr(tail, env2, expected, fnlevel), fnlevel)

    def tr_seq(self, stmts, i, env, k, fnlevel):
        if i == len(stmts): return k(env)
        st = stmts[i]
        rest = lambda env2: self.tr_seq(stmts, i + 1, env2, k, fnlevel)
        if st[0] == "let":
            pat, tyast, init = st[1], st[2], st[3]
            if init is None: raise Refuse("`let` without initialiser")
            ety = self.conv_type(tyast) if tyast is not None else None
            if init[0] == "mcall" and init[2] == "remove" and len(init[4]) == 1 and init[1][0] == "path" and len(init[1][1]) == 1 \
                    and init[1][1][0] in env and env[init[1][1][0]][1][0] == "Vec":
                # `let x = v.remove(i);`: the removed element, then the shorter vector
                var = init[1][1][0]; self.check_capture(var, env)
                seq = Seq(self)
                iv = seq.val(self.tr_expr(init[4][0], env, USIZE))
                lean, vty = env[var][0], env[var][1]
                e = seq.wrap(E(f"Rs.index {lean} {par(iv)}", vty[1], False))
                return self.bind_let(pat, e, env, lambda env2: self.bind_let(
                    ("pid", var, True), E(f"Rs.vecRemove {env2[var][0]} {par(iv)}", vty, False), env2, rest))
            e = self.tr_expr(init, env, ety)
            if ety is not None: e.ty = unify(e.ty, ety, "let")
            return self.bind_let(pat, e, env, rest)
        return self.tr_stmt_expr(st[1], env, rest, fnlevel)

    def bind_let(self, pat, e, env, rest):
        if e.ty[0] == "never": return e
        while pat[0] == "pref": pat = pat[1]
        if e.pure:
            sp, env2 = self.bind_pat(pat, e.ty, env)
            r = rest(env2)
            if pat[0] == "pid" and r.pure and r.term == sp: return E(e.term, r.ty, True, r.early or e.early)
            if pat[0] == "pwild": return E(r.term, r.ty, r.pure, r.early or e.early)
            return E(f"let {sp} := {e.term};\n{r.term}", r.ty, r.pure, r.early or e.early)
        if e.ty[0] == "Result":
            if e.early: raise Refuse("`?` inside a Result-valued initialiser")
            b, env2 = self.binder(pat, e.ty, env)
            r = rest(env2)
            return E(f"Rs.strict {par(e.term)} fun {b} =>\n{comp_term(r)}", r.ty, False, r.early)
        if e.chain is not None and e.chain[2]:
            # the initialiser is `binds; value`: keep the binds, then an ordinary `let`
            binds, final, _ = e.chain
            inner = self.bind_let(pat, E(final, e.ty, True, e.early), env, rest)
            out = E(emit_binds(binds, comp_term(inner)), inner.ty, False, inner.early or e.early)
            if inner.chain is not None and inner.ty[0] != "Result": out.chain = (binds + inner.chain[0], inner.chain[1], inner.chain[2])
            elif inner.pure and inner.ty[0] != "Result": out.chain = (binds, inner.term, True)
            return out
        b, env2 = self.binder(pat, e.ty, env)
        r = rest(env2)
        sp = self.bind_pat(pat, e.ty, env)[0]
        if pat[0] == "pid" and r.pure and r.ty[0] != "Result" and r.term == sp: return E(e.term, r.ty, False, r.early or e.early)
        return E(f"{par(e.term)} >>= fun {b} =>\n{comp_term(r)}", r.ty, False, r.early or e.early)

    def then_rest(self, e, env, rest):
        if e.ty[0] == "never": return e
        if e.pure:
            r = rest(env); r.early = r.early or e.early; return r
        return self.bind_let(("pwild",), e, env, rest)

    def tr_stmt_expr(self, ast, env, rest, fnlevel):
        k = ast[0]
        if k == "paren": return self.tr_stmt_expr(ast[1], env, rest, fnlevel)
        if k == "assign": return self.tr_assign(ast, env, rest)
        if k == "mcall" and ast[2] in VEC_MUTATORS and place_root(ast[1]) is not None: return self.tr_mutcall(ast, env, rest)
        if k == "if": return self.tr_if_stmt(ast, env, rest, fnlevel)
        if k == "for": return self.tr_for(ast, env, rest)
        if k == "return": return self.tr_return(ast, env, fnlevel)
        if (k == "mcall" and ast[2] == "for_each" and len(ast[4]) == 1 and ast[4][0][0] == "closure" and len(ast[4][0][1]) == 1
                and not any(n[0] in ("return", "try") for n in walk(ast[4][0][2]))):
            # `it.for_each(|p| body)` is `for p in it { body }` (the closure may then mutate locals like a loop body)
            body = ast[4][0][2]
            if body[0] != "block": body = ("block", [], body)
            return self.tr_for(("for", ast[4][0][1][0][0], ast[1], body), env, rest)
        if k == "block":
            m = mutated_vars(ast, env)
            if m:
                e = self.tr_block(ast, env, result_vars=m)
                return self.bind_let(self.state_pat(m), e, env, rest)
        if mutated_vars(ast, env): raise Refuse("mutation of a local inside an expression")
        return self.then_rest(self.tr_expr(ast, env, None), env, rest)

    def check_capture(self, name, env):
        if env[name][2] < self.closure_depth: raise Refuse(f"closure mutates the captured variable `{name}`")

    def tr_assign(self, ast, env, rest):
        op, lhs, rhs = ast[1], ast[2], ast[3]
        while lhs[0] in ("paren", "deref"): lhs = lhs[1]
        if lhs[0] == "path" and len(lhs[1]) == 1 and lhs[1][0] in env:
            name = lhs[1][0]; self.check_capture(name, env)
            lean, ty = env[name][0], env[name][1]
            if op == "=":
                new = self.tr_expr(rhs, env, ty)
            else:
                if op[:-1] not in ("+", "-", "*", "/", "%"): raise Refuse(f"operator `{op}`")
                new = self.binop(op[:-1], E(lean, ty), self.tr_expr(rhs, env, ty))
            new.ty = unify(ty, new.ty, "assignment")
            return self.bind_let(("pid", name, True), new, env, rest)
        if lhs[0] == "index" and lhs[1][0] == "path" and len(lhs[1][1]) == 1 and lhs[1][1][0] in env and op == "=":
            name = lhs[1][1][0]; self.check_capture(name, env)
            lean, ty = env[name][0], env[name][1]
            if ty[0] != "Vec": raise Refuse(f"index assignment into {show_ty(ty)}")
            seq = Seq(self)
            v = seq.val(self.tr_expr(rhs, env, ty[1]))
            ie = self.tr_expr(lhs[2], env, USIZE)
            if not is_int(ie.ty): raise Refuse("index assignment with a non-integer index")
            iv = seq.val(ie)
            new = seq.wrap(E(f"Rs.vecSet {lean} {par(iv)} {par(v)}", ty, False))
            return self.bind_let(("pid", name, True), new, env, rest)
        raise Refuse("assignment to something that is not a local variable")

    def tr_mutcall(self, ast, env, rest):
        recv, name, args = ast[1], ast[2], ast[4]
        while recv[0] in ("paren", "deref", "addr"): recv = recv[1]
        if not (recv[0] == "path" and len(recv[1]) == 1 and recv[1][0] in env): raise Refuse(f"`{name}` on a place that is not a local variable")
        var = recv[1][0]; self.check_capture(var, env)
        lean, ty = env[var][0], env[var][1]
        if ty[0] != "Vec": raise Refuse(f"`{name}` on {show_ty(ty)}")
        seq = Seq(self)
        def arg(i, exp=None): return self.tr_expr(args[i], env, exp)
        def nargs(n):
            if len(args) != n: raise Refuse(f"`{name}` with {len(args)} arguments")
        if name == "push":
            nargs(1); a = arg(0, ty[1]); new = E(f"Rs.push {lean} {par(seq.val(a))}", ("Vec", unify(ty[1], a.ty, "push")))
        elif name in ("extend_from_slice", "extend"):
            nargs(1); a = arg(0, ty)
            if not is_seq(a.ty): raise Refuse(f"`{name}` with {show_ty(a.ty)}")
            new = E(f"Rs.extend {lean} {par(seq.val(a))}", ("Vec", unify(ty[1], a.ty[1], name)))
        elif name == "insert":
            nargs(2); i, a = arg(0, USIZE), arg(1, ty[1])
            new = E(f"Rs.vecInsert {lean} {par(seq.val(i))} {par(seq.val(a))}", ("Vec", unify(ty[1], a.ty, "insert")), False)
        elif name == "remove":
            nargs(1); new = E(f"Rs.vecRemove {lean} {par(seq.val(arg(0, USIZE)))}", ty, False)
        elif name == "swap":
            nargs(2); i, j = arg(0, USIZE), arg(1, USIZE)
            new = E(f"Rs.vecSwap {lean} {par(seq.val(i))} {par(seq.val(j))}", ty, False)
        elif name == "reverse":
            nargs(0); new = E(f"Rs.reverse {lean}", ty)
        elif name == "sort":
            nargs(0); self.need_ord(ty[1]); new = E(f"Rs.sort {lean}", ty)
        elif name == "clear":
            nargs(0); new = E("[]", ty)
        elif name == "truncate":
            nargs(1); new = E(f"Rs.take {lean} {par(seq.val(arg(0, USIZE)))}", ty)
        else:
            raise Refuse(f"`Vec::{name}`")
        return self.bind_let(("pid", var, True), seq.wrap(new), env, rest)

    def tr_if_stmt(self, ast, env, rest, fnlevel):
        cond, then, els = ast[1], ast[2], ast[3]
        seq = Seq(self)
        c = self.tr_expr(cond, env, BOOL)
        if c.ty != BOOL: raise Refuse("`if` on a non-bool")
        cv = seq.val(c)
        if always_returns(then):
            a = self.tr_block(then, env, None, fnlevel)
            if els is None: b = rest(env)
            elif always_returns(els):
                b = self.tr_block(els, env, None, fnlevel) if els[0] == "block" else self.tr_if_stmt(els, env, rest, fnlevel)
            else:
                stmts = (list(els[1]) + ([("expr", els[2])] if els[2] is not None else [])) if els[0] == "block" else [("expr", els)]
                for st in stmts:
                    if st[0] == "let" and any(n in env for n in pat_names(st[1])): raise Refuse("`let` shadowing in an `else` block that falls through")
                b = self.tr_seq(stmts, 0, env, rest, fnlevel)
            return seq.wrap(E(f"if {cv} then\n{comp_term(a)}\nelse\n{comp_term(b)}", b.ty, False, True))
        m = mutated_vars(ast, env)
        a = self.tr_block(then, env, result_vars=m)
        if els is None: b = self.state(env, m)[0]
        elif els[0] == "block": b = self.tr_block(els, env, result_vars=m)
        else: b = self.tr_if_stmt(els, env, lambda env2: self.state(env2, m)[0], False)
        ty = unify(a.ty, b.ty, "if")
        if a.pure and b.pure: r = E(f"if {cv} then {blk(a.term)} else {blk(b.term)}", ty, True, a.early or b.early)
        else: r = E(f"if {cv} then\n{comp_term(a)}\nelse\n{comp_term(b)}", ty, False, a.early or b.early)
        r = seq.wrap(r)
        if not m: return self.then_rest(r, env, rest)
        return self.bind_let(self.state_pat(m), r, env, rest)

    def tr_for(self, ast, env, rest):
        pat, it, body = ast[1], ast[2], ast[3]
        m = mutated_vars(body, env)
        for n in m: self.check_capture(n, env)
        seq = Seq(self)
        ie = self.tr_expr(it, env, None)
        if not is_seq(ie.ty): raise Refuse(f"`for` over {show_ty(ie.ty)}")
        iv = seq.val(ie)
        init, spat = self.state(env, m)
        pb, env2 = self.binder(pat, ie.ty[1], env)
        # normal form shared with `if it.any(|pat| c) { return Err(e) }`: a loop whose whole body is `if c { return Err(e) }`
        stmts = list(body[1]) + ([("expr", body[2])] if body[2] is not None else [])
        if not m and len(stmts) == 1 and stmts[0][0] == "expr" and stmts[0][1][0] == "if" and stmts[0][1][3] is None:
            cond, then = stmts[0][1][1], stmts[0][1][2]
            tst = list(then[1]) + ([("expr", then[2])] if then[2] is not None else [])
            if len(tst) == 1 and tst[0][0] == "expr" and tst[0][1][0] == "return" and self.ret[0] == "Result" and not self.closure_depth:
                self.closure_depth += 1
                try: c = self.tr_expr(cond, env2, BOOL)
                finally: self.closure_depth -= 1
                r = self.tr_return(tst[0][1], env, False)
                if c.pure and c.ty == BOOL and not c.early and r.ty[0] == "never" and r.term.startswith("Res.err"):
                    k = rest(env)
                    return seq.wrap(E(f"if Rs.any {par(iv)} (fun {pb} =>\n{c.term}) then {r.term} else {blk(comp_term(k))}", k.ty, False, True))
        b = self.tr_block(body, env2, result_vars=m)
        if b.pure:
            if not m: return self.then_rest(seq.wrap(E("()", UNIT)), env, rest)
            r = E(f"Rs.fold {par(iv)} {par(init.term)} (fun {spat} {pb} =>\n{b.term})", init.ty, True, b.early)
        else:
            r = E(f"Rs.forM {par(iv)} {par(init.term)} (fun {spat} {pb} =>\n{comp_term(b)})", init.ty, False, b.early)
        r = seq.wrap(r)
        if not m: return self.then_rest(r, env, rest)
        return self.bind_let(self.state_pat(m), r, env, rest)

    def tr_return(self, ast, env, fnlevel):
        if self.closure_depth: raise Refuse("`return` inside a closure")
        if ast[1] is None: raise Refuse("`return` without a value")
        e = self.tr_expr(ast[1], env, self.ret)
        if self.ret[0] != "Result": raise Refuse("early `return` in a function that does not return a Result")
        unify(self.ret, e.ty, "return")
        if e.pure and e.term.startswith("Res.err"): return E(e.term, NEVER, False, True)
        if fnlevel: return E(comp_term(e), NEVER, False, True)
        raise Refuse("`return` of a non-error value from inside a loop or a nested block")


    # ---- expressions
    def tr_expr(self, ast, env, expected=None, fnlevel=False):
        k = ast[0]
        if k == "paren": return self.tr_expr(ast[1], env, expected, fnlevel)
        if k == "constinit":
            e = self.tr_expr(ast[1], env, expected)
            if not e.pure: raise Refuse("`const` with an initialiser that can panic")
            return e
        if k in ("addr", "deref"): return self.tr_expr(ast[1], env, expected)
        if k == "int":
            ty = {"usize": USIZE, "isize": ISIZE, None: INTQ}.get(ast[2])
            if ty is None: raise Refuse(f"integer literal of type {ast[2]}")
            if ty == INTQ and expected is not None and is_int(expected): ty = expected
            return E(str(ast[1]), ty)
        if k == "str": return E(ast[1], STR)
        if k == "macro":
            if ast[1] == "format": return E('""', STR)
            raise Refuse(f"macro `{ast[1]}!`")
        if k == "path": return self.tr_path(ast, env, expected)
        if k == "tuple":
            if not ast[1]: return E("()", UNIT)
            seq = Seq(self)
            exps = list(expected[1]) if expected is not None and expected[0] == "Tuple" and len(expected[1]) == len(ast[1]) else [None] * len(ast[1])
            es = [self.tr_expr(x, env, t) for x, t in zip(ast[1], exps)]
            return seq.wrap(E("(" + ", ".join(seq.val(e) for e in es) + ")", ("Tuple", tuple(e.ty for e in es))))
        if k == "veclit":
            seq = Seq(self)
            ety = expected[1] if expected is not None and is_seq(expected) else None
            es = [self.tr_expr(x, env, ety) for x in ast[1]]
            ty = ety or UNK
            for e in es: ty = unify(ty, e.ty, "vector literal")
            return seq.wrap(E("[" + ", ".join(seq.val(e) for e in es) + "]", ("Vec", ty)))
        if k == "vecrep":
            seq = Seq(self)
            x = self.tr_expr(ast[1], env, expected[1] if expected is not None and is_seq(expected) else None)
            n = self.tr_expr(ast[2], env, USIZE)
            if not is_int(n.ty): raise Refuse("`vec![x; n]` with a non-integer length")
            xv = seq.val(x); nv = seq.val(n)
            return seq.wrap(E(f"Rs.vecRepeat {par(xv)} {par(nv)}", ("Vec", x.ty)))
        if k == "un": return self.tr_unary(ast, env, expected)
        if k == "bin": return self.binop(ast[1], self.tr_expr(ast[2], env), None, rhs_ast=ast[3], env=env)
        if k == "field": return self.tr_field(ast, env)
        if k == "tfield":
            seq = Seq(self)
            b = self.tr_expr(ast[1], env)
            if b.ty[0] != "Tuple" or ast[2] >= len(b.ty[1]): raise Refuse(f"`.{ast[2]}` on {show_ty(b.ty)}")
            return seq.wrap(E(par(seq.val(b)) + tuple_proj(len(b.ty[1]), ast[2]), b.ty[1][ast[2]]))
        if k == "index": return self.tr_index(ast, env)
        if k == "try":
            if self.closure_depth: raise Refuse("`?` inside a closure")
            if self.ret[0] != "Result": raise Refuse("`?` in a function that does not return a Result")
            e = self.tr_expr(ast[1], env)
            if e.ty[0] != "Result": raise Refuse(f"`?` on {show_ty(e.ty)}")
            r = E(e.term, e.ty[1], False, True)
            if e.chain is not None: r.chain = (e.chain[0], e.chain[1], False)
            return r
        if k == "call": return self.tr_call(ast, env, expected)
        if k == "mcall": return self.tr_mcall(ast, env, expected)
        if k == "struct": return self.tr_struct(ast, env)
        if k == "if": return self.tr_if(ast, env, expected, fnlevel)
        if k == "iflet":
            arms = [(ast[1], ast[3])] + [(("pwild",), ast[4] if ast[4] is not None else ("tuple", []))]
            return self.tr_match(("match", ast[2], arms), env, expected, fnlevel)
        if k == "match": return self.tr_match(ast, env, expected, fnlevel)
        if k == "block": return self.tr_block(ast, env, expected, fnlevel)
        if k == "range": return self.tr_range(ast, env)
        if k == "return": return self.tr_return(ast, env, fnlevel)
        if k == "closure": raise Refuse("closure outside an iterator-method argument")
        if k == "assign": raise Refuse("assignment in expression position")
        if k == "for": raise Refuse("`for` in expression position")
        raise Refuse(f"expression `{k}`")

    def tr_path(self, ast, env, expected):
        segs = ast[1]
        if len(segs) == 1:
            n = segs[0]
            if n in env: return E(env[n][0], env[n][1])
            if n == "None": return E("none", ("Option", expected[1] if expected is not None and expected[0] == "Option" else UNK))
            raise Refuse(f"name `{n}`")
        if segs[0] == "ArrayError" and len(segs) == 2: return E(f"Err.{segs[1]}", ERR)
        raise Refuse(f"path `{'::'.join(segs)}` as a value")

    def tr_unary(self, ast, env, expected):
        op = ast[1]
        e = self.tr_expr(ast[2], env, expected if op == "-" else None)
        seq = Seq(self); v = seq.val(e)
        if op == "-":
            if e.ty == INTQ: return seq.wrap(E(f"(-{par(v)})", ISIZE))
            if e.ty == ISIZE: return seq.wrap(E(f"(-{par(v)})", ISIZE))
            raise Refuse(f"unary `-` on {show_ty(e.ty)}")
        if e.ty == BOOL: return seq.wrap(E(f"(!{par(v)})", BOOL))
        if e.ty in (USIZE, INTQ): return seq.wrap(E(f"Rs.usizeNot {par(v)}", USIZE))
        raise Refuse(f"`!` on {show_ty(e.ty)}")

    def binop(self, op, l, r, rhs_ast=None, env=None):
        if r is None: r = self.tr_expr(rhs_ast, env, l.ty if is_int(l.ty) else None)
        seq = Seq(self)
        if op in ("&&", "||"):
            if l.ty != BOOL or r.ty != BOOL: raise Refuse(f"`{op}` on non-bool operands")
            lv = seq.val(l)
            if r.pure: return seq.wrap(E(f"({lv} {op} {r.term})", BOOL, True, r.early))
            if op == "&&": return seq.wrap(E(f"if {lv} then {r.term} else Res.ok false", BOOL, False, r.early))
            return seq.wrap(E(f"if {lv} then Res.ok true else {r.term}", BOOL, False, r.early))
        lv = seq.val(l); rv = seq.val(r)
        ty = unify(l.ty, r.ty, f"operands of `{op}`")
        if op in ("+", "-", "*", "/", "%"):
            if not is_int(ty): raise Refuse(f"arithmetic on {show_ty(ty)}")
            if op in ("+", "*") or (op == "-" and ty == ISIZE): return seq.wrap(E(f"({lv} {op} {rv})", ty))
            if ty == ISIZE: raise Refuse(f"`{op}` on isize")
            fn = {"-": "Rs.usub", "/": "Rs.udiv", "%": "Rs.urem"}[op]
            return seq.wrap(E(f"{fn} {par(lv)} {par(rv)}", USIZE, False))
        if op in ("==", "!="):
            if ty[0] in ("Result", "never"): raise Refuse("comparison of Result values")
            self.need(ty, "BEq")
            return seq.wrap(E(f"({lv} {op} {rv})", BOOL))
        if op in ("<", "<=", ">", ">="):
            if not is_int(ty):
                if ty[0] != "var": raise Refuse(f"ordering comparison on {show_ty(ty)}")
                self.need(ty, "LE" if op in ("<=", ">=") else "LT")
            lop = {"<": "<", "<=": "≤", ">": ">", ">=": "≥"}[op]
            return seq.wrap(E(f"decide ({lv} {lop} {rv})", BOOL))
        raise Refuse(f"operator `{op}`")

    def tr_field(self, ast, env):
        b = self.tr_expr(ast[1], env)
        seq = Seq(self); v = seq.val(b)
        if b.ty[0] == "Array" and ast[2] == "elements": return seq.wrap(E(f"{par(v)}.elems", ("Vec", b.ty[1])))
        if b.ty[0] == "Array" and ast[2] == "shape": return seq.wrap(E(f"{par(v)}.shape", ("Vec", USIZE)))
        raise Refuse(f"field `.{ast[2]}` of {show_ty(b.ty)}")

    def tr_index(self, ast, env):
        b = self.tr_expr(ast[1], env)
        seq = Seq(self); bv = seq.val(b)
        if b.ty[0] == "Array": raise Refuse("`array[i]` (Index impl of Array)")
        if b.ty[0] != "Vec": raise Refuse(f"indexing into {show_ty(b.ty)}")
        ix = ast[2]
        if ix[0] == "range":
            if ix[3]: raise Refuse("inclusive range")
            lo = seq.val(self.tr_expr(ix[1], env, USIZE)) if ix[1] is not None else None
            hi = seq.val(self.tr_expr(ix[2], env, USIZE)) if ix[2] is not None else None
            if lo is None and hi is None: return seq.wrap(E(bv, b.ty))
            if hi is None: return seq.wrap(E(f"Rs.sliceFrom {par(bv)} {par(lo)}", b.ty, False))
            if lo is None: return seq.wrap(E(f"Rs.sliceTo {par(bv)} {par(hi)}", b.ty, False))
            return seq.wrap(E(f"Rs.slice {par(bv)} {par(lo)} {par(hi)}", b.ty, False))
        i = self.tr_expr(ix, env, USIZE)
        if not is_int(i.ty) or i.ty == ISIZE: raise Refuse(f"index of type {show_ty(i.ty)}")
        iv = seq.val(i)
        return seq.wrap(E(f"Rs.index {par(bv)} {par(iv)}", b.ty[1], False))

    def tr_range(self, ast, env):
        if ast[1] is None or ast[2] is None or ast[3]: raise Refuse("open or inclusive range as a value")
        seq = Seq(self)
        lo = self.tr_expr(ast[1], env); hi = self.tr_expr(ast[2], env, lo.ty if is_int(lo.ty) else None)
        ty = unify(lo.ty, hi.ty, "range")
        if not is_int(ty): raise Refuse(f"range over {show_ty(ty)}")
        lv, hv = seq.val(lo), seq.val(hi)
        if ty == ISIZE: return seq.wrap(E(f"Rs.rangeInt {par(lv)} {par(hv)}", ("Iter", ISIZE)))
        return seq.wrap(E(f"Rs.range {par(lv)} {par(hv)}", ("Iter", USIZE)))

    def tr_struct(self, ast, env):
        segs, fields = ast[1], ast[2]
        if segs[0] == "ArrayError" and len(segs) == 2:
            for _, fe in fields:
                if fe[0] in ("str", "macro"): continue
                if not self.tr_expr(fe, env).pure: raise Refuse("error payload with an effect")
            return E(f"Err.{segs[1]}", ERR)
        ty = self.selfty if segs == ["Self"] else (("Array", UNK) if segs == ["Array"] else None)
        if ty is None or ty[0] != "Array": raise Refuse(f"struct literal `{'::'.join(segs)}`")
        if sorted(f for f, _ in fields) != ["elements", "shape"]: raise Refuse("Array literal with other fields than elements, shape")
        seq = Seq(self)
        vals = {}
        for f, fe in fields:
            e = self.tr_expr(fe, env, ("Vec", USIZE) if f == "shape" else ("Vec", ty[1]))
            if f == "shape": unify(e.ty, ("Vec", USIZE), "shape field")
            else: ty = ("Array", unify(("Vec", ty[1]), e.ty, "elements field")[1])
            vals[f] = seq.val(e)
        ann = "_" if has_unknown(ty) else lean_ty(ty[1])
        return seq.wrap(E(f"({{ elems := {vals['elements']}, shape := {vals['shape']} }} : Arr {par(ann)})", ty))

    def tr_if(self, ast, env, expected, fnlevel):
        seq = Seq(self)
        c = self.tr_expr(ast[1], env, BOOL)
        if c.ty != BOOL: raise Refuse("`if` on a non-bool")
        cv = seq.val(c)
        a = self.tr_block(ast[2], env, expected, fnlevel)
        if ast[3] is None: b = E("()", UNIT)
        elif ast[3][0] == "block": b = self.tr_block(ast[3], env, expected, fnlevel)
        else: b = self.tr_expr(ast[3], env, expected, fnlevel)
        ty = unify(a.ty, b.ty, "branches of `if`")
        if a.pure and b.pure: return seq.wrap(E(f"if {cv} then {blk(a.term)} else {blk(b.term)}", ty, True, a.early or b.early))
        return seq.wrap(E(f"if {cv} then\n{comp_term(a)}\nelse\n{comp_term(b)}", ty, False, a.early or b.early))

    def tr_match(self, ast, env, expected, fnlevel):
        s = self.tr_expr(ast[1], env)
        seq = Seq(self)
        arms = []
        if s.ty[0] == "Result":
            if s.early: raise Refuse("`?` inside the scrutinee of a match on a Result")
            sv, force = s.term, True
        else:
            sv, force = seq.val(s), False
        ty = NEVER
        for pat, body in ast[2]:
            sp, env2 = self.bind_pat(pat, s.ty, env)
            b = self.tr_block(body, env2, expected, fnlevel) if body[0] == "block" else self.tr_expr(body, env2, expected, fnlevel)
            ty = unify(ty, b.ty, "arms of `match`")
            arms.append((sp, b))
        pure = all(b.pure for _, b in arms) and not force
        early = any(b.early for _, b in arms)
        lines = [f"match {sv} with"]
        if force: lines.append("| .panic => Res.panic")
        for sp, b in arms:
            lines.append(f"| {sp} =>\n{b.term if pure else comp_term(b)}")
        return seq.wrap(E("(" + "\n".join(lines) + ")", ty, pure, early))

    def tr_closure(self, ast, ptys, env):
        """-> (binders, body E)"""
        if ast[0] == "path" and len(ast[1]) == 2 and len(ptys) == 1:
            # `Trait::method` / `Type::method` passed as a function: `|x| x.method()`
            x = self.fresh()
            ast = ("closure", [(("pid", x, False), None)], ("mcall", ("path", [x], None), ast[1][1], None, []))
        if ast[0] != "closure": raise Refuse("a function item where a closure is expected")
        if len(ast[1]) != len(ptys): raise Refuse("closure with an unexpected number of parameters")
        bs = []
        self.closure_depth += 1
        try:
            env2 = env
            for (pat, tyast), t in zip(ast[1], ptys):
                b, env2 = self.binder(pat, t, env2); bs.append(b)
            body = ast[2]
            e = self.tr_block(body, env2) if body[0] == "block" else self.tr_expr(body, env2)
        finally:
            self.closure_depth -= 1
        if e.early: raise Refuse("`?` / `return` inside a closure")
        return " ".join(bs), e


    # ---- calls
    def call_crate(self, impls, name, actual, place_recv=False):
        """actual: list of (E or AST) in parameter order (receiver first)"""
        if not impls: raise Refuse(f"call of `{name}`: no such function in the translated files")
        if len(impls) > 1: raise Refuse(f"call of `{name}` is ambiguous between {len(impls)} impls")
        sg = self.crate.sig(impls[0], name)
        if len(actual) != len(sg["params"]): raise Refuse(f"call of `{name}` with {len(actual)} arguments")
        if sg["self_kind"] == "refmut" and place_recv: raise Refuse(f"`&mut self` helper `{name}` called on a variable (its mutation is not modelled)")
        seq = Seq(self)
        sub, terms = {}, []
        for a, (pn, pt) in zip(actual, sg["params"]):
            if not isinstance(a, E):
                a = self.tr_expr(a[0], a[1], pt if not any(n[0] == "var" for n in walk(pt)) else None)
            match_ty(pt, a.ty, sub)
            terms.append(par(seq.val(a)))
        for v, ws in sg["needs"].items():
            if v in sub:
                for w in ws: self.need(sub[v], w)
        ret = subst_ty(sg["ret"], sub)
        pure = sg["pure"] and sg["ret"][0] != "Result"
        if sg.get("extern"):
            self.use_extern(sg["lean"], tuple(subst_ty(t, sub) for _, t in sg["params"]), ret)
        pass_on = []
        for n, pts, r in sg["externs"]:
            self.use_extern(n, tuple(subst_ty(t, sub) for t in pts), subst_ty(r, sub))
            pass_on.append(n)
        return seq.wrap(E(" ".join([sg["lean"]] + pass_on + terms), ret, pure))

    def tr_call(self, ast, env, expected):
        f, args = ast[1], ast[2]
        if f[0] != "path": raise Refuse("call of a computed function")
        segs = f[1]
        if len(segs) == 1:
            n = segs[0]
            if n in ("Ok", "Some", "Err") and len(args) == 1:
                seq = Seq(self)
                if n == "Err":
                    a = self.tr_expr(args[0], env, ERR)
                    if a.ty != ERR: raise Refuse("`Err(..)` of something that is not an ArrayError")
                    v = seq.val(a)
                    term = "Res.err ." + v[4:] if v.startswith("Err.") else f"Res.err {par(v)}"
                    return seq.wrap(E(term, ("Result", expected[1] if expected is not None and expected[0] == "Result" else UNK)))
                inner = expected[1] if expected is not None and expected[0] in ("Result", "Option") else None
                a = self.tr_expr(args[0], env, inner)
                v = seq.val(a)
                if n == "Ok": return seq.wrap(E(f"Res.ok {par(v)}", ("Result", a.ty)))
                return seq.wrap(E(f"some {par(v)}", ("Option", a.ty)))
            raise Refuse(f"call of `{n}`")
        if len(segs) == 2:
            tyname, name = segs
            if tyname == "Vec" and name in ("new", "with_capacity"):
                for a in args:
                    if not self.tr_expr(a, env).pure: raise Refuse("capacity with an effect")
                return E("[]", ("Vec", expected[1] if expected is not None and is_seq(expected) else UNK))
            if tyname in ("Self", "Array"):
                ty = self.selfty if tyname == "Self" else ("Array", UNK)
                impls = self.crate.candidates(ty, name)
                place = bool(args) and place_root(args[0]) is not None
                return self.call_crate(impls, name, [(a, env) for a in args], place_recv=place)
        if segs[-2:] == ["iter", "repeat"] and len(args) == 1:
            a = self.tr_expr(args[0], env, None)
            if not a.pure: raise Refuse("`repeat` of an effectful expression")
            return E(a.term, ("Repeat", a.ty))
        raise Refuse(f"call of `{'::'.join(segs)}`")

    EARLY_STOP = {"any", "all", "find", "position", "take", "take_while", "skip_while", "zip", "step_by", "first", "get", "chain", "filter"}

    def tr_mcall(self, ast, env, expected):
        recv_ast, name, turbofish, args = ast[1], ast[2], ast[3], ast[4]
        r = self.tr_expr(recv_ast, env)
        if name in self.EARLY_STOP:
            a = recv_ast
            while a[0] == "mcall":
                if id(a) in self.effectful_maps: raise Refuse(f"`{name}` after a `map` whose closure can panic (laziness would be observable)")
                a = a[1]
        if name in VEC_MUTATORS and r.ty[0] == "Vec": raise Refuse(f"`Vec::{name}` in expression position")
        impls = self.crate.candidates(r.ty, name) if r.ty[0] not in ("unk", "never", "Cycle") else []
        if impls and not (r.ty[0] != "Array" and name in ERASED):
            return self.call_crate(impls, name, [r] + [(a, env) for a in args], place_recv=place_root(recv_ast) is not None)
        return self.std_mcall(r, name, turbofish, args, env, expected, ast)

    def std_mcall(self, r, name, turbofish, args, env, expected, ast=None):
        k = r.ty[0]
        def nargs(n):
            if len(args) != n: raise Refuse(f"`{name}` with {len(args)} arguments")
        # Result receivers first (a computation is consumed directly)
        if k == "Result":
            if name in ("clone", "as_ref"): nargs(0); return r
            if r.early: raise Refuse(f"`?` inside the receiver of `{name}`")
            if name == "unwrap":
                nargs(0)
                return E(f"Rs.unwrapRes {par(r.term)}", r.ty[1], False)
            seq = Seq(self); v = seq.val(r)
            if name in ("is_ok", "is_err"):
                nargs(0); return seq.wrap(E(f"Rs.{'isOk' if name == 'is_ok' else 'isErr'} {par(v)}", BOOL))
            if name == "err": nargs(0); return seq.wrap(E(f"Rs.resErr {par(v)}", ("Option", ERR)))
            raise Refuse(f"`Result::{name}`")
        seq = Seq(self); v = seq.val(r)
        def arg(i, exp=None): return self.tr_expr(args[i], env, exp)
        def aval(i, exp=None): return par(seq.val(arg(i, exp)))
        def closure(i, ptys):
            bs, b = self.tr_closure(args[i], ptys, env)
            return bs, b
        if k in ("Array", "Err", "str") and name in ("clone", "to_owned"):
            nargs(0); return seq.wrap(E(v, r.ty))
        if name in ERASED and k in ("Vec", "Iter", "Collect", "var", "usize", "isize", "bool", "Option", "Tuple", "Cycle"):
            nargs(0)
            ty = ("Iter", r.ty[1]) if name in ("iter", "into_iter") and k in ("Vec", "Collect") else r.ty
            return seq.wrap(E(v, ty))
        if k in ("Vec", "Iter", "Collect"):
            item = r.ty[1]
            pv = par(v)
            if name == "len" and k != "Iter": nargs(0); return seq.wrap(E(f"{pv}.length", USIZE))
            if name == "count": nargs(0); return seq.wrap(E(f"Rs.count {pv}", USIZE))
            if name == "is_empty" and k != "Iter": nargs(0); return seq.wrap(E(f"{pv}.isEmpty", BOOL))
            if name == "contains" and k != "Iter":
                nargs(1); a = arg(0, item); unify(item, a.ty, "contains"); self.need(item, "BEq")
                return seq.wrap(E(f"Rs.contains {pv} {par(seq.val(a))}", BOOL))
            if name == "first" and k != "Iter": nargs(0); return seq.wrap(E(f"Rs.first {pv}", ("Option", item)))
            if name == "last": nargs(0); return seq.wrap(E(f"Rs.last {pv}", ("Option", item)))
            if name == "get" and k != "Iter": nargs(1); return seq.wrap(E(f"{pv}[{aval(0, USIZE)}]?", ("Option", item)))
            if name == "rev": nargs(0); return seq.wrap(E(f"Rs.rev {pv}", ("Iter", item)))
            if name == "enumerate": nargs(0); return seq.wrap(E(f"Rs.enumerate {pv}", ("Iter", ("Tuple", (USIZE, item)))))
            if name == "chain" and len(args) == 1:
                a0 = arg(0)
                if a0.ty[0] == "Repeat":
                    # `it.chain(repeat(x))`: endless; only `take(n)` can consume it
                    return seq.wrap(E(v, ("Padded", unify(item, a0.ty[1], "chain"), par(a0.term))))
            if name in ("zip", "chain"):
                nargs(1); a = arg(0)
                if not is_seq(a.ty): raise Refuse(f"`{name}` with {show_ty(a.ty)}")
                av = par(seq.val(a))
                if name == "zip": return seq.wrap(E(f"Rs.zip {pv} {av}", ("Iter", ("Tuple", (item, a.ty[1])))))
                return seq.wrap(E(f"Rs.chain {pv} {av}", ("Iter", unify(item, a.ty[1], "chain"))))
            if name in ("take", "skip"): nargs(1); return seq.wrap(E(f"Rs.{name} {pv} {aval(0, USIZE)}", ("Iter", item)))
            if name == "cycle": nargs(0); return seq.wrap(E(v, ("Cycle", item)))
            if name == "step_by": nargs(1); return seq.wrap(E(f"Rs.stepBy {pv} {aval(0, USIZE)}", ("Iter", item), False))
            if name in ("sum", "product"):
                nargs(0)
                if not is_int(item) or item == ISIZE: raise Refuse(f"`{name}` over {show_ty(item)}")
                return seq.wrap(E(f"Rs.{name} {pv}", USIZE))
            if name == "collect":
                nargs(0)
                target = self.conv_type(turbofish[0]) if turbofish else expected
                if target is not None and target[0] == "Array":
                    impls = [im for im in self.crate.impls if im["trait"] and im["trait"][1][-1] == "FromIterator" and "from_iter" in im["fns"]]
                    return seq.wrap(self.call_crate(impls, "from_iter", [E(v, ("Iter", item))]))
                if target is not None and target[0] == "Vec": return seq.wrap(E(v, ("Vec", unify(item, target[1], "collect"))))
                if target is not None and target[0] == "HashSet":
                    self.need(item, "BEq")
                    return seq.wrap(E(f"Rs.toHashSet {pv}", ("HashSet", unify(item, target[1], "collect"))))
                if target is not None and target[0] not in ("unk",): raise Refuse(f"`collect` into {show_ty(target)}")
                return seq.wrap(E(v, ("Collect", item)))
            if name in ("any", "all", "filter", "skip_while", "take_while", "find", "position", "map", "for_each"):
                nargs(1)
                bs, b = closure(0, [item])
                if name == "for_each": raise Refuse("`for_each`")
                if name == "map":
                    if not b.pure:
                        # every element is produced before the consumer sees the first one; a consumer that may stop early is refused below
                        if b.ty[0] == "Result": raise Refuse("`map` to Result values with a closure that can panic")
                        self.effectful_maps.add(id(ast))
                        return seq.wrap(E(f"Rs.mapM {pv} (fun {bs} =>\n{b.term})", ("Iter", b.ty), False))
                    return seq.wrap(E(f"Rs.map {pv} (fun {bs} =>\n{b.term})", ("Iter", b.ty)))
                if b.ty != BOOL: raise Refuse(f"`{name}` with a closure that does not return bool")
                if name in ("any", "all"):
                    if b.pure: return seq.wrap(E(f"Rs.{name} {pv} (fun {bs} =>\n{b.term})", BOOL))
                    return seq.wrap(E(f"Rs.{name}M {pv} (fun {bs} =>\n{b.term})", BOOL, False))
                if not b.pure: raise Refuse(f"`{name}` with a closure that can panic")
                fn = {"filter": "filter", "skip_while": "skipWhile", "take_while": "takeWhile", "find": "find", "position": "position"}[name]
                ty = {"find": ("Option", item), "position": ("Option", USIZE)}.get(name, ("Iter", item))
                return seq.wrap(E(f"Rs.{fn} {pv} (fun {bs} =>\n{b.term})", ty))
            if name == "fold":
                nargs(2)
                init = arg(0)
                acc = init.ty
                for _ in range(3):
                    bs, b = closure(1, [acc, item])
                    new = unify(acc, b.ty, "fold accumulator")
                    if new == acc: break
                    acc = new
                iv = par(seq.val(init))
                if b.pure: return seq.wrap(E(f"Rs.fold {pv} {iv} (fun {bs} =>\n{b.term})", acc))
                return seq.wrap(E(f"Rs.foldM {pv} {iv} (fun {bs} =>\n{b.term})", acc, False))
            raise Refuse(f"`{name}` on {show_ty(r.ty)}")
        if k == "Padded":
            if name == "take": nargs(1); return seq.wrap(E(f"Rs.padTake {par(v)} {r.ty[2]} {aval(0, USIZE)}", ("Iter", r.ty[1])))
            raise Refuse(f"`{name}` on an endless iterator")
        if k == "HashSet":
            if name == "len": nargs(0); return seq.wrap(E(f"{par(v)}.length", USIZE))
            raise Refuse(f"`HashSet::{name}`")
        if k == "Cycle":
            if name == "take": nargs(1); return seq.wrap(E(f"Rs.cycleTake {par(v)} {aval(0, USIZE)}", ("Iter", r.ty[1])))
            raise Refuse(f"`{name}` on an endless iterator")
        if k == "Option":
            pv = par(v)
            if name == "unwrap": nargs(0); return seq.wrap(E(f"Rs.unwrap {pv}", r.ty[1], False))
            if name == "unwrap_or":
                nargs(1); a = arg(0, r.ty[1])
                if not a.pure: raise Refuse("`unwrap_or` with an effectful default")
                return seq.wrap(E(f"Rs.unwrapOr {pv} {par(a.term)}", unify(r.ty[1], a.ty, "unwrap_or")))
            if name in ("is_none", "is_some"): nargs(0); return seq.wrap(E(f"Rs.{'isNone' if name == 'is_none' else 'isSome'} {pv}", BOOL))
            if name == "ok_or":
                nargs(1); a = arg(0, ERR)
                if a.ty != ERR or not a.pure: raise Refuse("`ok_or` with something that is not an ArrayError")
                return seq.wrap(E(f"Rs.okOr {pv} {par(a.term)}", ("Result", r.ty[1])))
            if name == "map_or_else":
                nargs(2)
                if args[0][0] != "closure" or args[0][1]: raise Refuse("`map_or_else` default that is not a `|| ..` closure")
                self.closure_depth += 1
                try: d = self.tr_expr(args[0][2], env, expected)
                finally: self.closure_depth -= 1
                bs, b = closure(1, [r.ty[1]])
                ty = unify(d.ty, b.ty, "map_or_else")
                if d.pure and b.pure: return seq.wrap(E(f"Rs.mapOrElse {pv} {par(d.term)} (fun {bs} =>\n{b.term})", ty))
                if d.early: raise Refuse("`?` inside a closure")
                return seq.wrap(E(f"Rs.mapOrElse {pv} {par(comp_term(d))} (fun {bs} =>\n{comp_term(b)})", ty, False))
            if name == "map_or":
                nargs(2); d = arg(0)
                bs, b = closure(1, [r.ty[1]])
                if d.pure and not b.pure and b.ty[0] != "Result":
                    return seq.wrap(E(f"Rs.mapOrM {pv} {par(d.term)} (fun {bs} =>\n{b.term})", unify(d.ty, b.ty, "map_or"), False))
                if not (d.pure and b.pure): raise Refuse("`map_or` with effects")
                return seq.wrap(E(f"Rs.mapOr {pv} {par(d.term)} (fun {bs} =>\n{b.term})", unify(d.ty, b.ty, "map_or")))
            raise Refuse(f"`Option::{name}`")
        if k in ("usize", "int?"):
            pv = par(v)
            if name == "to_isize": nargs(0); return seq.wrap(E(f"Rs.toIsize {pv}", ISIZE))
            if name == "to_usize": nargs(0); return seq.wrap(E(v, USIZE))
            if name == "saturating_sub": nargs(1); return seq.wrap(E(f"Rs.saturatingSub {pv} {aval(0, USIZE)}", USIZE))
            if name in ("min", "max"): nargs(1); return seq.wrap(E(f"Rs.u{name} {pv} {aval(0, USIZE)}", USIZE))
            raise Refuse(f"`usize::{name}`")
        if k == "isize":
            pv = par(v)
            if name == "to_usize": nargs(0); return seq.wrap(E(f"Rs.toUsize {pv}", USIZE))
            if name == "to_isize": nargs(0); return seq.wrap(E(v, ISIZE))
            raise Refuse(f"`isize::{name}`")
        raise Refuse(f"method `{name}` on {show_ty(r.ty)}")


def render_type(t):
    if t is None: return ""
    if t[0] == "ref": return "&" + render_type(t[1])
    if t[0] == "tuple": return "(" + ", ".join(render_type(x) for x in t[1]) + ")"
    if t[0] == "impl": return "impl _"
    if t[0] == "assoc": return f"{t[1]}={render_type(t[2])}"
    return "::".join(t[1]) + ("<" + ", ".join(render_type(a) for a in t[2]) + ">" if t[2] else "")


# ---------------------------------------------------------------------------------------------------------------------
# 5. driver
# ---------------------------------------------------------------------------------------------------------------------
def generate():
    crate = Crate()
    listed = []
    for file, trait, head, fns in TARGETS:
        for fn in fns:
            try:
                impl = crate.find_target(file, trait, head, fn)
                sg = crate.sig(impl, fn)
            except Refuse as e:
                if e.where is None: e.where = (file, fn)
                raise
            listed.append((file, trait, head, fn, sg["lean"]))
    files = sorted({sg["file"] for sg in crate.order})
    out = ["import ArrModel.RsPrelude",
           "/-!",
           "GENERATED by tools/rs2lean.py from " + ", ".join("src/" + f for f in files) + " - do not edit.",
           "",
           "One `def` per Rust function of the core funnel (and per crate function they call), translated construct by construct",
           "into terms over `ArrModel/RsPrelude.lean`; regenerated from the source on every run of `check`.  The equivalence with the",
           "hand-written model is proved in `ArrProofs/Lemmas/GenCore.lean`.",
           "",
           "Listed functions:"]
    for file, trait, head, fn, lean in listed:
        out.append(f"  {lean:34s} {file}: impl {trait + ' for ' if trait else ''}{head} :: {fn}")
    extra = [sg for sg in crate.order if sg["lean"] not in {l[4] for l in listed}]
    if extra:
        out.append("Called by them (translated on demand):")
        for sg in extra: out.append(f"  {sg['lean']:34s} {sg['file']} :: {sg['fn']}")
    out += ["-/", "set_option linter.unusedVariables false", "namespace ArrModel.Gen.Core", "open ArrModel", ""]
    for sg in crate.order:
        out.append(sg["text"])
    out += ["end ArrModel.Gen.Core", ""]
    return "\n".join(out), crate


def main():
    args = sys.argv[1:]
    out_path, check = OUT, False
    i = 0
    while i < len(args):
        if args[i] == "--check": check = True; i += 1
        elif args[i] == "--out" and i + 1 < len(args): out_path = args[i + 1]; i += 2
        else:
            print("usage: rs2lean.py [--check] [--out PATH]"); return 2
    try:
        text, crate = generate()
    except Refuse as e:
        f, fn = e.where if e.where else ("?", "?")
        print(f"rs2lean: refuse {f}:{fn}: {e.what}")
        return 3
    except RecursionError:
        print("rs2lean: refuse ?:?: nesting too deep")
        return 3
    old = open(out_path, encoding="utf-8").read() if os.path.exists(out_path) else None
    if check:
        same = old == text
        print(f"rs2lean: {os.path.relpath(out_path, ROOT)} is {'up to date' if same else 'NOT what the source generates now'}")
        return 0 if same else 1
    changed = old != text
    if changed:
        os.makedirs(os.path.dirname(out_path), exist_ok=True)
        tmp = out_path + f".tmp{os.getpid()}"
        with open(tmp, "w", encoding="utf-8") as fo: fo.write(text)
        os.replace(tmp, out_path)
    print(f"rs2lean: {len(crate.order)} functions translated from {len({sg['file'] for sg in crate.order})} files; "
          f"{os.path.basename(out_path)} {'rewritten' if changed else 'unchanged'}")
    return 0


if __name__ == "__main__":
    sys.exit(main())
