#!/usr/bin/env python3
"""lead-only: re-run every stored seeded change through its property's check (quick tier, scratch worktree) and update meta.json.
usage: recheck_seeded.py [prefix ...]   (e.g. C02 C03)"""
import json, os, subprocess, sys, glob
ROOT = os.path.dirname(os.path.dirname(os.path.abspath(__file__)))
pref = sys.argv[1:]
for d in sorted(glob.glob(os.path.join(ROOT, "seeded", "*"))):
    sid = os.path.basename(d)
    if pref and not any(sid.startswith(p) or (p.startswith('~') and p[1:] in sid) for p in pref): continue
    if os.environ.get('ONLY') and os.environ['ONLY'] not in sid: continue
    mp = os.path.join(d, "meta.json"); m = json.load(open(mp))
    prop = m["breaks_property"]
    p = subprocess.run([os.path.join(ROOT, "tools", "run_seeded.sh"), prop, os.path.join(d, "patch.diff"), "quick"], capture_output=True, text=True)
    out = p.stdout[-900:]
    c = m["check"]
    was = c.get("caught_by_quick") or c.get("caught_by_thorough")
    now = p.returncode == 1
    if p.returncode == 2:
        print(sid, "patch no longer applies (repo moved); keeping the recorded result"); continue
    hist = m.setdefault("history", [])
    hist.append({"caught_by_quick": now, "first_replay": next((l for l in out.split("\n") if "first replay" in l), "").strip()[:300]})
    if now and not was:
        m["caught_after_strengthening"] = m.get("caught_after_strengthening") or "caught by the quick tier after the robustness streams (sizes / zero-length axes / element types and value classes / both receivers) were added to the property's harness"
    c["caught_by_quick_now"] = now
    c["quick_output_now"] = out
    json.dump(m, open(mp, "w"), indent=1)
    print(sid, "now", "CAUGHT" if now else "MISSED", "(was", "caught" if was else "missed", ")")
