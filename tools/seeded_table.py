#!/usr/bin/env python3
"""prints the markdown table of seeded changes (seeded/*/meta.json) for DESIGN.md §13.5"""
import json, glob, os
rows = []
for p in sorted(glob.glob(os.path.join(os.path.dirname(os.path.dirname(os.path.abspath(__file__))), "seeded", "*", "meta.json"))):
    m = json.load(open(p))
    c = m["check"]
    caught = "quick" if c["caught_by_quick"] else ("thorough only" if c["caught_by_thorough"] else "**MISSED**")
    if c.get("caught_by_quick_now") is False and not (c["caught_by_quick"] or c["caught_by_thorough"]): caught = "**MISSED**"
    if m.get("caught_after_strengthening") and c.get("caught_by_quick_now", True): caught = "missed at first; now quick — " + m["caught_after_strengthening"][:160]
    rows.append(f"| `{m['id']}` | {m['breaks_property']} | {(m.get('what_changed') or '').replace('|','/')[:150]} | {(m.get('needs_to_manifest') or '').replace('|','/')[:130]} | {caught} |")
print("| seeded change | property | what was changed | needs, to manifest | caught by `./check` |\n|---|---|---|---|---|")
print("\n".join(rows))
