import ArrModel.C17Lift
/-! helper lemmas for C17: the lifting combinators -/
set_option linter.unusedSimpArgs false
namespace ArrModel.C17
open ArrModel

variable {α β γ δ : Type}

theorem zipWith3_length (f : α → β → γ → δ) : ∀ (as : List α) (bs : List β) (cs : List γ),
    bs.length = as.length → cs.length = as.length → (zipWith3 f as bs cs).length = as.length
  | [], _, _, _, _ => by simp [zipWith3]
  | a :: as, [], _, hb, _ => by simp at hb
  | a :: as, b :: bs, [], _, hc => by simp at hc
  | a :: as, b :: bs, c :: cs, hb, hc => by
    simp only [zipWith3, List.length_cons]
    rw [zipWith3_length f as bs cs (by simpa using hb) (by simpa using hc)]

theorem zipWith3_getElem? (f : α → β → γ → δ) : ∀ (as : List α) (bs : List β) (cs : List γ)
    (hb : bs.length = as.length) (hc : cs.length = as.length) (p : Nat) (h : p < as.length),
    (zipWith3 f as bs cs)[p]? = some (f as[p] (bs[p]'(hb ▸ h)) (cs[p]'(hc ▸ h)))
  | [], _, _, _, _, p, h => by simp at h
  | a :: as, [], _, hb, _, _, _ => by simp at hb
  | a :: as, b :: bs, [], _, hc, _, _ => by simp at hc
  | a :: as, b :: bs, c :: cs, hb, hc, 0, h => by simp [zipWith3]
  | a :: as, b :: bs, c :: cs, hb, hc, p + 1, h => by
    simp only [zipWith3, List.getElem?_cons_succ, List.getElem_cons_succ]
    exact zipWith3_getElem? f as bs cs (by simpa using hb) (by simpa using hc) p (by simpa using h)

theorem mapM'_ok (g : α → Res β) (h : α → β) : ∀ (l : List α), (∀ x ∈ l, g x = .ok (h x)) →
    Res.mapM' g l = .ok (l.map h)
  | [], _ => rfl
  | x :: xs, hx => by
    have ih := mapM'_ok g h xs (fun y hy => hx y (List.mem_cons_of_mem _ hy))
    unfold Res.mapM' at ih ⊢
    simp only [List.map_cons, Res.sequence, hx x (List.mem_cons_self), ih, Res.bind_ok]

theorem idx_ok (l : List α) (i : Nat) (h : i < l.length) : Res.idx l i = .ok l[i] := by
  simp [Res.idx, h]

theorem new_ok (es : List α) (sh : List Nat) (h : sh.prod = es.length) : Arr.new es sh = .ok ⟨es, sh⟩ := by
  unfold Arr.new; rw [if_pos h]

theorem lift3_ok (B : Bcast) (f : α → α → α → β) (a b c a' b' c' : Arr α)
    (hh : B.arrays [a, b, c] = .ok [a', b', c']) (hwf : a'.WF)
    (hb : b'.elems.length = a'.elems.length) (hc : c'.elems.length = a'.elems.length) :
    ∃ r, lift3 B f a b c = .ok r ∧ r.shape = a'.shape ∧ r.WF ∧
      ∀ p (h : p < a'.elems.length),
        r.elems[p]? = some (f a'.elems[p] (b'.elems[p]'(hb ▸ h)) (c'.elems[p]'(hc ▸ h))) := by
  have e0 : Res.idx [a', b', c'] 0 = .ok a' := rfl
  have e1 : Res.idx [a', b', c'] 1 = .ok b' := rfl
  have e2 : Res.idx [a', b', c'] 2 = .ok c' := rfl
  rcases Nat.eq_zero_or_pos a'.elems.length with h0 | hpos
  · refine ⟨⟨[], a'.shape⟩, ?_, rfl, ?_, ?_⟩
    · unfold lift3
      rw [hh]
      simp only [Res.bind_ok, e0, e1, e2, h0, List.range_zero]
      show Arr.new [] a'.shape = _
      exact new_ok _ _ (by have := hwf.symm; rw [h0] at this; simpa using this)
    · have := hwf; rw [Arr.WF, h0] at this; simpa [Arr.WF] using this
    · intro p h; omega
  · let x0 : α := a'.elems[0]
    let hfun : Nat → β := fun i =>
      if h : i < a'.elems.length then f a'.elems[i] (b'.elems[i]'(hb ▸ h)) (c'.elems[i]'(hc ▸ h)) else f x0 x0 x0
    have hm := mapM'_ok (fun i => Res.idx a'.elems i >>= fun x => Res.idx b'.elems i >>= fun y =>
        Res.idx c'.elems i >>= fun z => Res.ok (f x y z)) hfun (List.range a'.elems.length) (by
      intro i hi
      have hi' : i < a'.elems.length := List.mem_range.1 hi
      simp only [idx_ok _ _ hi', idx_ok b'.elems i (hb ▸ hi'), idx_ok c'.elems i (hc ▸ hi'), Res.bind_ok, hfun, hi',
        dite_true])
    refine ⟨⟨(List.range a'.elems.length).map hfun, a'.shape⟩, ?_, rfl, ?_, ?_⟩
    · unfold lift3
      rw [hh]
      simp only [Res.bind_ok, e0, e1, e2]
      rw [hm]
      simp only [Res.bind_ok]
      exact new_ok _ _ (by simpa [Arr.WF] using hwf.symm)
    · simpa [Arr.WF] using hwf
    · intro p h
      simp [List.getElem?_map, List.getElem?_range h, hfun, h]

theorem liftSplit_none_ok (B : Bcast) (f : α → α → Option Nat → β) (a sep : Arr α) (t : Arr (α × α))
    (ht : B.pair a sep = .ok t) (hwf : t.WF) :
    ∃ r, liftSplit B f a sep none = .ok r ∧ r.shape = t.shape ∧ r.WF ∧
      ∀ p (h : p < t.elems.length), r.elems[p]? = some (f t.elems[p].1 t.elems[p].2 none) := by
  have hm := mapM'_ok (fun (ip : Nat × (α × α)) => (Res.ok (f ip.2.1 ip.2.2 none) : Res β))
    (fun ip => f ip.2.1 ip.2.2 none) ((List.range t.elems.length).zip t.elems) (fun _ _ => rfl)
  refine ⟨⟨((List.range t.elems.length).zip t.elems).map (fun ip => f ip.2.1 ip.2.2 none), t.shape⟩, ?_, rfl, ?_, ?_⟩
  · unfold liftSplit
    rw [ht]
    simp only [Res.bind_ok]
    rw [hm]
    simp only [Res.bind_ok]
    exact new_ok _ _ (by simpa [Arr.WF] using hwf.symm)
  · simpa [Arr.WF] using hwf
  · intro p h
    simp [List.getElem?_map, List.zip_eq_zipWith, List.getElem?_zipWith, List.getElem?_range h, h]

theorem liftSplit_some_ok (B : Bcast) (f : α → α → Option Nat → β) (a sep : Arr α) (t : Arr (α × α))
    (ht : B.pair a sep = .ok t) (hwf : t.WF) (m m' : Arr Nat) (hm' : B.to m t.shape = .ok m')
    (hl : m'.elems.length = t.elems.length) :
    ∃ r, liftSplit B f a sep (some m) = .ok r ∧ r.shape = t.shape ∧ r.WF ∧
      ∀ p (h : p < t.elems.length), r.elems[p]? = some (f t.elems[p].1 t.elems[p].2 m'.elems[p]?) := by
  have hm := mapM'_ok (fun (ip : Nat × (α × α)) =>
      (Res.idx m'.elems ip.1 >>= fun n => Res.ok (f ip.2.1 ip.2.2 (some n)) : Res β))
    (fun ip => f ip.2.1 ip.2.2 m'.elems[ip.1]?) ((List.range t.elems.length).zip t.elems) (by
      rintro ⟨i, x⟩ hx
      have hi : i < m'.elems.length := by rw [hl]; exact List.mem_range.1 (List.of_mem_zip hx).1
      simp [idx_ok _ _ hi, hi])
  refine ⟨⟨((List.range t.elems.length).zip t.elems).map (fun ip => f ip.2.1 ip.2.2 m'.elems[ip.1]?), t.shape⟩,
    ?_, rfl, ?_, ?_⟩
  · unfold liftSplit
    rw [ht]
    simp only [Res.bind_ok, hm']
    rw [hm]
    simp only [Res.bind_ok]
    exact new_ok _ _ (by simpa [Arr.WF] using hwf.symm)
  · simpa [Arr.WF] using hwf
  · intro p h
    simp [List.getElem?_map, List.zip_eq_zipWith, List.getElem?_zipWith, List.getElem?_range h, h]

theorem zip_self_any (g : Nat × Nat → Bool) : ∀ (l : List Nat), (l.zip l).any g = l.any (fun d => g (d, d))
  | [] => rfl
  | d :: ds => by simp [List.zip_cons_cons, zip_self_any g ds]

theorem isBroadcastable_self (s : List Nat) (hpos : ∀ d ∈ s, d ≠ 0) : isBroadcastable s s = true := by
  unfold isBroadcastable
  rw [zip_self_any]
  simp only [Bool.not_eq_true', List.any_eq_false, List.mem_reverse]
  intro d hd
  simp [dimClash, hpos d hd]

theorem lift2_std_same_shape (f : α → β → γ) (a : Arr α) (b : Arr β) (ha : a.WF) (hb : b.WF)
    (hs : a.shape = b.shape) (hpos : ∀ d ∈ a.shape, d ≠ 0) :
    lift2 Bcast.std f a b = .ok ⟨List.zipWith f a.elems b.elems, a.shape⟩ := by
  have hlen : b.elems.length = a.elems.length := by rw [ha, hb, hs]
  unfold lift2 Bcast.std
  simp only [Arr.broadcast]
  rw [← hs, isBroadcastable_self a.shape hpos]
  simp only [Bool.not_true, Bool.false_eq_true, if_false, if_true, Arr.reshape, Arr.flat]
  rw [new_ok _ _ (by simp [List.length_zip, hlen]; exact ha.symm)]
  simp only [Res.bind_ok]
  rw [new_ok _ _ (by simp [List.length_zip, hlen]; exact ha.symm)]
  simp [List.zip_eq_zipWith, List.map_zipWith]

end ArrModel.C17
