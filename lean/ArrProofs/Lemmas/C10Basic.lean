import ArrModel.C10
/-!
# C10 lemmas, part 1 — order laws, sorted permutations are unique, `merge_sort`, `quick_sort`
-/
namespace ArrModel.Sort
open ArrModel

variable {α : Type}

/-- the comparison operators describe one linear order (what `i64`'s `PartialOrd`/`PartialEq` provide) -/
structure Cmp.Lawful (c : Cmp α) : Prop where
  le_total : ∀ a b, c.le a b = true ∨ c.le b a = true
  le_trans : ∀ a b d, c.le a b = true → c.le b d = true → c.le a d = true
  le_antisymm : ∀ a b, c.le a b = true → c.le b a = true → a = b
  lt_iff : ∀ a b, c.lt a b = !c.le b a
  beq_iff : ∀ a b, c.beq a b = true ↔ a = b
  not_nan : ∀ a, c.isNan a = false

theorem Cmp.int_lawful : Cmp.int.Lawful where
  le_total a b := by simp only [Cmp.int, decide_eq_true_eq]; omega
  le_trans a b d := by simp only [Cmp.int, decide_eq_true_eq]; omega
  le_antisymm a b := by simp only [Cmp.int, decide_eq_true_eq]; omega
  lt_iff a b := by
    simp only [Cmp.int]
    by_cases h : a < b
    · simp [h, Int.not_le.mpr h]
    · simp [h, Int.not_lt.mp h]
  beq_iff a b := by simp [Cmp.int]
  not_nan _ := rfl

/-- non-decreasing -/
abbrev Sorted (c : Cmp α) (l : List α) : Prop := l.Pairwise (fun a b => c.le a b = true)

namespace Cmp.Lawful
variable {c : Cmp α} (h : c.Lawful)
include h

theorem le_refl (a : α) : c.le a a = true := by
  rcases h.le_total a a with h | h <;> exact h

theorem le_of_lt {a b : α} (hl : c.lt a b = true) : c.le a b = true := by
  rw [h.lt_iff] at hl
  rcases h.le_total a b with h' | h'
  · exact h'
  · simp [h'] at hl

theorem le_of_not_lt {a b : α} (hl : c.lt a b = false) : c.le b a = true := by
  rw [h.lt_iff] at hl; simpa using hl

theorem not_le_of_lt {a b : α} (hl : c.lt a b = true) : c.le b a = false := by
  rw [h.lt_iff] at hl; simpa using hl

theorem lt_of_not_le {a b : α} (hl : c.le b a = false) : c.lt a b = true := by
  rw [h.lt_iff]; simp [hl]

theorem beq_refl (a : α) : c.beq a a = true := (h.beq_iff a a).2 rfl

theorem beq_false_iff {a b : α} : c.beq a b = false ↔ a ≠ b := by
  constructor
  · intro hb he; rw [(h.beq_iff a b).2 he] at hb; cases hb
  · intro hne; cases hb : c.beq a b
    · rfl
    · exact absurd ((h.beq_iff a b).1 hb) hne

/-- two sorted lists with the same elements (with multiplicity) are equal -/
theorem sorted_perm_unique {l₁ l₂ : List α} (h₁ : Sorted c l₁) (h₂ : Sorted c l₂) (p : l₁.Perm l₂) : l₁ = l₂ :=
  List.Perm.eq_of_pairwise (le := fun a b => c.le a b = true) (fun a b _ _ hab hba => h.le_antisymm a b hab hba) h₁ h₂ p

theorem sorted_mergeSort (l : List α) : Sorted c (l.mergeSort c.le) :=
  List.pairwise_mergeSort (le := c.le) (fun a b d => h.le_trans a b d)
    (fun a b => by rcases h.le_total a b with h' | h' <;> simp [h']) l

/-- the specification: THE sorted rearrangement of a lane -/
theorem eq_mergeSort_of_sorted_perm {l s : List α} (hs : Sorted c s) (p : s.Perm l) : s = l.mergeSort c.le :=
  h.sorted_perm_unique hs (h.sorted_mergeSort l) (p.trans (List.mergeSort_perm l c.le).symm)

end Cmp.Lawful

/-! ### merge loop of `merge_sort` -/

@[simp] theorem mergeLoop_nil_left (c : Cmp α) (r : List α) : mergeLoop c [] r = r := rfl

@[simp] theorem mergeLoop_nil_right (c : Cmp α) (l : List α) : mergeLoop c l [] = l := by
  induction l with
  | nil => rfl
  | cons a l ih => simp [mergeLoop, mergeAux, ih]

theorem mergeLoop_cons_cons (c : Cmp α) (a b : α) (l r : List α) :
    mergeLoop c (a :: l) (b :: r) =
      if c.lt a b then a :: mergeLoop c l (b :: r) else b :: mergeLoop c (a :: l) r := by
  simp only [mergeLoop, mergeAux]

theorem mergeLoop_perm (c : Cmp α) : ∀ (l r : List α), (mergeLoop c l r).Perm (l ++ r) := by
  intro l
  induction l with
  | nil => intro r; simp
  | cons a l ihl =>
    intro r
    induction r with
    | nil => simp
    | cons b r ihr =>
      rw [mergeLoop_cons_cons]
      split
      · exact (ihl (b :: r)).cons a
      · refine (ihr.cons b).trans ?_
        exact (List.perm_middle (a := b) (l₁ := a :: l) (l₂ := r)).symm

theorem mem_mergeLoop {c : Cmp α} {l r : List α} {x : α} : x ∈ mergeLoop c l r ↔ x ∈ l ∨ x ∈ r := by
  rw [(mergeLoop_perm c l r).mem_iff, List.mem_append]

theorem mergeLoop_sorted {c : Cmp α} (h : c.Lawful) : ∀ (l r : List α), Sorted c l → Sorted c r →
    Sorted c (mergeLoop c l r) := by
  intro l
  induction l with
  | nil => intro r _ hr; simpa using hr
  | cons a l ihl =>
    intro r
    induction r with
    | nil => intro hl _; simpa using hl
    | cons b r ihr =>
      intro hl hr
      rw [mergeLoop_cons_cons]
      have hl' := List.pairwise_cons.1 hl
      have hr' := List.pairwise_cons.1 hr
      cases hlt : c.lt a b
      · -- b first
        have hba := h.le_of_not_lt hlt
        simp only [Bool.false_eq_true, ↓reduceIte]
        refine List.pairwise_cons.2 ⟨?_, ihr hl hr'.2⟩
        intro x hx
        rcases mem_mergeLoop.1 hx with hx | hx
        · rcases List.mem_cons.1 hx with rfl | hx
          · exact hba
          · exact h.le_trans _ _ _ hba (hl'.1 x hx)
        · exact hr'.1 x hx
      · have hab := h.le_of_lt hlt
        simp only [↓reduceIte]
        refine List.pairwise_cons.2 ⟨?_, ihl (b :: r) hl'.2 hr⟩
        intro x hx
        rcases mem_mergeLoop.1 hx with hx | hx
        · exact hl'.1 x hx
        · rcases List.mem_cons.1 hx with rfl | hx
          · exact hab
          · exact h.le_trans _ _ _ hab (hr'.1 x hx)

/-! ### merge_sort -/

theorem mergeSortF_perm (c : Cmp α) : ∀ (f : Nat) (xs : List α), (mergeSortF c f xs).Perm xs := by
  intro f
  induction f with
  | zero => intro xs; exact .refl _
  | succ f ih =>
    intro xs
    simp only [mergeSortF]
    split
    · exact .refl _
    · refine (mergeLoop_perm c _ _).trans ?_
      refine ((ih _).append (ih _)).trans ?_
      rw [List.take_append_drop]

theorem sorted_of_length_le_one (c : Cmp α) {xs : List α} (hx : xs.length ≤ 1) : Sorted c xs := by
  match xs, hx with
  | [], _ => exact List.Pairwise.nil
  | [x], _ => exact List.pairwise_singleton _ _

theorem mergeSortF_sorted {c : Cmp α} (h : c.Lawful) : ∀ (f : Nat) (xs : List α), xs.length ≤ f + 1 →
    Sorted c (mergeSortF c f xs) := by
  intro f
  induction f with
  | zero => intro xs hx; exact sorted_of_length_le_one c hx
  | succ f ih =>
    intro xs hx
    simp only [mergeSortF]
    split
    · next h1 => exact sorted_of_length_le_one c h1
    · next h1 =>
      apply mergeLoop_sorted h
      · apply ih; rw [List.length_take]; omega
      · apply ih; rw [List.length_drop]; omega

theorem mergeSort_perm (c : Cmp α) (xs : List α) : (mergeSort c xs).Perm xs := mergeSortF_perm c _ xs

theorem mergeSort_sorted {c : Cmp α} (h : c.Lawful) (xs : List α) : Sorted c (mergeSort c xs) :=
  mergeSortF_sorted h _ xs (Nat.le_succ _)

/-! ### quick_sort -/

theorem quickSortF_perm (c : Cmp α) : ∀ (f : Nat) (xs : List α), (quickSortF c f xs).Perm xs := by
  intro f
  induction f with
  | zero => intro xs; exact .refl _
  | succ f ih =>
    intro xs
    simp only [quickSortF]
    split
    · exact .refl _
    · match xs with
      | [] => exact .refl _
      | pivot :: rest =>
        simp only
        refine ((ih _).append ((ih _).cons pivot)).trans ?_
        refine List.perm_middle.trans (List.Perm.cons _ ?_)
        exact List.filter_append_perm (fun it => c.lt it pivot) rest

theorem quickSortF_sorted {c : Cmp α} (h : c.Lawful) : ∀ (f : Nat) (xs : List α), xs.length ≤ f + 1 →
    Sorted c (quickSortF c f xs) := by
  intro f
  induction f with
  | zero => intro xs hx; exact sorted_of_length_le_one c hx
  | succ f ih =>
    intro xs hx
    simp only [quickSortF]
    split
    · next h1 => exact sorted_of_length_le_one c h1
    · match xs, hx with
      | [], _ => exact List.Pairwise.nil
      | pivot :: rest, hx =>
        simp only
        have hlen1 : (rest.filter (fun it => c.lt it pivot)).length ≤ f + 1 := by
          have := List.length_filter_le (fun it => c.lt it pivot) rest
          simp only [List.length_cons] at hx; omega
        have hlen2 : (rest.filter (fun it => !c.lt it pivot)).length ≤ f + 1 := by
          have := List.length_filter_le (fun it => !c.lt it pivot) rest
          simp only [List.length_cons] at hx; omega
        unfold Sorted
        rw [List.pairwise_append]
        refine ⟨ih _ hlen1, List.pairwise_cons.2 ⟨?_, ih _ hlen2⟩, ?_⟩
        · intro x hx'
          have hx'' := ((quickSortF_perm c f _).mem_iff).1 hx'
          have := (List.mem_filter.1 hx'').2
          exact h.le_of_not_lt (by simpa using this)
        · intro x hx' y hy
          have hx'' := (List.mem_filter.1 (((quickSortF_perm c f _).mem_iff).1 hx')).2
          have hxp : c.le x pivot = true := h.le_of_lt (by simpa using hx'')
          rcases List.mem_cons.1 hy with rfl | hy
          · exact hxp
          · have hy' := (List.mem_filter.1 (((quickSortF_perm c f _).mem_iff).1 hy)).2
            exact h.le_trans _ _ _ hxp (h.le_of_not_lt (by simpa using hy'))

theorem quickSort_perm (c : Cmp α) (xs : List α) : (quickSort c xs).Perm xs := quickSortF_perm c _ xs

theorem quickSort_sorted {c : Cmp α} (h : c.Lawful) (xs : List α) : Sorted c (quickSort c xs) :=
  quickSortF_sorted h _ xs (Nat.le_succ _)

end ArrModel.Sort
