import ArrProofs.Lemmas.C08AlongAxis
import ArrProofs.Lemmas.C11Sizes
/-! C11: coordinates cut at one axis (`p ++ j :: q`), the two transpositions used by `array_split` / `append` -/
namespace ArrModel.C11
open ArrModel Arr
variable {α : Type}

/-! ### lists cut at one position -/

theorem insertIdx_mid {β} (p q : List β) (j : β) : (p ++ q).insertIdx p.length j = p ++ j :: q := by
  induction p with
  | nil => simp
  | cons x xs ih => simp [List.insertIdx_succ_cons, ih]

theorem eraseIdx_mid {β} (p q : List β) (j : β) : (p ++ j :: q).eraseIdx p.length = p ++ q := by
  induction p with
  | nil => simp
  | cons x xs ih => simp [ih]

theorem getD_mid (p q : List Nat) (j : Nat) : (p ++ j :: q).getD p.length 0 = j := by
  simp [List.getD_eq_getElem?_getD]

theorem set_mid {β} (p q : List β) (j x : β) : (p ++ j :: q).set p.length x = p ++ x :: q := by
  induction p with
  | nil => simp
  | cons y ys ih => simp [ih]

/-- a list cut at position `k` -/
theorem cut_at (c : List Nat) (k : Nat) (h : k < c.length) : c = c.take k ++ c.getD k 0 :: c.drop (k + 1) := by
  have : c.getD k 0 = c[k] := by simp [List.getD_eq_getElem?_getD, h]
  rw [this, List.getElem_cons_drop h, List.take_append_drop]

theorem length_take_of_lt {β} (c : List β) (k : Nat) (h : k < c.length) : (c.take k).length = k := by
  rw [List.length_take]; omega

/-! ### ravel / inRange of cut coordinates -/

theorem ravel_append : ∀ (s1 c1 s2 c2 : List Nat), s1.length = c1.length →
    ravel (s1 ++ s2) (c1 ++ c2) = ravel s1 c1 * s2.prod + ravel s2 c2
  | [], [], s2, c2, _ => by simp [ravel]
  | d :: ds, x :: xs, s2, c2, h => by
    simp only [List.cons_append, ravel, List.prod_append]
    rw [ravel_append ds xs s2 c2 (by simpa using h), Nat.add_mul, Nat.mul_assoc]; omega
  | [], _ :: _, _, _, h => by simp at h
  | _ :: _, [], _, _, h => by simp at h

theorem inRange_append : ∀ (s1 c1 s2 c2 : List Nat), s1.length = c1.length →
    inRange (s1 ++ s2) (c1 ++ c2) = (inRange s1 c1 && inRange s2 c2)
  | [], [], s2, c2, _ => by simp [inRange]
  | d :: ds, x :: xs, s2, c2, h => by
    simp only [List.cons_append, inRange, inRange_append ds xs s2 c2 (by simpa using h), Bool.and_assoc]
  | [], _ :: _, _, _, h => by simp at h
  | _ :: _, [], _, _, h => by simp at h

theorem ravel_mid (P Q p q : List Nat) (n j : Nat) (h : P.length = p.length) :
    ravel (P ++ n :: Q) (p ++ j :: q) = (ravel P p * n + j) * Q.prod + ravel Q q := by
  rw [ravel_append _ _ _ _ h]
  simp only [ravel, List.prod_cons]
  rw [Nat.add_mul, Nat.mul_assoc]; omega

theorem inRange_mid (P Q p q : List Nat) (n j : Nat) (h : P.length = p.length) :
    inRange (P ++ n :: Q) (p ++ j :: q) = (inRange P p && (decide (j < n) && inRange Q q)) := by
  rw [inRange_append _ _ _ _ h]; simp only [inRange]

theorem inRange_mid_true (P Q p q : List Nat) (n j : Nat) (hp : inRange P p = true) (hj : j < n) (hq : inRange Q q = true) :
    inRange (P ++ n :: Q) (p ++ j :: q) = true := by
  rw [inRange_mid _ _ _ _ _ _ (inRange_length _ _ hp).symm]; simp [hp, hj, hq]

theorem ravel_front (P Q p q : List Nat) (j : Nat) (h : P.length = p.length) :
    ravel (n :: P ++ Q) (j :: p ++ q) = (j * P.prod + ravel P p) * Q.prod + ravel Q q := by
  simp only [List.cons_append, ravel, List.prod_append]
  rw [ravel_append _ _ _ _ h, Nat.add_mul, Nat.mul_assoc]; omega

theorem inRange_front_true (P Q p q : List Nat) (n j : Nat) (hp : inRange P p = true) (hj : j < n) (hq : inRange Q q = true) :
    inRange (n :: P ++ Q) (j :: p ++ q) = true := by
  simp only [List.cons_append, inRange]
  rw [inRange_append _ _ _ _ (inRange_length _ _ hp).symm]; simp [hp, hj, hq]

/-- an in-range coordinate of a shape cut at `k`, cut at the same place -/
theorem inRange_cut (P Q : List Nat) (n : Nat) (c : List Nat) (h : inRange (P ++ n :: Q) c = true) :
    ∃ p j q, c = p ++ j :: q ∧ inRange P p = true ∧ j < n ∧ inRange Q q = true := by
  have hl := inRange_length _ _ h
  have hk : P.length < c.length := by rw [hl]; simp
  have hc := cut_at c P.length hk
  have hpl : P.length = (c.take P.length).length := (length_take_of_lt c _ hk).symm
  rw [hc, inRange_mid _ _ _ _ _ _ hpl] at h
  simp only [Bool.and_eq_true, decide_eq_true_eq] at h
  exact ⟨_, _, _, hc, h.1, h.2.1, h.2.2⟩

/-! ### the two axis orders -/

theorem map_getD_range'_one (j : Nat) (c : List Nat) (m : Nat) (h : c.length = m) :
    (List.range' 1 m).map (fun ax => (j :: c).getD ax 0) = c := by
  apply List.ext_getElem
  · simp [h]
  · intro i h1 h2
    simp [List.getD_eq_getElem?_getD, Nat.add_comm 1 i, h2]

/-- moving the front axis to position `k`, on a coordinate vector -/
theorem permute_frontTo (c : List Nat) (j m k : Nat) (h : c.length = m) :
    permute ((List.range' 1 m).insertIdx k 0) (j :: c) = c.insertIdx k j := by
  simp only [permute, map_insertIdx', map_getD_range'_one j c m h]
  simp

/-- rolling axis `k` to the front, on a coordinate vector -/
theorem permute_toFront (c : List Nat) (n k : Nat) (h : c.length = n) :
    permute (k :: (List.range n).eraseIdx k) c = c.getD k 0 :: c.eraseIdx k := by
  simp only [permute, List.map_cons, map_eraseIdx', map_getD_range' c n h]

theorem eraseIdx_range_zero (n : Nat) : (List.range n).eraseIdx 0 = List.range' 1 (n - 1) := by
  cases n with
  | zero => simp
  | succ n => rw [List.range_eq_range', List.range'_succ]; simp

theorem frontTo_perm (m k : Nat) (hk : k ≤ m) : ((List.range' 1 m).insertIdx k 0).Perm (List.range (m + 1)) := by
  refine (List.perm_insertIdx 0 (List.range' 1 m) (by simpa using hk)).trans ?_
  rw [List.range_eq_range', List.range'_succ]

/-- the order built by `moveaxis([0], [k])` -/
theorem moveaxisOrder_frontTo (nd k : Nat) (hk : k < nd) :
    Arr.moveaxisOrder nd [0] [k] = (List.range' 1 (nd - 1)).insertIdx k 0 := by
  rw [moveaxisOrder_single, eraseIdx_range_zero]
  simp only [List.length_range']
  rw [Nat.min_eq_left (by omega)]

theorem rollaxisOrder_front (nd k : Nat) : Arr.rollaxisOrder nd k 0 = k :: (List.range nd).eraseIdx k := by
  simp [Arr.rollaxisOrder]

/-! ### the two transpositions, in cut coordinates -/

/-- `transpose` with the order "front axis to position `k`" -/
theorem frontTo_spec (t : Arr α) (zero : α) (N : Nat) (P Q : List Nat) (hwf : t.WF) (hs : t.shape = N :: P ++ Q) :
    ∃ r, t.transpose zero (some (((List.range' 1 (t.ndim - 1)).insertIdx P.length 0).map Int.ofNat)) = .ok r ∧
      r.shape = P ++ N :: Q ∧ r.WF ∧
      ∀ p q j, inRange P p = true → inRange Q q = true → j < N → r.get? (p ++ j :: q) = t.get? (j :: p ++ q) := by
  have hnd : t.ndim = (P ++ Q).length + 1 := by simp [Arr.ndim, hs]
  have hm : t.ndim - 1 = (P ++ Q).length := by omega
  rw [hm]
  obtain ⟨r, h1, h2, h3, h4⟩ := transpose_nat_spec t zero ((List.range' 1 (P ++ Q).length).insertIdx P.length 0) hwf
    (by rw [hnd]; exact frontTo_perm _ _ (by simp))
  refine ⟨r, h1, ?_, h3, ?_⟩
  · rw [h2, hs, List.cons_append, permute_frontTo (P ++ Q) N _ _ rfl, insertIdx_mid]
  · intro p q j hp hq hj
    have hin : inRange t.shape (j :: p ++ q) = true := by rw [hs]; exact inRange_front_true _ _ _ _ _ _ hp hj hq
    have hpl := inRange_length _ _ hp
    have hql := inRange_length _ _ hq
    have := h4 _ hin
    rw [List.cons_append, permute_frontTo (p ++ q) j (P ++ Q).length _ (by simp [hpl, hql]), ← hpl, insertIdx_mid] at this
    exact this

/-- `moveaxis([0], [k])` is that transposition -/
theorem moveaxis_frontTo (t : Arr α) (zero : α) (k : Nat) (hk : k < t.ndim) :
    t.moveaxis zero [0] [Int.ofNat k] =
      t.transpose zero (some (((List.range' 1 (t.ndim - 1)).insertIdx k 0).map Int.ofNat)) := by
  rw [C06.moveaxis_eq_transpose t zero _ _ (by simp) (by simp) (by simp) (by simp)]
  have h0 : normalizeAxis t.ndim 0 = 0 := normalizeAxis_ofNat t.ndim 0
  simp only [List.map_cons, List.map_nil, normalizeAxis_ofNat, h0, moveaxisOrder_frontTo _ _ hk]

/-- `rollaxis(k, None)`: axis `k` to the front -/
theorem toFront_spec (a : Arr α) (zero : α) (n : Nat) (P Q : List Nat) (hwf : a.WF) (hs : a.shape = P ++ n :: Q) :
    ∃ arr, a.rollaxis zero (Int.ofNat P.length) none = .ok arr ∧ arr.shape = n :: P ++ Q ∧ arr.WF ∧
      ∀ p q j, inRange P p = true → inRange Q q = true → j < n → arr.get? (j :: p ++ q) = a.get? (p ++ j :: q) := by
  have hnd : a.ndim = P.length + Q.length + 1 := by simp [Arr.ndim, hs]; omega
  have hk : P.length < a.ndim := by omega
  have hm : a.rollaxis zero (Int.ofNat P.length) none =
      a.transpose zero (some ((P.length :: (List.range a.ndim).eraseIdx P.length).map Int.ofNat)) := by
    rw [C06.rollaxis_eq_transpose a zero _ none (by rw [normalizeAxis_ofNat]; exact hk) (by simp [startOf]; omega)]
    simp only [normalizeAxis_ofNat, startOf, rollaxisOrder_front]
  obtain ⟨r, h1, h2, h3, h4⟩ := transpose_nat_spec a zero (P.length :: (List.range a.ndim).eraseIdx P.length) hwf
    (by have := C06.rollaxisOrder_perm a.ndim P.length 0 hk (by omega); rwa [rollaxisOrder_front] at this)
  refine ⟨r, hm.trans h1, ?_, h3, ?_⟩
  · rw [h2, permute_toFront a.shape a.ndim _ rfl, hs, getD_mid, eraseIdx_mid]; rfl
  · intro p q j hp hq hj
    have hin : inRange a.shape (p ++ j :: q) = true := by rw [hs]; exact inRange_mid_true _ _ _ _ _ _ hp hj hq
    have hpl := inRange_length _ _ hp
    have hql := inRange_length _ _ hq
    have := h4 _ hin
    rw [permute_toFront (p ++ j :: q) a.ndim _ (by simp [hnd, hpl, hql]; omega), ← hpl, getD_mid, eraseIdx_mid] at this
    exact this

end ArrModel.C11
