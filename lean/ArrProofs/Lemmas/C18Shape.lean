import ArrProofs.Lemmas.C18Nest
/-!
# Lemmas for C18 — `array_parse_shape!` on the text of a regular nested literal

`parseShapeLoop_mid`: for a `Valid` literal of shape `s`, the per-depth replace / count / truncate loop, run on
`"["^a ++ mid sepT s es ++ "]"^b`, returns exactly `s` (induction on the depth; no bound on rank or lengths).
-/
namespace ArrModel.C18

/-! ### counting through the `"]#["` detour of `array_parse_shape!` -/

theorem replaceAux_head_ne_hash (p : Str) (X : Str) (hX : '#' ∉ X) :
    (replaceAux p hashSep 0 X).head? ≠ some '#' := by
  cases X with
  | nil => simp [replaceAux]
  | cons c X =>
    simp only [replaceAux]
    split
    · simp [hashSep]
    · simp at hX ⊢; exact fun h => hX.1 h.symm

theorem occ_hash_replaceAux (p : Str) (X : Str) (hX : '#' ∉ X) (k : Nat) :
    occ hashSep (replaceAux p hashSep k X) = occAux p k X := by
  induction X generalizing k with
  | nil => cases k <;> simp [replaceAux, occAux]
  | cons c X ih =>
    have hX' : '#' ∉ X := fun h => hX (by simp [h])
    cases k with
    | succ k => simpa [replaceAux, occAux] using ih hX' k
    | zero =>
      simp only [replaceAux, occAux]
      split
      · rw [occ_append_pat _ (by simp [hashSep]), ih hX']
      · have hne := replaceAux_head_ne_hash p X hX'
        have : hashSep.isPrefixOf (c :: replaceAux p hashSep 0 X) = false := by
          cases hr : replaceAux p hashSep 0 X with
          | nil => simp [hashSep, List.isPrefixOf_cons_cons, List.isPrefixOf]
          | cons d r =>
            rw [hr] at hne
            have : ('#' == d) = false := by simpa using fun h => hne (by simp [← h])
            simp [hashSep, List.isPrefixOf_cons_cons, this]
        rw [occ_cons_of_not_prefix this, ih hX']

theorem splitCount_hash (p : Str) (X : Str) (hX : '#' ∉ X) :
    splitCount hashSep (replace p hashSep X) = occ p X + 1 := by
  rw [splitCount_eq, replace, occ_hash_replaceAux p X hX 0]; rfl

theorem occ_eq_zero {p s : Str} {c : Char} (hc : c ∈ p) (hs : c ∉ s) : occ p s = 0 := by
  have : NoStartCtx p s [] := by
    intro k _
    cases hh : p.isPrefixOf (s.drop k ++ [])
    · rfl
    · rw [List.isPrefixOf_iff_prefix] at hh
      have := hh.subset hc
      simp at this
      exact absurd (List.mem_of_mem_drop this) hs
  have := occ_ctx [] this
  simpa using this


/-! ### `"], [" → "],["` on the Debug text -/

theorem brSepL_ctx_run (m : Nat) (W : Str) : NoStartCtx brSepL (rep ']' m) (']' :: W) := by
  induction m with
  | zero => intro k hk; simp at hk
  | succ m ih =>
    show NoStartCtx brSepL (']' :: rep ']' m) (']' :: W)
    rw [noStartCtx_cons]
    refine ⟨?_, ih⟩
    cases m <;> simp [brSepL, rep, List.replicate_succ, List.isPrefixOf_cons_cons]

theorem rep_succ_snoc (c : Char) (n : Nat) : rep c (n + 1) = rep c n ++ [c] := by
  rw [rep_snoc]; rfl

theorem replace_br_sep (j : Nat) (W : Str) :
    replace brSepL brSepT (sepL j ++ W) = sepT j ++ replace brSepL brSepT W := by
  cases j with
  | zero =>
    exact replace_noStart W (noStart_of_head_not_mem (c := ']') (p := [',', ' ', '[']) (A := [',', ' ']) (by decide))
  | succ j =>
    have e1 : sepL (j + 1) ++ W = rep ']' j ++ (']' :: ([',', ' ', '['] ++ (rep '[' j ++ W))) := by
      simp only [sepL]
      rw [rep_succ_snoc ']' j, show rep '[' (j + 1) = '[' :: rep '[' j from rfl]
      simp [List.append_assoc]
    have e2 : sepT (j + 1) ++ replace brSepL brSepT W = rep ']' j ++ (brSepT ++ (rep '[' j ++ replace brSepL brSepT W)) := by
      simp only [sepT, brSepT]
      rw [rep_succ_snoc ']' j, show rep '[' (j + 1) = '[' :: rep '[' j from rfl]
      simp [List.append_assoc]
    rw [e1, e2, replace_ctx _ (brSepL_ctx_run j _)]
    show rep ']' j ++ replace brSepL brSepT (brSepL ++ (rep '[' j ++ W)) = _
    have hns : NoStart brSepL (rep '[' j) :=
      noStart_of_head_not_mem (c := ']') (p := [',', ' ', '[']) (not_mem_rep (c := '[') (by decide) j)
    rw [replace_append_pat _ (by simp [brSepL]), replace_noStart _ hns]

theorem replace_br_mid {s : List Nat} {es : List Str} (h : Valid s es) (Z : Str) :
    replace brSepL brSepT (mid sepL s es ++ Z) = mid sepT s es ++ replace brSepL brSepT Z := by
  induction s generalizing es Z with
  | nil =>
    obtain ⟨e, rfl, he⟩ := h.single
    exact replace_noStart Z (he.noStart _ (by decide))
  | cons n s ih =>
    simp only [mid]
    exact joinWith_hom (replace brSepL brSepT) (mid sepL s) (mid sepT s) _ _ _
      (fun c hc Z => ih (h.chunk hc) Z) (fun _ _ W => replace_br_sep s.length _) Z

/-! ### runs of `]` inside the middle text -/

theorem noStart_run_sepTz (z : Str) (hz : ∀ c ∈ z, c = ' ') (i j : Nat) (hji : j < i) (q : Str) : NoStart (rep ']' i ++ q) ((sepTz z) j) := by
  obtain ⟨i', rfl⟩ : ∃ m, i = m + 1 := ⟨i - 1, by omega⟩
  have hhead : ∀ A : Str, ']' ∉ A → NoStart (rep ']' (i' + 1) ++ q) A := fun A hA => by
    show NoStart (']' :: (rep ']' i' ++ q)) A
    exact noStart_of_head_not_mem hA
  cases j with
  | zero =>
    refine hhead _ ?_
    simp only [sepTz, List.mem_cons, not_or]
    exact ⟨by decide, fun h => absurd (hz _ h) (by decide)⟩
  | succ j =>
    show NoStart _ (rep ']' (j + 1) ++ ',' :: rep '[' (j + 1))
    refine noStart_of_ctx (fun Z => ?_) (hhead _ ?_)
    · exact noStartCtx_rep (by decide) (j + 1) (i' + 1) hji q _
    · simp only [List.mem_cons, not_or]
      exact ⟨by decide, not_mem_rep (by decide) _⟩

theorem noStart_run_mid (z : Str) (hz : ∀ c ∈ z, c = ' ') {s : List Nat} {es : List Str} (h : Valid s es) (i : Nat) (hi : 1 ≤ i) (hsi : s.length ≤ i)
    (q : Str) : NoStart (rep ']' i ++ q) (mid (sepTz z) s es) := by
  induction s generalizing es with
  | nil =>
    obtain ⟨e, rfl, he⟩ := h.single
    obtain ⟨i', rfl⟩ : ∃ m, i = m + 1 := ⟨i - 1, by omega⟩
    exact he.noStart (rep ']' i' ++ q) (by decide)
  | cons n s ih =>
    simp only [mid]
    refine noStart_joinWith (fun y hy => ?_) (noStart_run_sepTz z hz i s.length (by simp at hsi; omega) q)
    obtain ⟨c, hc, rfl⟩ := List.mem_map.1 hy
    exact ih (h.chunk hc) (by simp at hsi; omega)

theorem hash_not_mem_mid (z : Str) (hz : ∀ c ∈ z, c = ' ') {s : List Nat} {es : List Str} (h : Valid s es) : '#' ∉ mid (sepTz z) s es := by
  intro hm
  rcases mem_mid hm with ⟨j, hj⟩ | ⟨e, he, hce⟩
  · cases j with
    | zero =>
      simp only [sepTz, List.mem_cons] at hj
      rcases hj with hj | hj
      · exact absurd hj (by decide)
      · exact absurd (hz _ hj) (by decide)
    | succ j =>
      simp only [sepTz, List.mem_append, List.mem_cons] at hj
      rcases hj with hj | hj | hj
      · exact not_mem_rep (by decide) _ hj
      · exact absurd hj (by decide)
      · exact not_mem_rep (by decide) _ hj
  · exact (h.plain e he).not_mem (by decide) hce


/-! ### one iteration of `array_parse_shape!` -/

theorem sepPat_ne_nil (i : Nat) : sepPat i ≠ [] := by simp [sepPat]

theorem noStart_sepPat_open (i a : Nat) : NoStart (sepPat i) (rep '[' a) := by
  cases i with
  | zero => exact noStart_of_head_not_mem (c := ',') (p := []) (not_mem_rep (by decide) a)
  | succ i =>
    show NoStart (']' :: (rep ']' i ++ ',' :: rep '[' (i + 1))) _
    exact noStart_of_head_not_mem (not_mem_rep (by decide) a)

theorem occ_sepPat_mid (z : Str) (hz : ∀ c ∈ z, c = ' ') {s : List Nat} {es : List Str} (h : Valid s es) (Z : Str) :
    occ (sepPat s.length) (mid (sepTz z) s es ++ Z) = occ (sepPat s.length) Z := by
  apply occ_noStart
  cases s with
  | nil =>
    obtain ⟨e, rfl, he⟩ := h.single
    exact he.noStart [] (by decide)
  | cons n s => exact noStart_run_mid z hz h _ (by simp) (by simp) _

theorem occ_sepPat_sepTz (z : Str) (hz : ∀ c ∈ z, c = ' ') (i : Nat) (W : Str) : occ (sepPat i) ((sepTz z) i ++ W) = occ (sepPat i) W + 1 := by
  cases i with
  | zero =>
    show occ [','] ([','] ++ (z ++ W)) = _
    rw [occ_append_pat _ (by simp), occ_noStart W (noStart_of_head_not_mem (p := []) (fun h => absurd (hz _ h) (by decide)))]
    rfl
  | succ i => exact occ_append_pat W (sepPat_ne_nil _)

theorem count_level (z : Str) (hz : ∀ c ∈ z, c = ' ') {n : Nat} {s : List Nat} {es : List Str} (h : Valid (n :: s) es) (a b : Nat) :
    splitCount hashSep (replace (sepPat s.length) hashSep (rep '[' a ++ mid (sepTz z) (n :: s) es ++ rep ']' b)) = n := by
  have hn : 1 ≤ n := h.pos n (by simp)
  rw [splitCount_hash]
  · rw [List.append_assoc, occ_noStart _ (noStart_sepPat_open _ a)]
    simp only [mid]
    rw [joinWith_count (occ (sepPat s.length)) (mid (sepTz z) s) ((sepTz z) s.length) _
      (fun c hc Z => occ_sepPat_mid z hz (h.chunk hc) Z) (occ_sepPat_sepTz z hz s.length)]
    rw [occ_eq_zero (c := ',') (by simp [sepPat]) (not_mem_rep (by decide) b)]
    simp; omega
  · simp only [List.mem_append, not_or]
    exact ⟨⟨not_mem_rep (by decide) a, hash_not_mem_mid z hz h⟩, not_mem_rep (by decide) b⟩

theorem sliceTo_append (A R T : Str) : sliceTo (A ++ (R ++ T)) (A.length + R.length) = .ok (A ++ R) := by
  unfold sliceTo
  rw [if_pos (by simp)]
  congr 1
  rw [← List.append_assoc, ← List.length_append, List.take_left']
  rfl

/-- the first run of `i` closing brackets ends the first item -/
theorem split_level (z : Str) {n : Nat} {s : List Nat} {es : List Str} (h : Valid (n :: s) es) (a b : Nat)
    (hi : 1 ≤ s.length) (hb : s.length ≤ b) :
    ∃ T, rep '[' a ++ mid (sepTz z) (n :: s) es ++ rep ']' b
        = (rep '[' a ++ mid (sepTz z) s (es.take s.prod)) ++ (rep ']' s.length ++ T) := by
  have hn : 1 ≤ n := h.pos n (by simp)
  obtain ⟨m, rfl⟩ : ∃ m, n = m + 1 := ⟨n - 1, by omega⟩
  simp only [mid, chunks, List.map_cons]
  cases hr : (chunks s.prod m (es.drop s.prod)).map (mid (sepTz z) s) with
  | nil =>
    refine ⟨rep ']' (b - s.length), ?_⟩
    have : rep ']' b = rep ']' s.length ++ rep ']' (b - s.length) := by
      simp only [rep]; rw [List.replicate_append_replicate]; congr 1; omega
    simp [this, List.append_assoc]
  | cons y ys =>
    obtain ⟨j, hj⟩ : ∃ j, s.length = j + 1 := ⟨s.length - 1, by omega⟩
    refine ⟨',' :: rep '[' s.length ++ joinWith ((sepTz z) s.length) (y :: ys) ++ rep ']' b, ?_⟩
    rw [joinWith_cons_cons]
    rw [hj]
    simp [sepTz, List.append_assoc]

theorem parseShapeLoop_midZ (z : Str) (hz : ∀ c ∈ z, c = ' ') {s : List Nat} {es : List Str} (h : Valid s es) (a b : Nat) (hb : s.length ≤ b + 1) :
    parseShapeLoop s.length (rep '[' a ++ mid (sepTz z) s es ++ rep ']' b) = .ok s := by
  induction s generalizing es a b with
  | nil => rfl
  | cons n s ih =>
    have hcount := count_level z hz h a b
    simp only [List.length_cons, parseShapeLoop]
    by_cases hi : s.length = 0
    · have hs : s = [] := List.eq_nil_of_length_eq_zero hi
      subst hs
      simp only [List.length_nil] at hcount ⊢
      rw [find_of_prefix (by simp [rep])]
      simp only [List.append_assoc] at hcount
      simp [sliceTo, parseShapeLoop, hcount]
    · have hi' : 1 ≤ s.length := by omega
      obtain ⟨T, hT⟩ := split_level z h a b hi' (by simp at hb; omega)
      have hv : Valid s (es.take s.prod) := by
        obtain ⟨m, hm⟩ : ∃ m, n = m + 1 := ⟨n - 1, by have := h.pos n (by simp); omega⟩
        subst hm; exact h.chunk (by simp [chunks])
      have hns : NoStart (rep ']' s.length) (rep '[' a ++ mid (sepTz z) s (es.take s.prod)) := by
        have h1 : NoStart (rep ']' s.length ++ []) (rep '[' a) := by
          obtain ⟨j, hj⟩ : ∃ j, s.length = j + 1 := ⟨s.length - 1, by omega⟩
          rw [hj]
          exact noStart_of_head_not_mem (c := ']') (not_mem_rep (by decide) a)
        have h2 := noStart_run_mid z hz hv s.length hi' (Nat.le_refl _) []
        simpa using h1.append h2
      rw [hcount, hT, find_noStart_pat _ hns]
      have := sliceTo_append (rep '[' a ++ mid (sepTz z) s (es.take s.prod)) (rep ']' s.length) T
      simp only [rep, List.length_replicate] at this
      simp only [rep]
      rw [this]
      have ihh := ih hv a s.length (by omega)
      simp only [rep] at ihh
      simp only [ihh]



theorem parseShapeLoop_mid {s : List Nat} {es : List Str} (h : Valid s es) (a b : Nat) (hb : s.length ≤ b + 1) :
    parseShapeLoop s.length (rep '[' a ++ mid sepT s es ++ rep ']' b) = .ok s := by
  rw [sepT_eq]
  exact parseShapeLoop_midZ [' '] (by simp) h a b hb

end ArrModel.C18
