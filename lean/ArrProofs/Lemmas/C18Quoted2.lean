import ArrProofs.Lemmas.C18Quoted
/-!
# Lemmas for C18 — the quote pass over the text of a nest of quoted pieces
-/
namespace ArrModel.C18

/-- a quoted piece -/
def wrapQ (q : Char) (c : Str) : Str := q :: (c ++ [q])

theorem joinWith_collect {β γ} (G : Str → List γ) (f : β → Str) (h : β → List γ) (sep : Str) (ys : List β)
    (hitem : ∀ y ∈ ys, ∀ Z, G (f y ++ Z) = h y ++ G Z) (hsep : ∀ W, G (sep ++ W) = G W) :
    ∀ Z, G (joinWith sep (ys.map f) ++ Z) = (ys.map h).flatten ++ G Z := by
  induction ys with
  | nil => intro Z; simp
  | cons y r ih =>
    intro Z
    cases r with
    | nil => simpa using hitem y (by simp) Z
    | cons z r =>
      have ih' := ih (fun y hy => hitem y (by simp [hy]))
      simp only [List.map_cons] at ih' ⊢
      rw [joinWith_cons_cons]
      simp only [List.append_assoc, List.flatten_cons]
      rw [hitem y (by simp), hsep, ih' Z]
      simp

theorem scanQ_wrap {q : Char} {c : Str} (Z : Str) (hc : q ∉ c) :
    scanQ q none (wrapQ q c ++ Z) = (c :: (scanQ q none Z).1, '_' :: (scanQ q none Z).2) := by
  have := scanQ_piece (q := q) (g := []) (c := c) Z (by simp) hc
  simpa [wrapQ, List.append_assoc] using this

/-- the pass over the middle text of a nest of quoted pieces -/
theorem scanQ_mid (q : Char) (sep : Nat → Str) (hsep : ∀ j, q ∉ sep j) :
    ∀ (s : List Nat) (cs : List Str), (∀ d ∈ s, 1 ≤ d) → cs.length = s.prod → (∀ c ∈ cs, q ∉ c) → ∀ Z,
      scanQ q none (mid sep s (cs.map (wrapQ q)) ++ Z)
        = (cs ++ (scanQ q none Z).1, mid sep s (cs.map (fun _ => ['_'])) ++ (scanQ q none Z).2) := by
  intro s
  induction s with
  | nil =>
    intro cs _ hl hc Z
    match cs, hl with
    | [c], _ =>
      simp only [mid, List.map_cons, List.map_nil, List.headD_cons]
      rw [scanQ_wrap Z (hc c (by simp))]; rfl
  | cons n s ih =>
    intro cs hpos hl hc Z
    have hps : ∀ d ∈ s, 1 ≤ d := fun d hd => hpos d (by simp [hd])
    have hl' : cs.length = n * s.prod := by simpa using hl
    have hch : ∀ ch ∈ chunks s.prod n cs, ∀ Z,
        scanQ q none (mid sep s (ch.map (wrapQ q)) ++ Z)
          = (ch ++ (scanQ q none Z).1, mid sep s (ch.map (fun _ => ['_'])) ++ (scanQ q none Z).2) := by
      intro ch hch Z
      have := mem_chunks hl' hch
      exact ih ch hps this.1 (fun c hcc => hc c (this.2 c hcc)) Z
    simp only [mid, chunks_map, List.map_map]
    have h1 := joinWith_collect (fun X => (scanQ q none X).1) (fun ch => mid sep s (ch.map (wrapQ q))) (fun ch => ch)
      (sep s.length) (chunks s.prod n cs) (fun ch hc' Z => by simp [hch ch hc' Z])
      (fun W => by simp [scanQ_gap W (hsep s.length)]) Z
    have h2 := joinWith_hom (fun X => (scanQ q none X).2) (fun ch => mid sep s (ch.map (wrapQ q)))
      (fun ch => mid sep s (ch.map (fun _ => ['_']))) (sep s.length) (sep s.length) (chunks s.prod n cs)
      (fun ch hc' Z => by simp [hch ch hc' Z])
      (fun ch _ W => by simp [scanQ_gap _ (hsep s.length)]) Z
    simp only [List.map_id'] at h1
    rw [chunks_flatten _ _ _ hl'] at h1
    exact Prod.ext h1 h2

theorem sum_const {β} (f : β → Nat) (v : Nat) (ys : List β) (h : ∀ y ∈ ys, f y = v) : (ys.map f).sum = ys.length * v := by
  induction ys with
  | nil => simp
  | cons y r ih =>
    simp only [List.map_cons, List.sum_cons, List.length_cons, h y (by simp), ih (fun z hz => h z (by simp [hz]))]
    rw [Nat.succ_mul]; omega

theorem count_joinWith (q : Char) (sep : Str) (ys : List Str) (h : q ∉ sep) :
    (joinWith sep ys).count q = (ys.map (List.count q)).sum := by
  induction ys with
  | nil => rfl
  | cons y r ih =>
    cases r with
    | nil => simp
    | cons z r =>
      rw [joinWith_cons_cons, List.count_append, List.count_append, ih, List.count_eq_zero_of_not_mem h]
      simp

theorem count_mid (q : Char) (sep : Nat → Str) (hsep : ∀ j, q ∉ sep j) :
    ∀ (s : List Nat) (cs : List Str), (∀ d ∈ s, 1 ≤ d) → cs.length = s.prod → (∀ c ∈ cs, q ∉ c) →
      (mid sep s (cs.map (wrapQ q))).count q = 2 * cs.length := by
  intro s
  induction s with
  | nil =>
    intro cs _ hl hc
    match cs, hl with
    | [c], _ =>
      simp only [mid, List.map_cons, List.map_nil, List.headD_cons, wrapQ, List.length_singleton]
      rw [List.count_cons_self, List.count_append, List.count_eq_zero_of_not_mem (hc c (by simp))]
      simp
  | cons n s ih =>
    intro cs hpos hl hc
    have hps : ∀ d ∈ s, 1 ≤ d := fun d hd => hpos d (by simp [hd])
    have hl' : cs.length = n * s.prod := by simpa using hl
    simp only [mid, chunks_map, List.map_map]
    rw [count_joinWith q _ _ (hsep s.length), List.map_map]
    rw [sum_const _ (2 * s.prod) _ (fun ch hch => by
      have := mem_chunks hl' hch
      simp only [Function.comp]
      rw [ih ch hps this.1 (fun c hcc => hc c (this.2 c hcc)), this.1])]
    rw [chunks_length, hl']
    rw [Nat.mul_left_comm]

end ArrModel.C18
