import ArrModel.C14Ext
import ArrProofs.Lemmas.C14
/-! helper lemmas for the C14 extension, part 1: `matmul` of a vector with a stack (either order), zero-length operands -/

namespace ArrModel
namespace C14
open Finset

/-! ### `split_axis(0)` of a stack -/

theorem splitAxis0_stack (x : A) (s L : Nat) (hl : x.elems.length = s * L) (hs : 0 < s) (hL : 0 < L)
    (hsh : x.shape[0]? = some s) :
    splitAxis0 x = .ok ((List.range s).map (fun t => slab x L t)) := by
  have hpos : 0 < s * L := Nat.mul_pos hs hL
  unfold splitAxis0
  simp only [Arr.len, hl, Res.idx, hsh]
  rw [if_neg (by omega)]
  simp only [Res.bind_ok]
  rw [if_neg (by omega), Nat.mul_div_cancel_left L hs]
  rfl

theorem length_slab (x : A) (L t : Nat) (h : (t + 1) * L ≤ x.elems.length) : (slab x L t).length = L :=
  length_piece L x.elems t h

theorem getD_slab (x : A) (L t q : Nat) (hq : q < L) : (slab x L t).getD q 0 = x.elems.getD (t * L + q) 0 :=
  getD_piece L x.elems t q hq

/-! ### vector · stack -/

/-- the flat buffer `matmul_1d_nd` collects for `[k] · [s, k, p]`: the `s` vector-matrix products one after the other -/
def vsElems (a b : A) (s k p : Nat) : List Int :=
  (List.range s).flatMap (fun t => (List.range p).map (fun j =>
    ∑ i ∈ range k, a.elems.getD i 0 * b.elems.getD (t * (k * p) + (i * p + j)) 0))

theorem length_vsElems (a b : A) (s k p : Nat) : (vsElems a b s k p).length = s * p := by
  unfold vsElems; exact length_flatMap_range s p _

theorem matmul1dNd_vecstack (fuel : Nat) (a b : A) (s k p : Nat) (ha : a.WF) (hb : b.WF)
    (hs : 0 < s) (hk : 0 < k) (hp : 0 < p) (hsa : a.shape = [k]) (hsb : b.shape = [s, k, p]) :
    matmul1dNd (fuel + 2) a b = reshape (vsElems a b s k p) [k, p] := by
  have hlb := wf_len3 hb hsb
  have hkp : 0 < k * p := Nat.mul_pos hk hp
  rw [matmul1dNd]
  simp only [Arr.ndim, hsa, hsb, List.length_cons, List.length_nil]
  simp only [Nat.zero_add, Nat.reduceAdd, if_true, gt_iff_lt, Nat.reduceLT, removeAt, List.length_cons, List.length_nil,
    Nat.zero_lt_succ, List.eraseIdx_cons_zero, Res.bind_ok]
  rw [splitAxis0_stack b s (k * p) hlb hs hkp (by simp [hsb])]
  simp only [Res.bind_ok, List.map_map]
  rw [collectRes_map _ _ (fun t => vm12 a ⟨slab b (k * p) t, [k, p]⟩ k p)]
  · simp only [Res.bind_ok]
    congr 1
    unfold vsElems
    rw [List.flatMap_map]
    apply List.flatMap_congr
    intro t _
    simp only [vm12, Arr.flat]
    apply List.map_congr_left
    intro j hj
    have hj' : j < p := by simpa using hj
    apply Finset.sum_congr rfl
    intro i hi
    have hi' : i < k := by simpa using hi
    rw [getD_slab b (k * p) t (i * p + j) (idx2_lt hi' hj')]
  · intro t ht
    have ht' : t < s := by simpa using ht
    have hle : (t + 1) * (k * p) ≤ b.elems.length := by rw [hlb]; exact Nat.mul_le_mul_right _ ht'
    simp only [Function.comp_apply, reshapeUnwrap]
    rw [if_pos (by rw [length_slab _ _ _ hle]; simp)]
    exact matmul1dNd_vecmat fuel a _ k p ha (by simp [Arr.WF, length_slab _ _ _ hle]) hsa rfl

theorem vsElems_get (a b : A) (s k p t j : Nat) (ht : t < s) (hj : j < p)
    (hsa : a.shape = [k]) (hsb : b.shape = [s, k, p]) :
    (vsElems a b s k p)[t * p + j]? = some (∑ i ∈ range k, a.ent [i] * b.ent [t, i, j]) := by
  unfold vsElems
  rw [getElem?_flatMap_range s p _ t j ht hj]
  congr 1
  apply Finset.sum_congr rfl
  intro i _
  rw [ent_eq_getD, ent_eq_getD, hsa, hsb]
  simp [ravel]

/-! ### stack · vector -/

/-- the flat buffer `matmul_1d_nd` collects for `[s, n, k] · [k]`: the `s` matrix-vector products one after the other -/
def svElems (a b : A) (s n k : Nat) : List Int :=
  (List.range s).flatMap (fun t => (List.range n).map (fun i =>
    ∑ q ∈ range k, a.elems.getD (t * (n * k) + (i * k + q)) 0 * b.elems.getD q 0))

theorem length_svElems (a b : A) (s n k : Nat) : (svElems a b s n k).length = s * n := by
  unfold svElems; exact length_flatMap_range s n _

theorem matmul1dNd_stackvec (fuel : Nat) (a b : A) (s n k : Nat) (ha : a.WF) (hb : b.WF)
    (hs : 0 < s) (hn : 0 < n) (hk : 0 < k) (hsa : a.shape = [s, n, k]) (hsb : b.shape = [k]) :
    matmul1dNd (fuel + 2) a b = reshape (svElems a b s n k) [n, k] := by
  have hla := wf_len3 ha hsa
  have hnk : 0 < n * k := Nat.mul_pos hn hk
  rw [matmul1dNd]
  simp only [Arr.ndim, hsa, hsb, List.length_cons, List.length_nil]
  simp only [Nat.zero_add, Nat.reduceAdd, Nat.reduceEqDiff, if_false, gt_iff_lt, Nat.reduceLT, if_true, removeAt, List.length_cons,
    List.length_nil, Nat.zero_lt_succ, List.eraseIdx_cons_zero, Res.bind_ok]
  rw [splitAxis0_stack a s (n * k) hla hs hnk (by simp [hsa])]
  simp only [Res.bind_ok, List.map_map]
  rw [collectRes_map _ _ (fun t => mv21 ⟨slab a (n * k) t, [n, k]⟩ b n k)]
  · simp only [Res.bind_ok]
    congr 1
    unfold svElems
    rw [List.flatMap_map]
    apply List.flatMap_congr
    intro t _
    simp only [mv21, Arr.flat]
    apply List.map_congr_left
    intro i hi
    have hi' : i < n := by simpa using hi
    apply Finset.sum_congr rfl
    intro q hq
    have hq' : q < k := by simpa using hq
    rw [getD_slab a (n * k) t (i * k + q) (idx2_lt hi' hq')]
  · intro t ht
    have ht' : t < s := by simpa using ht
    have hle : (t + 1) * (n * k) ≤ a.elems.length := by rw [hla]; exact Nat.mul_le_mul_right _ ht'
    simp only [Function.comp_apply, reshapeUnwrap]
    rw [if_pos (by rw [length_slab _ _ _ hle]; simp)]
    exact matmul1dNd_matvec fuel _ b n k (by simp [Arr.WF, length_slab _ _ _ hle]) hb hn hk rfl hsb

theorem svElems_get (a b : A) (s n k t i : Nat) (ht : t < s) (hi : i < n)
    (hsa : a.shape = [s, n, k]) (hsb : b.shape = [k]) :
    (svElems a b s n k)[t * n + i]? = some (∑ q ∈ range k, a.ent [t, i, q] * b.ent [q]) := by
  unfold svElems
  rw [getElem?_flatMap_range s n _ t i ht hi]
  congr 1
  apply Finset.sum_congr rfl
  intro q _
  rw [ent_eq_getD, ent_eq_getD, hsa, hsb]
  simp [ravel]

/-! ### the zero-length arm of `vdot` is the shared `zip` model -/

/-- `vdot` written with the shared model of `zip` (`ArrModel/Broadcast.lean`: `other.broadcast_to(self.shape)`, whose
`is_broadcastable` refuses a zero-length axis) on the raveled operands, then `map` (product) and `fold` (sum): the arm
`a.len = 0 ⇒ BroadcastShapeMismatch` of `C14.vdot` is exactly what that composition gives. -/
theorem vdot_eq_zip (a b : A) :
    vdot a b =
      if a.len = b.len then
        ((Arr.flat a.elems).zip (Arr.flat b.elems)).bind
          (fun z => .ok ⟨[(z.elems.map (fun t => t.1 * t.2)).foldl (· + ·) 0], [1]⟩)
      else .err .MustBeEqual := by
  unfold vdot
  by_cases h : a.len = b.len
  · have h' : a.elems.length = b.elems.length := h
    rw [if_pos h, if_pos h]
    by_cases h0 : a.len = 0
    · have h0' : a.elems.length = 0 := h0
      have h0b : b.elems.length = 0 := by omega
      rw [if_pos h0]
      simp [Arr.zip, Arr.broadcastTo, Arr.flat, isBroadcastable, dimClash, h0', h0b, Res.bind]
    · have h0' : a.elems.length ≠ 0 := h0
      have h0b : b.elems.length ≠ 0 := by omega
      rw [if_neg h0]
      have hz : ∀ (xs ys : List Int), List.zipWith (fun x1 x2 => x1 * x2) xs ys = (xs.zip ys).map (fun t => t.1 * t.2) := by
        intro xs ys
        induction xs generalizing ys with
        | nil => simp
        | cons x xs ih => cases ys with
          | nil => simp
          | cons y ys => simp [ih]
      simp [Arr.zip, Arr.broadcastTo, Arr.flat, isBroadcastable, dimClash, h0b, h', Arr.reshape, Arr.new,
        Res.bind, sumProd, hz]
  · rw [if_neg h, if_neg h]

end C14
end ArrModel
