import ArrProofs.Lemmas.C18Str
/-!
# Lemmas for C18 — `joinWith`, `chunks`
-/
namespace ArrModel.C18

/-! ### joinWith / chunks -/

@[simp] theorem joinWith_nil (sep : Str) : joinWith sep [] = [] := rfl
@[simp] theorem joinWith_single (sep x : Str) : joinWith sep [x] = x := rfl
theorem joinWith_cons_cons (sep x y : Str) (r : List Str) :
    joinWith sep (x :: y :: r) = x ++ sep ++ joinWith sep (y :: r) := rfl

/-- `joinWith` of wrapped items: the wrappers move into the separator -/
theorem joinWith_wrap {β} (L R sep : Str) (f : β → Str) : ∀ (ys : List β), ys ≠ [] →
    joinWith sep (ys.map (fun y => L ++ f y ++ R)) = L ++ joinWith (R ++ sep ++ L) (ys.map f) ++ R
  | [], h => absurd rfl h
  | [y], _ => by simp
  | y :: z :: r, _ => by
    have ih := joinWith_wrap L R sep f (z :: r) (by simp)
    simp only [List.map_cons] at ih ⊢
    rw [joinWith_cons_cons, joinWith_cons_cons, ih]
    simp [List.append_assoc]

theorem joinWith_cons_ne {sep x : Str} {r : List Str} (h : r ≠ []) :
    joinWith sep (x :: r) = x ++ sep ++ joinWith sep r := by
  cases r with
  | nil => exact absurd rfl h
  | cons y r => rfl

/-- a non-empty join followed by `Z` is its first item followed by something -/
theorem joinWith_map_head {β} (f : β → Str) (sep : Str) (y : β) (r : List β) (Z : Str) :
    ∃ W, joinWith sep ((y :: r).map f) ++ Z = f y ++ W := by
  cases r with
  | nil => exact ⟨Z, by simp⟩
  | cons z r => exact ⟨sep ++ joinWith sep ((z :: r).map f) ++ Z, by simp [joinWith_cons_cons, List.append_assoc]⟩

/-- a function that distributes over "segment then rest" distributes over `joinWith`
(the separator rule may use that an item follows) -/
theorem joinWith_hom {β} (F : Str → Str) (f g : β → Str) (sep sep' : Str) (ys : List β)
    (hitem : ∀ y ∈ ys, ∀ Z, F (f y ++ Z) = g y ++ F Z)
    (hsep : ∀ y ∈ ys, ∀ W, F (sep ++ (f y ++ W)) = sep' ++ F (f y ++ W)) :
    ∀ Z, F (joinWith sep (ys.map f) ++ Z) = joinWith sep' (ys.map g) ++ F Z := by
  induction ys with
  | nil => intro Z; simp
  | cons y r ih =>
    intro Z
    cases r with
    | nil => simpa using hitem y (by simp) Z
    | cons z r =>
      have ih' := ih (fun y hy => hitem y (by simp [hy])) (fun y hy => hsep y (by simp [hy]))
      obtain ⟨W, hW⟩ := joinWith_map_head f sep z r Z
      simp only [List.map_cons] at ih' hW ⊢
      rw [joinWith_cons_cons, joinWith_cons_cons]
      simp only [List.append_assoc]
      rw [hitem y (by simp), hW, hsep z (by simp), ← hW, ih' Z]

/-- `joinWith_hom` with an invariant `P` on what follows an item (e.g. "starts with a quote") -/
theorem joinWith_hom_ctx {β} (P : Str → Prop) (F : Str → Str) (f g : β → Str) (sep sep' : Str) (ys : List β)
    (hP : ∀ y ∈ ys, ∀ W, P (sep ++ (f y ++ W)))
    (hitem : ∀ y ∈ ys, ∀ Z, P Z → F (f y ++ Z) = g y ++ F Z)
    (hsep : ∀ y ∈ ys, ∀ W, P W → F (sep ++ (f y ++ W)) = sep' ++ F (f y ++ W)) :
    ∀ Z, P Z → F (joinWith sep (ys.map f) ++ Z) = joinWith sep' (ys.map g) ++ F Z := by
  induction ys with
  | nil => intro Z _; simp
  | cons y r ih =>
    intro Z hZ
    cases r with
    | nil => simpa using hitem y (by simp) Z hZ
    | cons z r =>
      have ih' := ih (fun y hy => hP y (by simp [hy])) (fun y hy => hitem y (by simp [hy]))
        (fun y hy => hsep y (by simp [hy])) Z hZ
      -- what follows `f y`: the separator, then `f z`, then something satisfying `P`
      have hW : ∃ W, joinWith sep ((z :: r).map f) ++ Z = f z ++ W ∧ P W := by
        cases r with
        | nil => exact ⟨Z, by simp, hZ⟩
        | cons w r =>
          refine ⟨sep ++ (joinWith sep ((w :: r).map f) ++ Z), by simp [joinWith_cons_cons, List.append_assoc], ?_⟩
          obtain ⟨W', hW'⟩ := joinWith_map_head f sep w r Z
          rw [hW']; exact hP w (by simp) W'
      obtain ⟨W, hWe, hWP⟩ := hW
      simp only [List.map_cons] at ih' hWe ⊢
      rw [joinWith_cons_cons, joinWith_cons_cons]
      simp only [List.append_assoc]
      rw [hitem y (by simp) _ (by rw [hWe]; exact hP z (by simp) W), hWe, hsep z (by simp) W hWP, ← hWe, ih']

theorem joinWith_append {sep : Str} {x y : List Str} (hx : x ≠ []) (hy : y ≠ []) :
    joinWith sep (x ++ y) = joinWith sep x ++ sep ++ joinWith sep y := by
  induction x with
  | nil => exact absurd rfl hx
  | cons a x ih =>
    cases x with
    | nil => simpa using joinWith_cons_ne hy
    | cons b x =>
      have := ih (by simp)
      rw [List.cons_append, joinWith_cons_ne (by simp), this, joinWith_cons_cons]
      simp [List.append_assoc]

theorem joinWith_flatten (sep : Str) (cs : List (List Str)) (h : ∀ c ∈ cs, c ≠ []) :
    joinWith sep (cs.map (joinWith sep)) = joinWith sep cs.flatten := by
  induction cs with
  | nil => rfl
  | cons c r ih =>
    cases r with
    | nil => simp
    | cons d r =>
      have ih' := ih (fun c hc => h c (by simp [hc]))
      have hne : (d :: r).flatten ≠ [] := by
        have := h d (by simp)
        cases d with
        | nil => exact absurd rfl this
        | cons _ _ => simp
      rw [List.map_cons, joinWith_cons_ne (by simp), ih']
      rw [show (c :: d :: r).flatten = c ++ (d :: r).flatten from rfl, joinWith_append (h c (by simp)) hne]

/-- the same for a quantity that is additive over segments (`occ`) -/
theorem joinWith_count {β} (N : Str → Nat) (f : β → Str) (sep : Str) (ys : List β)
    (hitem : ∀ y ∈ ys, ∀ Z, N (f y ++ Z) = N Z)
    (hsep : ∀ W, N (sep ++ W) = N W + 1) :
    ∀ Z, N (joinWith sep (ys.map f) ++ Z) = (ys.length - 1) + N Z := by
  induction ys with
  | nil => intro Z; simp
  | cons y r ih =>
    intro Z
    cases r with
    | nil => simpa using hitem y (by simp) Z
    | cons z r =>
      have ih' := ih (fun y hy => hitem y (by simp [hy]))
      simp only [List.map_cons] at ih' ⊢
      rw [joinWith_cons_cons]
      simp only [List.append_assoc]
      rw [hitem y (by simp), hsep, ih' Z]
      simp; omega

theorem noStart_joinWith {p sep : Str} {ys : List Str} (hitem : ∀ y ∈ ys, NoStart p y) (hsep : NoStart p sep) :
    NoStart p (joinWith sep ys) := by
  induction ys with
  | nil => exact NoStart.nil _
  | cons y r ih =>
    cases r with
    | nil => simpa using hitem y (by simp)
    | cons z r =>
      rw [joinWith_cons_cons]
      exact ((hitem y (by simp)).append hsep).append (ih (fun y hy => hitem y (by simp [hy])))

theorem mem_joinWith {c : Char} {sep : Str} {ys : List Str} (h : c ∈ joinWith sep ys) :
    c ∈ sep ∨ ∃ y ∈ ys, c ∈ y := by
  induction ys with
  | nil => simp at h
  | cons y r ih =>
    cases r with
    | nil => exact Or.inr ⟨y, by simp, by simpa using h⟩
    | cons z r =>
      rw [joinWith_cons_cons] at h
      simp only [List.mem_append] at h
      rcases h with (h | h) | h
      · exact Or.inr ⟨y, by simp, h⟩
      · exact Or.inl h
      · rcases ih h with h | ⟨w, hw, hc⟩
        · exact Or.inl h
        · exact Or.inr ⟨w, by simp [hw], hc⟩

@[simp] theorem chunks_length {α} (k n : Nat) (l : List α) : (chunks k n l).length = n := by
  induction n generalizing l with
  | zero => rfl
  | succ n ih => simp [chunks, ih]

theorem chunks_ne_nil {α} (k n : Nat) (l : List α) (h : 1 ≤ n) : chunks k n l ≠ [] := by
  intro e; have := chunks_length k n l; rw [e] at this; simp at this; omega

theorem mem_chunks {α} {k n : Nat} {l c : List α} (hl : l.length = n * k) (h : c ∈ chunks k n l) :
    c.length = k ∧ ∀ x ∈ c, x ∈ l := by
  induction n generalizing l with
  | zero => simp [chunks] at h
  | succ n ih =>
    simp only [chunks, List.mem_cons] at h
    rcases h with h | h
    · subst h
      refine ⟨?_, fun x hx => List.mem_of_mem_take hx⟩
      rw [List.length_take, hl, Nat.succ_mul]; omega
    · have := ih (l := l.drop k) (by rw [List.length_drop, hl, Nat.succ_mul]; omega) h
      exact ⟨this.1, fun x hx => List.mem_of_mem_drop (this.2 x hx)⟩

theorem chunks_flatten {α} (k n : Nat) (l : List α) (hl : l.length = n * k) : (chunks k n l).flatten = l := by
  induction n generalizing l with
  | zero => simp at hl; simp [chunks, hl]
  | succ n ih =>
    simp only [chunks, List.flatten_cons]
    rw [ih (l.drop k) (by rw [List.length_drop, hl, Nat.succ_mul]; omega), List.take_append_drop]

theorem chunks_map {α β} (f : α → β) (k n : Nat) (l : List α) :
    chunks k n (l.map f) = (chunks k n l).map (List.map f) := by
  induction n generalizing l with
  | zero => rfl
  | succ n ih => simp only [chunks, List.map_cons, ← List.map_take, ← List.map_drop, ih]

end ArrModel.C18
