import ArrProofs.Lemmas.C08Reduce
/-!
# C08 on arrays with a zero-length axis, and the total (never-panics) statement

What the MODEL of `apply_along_axis` (`ArrModel/AlongAxis.lean`) does when `0 ∈ a.shape`, for every rank and axis:

* some OTHER axis has length 0 (`0 ∈ a.shape.eraseIdx axis`): `parts = 0`, `split(0, None)` refuses,
  the answer is `Err(ParameterError)` (`applyAlongAxis_other_zero`);
* only the processed axis has length 0: `parts > 0`, the moved array is empty, `split` returns the single empty
  piece, `f` is applied ONCE to the empty lane `Arr.flat []`, and its answer `y` is reshaped to
  `rest ++ [y.len]`, which succeeds exactly when `rest.prod = 1 ∨ y.len = 0` (`applyAlongAxis_axis_zero`).

`applyAlongAxis_total`: for EVERY well-formed array, every axis and every `f` that never panics the call answers
`Ok` (well formed, same rank) or `Err` — never a panic.
-/
namespace ArrModel
open Arr
variable {α β : Type}

/-- a well-formed array with a zero-length axis has no elements -/
theorem elems_nil_of_zero_mem (a : Arr α) (hwf : a.WF) (h0 : 0 ∈ a.shape) : a.elems = [] := by
  apply List.eq_nil_of_length_eq_zero
  rw [hwf]; exact prod_eq_zero_of_mem _ h0

theorem eq_mk_nil_of_zero_mem (a : Arr α) (hwf : a.WF) (h0 : 0 ∈ a.shape) : a = ⟨[], a.shape⟩ := by
  cases a with | mk e s =>
  have := elems_nil_of_zero_mem ⟨e, s⟩ hwf h0
  simp only at this; subst this; rfl

/-- `split(parts, None)` of the empty buffer: the single empty piece -/
theorem split_flat_nil (zero : α) (P : Nat) (hP : 0 < P) :
    (Arr.flat ([] : List α)).split zero P none = .ok [Arr.flat []] := by
  unfold Arr.split
  rw [if_neg (by simp [Arr.ndim, Arr.flat]), if_neg (by omega)]
  simp [Arr.isEmpty, Arr.flat]

/-- `split(0, None)` refuses (rank ≥ 1: the defaulted axis 0 is validated first) -/
theorem split_zero_parts (a : Arr α) (zero : α) (h : 1 ≤ a.ndim) : a.split zero 0 none = .err .ParameterError := by
  unfold Arr.split
  rw [if_neg (by simp; omega), if_pos rfl]

/-- zero in the shape: either the processed axis is the only zero, or another axis is zero -/
theorem zero_mem_cases (s : List Nat) (axis : Nat) (hax : axis < s.length) (h0 : 0 ∈ s) :
    0 ∈ s.eraseIdx axis ∨ (0 ∉ s.eraseIdx axis ∧ s.getD axis 0 = 0) := by
  by_cases h : 0 ∈ s.eraseIdx axis
  · exact Or.inl h
  · refine Or.inr ⟨h, ?_⟩
    obtain ⟨i, hi, e⟩ := List.getElem_of_mem h0
    by_cases hia : i = axis
    · subst hia; simp [List.getD_eq_getElem?_getD, hi, e]
    · exfalso; apply h
      rw [List.mem_iff_getElem]
      rcases Nat.lt_or_ge i axis with hlt | hge
      · exact ⟨i, by rw [List.length_eraseIdx]; simp [hax]; omega, by rw [List.getElem_eraseIdx, dif_pos hlt]; exact e⟩
      · have hi1 : i - 1 < (s.eraseIdx axis).length := by rw [List.length_eraseIdx]; simp [hax]; omega
        refine ⟨i - 1, hi1, ?_⟩
        rw [List.getElem_eraseIdx, dif_neg (by omega)]
        have : i - 1 + 1 = i := by omega
        simp only [this]; exact e

theorem getD_zero_mem (s : List Nat) (axis : Nat) (hax : axis < s.length) (h : s.getD axis 0 = 0) : 0 ∈ s := by
  have : s.getD axis 0 = s[axis] := by simp [List.getD_eq_getElem?_getD, hax]
  rw [this] at h
  exact h ▸ List.getElem_mem hax

theorem mem_of_mem_eraseIdx' (s : List Nat) (axis : Nat) (h : 0 ∈ s.eraseIdx axis) : 0 ∈ s :=
  List.mem_of_mem_eraseIdx h

/-- **another axis has length 0**: `parts = 0`, `split` refuses -/
theorem applyAlongAxis_other_zero (a : Arr α) (zero : α) (zb : β) (axis : Nat) (f : Arr α → Res (Arr β))
    (hwf : a.WF) (hax : axis < a.ndim) (h0 : 0 ∈ a.shape.eraseIdx axis) :
    a.applyAlongAxis zero zb axis f = .err .ParameterError := by
  obtain ⟨arr, ha1, _, _, _⟩ := moveLast_spec a zero axis hwf hax
  have hP : (a.shape.eraseIdx axis).prod = 0 := prod_eq_zero_of_mem _ h0
  unfold Arr.applyAlongAxis
  rw [if_neg (by omega)]
  simp only [ha1, Res.bind_ok, hP, split_zero_parts arr.ravel zero (Nat.le_refl 1), Res.bind_err]

/-- in a shape whose other axes all have length 1 the flat position is the coordinate of the remaining axis -/
theorem ravel_insertIdx_unit : ∀ (s c : List Nat) (i m j : Nat), inRange s c = true → s.prod = 1 → i ≤ s.length →
    ravel (s.insertIdx i m) (c.insertIdx i j) = j
  | s, c, 0, m, j, hc, hp, _ => by
    have := ravel_lt s c hc
    simp only [List.insertIdx_zero, ravel, hp]; omega
  | [], _, i + 1, _, _, _, _, hi => by simp at hi
  | d :: ds, [], i + 1, _, _, hc, _, _ => by simp [inRange] at hc
  | d :: ds, c0 :: cs, i + 1, m, j, hc, hp, hi => by
    simp only [inRange, Bool.and_eq_true, decide_eq_true_eq] at hc
    simp only [List.prod_cons] at hp
    have hd : d = 1 := Nat.eq_one_of_mul_eq_one_right hp
    have hds : ds.prod = 1 := Nat.eq_one_of_mul_eq_one_left hp
    have ih := ravel_insertIdx_unit ds cs i m j hc.2 hds (by simpa using hi)
    have hc0 : c0 = 0 := by omega
    simp only [List.insertIdx_succ_cons, ravel, ih, hc0, Nat.zero_mul, Nat.zero_add]

theorem inRange_replicate_zero : ∀ (s : List Nat), 0 ∉ s → inRange s (List.replicate s.length 0) = true
  | [], _ => rfl
  | d :: ds, h => by
    simp only [List.mem_cons, not_or] at h
    simp only [List.length_cons, List.replicate_succ, inRange, Bool.and_eq_true, decide_eq_true_eq]
    exact ⟨by omega, inRange_replicate_zero ds h.2⟩

/-- **only the processed axis has length 0**: `f` is applied once, to the empty lane; its answer `y` is kept when it
fits the shape `rest ++ [y.len]` (all other axes of length 1, or `y` empty) and moved back along the axis -/
theorem applyAlongAxis_axis_zero (a : Arr α) (zero : α) (zb : β) (axis : Nat) (f : Arr α → Res (Arr β))
    (hwf : a.WF) (hax : axis < a.ndim) (hrest : 0 ∉ a.shape.eraseIdx axis) (hn : a.shape.getD axis 0 = 0) :
    a.applyAlongAxis zero zb axis f = f (Arr.flat []) >>= fun y =>
      if (a.shape.eraseIdx axis).prod = 1 ∨ y.elems.length = 0 then .ok ⟨y.elems, a.shape.set axis y.elems.length⟩
      else .err .ShapeMustMatchValuesLength := by
  have hax' : axis < a.shape.length := hax
  have hP : 0 < (a.shape.eraseIdx axis).prod := prod_pos_of_not_mem _ hrest
  have hrl : a.ndim - 1 = (a.shape.eraseIdx axis).length := by simp [List.length_eraseIdx, hax', Arr.ndim]
  obtain ⟨arr, ha1, ha2, ha3, _⟩ := moveLast_spec a zero axis hwf hax
  have hae : arr.elems = [] := by
    apply List.eq_nil_of_length_eq_zero
    rw [ha3, ha2, hn]; simp [List.prod_append]
  unfold Arr.applyAlongAxis
  rw [if_neg (by omega)]
  simp only [ha1, Res.bind_ok, Arr.ravel, hae, split_flat_nil zero _ hP, Res.mapM', List.map_cons, List.map_nil, Res.sequence]
  cases hy : f (Arr.flat []) with
  | err e => rfl
  | panic => rfl
  | ok y =>
    simp only [Res.bind_ok, Res.idx, List.getElem?_cons_zero, List.flatMap_cons, List.flatMap_nil, List.append_nil, Arr.len,
      ha2, hn]
    rw [set_append_singleton _ _ _ _ hrl]
    generalize hm : y.elems.length = m
    by_cases hc : (a.shape.eraseIdx axis).prod = 1 ∨ m = 0
    · have hprod : (a.shape.eraseIdx axis ++ [m]).prod = m := by
        simp only [List.prod_append, List.prod_cons, List.prod_nil, Nat.mul_one]
        rcases hc with h | h
        · rw [h, Nat.one_mul]
        · rw [h, Nat.mul_zero]
      rw [if_pos hc]
      simp only [Arr.reshape, Arr.new, Arr.flat, hprod, hm, if_true, Res.bind_ok]
      have hpwf : (⟨y.elems, a.shape.eraseIdx axis ++ [m]⟩ : Arr β).WF := by simp only [Arr.WF, hprod, hm]
      obtain ⟨r, hr1, hr2, hr3, hr4⟩ := moveBack_spec ⟨y.elems, a.shape.eraseIdx axis ++ [m]⟩ zb (a.shape.eraseIdx axis) m axis
        hpwf rfl (by omega)
      rw [hrl, hr1]
      congr 1
      have hrs : r.shape = a.shape.set axis m := by rw [hr2, insertIdx_eraseIdx_self _ _ _ hax']
      have hrlen : r.elems.length = m := by
        rw [hr3, hrs, prod_set_eraseIdx _ _ _ hax']
        simpa only [List.prod_append, List.prod_cons, List.prod_nil, Nat.mul_one] using hprod
      cases r with | mk re rs =>
      simp only at hrs hrlen hr4 hr2
      subst hrs
      congr 1
      apply List.ext_getElem?
      intro j
      by_cases hj : j < m
      · rcases hc with h1 | h0
        · have hin := inRange_replicate_zero _ hrest
          have h4 := hr4 _ j hin hj
          simp only [Arr.get?] at h4
          rw [hr2, ravel_insertIdx_unit _ _ axis m j hin h1 (by omega),
            ravel_append_singleton _ _ _ _ (by simp)] at h4
          have hz : ravel (a.shape.eraseIdx axis) (List.replicate (a.shape.eraseIdx axis).length 0) = 0 := by
            have := ravel_lt _ _ hin; omega
          rw [hz, Nat.zero_mul, Nat.zero_add] at h4
          exact h4
        · omega
      · rw [List.getElem?_eq_none (by omega), List.getElem?_eq_none (by omega)]
    · rw [if_neg hc]
      have hne : ¬ (a.shape.eraseIdx axis ++ [m]).prod = m := by
        simp only [List.prod_append, List.prod_cons, List.prod_nil, Nat.mul_one]
        intro h
        apply hc
        rcases Nat.eq_zero_or_pos m with h0 | hpos
        · exact Or.inr h0
        · exact Or.inl (Nat.eq_of_mul_eq_mul_right hpos (by rw [h, Nat.one_mul]))
      simp only [Arr.reshape, Arr.new, Arr.flat, hm, hne, if_false, Res.bind_err]

/-! ### never a panic, on every well-formed array -/

theorem sequence_no_panic : ∀ (l : List (Res β)), (∀ x ∈ l, x ≠ .panic) →
    (∃ rs, Res.sequence l = .ok rs ∧ rs.length = l.length) ∨ (∃ e, Res.sequence l = .err e)
  | [], _ => Or.inl ⟨[], rfl, rfl⟩
  | x :: xs, h => by
    have hx := h x List.mem_cons_self
    cases x with
    | panic => exact absurd rfl hx
    | err e => exact Or.inr ⟨e, rfl⟩
    | ok v =>
      rcases sequence_no_panic xs (fun z hz => h z (List.mem_cons_of_mem _ hz)) with ⟨rs, h1, h2⟩ | ⟨e, h1⟩
      · exact Or.inl ⟨v :: rs, by simp only [Res.sequence, Res.bind_ok, h1], by simp [h2]⟩
      · exact Or.inr ⟨e, by simp only [Res.sequence, Res.bind_ok, h1, Res.bind_err]⟩

theorem mapM'_no_panic (f : α → Res β) (l : List α) (hf : ∀ x, f x ≠ .panic) :
    (∃ rs, Res.mapM' f l = .ok rs ∧ rs.length = l.length) ∨ (∃ e, Res.mapM' f l = .err e) := by
  have := sequence_no_panic (l.map f) (fun x hx => by obtain ⟨z, _, rfl⟩ := List.mem_map.1 hx; exact hf z)
  simpa only [Res.mapM', List.length_map] using this

/-- **total statement**: on EVERY well-formed array (zero-length axes or not), for every axis and every lane function
that never panics (no assumption on the lengths it returns), `apply_along_axis` answers `Ok` with a well-formed array
of the same rank, or `Err` — it never panics -/
theorem applyAlongAxis_total (a : Arr α) (zero : α) (zb : β) (axis : Nat) (f : Arr α → Res (Arr β))
    (hwf : a.WF) (hf : ∀ x, f x ≠ .panic) :
    (∃ r, a.applyAlongAxis zero zb axis f = .ok r ∧ r.WF ∧ r.ndim = a.ndim) ∨
    (∃ e, a.applyAlongAxis zero zb axis f = .err e) := by
  by_cases hax : axis < a.ndim
  swap
  · exact Or.inr ⟨_, applyAlongAxis_axis_err a zero zb axis f (by omega)⟩
  have hax' : axis < a.shape.length := hax
  by_cases hz : 0 ∈ a.shape
  · rcases zero_mem_cases a.shape axis hax hz with h0 | ⟨hrest, hn⟩
    · exact Or.inr ⟨_, applyAlongAxis_other_zero a zero zb axis f hwf hax h0⟩
    · rw [applyAlongAxis_axis_zero a zero zb axis f hwf hax hrest hn]
      cases hy : f (Arr.flat []) with
      | panic => exact absurd hy (hf _)
      | err e => exact Or.inr ⟨e, rfl⟩
      | ok y =>
        simp only [Res.bind_ok]
        by_cases hc : (a.shape.eraseIdx axis).prod = 1 ∨ y.elems.length = 0
        · rw [if_pos hc]
          refine Or.inl ⟨_, rfl, ?_, by simp [Arr.ndim]⟩
          simp only [Arr.WF]
          rw [prod_set_eraseIdx _ _ _ hax']
          rcases hc with h | h
          · rw [h, Nat.one_mul]
          · rw [h, Nat.mul_zero]
        · rw [if_neg hc]; exact Or.inr ⟨_, rfl⟩
  · -- no zero-length axis: the lanes are the consecutive chunks
    have hP : 0 < (a.shape.eraseIdx axis).prod := prod_pos_of_not_mem _ (not_mem_eraseIdx _ _ hz)
    have hn : 0 < a.shape.getD axis 0 := getD_mem_pos _ _ hax hz
    have hrl : a.ndim - 1 = (a.shape.eraseIdx axis).length := by simp [List.length_eraseIdx, hax', Arr.ndim]
    obtain ⟨arr, ha1, ha2, ha3, _⟩ := moveLast_spec a zero axis hwf hax
    have hL : arr.elems.length = (a.shape.eraseIdx axis).prod * a.shape.getD axis 0 := by
      rw [ha3, ha2]; simp [List.prod_append]
    have hsplit := split_flat_even arr.elems zero _ _ hP hn hL
    unfold Arr.applyAlongAxis
    rw [if_neg (by omega)]
    simp only [ha1, Res.bind_ok, Arr.ravel, hsplit]
    rcases mapM'_no_panic f ((List.range (a.shape.eraseIdx axis).prod).map
        (fun k => Arr.flat ((arr.elems.drop (k * a.shape.getD axis 0)).take (a.shape.getD axis 0)))) hf with ⟨outs, ho1, ho2⟩ | ⟨e, ho1⟩
    swap
    · exact Or.inr ⟨e, by rw [ho1]; rfl⟩
    simp only [List.length_map, List.length_range] at ho2
    have h0 : 0 < outs.length := by omega
    have hidx : Res.idx outs 0 = .ok outs[0] := by simp [Res.idx, h0]
    rw [ho1]
    simp only [Res.bind_ok, hidx, ha2]
    rw [set_append_singleton _ _ _ _ hrl]
    simp only [Arr.reshape, Arr.new, Arr.flat]
    by_cases hpr : (a.shape.eraseIdx axis ++ [outs[0].len]).prod = (outs.flatMap (·.elems)).length
    · simp only [hpr, ↓reduceIte]
      have hpwf : (⟨outs.flatMap (·.elems), a.shape.eraseIdx axis ++ [outs[0].len]⟩ : Arr β).WF := hpr.symm
      obtain ⟨r, hr1, hr2, hr3, _⟩ := moveBack_spec ⟨outs.flatMap (·.elems), a.shape.eraseIdx axis ++ [outs[0].len]⟩ zb
        (a.shape.eraseIdx axis) outs[0].len axis hpwf rfl (by omega)
      refine Or.inl ⟨r, ?_, hr3, ?_⟩
      · simp only [Res.bind_ok]; rw [hrl]; exact hr1
      · rw [Arr.ndim, hr2, List.length_insertIdx]
        have hl : (a.shape.eraseIdx axis).length = a.shape.length - 1 := by rw [List.length_eraseIdx]; simp [hax']
        rw [if_pos (by omega), hl, Arr.ndim]; omega
    · simp only [hpr, ↓reduceIte]; exact Or.inr ⟨_, rfl⟩

theorem applyAlongAxis_never_panics (a : Arr α) (zero : α) (zb : β) (axis : Nat) (f : Arr α → Res (Arr β))
    (hwf : a.WF) (hf : ∀ x, f x ≠ .panic) : a.applyAlongAxis zero zb axis f ≠ .panic := by
  rcases applyAlongAxis_total a zero zb axis f hwf hf with ⟨r, h, _⟩ | ⟨e, h⟩ <;> rw [h] <;> exact fun h => nomatch h

end ArrModel
