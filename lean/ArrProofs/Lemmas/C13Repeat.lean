import ArrProofs.Lemmas.C13Axis
import Mathlib.Tactic.Ring
/-!
# C13 helper lemmas: `repeat` (flat and along an axis)
-/
namespace ArrModel
open Arr
variable {α β γ : Type}

/-! ### run-length expansion -/

/-- source index of every output position of a run-length expansion: index `i` is emitted `R[i]` consecutive times -/
def expandIdx (R : List Nat) : List Nat := ((List.range R.length).zip R).flatMap (fun p => List.replicate p.2 p.1)

theorem zip_flatMap_replicate_map (f : β → γ) : ∀ (l : List β) (R : List Nat),
    ((l.map f).zip R).flatMap (fun p => List.replicate p.2 p.1) = ((l.zip R).flatMap (fun p => List.replicate p.2 p.1)).map f
  | [], _ => by simp
  | _ :: _, [] => by simp
  | x :: xs, r :: R => by
    simp only [List.map_cons, List.zip_cons_cons, List.flatMap_cons, List.map_append, List.map_replicate,
      zip_flatMap_replicate_map f xs R]

theorem zip_replicate_flatMap (c : Nat) : ∀ (l : List α),
    (l.zip (List.replicate l.length c)).flatMap (fun p => List.replicate p.2 p.1) = l.flatMap (List.replicate c)
  | [] => rfl
  | x :: xs => by
    simp only [List.length_cons, List.replicate_succ, List.zip_cons_cons, List.flatMap_cons, zip_replicate_flatMap c xs]

theorem zip_flatMap_replicate_length : ∀ (l : List β) (R : List Nat), R.length ≤ l.length →
    ((l.zip R).flatMap (fun p => List.replicate p.2 p.1)).length = R.sum
  | _, [], _ => by simp
  | [], _ :: _, h => by simp at h
  | x :: xs, r :: R, h => by
    simp only [List.zip_cons_cons, List.flatMap_cons, List.length_append, List.length_replicate, List.sum_cons,
      zip_flatMap_replicate_length xs R (by simpa using h)]

theorem expandIdx_length (R : List Nat) : (expandIdx R).length = R.sum :=
  zip_flatMap_replicate_length _ R (by simp)

theorem expandIdx_lt (R : List Nat) (i : Nat) (h : i ∈ expandIdx R) : i < R.length := by
  unfold expandIdx at h
  obtain ⟨p, hp, hi⟩ := List.mem_flatMap.1 h
  have := (List.of_mem_zip hp).1
  rw [(List.mem_replicate.1 hi).2]
  simpa using this

/-- expanding any list by counts = reading the list at the expanded indices -/
theorem zip_flatMap_replicate_eq (d : β) (l : List β) (R : List Nat) (h : l.length = R.length) :
    (l.zip R).flatMap (fun p => List.replicate p.2 p.1) = (expandIdx R).map (fun i => l.getD i d) := by
  have hl : l = (List.range R.length).map (fun i => l.getD i d) := by
    apply List.ext_getElem
    · simp [h]
    · intro i h1 h2
      simp [List.getD_eq_getElem?_getD, h1]
  conv => lhs; rw [hl]
  rw [zip_flatMap_replicate_map]; rfl

/-! ### moving an axis to the front and back -/

theorem permute_cons (i : Nat) (l c : List Nat) : permute (i :: l) c = c.getD i 0 :: permute l c := rfl

theorem permute_eraseIdx_range (c : List Nat) (n i : Nat) (h : c.length = n) :
    permute ((List.range n).eraseIdx i) c = c.eraseIdx i := by
  have := permute_moveLast c n i h
  unfold permute at this ⊢
  rw [List.map_append] at this
  exact List.append_inj_left' this (by simp)

/-- `rollaxis(axis, None)`: the axis comes first, the others keep their order -/
theorem rollFront_spec (a : Arr α) (zero : α) (axis : Nat) (hwf : a.WF) (hax : axis < a.ndim) :
    ∃ arr, a.rollaxis zero (Int.ofNat axis) none = .ok arr ∧
      arr.shape = a.shape.getD axis 0 :: a.shape.eraseIdx axis ∧ arr.WF ∧
      ∀ c, inRange a.shape c = true → arr.get? (c.getD axis 0 :: c.eraseIdx axis) = a.get? c := by
  have hm : a.rollaxis zero (Int.ofNat axis) none =
      a.transpose zero (some ((axis :: (List.range a.ndim).eraseIdx axis).map Int.ofNat)) := by
    rw [C06.rollaxis_eq_transpose a zero _ none (by rw [normalizeAxis_ofNat]; exact hax) (by simp [startOf]; omega)]
    simp only [normalizeAxis_ofNat, startOf, rollaxisOrder, List.insertIdx_zero]
  have hperm : (axis :: (List.range a.ndim).eraseIdx axis).Perm (List.range a.ndim) :=
    (List.perm_append_singleton axis _).symm.trans (moveLast_perm a.ndim axis hax)
  obtain ⟨r, h1, h2, h3, h4⟩ := transpose_nat_spec a zero _ hwf hperm
  refine ⟨r, hm.trans h1, ?_, h3, ?_⟩
  · rw [h2, permute_cons, permute_eraseIdx_range a.shape a.ndim axis rfl]
  · intro c hc
    have := h4 c hc
    rwa [permute_cons, permute_eraseIdx_range c a.ndim axis (inRange_length _ _ hc)] at this

theorem permute_range'_one (j : Nat) (q : List Nat) : permute (List.range' 1 q.length) (j :: q) = q := by
  unfold permute
  rw [List.range'_eq_map_range, List.map_map]
  have : ((fun ax => (j :: q).getD ax 0) ∘ fun x => 1 + x) = (fun i => q.getD i 0) := by
    funext i; simp [Nat.add_comm 1 i]
  rw [this, map_getD_range]

/-- `moveaxis([0], [axis])`: the first axis goes to position `axis`, the others keep their order -/
theorem moveFront_spec (p : Arr β) (zb : β) (Q : List Nat) (m axis : Nat) (hwf : p.WF) (hs : p.shape = m :: Q)
    (hax : axis ≤ Q.length) :
    ∃ r, p.moveaxis zb [0] [Int.ofNat axis] = .ok r ∧ r.shape = Q.insertIdx axis m ∧ r.WF ∧
      ∀ q j, inRange Q q = true → j < m → r.get? (q.insertIdx axis j) = p.get? (j :: q) := by
  have hnd : p.ndim = Q.length + 1 := by simp [Arr.ndim, hs]
  have hord : moveaxisOrder (Q.length + 1) [0] [axis] = (List.range' 1 Q.length).insertIdx axis 0 := by
    rw [moveaxisOrder_single]
    have e : (List.range (Q.length + 1)).eraseIdx 0 = List.range' 1 Q.length := by
      rw [List.range_eq_range', List.range'_succ]; rfl
    rw [e, List.length_range', Nat.min_eq_left hax]
  have hm : p.moveaxis zb [0] [Int.ofNat axis] =
      p.transpose zb (some (((List.range' 1 Q.length).insertIdx axis 0).map Int.ofNat)) := by
    rw [C06.moveaxis_eq_transpose p zb _ _ (by simp) (by simp) (by simp) (by simp)]
    have h0 : normalizeAxis (Q.length + 1) 0 = 0 := normalizeAxis_ofNat _ 0
    simp only [List.map_cons, List.map_nil, normalizeAxis_ofNat, hnd, h0, hord]
  have hperm : ((List.range' 1 Q.length).insertIdx axis 0).Perm (List.range p.ndim) := by
    rw [hnd]
    refine (List.perm_insertIdx 0 _ (by simpa using hax)).trans ?_
    rw [List.range_eq_range', List.range'_succ]
  obtain ⟨r, h1, h2, h3, h4⟩ := transpose_nat_spec p zb _ hwf hperm
  have hpm : ∀ (j : Nat) (q : List Nat), q.length = Q.length →
      permute ((List.range' 1 Q.length).insertIdx axis 0) (j :: q) = q.insertIdx axis j := by
    intro j q hq
    unfold permute
    rw [map_insertIdx']
    have := permute_range'_one j q
    unfold permute at this
    rw [hq] at this
    rw [this]; rfl
  refine ⟨r, hm.trans h1, ?_, h3, ?_⟩
  · rw [h2, hs, hpm m Q rfl]
  · intro q j hq hj
    have hin : inRange p.shape (j :: q) = true := by rw [hs]; simp [inRange, hq, hj]
    have := h4 _ hin
    rwa [hpm j q (inRange_length _ _ hq)] at this

/-- moving a unit axis does not change the flat element order -/
theorem moveFront_unit_elems (p : Arr β) (zb : β) (Q : List Nat) (axis : Nat) (hwf : p.WF) (hs : p.shape = 1 :: Q)
    (hax : axis ≤ Q.length) : ∃ r, p.moveaxis zb [0] [Int.ofNat axis] = .ok r ∧ r.elems = p.elems := by
  obtain ⟨r, h1, h2, h3, h4⟩ := moveFront_spec p zb Q 1 axis hwf hs hax
  refine ⟨r, h1, ?_⟩
  have hrl : r.elems.length = Q.prod := by
    rw [h3, h2]
    exact (perm_prod (List.perm_insertIdx 1 Q hax)).trans (by simp)
  have hpl : p.elems.length = Q.prod := by rw [hwf, hs]; simp
  apply List.ext_getElem?
  intro i
  by_cases hi : i < Q.prod
  · obtain ⟨e1, e2⟩ := ravel_unravel Q i hi
    have := h4 (unravel Q i) 0 e2 (by omega)
    simp only [Arr.get?, h2, hs] at this
    rw [ravel_insertIdx_one _ _ _ (inRange_length _ _ e2).symm, e1] at this
    simpa [ravel, e1] using this
  · rw [List.getElem?_eq_none (by omega), List.getElem?_eq_none (by omega)]

/-! ### `split(n, Some(axis))` with `n` = the axis length: the `n` slabs -/

theorem shape_prod_axis (s : List Nat) (axis : Nat) (h : axis < s.length) :
    s.prod = (s.eraseIdx axis).prod * s.getD axis 0 := by
  have := prod_set_eraseIdx s axis (s.getD axis 0) h
  rwa [set_getD_self] at this

/-- the slabs of `split` along an axis, as flat element lists: slab `k` is chunk `k` of the array rolled to the front -/
theorem split_axis_elems (a : Arr α) (zero : α) (axis : Nat) (hwf : a.WF) (hax : axis < a.ndim) (hnz : 0 ∉ a.shape) :
    ∃ arr pieces, a.rollaxis zero (Int.ofNat axis) none = .ok arr ∧
      arr.shape = a.shape.getD axis 0 :: a.shape.eraseIdx axis ∧ arr.WF ∧
      (∀ c, inRange a.shape c = true → arr.get? (c.getD axis 0 :: c.eraseIdx axis) = a.get? c) ∧
      a.split zero (a.shape.getD axis 0) (some axis) = .ok pieces ∧
      pieces.map (·.elems) = (List.range (a.shape.getD axis 0)).map (fun k =>
        (arr.elems.drop (k * (a.shape.eraseIdx axis).prod)).take (a.shape.eraseIdx axis).prod) := by
  have hax' : axis < a.shape.length := hax
  have hP : 0 < (a.shape.eraseIdx axis).prod := prod_pos_of_not_mem _ (not_mem_eraseIdx _ _ hnz)
  have hn : 0 < a.shape.getD axis 0 := getD_mem_pos _ _ hax hnz
  obtain ⟨arr, ha1, ha2, ha3, ha4⟩ := rollFront_spec a zero axis hwf hax
  refine ⟨arr, ?_⟩
  have hlen : a.elems.length = (a.shape.eraseIdx axis).prod * a.shape.getD axis 0 := by
    rw [hwf]; exact shape_prod_axis _ _ hax'
  have hpos : 0 < a.elems.length := by rw [hlen]; exact Nat.mul_pos hP hn
  have hne : a.isEmpty = false := by simp only [Arr.isEmpty, beq_eq_false_iff_ne]; omega
  have hidx : Res.idx a.shape axis = .ok (a.shape.getD axis 0) := by
    simp [Res.idx, List.getD_eq_getElem?_getD, hax']
  have hstride : a.len / a.shape.getD axis 0 = (a.shape.eraseIdx axis).prod := by
    rw [Arr.len, hlen, Nat.mul_div_cancel _ hn]
  have harrlen : arr.elems.length = a.shape.getD axis 0 * (a.shape.eraseIdx axis).prod := by
    rw [ha3, ha2]; simp
  -- every window succeeds with the chunk as elements
  have hf : ∀ k, k < a.shape.getD axis 0 → ∃ r,
      (let sec := (k + 1) * 1 - k * 1
       let m : Arr α := Arr.flat ((arr.elems.drop (k * 1 * (a.shape.eraseIdx axis).prod)).take (sec * (a.shape.eraseIdx axis).prod))
       if a.ndim = 1 then Res.ok m
       else m.reshape (arr.shape.set 0 sec) >>= fun r => r.moveaxis zero [0] [Int.ofNat axis]) = .ok r ∧
      r.elems = (arr.elems.drop (k * (a.shape.eraseIdx axis).prod)).take (a.shape.eraseIdx axis).prod := by
    intro k hk
    simp only [Nat.mul_one, Nat.add_sub_cancel_left, Nat.one_mul]
    have hcl : ((arr.elems.drop (k * (a.shape.eraseIdx axis).prod)).take (a.shape.eraseIdx axis).prod).length
        = (a.shape.eraseIdx axis).prod := by
      rw [List.length_take, List.length_drop, harrlen]
      have : (k + 1) * (a.shape.eraseIdx axis).prod ≤ a.shape.getD axis 0 * (a.shape.eraseIdx axis).prod :=
        Nat.mul_le_mul_right _ hk
      rw [Nat.add_mul] at this
      omega
    by_cases h1 : a.ndim = 1
    · rw [if_pos h1]; exact ⟨_, rfl, rfl⟩
    · rw [if_neg h1]
      have hsh : arr.shape.set 0 1 = 1 :: a.shape.eraseIdx axis := by rw [ha2]; rfl
      rw [hsh]
      have hre : (Arr.flat ((arr.elems.drop (k * (a.shape.eraseIdx axis).prod)).take (a.shape.eraseIdx axis).prod)).reshape
          (1 :: a.shape.eraseIdx axis) = .ok ⟨(arr.elems.drop (k * (a.shape.eraseIdx axis).prod)).take (a.shape.eraseIdx axis).prod,
            1 :: a.shape.eraseIdx axis⟩ := by
        exact Arr.new_of_prod (by simp only [Arr.flat]; rw [hcl]; simp)
      rw [hre, Res.bind_ok]
      obtain ⟨r, hr1, hr2⟩ := moveFront_unit_elems
        (⟨(arr.elems.drop (k * (a.shape.eraseIdx axis).prod)).take (a.shape.eraseIdx axis).prod, 1 :: a.shape.eraseIdx axis⟩ : Arr α)
        zero (a.shape.eraseIdx axis) axis (by simp [Arr.WF, hcl]) rfl (by simp [List.length_eraseIdx, hax']; omega)
      exact ⟨r, hr1, hr2⟩
  obtain ⟨outs, ho1, ho2, ho3⟩ := mapM'_exists
    (fun (w : Nat × Nat) =>
        let sec := w.2 - w.1
        let m : Arr α := Arr.flat ((arr.elems.drop (w.1 * (a.shape.eraseIdx axis).prod)).take (sec * (a.shape.eraseIdx axis).prod))
        if a.ndim = 1 then Res.ok m
        else
          m.reshape (arr.shape.set 0 sec) >>= fun r =>
          r.moveaxis zero [0] [Int.ofNat axis])
    ((List.range (a.shape.getD axis 0)).map (fun k => (k * 1, (k + 1) * 1)))
    (by
      intro x hx
      simp only [List.mem_map, List.mem_range] at hx
      obtain ⟨k, hk, rfl⟩ := hx
      obtain ⟨r, hr, _⟩ := hf k hk
      exact ⟨r, hr⟩)
  simp only [List.length_map, List.length_range] at ho2 ho3
  refine ⟨outs, ha1, ha2, ha3, ha4, ?_, ?_⟩
  · unfold Arr.split
    have hdec : (match (some axis : Option Nat) with | some ax => decide (ax ≥ a.ndim) | none => false) = false := by
      simp; omega
    simp only [hdec, Bool.false_eq_true, if_false, hne, Option.getD_some, hidx, Res.bind_ok, Nat.mod_self, if_true]
    rw [if_neg (by omega)]
    unfold Arr.arraySplit
    simp only [hdec, Bool.false_eq_true, if_false, hne, Option.getD_some, hidx, Res.bind_ok, hstride, ha1]
    rw [if_neg (by omega)]
    have hss : sectionSizes (a.shape.getD axis 0) (a.shape.getD axis 0) = List.replicate (a.shape.getD axis 0) 1 := by
      have := sectionSizes_even (a.shape.getD axis 0) 1 hn
      rwa [Nat.mul_one] at this
    rw [hss, windows2_divPoints_even]
    exact ho1
  · apply List.ext_getElem
    · simp [ho2]
    · intro i h1 h2
      have hi : i < a.shape.getD axis 0 := by simpa using h2
      have h3 := ho3 i hi (by omega)
      simp only [List.getElem_map, List.getElem_range] at h3 ⊢
      obtain ⟨r, hr1, hr2⟩ := hf i hi
      rw [hr1] at h3
      cases h3
      exact hr2

end ArrModel
