import ArrProofs.Lemmas.C13Axis
import Mathlib.Tactic.Ring
/-!
# C13 helper lemmas: `repeat` (flat and along an axis)
-/
namespace ArrModel
open Arr
variable {α β γ : Type}

/-! ### run-length expansion -/

/-- source index of every output position of a run-length expansion: index `i` is emitted `R[i]` consecutive times -/
def expandIdx (R : List Nat) : List Nat := ((List.range R.length).zip R).flatMap (fun p => List.replicate p.2 p.1)

theorem zip_flatMap_replicate_map (f : β → γ) : ∀ (l : List β) (R : List Nat),
    ((l.map f).zip R).flatMap (fun p => List.replicate p.2 p.1) = ((l.zip R).flatMap (fun p => List.replicate p.2 p.1)).map f
  | [], _ => by simp
  | _ :: _, [] => by simp
  | x :: xs, r :: R => by
    simp only [List.map_cons, List.zip_cons_cons, List.flatMap_cons, List.map_append, List.map_replicate,
      zip_flatMap_replicate_map f xs R]

theorem zip_replicate_flatMap (c : Nat) : ∀ (l : List α),
    (l.zip (List.replicate l.length c)).flatMap (fun p => List.replicate p.2 p.1) = l.flatMap (List.replicate c)
  | [] => rfl
  | x :: xs => by
    simp only [List.length_cons, List.replicate_succ, List.zip_cons_cons, List.flatMap_cons, zip_replicate_flatMap c xs]

theorem zip_flatMap_replicate_length : ∀ (l : List β) (R : List Nat), R.length ≤ l.length →
    ((l.zip R).flatMap (fun p => List.replicate p.2 p.1)).length = R.sum
  | _, [], _ => by simp
  | [], _ :: _, h => by simp at h
  | x :: xs, r :: R, h => by
    simp only [List.zip_cons_cons, List.flatMap_cons, List.length_append, List.length_replicate, List.sum_cons,
      zip_flatMap_replicate_length xs R (by simpa using h)]

theorem expandIdx_length (R : List Nat) : (expandIdx R).length = R.sum :=
  zip_flatMap_replicate_length _ R (by simp)

theorem expandIdx_lt (R : List Nat) (i : Nat) (h : i ∈ expandIdx R) : i < R.length := by
  unfold expandIdx at h
  obtain ⟨p, hp, hi⟩ := List.mem_flatMap.1 h
  have := (List.of_mem_zip hp).1
  rw [(List.mem_replicate.1 hi).2]
  simpa using this

theorem expandFrom_spec : ∀ (R : List Nat) (s : Nat),
    (((List.range' s R.length).zip R).flatMap (fun p => List.replicate p.2 p.1)).Pairwise (· ≤ ·) ∧
    (∀ y ∈ ((List.range' s R.length).zip R).flatMap (fun p => List.replicate p.2 p.1), s ≤ y) ∧
    ∀ i, (((List.range' s R.length).zip R).flatMap (fun p => List.replicate p.2 p.1)).count i
      = if i < s then 0 else R.getD (i - s) 0
  | [], s => by simp
  | r :: R, s => by
    obtain ⟨ih1, ih2, ih3⟩ := expandFrom_spec R (s + 1)
    simp only [List.length_cons, List.range'_succ, List.zip_cons_cons, List.flatMap_cons]
    refine ⟨?_, ?_, ?_⟩
    · rw [List.pairwise_append]
      refine ⟨?_, ih1, ?_⟩
      · exact List.pairwise_of_forall_mem_list (fun a ha b hb => by
          rw [(List.mem_replicate.1 ha).2, (List.mem_replicate.1 hb).2])
      · intro x hx y hy
        rw [(List.mem_replicate.1 hx).2]
        have := ih2 y hy; omega
    · intro y hy
      rcases List.mem_append.1 hy with h | h
      · rw [(List.mem_replicate.1 h).2]
      · have := ih2 y h; omega
    · intro i
      rw [List.count_append, ih3 i, List.count_replicate]
      by_cases h1 : i < s
      · have : ¬ (s == i) = true := by simp; omega
        simp [h1, this]; omega
      · by_cases h2 : i = s
        · subst h2; simp
        · have h3 : ¬ (s == i) = true := by simp; omega
          have h4 : ¬ i < s + 1 := by omega
          obtain ⟨d, hd⟩ : ∃ d, i - s = d + 1 := ⟨i - s - 1, by omega⟩
          have h5 : i - (s + 1) = d := by omega
          simp [h1, h3, h4, hd, h5]

/-- `expandIdx` is determined by: ascending, and index `i` occurs exactly `R[i]` times -/
theorem expandIdx_spec (R : List Nat) :
    (expandIdx R).Pairwise (· ≤ ·) ∧ ∀ i, (expandIdx R).count i = R.getD i 0 := by
  obtain ⟨h1, _, h3⟩ := expandFrom_spec R 0
  unfold expandIdx
  rw [List.range_eq_range']
  exact ⟨h1, fun i => by simpa using h3 i⟩

/-- expanding any list by counts = reading the list at the expanded indices -/
theorem zip_flatMap_replicate_eq (d : β) (l : List β) (R : List Nat) (h : l.length = R.length) :
    (l.zip R).flatMap (fun p => List.replicate p.2 p.1) = (expandIdx R).map (fun i => l.getD i d) := by
  have hl : l = (List.range R.length).map (fun i => l.getD i d) := by
    apply List.ext_getElem
    · simp [h]
    · intro i h1 h2
      simp [List.getD_eq_getElem?_getD, h1]
  conv => lhs; rw [hl]
  rw [zip_flatMap_replicate_map]; rfl

/-! ### moving an axis to the front and back -/

theorem permute_cons (i : Nat) (l c : List Nat) : permute (i :: l) c = c.getD i 0 :: permute l c := rfl

theorem permute_eraseIdx_range (c : List Nat) (n i : Nat) (h : c.length = n) :
    permute ((List.range n).eraseIdx i) c = c.eraseIdx i := by
  have := permute_moveLast c n i h
  unfold permute at this ⊢
  rw [List.map_append] at this
  exact List.append_inj_left' this (by simp)

/-- `rollaxis(axis, None)`: the axis comes first, the others keep their order -/
theorem rollFront_spec (a : Arr α) (zero : α) (axis : Nat) (hwf : a.WF) (hax : axis < a.ndim) :
    ∃ arr, a.rollaxis zero (Int.ofNat axis) none = .ok arr ∧
      arr.shape = a.shape.getD axis 0 :: a.shape.eraseIdx axis ∧ arr.WF ∧
      ∀ c, inRange a.shape c = true → arr.get? (c.getD axis 0 :: c.eraseIdx axis) = a.get? c := by
  have hm : a.rollaxis zero (Int.ofNat axis) none =
      a.transpose zero (some ((axis :: (List.range a.ndim).eraseIdx axis).map Int.ofNat)) := by
    rw [C06.rollaxis_eq_transpose a zero _ none (by rw [normalizeAxis_ofNat]; exact hax) (by simp [startOf]; omega)]
    simp only [normalizeAxis_ofNat, startOf, rollaxisOrder, List.insertIdx_zero]
  have hperm : (axis :: (List.range a.ndim).eraseIdx axis).Perm (List.range a.ndim) :=
    (List.perm_append_singleton axis _).symm.trans (moveLast_perm a.ndim axis hax)
  obtain ⟨r, h1, h2, h3, h4⟩ := transpose_nat_spec a zero _ hwf hperm
  refine ⟨r, hm.trans h1, ?_, h3, ?_⟩
  · rw [h2, permute_cons, permute_eraseIdx_range a.shape a.ndim axis rfl]
  · intro c hc
    have := h4 c hc
    rwa [permute_cons, permute_eraseIdx_range c a.ndim axis (inRange_length _ _ hc)] at this

theorem permute_range'_one (j : Nat) (q : List Nat) : permute (List.range' 1 q.length) (j :: q) = q := by
  unfold permute
  rw [List.range'_eq_map_range, List.map_map]
  have : ((fun ax => (j :: q).getD ax 0) ∘ fun x => 1 + x) = (fun i => q.getD i 0) := by
    funext i; simp [Nat.add_comm 1 i]
  rw [this, map_getD_range]

/-- `moveaxis([0], [axis])`: the first axis goes to position `axis`, the others keep their order -/
theorem moveFront_spec (p : Arr β) (zb : β) (Q : List Nat) (m axis : Nat) (hwf : p.WF) (hs : p.shape = m :: Q)
    (hax : axis ≤ Q.length) :
    ∃ r, p.moveaxis zb [0] [Int.ofNat axis] = .ok r ∧ r.shape = Q.insertIdx axis m ∧ r.WF ∧
      ∀ q j, inRange Q q = true → j < m → r.get? (q.insertIdx axis j) = p.get? (j :: q) := by
  have hnd : p.ndim = Q.length + 1 := by simp [Arr.ndim, hs]
  have hord : moveaxisOrder (Q.length + 1) [0] [axis] = (List.range' 1 Q.length).insertIdx axis 0 := by
    rw [moveaxisOrder_single]
    have e : (List.range (Q.length + 1)).eraseIdx 0 = List.range' 1 Q.length := by
      rw [List.range_eq_range', List.range'_succ]; rfl
    rw [e, List.length_range', Nat.min_eq_left hax]
  have hm : p.moveaxis zb [0] [Int.ofNat axis] =
      p.transpose zb (some (((List.range' 1 Q.length).insertIdx axis 0).map Int.ofNat)) := by
    rw [C06.moveaxis_eq_transpose p zb _ _ (by simp) (by simp) (by simp) (by simp)]
    have h0 : normalizeAxis (Q.length + 1) 0 = 0 := normalizeAxis_ofNat _ 0
    simp only [List.map_cons, List.map_nil, normalizeAxis_ofNat, hnd, h0, hord]
  have hperm : ((List.range' 1 Q.length).insertIdx axis 0).Perm (List.range p.ndim) := by
    rw [hnd]
    refine (List.perm_insertIdx 0 _ (by simpa using hax)).trans ?_
    rw [List.range_eq_range', List.range'_succ]
  obtain ⟨r, h1, h2, h3, h4⟩ := transpose_nat_spec p zb _ hwf hperm
  have hpm : ∀ (j : Nat) (q : List Nat), q.length = Q.length →
      permute ((List.range' 1 Q.length).insertIdx axis 0) (j :: q) = q.insertIdx axis j := by
    intro j q hq
    unfold permute
    rw [map_insertIdx']
    have := permute_range'_one j q
    unfold permute at this
    rw [hq] at this
    rw [this]; rfl
  refine ⟨r, hm.trans h1, ?_, h3, ?_⟩
  · rw [h2, hs, hpm m Q rfl]
  · intro q j hq hj
    have hin : inRange p.shape (j :: q) = true := by rw [hs]; simp [inRange, hq, hj]
    have := h4 _ hin
    rwa [hpm j q (inRange_length _ _ hq)] at this

/-- moving a unit axis does not change the flat element order -/
theorem moveFront_unit_elems (p : Arr β) (zb : β) (Q : List Nat) (axis : Nat) (hwf : p.WF) (hs : p.shape = 1 :: Q)
    (hax : axis ≤ Q.length) : ∃ r, p.moveaxis zb [0] [Int.ofNat axis] = .ok r ∧ r.elems = p.elems := by
  obtain ⟨r, h1, h2, h3, h4⟩ := moveFront_spec p zb Q 1 axis hwf hs hax
  refine ⟨r, h1, ?_⟩
  have hrl : r.elems.length = Q.prod := by
    rw [h3, h2]
    exact (perm_prod (List.perm_insertIdx 1 Q hax)).trans (by simp)
  have hpl : p.elems.length = Q.prod := by rw [hwf, hs]; simp
  apply List.ext_getElem?
  intro i
  by_cases hi : i < Q.prod
  · obtain ⟨e1, e2⟩ := ravel_unravel Q i hi
    have := h4 (unravel Q i) 0 e2 (by omega)
    simp only [Arr.get?, h2, hs] at this
    rw [ravel_insertIdx_one _ _ _ (inRange_length _ _ e2).symm, e1] at this
    simpa [ravel, e1] using this
  · rw [List.getElem?_eq_none (by omega), List.getElem?_eq_none (by omega)]

/-! ### `split(n, Some(axis))` with `n` = the axis length: the `n` slabs -/

theorem shape_prod_axis (s : List Nat) (axis : Nat) (h : axis < s.length) :
    s.prod = (s.eraseIdx axis).prod * s.getD axis 0 := by
  have := prod_set_eraseIdx s axis (s.getD axis 0) h
  rwa [set_getD_self] at this

/-- the slabs of `split` along an axis, as flat element lists: slab `k` is chunk `k` of the array rolled to the front -/
theorem split_axis_elems (a : Arr α) (zero : α) (axis : Nat) (hwf : a.WF) (hax : axis < a.ndim) (hnz : 0 ∉ a.shape) :
    ∃ arr pieces, a.rollaxis zero (Int.ofNat axis) none = .ok arr ∧
      arr.shape = a.shape.getD axis 0 :: a.shape.eraseIdx axis ∧ arr.WF ∧
      (∀ c, inRange a.shape c = true → arr.get? (c.getD axis 0 :: c.eraseIdx axis) = a.get? c) ∧
      a.split zero (a.shape.getD axis 0) (some axis) = .ok pieces ∧
      pieces.map (·.elems) = (List.range (a.shape.getD axis 0)).map (fun k =>
        (arr.elems.drop (k * (a.shape.eraseIdx axis).prod)).take (a.shape.eraseIdx axis).prod) := by
  have hax' : axis < a.shape.length := hax
  have hP : 0 < (a.shape.eraseIdx axis).prod := prod_pos_of_not_mem _ (not_mem_eraseIdx _ _ hnz)
  have hn : 0 < a.shape.getD axis 0 := getD_mem_pos _ _ hax hnz
  obtain ⟨arr, ha1, ha2, ha3, ha4⟩ := rollFront_spec a zero axis hwf hax
  refine ⟨arr, ?_⟩
  have hlen : a.elems.length = (a.shape.eraseIdx axis).prod * a.shape.getD axis 0 := by
    rw [hwf]; exact shape_prod_axis _ _ hax'
  have hpos : 0 < a.elems.length := by rw [hlen]; exact Nat.mul_pos hP hn
  have hne : a.isEmpty = false := by simp only [Arr.isEmpty, beq_eq_false_iff_ne]; omega
  have hidx : Res.idx a.shape axis = .ok (a.shape.getD axis 0) := by
    simp [Res.idx, List.getD_eq_getElem?_getD, hax']
  have hstride : a.len / a.shape.getD axis 0 = (a.shape.eraseIdx axis).prod := by
    rw [Arr.len, hlen, Nat.mul_div_cancel _ hn]
  have harrlen : arr.elems.length = a.shape.getD axis 0 * (a.shape.eraseIdx axis).prod := by
    rw [ha3, ha2]; simp
  -- every window succeeds with the chunk as elements
  have hf : ∀ k, k < a.shape.getD axis 0 → ∃ r,
      (let sec := (k + 1) * 1 - k * 1
       let m : Arr α := Arr.flat ((arr.elems.drop (k * 1 * (a.shape.eraseIdx axis).prod)).take (sec * (a.shape.eraseIdx axis).prod))
       if a.ndim = 1 then Res.ok m
       else m.reshape (arr.shape.set 0 sec) >>= fun r => r.moveaxis zero [0] [Int.ofNat axis]) = .ok r ∧
      r.elems = (arr.elems.drop (k * (a.shape.eraseIdx axis).prod)).take (a.shape.eraseIdx axis).prod := by
    intro k hk
    simp only [Nat.mul_one, Nat.add_sub_cancel_left, Nat.one_mul]
    have hcl : ((arr.elems.drop (k * (a.shape.eraseIdx axis).prod)).take (a.shape.eraseIdx axis).prod).length
        = (a.shape.eraseIdx axis).prod := by
      rw [List.length_take, List.length_drop, harrlen]
      have : (k + 1) * (a.shape.eraseIdx axis).prod ≤ a.shape.getD axis 0 * (a.shape.eraseIdx axis).prod :=
        Nat.mul_le_mul_right _ hk
      rw [Nat.add_mul] at this
      omega
    by_cases h1 : a.ndim = 1
    · rw [if_pos h1]; exact ⟨_, rfl, rfl⟩
    · rw [if_neg h1]
      have hsh : arr.shape.set 0 1 = 1 :: a.shape.eraseIdx axis := by rw [ha2]; rfl
      rw [hsh]
      have hre : (Arr.flat ((arr.elems.drop (k * (a.shape.eraseIdx axis).prod)).take (a.shape.eraseIdx axis).prod)).reshape
          (1 :: a.shape.eraseIdx axis) = .ok ⟨(arr.elems.drop (k * (a.shape.eraseIdx axis).prod)).take (a.shape.eraseIdx axis).prod,
            1 :: a.shape.eraseIdx axis⟩ := by
        exact Arr.new_of_prod (by simp only [Arr.flat]; rw [hcl]; simp)
      rw [hre, Res.bind_ok]
      obtain ⟨r, hr1, hr2⟩ := moveFront_unit_elems
        (⟨(arr.elems.drop (k * (a.shape.eraseIdx axis).prod)).take (a.shape.eraseIdx axis).prod, 1 :: a.shape.eraseIdx axis⟩ : Arr α)
        zero (a.shape.eraseIdx axis) axis (by simp [Arr.WF, hcl]) rfl (by simp [List.length_eraseIdx, hax']; omega)
      exact ⟨r, hr1, hr2⟩
  obtain ⟨outs, ho1, ho2, ho3⟩ := mapM'_exists
    (fun (w : Nat × Nat) =>
        let sec := w.2 - w.1
        let m : Arr α := Arr.flat ((arr.elems.drop (w.1 * (a.shape.eraseIdx axis).prod)).take (sec * (a.shape.eraseIdx axis).prod))
        if a.ndim = 1 then Res.ok m
        else
          m.reshape (arr.shape.set 0 sec) >>= fun r =>
          r.moveaxis zero [0] [Int.ofNat axis])
    ((List.range (a.shape.getD axis 0)).map (fun k => (k * 1, (k + 1) * 1)))
    (by
      intro x hx
      simp only [List.mem_map, List.mem_range] at hx
      obtain ⟨k, hk, rfl⟩ := hx
      obtain ⟨r, hr, _⟩ := hf k hk
      exact ⟨r, hr⟩)
  simp only [List.length_map, List.length_range] at ho2 ho3
  refine ⟨outs, ha1, ha2, ha3, ha4, ?_, ?_⟩
  · unfold Arr.split
    have hdec : (match (some axis : Option Nat) with | some ax => decide (ax ≥ a.ndim) | none => false) = false := by
      simp; omega
    simp only [hdec, Bool.false_eq_true, if_false, hne, Option.getD_some, hidx, Res.bind_ok, Nat.mod_self, if_true]
    rw [if_neg (by omega)]
    unfold Arr.arraySplit
    simp only [hdec, Bool.false_eq_true, if_false, hne, Option.getD_some, hidx, Res.bind_ok, hstride, ha1]
    rw [if_neg (by omega)]
    have hss : sectionSizes (a.shape.getD axis 0) (a.shape.getD axis 0) = List.replicate (a.shape.getD axis 0) 1 := by
      have := sectionSizes_even (a.shape.getD axis 0) 1 hn
      rwa [Nat.mul_one] at this
    rw [hss, windows2_divPoints_even]
    exact ho1
  · apply List.ext_getElem
    · simp [ho2]
    · intro i h1 h2
      have hi : i < a.shape.getD axis 0 := by simpa using h2
      have h3 := ho3 i hi (by omega)
      simp only [List.getElem_map, List.getElem_range] at h3 ⊢
      obtain ⟨r, hr1, hr2⟩ := hf i hi
      rw [hr1] at h3
      cases h3
      exact hr2

/-! ### flat `repeat` -/

/-- one count for all: every element that many consecutive times (any rank; the last axis must not be empty) -/
theorem repeatFlat_single (a : Arr α) (c : Nat) (hwf : a.WF) (hlast : a.shape.getLast? ≠ some 0) :
    a.repeatFlat [c] = .ok (Arr.flat (a.elems.flatMap (List.replicate c))) := by
  unfold Arr.repeatFlat
  have hb : (Arr.flat [c]).broadcastTo a.shape = .ok ⟨List.replicate a.elems.length c, a.shape⟩ := by
    by_cases hne : a.shape = []
    · have hl : a.elems.length = 1 := by rw [hwf, hne]; rfl
      rw [hne, hl]
      rfl
    · rw [hwf]; exact broadcastTo_single c a.shape hne hlast
  rw [hb]
  simp only [Res.bind_ok, zip_replicate_flatMap]

/-- an empty last axis is refused -/
theorem repeatFlat_single_reject (a : Arr α) (c : Nat) (hlast : a.shape.getLast? = some 0) :
    a.repeatFlat [c] = .err .BroadcastShapeMismatch := by
  unfold Arr.repeatFlat Arr.broadcastTo
  have : isBroadcastable (Arr.flat [c]).shape a.shape = false := by
    have hrev : a.shape.reverse.head? = some 0 := by rw [List.head?_reverse]; exact hlast
    cases hr : a.shape.reverse with
    | nil => rw [hr] at hrev; simp at hrev
    | cons y t =>
      rw [hr] at hrev
      simp only [List.head?_cons, Option.some.injEq] at hrev
      subst hrev
      simp [isBroadcastable, Arr.flat, hr, dimClash]
  rw [if_pos (by simp [this])]
  rfl

/-- one count per element of a 1-D array -/
theorem repeatFlat_1d (a : Arr α) (repeats : List Nat) (n : Nat) (hs : a.shape = [n]) (hn : 0 < n)
    (hr : repeats.length = n) :
    a.repeatFlat repeats = .ok (Arr.flat ((a.elems.zip repeats).flatMap (fun p => List.replicate p.2 p.1))) := by
  unfold Arr.repeatFlat
  have := broadcastTo_1d repeats n hn (.inl hr)
  rw [hs, show Arr.flat repeats = ⟨repeats, [repeats.length]⟩ from rfl, this]
  simp only [Res.bind_ok, bc1, hr, if_true]

/-! ### rejections of `repeat` along an axis -/

theorem repeatAxis_axis_err (a : Arr α) (zero : α) (repeats : List Nat) (axis : Nat) (h : a.ndim ≤ axis) :
    a.repeatAxis zero repeats axis = .err .AxisOutOfBounds := by
  unfold Arr.repeatAxis; rw [if_pos h]

theorem repeatAxis_count_err (a : Arr α) (zero : α) (repeats : List Nat) (axis : Nat) (hax : axis < a.ndim)
    (h : repeats.length ≠ a.shape.getD axis 0 ∧ repeats.length ≠ 1 ∧ a.shape.getD axis 0 ≠ 1 ∨ repeats.length = 0) :
    a.repeatAxis zero repeats axis = .err .BroadcastShapeMismatch := by
  have hax' : axis < a.shape.length := hax
  have hidx : Res.idx a.shape axis = .ok (a.shape.getD axis 0) := by
    simp [Res.idx, List.getD_eq_getElem?_getD, hax']
  unfold Arr.repeatAxis
  rw [if_neg (by omega)]
  simp only [hidx, Res.bind_ok]
  have : (Arr.flat repeats).broadcastTo [a.shape.getD axis 0] = .err .BroadcastShapeMismatch := by
    unfold Arr.broadcastTo
    have hcl : dimClash repeats.length (a.shape.getD axis 0) = true := by
      unfold dimClash
      simp only [Bool.or_eq_true, Bool.and_eq_true, bne_iff_ne, beq_iff_eq]
      omega
    rw [if_pos (by simp only [Arr.flat, isBroadcastable_1d, hcl]; rfl)]
  rw [this]; rfl

/-! ### `repeat` along an axis -/

theorem ravel_append' : ∀ (P T cp ct : List Nat), cp.length = P.length →
    ravel (P ++ T) (cp ++ ct) = ravel P cp * T.prod + ravel T ct
  | [], T, [], ct, _ => by simp [ravel]
  | d :: P, T, x :: cp, ct, h => by
    have ih := ravel_append' P T cp ct (by simpa using h)
    simp only [List.cons_append, ravel, ih, List.prod_append]
    ring
  | [], _, _ :: _, _, h => by simp at h
  | _ :: _, _, [], _, h => by simp at h

theorem inRange_append' : ∀ (P T cp ct : List Nat), cp.length = P.length →
    inRange (P ++ T) (cp ++ ct) = (inRange P cp && inRange T ct)
  | [], T, [], ct, _ => by simp [inRange]
  | d :: P, T, x :: cp, ct, h => by
    have ih := inRange_append' P T cp ct (by simpa using h)
    simp only [List.cons_append, inRange, ih, Bool.and_assoc]
  | [], _, _ :: _, _, h => by simp at h
  | _ :: _, _, [], _, h => by simp at h

theorem ravel_insert_mid (P T cp ct : List Nat) (L l i : Nat) (hi : i = P.length) (hl : cp.length = P.length) :
    ravel ((P ++ T).insertIdx i L) ((cp ++ ct).insertIdx i l)
      = ravel P cp * (L * T.prod) + l * T.prod + ravel T ct := by
  subst hi
  rw [insertIdx_append_length, ← hl, insertIdx_append_length, ravel_append' _ _ _ _ hl]
  simp only [ravel, List.prod_cons]
  ring

theorem tmpShape_decomp : ∀ (s : List Nat) (axis L : Nat), axis < s.length →
    ∃ P', ((s.set axis L).set 0 L).set axis ((s.set axis L).getD 0 0) = L :: (P' ++ (s.eraseIdx axis).drop axis) ∧
      P'.length = axis ∧ P'.prod = ((s.eraseIdx axis).take axis).prod
  | [], _, _, h => by simp at h
  | s0 :: ss, 0, L, _ => ⟨[], by simp, rfl, by simp⟩
  | s0 :: ss, i + 1, L, h => by
    have hi : i < ss.length := by simpa using h
    refine ⟨ss.take i ++ [s0], ?_, by simp; omega, ?_⟩
    · simp only [List.set_cons_succ, List.set_cons_zero, List.getD_cons_zero, List.set_set, List.eraseIdx_cons_succ,
        List.drop_succ_cons]
      congr 1
      rw [List.set_eq_take_append_cons_drop, if_pos hi, List.eraseIdx_eq_take_drop_succ]
      rw [List.drop_append_of_le_length (by simp; omega)]
      simp
    · simp only [List.eraseIdx_cons_succ, List.take_succ_cons, List.prod_append, List.prod_cons, List.prod_nil]
      rw [List.eraseIdx_eq_take_drop_succ, List.take_append_of_le_length (by simp; omega)]
      simp [List.take_take]; ring

theorem chunk_length (E : List α) (n P k : Nat) (hE : E.length = n * P) (hk : k < n) :
    ((E.drop (k * P)).take P).length = P := by
  rw [List.length_take, List.length_drop, hE]
  have : (k + 1) * P ≤ n * P := Nat.mul_le_mul_right _ hk
  rw [Nat.add_mul] at this
  omega

theorem chunk_getElem? (E : List α) (P k x : Nat) (hx : x < P) : ((E.drop (k * P)).take P)[x]? = E[k * P + x]? := by
  rw [List.getElem?_take, if_pos hx, List.getElem?_drop]

/-- `repeat(repeats, Some(axis))`, every axis of every rank -/
theorem repeatAxis_ok (a : Arr α) (zero : α) (repeats : List Nat) (axis : Nat)
    (hwf : a.WF) (hax : axis < a.ndim) (hnz : 0 ∉ a.shape)
    (hr : repeats.length = a.shape.getD axis 0 ∨ repeats.length = 1) :
    ∃ r, a.repeatAxis zero repeats axis = .ok r ∧
      r.shape = a.shape.set axis (bc1 repeats (a.shape.getD axis 0)).sum ∧ r.WF ∧
      ∀ c, inRange r.shape c = true →
        ∃ k, (expandIdx (bc1 repeats (a.shape.getD axis 0)))[c.getD axis 0]? = some k ∧
          r.get? c = a.get? (c.set axis k) := by
  have hax' : axis < a.shape.length := hax
  have hP : 0 < (a.shape.eraseIdx axis).prod := prod_pos_of_not_mem _ (not_mem_eraseIdx _ _ hnz)
  have hn : 0 < a.shape.getD axis 0 := getD_mem_pos _ _ hax hnz
  obtain ⟨arr, pieces, ha1, ha2, ha3, ha4, hsplit, hpieces⟩ := split_axis_elems a zero axis hwf hax hnz
  generalize hR : bc1 repeats (a.shape.getD axis 0) = R
  have hRl : R.length = a.shape.getD axis 0 := by rw [← hR]; exact bc1_length _ _ hr
  have hidx : Res.idx a.shape axis = .ok (a.shape.getD axis 0) := by
    simp [Res.idx, List.getD_eq_getElem?_getD, hax']
  have hbc : (Arr.flat repeats).broadcastTo [a.shape.getD axis 0] = .ok ⟨R, [a.shape.getD axis 0]⟩ := by
    rw [← hR]; exact broadcastTo_1d repeats _ hn hr
  have harrlen : arr.elems.length = a.shape.getD axis 0 * (a.shape.eraseIdx axis).prod := by
    rw [ha3, ha2]; simp
  have hpl : pieces.length = a.shape.getD axis 0 := by
    have := congrArg List.length hpieces; simpa using this
  -- the slabs
  have hpe : ∀ i, i < a.shape.getD axis 0 → (pieces.getD i (Arr.flat [])).elems =
      (arr.elems.drop (i * (a.shape.eraseIdx axis).prod)).take (a.shape.eraseIdx axis).prod := by
    intro i hi
    have := congrArg (fun l => l[i]?) hpieces
    simp only [List.getElem?_map, List.getElem?_range hi, Option.map_some] at this
    rw [List.getElem?_eq_getElem (by omega)] at this
    simp only [Option.map_some, Option.some.injEq] at this
    rw [← this]
    simp [List.getD_eq_getElem?_getD, List.getElem?_eq_getElem (show i < pieces.length by omega)]
  -- the replicated slab list
  have hPL := zip_flatMap_replicate_eq (Arr.flat ([] : List α)) pieces R (by omega)
  have hPLlen : ((pieces.zip R).flatMap (fun p => List.replicate p.2 p.1)).length = R.sum :=
    zip_flatMap_replicate_length _ _ (by omega)
  have hPLe : ∀ x ∈ (pieces.zip R).flatMap (fun p => List.replicate p.2 p.1),
      x.elems.length = (a.shape.eraseIdx axis).prod := by
    intro x hx
    rw [hPL] at hx
    obtain ⟨i, hi, rfl⟩ := List.mem_map.1 hx
    have hin := expandIdx_lt R i hi
    rw [hpe i (by omega)]
    exact chunk_length _ _ _ _ harrlen (by omega)
  have hpartlen : (((pieces.zip R).flatMap (fun p => List.replicate p.2 p.1)).flatMap (·.elems)).length
      = R.sum * (a.shape.eraseIdx axis).prod := by
    rw [length_flatMap_uniform _ _ _ hPLe, hPLlen]
  have hpart : ∀ l x, l < R.sum → x < (a.shape.eraseIdx axis).prod →
      ∃ k, (expandIdx R)[l]? = some k ∧ k < a.shape.getD axis 0 ∧
        (((pieces.zip R).flatMap (fun p => List.replicate p.2 p.1)).flatMap (·.elems))[l * (a.shape.eraseIdx axis).prod + x]?
          = arr.elems[k * (a.shape.eraseIdx axis).prod + x]? := by
    intro l x hl hx
    have hlE : l < (expandIdx R).length := by rw [expandIdx_length]; exact hl
    have hk : (expandIdx R)[l] < a.shape.getD axis 0 := by
      have := expandIdx_lt R _ (List.getElem_mem hlE); omega
    refine ⟨(expandIdx R)[l], List.getElem?_eq_getElem hlE, hk, ?_⟩
    rw [getElem?_flatMap_uniform (fun (y : Arr α) => y.elems) _
      ((pieces.zip R).flatMap (fun p => List.replicate p.2 p.1)) l x (by rw [hPLlen]; exact hl) hPLe hx]
    have : ((pieces.zip R).flatMap (fun p => List.replicate p.2 p.1))[l]'(by omega)
        = pieces.getD (expandIdx R)[l] (Arr.flat []) := by
      have h1 : ((pieces.zip R).flatMap (fun p => List.replicate p.2 p.1))[l]? =
          some (pieces.getD (expandIdx R)[l] (Arr.flat [])) := by
        rw [hPL, List.getElem?_map, List.getElem?_eq_getElem hlE]; rfl
      rw [List.getElem?_eq_getElem (by omega)] at h1
      exact Option.some.inj h1
    rw [this, hpe _ hk, chunk_getElem? _ _ _ _ hx]
  -- the temporary shape
  obtain ⟨P', htmp, hP'l, hP'p⟩ := tmpShape_decomp a.shape axis R.sum hax'
  have hrest : a.shape.eraseIdx axis = (a.shape.eraseIdx axis).take axis ++ (a.shape.eraseIdx axis).drop axis :=
    (List.take_append_drop _ _).symm
  have hrestl : (a.shape.eraseIdx axis).length = a.shape.length - 1 := by simp [List.length_eraseIdx, hax']
  have htakel : ((a.shape.eraseIdx axis).take axis).length = axis := by rw [List.length_take, hrestl]; omega
  have hQprod : (P' ++ (a.shape.eraseIdx axis).drop axis).prod = (a.shape.eraseIdx axis).prod := by
    conv => rhs; rw [hrest]
    rw [List.prod_append, List.prod_append, hP'p]
  have hre1 : (Arr.flat (((pieces.zip R).flatMap (fun p => List.replicate p.2 p.1)).flatMap (·.elems))).reshape
      (R.sum :: (P' ++ (a.shape.eraseIdx axis).drop axis)) =
        .ok ⟨((pieces.zip R).flatMap (fun p => List.replicate p.2 p.1)).flatMap (·.elems),
          R.sum :: (P' ++ (a.shape.eraseIdx axis).drop axis)⟩ :=
    Arr.new_of_prod (by simp only [Arr.flat]; rw [hpartlen, List.prod_cons, hQprod])
  obtain ⟨m, hm1, hm2, hm3, hm4⟩ := moveFront_spec
    (⟨((pieces.zip R).flatMap (fun p => List.replicate p.2 p.1)).flatMap (·.elems),
          R.sum :: (P' ++ (a.shape.eraseIdx axis).drop axis)⟩ : Arr α) zero
    (P' ++ (a.shape.eraseIdx axis).drop axis) R.sum axis
    (by simp only [Arr.WF]; rw [hpartlen, List.prod_cons, hQprod]) rfl (by simp [hP'l])
  have hmlen : m.elems.length = (a.shape.set axis R.sum).prod := by
    rw [hm3, hm2, prod_set_eraseIdx _ _ _ hax',
      perm_prod (List.perm_insertIdx R.sum _ (by simp [hP'l])), List.prod_cons, hQprod, Nat.mul_comm]
  refine ⟨⟨m.elems, a.shape.set axis R.sum⟩, ?_, rfl, hmlen, ?_⟩
  · unfold Arr.repeatAxis
    rw [if_neg (by omega)]
    simp only [hidx, Res.bind_ok, hbc, hsplit, htmp, hre1, hm1]
    exact Arr.new_of_prod hmlen.symm
  · intro c hc
    simp only at hc
    have hcl : c.length = a.shape.length := by have := inRange_length _ _ hc; simpa using this
    have hc' : inRange (a.shape.eraseIdx axis) (c.eraseIdx axis) = true := by
      have := inRange_eraseIdx _ _ axis hc
      rwa [List.eraseIdx_set_eq] at this
    have hl : c.getD axis 0 < R.sum := by
      have := inRange_getD_lt _ _ axis hc (by simpa using hax')
      rwa [getD_set_self _ _ _ hax'] at this
    have hc'l : (c.eraseIdx axis).length = (a.shape.eraseIdx axis).length := inRange_length _ _ hc'
    have hcsplit : c.eraseIdx axis = (c.eraseIdx axis).take axis ++ (c.eraseIdx axis).drop axis :=
      (List.take_append_drop _ _).symm
    have hcpl : ((c.eraseIdx axis).take axis).length = ((a.shape.eraseIdx axis).take axis).length := by
      rw [List.length_take, List.length_take, hc'l]
    have hin2 : inRange ((a.shape.eraseIdx axis).take axis) ((c.eraseIdx axis).take axis) = true ∧
        inRange ((a.shape.eraseIdx axis).drop axis) ((c.eraseIdx axis).drop axis) = true := by
      have := hc'
      rw [hrest, hcsplit, inRange_append' _ _ _ _ hcpl] at this
      simpa using this
    -- the coordinate in the swapped prefix
    have hx : ravel ((a.shape.eraseIdx axis).take axis) ((c.eraseIdx axis).take axis) < P'.prod := by
      rw [hP'p]; exact ravel_lt _ _ hin2.1
    obtain ⟨hu1, hu2⟩ := ravel_unravel P' _ hx
    have hul : (unravel P' (ravel ((a.shape.eraseIdx axis).take axis) ((c.eraseIdx axis).take axis))).length = P'.length :=
      unravel_length _ _
    have hq : inRange (P' ++ (a.shape.eraseIdx axis).drop axis)
        (unravel P' (ravel ((a.shape.eraseIdx axis).take axis) ((c.eraseIdx axis).take axis)) ++ (c.eraseIdx axis).drop axis) = true := by
      rw [inRange_append' _ _ _ _ hul, hu2, hin2.2]; rfl
    have h4 := hm4 _ _ hq hl
    -- positions
    have hpos1 : ravel (a.shape.set axis R.sum) c =
        ravel ((P' ++ (a.shape.eraseIdx axis).drop axis).insertIdx axis R.sum)
          ((unravel P' (ravel ((a.shape.eraseIdx axis).take axis) ((c.eraseIdx axis).take axis)) ++ (c.eraseIdx axis).drop axis).insertIdx axis (c.getD axis 0)) := by
      have e1 : a.shape.set axis R.sum = ((a.shape.eraseIdx axis).take axis ++ (a.shape.eraseIdx axis).drop axis).insertIdx
          axis R.sum := by
        rw [← hrest, insertIdx_eraseIdx_self _ _ _ hax']
      have e2 : c = ((c.eraseIdx axis).take axis ++ (c.eraseIdx axis).drop axis).insertIdx
          axis (c.getD axis 0) := by
        rw [← hcsplit, insertIdx_eraseIdx_getD c axis (by omega)]
      conv => lhs; rw [e1, e2]
      rw [ravel_insert_mid _ _ _ _ _ _ _ htakel.symm hcpl, ravel_insert_mid _ _ _ _ _ _ _ hP'l.symm hul, hu1]
    have hpos2 : ravel (P' ++ (a.shape.eraseIdx axis).drop axis)
        (unravel P' (ravel ((a.shape.eraseIdx axis).take axis) ((c.eraseIdx axis).take axis)) ++ (c.eraseIdx axis).drop axis)
        = ravel (a.shape.eraseIdx axis) (c.eraseIdx axis) := by
      rw [ravel_append' _ _ _ _ hul, hu1]
      conv => rhs; rw [hrest, hcsplit]
      rw [ravel_append' _ _ _ _ hcpl]
    obtain ⟨k, hk1, hk2, hk3⟩ := hpart (c.getD axis 0) (ravel (a.shape.eraseIdx axis) (c.eraseIdx axis)) hl (ravel_lt _ _ hc')
    refine ⟨k, hk1, ?_⟩
    show m.elems[ravel (a.shape.set axis R.sum) c]? = _
    rw [hpos1]
    have h4' : m.elems[ravel m.shape ((unravel P' (ravel ((a.shape.eraseIdx axis).take axis) ((c.eraseIdx axis).take axis)) ++ (c.eraseIdx axis).drop axis).insertIdx axis (c.getD axis 0))]? = _ := h4
    rw [hm2] at h4'
    rw [h4']
    simp only [Arr.get?, ravel]
    rw [hpos2, hQprod, hk3]
    -- back to `a`
    have hin3 : inRange a.shape (c.set axis k) = true := inRange_set_axis _ _ _ _ _ hc hk2
    have := ha4 _ hin3
    rw [List.eraseIdx_set_eq, getD_set_self c axis k (by omega)] at this
    simp only [Arr.get?, ha2, ravel] at this
    exact this
end ArrModel
