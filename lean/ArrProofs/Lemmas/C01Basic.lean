import ArrModel.Reshape
/-!
# Lemmas.C01Basic — the funnels and the inversion tools every `op_wf` lemma of C01 uses

* `Arr.new` / `reshape` answer `ok` only with a well-formed array, `flat` is always well-formed;
* inversion of `>>=`, `Res.sequence`, `Res.mapM'` on the `ok` outcome (member-wise predicates).
-/
namespace ArrModel.C01
open ArrModel

variable {α β : Type}

theorem new_ok_wf {e : List α} {s : List Nat} {r : Arr α} (h : Arr.new e s = .ok r) : r.WF := by
  unfold Arr.new at h
  split at h
  · cases h; simpa [Arr.WF] using (by assumption : s.prod = e.length).symm
  · cases h

theorem new_ok_shape {e : List α} {s : List Nat} {r : Arr α} (h : Arr.new e s = .ok r) : r.shape = s ∧ r.elems = e := by
  unfold Arr.new at h
  split at h
  · cases h; exact ⟨rfl, rfl⟩
  · cases h

theorem new_refuses (e : List α) (s : List Nat) (h : e.length ≠ s.prod) :
    Arr.new e s = .err .ShapeMustMatchValuesLength := by
  unfold Arr.new
  rw [if_neg (fun h' => h h'.symm)]

theorem new_accepts (e : List α) (s : List Nat) (h : e.length = s.prod) : Arr.new e s = .ok ⟨e, s⟩ := by
  unfold Arr.new
  rw [if_pos h.symm]

theorem flat_wf (l : List α) : (Arr.flat l).WF := by simp [Arr.flat, Arr.WF]

theorem reshape_wf {a r : Arr α} {s : List Nat} (h : a.reshape s = .ok r) : r.WF := new_ok_wf h

theorem ravel_wf (a : Arr α) : a.ravel.WF := flat_wf _

theorem mk_wf {e : List α} {s : List Nat} (h : e.length = s.prod) : (Arr.mk e s).WF := h

/-! ### inversion of the `Res` monad on `ok` -/

theorem bind_ok_inv {x : Res α} {f : α → Res β} {r : β} (h : (x >>= f) = .ok r) :
    ∃ a, x = .ok a ∧ f a = .ok r := by
  cases x with
  | ok a => exact ⟨a, rfl, h⟩
  | err e => cases h
  | panic => cases h

theorem map_ok_inv {x : Res α} {f : α → β} {r : β} (h : x.map f = .ok r) : ∃ a, x = .ok a ∧ f a = r := by
  cases x with
  | ok a => simp [Res.map] at h; exact ⟨a, rfl, h⟩
  | err e => cases h
  | panic => cases h

theorem sequence_ok_forall {P : α → Prop} : ∀ {l : List (Res α)} {r : List α}, Res.sequence l = .ok r →
    (∀ x ∈ l, ∀ a, x = .ok a → P a) → ∀ a ∈ r, P a
  | [], r, h, _ => by
    simp [Res.sequence] at h; subst h; intro a ha; cases ha
  | x :: xs, r, h, hp => by
    unfold Res.sequence at h
    obtain ⟨a, hx, h⟩ := bind_ok_inv h
    obtain ⟨as, hxs, h⟩ := bind_ok_inv h
    cases h
    intro b hb
    rcases List.mem_cons.mp hb with rfl | hb
    · exact hp x (List.mem_cons_self) _ hx
    · exact sequence_ok_forall hxs (fun y hy => hp y (List.mem_cons_of_mem _ hy)) b hb

theorem sequence_ok_length : ∀ {l : List (Res α)} {r : List α}, Res.sequence l = .ok r → r.length = l.length
  | [], r, h => by simp [Res.sequence] at h; subst h; rfl
  | x :: xs, r, h => by
    unfold Res.sequence at h
    obtain ⟨a, _, h⟩ := bind_ok_inv h
    obtain ⟨as, hxs, h⟩ := bind_ok_inv h
    cases h
    simp [sequence_ok_length hxs]

theorem mapM'_ok_forall {P : β → Prop} {f : α → Res β} {l : List α} {r : List β} (h : Res.mapM' f l = .ok r)
    (hp : ∀ x ∈ l, ∀ b, f x = .ok b → P b) : ∀ b ∈ r, P b := by
  unfold Res.mapM' at h
  refine sequence_ok_forall h ?_
  intro y hy b hb
  obtain ⟨x, hx, rfl⟩ := List.mem_map.mp hy
  exact hp x hx b hb

theorem mapM'_ok_length {f : α → Res β} {l : List α} {r : List β} (h : Res.mapM' f l = .ok r) :
    r.length = l.length := by
  unfold Res.mapM' at h
  simpa using sequence_ok_length h

set_option hygiene false in
/-- invert `h : … = .ok r` through every `if` / `match` / `>>=` layer (robust against added validation arms) -/
macro "res_inv" : tactic => `(tactic|
  repeat' (first
    | (obtain ⟨_, _, h⟩ := bind_ok_inv h)
    | (dsimp only at h; split at h)
    | split at h))

set_option hygiene false in
/-- close the leaves left by `res_inv`: refusals are impossible, the funnels give well-formedness -/
macro "wf_close" : tactic => `(tactic|
  all_goals first
    | (cases h; done)
    | exact new_ok_wf h
    | exact reshape_wf h
    | (cases h; exact flat_wf _))

/-- `Res.idx` answers with a member -/
theorem idx_ok_mem {l : List α} {i : Nat} {a : α} (h : Res.idx l i = .ok a) : a ∈ l := by
  unfold Res.idx at h
  split at h
  · cases h; exact List.mem_of_getElem? (by assumption)
  · cases h

/-- every member of a list of arrays is well-formed -/
def AllWF (l : List (Arr α)) : Prop := ∀ a ∈ l, a.WF

end ArrModel.C01
