import ArrModel.C19Pipe
import ArrProofs.Lemmas.C19Axis
import ArrProofs.Lemmas.C08AlongAxis
import ArrProofs.Lemmas.AxisInv
/-!
# Lemmas for C19 — the crate's `apply_along_axis` pipeline (shared model `Arr.applyAlongAxis`) lifts
lane-wise inverse pairs (`AlongLifts`), by the central lemma `applyAlongAxis_spec`.
-/
namespace ArrModel.C19
open ArrModel

theorem mem_laneOf (a : Arr Nat) (k : Nat) (c : List Nat) : ∀ b ∈ laneOf a k c, b ∈ a.elems := by
  intro b hb
  simp only [laneOf, List.mem_filterMap] at hb
  obtain ⟨j, _, hj⟩ := hb
  unfold Arr.get? at hj
  exact List.mem_of_getElem? hj

theorem not_mem_zero_set (s : List Nat) (k m : Nat) (hm : 0 < m) (h : 0 ∉ s) : 0 ∉ s.set k m := by
  intro hz
  rcases List.mem_or_eq_of_mem_set hz with h1 | h1
  · exact h h1
  · omega

theorem alongPipe_lifts (a : Arr Nat) (k : Nat) (hwf : a.WF) (hk : k < a.ndim) (hnz : 0 ∉ a.shape) :
    AlongLifts alongPipe a k := by
  intro f g m hm hfg hftot hgtot
  have hk' : k < a.shape.length := hk
  -- first pass
  obtain ⟨u, hu, hushape, huwf, huget⟩ := applyAlongAxis_spec a 0 0 k m f hwf hk hnz hftot
  have hund : u.ndim = a.ndim := by simp [Arr.ndim, hushape]
  have hunz : 0 ∉ u.shape := by rw [hushape]; exact not_mem_zero_set _ _ _ hm hnz
  have hune : u.isEmpty = false := by
    have : 0 < u.shape.prod := prod_pos_of_not_mem _ hunz
    rw [← huwf] at this
    simp only [Arr.isEmpty, beq_eq_false_iff_ne, ne_eq]; omega
  have hugetD : u.shape.getD k 0 = m := by rw [hushape]; exact getD_set_self _ _ _ hk'
  have hushape' : u.shape.set k (a.shape.getD k 0) = a.shape := by
    rw [hushape, List.set_set]; exact set_getD_self _ _
  -- second pass
  obtain ⟨v, hv, hvshape, hvwf, hvget⟩ := applyAlongAxis_spec u 0 0 k (a.shape.getD k 0) g huwf (by rw [hund]; exact hk) hunz
    (by rw [hugetD]; exact hgtot)
  rw [hushape'] at hvshape
  refine ⟨u, hu, hund, hune, ?_⟩
  show u.applyAlongAxis 0 0 k g = .ok a
  rw [hv]
  congr 1
  apply Arr.ext_get v a hvwf hwf hvshape
  intro c hc
  rw [hvshape] at hc
  have hclen : c.length = a.shape.length := inRange_length _ _ hc
  have hck : c.getD k 0 < a.shape.getD k 0 := inRange_getD_lt _ _ _ hc hk'
  -- the lane of `a` through `c`, its image under `f`
  have hc_a : inRange (a.shape.set k (a.shape.getD k 0)) c = true := by rw [set_getD_self]; exact hc
  have hLlen := laneOf_length a k _ c hwf hc_a
  obtain ⟨r, hrlen, hfL, hgr⟩ := hfg (laneOf a k c) hLlen (mem_laneOf a k c)
  -- the lane of `u` through `c` is that image
  have hc_u : inRange (u.shape.set k (a.shape.getD k 0)) c = true := by rw [hushape']; exact hc
  have hUlen := laneOf_length u k _ c huwf hc_u
  have hlane : laneOf u k c = r := by
    apply List.ext_getElem?
    intro j
    by_cases hj : j < m
    · rw [laneOf_getElem? u k _ c huwf hc_u j (by rw [hugetD]; exact hj)]
      have hcj : inRange u.shape (c.set k j) = true := by
        rw [hushape]; exact inRange_set a.shape c k m j hc hj
      obtain ⟨y, hy1, hy2⟩ := huget (c.set k j) hcj
      rw [laneOf_set, hfL] at hy1
      cases hy1
      rw [hy2, getD_set_self _ _ _ (by omega)]
      rfl
    · have h1 : (laneOf u k c)[j]? = none := by
        rw [List.getElem?_eq_none_iff, hUlen, hugetD]; omega
      have h2 : r[j]? = none := by rw [List.getElem?_eq_none_iff, hrlen]; omega
      rw [h1, h2]
  -- read `v` at `c`
  obtain ⟨y, hy1, hy2⟩ := hvget c (by rw [hvshape]; exact hc)
  rw [hlane, hgr] at hy1
  cases hy1
  rw [hy2]
  show (laneOf a k c)[c.getD k 0]? = a.get? c
  rw [laneOf_getElem? a k _ c hwf hc_a _ hck, set_getD_self]

end ArrModel.C19
