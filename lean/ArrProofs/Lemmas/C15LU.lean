import ArrProofs.Lemmas.C15Basic
/-!
# Lemmas for C15, part 2: the elimination invariant `P·A = L·U`
-/
namespace ArrModel.C15
open ArrModel

/-! ### pivot search -/

theorem pivot_fold (u : Mat) (j : Nat) : ∀ (len s p : Nat), j ≤ p → p < s →
    (∀ i, j ≤ i → i < s → |entry u i j| ≤ |entry u p j|) →
    j ≤ (List.range' s len).foldl (fun p i => if absR (entry u i j) > absR (entry u p j) then i else p) p ∧
    (List.range' s len).foldl (fun p i => if absR (entry u i j) > absR (entry u p j) then i else p) p < s + len ∧
    ∀ i, j ≤ i → i < s + len →
      |entry u i j| ≤ |entry u ((List.range' s len).foldl
        (fun p i => if absR (entry u i j) > absR (entry u p j) then i else p) p) j|
  | 0, s, p, hjp, hps, hmax => by simpa using ⟨hjp, hps, hmax⟩
  | len + 1, s, p, hjp, hps, hmax => by
    rw [List.range'_succ, List.foldl_cons]
    have hjs : j ≤ s := by omega
    have key := pivot_fold u j len (s + 1)
      (if absR (entry u s j) > absR (entry u p j) then s else p)
      (by split <;> omega) (by split <;> omega)
      (by
        intro i hji his
        rw [absR_eq_abs, absR_eq_abs]
        by_cases hgt : |entry u s j| > |entry u p j|
        · rw [if_pos hgt]
          rcases Nat.lt_or_ge i s with h | h
          · exact le_trans (hmax i hji h) (le_of_lt hgt)
          · have : i = s := by omega
            subst this; exact le_refl _
        · rw [if_neg hgt]
          rcases Nat.lt_or_ge i s with h | h
          · exact hmax i hji h
          · have : i = s := by omega
            subst this; exact not_lt.1 hgt)
    have e : s + 1 + len = s + (len + 1) := by omega
    rw [e] at key
    exact key

theorem pivotRow_spec (u : Mat) (n j : Nat) (hj : j < n) :
    j ≤ pivotRow u n j ∧ pivotRow u n j < n ∧
    ∀ i, j ≤ i → i < n → |entry u i j| ≤ |entry u (pivotRow u n j) j| := by
  have := pivot_fold u j (n - (j + 1)) (j + 1) j (le_refl _) (by omega)
    (by intro i h1 h2; have : i = j := by omega
        subst this; exact le_refl _)
  have e : j + 1 + (n - (j + 1)) = n := by omega
  rw [e] at this
  exact this

/-! ### the invariant -/

/-- exchange of indices `j` and `p` -/
def sw (j p i : Nat) : Nat := if i = j then p else if i = p then j else i

theorem sw_lt {n j p i : Nat} (hj : j < n) (hp : p < n) (hi : i < n) : sw j p i < n := by
  unfold sw; split
  · exact hp
  · split
    · exact hj
    · exact hi

theorem sw_of_lt {j p i : Nat} (hjp : j ≤ p) (hi : i < j) : sw j p i = i := by
  unfold sw; rw [if_neg (by omega), if_neg (by omega)]

theorem min_sw {j p i : Nat} (hjp : j ≤ p) : min (sw j p i) j = min i j := by
  unfold sw
  split
  · subst_vars; omega
  · split
    · subst_vars; omega
    · rfl

theorem sw_ge {j p i : Nat} (hjp : j ≤ p) (hi : j ≤ i) : j ≤ sw j p i := by
  unfold sw; split
  · exact hjp
  · split
    · exact le_refl _
    · exact hi

structure Inv (n : Nat) (a : Mat) (j : Nat) (s : LU) (cnt : Nat) : Prop where
  plen : s.perm.length = n
  perm : ∃ σ : Equiv.Perm (Fin n), (∀ i : Fin n, s.perm.getD i 0 = (σ i : Nat)) ∧
    Equiv.Perm.sign σ = (-1) ^ cnt
  fact : ∀ i c, i < n → c < n →
    entry a (s.perm.getD i 0) c = sumTo (min i j) (fun t => entry s.l i t * entry s.u t c) + entry s.u i c
  tri : ∀ i c, i < n → c < n → c < min i j → entry s.u i c = 0
  lrows : ∀ i, i < n → (s.l.getD i []).length = n
  urows : ∀ i, i < n → (s.u.getD i []).length = n

theorem inv_init (n : Nat) (a : Mat) (hA : ∀ i, i < n → (a.getD i []).length = n) :
    Inv n a 0 (luInit n a) 0 where
  plen := by simp [luInit]
  perm := ⟨1, fun i => by simp [luInit, List.getD_eq_getElem?_getD], by simp⟩
  fact := fun i c hi _ => by
    have : (luInit n a).perm.getD i 0 = i := by simp [luInit, List.getD_eq_getElem?_getD, hi]
    rw [this]; simp [luInit, sumTo]
  tri := fun i c _ _ h => by omega
  lrows := fun i hi => by simp only [luInit, identity]; exact build_row_length _ _ _ _ hi
  urows := fun i hi => hA i hi

theorem getD_swapList (perm : List Nat) (j p i : Nat) (hj : j < perm.length) (hp : p < perm.length) :
    (swapList perm j p).getD i 0 = perm.getD (sw j p i) 0 := by
  unfold swapList sw
  simp only [List.getD_eq_getElem?_getD, List.getElem?_set]
  by_cases h1 : p = i
  · subst h1
    by_cases h2 : j = p
    · subst h2; simp [hj]
    · simp [hp, Ne.symm h2]
  · by_cases h2 : j = i
    · subst h2; simp [h1, hj]
    · simp [h1, h2, Ne.symm h1, Ne.symm h2]

/-- the exchange keeps the invariant (with one more transposition) -/
theorem inv_swap {n : Nat} {a : Mat} {j p : Nat} {s : LU} {cnt : Nat} (hjp : j < p) (hp : p < n)
    (h : Inv n a j s cnt) :
    Inv n a j { l := swapPrefix n s.l j p, u := swapRows n n s.u p j, perm := swapList s.perm j p } (cnt + 1) := by
  have hj : j < n := by omega
  have hU : ∀ i c, i < n → c < n → entry (swapRows n n s.u p j) i c = entry s.u (sw j p i) c := by
    intro i c hi hc
    rw [swapRows, entry_build_lt _ hi hc]
    unfold sw
    by_cases h1 : i = p
    · subst h1; rw [if_pos rfl, if_neg (by omega), if_pos rfl]
    · by_cases h2 : i = j
      · subst h2; rw [if_neg h1, if_pos rfl, if_pos rfl]
      · rw [if_neg h1, if_neg h2, if_neg h2, if_neg h1]
  have hL : ∀ i t, i < n → t < j → entry (swapPrefix n s.l j p) i t = entry s.l (sw j p i) t := by
    intro i t hi ht
    rw [swapPrefix, entry_build_lt _ hi (by omega), if_pos ht]; rfl
  have hP : ∀ i, (swapList s.perm j p).getD i 0 = s.perm.getD (sw j p i) 0 := fun i =>
    getD_swapList _ _ _ _ (by rw [h.plen]; exact hj) (by rw [h.plen]; exact hp)
  refine ⟨?_, ?_, ?_, ?_, ?_, ?_⟩
  · simp [swapList, h.plen]
  · obtain ⟨σ, hσ, hs⟩ := h.perm
    refine ⟨σ * Equiv.swap ⟨j, hj⟩ ⟨p, hp⟩, fun i => ?_, ?_⟩
    · rw [hP]
      have : sw j p i = ((Equiv.swap (⟨j, hj⟩ : Fin n) ⟨p, hp⟩ i : Fin n) : Nat) := by
        unfold sw
        rw [Equiv.swap_apply_def]
        by_cases h1 : i = ⟨j, hj⟩
        · rw [if_pos h1, if_pos (by rw [h1])]
        · have h1' : (i : Nat) ≠ j := fun e => h1 (Fin.ext e)
          rw [if_neg h1, if_neg h1']
          by_cases h2 : i = ⟨p, hp⟩
          · rw [if_pos h2, if_pos (by rw [h2])]
          · have h2' : (i : Nat) ≠ p := fun e => h2 (Fin.ext e)
            rw [if_neg h2, if_neg h2']
      rw [this, hσ]; rfl
    · rw [Equiv.Perm.sign_mul, hs, Equiv.Perm.sign_swap (by
        intro e; have := congrArg Fin.val e; simp at this; omega), pow_succ]
  · intro i c hi hc
    show entry a ((swapList s.perm j p).getD i 0) c = _
    rw [hP, h.fact _ c (sw_lt hj hp hi) hc, min_sw (le_of_lt hjp), hU i c hi hc]
    congr 1
    apply sumTo_congr
    intro t ht
    have htj : t < j := by omega
    show entry s.l (sw j p i) t * entry s.u t c = entry (swapPrefix n s.l j p) i t * entry (swapRows n n s.u p j) t c
    rw [hL i t hi htj, hU t c (by omega) hc, sw_of_lt (le_of_lt hjp) htj]
  · intro i c hi hc hlt
    show entry (swapRows n n s.u p j) i c = 0
    rw [hU i c hi hc]
    exact h.tri _ c (sw_lt hj hp hi) hc (by rw [min_sw (le_of_lt hjp)]; exact hlt)
  · intro i hi; exact build_row_length _ _ _ _ hi
  · intro i hi; exact build_row_length _ _ _ _ hi

/-- the elimination of column `j` keeps the invariant, provided the pivot dominates its column -/
theorem inv_elim {n : Nat} {a : Mat} {j : Nat} {s : LU} {cnt : Nat} (hj : j < n)
    (h : Inv n a j s cnt)
    (hmax : ∀ i, j < i → i < n → |entry s.u i j| ≤ |entry s.u j j|) :
    Inv n a (j + 1) (eliminate n j s) cnt := by
  have hU : ∀ i c, i < n → c < n → entry (eliminate n j s).u i c =
      if j < i ∧ j ≤ c then entry s.u i c - entry s.u j c * (entry s.u i j / entry s.u j j) else entry s.u i c := by
    intro i c hi hc; rw [eliminate, entry_build_lt _ hi hc]
  have hL : ∀ i c, i < n → c < n → entry (eliminate n j s).l i c =
      if j < i ∧ c = j then entry s.u i j / entry s.u j j else entry s.l i c := by
    intro i c hi hc; rw [eliminate, entry_build_lt _ hi hc]
  refine ⟨h.plen, h.perm, ?_, ?_, ?_, ?_⟩
  · intro i c hi hc
    show entry a (s.perm.getD i 0) c = _
    rw [h.fact i c hi hc]
    rcases Nat.lt_or_ge j i with hji | hij
    · -- a row below the pivot
      have e1 : min i (j + 1) = j + 1 := by omega
      have e2 : min i j = j := by omega
      rw [e1, e2, sumTo, hL i j hi hj, if_pos ⟨hji, rfl⟩, hU j c hj hc, if_neg (by omega), hU i c hi hc]
      have hs : sumTo j (fun t => entry (eliminate n j s).l i t * entry (eliminate n j s).u t c)
          = sumTo j (fun t => entry s.l i t * entry s.u t c) := by
        apply sumTo_congr; intro t ht
        rw [hL i t hi (by omega), if_neg (by omega), hU t c (by omega) hc, if_neg (by omega)]
      rw [hs]
      by_cases hc' : j ≤ c
      · rw [if_pos ⟨hji, hc'⟩]; ring
      · rw [if_neg (by omega), h.tri j c hj hc (by omega)]; ring
    · have e1 : min i (j + 1) = min i j := by omega
      rw [e1, hU i c hi hc, if_neg (by omega)]
      congr 1
      apply sumTo_congr; intro t ht
      rw [hL i t hi (by omega), if_neg (by omega), hU t c (by omega) hc, if_neg (by omega)]
  · intro i c hi hc hlt
    rw [hU i c hi hc]
    rcases Nat.lt_or_ge j i with hji | hij
    · by_cases hc' : j ≤ c
      · have : c = j := by omega
        subst this
        rw [if_pos ⟨hji, le_refl _⟩]
        by_cases hz : entry s.u c c = 0
        · have := hmax i hji hi
          rw [hz, abs_zero] at this
          have : entry s.u i c = 0 := abs_eq_zero.1 (le_antisymm this (abs_nonneg _))
          rw [this, hz]; simp
        · field_simp; ring
      · rw [if_neg (by omega)]; exact h.tri i c hi hc (by omega)
    · rw [if_neg (by omega)]; exact h.tri i c hi hc (by omega)
  · intro i hi; exact build_row_length _ _ _ _ hi
  · intro i hi; exact build_row_length _ _ _ _ hi

/-- one column of the elimination -/
theorem inv_step {n : Nat} {a : Mat} {j : Nat} {s : LU} {cnt : Nat} (hj : j < n) (h : Inv n a j s cnt) :
    Inv n a (j + 1) (luStep n s j) (if pivotRow s.u n j ≠ j then cnt + 1 else cnt) := by
  obtain ⟨hp1, hp2, hp3⟩ := pivotRow_spec s.u n j hj
  unfold luStep
  by_cases hne : pivotRow s.u n j ≠ j
  · simp only [if_pos hne]
    have hjp : j < pivotRow s.u n j := by omega
    refine inv_elim hj (inv_swap hjp hp2 h) ?_
    intro i hji hi
    have e1 : entry (swapRows n n s.u (pivotRow s.u n j) j) j j = entry s.u (pivotRow s.u n j) j := by
      rw [swapRows, entry_build_lt _ hj hj, if_neg (by omega), if_pos rfl]
    have e2 : entry (swapRows n n s.u (pivotRow s.u n j) j) i j =
        entry s.u (if i = pivotRow s.u n j then j else i) j := by
      rw [swapRows, entry_build_lt _ hi hj]
      by_cases hip : i = pivotRow s.u n j
      · rw [if_pos hip, if_pos hip]
      · rw [if_neg hip, if_neg hip, if_neg (by omega)]
    show |entry (swapRows n n s.u (pivotRow s.u n j) j) i j| ≤ |entry (swapRows n n s.u (pivotRow s.u n j) j) j j|
    rw [e1, e2]
    split
    · exact hp3 j (le_refl _) hj
    · exact hp3 i (by omega) hi
  · simp only [if_neg hne]
    have hpj : pivotRow s.u n j = j := not_not.1 hne
    refine inv_elim hj h ?_
    intro i hji hi
    have := hp3 i (by omega) hi
    rwa [hpj] at this

/-! ### the whole elimination -/

/-- the elimination together with the number of exchanges so far -/
def luCnt (n : Nat) (a : Mat) (m : Nat) : LU × Nat :=
  (List.range m).foldl (fun (sc : LU × Nat) j =>
    (luStep n sc.1 j, if pivotRow sc.1.u n j ≠ j then sc.2 + 1 else sc.2)) (luInit n a, 0)

theorem luCnt_succ (n : Nat) (a : Mat) (m : Nat) :
    luCnt n a (m + 1) = (luStep n (luCnt n a m).1 m,
      if pivotRow (luCnt n a m).1.u n m ≠ m then (luCnt n a m).2 + 1 else (luCnt n a m).2) := by
  unfold luCnt; rw [List.range_succ, List.foldl_append]; rfl

theorem luCnt_fst (n : Nat) (a : Mat) (m : Nat) :
    (luCnt n a m).1 = (List.range m).foldl (luStep n) (luInit n a) := by
  induction m with
  | zero => rfl
  | succ m ih => rw [luCnt_succ, List.range_succ, List.foldl_append, ← ih]; rfl

theorem lu_eq (n : Nat) (a : Mat) : lu n a = (luCnt n a n).1 := (luCnt_fst n a n).symm
theorem swapCount_eq (n : Nat) (a : Mat) : swapCount n a = (luCnt n a n).2 := rfl

theorem inv_luCnt (n : Nat) (a : Mat) (hA : ∀ i, i < n → (a.getD i []).length = n) :
    ∀ m, m ≤ n → Inv n a m (luCnt n a m).1 (luCnt n a m).2
  | 0, _ => inv_init n a hA
  | m + 1, hm => by
    rw [luCnt_succ]
    exact inv_step (by omega) (inv_luCnt n a hA m (by omega))

theorem inv_lu (n : Nat) (a : Mat) (hA : ∀ i, i < n → (a.getD i []).length = n) :
    Inv n a n (lu n a) (swapCount n a) := by
  rw [lu_eq, swapCount_eq]; exact inv_luCnt n a hA n (le_refl _)

end ArrModel.C15
