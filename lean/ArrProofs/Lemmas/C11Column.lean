import ArrProofs.Lemmas.C11OneD
/-! C11: `column_stack` lays 1-D inputs as single columns and 2-D inputs side by side -/
namespace ArrModel.C11
open ArrModel Arr
variable {α : Type}

/-- number of columns an input contributes -/
def colsOf (b : Arr α) : Nat := if b.ndim = 1 then 1 else b.shape.getD 1 0

/-- coordinate of row `row`, column `col` of an input (a vector has only the row index) -/
def colCoord (b : Arr α) (row col : Nat) : List Nat := if b.ndim = 1 then [row] else [row, col]

/-- accepted input of `column_stack` with `R` rows -/
def ColOK (R : Nat) (b : Arr α) : Prop := b.WF ∧ (b.shape = [R] ∨ ∃ m, b.shape = [R, m])

/-- the part of result row `row` that comes from input `b` -/
def seg (zero : α) (row : Nat) (b : Arr α) : List α :=
  (List.range (colsOf b)).map (fun col => b.elems.getD (row * colsOf b + col) zero)

theorem zip_map_self {β γ} (f : β → γ) : ∀ l : List β, l.zip (l.map f) = l.map (fun b => (b, f b))
  | [] => rfl
  | x :: xs => by simp [zip_map_self f xs]

theorem mapM'_map {β γ δ} (f : γ → Res δ) (g : β → γ) (l : List β) : Res.mapM' f (l.map g) = Res.mapM' (fun x => f (g x)) l := by
  simp only [Res.mapM', List.map_map]; rfl

theorem colOK_len (R : Nat) (b : Arr α) (h : ColOK R b) : b.elems.length = R * colsOf b := by
  obtain ⟨hw, hs | ⟨m, hs⟩⟩ := h
  · rw [hw, hs]; simp [colsOf, Arr.ndim, hs]
  · rw [hw, hs]; simp [colsOf, Arr.ndim, hs]

theorem colOK_get (R : Nat) (b : Arr α) (h : ColOK R b) (row col : Nat) :
    b.get? (colCoord b row col) = b.elems[row * colsOf b + (if b.ndim = 1 then 0 else col)]? := by
  obtain ⟨_, hs | ⟨m, hs⟩⟩ := h
  · simp [Arr.get?, colCoord, colsOf, Arr.ndim, hs, ravel]
  · simp [Arr.get?, colCoord, colsOf, Arr.ndim, hs, ravel]

theorem seg_length (zero : α) (row : Nat) (b : Arr α) : (seg zero row b).length = colsOf b := by simp [seg]

theorem idx_getD' (l : List α) (i : Nat) (zero : α) (h : i < l.length) : Res.idx l i = .ok (l.getD i zero) := by
  simp [Res.idx, List.getD_eq_getElem?_getD, h]

/-- **`column_stack`**: shape `[rows, total columns]`; input `i` occupies, unchanged, the columns
`[off_i, off_i + cols_i)` of every row -/
theorem columnStack_spec (zero : α) (R : Nat) (a0 : Arr α) (rest : List (Arr α)) (h : ∀ b ∈ a0 :: rest, ColOK R b) :
    ∃ r, columnStack (a0 :: rest) zero = .ok r ∧ r.shape = [R, ((a0 :: rest).map colsOf).sum] ∧ r.WF ∧
      ∀ i (hi : i < (a0 :: rest).length) row col, row < R → col < colsOf ((a0 :: rest)[i]) →
        r.get? [row, (((a0 :: rest).take i).map colsOf).sum + col] = ((a0 :: rest)[i]).get? (colCoord ((a0 :: rest)[i]) row col) := by
  generalize harrs : a0 :: rest = arrs at *
  have hidx : ∀ b ∈ arrs, Res.idx b.shape 0 = .ok R := by
    intro b hb
    obtain ⟨_, hs | ⟨m, hs⟩⟩ := h b hb <;> simp [Res.idx, hs]
  have hnd : ∀ b ∈ arrs, b.ndim = 1 ∨ b.ndim = 2 := by
    intro b hb
    obtain ⟨_, hs | ⟨m, hs⟩⟩ := h b hb <;> simp [Arr.ndim, hs]
  let total := (arrs.map colsOf).sum
  let rowOf : Nat → List α := fun row => (arrs.map (seg zero row)).flatten
  have hrowlen : ∀ row, (rowOf row).length = total := by
    intro row
    simp only [rowOf, total, List.length_flatten, List.map_map]
    congr 1
    apply List.map_congr_left
    intro b _; simp [seg_length]
  have hinner : ∀ row, row < R → ∀ b ∈ arrs,
      Res.mapM' (fun col => Res.idx b.elems (row * colsOf b + col)) (List.range (colsOf b)) = .ok (seg zero row b) := by
    intro row hrow b hb
    apply mapM'_ok
    intro col hcol
    apply idx_getD'
    rw [colOK_len R b (h b hb)]
    exact lin2_lt _ _ _ _ hrow (by simpa using hcol)
  have hmid : ∀ row, row < R →
      (Res.mapM' (fun (p : Arr α × Nat) => Res.mapM' (fun col => Res.idx p.1.elems (row * p.2 + col)) (List.range p.2))
        (arrs.zip (arrs.map colsOf)) >>= fun parts => Res.ok parts.flatten) = .ok (rowOf row) := by
    intro row hrow
    rw [zip_map_self, mapM'_map, mapM'_ok _ (seg zero row) arrs (hinner row hrow), Res.bind_ok]
  have houter : Res.mapM' (fun row =>
        Res.mapM' (fun (p : Arr α × Nat) => Res.mapM' (fun col => Res.idx p.1.elems (row * p.2 + col)) (List.range p.2))
          (arrs.zip (arrs.map colsOf)) >>= fun parts => Res.ok parts.flatten) (List.range R)
      = .ok ((List.range R).map rowOf) :=
    mapM'_ok _ rowOf _ (fun row hrow => hmid row (by simpa using hrow))
  have hflat : ((List.range R).map rowOf).flatten = (List.range R).flatMap rowOf := List.flatMap_def.symm
  have hlen : ((List.range R).flatMap rowOf).length = R * total := by
    rw [length_flatMap_uniform rowOf total _ (fun row _ => hrowlen row)]; simp
  refine ⟨⟨(List.range R).flatMap rowOf, [R, total]⟩, ?_, rfl, ?_, ?_⟩
  · subst harrs
    unfold Arr.columnStack
    dsimp only
    rw [hidx a0 List.mem_cons_self, Res.bind_ok, if_neg]
    · rw [mapM'_ok _ (fun _ => R) _ hidx, Res.bind_ok, if_neg]
      · have hc : ((a0 :: rest).map fun a => if a.ndim = 1 then 1 else a.shape.getD 1 0) = (a0 :: rest).map colsOf := rfl
        rw [hc, houter, Res.bind_ok, hflat]
        simp only [Arr.new]
        rw [if_pos (by rw [hlen]; simp [total])]
      · simp
    · simp only [List.any_eq_true, not_exists, not_and]
      intro b hb
      rcases hnd b hb with e | e <;> simp [e]
  · show ((List.range R).flatMap rowOf).length = [R, total].prod
    rw [hlen]; simp
  · intro i hi row col hrow hcol
    have hb := List.getElem_mem hi
    have hoff : ((arrs.take i).map colsOf).sum + colsOf arrs[i] ≤ total := by
      have := offset_add_size_le (arrs.map colsOf) i (by simpa using hi)
      simpa only [List.map_take, List.getElem_map] using this
    have hj : ((arrs.take i).map colsOf).sum + col < total := by omega
    show ((List.range R).flatMap rowOf)[ravel [R, total] [row, ((arrs.take i).map colsOf).sum + col]]? = _
    have hr : ravel [R, total] [row, ((arrs.take i).map colsOf).sum + col]
        = row * total + (((arrs.take i).map colsOf).sum + col) := by simp [ravel]
    rw [hr, getElem?_flatMap_uniform rowOf total (List.range R) row _ (by simpa using hrow) (fun r _ => hrowlen r) hj,
      List.getElem_range]
    have hro : rowOf row = arrs.flatMap (seg zero row) := List.flatMap_def.symm
    have hlens : (arrs.take i).map colsOf = (arrs.take i).map (fun x => (seg zero row x).length) :=
      List.map_congr_left (fun b _ => (seg_length zero row b).symm)
    rw [hro, hlens, getElem?_flatMap_offset (seg zero row) arrs i hi col (by rw [seg_length]; exact hcol)]
    rw [colOK_get R _ (h _ hb)]
    have hin : row * colsOf arrs[i] + col < (arrs[i]).elems.length := by
      rw [colOK_len R _ (h _ hb)]; exact lin2_lt _ _ _ _ hrow hcol
    simp only [seg, List.getElem?_map, List.getElem?_range hcol, Option.map_some, List.getD_eq_getElem?_getD,
      List.getElem?_eq_getElem hin, Option.getD_some]
    by_cases h1 : (arrs[i]).ndim = 1
    · have : col = 0 := by simp only [colsOf, h1, if_true] at hcol; omega
      simp [h1, this, List.getElem?_eq_getElem (by simpa [this] using hin)]
    · simp [h1]

/-- inputs of rank other than 1 or 2, or with a different number of rows, are refused -/
theorem columnStack_refuses (zero : α) (a0 : Arr α) (rest : List (Arr α)) (h0 : 1 ≤ a0.ndim)
    (h : ∃ b ∈ a0 :: rest, ¬ (b.ndim = 1 ∨ b.ndim = 2)) : columnStack (a0 :: rest) zero = .err .UnsupportedDimension := by
  unfold Arr.columnStack
  dsimp only
  rw [idx_getD a0.shape 0 h0, Res.bind_ok, if_pos]
  obtain ⟨b, hb, hne⟩ := h
  simp only [List.any_eq_true]
  refine ⟨b, hb, ?_⟩
  simp only [not_or] at hne
  simp [hne.1, hne.2]

end ArrModel.C11
