import ArrProofs.Lemmas.C17
/-! helper lemmas for C17: the fuel loops (`splitF`, `splitnF`, `countF`, `replaceLoop`) -/
namespace ArrModel.C17

theorem splitF_ne_nil (sep : Str) : ∀ (f : Nat) (s : Str), splitF sep f s ≠ []
  | 0, s => by simp [splitF]
  | f + 1, s => by
    simp only [splitF]
    split <;> simp

theorem splitnF_ne_nil (sep : Str) : ∀ (f n : Nat) (s : Str), splitnF sep f (n + 1) s ≠ []
  | _, 0, s => by simp [splitnF]
  | 0, n + 1, s => by simp [splitnF]
  | f + 1, n + 1, s => by
    simp only [splitnF]
    split <;> simp

theorem splitnEmptyGo_ne_nil : ∀ (n : Nat) (s : Str), splitnEmptyGo (n + 1) s ≠ []
  | 0, s => by simp [splitnEmptyGo]
  | n + 1, [] => by simp [splitnEmptyGo]
  | n + 1, c :: cs => by simp [splitnEmptyGo]

/-- the join law holds whatever the fuel: running out of fuel returns the rest unsplit -/
theorem join_splitF (sep : Str) : ∀ (f : Nat) (s : Str), joinWith sep (splitF sep f s) = s
  | 0, s => by simp [splitF, joinWith]
  | f + 1, s => by
    simp only [splitF]
    split
    · simp [joinWith]
    · rename_i i hi
      rw [joinWith_cons _ _ _ (splitF_ne_nil _ _ _), join_splitF sep f]
      exact (find_some_decomp s sep i hi).symm

theorem join_splitnF (sep : Str) : ∀ (f n : Nat) (s : Str), joinWith sep (splitnF sep f (n + 1) s) = s
  | _, 0, s => by simp [splitnF, joinWith]
  | 0, n + 1, s => by simp [splitnF, joinWith]
  | f + 1, n + 1, s => by
    simp only [splitnF]
    split
    · simp [joinWith]
    · rename_i i hi
      rw [joinWith_cons _ _ _ (splitnF_ne_nil _ _ _ _), join_splitnF sep f n]
      exact (find_some_decomp s sep i hi).symm

theorem join_singletons : ∀ (s : Str), joinWith [] (s.map (fun c => [c]) ++ [[]]) = s
  | [] => rfl
  | c :: cs => by
    have ih := join_singletons cs
    have hne : cs.map (fun c => [c]) ++ [[]] ≠ [] := by simp
    rw [List.map_cons, List.cons_append, joinWith_cons _ _ _ hne, ih]
    simp

theorem join_splitEmpty (s : Str) : joinWith [] (splitEmpty s) = s := by
  unfold splitEmpty
  rw [joinWith_cons _ _ _ (by simp), join_singletons]
  simp

theorem join_splitnEmptyGo : ∀ (n : Nat) (s : Str), joinWith [] (splitnEmptyGo (n + 1) s) = s
  | 0, s => by simp [splitnEmptyGo, joinWith]
  | n + 1, [] => by simp [splitnEmptyGo, joinWith]
  | n + 1, c :: cs => by
    simp only [splitnEmptyGo]
    rw [joinWith_cons _ _ _ (splitnEmptyGo_ne_nil _ _), join_splitnEmptyGo n cs]
    simp

theorem join_splitnEmpty : ∀ (n : Nat) (s : Str), joinWith [] (splitnEmpty (n + 1) s) = s
  | 0, s => by simp [splitnEmpty, joinWith]
  | n + 1, s => by
    simp only [splitnEmpty]
    rw [joinWith_cons _ _ _ (splitnEmptyGo_ne_nil _ _), join_splitnEmptyGo]
    simp

/-! ### piece counts -/

theorem splitnF_length_le (sep : Str) : ∀ (f n : Nat) (s : Str), (splitnF sep f n s).length ≤ n
  | _, 0, _ => by simp [splitnF]
  | _, 1, _ => by simp [splitnF]
  | 0, n + 2, _ => by simp [splitnF]
  | f + 1, n + 2, s => by
    simp only [splitnF]
    split
    · simp
    · rename_i i _
      have := splitnF_length_le sep f (n + 1) (s.drop (i + sep.length))
      simp only [List.length_cons]; omega

theorem splitnEmptyGo_length_le : ∀ (n : Nat) (s : Str), (splitnEmptyGo n s).length ≤ n
  | 0, _ => by simp [splitnEmptyGo]
  | 1, _ => by simp [splitnEmptyGo]
  | n + 2, [] => by simp [splitnEmptyGo]
  | n + 2, c :: cs => by
    have := splitnEmptyGo_length_le (n + 1) cs
    simp only [splitnEmptyGo, List.length_cons]; omega

theorem splitnEmpty_length_le : ∀ (n : Nat) (s : Str), (splitnEmpty n s).length ≤ n
  | 0, _ => by simp [splitnEmpty]
  | 1, _ => by simp [splitnEmpty]
  | n + 2, s => by
    have := splitnEmptyGo_length_le (n + 1) s
    simp only [splitnEmpty, List.length_cons]; omega

theorem splitF_length (pat : Str) : ∀ (f : Nat) (s : Str), (splitF pat f s).length = countF pat f s + 1
  | 0, s => by simp [splitF, countF]
  | f + 1, s => by
    simp only [splitF, countF]
    split
    · simp
    · simp only [List.length_cons, splitF_length pat f]; omega

/-! ### fuel: `length + 1` is never exhausted (the result no longer depends on the fuel) -/

theorem drop_match_length_lt (s sep : Str) (i : Nat) (hsep : sep ≠ []) (h : find s sep = some i) :
    (s.drop (i + sep.length)).length < s.length := by
  have := find_some_le s sep i h
  have : 0 < sep.length := List.length_pos_iff.2 hsep
  simp only [List.length_drop]; omega

theorem splitF_fuel (sep : Str) (hsep : sep ≠ []) : ∀ (f g : Nat) (s : Str), s.length < f → s.length < g →
    splitF sep f s = splitF sep g s
  | 0, _, s, hf, _ => by omega
  | _ + 1, 0, s, _, hg => by omega
  | f + 1, g + 1, s, hf, hg => by
    simp only [splitF]
    split
    · rfl
    · rename_i i hi
      have := drop_match_length_lt s sep i hsep hi
      rw [splitF_fuel sep hsep f g _ (by omega) (by omega)]

theorem splitnF_fuel (sep : Str) (hsep : sep ≠ []) : ∀ (f g n : Nat) (s : Str), s.length < f → s.length < g →
    splitnF sep f n s = splitnF sep g n s
  | _, _, 0, s, _, _ => by simp [splitnF]
  | _, _, 1, s, _, _ => by simp [splitnF]
  | 0, _, _ + 2, s, hf, _ => by omega
  | _ + 1, 0, _ + 2, s, _, hg => by omega
  | f + 1, g + 1, n + 2, s, hf, hg => by
    simp only [splitnF]
    split
    · rfl
    · rename_i i hi
      have := drop_match_length_lt s sep i hsep hi
      rw [splitnF_fuel sep hsep f g (n + 1) _ (by omega) (by omega)]

theorem countF_fuel (pat : Str) (hp : pat ≠ []) : ∀ (f g : Nat) (s : Str), s.length < f → s.length < g →
    countF pat f s = countF pat g s
  | 0, _, s, hf, _ => by omega
  | _ + 1, 0, s, _, hg => by omega
  | f + 1, g + 1, s, hf, hg => by
    simp only [countF]
    split
    · rfl
    · rename_i i hi
      have := drop_match_length_lt s pat i hp hi
      rw [countF_fuel pat hp f g _ (by omega) (by omega)]

/-- the text before the first occurrence does not contain the pattern -/
theorem find_take_none (s sep : Str) (hsep : sep ≠ []) (i : Nat) (h : find s sep = some i) :
    find (s.take i) sep = none := by
  cases hf : find (s.take i) sep with
  | none => rfl
  | some j =>
    exfalso
    have hle := find_some_le _ _ _ hf
    have hpos : 0 < sep.length := List.length_pos_iff.2 hsep
    have hlt : j < i := by simp only [List.length_take] at hle; omega
    have hp := List.isPrefixOf_iff_prefix.1 (find_some_prefix _ _ _ hf)
    rw [List.drop_take] at hp
    have hp2 : sep <+: s.drop j := hp.trans (List.take_prefix _ _)
    have := find_some_first s sep i h j hlt
    rw [List.isPrefixOf_iff_prefix.2 hp2] at this
    cases this

theorem splitF_pieces_sep_free (sep : Str) (hsep : sep ≠ []) : ∀ (f : Nat) (s : Str), s.length < f →
    ∀ p ∈ splitF sep f s, find p sep = none
  | 0, s, hf => by omega
  | f + 1, s, hf => by
    intro p hp
    simp only [splitF] at hp
    split at hp
    · rename_i hn
      simp only [List.mem_singleton] at hp
      subst hp; exact hn
    · rename_i i hi
      rcases List.mem_cons.1 hp with rfl | hp'
      · exact find_take_none s sep hsep i hi
      · have := drop_match_length_lt s sep i hsep hi
        exact splitF_pieces_sep_free sep hsep f _ (by omega) p hp'

end ArrModel.C17
