import ArrProofs.Lemmas.C18Quoted2
/-!
# Lemmas for C18 — `array_char!` (repaired) on the Debug text of a written literal
-/
namespace ArrModel.C18

/-! ### `array_char!` on a written literal -/

theorem debugVec_eq' {s : List Nat} {es : List Str} (hpos : ∀ d ∈ s, 1 ≤ d) (hl : es.length = s.prod) :
    debugVec s es = rep '[' (s.length + 1) ++ mid sepL s es ++ rep ']' (s.length + 1) := by
  unfold debugVec
  rw [nest_eq_mid (1 :: s) (by intro d hd; simp at hd; rcases hd with rfl | hd; exact Nat.le_refl _; exact hpos d hd),
    mid_one_cons _ _ _ hl]
  rfl

/-- `"], [" → "],["` over a nest whose leaves never start a match -/
theorem replace_br_mid' :
    ∀ (s : List Nat) (es : List Str), (∀ d ∈ s, 1 ≤ d) → es.length = s.prod → (∀ e ∈ es, NoStart brSepL e) → ∀ Z,
      replace brSepL brSepT (mid sepL s es ++ Z) = mid sepT s es ++ replace brSepL brSepT Z := by
  intro s
  induction s with
  | nil =>
    intro es _ hl hleaf Z
    match es, hl with
    | [e], _ => exact replace_noStart Z (hleaf e (by simp))
  | cons n s ih =>
    intro es hpos hl hleaf Z
    have hl' : es.length = n * s.prod := by simpa using hl
    simp only [mid]
    exact joinWith_hom (replace brSepL brSepT) (mid sepL s) (mid sepT s) _ _ _
      (fun c hc Z => by
        have := mem_chunks hl' hc
        exact ih c (fun d hd => hpos d (by simp [hd])) this.1 (fun e he => hleaf e (this.2 e he)) Z)
      (fun _ _ W => replace_br_sep s.length _) Z

theorem mem_sepT {c : Char} {j : Nat} (h : c ∈ sepT j) : c = ']' ∨ c = ',' ∨ c = '[' ∨ c = ' ' := by
  cases j with
  | zero => simp [sepT] at h; rcases h with h | h <;> simp [h]
  | succ j =>
    simp only [sepT, List.mem_append, List.mem_cons, rep, List.mem_replicate] at h
    rcases h with ⟨_, h⟩ | h | ⟨_, h⟩ <;> simp [h]

theorem mem_sepL {c : Char} {j : Nat} (h : c ∈ sepL j) : c = ']' ∨ c = ',' ∨ c = '[' ∨ c = ' ' := by
  cases j with
  | zero => simp [sepL] at h; rcases h with h | h <;> simp [h]
  | succ j =>
    simp only [sepL, List.mem_append, List.mem_cons, rep, List.mem_replicate] at h
    rcases h with ⟨_, h⟩ | h | h | ⟨_, h⟩ <;> simp [h]

/-- characters of a bracketed nest: brackets, commas, blanks, or characters of the leaves -/
theorem mem_text {sep : Nat → Str} (hsep : ∀ c j, c ∈ sep j → c = ']' ∨ c = ',' ∨ c = '[' ∨ c = ' ')
    {s : List Nat} {es : List Str} {a b : Nat} {c : Char}
    (h : c ∈ rep '[' a ++ mid sep s es ++ rep ']' b) : (c = ']' ∨ c = ',' ∨ c = '[' ∨ c = ' ') ∨ ∃ e ∈ es, c ∈ e := by
  simp only [List.mem_append, rep, List.mem_replicate] at h
  rcases h with (⟨_, h⟩ | h) | ⟨_, h⟩
  · simp [h]
  · rcases mem_mid h with ⟨j, hj⟩ | h
    · exact Or.inl (hsep c j hj)
    · exact Or.inr h
  · simp [h]

theorem mid_head' (sep : Nat → Str) : ∀ (s : List Nat) (es : List Str), (∀ d ∈ s, 1 ≤ d) → es.length = s.prod →
    ∃ e r, es.head? = some e ∧ mid sep s es = e ++ r := by
  intro s
  induction s with
  | nil =>
    intro es _ hl
    match es, hl with
    | [e], _ => exact ⟨e, [], rfl, by simp [mid]⟩
  | cons n s ih =>
    intro es hpos hl
    have hn : 1 ≤ n := hpos n (by simp)
    obtain ⟨n, rfl⟩ : ∃ m, n = m + 1 := ⟨n - 1, by omega⟩
    have hl' : es.length = (n + 1) * s.prod := by simpa using hl
    have hp : 1 ≤ s.prod := prod_pos (fun d hd => hpos d (by simp [hd]))
    have hlt : (es.take s.prod).length = s.prod := by
      rw [List.length_take, hl', Nat.succ_mul]; omega
    obtain ⟨e, r, he, hr⟩ := ih (es.take s.prod) (fun d hd => hpos d (by simp [hd])) hlt
    have he' : es.head? = some e := by
      cases es with
      | nil => exfalso; rw [List.length_nil] at hl'; have := Nat.mul_pos (show 0 < n + 1 by omega) hp; omega
      | cons x xs =>
        obtain ⟨k, hk⟩ : ∃ k, s.prod = k + 1 := ⟨s.prod - 1, by omega⟩
        rw [hk] at he; simpa using he
    simp only [mid, chunks, List.map_cons]
    cases hrest : (chunks s.prod n (es.drop s.prod)).map (mid sep s) with
    | nil => exact ⟨e, r, he', by simp [hr]⟩
    | cons y ys => exact ⟨e, r ++ sep s.length ++ joinWith (sep s.length) (y :: ys), he', by simp [joinWith_cons_cons, hr]⟩

theorem parseInput_eq {X T : Str} (hq : '"' ∉ X) (hT : replace brSepL brSepT X = T) (hb : '\\' ∉ T) :
    parseInput X = T := by
  have hne : ∀ (c : Char) (t : Str), replace ['\\', c] t T = T :=
    fun c t => replace_of_not_mem (c := '\\') (by simp) hb
  unfold parseInput
  rw [replace_of_not_mem (p := quoteSepL) (c := '"') (by decide) hq, hT, hne, hne, hne, hne, hne]

/-- the blanked leaves are an ordinary literal -/
theorem valid_blank (s : List Nat) (cs : List Str) (hpos : ∀ d ∈ s, 1 ≤ d) (hl : cs.length = s.prod) :
    Valid s (cs.map (fun _ => ['_'])) :=
  ⟨hpos, by simpa using hl, by
    intro e he
    obtain ⟨_, _, rfl⟩ := List.mem_map.1 he
    exact ⟨by simp, by decide, by decide⟩⟩

/-- the quote loop on the tight text of a nest of quoted pieces: the contents in reading order, every piece blanked -/
theorem cutQuoted_text (q : Char) (isString : Bool) (hq : q ≠ '_') (hs : isString = true → q = '"')
    (hq1 : q ≠ '[') (hq2 : q ≠ ']') (sep : Nat → Str) (hsep : ∀ j, q ∉ sep j)
    (s : List Nat) (cs : List Str) (hpos : ∀ d ∈ s, 1 ≤ d) (hl : cs.length = s.prod) (hc : ∀ c ∈ cs, q ∉ c) (a b : Nat) :
    cutQuoted q isString ((rep '[' a ++ mid sep s (cs.map (wrapQ q)) ++ rep ']' b).length + 1)
        (rep '[' a ++ mid sep s (cs.map (wrapQ q)) ++ rep ']' b) []
      = .ok (cs, rep '[' a ++ mid sep s (cs.map (fun _ => ['_'])) ++ rep ']' b) := by
  have ho : q ∉ rep '[' a := not_mem_rep hq1 a
  have hcl : q ∉ rep ']' b := not_mem_rep hq2 b
  have hscan : scanQ q none (rep '[' a ++ mid sep s (cs.map (wrapQ q)) ++ rep ']' b)
      = (cs, rep '[' a ++ mid sep s (cs.map (fun _ => ['_'])) ++ rep ']' b) := by
    have h3 : scanQ q none (rep ']' b) = ([], rep ']' b) := by
      have := scanQ_gap (q := q) [] hcl
      simpa [scanQ] using this
    rw [List.append_assoc, scanQ_gap _ ho, scanQ_mid q sep hsep s cs hpos hl hc, h3]
    simp [List.append_assoc]
  have hcount : (rep '[' a ++ mid sep s (cs.map (wrapQ q)) ++ rep ']' b).count q = 2 * cs.length := by
    rw [List.count_append, List.count_append, List.count_eq_zero_of_not_mem ho, List.count_eq_zero_of_not_mem hcl,
      count_mid q sep hsep s cs hpos hl hc]
    simp
  have := cutQuoted_scan q isString hq hs ((rep '[' a ++ mid sep s (cs.map (wrapQ q)) ++ rep ']' b).length + 1) []
    (rep '[' a ++ mid sep s (cs.map (wrapQ q)) ++ rep ']' b) [] (by simp) (by rw [hcount]; omega)
    (by have := List.count_le_length (a := q) (l := rep '[' a ++ mid sep s (cs.map (wrapQ q)) ++ rep ']' b); omega)
  rw [hscan] at this
  simpa using this


theorem noStart_br_charLeaf (c : Char) : NoStart brSepL ['\'', c, '\''] := by
  rw [noStart_cons]
  refine ⟨fun Z => by simp [brSepL, List.isPrefixOf_cons_cons], ?_⟩
  rw [noStart_cons]
  refine ⟨fun Z => by simp [brSepL, List.isPrefixOf_cons_cons], ?_⟩
  rw [noStart_cons]
  exact ⟨fun Z => by simp [brSepL, List.isPrefixOf_cons_cons], NoStart.nil _⟩

/-- **`array!(char, <nested brackets>)`** (repaired `array_char!`): the written shape and the characters in reading
order, for every rank; the characters may be brackets, commas, blanks — anything Debug prints unescaped. -/
theorem arrayChar_literal (s : List Nat) (cs : List Char) (hs : s ≠ []) (hpos : ∀ d ∈ s, 1 ≤ d)
    (hl : cs.length = s.prod) (hc : ∀ c ∈ cs, c ≠ '\'' ∧ c ≠ '\\' ∧ c ≠ '"') :
    arrayChar (debugVec s (cs.map (fun c => ['\'', c, '\'']))) = .ok (s, cs.map (fun c => [c])) := by
  have hleaves : cs.map (fun c => ['\'', c, '\'']) = (cs.map (fun c => [c])).map (wrapQ '\'') := by
    simp [List.map_map, wrapQ, Function.comp]
  have hl2 : (cs.map (fun c => [c])).length = s.prod := by simpa using hl
  have hl3 : ((cs.map (fun c => [c])).map (wrapQ '\'')).length = s.prod := by simpa using hl
  have hr : 1 ≤ s.length := by cases s with | nil => exact absurd rfl hs | cons _ _ => simp
  rw [hleaves, debugVec_eq' hpos hl3]
  -- characters of the leaves
  have hleafchar : ∀ e ∈ (cs.map (fun c => [c])).map (wrapQ '\''), ∀ x ∈ e, x = '\'' ∨ x ∈ cs := by
    intro e he x hx
    simp only [List.map_map, List.mem_map, Function.comp] at he
    obtain ⟨c, hcc, rfl⟩ := he
    simp [wrapQ] at hx
    rcases hx with rfl | rfl | rfl <;> simp [hcc]
  have hnot : ∀ (x : Char) (sep : Nat → Str), (∀ c j, c ∈ sep j → c = ']' ∨ c = ',' ∨ c = '[' ∨ c = ' ') →
      x ≠ ']' → x ≠ ',' → x ≠ '[' → x ≠ ' ' → x ≠ '\'' → x ∉ cs → ∀ a b,
      x ∉ rep '[' a ++ mid sep s ((cs.map (fun c => [c])).map (wrapQ '\'')) ++ rep ']' b := by
    intro x sep hsep h1 h2 h3 h4 h5 h6 a b hm
    rcases mem_text hsep hm with (h | h | h | h) | ⟨e, he, hxe⟩
    · exact h1 h
    · exact h2 h
    · exact h3 h
    · exact h4 h
    · rcases hleafchar e he x hxe with h | h
      · exact h5 h
      · exact h6 h
  have hq : '"' ∉ rep '[' (s.length + 1) ++ mid sepL s ((cs.map (fun c => [c])).map (wrapQ '\'')) ++ rep ']' (s.length + 1) :=
    hnot '"' sepL (fun c j => mem_sepL) (by decide) (by decide) (by decide) (by decide) (by decide)
      (fun h => (hc _ h).2.2 rfl) _ _
  have hopen : NoStart brSepL (rep '[' (s.length + 1)) :=
    noStart_of_head_not_mem (c := ']') (p := [',', ' ', '[']) (not_mem_rep (c := '[') (by decide) _)
  have hT : replace brSepL brSepT (rep '[' (s.length + 1) ++ mid sepL s ((cs.map (fun c => [c])).map (wrapQ '\'')) ++ rep ']' (s.length + 1))
      = rep '[' (s.length + 1) ++ mid sepT s ((cs.map (fun c => [c])).map (wrapQ '\'')) ++ rep ']' (s.length + 1) := by
    rw [List.append_assoc, replace_noStart _ hopen, replace_br_mid' s _ hpos hl3 (by
        intro e he
        simp only [List.map_map, List.mem_map, Function.comp] at he
        obtain ⟨c, _, rfl⟩ := he
        exact noStart_br_charLeaf c),
      replace_of_not_mem (c := ',') (by decide) (not_mem_rep (by decide) _), List.append_assoc]
  have hb : '\\' ∉ rep '[' (s.length + 1) ++ mid sepT s ((cs.map (fun c => [c])).map (wrapQ '\'')) ++ rep ']' (s.length + 1) :=
    hnot '\\' sepT (fun c j => mem_sepT) (by decide) (by decide) (by decide) (by decide) (by decide)
      (fun h => (hc _ h).2.1 rfl) _ _
  have hPI := parseInput_eq hq hT hb
  have hnd : ndimOf 1 (rep '[' (s.length + 1) ++ mid sepT s ((cs.map (fun c => [c])).map (wrapQ '\'')) ++ rep ']' (s.length + 1))
      = .ok s.length := by
    obtain ⟨e, r, he, hmid⟩ := mid_head' sepT s _ hpos hl3
    have he' : ∃ c, e = wrapQ '\'' [c] := by
      cases cs with
      | nil => simp at he
      | cons c _ => simp at he; exact ⟨c, he.symm⟩
    obtain ⟨c, rfl⟩ := he'
    unfold ndimOf
    rw [hmid, show wrapQ '\'' [c] ++ r = '\'' :: (c :: '\'' :: r) by simp [wrapQ], List.append_assoc,
      List.cons_append, findP_rep (c := '\'') (by decide)]
    have : ¬ (s.length + 1 < 1) := by omega
    have h0 : s.length + 1 - 1 = s.length := by omega
    have h1 : ¬ (s.length = 0) := by omega
    simp [this, h0, h1]
  have hcut := cutQuoted_text '\'' false (by decide) (by simp) (by decide) (by decide) sepT
    (fun j hm => by rcases mem_sepT hm with h | h | h | h <;> exact absurd h (by decide))
    s (cs.map (fun c => [c])) hpos hl2 (by
      intro c hcm
      obtain ⟨x, hx, rfl⟩ := List.mem_map.1 hcm
      simpa using Ne.symm (hc x hx).1) (s.length + 1) (s.length + 1)
  have hshape : parseShape s.length _ = .ok s :=
    parseShapeLoop_mid (valid_blank s (cs.map (fun c => [c])) hpos hl2) (s.length + 1) (s.length + 1) (by omega)
  unfold arrayChar arrayQuoted
  simp only [hPI, hnd, hcut, hshape]

end ArrModel.C18
