import ArrProofs.Lemmas.C01Core
import ArrModel.Reorder
import ArrModel.C08
import ArrModel.C10
/-!
# Lemmas.C01Struct — well-formedness of the results of the structural operations
(`Manip`, `Broadcast`, `Split`, the `C08` axis wrappers, `Reorder`, the array-level operations of `C10`).
-/
namespace ArrModel.C01
open ArrModel

variable {α β γ : Type}

/-! ### Manip -/

theorem resize_wf (a : Arr α) (shape : List Nat) (_ha : a.WF) {r : Arr α} (h : a.resize shape = .ok r) : r.WF := by
  unfold Arr.resize at h
  exact reshape_wf h

theorem cycleTakeArr_wf (a : Arr α) (n : Nat) (_ha : a.WF) : (a.cycleTakeArr n).WF := flat_wf _

theorem atleast1d_wf (a : Arr α) (ha : a.WF) {r : Arr α} (h : a.atleast1d = .ok r) : r.WF := by
  unfold Arr.atleast1d at h
  cases h; exact ha

theorem atleast2d_wf (a : Arr α) (ha : a.WF) {r : Arr α} (h : a.atleast2d = .ok r) : r.WF := by
  unfold Arr.atleast2d at h
  repeat' split at h
  all_goals first
    | (cases h; exact ha)
    | exact reshape_wf h
    | (obtain ⟨_, _, h⟩ := bind_ok_inv h; exact reshape_wf h)

theorem atleast3d_wf (a : Arr α) (ha : a.WF) {r : Arr α} (h : a.atleast3d = .ok r) : r.WF := by
  unfold Arr.atleast3d at h
  repeat' split at h
  all_goals first
    | (cases h; exact ha)
    | exact reshape_wf h
    | (obtain ⟨_, _, h⟩ := bind_ok_inv h; exact reshape_wf h)
    | (obtain ⟨_, _, h⟩ := bind_ok_inv h; obtain ⟨_, _, h⟩ := bind_ok_inv h; exact reshape_wf h)

theorem atleast_wf (a : Arr α) (n : Nat) (ha : a.WF) {r : Arr α} (h : a.atleast n = .ok r) : r.WF := by
  unfold Arr.atleast at h
  split at h
  · cases h; exact ha
  · exact atleast1d_wf a ha h
  · exact atleast2d_wf a ha h
  · exact atleast3d_wf a ha h
  · cases h

theorem expandDims_wf (a : Arr α) (axes : List Int) (_ha : a.WF) {r : Arr α} (h : a.expandDims axes = .ok r) : r.WF := by
  unfold Arr.expandDims at h
  dsimp only at h
  split at h
  · cases h
  · obtain ⟨_, _, h⟩ := bind_ok_inv h
    exact reshape_wf h

theorem squeeze_wf (a : Arr α) (axes : Option (List Int)) (_ha : a.WF) {r : Arr α} (h : a.squeeze axes = .ok r) : r.WF := by
  unfold Arr.squeeze at h
  res_inv
  wf_close

theorem create_wf (elems : List α) (shape : List Nat) (ndmin : Option Nat) {r : Arr α}
    (h : Arr.create elems shape ndmin = .ok r) : r.WF := by
  unfold Arr.create at h
  dsimp only at h
  split at h
  · obtain ⟨_, _, h⟩ := bind_ok_inv h
    exact reshape_wf h
  · exact new_ok_wf h

/-! ### Broadcast -/

theorem broadcast_wf (a : Arr α) (b : Arr β) (_ha : a.WF) (_hb : b.WF) {r : Arr (α × β)}
    (h : a.broadcast b = .ok r) : r.WF := by
  unfold Arr.broadcast at h
  split at h
  · cases h
  · split at h
    · exact reshape_wf h
    · obtain ⟨_, _, h⟩ := bind_ok_inv h
      obtain ⟨_, _, h⟩ := bind_ok_inv h
      obtain ⟨_, _, h⟩ := bind_ok_inv h
      exact new_ok_wf h

theorem broadcastArrays_wf (arrs : List (Arr α)) (_harrs : AllWF arrs) {r : List (Arr α)}
    (h : Arr.broadcastArrays arrs = .ok r) : AllWF r := by
  unfold Arr.broadcastArrays at h
  obtain ⟨cs, _, h⟩ := bind_ok_inv h
  refine sequence_ok_forall h ?_
  intro x hx b hb
  obtain ⟨y, _, rfl⟩ := List.mem_map.mp hx
  exact broadcastTo_wf _ _ hb

theorem zip_wf (a : Arr α) (b : Arr β) (_ha : a.WF) (_hb : b.WF) {r : Arr (α × β)}
    (h : a.zip b = .ok r) : r.WF := by
  unfold Arr.zip at h
  obtain ⟨_, _, h⟩ := bind_ok_inv h
  exact reshape_wf h

theorem broadcastH2_wf (a : Arr α) (zero : α) (b : Arr β) (_ha : a.WF) (_hb : b.WF) {r : Arr α × Arr β}
    (h : a.broadcastH2 zero b = .ok r) : r.1.WF ∧ r.2.WF := by
  unfold Arr.broadcastH2 at h
  obtain ⟨_, _, h⟩ := bind_ok_inv h
  obtain ⟨_, _, h⟩ := bind_ok_inv h
  obtain ⟨arr, harr, h⟩ := bind_ok_inv h
  obtain ⟨other, hother, h⟩ := bind_ok_inv h
  cases h
  exact ⟨reshape_wf harr, broadcastTo_wf _ _ hother⟩

theorem broadcastH3_wf (a : Arr α) (zero : α) (b : Arr β) (c : Arr γ) (ha : a.WF) (_hb : b.WF) (_hc : c.WF)
    {r : Arr α × Arr β × Arr γ} (h : a.broadcastH3 zero b c = .ok r) : r.1.WF ∧ r.2.1.WF ∧ r.2.2.WF := by
  unfold Arr.broadcastH3 at h
  obtain ⟨t1, ht1, h⟩ := bind_ok_inv h
  obtain ⟨t2, ht2, h⟩ := bind_ok_inv h
  obtain ⟨bs, hbs, h⟩ := bind_ok_inv h
  obtain ⟨arr, harr, h⟩ := bind_ok_inv h
  obtain ⟨o1, ho1, h⟩ := bind_ok_inv h
  obtain ⟨o2, ho2, h⟩ := bind_ok_inv h
  cases h
  have hall : AllWF [a, t1, t2] := by
    intro x hx
    simp only [List.mem_cons, List.not_mem_nil, or_false] at hx
    rcases hx with rfl | rfl | rfl
    · exact ha
    · exact broadcastTo_wf _ _ ht1
    · exact broadcastTo_wf _ _ ht2
  exact ⟨broadcastArrays_wf _ hall hbs _ (idx_ok_mem harr), broadcastTo_wf _ _ ho1, broadcastTo_wf _ _ ho2⟩

/-! ### Split -/

theorem allWF_singleton {a : Arr α} (ha : a.WF) : AllWF [a] := by
  intro x hx
  rcases List.mem_singleton.mp hx with rfl
  exact ha

theorem arraySplit_wf (a : Arr α) (zero : α) (parts : Nat) (axis : Option Nat) (ha : a.WF) {r : List (Arr α)}
    (h : a.arraySplit zero parts axis = .ok r) : AllWF r := by
  unfold Arr.arraySplit at h
  repeat' split at h
  all_goals first
    | (cases h; done)
    | (cases h; exact allWF_singleton ha)
    | skip
  all_goals
    dsimp only at h
    obtain ⟨_, _, h⟩ := bind_ok_inv h
    obtain ⟨arr, _, h⟩ := bind_ok_inv h
    refine mapM'_ok_forall h ?_
    intro w _ b hb
    first
      | (cases hb; exact flat_wf _)
      | (obtain ⟨_, _, hb⟩ := bind_ok_inv hb; exact moveaxis_wf _ _ _ _ hb)

theorem split_wf (a : Arr α) (zero : α) (parts : Nat) (axis : Option Nat) (ha : a.WF) {r : List (Arr α)}
    (h : a.split zero parts axis = .ok r) : AllWF r := by
  unfold Arr.split at h
  repeat' split at h
  all_goals first
    | (cases h; done)
    | (cases h; exact allWF_singleton ha)
    | skip
  all_goals
    obtain ⟨_, _, h⟩ := bind_ok_inv h
    split at h
    · exact arraySplit_wf _ _ _ _ ha h
    · cases h

theorem splitAxis_wf (a : Arr α) (zero : α) (axis : Nat) (ha : a.WF) {r : List (Arr α)}
    (h : a.splitAxis zero axis = .ok r) : AllWF r := by
  unfold Arr.splitAxis at h
  split at h
  · cases h
  · split at h
    · cases h
      exact allWF_singleton ha
    · obtain ⟨_, _, h⟩ := bind_ok_inv h
      exact arraySplit_wf _ _ _ _ ha h

/-! ### C08 -/

theorem reduceAxis_wf (a : Arr α) (zero : α) (zb : β) (axis : Option Int) (f1 : Arr α → Res (Arr β)) (ha : a.WF)
    (hf : ∀ x y, x.WF → f1 x = .ok y → y.WF) {r : Arr β} (h : a.reduceAxis zero zb axis f1 = .ok r) : r.WF := by
  unfold Arr.reduceAxis at h
  split at h
  · dsimp only at h
    obtain ⟨_, _, h⟩ := bind_ok_inv h
    split at h
    · obtain ⟨_, _, h⟩ := bind_ok_inv h
      exact reshape_wf h
    · exact reshape_wf h
  · exact hf _ _ ha h

theorem countAxis_wf (a : Arr α) (zero : α) (zb : β) (axis : Option Int) (keepdims : Option Bool)
    (f1 : Arr α → Option Bool → Res (Arr β)) (ha : a.WF)
    (hf : ∀ x k y, x.WF → f1 x k = .ok y → y.WF) {r : Arr β}
    (h : a.countAxis zero zb axis keepdims f1 = .ok r) : r.WF := by
  unfold Arr.countAxis at h
  split at h
  · dsimp only at h
    obtain ⟨r', hr', h⟩ := bind_ok_inv h
    split at h
    · cases h
      exact applyAlongAxis_wf _ _ _ _ _ hr'
    · obtain ⟨_, _, h⟩ := bind_ok_inv h
      exact reshape_wf h
  · exact hf _ _ _ ha h

theorem scanAxis_wf (a : Arr α) (zero : α) (zb : β) (axis : Option Int) (f1 : Arr α → Res (Arr β)) (_ha : a.WF)
    (hf : ∀ x y, x.WF → f1 x = .ok y → y.WF) {r : Arr β} (h : a.scanAxis zero zb axis f1 = .ok r) : r.WF := by
  unfold Arr.scanAxis at h
  split at h
  · exact applyAlongAxis_wf _ _ _ _ _ h
  · exact hf _ _ (ravel_wf a) h

theorem single_wf (x : β) : (Arr.single x).WF := by simp [Arr.single, Arr.WF]

theorem keepdimsTail_wf (nd : Nat) (keepdims : Option Bool) (r : Arr β) (hr : r.WF) {r' : Arr β}
    (h : Arr.keepdimsTail nd keepdims r = .ok r') : r'.WF := by
  unfold Arr.keepdimsTail at h
  split at h
  · exact atleast_wf _ _ hr h
  · cases h; exact hr

/-! ### Reorder -/

theorem flip_wf (a : Arr α) (axes : Option (List Int)) (_ha : a.WF) {r : Arr α} (h : a.flip axes = .ok r) : r.WF := by
  unfold Arr.flip at h
  split at h
  · exact new_ok_wf h
  · dsimp only at h
    split at h
    · cases h
    · obtain ⟨_, _, h⟩ := bind_ok_inv h
      exact reshape_wf h

theorem flipud_wf (a : Arr α) (ha : a.WF) {r : Arr α} (h : a.flipud = .ok r) : r.WF := by
  unfold Arr.flipud at h
  split at h
  · cases h
  · exact flip_wf _ _ ha h

theorem fliplr_wf (a : Arr α) (ha : a.WF) {r : Arr α} (h : a.fliplr = .ok r) : r.WF := by
  unfold Arr.fliplr at h
  split at h
  · cases h
  · exact flip_wf _ _ ha h

theorem roll_wf (a : Arr α) (shift : List Int) (axes : Option (List Int)) (_ha : a.WF) {r : Arr α}
    (h : a.roll shift axes = .ok r) : r.WF := by
  unfold Arr.roll at h
  dsimp only at h
  obtain ⟨_, _, h⟩ := bind_ok_inv h
  repeat' split at h
  all_goals first
    | (cases h; done)
    | (cases h; rfl)
    | exact reshape_wf h
    | (obtain ⟨_, _, h⟩ := bind_ok_inv h; exact new_ok_wf h)

theorem rot90_wf (a : Arr α) (zero : α) (k : Nat) (axes : List Int) (ha : a.WF) {r : Arr α}
    (h : a.rot90 zero k axes = .ok r) : r.WF := by
  unfold Arr.rot90 at h
  split at h
  · cases h
  · split at h
    · dsimp only at h
      split at h
      · cases h
      · split at h
        · cases h; exact ha
        · split at h
          · obtain ⟨r1, hr1, h⟩ := bind_ok_inv h
            exact flip_wf _ _ (flip_wf _ _ ha hr1) h
          · split at h
            · obtain ⟨_, _, h⟩ := bind_ok_inv h
              exact transpose_wf _ _ _ h
            · obtain ⟨r1, hr1, h⟩ := bind_ok_inv h
              exact flip_wf _ _ (transpose_wf _ _ _ hr1) h
    · cases h

/-! ### C10 (array-level operations of `ArrModel.Sort`) -/

open ArrModel.Sort in
theorem sortLane_wf (c : Cmp α) (k : SortKind) (a : Arr α) (_ha : a.WF) {r : Arr α}
    (h : sortLane c k a = .ok r) : r.WF := by
  unfold sortLane at h
  obtain ⟨_, _, rfl⟩ := map_ok_inv h
  exact flat_wf _

open ArrModel.Sort in
theorem argsortLane_wf (c : Cmp α) (k : SortKind) (a : Arr α) (_ha : a.WF) {r : Arr Nat}
    (h : argsortLane c k a = .ok r) : r.WF := by
  unfold argsortLane at h
  obtain ⟨_, _, rfl⟩ := map_ok_inv h
  exact flat_wf _

open ArrModel.Sort in
theorem uniqueLane_wf (c : Cmp α) (a : Arr α) (_ha : a.WF) {r : Arr α}
    (h : uniqueLane c a = .ok r) : r.WF := by
  unfold uniqueLane at h
  cases h
  exact flat_wf _

open ArrModel.Sort in
theorem argExtremeLane_wf (c : Cmp α) (isMax : Bool) (a : Arr α) (keepdims : Option Bool) (_ha : a.WF) {r : Arr Nat}
    (h : argExtremeLane c isMax a keepdims = .ok r) : r.WF := by
  unfold argExtremeLane at h
  split at h
  · cases h
  · obtain ⟨_, _, h⟩ := bind_ok_inv h
    exact keepdimsTail_wf _ _ _ (single_wf _) h

open ArrModel.Sort in
theorem sort_wf (c : Cmp α) (zero : α) (a : Arr α) (axis : Option Int) (kind : KindArg) (ha : a.WF) {r : Arr α}
    (h : sort c zero a axis kind = .ok r) : r.WF := by
  unfold sort at h
  obtain ⟨_, _, h⟩ := bind_ok_inv h
  split at h
  · exact applyAlongAxis_wf _ _ _ _ _ h
  · exact sortLane_wf _ _ _ ha h

open ArrModel.Sort in
theorem argsort_wf (c : Cmp α) (zero : α) (a : Arr α) (axis : Option Int) (kind : KindArg) (ha : a.WF) {r : Arr Nat}
    (h : argsort c zero a axis kind = .ok r) : r.WF := by
  unfold argsort at h
  obtain ⟨_, _, h⟩ := bind_ok_inv h
  split at h
  · exact applyAlongAxis_wf _ _ _ _ _ h
  · exact argsortLane_wf _ _ _ ha h

open ArrModel.Sort in
theorem unique_wf (c : Cmp α) (zero : α) (a : Arr α) (axis : Option Int) (ha : a.WF) {r : Arr α}
    (h : unique c zero a axis = .ok r) : r.WF := by
  unfold unique at h
  split at h
  · exact applyAlongAxis_wf _ _ _ _ _ h
  · exact uniqueLane_wf _ _ ha h

open ArrModel.Sort in
theorem argExtreme_wf (c : Cmp α) (zero : α) (isMax : Bool) (a : Arr α) (axis : Option Int) (keepdims : Option Bool)
    (ha : a.WF) {r : Arr Nat} (h : argExtreme c zero isMax a axis keepdims = .ok r) : r.WF := by
  unfold argExtreme at h
  exact countAxis_wf _ _ _ _ _ _ ha (fun x k y hx hy => argExtremeLane_wf _ _ x k hx hy) h

end ArrModel.C01
