import ArrProofs.Lemmas.C09
import ArrProofs.Lemmas.Index
import ArrProofs.Lemmas.C08Empty
/-!
# Lemmas for the `…_total` family of C09 that no owning property exports in an importable form

* coordinates (`index_at`, `at`, `index_to_coord`): the five facts C09 used to take from `Props/C02.lean`, re-derived from
  `Lemmas/Index.lean` (the lemma files of C02 / C03 / C12 declare helper names that also exist in the lemma files of
  C08 / C10 / C11 / C13, so `Props/C09.lean` cannot import both groups; it imports the second one).
* `flip` / `roll` / `rot90` / `broadcast_to` / `broadcast`: "never a panic" proved here directly, arm by arm, for EVERY
  array (flip, rot90: even without well-formedness) and every argument.
-/
namespace ArrModel.C09
open ArrModel

variable {α β : Type}

/-! ## `Res` plumbing -/

theorem ok_ne_panic (v : β) : (Res.ok v : Res β) ≠ .panic := fun h => nomatch h
theorem err_ne_panic (e : Err) : (Res.err e : Res β) ≠ .panic := fun h => nomatch h

theorem mapM'_ne_panic (f : α → Res β) (l : List α) (hf : ∀ x, f x ≠ .panic) : Res.mapM' f l ≠ .panic := by
  rcases mapM'_no_panic f l hf with ⟨rs, h, _⟩ | ⟨e, h⟩ <;> rw [h] <;> exact fun h => nomatch h

theorem sequence_ne_panic (l : List (Res β)) (h : ∀ x ∈ l, x ≠ .panic) : Res.sequence l ≠ .panic := by
  rcases sequence_no_panic l h with ⟨rs, h, _⟩ | ⟨e, h⟩ <;> rw [h] <;> exact fun h => nomatch h

theorem idx_ne_panic (l : List β) (i : Nat) (h : i < l.length) : Res.idx l i ≠ .panic := by
  unfold Res.idx; rw [List.getElem?_eq_getElem h]; exact fun h => nomatch h

theorem foldl_bind_ne_panic {ι γ : Type} (step : ι → γ → Res γ) (l : List ι) (hs : ∀ i ∈ l, ∀ es, step i es ≠ .panic) :
    ∀ acc : Res γ, acc ≠ .panic → l.foldl (fun acc x => acc >>= fun es => step x es) acc ≠ .panic := by
  induction l with
  | nil => intro acc h; exact h
  | cons x xs ih =>
    intro acc h
    simp only [List.foldl_cons]
    exact ih (fun i hi => hs i (List.mem_cons_of_mem _ hi)) _
      (bind_ne_panic_of _ _ h (fun es _ => hs x List.mem_cons_self es))

/-! ## coordinates -/

theorem indexAt_ok_iff' (a : Arr α) (c : List Nat) (i : Nat) :
    a.indexAt c = .ok i ↔ (inRange a.shape c = true ∧ i = ravel a.shape c) := by
  unfold Arr.indexAt
  by_cases hl : a.shape.length = c.length
  · rw [if_neg (by simpa using hl), anyOut_eq _ _ hl]
    cases hr : inRange a.shape c
    · simp
    · simp [indexAtFold_eq _ _ hl, eq_comm]
  · rw [if_pos hl]
    constructor
    · intro h; cases h
    · rintro ⟨h, _⟩; exact absurd (inRange_length _ _ h).symm hl

theorem indexAt_err_iff' (a : Arr α) (c : List Nat) :
    a.indexAt c = .err .ParameterError ↔ inRange a.shape c = false := by
  unfold Arr.indexAt
  by_cases hl : a.shape.length = c.length
  · rw [if_neg (by simpa using hl), anyOut_eq _ _ hl]
    cases hr : inRange a.shape c <;> simp
  · rw [if_pos hl]
    have : inRange a.shape c ≠ true := fun h => hl (inRange_length _ _ h).symm
    simpa using this

theorem indexAt_ne_panic (a : Arr α) (c : List Nat) : a.indexAt c ≠ .panic := by
  unfold Arr.indexAt; split
  · simp
  · split <;> simp

theorem atc_err' (a : Arr α) (c : List Nat) (h : inRange a.shape c = false) : a.atc c = .err .ParameterError := by
  unfold Arr.atc; rw [(indexAt_err_iff' a c).2 h]

theorem atc_ok' (a : Arr α) (hwf : a.WF) (c : List Nat) (h : inRange a.shape c = true) :
    ∃ x, a.atc c = .ok x ∧ a.elems[ravel a.shape c]? = some x := by
  have hlt : ravel a.shape c < a.elems.length := by rw [hwf]; exact ravel_lt _ _ h
  refine ⟨a.elems[ravel a.shape c], ?_, by simp [hlt]⟩
  unfold Arr.atc
  rw [(indexAt_ok_iff' a c _).2 ⟨h, rfl⟩]
  simp [Res.idx, hlt]

theorem atc_ne_panic (a : Arr α) (hwf : a.WF) (c : List Nat) : a.atc c ≠ .panic := by
  cases h : inRange a.shape c with
  | true => obtain ⟨x, hx, _⟩ := atc_ok' a hwf c h; rw [hx]; simp
  | false => rw [atc_err' a c h]; simp

theorem indexToCoord_err' (a : Arr α) (i : Nat) (h : a.len ≤ i) : a.indexToCoord i = .err .ParameterError := by
  unfold Arr.indexToCoord; rw [if_pos h]

/-! ## `broadcast_to`, `broadcast` -/

theorem broadcastTo_ne_panic (a : Arr α) (hwf : a.WF) (t : List Nat) : a.broadcastTo t ≠ .panic := by
  unfold Arr.broadcastTo
  split
  · simp
  · split
    · exact new_ne_panic _ _
    · split
      · simp
      · simp only []
        split
        · simp
        · refine bind_ne_panic_of _ _ (sequence_ne_panic _ ?_) (fun _ _ => new_ne_panic _ _)
          intro x hx
          obtain ⟨i, _, rfl⟩ := List.mem_map.1 hx
          exact atc_ne_panic a hwf _

theorem bdim_ne_panic (d1 d2 : Nat) : bdim d1 d2 ≠ .panic := by
  unfold bdim; split
  · simp
  · split <;> simp

theorem broadcastShape_ne_panic (s t : List Nat) : broadcastShape s t ≠ .panic := by
  unfold broadcastShape
  simp only []
  have h : Res.sequence (((padRev s (max s.length t.length)).zip (padRev t (max s.length t.length))).map
      (fun p => bdim p.1 p.2)) ≠ .panic := by
    apply sequence_ne_panic
    intro x hx
    obtain ⟨p, _, rfl⟩ := List.mem_map.1 hx
    exact bdim_ne_panic _ _
  revert h
  generalize Res.sequence _ = r
  intro h
  cases r with
  | ok v => simp [Res.map]
  | err e => simp [Res.map]
  | panic => exact absurd rfl h

theorem broadcastTo_ok_wf (a r : Arr α) (_hwf : a.WF) (t : List Nat) (h : a.broadcastTo t = .ok r) : r.WF := by
  unfold Arr.broadcastTo at h
  split at h
  · cases h
  · split at h
    · unfold Arr.reshape Arr.new at h
      split at h
      · cases h; rename_i hp; exact hp.symm
      · cases h
    · split at h
      · cases h
      · simp only [] at h
        split at h
        · cases h
        · cases hs : Res.sequence ((List.range t.prod).map (fun idx => a.atc (bsrc a.shape (unravelFold t idx)))) with
          | ok es =>
            rw [hs, Res.bind_ok] at h
            unfold Arr.new at h
            split at h
            · cases h; rename_i hp; exact hp.symm
            · cases h
          | err e => rw [hs] at h; cases h
          | panic => rw [hs] at h; cases h

theorem broadcast_ne_panic (a : Arr α) (b : Arr β) (ha : a.WF) (hb : b.WF) : a.broadcast b ≠ .panic := by
  unfold Arr.broadcast
  split
  · simp
  · split
    · exact new_ne_panic _ _
    · exact bind_ne_panic_of _ _ (broadcastShape_ne_panic _ _) (fun fs _ =>
        bind_ne_panic_of _ _ (broadcastTo_ne_panic a ha fs) (fun _ _ =>
          bind_ne_panic_of _ _ (broadcastTo_ne_panic b hb fs) (fun _ _ => new_ne_panic _ _)))

theorem zip_ne_panic (a : Arr α) (b : Arr β) (hb : b.WF) : a.zip b ≠ .panic := by
  unfold Arr.zip
  exact bind_ne_panic_of _ _ (broadcastTo_ne_panic b hb _) (fun _ _ => new_ne_panic _ _)

/-! ## `flip`, `roll`, `rot90` -/

theorem splitFlat_ne_panic (p : Nat) (l : List β) : splitFlat p l ≠ .panic := by
  unfold splitFlat
  split
  · simp
  · split
    · simp
    · split <;> simp

theorem flipAxis_ne_panic : ∀ (ax : Nat) (shape : List Nat) (es : List α), ax < shape.length →
    flipAxis ax shape es ≠ .panic
  | 0, shape, es, h => by
    unfold flipAxis
    exact bind_ne_panic_of _ _ (idx_ne_panic _ _ h) (fun _ _ =>
      bind_ne_panic_of _ _ (splitFlat_ne_panic _ _) (fun _ _ => ok_ne_panic _))
  | ax + 1, shape, es, h => by
    unfold flipAxis
    split
    · exact bind_ne_panic_of _ _ (splitFlat_ne_panic _ _) (fun _ _ => ok_ne_panic _)
    · refine bind_ne_panic_of _ _ (idx_ne_panic _ _ (by omega)) (fun _ _ =>
        bind_ne_panic_of _ _ (splitFlat_ne_panic _ _) (fun _ _ =>
          bind_ne_panic_of _ _ (mapM'_ne_panic _ _ ?_) (fun _ _ => ok_ne_panic _)))
      intro b
      split
      · exact flipAxis_ne_panic ax (shape.drop 1) b (by rw [List.length_drop]; omega)
      · exact err_ne_panic _

theorem rollAxis_ne_panic : ∀ (ax : Nat) (shape : List Nat) (sh : Int) (es : List α), ax < shape.length →
    rollAxis ax shape sh es ≠ .panic
  | 0, shape, sh, es, h => by
    unfold rollAxis
    exact bind_ne_panic_of _ _ (idx_ne_panic _ _ h) (fun _ _ =>
      bind_ne_panic_of _ _ (splitFlat_ne_panic _ _) (fun _ _ => ok_ne_panic _))
  | ax + 1, shape, sh, es, h => by
    unfold rollAxis
    split
    · exact bind_ne_panic_of _ _ (splitFlat_ne_panic _ _) (fun _ _ => ok_ne_panic _)
    · refine bind_ne_panic_of _ _ (idx_ne_panic _ _ (by omega)) (fun _ _ =>
        bind_ne_panic_of _ _ (splitFlat_ne_panic _ _) (fun _ _ =>
          bind_ne_panic_of _ _ (mapM'_ne_panic _ _ ?_) (fun _ _ => ok_ne_panic _)))
      intro b
      split
      · exact rollAxis_ne_panic ax (shape.drop 1) sh b (by rw [List.length_drop]; omega)
      · exact err_ne_panic _

/-- **flip never panics** — every array (well-formed or not), every axes argument -/
theorem flip_ne_panic (a : Arr α) (axes : Option (List Int)) : a.flip axes ≠ .panic := by
  unfold Arr.flip
  cases axes with
  | none => exact new_ne_panic _ _
  | some axes =>
    simp only []
    split
    · simp
    · rename_i hany
      have hv : ∀ x ∈ axes.map (normalizeAxis a.ndim), x < a.shape.length := by
        intro x hx
        have : ¬ (x ≥ a.ndim) := by
          intro hge; apply hany
          simp only [List.any_eq_true, decide_eq_true_eq]; exact ⟨x, hx, hge⟩
        unfold Arr.ndim at this; omega
      refine bind_ne_panic_of _ _ ?_ (fun _ _ => new_ne_panic _ _)
      exact foldl_bind_ne_panic (fun x es => flipAxis x a.shape es) _
        (fun i hi es => flipAxis_ne_panic i a.shape es (hv i hi)) _ (ok_ne_panic _)

/-- **rot90 never panics** — every array, every rotation count, every axes list -/
theorem rot90_ne_panic (a : Arr α) (zero : α) (k : Nat) (axes : List Int) : a.rot90 zero k axes ≠ .panic := by
  unfold Arr.rot90
  split
  · simp
  · split
    · simp only []
      split
      · simp
      · split
        · simp
        · split
          · exact bind_ne_panic_of _ _ (flip_ne_panic _ _) (fun _ _ => flip_ne_panic _ _)
          · split
            · exact bind_ne_panic_of _ _ (flip_ne_panic _ _) (fun _ _ => transpose_ne_panic _ _ _)
            · exact bind_ne_panic_of _ _ (transpose_ne_panic _ _ _) (fun _ _ => flip_ne_panic _ _)
    · simp

theorem flat_wf (l : List β) : (Arr.flat l).WF := by simp [Arr.flat, Arr.WF]

/-- **roll never panics** — every array, every shift list and every axes argument (equally long or not, empty or not,
inside the rank or not, repeated or not) -/
theorem roll_ne_panic (a : Arr α) (shift : List Int) (axes : Option (List Int)) : a.roll shift axes ≠ .panic := by
  cases axes with
  | none =>
    unfold Arr.roll
    simp only [Option.isNone_none, if_true, Option.getD_none]
    refine bind_ne_panic_of _ _ (broadcast_ne_panic _ _ (flat_wf _) (flat_wf _)) (fun bc _ => ?_)
    split
    · simp
    · split
      · simp
      · have h1 : a.ravel.ndim = 1 := rfl
        simp only [h1]
        exact new_ne_panic _ _
  | some axs =>
    unfold Arr.roll
    simp only [Option.isNone_some, Bool.false_eq_true, if_false, Option.getD_some]
    refine bind_ne_panic_of _ _ (broadcast_ne_panic _ _ (flat_wf _) (flat_wf _)) (fun bc _ => ?_)
    split
    · simp
    · split
      · simp
      · rename_i hany
        split
        · simp
        · exact new_ne_panic _ _
        · refine bind_ne_panic_of _ _ ?_ (fun _ _ => new_ne_panic _ _)
          refine foldl_bind_ne_panic (fun (p : Nat × Int) es => rollAxis p.1 a.shape p.2 es) _ ?_ _ (ok_ne_panic _)
          intro p hp es
          apply rollAxis_ne_panic
          have : ¬ (p.1 ≥ a.ndim) := by
            intro hge; apply hany
            simp only [List.any_eq_true, decide_eq_true_eq]; exact ⟨p, hp, hge⟩
          unfold Arr.ndim at this; omega

/-! ## the reduce / count / scan wrappers of `apply_along_axis` (the statement of `C08.axis_ops_never_panic`, proved here from
`Lemmas/C08Empty.lean` so that `Props/C09.lean` does not depend on `Props/C08.lean`) -/

theorem axis_wrappers_ne_panic (a : Arr α) (zero : α) (zb : β) (axis : Option Int) (kd : Option Bool)
    (f1 : Arr α → Res (Arr β)) (g1 : Arr α → Option Bool → Res (Arr β)) (hwf : a.WF)
    (hf : ∀ x, f1 x ≠ .panic) (hg : ∀ x k, g1 x k ≠ .panic) :
    a.reduceAxis zero zb axis f1 ≠ .panic ∧ a.countAxis zero zb axis kd g1 ≠ .panic ∧ a.scanAxis zero zb axis f1 ≠ .panic := by
  cases axis with
  | none => exact ⟨hf a, hg a kd, hf _⟩
  | some ax =>
    by_cases hax : normalizeAxis a.ndim ax < a.ndim
    swap
    · obtain ⟨h1, h2, h3⟩ := wrappers_err a zero zb ax (by omega) f1 kd g1
      rw [h1, h2, h3]; exact ⟨(fun h => nomatch h), (fun h => nomatch h), (fun h => nomatch h)⟩
    have hax' : normalizeAxis a.ndim ax < a.shape.length := hax
    refine ⟨?_, ?_, ?_⟩
    · rcases applyAlongAxis_total a zero zb (normalizeAxis a.ndim ax) f1 hwf hf with ⟨r, h, _, hnd⟩ | ⟨e, h⟩
      · simp only [Arr.reduceAxis, h, Res.bind_ok]
        split
        · have : ¬ normalizeAxis a.ndim ax ≥ r.shape.length := by simp only [Arr.ndim] at hnd; omega
          simp only [Arr.vecRemove, this, if_false, Res.bind_ok, Arr.reshape]; exact new_ne_panic _ _
        · exact new_ne_panic _ _
      · simp only [Arr.reduceAxis, h, Res.bind_err]; exact fun h => nomatch h
    · rcases applyAlongAxis_total a zero zb (normalizeAxis a.ndim ax) (fun arr => g1 arr kd) hwf (fun x => hg x kd) with ⟨r, h, _, hnd⟩ | ⟨e, h⟩
      · simp only [Arr.countAxis, h, Res.bind_ok]
        split
        · exact fun h => nomatch h
        · have : ¬ normalizeAxis a.ndim ax ≥ a.shape.length := by omega
          simp only [Arr.vecRemove, this, if_false, Res.bind_ok, Arr.reshape]; exact new_ne_panic _ _
      · simp only [Arr.countAxis, h, Res.bind_err]; exact fun h => nomatch h
    · exact applyAlongAxis_never_panics a zero zb _ f1 hwf hf

end ArrModel.C09
