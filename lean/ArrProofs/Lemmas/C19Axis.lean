import ArrProofs.Lemmas.C19
/-!
# Lemmas for C19 — the reference lane semantics `alongRef` (gather / scatter are inverse)
-/
namespace ArrModel.C19
open ArrModel

/-! ### index arithmetic for `(o, j, i) ↦ (o·m + j)·I + i` -/

theorem idx_decomp (o j i m I : Nat) (hj : j < m) (hi : i < I) :
    ((o * m + j) * I + i) % I = i ∧ ((o * m + j) * I + i) / I = o * m + j ∧
    ((o * m + j) * I + i) / I % m = j ∧ ((o * m + j) * I + i) / (m * I) = o := by
  have hI : 0 < I := by omega
  have hm : 0 < m := by omega
  have h1 : ((o * m + j) * I + i) % I = i := by
    rw [Nat.add_comm, Nat.add_mul_mod_self_right]; exact Nat.mod_eq_of_lt hi
  have h2 : ((o * m + j) * I + i) / I = o * m + j := by
    rw [Nat.add_comm, Nat.add_mul_div_right _ _ hI, Nat.div_eq_of_lt hi]; omega
  have h3 : (o * m + j) % m = j := by
    rw [Nat.add_comm, Nat.add_mul_mod_self_right]; exact Nat.mod_eq_of_lt hj
  have h4 : (o * m + j) / m = o := by
    rw [Nat.add_comm, Nat.add_mul_div_right _ _ hm, Nat.div_eq_of_lt hj]; omega
  refine ⟨h1, h2, by rw [h2, h3], ?_⟩
  rw [Nat.mul_comm m I, ← Nat.div_div_eq_div_mul, h2, h4]

theorem idx_lt (o j i O m I : Nat) (ho : o < O) (hj : j < m) (hi : i < I) :
    (o * m + j) * I + i < O * m * I := by
  have h1 : o * m + j + 1 ≤ O * m := by
    have : (o + 1) * m ≤ O * m := Nat.mul_le_mul_right m ho
    rw [Nat.add_mul] at this; omega
  have h2 : (o * m + j + 1) * I ≤ O * m * I := Nat.mul_le_mul_right I h1
  rw [Nat.add_mul] at h2; omega

theorem idx_recomp (p m I : Nat) :
    (p / (m * I) * m + p / I % m) * I + p % I = p := by
  have h1 : p / (m * I) = p / I / m := by rw [Nat.mul_comm m I, Nat.div_div_eq_div_mul]
  rw [h1]
  have h2 : p / I / m * m + p / I % m = p / I := by rw [Nat.mul_comm]; exact Nat.div_add_mod (p / I) m
  rw [h2, Nat.mul_comm]; exact Nat.div_add_mod p I

/-! ### lists -/

theorem getD_map_range {β} (f : Nat → β) (n p : Nat) (d : β) (h : p < n) :
    ((List.range n).map f).getD p d = f p := by
  simp [List.getD, h]

theorem getD_lt {α} (l : List α) (i : Nat) (d : α) (h : i < l.length) : l.getD i d = l[i] := by
  simp [List.getD, h]

theorem laneAt_length (xs : List Nat) (n I o i : Nat) : (laneAt xs n I o i).length = n := by simp [laneAt]
theorem lanes_length (xs : List Nat) (O n I : Nat) : (lanes xs O n I).length = O * I := by simp [lanes]
theorem unlanes_length (ls : List (List Nat)) (O m I : Nat) : (unlanes ls O m I).length = O * m * I := by
  simp [unlanes]

theorem mem_lanes_length (xs : List Nat) (O n I : Nat) : ∀ l ∈ lanes xs O n I, l.length = n := by
  intro l hl
  simp only [lanes, List.mem_map] at hl
  obtain ⟨q, _, rfl⟩ := hl
  exact laneAt_length _ _ _ _ _

/-- the elements of a lane are elements of the array (for in-range lanes) -/
theorem mem_lanes_mem (xs : List Nat) (O n I : Nat) (hI : 0 < I) (hlen : xs.length = O * n * I) :
    ∀ l ∈ lanes xs O n I, ∀ b ∈ l, b ∈ xs := by
  intro l hl b hb
  simp only [lanes, List.mem_map, List.mem_range] at hl
  obtain ⟨q, hq, rfl⟩ := hl
  simp only [laneAt, List.mem_map, List.mem_range] at hb
  obtain ⟨j, hj, rfl⟩ := hb
  have ho : q / I < O := (Nat.div_lt_iff_lt_mul hI).2 hq
  have hlt : (q / I * n + j) * I + q % I < xs.length := by
    rw [hlen]; exact idx_lt _ _ _ O n I ho hj (Nat.mod_lt _ hI)
  rw [getD_lt _ _ _ hlt]
  exact List.getElem_mem hlt

/-- **gather ∘ scatter = id** -/
theorem lanes_unlanes (ls : List (List Nat)) (O m I : Nat) (hI : 0 < I) (hlen : ls.length = O * I)
    (hm : ∀ l ∈ ls, l.length = m) : lanes (unlanes ls O m I) O m I = ls := by
  apply List.ext_getElem (by simp [lanes, hlen])
  intro q h1 h2
  have hq : q < O * I := by simpa [lanes] using h1
  simp only [lanes, List.getElem_map, List.getElem_range]
  apply List.ext_getElem (by simp [laneAt, hm _ (List.getElem_mem h2)])
  intro j hj1 hj2
  have hj : j < m := by simpa [laneAt] using hj1
  simp only [laneAt, List.getElem_map, List.getElem_range]
  have ho : q / I < O := (Nat.div_lt_iff_lt_mul hI).2 hq
  have hi : q % I < I := Nat.mod_lt _ hI
  obtain ⟨d1, _, d3, d4⟩ := idx_decomp (q / I) j (q % I) m I hj hi
  unfold unlanes
  rw [getD_map_range _ _ _ _ (idx_lt _ _ _ O m I ho hj hi), d4, d1, d3]
  have : q / I * I + q % I = q := by rw [Nat.mul_comm]; exact Nat.div_add_mod q I
  rw [this, getD_lt _ _ _ h2, getD_lt _ _ _ hj2]

/-- **scatter ∘ gather = id** -/
theorem unlanes_lanes (xs : List Nat) (O n I : Nat) (hn : 0 < n) (hI : 0 < I) (hlen : xs.length = O * n * I) :
    unlanes (lanes xs O n I) O n I = xs := by
  apply List.ext_getElem (by simp [unlanes, hlen])
  intro p h1 h2
  simp only [unlanes, List.getElem_map, List.getElem_range]
  have hp : p < O * n * I := by rw [← hlen]; exact h2
  have ho : p / (n * I) < O := by
    rw [Nat.div_lt_iff_lt_mul (Nat.mul_pos hn hI), ← Nat.mul_assoc]; exact hp
  have hi : p % I < I := Nat.mod_lt _ hI
  have hq : p / (n * I) * I + p % I < O * I := by
    have : (p / (n * I) + 1) * I ≤ O * I := Nat.mul_le_mul_right I ho
    rw [Nat.add_mul] at this; omega
  have q1 : (p / (n * I) * I + p % I) / I = p / (n * I) := by
    rw [Nat.add_comm, Nat.add_mul_div_right _ _ hI, Nat.div_eq_of_lt hi]; omega
  have q2 : (p / (n * I) * I + p % I) % I = p % I := by
    rw [Nat.add_comm, Nat.add_mul_mod_self_right]; exact Nat.mod_eq_of_lt hi
  unfold lanes
  rw [getD_map_range _ _ _ _ hq, q1, q2]
  unfold laneAt
  rw [getD_map_range _ _ _ _ (Nat.mod_lt _ hn), idx_recomp p n I, getD_lt _ _ _ h2]

/-! ### `mapM'` along a relation -/

inductive Forall2 {α β} (P : α → β → Prop) : List α → List β → Prop
  | nil : Forall2 P [] []
  | cons {x y xs ys} : P x y → Forall2 P xs ys → Forall2 P (x :: xs) (y :: ys)

theorem Forall2.length_eq {α β} {P : α → β → Prop} {xs : List α} {ys : List β} (h : Forall2 P xs ys) :
    ys.length = xs.length := by
  induction h with
  | nil => rfl
  | cons _ _ ih => simp [ih]

theorem Forall2.imp {α β} {P Q : α → β → Prop} (hpq : ∀ x y, P x y → Q x y) {xs : List α} {ys : List β}
    (h : Forall2 P xs ys) : Forall2 Q xs ys := by
  induction h with
  | nil => exact .nil
  | cons hp _ ih => exact .cons (hpq _ _ hp) ih

theorem Forall2.mem_right {α β} {P : α → β → Prop} {xs : List α} {ys : List β} (h : Forall2 P xs ys) :
    ∀ y ∈ ys, ∃ x ∈ xs, P x y := by
  induction h with
  | nil => intro y hy; simp at hy
  | cons hp _ ih =>
    intro y hy
    rcases List.mem_cons.1 hy with rfl | hy
    · exact ⟨_, by simp, hp⟩
    · obtain ⟨x, hx, hpx⟩ := ih y hy; exact ⟨x, by simp [hx], hpx⟩

theorem mapM'_forall2 {α β} (f : α → Res β) (P : α → β → Prop) : ∀ xs : List α,
    (∀ x ∈ xs, ∃ y, f x = .ok y ∧ P x y) → ∃ ys, Res.mapM' f xs = .ok ys ∧ Forall2 P xs ys
  | [], _ => ⟨[], rfl, .nil⟩
  | x :: xs, h => by
    obtain ⟨y, hy, hp⟩ := h x (by simp)
    obtain ⟨ys, hys, hps⟩ := mapM'_forall2 f P xs (fun x' hx' => h x' (by simp [hx']))
    refine ⟨y :: ys, ?_, .cons hp hps⟩
    rw [mapM'_cons, hy]; simp only [Res.bind_ok]; rw [hys]; rfl

/-- running `F` over the right-hand list of a relation that says "`F y` gives back `G x`" -/
theorem Forall2.mapM'_back {α β γ} {F : β → Res γ} {G : α → γ} {xs : List α} {ys : List β}
    (h : Forall2 (fun x y => F y = .ok (G x)) xs ys) : Res.mapM' F ys = .ok (xs.map G) := by
  induction h with
  | nil => rfl
  | cons hp _ ih => rw [mapM'_cons, hp]; simp only [Res.bind_ok]; rw [ih]; rfl

/-! ### shapes -/

theorem prod_split : ∀ (s : List Nat) (k : Nat), k < s.length →
    s.prod = (s.take k).prod * s.getD k 0 * (s.drop (k + 1)).prod
  | [], k, h => by simp at h
  | d :: ds, 0, _ => by simp
  | d :: ds, k + 1, h => by
    have ih := prod_split ds k (by simpa using h)
    simp only [List.prod_cons, List.take_succ_cons, List.drop_succ_cons, List.getD_cons_succ]
    rw [ih]; simp [Nat.mul_assoc]

theorem take_set_self (s : List Nat) (k m : Nat) : (s.set k m).take k = s.take k := by
  exact List.take_set_of_le (Nat.le_refl k)

theorem drop_set_succ (s : List Nat) (k m : Nat) : (s.set k m).drop (k + 1) = s.drop (k + 1) := by
  exact List.drop_set_of_lt (Nat.lt_succ_self k)

theorem getD_set_self (s : List Nat) (k m : Nat) (h : k < s.length) : (s.set k m).getD k 0 = m := by
  simp [List.getD, h]

theorem set_set_getD (s : List Nat) (k m : Nat) (h : k < s.length) : (s.set k m).set k (s.getD k 0) = s := by
  rw [List.set_set]
  apply List.ext_getElem (by simp)
  intro i h1 h2
  by_cases hik : k = i
  · subst hik; simp [List.getD, h]
  · simp [hik]

/-! ### the lifting obligation and its proof for the reference semantics -/

/-- an `apply_along_axis` through which a lane-wise inverse pair `(f, g)` — `f` sends every lane of length
`shape[k]` to a 1-D array of one common length `m > 0`, `g` sends that back — lifts to an array-wise inverse pair;
rank and non-emptiness are kept so that the second call sees the same axis.  (The obligation on the axis
machinery: the shared axis model discharges it for the crate's pipeline, `alongRef_lifts` for `alongRef`.) -/
def AlongLifts (along : Along) (a : Arr Nat) (k : Nat) : Prop :=
  ∀ (f g : Arr Nat → Res (Arr Nat)) (m : Nat), 0 < m →
    (∀ l : List Nat, l.length = a.shape.getD k 0 → (∀ b ∈ l, b ∈ a.elems) →
        ∃ r : List Nat, r.length = m ∧ f (Arr.flat l) = .ok (Arr.flat r) ∧ g (Arr.flat r) = .ok (Arr.flat l)) →
    -- both lane functions are total with a fixed output length (what `apply_along_axis` needs to run at all)
    (∀ l : List Nat, l.length = a.shape.getD k 0 → ∃ r, f (Arr.flat l) = .ok r ∧ r.elems.length = m) →
    (∀ l : List Nat, l.length = m → ∃ r, g (Arr.flat l) = .ok r ∧ r.elems.length = a.shape.getD k 0) →
    ∃ u, along a k f = .ok u ∧ u.ndim = a.ndim ∧ u.isEmpty = false ∧ along u k g = .ok a

theorem map_elems_flat (L : List (List Nat)) : (L.map Arr.flat).map (·.elems) = L := by
  simp [List.map_map, Function.comp_def, Arr.flat]

theorem alongRef_lifts (a : Arr Nat) (k : Nat) (hwf : a.WF) (hk : k < a.ndim) (hne : a.isEmpty = false) :
    AlongLifts alongRef a k := by
  intro f g m hm hfg _ _
  have hk' : k < a.shape.length := hk
  obtain ⟨O, hOdef⟩ : ∃ O, (a.shape.take k).prod = O := ⟨_, rfl⟩
  obtain ⟨n, hndef⟩ : ∃ n, a.shape.getD k 0 = n := ⟨_, rfl⟩
  obtain ⟨I, hIdef⟩ : ∃ I, (a.shape.drop (k + 1)).prod = I := ⟨_, rfl⟩
  have hlen : a.elems.length = O * n * I := by
    rw [hwf, prod_split a.shape k hk', hOdef, hndef, hIdef]
  have hpos : O * n * I ≠ 0 := by
    rw [← hlen]; simpa [Arr.isEmpty] using hne
  have hO : 0 < O := Nat.pos_of_ne_zero (fun h => hpos (by simp [h]))
  have hn : 0 < n := Nat.pos_of_ne_zero (fun h => hpos (by simp [h]))
  have hI : 0 < I := Nat.pos_of_ne_zero (fun h => hpos (by simp [h]))
  have hOI : 0 < O * I := Nat.mul_pos hO hI
  rw [hndef] at hfg
  -- first pass: every lane through `f`
  obtain ⟨rs, hrs, hrel⟩ := mapM'_forall2 (fun l => f (Arr.flat l))
    (fun l r => ∃ r' : List Nat, r = Arr.flat r' ∧ r'.length = m ∧ g (Arr.flat r') = .ok (Arr.flat l))
    (lanes a.elems O n I) (by
      intro l hl
      obtain ⟨r, hr1, hr2, hr3⟩ := hfg l (mem_lanes_length _ _ _ _ l hl) (mem_lanes_mem _ _ _ _ hI hlen l hl)
      exact ⟨Arr.flat r, hr2, r, rfl, hr1, hr3⟩)
  have hrslen : rs.length = O * I := by rw [hrel.length_eq, lanes_length]
  have hrs_m : ∀ r ∈ rs, r.elems.length = m := by
    intro r hr
    obtain ⟨l, _, r', rfl, hr', _⟩ := hrel.mem_right r hr
    simpa [Arr.flat] using hr'
  have hls_len : (rs.map (·.elems)).length = O * I := by simpa using hrslen
  have hls_m : ∀ l ∈ rs.map (·.elems), l.length = m := by
    intro l hl
    obtain ⟨r, hr, rfl⟩ := List.mem_map.1 hl
    exact hrs_m r hr
  have hback : Res.mapM' (fun l => g (Arr.flat l)) (rs.map (·.elems)) = .ok ((lanes a.elems O n I).map Arr.flat) := by
    rw [mapM'_map]
    apply Forall2.mapM'_back
    apply hrel.imp
    rintro l r ⟨r', rfl, _, hg⟩
    simpa [Arr.flat] using hg
  cases rs with
  | nil => simp at hrslen; omega
  | cons r0 rs' =>
    have hr0 : r0.elems.length = m := hrs_m r0 (by simp)
    refine ⟨⟨unlanes ((r0 :: rs').map (·.elems)) O m I, a.shape.set k m⟩, ?_, ?_, ?_, ?_⟩
    · unfold alongRef
      rw [if_neg (by omega)]
      simp only [hOdef, hndef, hIdef, hrs, Res.bind_ok, hr0]
    · simp [Arr.ndim]
    · have : O * m * I ≠ 0 := Nat.mul_ne_zero (Nat.mul_ne_zero (by omega) (by omega)) (by omega)
      simpa [Arr.isEmpty, unlanes_length] using this
    · unfold alongRef
      have hk2 : ¬ (k ≥ (⟨unlanes ((r0 :: rs').map (·.elems)) O m I, a.shape.set k m⟩ : Arr Nat).ndim) := by
        simp [Arr.ndim]; omega
      rw [if_neg hk2]
      simp only [take_set_self, getD_set_self _ _ _ hk', drop_set_succ, hOdef, hIdef,
        lanes_unlanes _ O m I hI hls_len hls_m, hback, Res.bind_ok]
      cases hL : lanes a.elems O n I with
      | nil =>
        have := lanes_length a.elems O n I
        rw [hL] at this; simp at this; omega
      | cons l0 L' =>
        have hl0 : l0.length = n := mem_lanes_length a.elems O n I l0 (by rw [hL]; simp)
        simp only [List.map_cons]
        have h1 : (Arr.flat l0).elems.length = n := by simpa [Arr.flat] using hl0
        simp only [h1]
        have h2 : (Arr.flat l0).elems :: List.map (fun x => x.elems) (List.map Arr.flat L') = lanes a.elems O n I := by
          rw [hL, map_elems_flat]; rfl
        rw [h2, unlanes_lanes a.elems O n I hn hI hlen]
        have h3 : (a.shape.set k m).set k n = a.shape := by rw [← hndef]; exact set_set_getD a.shape k m hk'
        rw [h3]

theorem mapM'_ok_map {α β} (f : α → Res β) (h : α → β) : ∀ xs : List α, (∀ x ∈ xs, f x = .ok (h x)) →
    Res.mapM' f xs = .ok (xs.map h)
  | [], _ => rfl
  | x :: xs, hx => by
    rw [mapM'_cons, hx x (by simp), mapM'_ok_map f h xs (fun y hy => hx y (by simp [hy]))]; rfl

/-- explicit value of `alongRef` for a lane function that returns 1-D arrays of one common length -/
theorem alongRef_ok (a : Arr Nat) (k : Nat) (hwf : a.WF) (hk : k < a.ndim) (hne : a.isEmpty = false)
    (f : Arr Nat → Res (Arr Nat)) (h : List Nat → List Nat) (m : Nat)
    (hf : ∀ l : List Nat, l.length = a.shape.getD k 0 → f (Arr.flat l) = .ok (Arr.flat (h l)) ∧ (h l).length = m) :
    alongRef a k f = .ok ⟨unlanes ((lanes a.elems (a.shape.take k).prod (a.shape.getD k 0) (a.shape.drop (k + 1)).prod).map h)
      (a.shape.take k).prod m (a.shape.drop (k + 1)).prod, a.shape.set k m⟩ := by
  have hk' : k < a.shape.length := hk
  have hlen : a.elems.length = (a.shape.take k).prod * a.shape.getD k 0 * (a.shape.drop (k + 1)).prod := by
    rw [hwf]; exact prod_split a.shape k hk'
  have hpos : (a.shape.take k).prod * a.shape.getD k 0 * (a.shape.drop (k + 1)).prod ≠ 0 := by
    rw [← hlen]; simpa [Arr.isEmpty] using hne
  have hO : (a.shape.take k).prod ≠ 0 := fun h0 => hpos (by simp [h0])
  have hI : (a.shape.drop (k + 1)).prod ≠ 0 := fun h0 => hpos (by simp [h0])
  unfold alongRef
  rw [if_neg (by omega)]
  simp only
  rw [mapM'_ok_map (fun l => f (Arr.flat l)) (fun l => Arr.flat (h l)) _
    (fun l hl => (hf l (mem_lanes_length _ _ _ _ l hl)).1)]
  simp only [Res.bind_ok]
  cases hL : lanes a.elems (a.shape.take k).prod (a.shape.getD k 0) (a.shape.drop (k + 1)).prod with
  | nil =>
    have := lanes_length a.elems (a.shape.take k).prod (a.shape.getD k 0) (a.shape.drop (k + 1)).prod
    rw [hL] at this
    exact absurd this.symm (Nat.mul_ne_zero hO hI)
  | cons l0 L' =>
    have hl0 : l0.length = a.shape.getD k 0 := mem_lanes_length a.elems _ _ _ l0 (by rw [hL]; simp)
    simp only [List.map_cons]
    have h1 : (Arr.flat (h l0)).elems.length = m := by simpa [Arr.flat] using (hf l0 hl0).2
    simp only [h1]
    congr 2
    simp [List.map_map, Function.comp_def, Arr.flat]

end ArrModel.C19
