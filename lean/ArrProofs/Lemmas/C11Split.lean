import ArrProofs.Lemmas.C11Flat
/-! C11: `array_split` cuts consecutive blocks along the axis (every rank, every axis, every part count) -/
namespace ArrModel.C11
open ArrModel Arr
variable {α : Type}

/-- the body of the `windows(2)` loop of `array_split` -/
def splitPiece (zero : α) (nd ax stride : Nat) (arr : Arr α) (w : Nat × Nat) : Res (Arr α) :=
  let sec := w.2 - w.1
  let m : Arr α := Arr.flat ((arr.elems.drop (w.1 * stride)).take (sec * stride))
  if nd = 1 then .ok m
  else m.reshape (arr.shape.set 0 sec) >>= fun r => r.moveaxis zero [0] [Int.ofNat ax]

theorem arraySplit_unfold (a : Arr α) (zero : α) (parts ax : Nat) (hp : parts ≠ 0) (hax : ax < a.ndim)
    (hne : a.isEmpty = false) :
    a.arraySplit zero parts (some ax) =
      (Res.idx a.shape ax >>= fun nTotal => a.rollaxis zero (Int.ofNat ax) none >>= fun arr =>
        Res.mapM' (splitPiece zero a.ndim ax (a.len / nTotal) arr) (windows2 (divPoints (sectionSizes nTotal parts)))) := by
  unfold Arr.arraySplit
  rw [if_neg hp]
  have : ¬ (decide (ax ≥ a.ndim) = true) := by simp; omega
  simp only [this, hne, Bool.false_eq_true, if_false, Option.getD_some]
  rfl

theorem isEmpty_false_of (a : Arr α) (hwf : a.WF) (hnz : 0 ∉ a.shape) : a.isEmpty = false := by
  have := prod_pos_of_not_mem _ hnz
  unfold Arr.isEmpty
  rw [show a.elems.length = a.shape.prod from hwf]; simp; omega

/-- one block of the rolled array, reshaped and moved back -/
theorem splitPiece_spec (arr : Arr α) (zero : α) (n off sec : Nat) (P Q : List Nat) (hwf : arr.WF)
    (hs : arr.shape = n :: P ++ Q) (hle : off + sec ≤ n) :
    ∃ r, splitPiece zero (P.length + Q.length + 1) P.length (P ++ Q).prod arr (off, off + sec) = .ok r ∧
      r.shape = P ++ sec :: Q ∧ r.WF ∧
      ∀ p q j, inRange P p = true → inRange Q q = true → j < sec →
        r.get? (p ++ j :: q) = arr.get? ((off + j) :: p ++ q) := by
  have hL : arr.elems.length = n * (P ++ Q).prod := by rw [hwf, hs]; simp
  generalize hst : (P ++ Q).prod = stride at *
  have hsec : off + sec - off = sec := by omega
  have hMl : ((arr.elems.drop (off * stride)).take (sec * stride)).length = sec * stride := by
    rw [List.length_take, List.length_drop, hL]
    have : (off + sec) * stride ≤ n * stride := Nat.mul_le_mul_right _ hle
    rw [Nat.add_mul] at this
    omega
  -- the block as an array of shape `sec :: P ++ Q`
  let t : Arr α := ⟨(arr.elems.drop (off * stride)).take (sec * stride), sec :: P ++ Q⟩
  have htwf : t.WF := by
    show ((arr.elems.drop (off * stride)).take (sec * stride)).length = (sec :: P ++ Q).prod
    rw [hMl, List.cons_append, List.prod_cons, hst]
  have htget : ∀ p q j, inRange P p = true → inRange Q q = true → j < sec →
      t.get? (j :: p ++ q) = arr.get? ((off + j) :: p ++ q) := by
    intro p q j hp hq hj
    have hpl := inRange_length _ _ hp
    have hrl : ravel (P ++ Q) (p ++ q) < stride := by
      rw [← hst]; apply ravel_lt
      rw [inRange_append _ _ _ _ hpl.symm]; simp [hp, hq]
    show ((arr.elems.drop (off * stride)).take (sec * stride))[ravel (sec :: P ++ Q) (j :: p ++ q)]? =
      arr.elems[ravel arr.shape ((off + j) :: p ++ q)]?
    rw [hs]
    simp only [List.cons_append, ravel, hst]
    have hlt : j * stride + ravel (P ++ Q) (p ++ q) < sec * stride := by
      have : (j + 1) * stride ≤ sec * stride := Nat.mul_le_mul_right _ hj
      rw [Nat.add_mul] at this; omega
    rw [List.getElem?_take_of_lt hlt, List.getElem?_drop]
    congr 1
    rw [Nat.add_mul]; omega
  by_cases h1 : P.length + Q.length + 1 = 1
  · -- rank 1: the flat block itself
    have hP : P = [] := List.eq_nil_of_length_eq_zero (by omega)
    have hQ : Q = [] := List.eq_nil_of_length_eq_zero (by omega)
    have hst1 : stride = 1 := by rw [← hst, hP, hQ]; rfl
    refine ⟨t, ?_, ?_, htwf, ?_⟩
    · simp only [splitPiece, h1, if_true, hsec]
      congr 1
      rw [hst1, Nat.mul_one, Nat.mul_one] at hMl
      simp only [Arr.flat, t, hP, hQ, hst1, Nat.mul_one, hMl]
      rfl
    · simp [t, hP, hQ]
    · intro p q j hp hq hj
      have hp0 : p = [] := List.eq_nil_of_length_eq_zero (by have := inRange_length _ _ hp; rw [hP] at this; simpa using this)
      have := htget p q j hp hq hj
      rw [hp0] at this ⊢
      exact this
  · have hnd : t.ndim = P.length + Q.length + 1 := by simp [t, Arr.ndim]
    obtain ⟨r, h2, h3, h4, h5⟩ := frontTo_spec t zero sec P Q htwf rfl
    refine ⟨r, ?_, h3, h4, ?_⟩
    · simp only [splitPiece, h1, if_false, hsec]
      have hre : (Arr.flat ((arr.elems.drop (off * stride)).take (sec * stride))).reshape (arr.shape.set 0 sec) = .ok t := by
        simp only [Arr.reshape, Arr.new, Arr.flat, hs, List.cons_append, List.set_cons_zero, List.prod_cons, hst, hMl, if_true]
        rfl
      rw [hre, Res.bind_ok, moveaxis_frontTo t zero P.length (by omega)]
      exact h2
    · intro p q j hp hq hj
      rw [h5 p q j hp hq hj, htget p q j hp hq hj]

/-- **`array_split` along axis `k = P.length` of a shape `P ++ n :: Q`**: `parts` pieces; piece `i` has the axis cut
to `sizes[i]` and holds the block starting at `off_i = sizes[0] + … + sizes[i-1]` -/
theorem arraySplit_cut (a : Arr α) (zero : α) (parts n : Nat) (P Q : List Nat) (hwf : a.WF) (hs : a.shape = P ++ n :: Q)
    (hnz : 0 ∉ a.shape) (hp : 0 < parts) :
    ∃ pieces, a.arraySplit zero parts (some P.length) = .ok pieces ∧ pieces.length = parts ∧
      ∀ i (hi : i < pieces.length),
        pieces[i].shape = P ++ (sectionSizes n parts).getD i 0 :: Q ∧ pieces[i].WF ∧
        ∀ p q j, inRange P p = true → inRange Q q = true → j < (sectionSizes n parts).getD i 0 →
          pieces[i].get? (p ++ j :: q) = a.get? (p ++ (((sectionSizes n parts).take i).sum + j) :: q) := by
  have hnd : a.ndim = P.length + Q.length + 1 := by simp [Arr.ndim, hs]; omega
  have hne := isEmpty_false_of a hwf hnz
  have hn : 0 < n := Nat.pos_of_ne_zero (fun e => hnz (by rw [hs, e]; simp))
  have hidx : Res.idx a.shape P.length = .ok n := by simp [Res.idx, hs]
  have hlen : a.len / n = (P ++ Q).prod := by
    have : a.len = (P ++ Q).prod * n := by
      show a.elems.length = _
      rw [hwf, hs]; simp only [List.prod_append, List.prod_cons]
      rw [Nat.mul_assoc, Nat.mul_comm Q.prod n]
    rw [this, Nat.mul_div_cancel _ hn]
  obtain ⟨arr, ha1, ha2, ha3, ha4⟩ := toFront_spec a zero n P Q hwf hs
  have hsl := sectionSizes_length n parts hp
  have hsum := sectionSizes_sum n parts hp
  generalize hsz : sectionSizes n parts = sizes at *
  have hoff : ∀ i (hi : i < sizes.length), (sizes.take i).sum + sizes[i] ≤ n := by
    intro i hi
    rw [← sum_take_succ sizes i hi, ← hsum]
    have := sum_take_le sizes (i + 1) sizes.length (by omega)
    rwa [List.take_length] at this
  obtain ⟨pieces, hm1, hm2, hm3⟩ := mapM'_exists (splitPiece zero a.ndim P.length (P ++ Q).prod arr)
    (windows2 (divPoints sizes)) (by
      intro w hw
      rw [windows2_divPoints] at hw
      simp only [List.mem_map, List.mem_range] at hw
      obtain ⟨i, hi, rfl⟩ := hw
      obtain ⟨r, hr, _⟩ := splitPiece_spec arr zero n (sizes.take i).sum sizes[i] P Q ha3 ha2 (hoff i hi)
      rw [sum_take_succ sizes i hi, hnd]
      exact ⟨r, hr⟩)
  have hwl : (windows2 (divPoints sizes)).length = parts := by rw [windows2_divPoints]; simp [hsl]
  refine ⟨pieces, ?_, by omega, ?_⟩
  · rw [arraySplit_unfold a zero parts P.length (by omega) (by omega) hne, hidx, Res.bind_ok, ha1, Res.bind_ok, hlen, hsz]
    exact hm1
  · intro i hi
    have hi' : i < sizes.length := by omega
    have h3 := hm3 i (by omega) hi
    have hw : (windows2 (divPoints sizes))[i]'(by omega) = ((sizes.take i).sum, (sizes.take i).sum + sizes[i]) := by
      simp only [windows2_divPoints, List.getElem_map, List.getElem_range, sum_take_succ sizes i hi']
    obtain ⟨r, hr, hr1, hr2, hr3⟩ := splitPiece_spec arr zero n (sizes.take i).sum sizes[i] P Q ha3 ha2 (hoff i hi')
    rw [hw, hnd, hr] at h3
    cases h3
    have hg : sizes.getD i 0 = sizes[i] := by simp [List.getD_eq_getElem?_getD, hi']
    rw [hg]
    refine ⟨hr1, hr2, ?_⟩
    intro p q j hp hq hj
    rw [hr3 p q j hp hq hj, ha4 p q _ hp hq (by have := hoff i hi'; omega)]

end ArrModel.C11
