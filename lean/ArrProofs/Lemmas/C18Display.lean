import ArrProofs.Lemmas.C18Generic
/-!
# Lemmas for C18 — `build_string`: the plain form is the canonical nesting; the pretty form differs by white space
-/
namespace ArrModel.C18

/-! ### Display -/

theorem chunks_one_head (n : Nat) (es : List Str) (hl : es.length = n) :
    (chunks 1 n es).map (fun c => c.headD []) = es := by
  induction n generalizing es with
  | zero => simp at hl; simp [chunks, hl]
  | succ n ih =>
    cases es with
    | nil => simp at hl
    | cons e r =>
      simp only [chunks, List.map_cons, List.take_succ_cons, List.take_zero, List.drop_succ_cons, List.drop_zero,
        List.headD_cons, ih r (by simpa using hl)]

theorem nest_flat (n : Nat) (es : List Str) (hl : es.length = n) :
    nest [n] es = '[' :: joinWith [',', ' '] es ++ [']'] := by
  simp only [nest, List.prod_nil]
  rw [chunks_one_head n es hl]

/-- the plain form is the canonical nesting of the rendered elements -/
theorem buildString_eq_nest {α} (pr : α → Str) (pre : Nat) (s : List Nat) (elems : List α)
    (hs : s ≠ []) (hpos : ∀ d ∈ s, 1 ≤ d) (hl : elems.length = s.prod) :
    buildString pr false pre s elems = nest s (elems.map pr) := by
  induction s generalizing elems pre with
  | nil => exact absurd rfl hs
  | cons n s ih =>
    have hp : 1 ≤ (n :: s).prod := prod_pos hpos
    have hne : elems.isEmpty = false := by
      cases elems with
      | nil => rw [List.length_nil] at hl; omega
      | cons _ _ => rfl
    cases s with
    | nil =>
      simp only [buildString, hne]
      rw [nest_flat n _ (by simpa using hl)]
      simp
    | cons m rest =>
      simp only [buildString, hne, Bool.false_eq_true, if_false]
      rw [nest, chunks_map, List.map_map]
      congr 2
      congr 1
      apply List.map_congr_left
      intro c hc
      have := mem_chunks (by simpa [Nat.mul_comm] using hl) hc
      exact ih (pre + 1) c (by simp) (fun d hd => hpos d (by simp [hd])) this.1

/-- a one-element array of rank `r + 1`: one bracket pair per axis, in both forms -/
theorem buildString_single {α} (pr : α → Str) (alt : Bool) (pre r : Nat) (x : α) :
    buildString pr alt pre (List.replicate (r + 1) 1) [x] = rep '[' (r + 1) ++ pr x ++ rep ']' (r + 1) := by
  induction r generalizing pre with
  | zero => simp [buildString]
  | succ r ih =>
    have : buildString pr alt pre (List.replicate (r + 1 + 1) 1) [x]
        = '[' :: buildString pr alt (pre + 1) (List.replicate (r + 1) 1) [x] ++ [']'] := by
      simp [List.replicate_succ, buildString, chunks]
    rw [this, ih (pre + 1)]
    simp [List.replicate_succ, rep_snoc]

def notWs (c : Char) : Bool := c != ' ' && c != '\n'
/-- drop blanks and line breaks -/
def strip (s : Str) : Str := s.filter notWs

theorem strip_append (A B : Str) : strip (A ++ B) = strip A ++ strip B := by simp [strip]

theorem strip_joinWith (sep : Str) (ys : List Str) :
    strip (joinWith sep ys) = joinWith (strip sep) (ys.map strip) := by
  induction ys with
  | nil => rfl
  | cons y r ih =>
    cases r with
    | nil => simp
    | cons z r =>
      rw [joinWith_cons_cons, strip_append, strip_append, ih]
      rfl

theorem strip_rep_space (n : Nat) : strip (rep ' ' n) = [] := by
  simp [strip, rep, notWs]

theorem strip_buildString {α} (pr : α → Str) (pre : Nat) (s : List Nat) (elems : List α) :
    strip (buildString pr true pre s elems) = strip (buildString pr false pre s elems) := by
  induction s generalizing elems pre with
  | nil => simp [buildString]
  | cons n s ih =>
    cases s with
    | nil => simp [buildString]
    | cons m rest =>
      simp only [buildString]
      split
      · rfl
      · simp only [if_true, Bool.false_eq_true, if_false]
        rw [show ∀ X : Str, ('[' :: X ++ [']']) = ['['] ++ X ++ [']'] from fun X => rfl]
        rw [show ∀ X : Str, ('[' :: X ++ [']']) = ['['] ++ X ++ [']'] from fun X => rfl]
        simp only [strip_append, strip_joinWith, List.map_map]
        congr 2
        congr 1
        · show strip ([',', '\n'] ++ rep ' ' pre) = _
          rw [strip_append, strip_rep_space]; decide
        · apply List.map_congr_left
          intro c _
          exact ih (pre + 1) c

end ArrModel.C18
