import ArrProofs.Lemmas.C03Shape
/-!
helper lemmas for C03, part 3: `commonBroadcastShape` (the n-ary common shape of `broadcast_arrays`).
-/
namespace ArrModel

/-- the largest rank in a list of shapes -/
def maxLen (shapes : List (List Nat)) : Nat := (shapes.map List.length).foldl max 0

/-- the largest `k`-th-from-the-end axis length in a list of shapes -/
def cmax (shapes : List (List Nat)) (k : Nat) : Nat := (shapes.map (fun s => fromEnd s k)).foldl max 0

theorem foldl_max_le_iff (l : List Nat) (a b : Nat) : l.foldl max a ≤ b ↔ a ≤ b ∧ ∀ x ∈ l, x ≤ b := by
  induction l generalizing a with
  | nil => simp
  | cons y l ih =>
    simp only [List.foldl_cons, ih, List.forall_mem_cons, Nat.max_le]
    constructor
    · rintro ⟨⟨h1, h2⟩, h3⟩; exact ⟨h1, h2, h3⟩
    · rintro ⟨h1, h2, h3⟩; exact ⟨⟨h1, h2⟩, h3⟩

theorem le_foldl_max (l : List Nat) (a x : Nat) (h : x ∈ l) : x ≤ l.foldl max a :=
  ((foldl_max_le_iff l a _).1 (Nat.le_refl _)).2 x h

theorem foldl_max_mem (l : List Nat) (a : Nat) : l.foldl max a = a ∨ l.foldl max a ∈ l := by
  induction l generalizing a with
  | nil => simp
  | cons y l ih =>
    simp only [List.foldl_cons, List.mem_cons]
    rcases ih (max a y) with h | h
    · rw [h]
      rcases Nat.le_total a y with h1 | h1
      · rw [Nat.max_eq_right h1]; exact .inr (.inl rfl)
      · rw [Nat.max_eq_left h1]; exact .inl rfl
    · exact .inr (.inr h)

theorem length_le_maxLen (shapes : List (List Nat)) (s : List Nat) (h : s ∈ shapes) : s.length ≤ maxLen shapes :=
  le_foldl_max _ _ _ (List.mem_map.2 ⟨s, h, rfl⟩)

theorem fromEnd_le_cmax (shapes : List (List Nat)) (s : List Nat) (h : s ∈ shapes) (k : Nat) :
    fromEnd s k ≤ cmax shapes k :=
  le_foldl_max _ _ _ (List.mem_map.2 ⟨s, h, rfl⟩)

theorem padRev_getD (s : List Nat) (n k : Nat) (h : k < n) : (padRev s n).getD k 1 = fromEnd s k := by
  rw [List.getD_eq_getElem?_getD, padRev_getElem?, if_pos h]; rfl

theorem range_map_getD (f : Nat → Nat) (n k : Nat) (h : k < n) : ((List.range n).map f).getD k 1 = f k := by
  simp [List.getD_eq_getElem?_getD, List.getElem?_map, List.getElem?_range h]

/-- the common shape, written from the end: axis `k` is the largest `k`-th-from-the-end length -/
def commonRev (shapes : List (List Nat)) : List Nat := (List.range (maxLen shapes)).map (cmax shapes)

theorem commonBroadcastShape_ok_iff (shapes : List (List Nat)) (cs : List Nat) :
    commonBroadcastShape shapes = .ok cs ↔
      cs = (commonRev shapes).reverse ∧
      ∀ s ∈ shapes, ∀ k, k < maxLen shapes →
        (fromEnd s k = cmax shapes k ∨ fromEnd s k = 1 ∨ cmax shapes k = 1) := by
  unfold commonBroadcastShape
  simp only
  have hcommon : (List.range ((shapes.map List.length).foldl max 0)).map
        (fun k => ((shapes.map (fun s => padRev s ((shapes.map List.length).foldl max 0))).map
          (fun s => s.getD k 1)).foldl max 0) = commonRev shapes := by
    unfold commonRev maxLen
    apply List.map_congr_left
    intro k hk
    unfold cmax
    rw [List.map_map]
    congr 1
    apply List.map_congr_left
    intro s _
    exact padRev_getD s _ k (List.mem_range.1 hk)
  rw [hcommon]
  have hcompat : ((shapes.map (fun s => padRev s ((shapes.map List.length).foldl max 0))).all (fun s =>
        (List.range ((shapes.map List.length).foldl max 0)).all (fun k =>
          s.getD k 1 == (commonRev shapes).getD k 1 || s.getD k 1 == 1 || (commonRev shapes).getD k 1 == 1)) = true) ↔
      ∀ s ∈ shapes, ∀ k, k < maxLen shapes →
        (fromEnd s k = cmax shapes k ∨ fromEnd s k = 1 ∨ cmax shapes k = 1) := by
    rw [List.all_map, List.all_eq_true]
    apply forall_congr'; intro s
    apply forall_congr'; intro _
    simp only [Function.comp, List.all_eq_true, List.mem_range]
    apply forall_congr'; intro k
    apply forall_congr'; intro hk
    rw [padRev_getD s _ k hk]
    unfold commonRev
    rw [range_map_getD (cmax shapes) (maxLen shapes) k hk]
    simp only [Bool.or_eq_true, beq_iff_eq, or_assoc]
  split
  · rename_i h
    rw [hcompat] at h
    simp only [Res.ok.injEq]
    exact ⟨fun h' => ⟨h'.symm, h⟩, fun h' => h'.1.symm⟩
  · rename_i h
    rw [hcompat] at h
    constructor
    · intro h'; cases h'
    · intro h'; exact absurd h'.2 h

theorem commonBroadcastShape_ok_or_err (shapes : List (List Nat)) :
    (∃ cs, commonBroadcastShape shapes = .ok cs) ∨ commonBroadcastShape shapes = .err .BroadcastShapeMismatch := by
  unfold commonBroadcastShape
  simp only
  split
  · exact .inl ⟨_, rfl⟩
  · exact .inr rfl

theorem commonRev_length (shapes : List (List Nat)) : (commonRev shapes).length = maxLen shapes := by
  simp [commonRev]

theorem fromEnd_commonRev_reverse (shapes : List (List Nat)) (k : Nat) (h : k < maxLen shapes) :
    fromEnd (commonRev shapes).reverse k = cmax shapes k := by
  unfold fromEnd
  rw [List.reverse_reverse]
  exact range_map_getD _ _ _ h

/-- every member shape without a zero length stretches to the common shape -/
theorem stretchable_of_common (shapes : List (List Nat)) (cs : List Nat)
    (h : commonBroadcastShape shapes = .ok cs) (s : List Nat) (hs : s ∈ shapes) (hz : 0 ∉ s) :
    stretchable s cs = true := by
  obtain ⟨hcs, hcompat⟩ := (commonBroadcastShape_ok_iff shapes cs).1 h
  have hlen := length_le_maxLen shapes s hs
  rw [stretchable_iff_fromEnd]
  refine ⟨by rw [hcs, List.length_reverse, commonRev_length]; exact hlen, fun k hk => ?_⟩
  have hk' : k < maxLen shapes := by omega
  rw [hcs, fromEnd_commonRev_reverse shapes k hk']
  have h1 := hcompat s hs k hk'
  have h2 := fromEnd_le_cmax shapes s hs k
  have h3 := (zero_not_mem_iff_fromEnd s).1 hz k hk
  omega

/-- two member shapes that disagree on an aligned axis where neither length is one: no common shape -/
theorem commonBroadcastShape_clash (shapes : List (List Nat)) (s t : List Nat) (hs : s ∈ shapes) (ht : t ∈ shapes)
    (k : Nat) (h : fromEnd s k ≠ fromEnd t k ∧ fromEnd s k ≠ 1 ∧ fromEnd t k ≠ 1) :
    commonBroadcastShape shapes = .err .BroadcastShapeMismatch := by
  rcases commonBroadcastShape_ok_or_err shapes with ⟨cs, hcs⟩ | hcs
  · exfalso
    obtain ⟨_, hcompat⟩ := (commonBroadcastShape_ok_iff shapes cs).1 hcs
    have hk : k < maxLen shapes := by
      have := lt_length_of_fromEnd_ne_one s k h.2.1
      have := length_le_maxLen shapes s hs
      omega
    have h1 := hcompat s hs k hk
    have h2 := hcompat t ht k hk
    have h3 := fromEnd_le_cmax shapes s hs k
    have h4 := fromEnd_le_cmax shapes t ht k
    omega
  · exact hcs

end ArrModel
