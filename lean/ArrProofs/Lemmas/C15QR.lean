import ArrProofs.Lemmas.C15Basic
/-!
# Lemmas for C15, part 5: Gram–Schmidt in exact arithmetic (the un-normalised vectors of `gram_schmidt`)
-/
namespace ArrModel.C15
open ArrModel

theorem getD_eq_getElem' {α} (l : List α) (d : α) {i : Nat} (h : i < l.length) : l.getD i d = l[i] := by
  simp [List.getD_eq_getElem?_getD, h]

theorem dotV_eq_sum (n : Nat) (u v : List Rat) : dotV n u v = ∑ i ∈ Finset.range n, vget u i * vget v i :=
  sumTo_eq_sum n _

theorem dotV_comm (n : Nat) (u v : List Rat) : dotV n u v = dotV n v u := by
  rw [dotV_eq_sum, dotV_eq_sum]; exact Finset.sum_congr rfl fun i _ => mul_comm _ _

theorem dotV_congr (n : Nat) (u v v' : List Rat) (h : ∀ i, i < n → vget v i = vget v' i) :
    dotV n u v = dotV n u v' := by
  rw [dotV_eq_sum, dotV_eq_sum]
  exact Finset.sum_congr rfl fun i hi => by rw [h i (Finset.mem_range.1 hi)]

theorem vget_subProj (n : Nat) (a u : List Rat) (i : Nat) (hi : i < n) :
    vget (subProj n a u) i = vget a i - dotV n u a / dotV n u u * vget u i := by
  unfold subProj; rw [vget_map_range, if_pos hi]

theorem dotV_subProj (n : Nat) (w a u : List Rat) :
    dotV n w (subProj n a u) = dotV n w a - dotV n u a / dotV n u u * dotV n w u := by
  rw [dotV_eq_sum, dotV_eq_sum n w a, dotV_eq_sum n w u, Finset.mul_sum, ← Finset.sum_sub_distrib]
  refine Finset.sum_congr rfl fun i hi => ?_
  rw [vget_subProj n a u i (Finset.mem_range.1 hi)]; ring

/-- orthogonality of two vectors (in the first `n` coordinates) -/
def Orth (n : Nat) (u v : List Rat) : Prop := dotV n u v = 0

/-- reducing by vectors orthogonal to `w` does not change the product with `w` -/
theorem dotV_fold_of_orth (n : Nat) (w : List Rat) : ∀ (us : Mat) (x : List Rat),
    (∀ u ∈ us, dotV n w u = 0) → dotV n w (us.foldl (subProj n) x) = dotV n w x
  | [], x, _ => rfl
  | u :: rest, x, h => by
    rw [List.foldl_cons, dotV_fold_of_orth n w rest _ (fun u' hu' => h u' (List.mem_cons_of_mem _ hu')),
      dotV_subProj, h u List.mem_cons_self]
    ring

/-- after the inner loop the reduced column is orthogonal to every earlier vector -/
theorem fold_orth (n : Nat) : ∀ (us : Mat) (x : List Rat),
    us.Pairwise (Orth n) → (∀ u ∈ us, dotV n u u ≠ 0) →
    ∀ u ∈ us, dotV n u (us.foldl (subProj n) x) = 0
  | [], _, _, _, u, hu => by simp at hu
  | v :: rest, x, hp, hnz, u, hu => by
    rw [List.foldl_cons]
    obtain ⟨hv, hrest⟩ := List.pairwise_cons.1 hp
    rcases List.mem_cons.1 hu with h | h
    · subst h
      rw [dotV_fold_of_orth n u rest _ (fun u' hu' => hv u' hu'), dotV_subProj]
      have := hnz u List.mem_cons_self
      field_simp
      ring
    · exact fold_orth n rest _ hrest (fun u' hu' => hnz u' (List.mem_cons_of_mem _ hu')) u h

/-- the column is recovered from the reduced column and its projections on the earlier vectors -/
theorem fold_expand (n : Nat) : ∀ (us : Mat) (x : List Rat),
    us.Pairwise (Orth n) → ∀ i, i < n →
    vget x i = vget (us.foldl (subProj n) x) i +
      ∑ t ∈ Finset.range us.length, dotV n (us.getD t []) x / dotV n (us.getD t []) (us.getD t []) * vget (us.getD t []) i
  | [], x, _, i, _ => by simp
  | v :: rest, x, hp, i, hi => by
    obtain ⟨hv, hrest⟩ := List.pairwise_cons.1 hp
    rw [List.foldl_cons, List.length_cons, Finset.sum_range_succ']
    have ih := fold_expand n rest (subProj n x v) hrest i hi
    have hx : vget x i = vget (subProj n x v) i + dotV n v x / dotV n v v * vget v i := by
      rw [vget_subProj n x v i hi]; ring
    have hsum : ∑ t ∈ Finset.range rest.length,
        dotV n (rest.getD t []) (subProj n x v) / dotV n (rest.getD t []) (rest.getD t []) * vget (rest.getD t []) i
        = ∑ t ∈ Finset.range rest.length,
        dotV n (rest.getD t []) x / dotV n (rest.getD t []) (rest.getD t []) * vget (rest.getD t []) i := by
      refine Finset.sum_congr rfl fun t ht => ?_
      have hmem : rest.getD t [] ∈ rest := by
        have := Finset.mem_range.1 ht
        rw [getD_eq_getElem' _ _ this]; exact List.getElem_mem _
      have : dotV n (rest.getD t []) v = 0 := by rw [dotV_comm]; exact hv _ hmem
      rw [dotV_subProj, this]; ring
    rw [hx, ih, hsum]
    simp only [List.getD_cons_succ, List.getD_cons_zero]
    ring

/-! ### the outer loop -/

/-- the vectors produced from the first `m` columns -/
def gramG (n : Nat) (cols : Mat) (m : Nat) : Mat := gramU n (cols.take m)

theorem gramG_succ (n : Nat) (cols : Mat) (m : Nat) (hm : m < cols.length) :
    gramG n cols (m + 1) = gramG n cols m ++ [(gramG n cols m).foldl (subProj n) (cols.getD m [])] := by
  unfold gramG gramU
  rw [List.take_add_one, List.foldl_append]
  simp [List.getElem?_eq_getElem hm]

theorem gramG_all (n : Nat) (cols : Mat) : gramG n cols cols.length = gramU n cols := by
  unfold gramG; rw [List.take_length]

theorem gramG_length (n : Nat) (cols : Mat) : ∀ m, m ≤ cols.length → (gramG n cols m).length = m
  | 0, _ => by simp [gramG, gramU]
  | m + 1, h => by rw [gramG_succ n cols m (by omega), List.length_append, gramG_length n cols m (by omega)]; rfl

theorem gramG_prefix (n : Nat) (cols : Mat) (m : Nat) : ∀ d, m + d ≤ cols.length →
    gramG n cols m <+: gramG n cols (m + d)
  | 0, _ => List.prefix_refl _
  | d + 1, h => by
    rw [← Nat.add_assoc, gramG_succ n cols (m + d) (by omega)]
    exact (gramG_prefix n cols m d (by omega)).trans (List.prefix_append _ _)

theorem gramG_prefix_all (n : Nat) (cols : Mat) (m : Nat) (hm : m ≤ cols.length) :
    gramG n cols m <+: gramU n cols := by
  have := gramG_prefix n cols m (cols.length - m) (by omega)
  rwa [show m + (cols.length - m) = cols.length by omega, gramG_all] at this

theorem gramG_getD (n : Nat) (cols : Mat) (m t : Nat) (hm : m ≤ cols.length) (ht : t < m) :
    (gramG n cols m).getD t [] = (gramU n cols).getD t [] := by
  obtain ⟨rest, hrest⟩ := gramG_prefix_all n cols m hm
  rw [← hrest]
  simp only [List.getD_eq_getElem?_getD]
  rw [List.getElem?_append_left (by rw [gramG_length n cols m hm]; exact ht)]

/-- **pairwise orthogonality** of the Gram–Schmidt vectors, when none of them vanishes -/
theorem gramG_pairwise (n : Nat) (cols : Mat) (hnz : ∀ u ∈ gramU n cols, dotV n u u ≠ 0) :
    ∀ m, m ≤ cols.length → (gramG n cols m).Pairwise (Orth n)
  | 0, _ => by simp [gramG, gramU]
  | m + 1, h => by
    have ih := gramG_pairwise n cols hnz m (by omega)
    have hnzm : ∀ u ∈ gramG n cols m, dotV n u u ≠ 0 := fun u hu =>
      hnz u ((gramG_prefix_all n cols m (by omega)).subset hu)
    rw [gramG_succ n cols m (by omega), List.pairwise_append]
    refine ⟨ih, List.pairwise_singleton _ _, ?_⟩
    intro u hu w hw
    rw [List.mem_singleton.1 hw]
    exact fold_orth n _ _ ih hnzm u hu

theorem gramU_pairwise (n : Nat) (cols : Mat) (hnz : ∀ u ∈ gramU n cols, dotV n u u ≠ 0) :
    (gramU n cols).Pairwise (Orth n) := by
  rw [← gramG_all]; exact gramG_pairwise n cols hnz _ (le_refl _)

theorem gramU_length (n : Nat) (cols : Mat) : (gramU n cols).length = cols.length := by
  rw [← gramG_all]; exact gramG_length n cols _ (le_refl _)

theorem gramU_orth (n : Nat) (cols : Mat) (hnz : ∀ u ∈ gramU n cols, dotV n u u ≠ 0)
    (j k : Nat) (hj : j < cols.length) (hk : k < cols.length) (hjk : j ≠ k) :
    dotV n ((gramU n cols).getD j []) ((gramU n cols).getD k []) = 0 := by
  have hp := gramU_pairwise n cols hnz
  rw [List.pairwise_iff_getElem] at hp
  have hl := gramU_length n cols
  rw [getD_eq_getElem' _ _ (by omega), getD_eq_getElem' _ _ (by omega)]
  rcases Nat.lt_or_gt_of_ne hjk with h | h
  · exact hp j k (by omega) (by omega) h
  · rw [dotV_comm]; exact hp k j (by omega) (by omega) h

/-- every column is its own Gram–Schmidt vector plus its projections on the earlier ones -/
theorem column_expand (n : Nat) (cols : Mat) (hnz : ∀ u ∈ gramU n cols, dotV n u u ≠ 0)
    (c : Nat) (hc : c < cols.length) (i : Nat) (hi : i < n) :
    vget (cols.getD c []) i = vget ((gramU n cols).getD c []) i +
      ∑ t ∈ Finset.range c, dotV n ((gramU n cols).getD t []) (cols.getD c []) /
        dotV n ((gramU n cols).getD t []) ((gramU n cols).getD t []) * vget ((gramU n cols).getD t []) i := by
  have hexp := fold_expand n (gramG n cols c) (cols.getD c []) (gramG_pairwise n cols hnz c (by omega)) i hi
  have hlast : (gramG n cols c).foldl (subProj n) (cols.getD c []) = (gramU n cols).getD c [] := by
    rw [← gramG_getD n cols (c + 1) c (by omega) (by omega), gramG_succ n cols c hc]
    simp only [List.getD_eq_getElem?_getD]
    rw [List.getElem?_append_right (by rw [gramG_length n cols c (by omega)])]
    simp [gramG_length n cols c (by omega)]
  rw [hlast, gramG_length n cols c (by omega)] at hexp
  rw [hexp]
  congr 1
  refine Finset.sum_congr rfl fun t ht => ?_
  rw [gramG_getD n cols c t (by omega) (Finset.mem_range.1 ht)]

/-- the product of a vector with an expanded column -/
theorem dotV_expand (n : Nat) (v x w : List Rat) (c : Nat) (coef : Nat → Rat) (U : Nat → List Rat)
    (h : ∀ i, i < n → vget x i = vget w i + ∑ t ∈ Finset.range c, coef t * vget (U t) i) :
    dotV n v x = dotV n v w + ∑ t ∈ Finset.range c, coef t * dotV n v (U t) := by
  rw [dotV_eq_sum, dotV_eq_sum n v w]
  have : ∑ t ∈ Finset.range c, coef t * dotV n v (U t)
      = ∑ i ∈ Finset.range n, ∑ t ∈ Finset.range c, vget v i * (coef t * vget (U t) i) := by
    rw [Finset.sum_comm]
    refine Finset.sum_congr rfl fun t _ => ?_
    rw [dotV_eq_sum, Finset.mul_sum]
    exact Finset.sum_congr rfl fun i _ => by ring
  rw [this, ← Finset.sum_add_distrib]
  refine Finset.sum_congr rfl fun i hi => ?_
  rw [h i (Finset.mem_range.1 hi), mul_add, Finset.mul_sum]

/-- the product of the `k`-th Gram–Schmidt vector with column `c`: zero below the diagonal, the squared norm on it -/
theorem gram_dot_column (n : Nat) (cols : Mat) (hnz : ∀ u ∈ gramU n cols, dotV n u u ≠ 0)
    (k c : Nat) (hk : k < cols.length) (hc : c < cols.length) (hck : c ≤ k) :
    dotV n ((gramU n cols).getD k []) (cols.getD c []) =
      if c = k then dotV n ((gramU n cols).getD k []) ((gramU n cols).getD k []) else 0 := by
  rw [dotV_expand n _ _ _ c _ _ (fun i hi => column_expand n cols hnz c hc i hi)]
  have hz : ∑ t ∈ Finset.range c, dotV n ((gramU n cols).getD t []) (cols.getD c []) /
      dotV n ((gramU n cols).getD t []) ((gramU n cols).getD t []) *
      dotV n ((gramU n cols).getD k []) ((gramU n cols).getD t []) = 0 := by
    apply Finset.sum_eq_zero; intro t ht
    have := Finset.mem_range.1 ht
    rw [gramU_orth n cols hnz k t hk (by omega) (by omega)]; ring
  rw [hz, add_zero]
  by_cases h : c = k
  · rw [if_pos h, h]
  · rw [if_neg h]; exact gramU_orth n cols hnz k c hk hc (Ne.symm h)

/-! ### reading `qrMat` -/

theorem qr_nonzero_of (n : Nat) (a : Mat) (hnz : (0 : Rat) ∉ (qrMat n a).nrm2) :
    ∀ u ∈ gramU n (columns n a), dotV n u u ≠ 0 := by
  intro u hu h0
  apply hnz
  show (0 : Rat) ∈ (gramU n (columns n a)).map fun u => dotV n u u
  exact List.mem_map.2 ⟨u, hu, h0⟩

theorem columns_length (n : Nat) (a : Mat) : (columns n a).length = n := build_length _ _ _

theorem vget_nrm2 (n : Nat) (a : Mat) (k : Nat) (hk : k < n) :
    vget (qrMat n a).nrm2 k = dotV n ((gramU n (columns n a)).getD k []) ((gramU n (columns n a)).getD k []) := by
  show vget ((gramU n (columns n a)).map fun u => dotV n u u) k = _
  have hl : k < (gramU n (columns n a)).length := by rw [gramU_length, columns_length]; exact hk
  simp [vget, List.getD_eq_getElem?_getD, hl]

end ArrModel.C15
