import ArrModel.C17
/-! helper lemmas for C17: `find` / `rfind` specifications, `joinWith`, reversal -/
namespace ArrModel.C17

theorem isPrefixOf_decomp (p l : Str) (h : p.isPrefixOf l = true) : p ++ l.drop p.length = l := by
  obtain ⟨t, rfl⟩ := List.isPrefixOf_iff_prefix.1 h
  simp

theorem isPrefixOf_length_le (p l : Str) (h : p.isPrefixOf l = true) : p.length ≤ l.length :=
  (List.isPrefixOf_iff_prefix.1 h).length_le

/-! ### find -/

theorem find_some_prefix : ∀ (s pat : Str) (i : Nat), find s pat = some i → pat.isPrefixOf (s.drop i) = true
  | [], pat, i, h => by
    simp only [find] at h
    split at h
    · rename_i hp; cases h; exact hp
    · cases h
  | c :: cs, pat, i, h => by
    simp only [find] at h
    split at h
    · rename_i hp; cases h; exact hp
    · cases hf : find cs pat with
      | none => simp [hf] at h
      | some j =>
        simp only [hf, Option.map_some, Option.some.injEq] at h
        subst h
        exact find_some_prefix cs pat j hf

theorem find_some_le (s pat : Str) (i : Nat) (h : find s pat = some i) : i + pat.length ≤ s.length := by
  have h1 := isPrefixOf_length_le _ _ (find_some_prefix s pat i h)
  simp only [List.length_drop] at h1
  by_cases hi : i ≤ s.length
  · omega
  · -- drop past the end is empty, so pat = []; but then find returns 0
    have : s.drop i = [] := List.drop_eq_nil_of_le (by omega)
    have hp := find_some_prefix s pat i h
    rw [this] at hp
    have hpe : pat = [] := by cases pat <;> simp_all [List.isPrefixOf]
    subst hpe
    cases s <;> simp [find] at h <;> omega

theorem find_some_decomp (s pat : Str) (i : Nat) (h : find s pat = some i) :
    s = s.take i ++ pat ++ s.drop (i + pat.length) := by
  have hp := isPrefixOf_decomp _ _ (find_some_prefix s pat i h)
  rw [List.drop_drop] at hp
  calc s = s.take i ++ s.drop i := (List.take_append_drop i s).symm
    _ = s.take i ++ (pat ++ s.drop (i + pat.length)) := by rw [hp]
    _ = _ := by simp

/-- `find` returns the FIRST occurrence -/
theorem find_some_first : ∀ (s pat : Str) (i : Nat), find s pat = some i →
    ∀ j, j < i → pat.isPrefixOf (s.drop j) = false
  | [], pat, i, h, j, hj => by
    simp only [find] at h
    split at h
    · cases h; omega
    · cases h
  | c :: cs, pat, i, h, j, hj => by
    simp only [find] at h
    split at h
    · cases h; omega
    · rename_i hnp
      cases hf : find cs pat with
      | none => simp [hf] at h
      | some k =>
        simp only [hf, Option.map_some, Option.some.injEq] at h
        subst h
        cases j with
        | zero => exact Bool.eq_false_iff.2 hnp
        | succ j => exact find_some_first cs pat k hf j (by omega)

/-- `find` answers `None` only when the pattern occurs nowhere -/
theorem find_none : ∀ (s pat : Str), find s pat = none → ∀ j, pat.isPrefixOf (s.drop j) = false
  | [], pat, h, j => by
    simp only [find] at h
    split at h
    · cases h
    · rename_i hnp; cases j <;> exact Bool.eq_false_iff.2 hnp
  | c :: cs, pat, h, j => by
    simp only [find] at h
    split at h
    · cases h
    · rename_i hnp
      cases hf : find cs pat with
      | some k => simp [hf] at h
      | none =>
        cases j with
        | zero => exact Bool.eq_false_iff.2 hnp
        | succ j => exact find_none cs pat hf j

theorem find_nil_pat (s : Str) : find s [] = some 0 := by cases s <;> simp [find]

/-! ### rfind -/

theorem rfind_some_prefix : ∀ (s pat : Str) (i : Nat), rfind s pat = some i → pat.isPrefixOf (s.drop i) = true
  | [], pat, i, h => by
    simp only [rfind] at h
    split at h
    · rename_i hp; cases h; exact hp
    · cases h
  | c :: cs, pat, i, h => by
    simp only [rfind] at h
    cases hf : rfind cs pat with
    | some j =>
      simp only [hf, Option.some.injEq] at h
      subst h
      exact rfind_some_prefix cs pat j hf
    | none =>
      simp only [hf] at h
      split at h
      · rename_i hp; cases h; exact hp
      · cases h

theorem rfind_some_decomp (s pat : Str) (i : Nat) (h : rfind s pat = some i) :
    s = s.take i ++ pat ++ s.drop (i + pat.length) := by
  have hp := isPrefixOf_decomp _ _ (rfind_some_prefix s pat i h)
  rw [List.drop_drop] at hp
  calc s = s.take i ++ s.drop i := (List.take_append_drop i s).symm
    _ = s.take i ++ (pat ++ s.drop (i + pat.length)) := by rw [hp]
    _ = _ := by simp

/-- `rfind` answers `None` only when the pattern occurs nowhere -/
theorem rfind_none : ∀ (s pat : Str), rfind s pat = none → ∀ j, pat.isPrefixOf (s.drop j) = false
  | [], pat, h, j => by
    simp only [rfind] at h
    split at h
    · cases h
    · rename_i hnp; cases j <;> exact Bool.eq_false_iff.2 hnp
  | c :: cs, pat, h, j => by
    simp only [rfind] at h
    cases hf : rfind cs pat with
    | some k => simp [hf] at h
    | none =>
      simp only [hf] at h
      split at h
      · cases h
      · rename_i hnp
        cases j with
        | zero => exact Bool.eq_false_iff.2 hnp
        | succ j => exact rfind_none cs pat hf j

theorem rfind_some_le_length : ∀ (s pat : Str) (i : Nat), rfind s pat = some i → i ≤ s.length
  | [], pat, i, h => by
    simp only [rfind] at h
    split at h
    · cases h; simp
    · cases h
  | c :: cs, pat, i, h => by
    simp only [rfind] at h
    cases hf : rfind cs pat with
    | some j =>
      simp only [hf, Option.some.injEq] at h
      subst h
      have := rfind_some_le_length cs pat j hf
      simp; omega
    | none =>
      simp only [hf] at h
      split at h
      · cases h; simp
      · cases h

/-- `rfind` returns the LAST occurrence -/
theorem rfind_some_last : ∀ (s pat : Str) (i : Nat), rfind s pat = some i →
    ∀ j, i < j → j ≤ s.length → pat.isPrefixOf (s.drop j) = false
  | [], pat, i, h, j, hj, hl => by simp at hl; omega
  | c :: cs, pat, i, h, j, hj, hl => by
    simp only [rfind] at h
    cases hf : rfind cs pat with
    | some k =>
      simp only [hf, Option.some.injEq] at h
      subst h
      cases j with
      | zero => omega
      | succ j => exact rfind_some_last cs pat k hf j (by omega) (by simpa using hl)
    | none =>
      simp only [hf] at h
      cases j with
      | zero => omega
      | succ j => exact rfind_none cs pat hf j

/-! ### joinWith -/

theorem joinWith_cons (sep x : Str) (r : List Str) (h : r ≠ []) :
    joinWith sep (x :: r) = x ++ sep ++ joinWith sep r := by
  cases r with
  | nil => exact absurd rfl h
  | cons y r => rfl

theorem joinWith_append_singleton (sep x : Str) : ∀ (l : List Str), l ≠ [] →
    joinWith sep (l ++ [x]) = joinWith sep l ++ sep ++ x
  | [], h => absurd rfl h
  | [y], _ => by simp [joinWith]
  | y :: z :: r, _ => by
    have ih := joinWith_append_singleton sep x (z :: r) (by simp)
    show y ++ sep ++ joinWith sep (z :: r ++ [x]) = (y ++ sep ++ joinWith sep (z :: r)) ++ sep ++ x
    rw [ih]; simp [List.append_assoc]

/-- joining the mirrored pieces in mirrored order with the mirrored separator is the mirror of the join -/
theorem joinWith_reverse (sep : Str) : ∀ (l : List Str),
    joinWith sep.reverse ((l.map List.reverse).reverse) = (joinWith sep l).reverse
  | [] => rfl
  | [x] => by simp [joinWith]
  | x :: y :: r => by
    have ih := joinWith_reverse sep (y :: r)
    have hne : ((y :: r).map List.reverse).reverse ≠ [] := by simp
    have e1 : ((x :: y :: r).map List.reverse).reverse = ((y :: r).map List.reverse).reverse ++ [x.reverse] := by simp
    have e2 : joinWith sep (x :: y :: r) = x ++ sep ++ joinWith sep (y :: r) := rfl
    rw [e1, e2, joinWith_append_singleton _ _ _ hne, ih]
    simp [List.append_assoc]

end ArrModel.C17
