import ArrProofs.Lemmas.C18Generic
/-!
# Lemmas for C18 — `FromStr` of `Tuple2/Tuple3/List` on the text their `Display` prints
-/
namespace ArrModel.C18

/-! ### text forms of pairs, triples, lists -/

theorem trimStart_cons_mem {cs : List Char} {c : Char} {A : Str} (hc : c ∈ cs) : trimStart cs (c :: A) = trimStart cs A := by
  simp [trimStart, List.dropWhile, hc]

theorem trimStart_of_head {cs : List Char} {A : Str} (h : ∀ c, A.head? = some c → c ∉ cs) : trimStart cs A = A := by
  cases A with
  | nil => rfl
  | cons a A =>
    have := h a rfl
    simp [trimStart, List.dropWhile, this]

theorem trimEnd_snoc_mem {cs : List Char} {c : Char} {A : Str} (hc : c ∈ cs) : trimEnd cs (A ++ [c]) = trimEnd cs A := by
  simp [trimEnd, hc]

theorem trimEnd_of_last {cs : List Char} {A : Str} (h : ∀ c, A.getLast? = some c → c ∉ cs) : trimEnd cs A = A := by
  unfold trimEnd
  have : trimStart cs A.reverse = A.reverse := trimStart_of_head (by simpa using h)
  unfold trimStart at this
  rw [this, List.reverse_reverse]

/-- a text whose characters avoid `,` `(` `)` `[` `]` -/
def SepFree (e : Str) : Prop := ∀ c ∈ e, c ≠ ',' ∧ c ≠ '(' ∧ c ≠ ')' ∧ c ≠ '[' ∧ c ≠ ']'

theorem SepFree.comma {e : Str} (h : SepFree e) : ',' ∉ e := fun hm => (h _ hm).1 rfl

theorem replace_commaSp_join (ts : List Str) (h : ∀ t ∈ ts, ',' ∉ t) :
    replace [',', ' '] [','] (joinWith [',', ' '] ts) = joinWith [','] ts := by
  have := joinWith_hom (replace [',', ' '] [',']) (fun t : Str => t) (fun t => t) [',', ' '] [','] ts
    (fun t ht Z => replace_noStart Z (noStart_of_head_not_mem (h t ht)))
    (fun t _ W => replace_append_pat _ (by simp)) []
  simpa using this

theorem trims (o c : Char) (cs ce : List Char) (body : Str) (ho : o ∈ cs) (hc : c ∈ ce) (hc' : c ∉ cs)
    (hb : ∀ x ∈ body, x ∉ cs ∧ x ∉ ce) :
    trimEnd ce (trimStart cs (o :: (body ++ [c]))) = body := by
  rw [trimStart_cons_mem ho, trimStart_of_head, trimEnd_snoc_mem hc, trimEnd_of_last]
  · intro x hx; exact (hb x (List.mem_of_getLast? hx)).2
  · intro x hx
    cases body with
    | nil => simp at hx; subst hx; exact hc'
    | cons b r => simp at hx; subst hx; exact (hb _ (by simp)).1

theorem mem_join_commaSp {x : Char} {ts : List Str} (h : x ∈ joinWith [',', ' '] ts) :
    x = ',' ∨ x = ' ' ∨ ∃ t ∈ ts, x ∈ t := by
  rcases mem_joinWith h with h | h
  · simp at h; rcases h with h | h; exact Or.inl h; exact Or.inr (Or.inl h)
  · exact Or.inr (Or.inr h)

theorem tupleParts_show (ts : List Str) (h : ∀ t ∈ ts, SepFree t) :
    tupleParts ('(' :: (joinWith [',', ' '] ts ++ [')'])) = splitChar ',' (joinWith [','] ts) := by
  unfold tupleParts
  rw [trims '(' ')' ['('] [')'] _ (by simp) (by simp) (by decide), replace_commaSp_join ts (fun t ht => (h t ht).comma)]
  intro x hx
  rcases mem_join_commaSp hx with rfl | rfl | ⟨t, ht, hxt⟩
  · decide
  · decide
  · have := h t ht x hxt
    simp [this.2.1, this.2.2.1]


theorem parseList_show_body (ts : List Str) (h : ∀ t ∈ ts, SepFree t) :
    replace [',', ' '] [','] (trimEnd [')', ']'] (trimStart ['(', '['] ('[' :: (joinWith [',', ' '] ts ++ [']']))))
      = joinWith [','] ts := by
  rw [trims '[' ']' ['(', '['] [')', ']'] _ (by simp) (by simp) (by decide), replace_commaSp_join ts (fun t ht => (h t ht).comma)]
  intro x hx
  rcases mem_join_commaSp hx with rfl | rfl | ⟨t, ht, hxt⟩
  · decide
  · decide
  · have := h t ht x hxt
    simp [this.2.1, this.2.2.1, this.2.2.2.1, this.2.2.2.2]

theorem joinWith_eq_nil {sep : Str} {ts : List Str} (h : joinWith sep ts = []) (hne : ∀ t ∈ ts, t ≠ []) : ts = [] := by
  cases ts with
  | nil => rfl
  | cons t r =>
    exfalso
    have ht := hne t (by simp)
    cases r with
    | nil => exact ht (by simpa using h)
    | cons u r =>
      rw [joinWith_cons_cons] at h
      simp at h
      exact ht h.1

theorem mapM_option_map {α} (sa : α → Str) (pa : Str → Option α) (xs : List α) (h : ∀ x ∈ xs, pa (sa x) = some x) :
    (xs.map sa).mapM pa = some xs := by
  induction xs with
  | nil => rfl
  | cons x r ih =>
    rw [List.map_cons, List.mapM_cons, h x (by simp), ih (fun y hy => h y (by simp [hy]))]
    rfl

end ArrModel.C18
