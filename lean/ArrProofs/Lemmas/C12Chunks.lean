import ArrModel.Reorder
/-!
# chunk lemmas: `chunksOf`, `splitFlat`, flatten of equally long blocks, `Res.mapM'`

Shared by C12 (and reusable by C11/C13): the `k`-th chunk of size `size`, element `j`, is `l[k*size + j]`;
the flatten of equally long blocks is read the same way; `splitFlat` succeeds on exact multiples.
-/
namespace ArrModel
variable {α β : Type}

theorem chunksOf_length (k : Nat) (l : List α) (n : Nat) (hk : 0 < k) (h : l.length = n * k) :
    (chunksOf k l).length = n := by
  unfold chunksOf
  rw [if_neg (by omega)]
  simp only [List.length_map, List.length_range, h]
  have : n * k + k - 1 = k - 1 + n * k := by omega
  rw [this, Nat.add_mul_div_right _ _ hk, Nat.div_eq_of_lt (by omega)]; omega

theorem chunksOf_getElem? (k : Nat) (l : List α) (n : Nat) (hk : 0 < k) (h : l.length = n * k) (i : Nat) (hi : i < n) :
    (chunksOf k l)[i]? = some ((l.drop (i * k)).take k) := by
  have hl := chunksOf_length k l n hk h
  unfold chunksOf at hl ⊢
  rw [if_neg (by omega)] at hl ⊢
  simp only [List.length_map, List.length_range] at hl
  simp only [List.getElem?_map, List.getElem?_range (by omega : i < (l.length + k - 1) / k), Option.map_some]

theorem chunksOf_mem_length (k : Nat) (l : List α) (n : Nat) (hk : 0 < k) (h : l.length = n * k) :
    ∀ b ∈ chunksOf k l, b.length = k := by
  intro b hb
  unfold chunksOf at hb
  rw [if_neg (by omega)] at hb
  simp only [List.mem_map, List.mem_range] at hb
  obtain ⟨i, hi, rfl⟩ := hb
  have hi' : i < n := by
    have : (l.length + k - 1) / k = n := by
      have e : n * k + k - 1 = k - 1 + n * k := by omega
      rw [h, e, Nat.add_mul_div_right _ _ hk, Nat.div_eq_of_lt (by omega)]; omega
    omega
  simp only [List.length_take, List.length_drop, h]
  have : (i + 1) * k ≤ n * k := Nat.mul_le_mul_right _ hi'
  rw [Nat.add_mul] at this
  omega

/-- element `j` of chunk `i` is element `i*k + j` of the list -/
theorem chunksOf_get (k : Nat) (l : List α) (n : Nat) (hk : 0 < k) (h : l.length = n * k) (i j : Nat) (hi : i < n) (hj : j < k) :
    ((chunksOf k l)[i]?).bind (·[j]?) = l[i * k + j]? := by
  rw [chunksOf_getElem? k l n hk h i hi]
  simp only [Option.bind_some, List.getElem?_take, hj, if_true, List.getElem?_drop]

theorem flatten_length_uniform (bs : List (List α)) (k : Nat) (h : ∀ b ∈ bs, b.length = k) :
    bs.flatten.length = bs.length * k := by
  induction bs with
  | nil => simp
  | cons b rest ih =>
    simp only [List.flatten_cons, List.length_append, List.length_cons]
    rw [ih (fun x hx => h x (List.mem_cons_of_mem _ hx)), h b List.mem_cons_self, Nat.add_mul]; omega

/-- reading the flatten of equally long blocks: position `i*k + j` is element `j` of block `i` -/
theorem flatten_get_uniform (bs : List (List α)) (k : Nat) (h : ∀ b ∈ bs, b.length = k) (i j : Nat) (hj : j < k) :
    bs.flatten[i * k + j]? = (bs[i]?).bind (·[j]?) := by
  induction bs generalizing i with
  | nil => simp
  | cons b rest ih =>
    have hb : b.length = k := h b List.mem_cons_self
    cases i with
    | zero =>
      simp only [List.flatten_cons, Nat.zero_mul, Nat.zero_add, List.getElem?_cons_zero, Option.bind_some]
      rw [List.getElem?_append_left (by omega)]
    | succ i =>
      simp only [List.flatten_cons, List.getElem?_cons_succ]
      rw [List.getElem?_append_right (by rw [hb, Nat.add_mul]; omega)]
      rw [← ih (fun x hx => h x (List.mem_cons_of_mem _ hx)) i]
      congr 1; rw [hb, Nat.add_mul]; omega

/-- the flatten of the chunks is the list -/
theorem chunksOf_flatten (k : Nat) (l : List α) (n : Nat) (hk : 0 < k) (h : l.length = n * k) :
    (chunksOf k l).flatten = l := by
  have hm := chunksOf_mem_length k l n hk h
  have hlen := chunksOf_length k l n hk h
  apply List.ext_getElem?
  intro p
  by_cases hp : p < n * k
  · have hj : p % k < k := Nat.mod_lt _ hk
    have hi : p / k < n := (Nat.div_lt_iff_lt_mul hk).2 hp
    have e : p = p / k * k + p % k := (Nat.div_add_mod' p k).symm
    rw [e, flatten_get_uniform _ k hm _ _ hj, chunksOf_get k l n hk h _ _ hi hj]
  · have h1 : (chunksOf k l).flatten.length ≤ p := by rw [flatten_length_uniform _ k hm, hlen]; omega
    have h2 : l.length ≤ p := by omega
    rw [List.getElem?_eq_none h1, List.getElem?_eq_none h2]

/-- `splitFlat` on an exact multiple: the chunks -/
theorem splitFlat_ok (parts size : Nat) (l : List α) (hp : 0 < parts) (hs : 0 < size) (h : l.length = parts * size) :
    splitFlat parts l = .ok (chunksOf size l) := by
  unfold splitFlat
  have hne : l.isEmpty = false := by
    cases l with
    | nil =>
      simp only [List.length_nil] at h
      have := Nat.mul_pos hp hs; omega
    | cons _ _ => rfl
  have hm : l.length % parts = 0 := by rw [h]; exact Nat.mul_mod_right _ _
  have hd : l.length / parts = size := by rw [h]; exact Nat.mul_div_cancel_left _ hp
  rw [if_neg (by omega), hne]
  simp only [Bool.false_eq_true, if_false, hm, ne_eq, not_true_eq_false, hd]

/-- `mapM'` succeeds when every element does, and relates the results position by position -/
theorem mapM'_ok (f : α → Res β) (P : α → β → Prop) (l : List α) (h : ∀ a ∈ l, ∃ r, f a = .ok r ∧ P a r) :
    ∃ rs, Res.mapM' f l = .ok rs ∧ rs.length = l.length ∧
      ∀ (k : Nat) (a : α), l[k]? = some a → ∃ r, rs[k]? = some r ∧ P a r := by
  induction l with
  | nil => exact ⟨[], rfl, rfl, by simp⟩
  | cons x xs ih =>
    obtain ⟨r, hr, hP⟩ := h x List.mem_cons_self
    obtain ⟨rs, h1, h2, h3⟩ := ih (fun a ha => h a (List.mem_cons_of_mem _ ha))
    refine ⟨r :: rs, ?_, by simp [h2], ?_⟩
    · simp only [Res.mapM', List.map_cons, Res.sequence, hr, Res.bind_ok] at h1 ⊢
      rw [h1]; rfl
    · intro k a hk
      cases k with
      | zero => simp at hk; subst hk; exact ⟨r, by simp, hP⟩
      | succ k => simpa using h3 k a (by simpa using hk)

theorem mapM'_congr (f g : α → Res β) (l : List α) (h : ∀ a ∈ l, f a = g a) : Res.mapM' f l = Res.mapM' g l := by
  unfold Res.mapM'
  rw [List.map_congr_left h]

end ArrModel
