import ArrProofs.Lemmas.C10Basic
/-!
# C10 lemmas, part 2 — `heap_sort` (index-based `shift_down` on a list used as an array)

Invariants are stated on `a[i]?` so that no bounds proofs travel with the indices.
-/
namespace ArrModel.Sort
open ArrModel

variable {α : Type}

theorem idx_ok (a : List α) (i : Nat) (h : i < a.length) : Res.idx a i = .ok a[i] := by
  simp [Res.idx, h]

theorem swapR_ok (a : List α) (i j : Nat) (hi : i < a.length) (hj : j < a.length) :
    ∃ a', swapR a i j = .ok a' ∧ a'.length = a.length ∧ a'.Perm a ∧
      (∀ k, a'[k]? = if k = j then a[i]? else if k = i then a[j]? else a[k]?) := by
  refine ⟨(a.set i a[j]).set j a[i], ?_, by simp, List.set_set_perm hi hj, ?_⟩
  · simp [swapR, hi, hj]
  · intro k
    grind

/-- children in `[.., hi]` of every node `>= lo` are `<=` their parent -/
def Heap (c : Cmp α) (a : List α) (lo hi : Nat) : Prop :=
  ∀ i ch x y, lo ≤ i → (ch = 2 * i + 1 ∨ ch = 2 * i + 2) → ch ≤ hi →
    a[i]? = some x → a[ch]? = some y → c.le y x = true

/-- the heap property holds everywhere except possibly at node `r`, and the children of `r` are `<=` the parent of `r` -/
def HeapEx (c : Cmp α) (a : List α) (lo hi r : Nat) : Prop :=
  (∀ i ch x y, lo ≤ i → i ≠ r → (ch = 2 * i + 1 ∨ ch = 2 * i + 2) → ch ≤ hi →
    a[i]? = some x → a[ch]? = some y → c.le y x = true) ∧
  (∀ p ch x y, lo ≤ p → (r = 2 * p + 1 ∨ r = 2 * p + 2) → (ch = 2 * r + 1 ∨ ch = 2 * r + 2) → ch ≤ hi →
    a[p]? = some x → a[ch]? = some y → c.le y x = true)

theorem pickChild_spec {c : Cmp α} (h : c.Lawful) (a : List α) (ch0 hi : Nat) (hhi : hi < a.length) (h0 : ch0 ≤ hi) :
    ∃ ch, pickChild c a ch0 hi = .ok ch ∧ (ch = ch0 ∨ ch = ch0 + 1) ∧ ch ≤ hi ∧
      ∀ ch' x y, (ch' = ch0 ∨ ch' = ch0 + 1) → ch' ≤ hi → a[ch]? = some x → a[ch']? = some y → c.le y x = true := by
  unfold pickChild
  by_cases hlt : ch0 < hi
  · rw [if_pos hlt, idx_ok a ch0 (by omega), idx_ok a (ch0 + 1) (by omega)]
    simp only [Res.bind_ok]
    cases hc : c.lt a[ch0] a[ch0 + 1]
    · refine ⟨ch0, by simp, .inl rfl, h0, ?_⟩
      intro ch' x y hch' _ hx hy
      have hle := h.le_of_not_lt hc
      have hr := h.le_refl a[ch0]
      rcases hch' with rfl | rfl <;> grind
    · refine ⟨ch0 + 1, by simp, .inr rfl, by omega, ?_⟩
      intro ch' x y hch' _ hx hy
      have hle := h.le_of_lt hc
      have hr := h.le_refl a[ch0 + 1]
      rcases hch' with rfl | rfl <;> grind
  · rw [if_neg hlt]
    refine ⟨ch0, rfl, .inl rfl, h0, ?_⟩
    intro ch' x y hch' hle hx hy
    have : ch' = ch0 := by omega
    subst this
    have hr := h.le_refl x
    grind

theorem shiftDown_spec {c : Cmp α} (h : c.Lawful) (lo hi : Nat) :
    ∀ (fuel : Nat) (a : List α) (root : Nat), hi < a.length → lo ≤ root → root ≤ hi → hi + 1 ≤ fuel + root →
      HeapEx c a lo hi root →
      ∃ a', shiftDown c fuel a root hi = .ok a' ∧ a'.length = a.length ∧ a'.Perm a ∧ Heap c a' lo hi ∧
        (∀ k, (k < root ∨ hi < k) → a'[k]? = a[k]?) ∧
        (∀ k x, k ≤ hi → a'[k]? = some x → ∃ k', k' ≤ hi ∧ a[k']? = some x) := by
  intro fuel
  induction fuel with
  | zero => intro a root _ _ h3 h4; omega
  | succ f ih =>
    intro a root hlen hlo hroot hfuel hex
    unfold shiftDown
    by_cases hleaf : root * 2 + 1 > hi
    · rw [if_pos hleaf]
      refine ⟨a, rfl, rfl, .refl _, ?_, fun _ _ => rfl, fun k x hk hx => ⟨k, hk, hx⟩⟩
      intro i ch x y hi1 hch hchi hx hy
      by_cases hir : i = root
      · omega
      · exact hex.1 i ch x y hi1 hir hch hchi hx hy
    · rw [if_neg hleaf]
      obtain ⟨child, hpick, hchild, hchildhi, hbig⟩ := pickChild_spec h a (root * 2 + 1) hi hlen (by omega)
      rw [hpick, Res.bind_ok, idx_ok a root (by omega), Res.bind_ok, idx_ok a child (by omega), Res.bind_ok]
      cases hc : c.lt a[root] a[child]
      · -- stop: the larger child is <= the root
        simp only [Bool.false_eq_true, ↓reduceIte]
        refine ⟨a, rfl, rfl, .refl _, ?_, fun _ _ => rfl, fun k x hk hx => ⟨k, hk, hx⟩⟩
        have hle := h.le_of_not_lt hc
        intro i ch x y hi1 hch hchi hx hy
        by_cases hir : i = root
        · subst hir
          have hx' : x = a[i] := by grind
          have := hbig ch a[child] y (by omega) hchi (by simp <;> omega) hy
          exact hx' ▸ h.le_trans _ _ _ this hle
        · exact hex.1 i ch x y hi1 hir hch hchi hx hy
      · simp only [↓reduceIte]
        obtain ⟨a1, hsw, hlen1, hperm1, hget1⟩ := swapR_ok a root child (by omega) (by omega)
        rw [hsw, Res.bind_ok]
        have hlt := h.le_of_lt hc
        have hex1 : HeapEx c a1 lo hi child := by
          constructor
          · intro i ch x y hi1 hic hch hchi hx hy
            rw [hget1] at hx hy
            by_cases hir : i = root
            · -- parent is the old root position, now holding the old child value
              subst hir
              have hx' : x = a[child] := by grind
              subst hx'
              by_cases hcc : ch = child
              · have : y = a[i] := by grind
                subst this; exact hlt
              · have hy' : a[ch]? = some y := by grind
                exact hbig ch a[child] y (by omega) hchi (by simp <;> omega) hy'
            · have hx' : a[i]? = some x := by grind
              by_cases hcr : ch = root
              · -- `i` is the parent of `root`: new value at `root` is the old child, a grandchild of `i`
                have hy' : a[child]? = some y := by grind
                exact hex.2 i child x y hi1 (by omega) (by omega) hchildhi hx' hy'
              · have hy' : a[ch]? = some y := by
                  have : ch ≠ child := by omega
                  grind
                exact hex.1 i ch x y hi1 hir hch hchi hx' hy'
          · intro p ch x y hp hpr hch hchi hx hy
            rw [hget1] at hx hy
            have hpr' : p = root := by omega
            subst hpr'
            have hx' : x = a[child] := by grind
            have hy' : a[ch]? = some y := by
              have : ch ≠ child ∧ ch ≠ p := by omega
              grind
            have hcx : a[child]? = some a[child] := by simp <;> omega
            have hne : child ≠ p := by omega
            exact hx' ▸ hex.1 child ch a[child] y (by omega) hne hch hchi hcx hy'
        obtain ⟨a2, hsd, hlen2, hperm2, hheap2, hframe2, hmem2⟩ :=
          ih a1 child (by omega) (by omega) hchildhi (by omega) hex1
        refine ⟨a2, hsd, by omega, hperm2.trans hperm1, hheap2, ?_, ?_⟩
        · intro k hk
          rw [hframe2 k (by omega), hget1]
          have : k ≠ child ∧ k ≠ root := by omega
          grind
        · intro k x hk hx
          obtain ⟨k', hk', hx'⟩ := hmem2 k x hk hx
          rw [hget1] at hx'
          by_cases h1 : k' = child
          · exact ⟨root, hroot, by grind⟩
          · by_cases h2 : k' = root
            · exact ⟨child, hchildhi, by grind⟩
            · exact ⟨k', hk', by grind⟩

/-- the root of a heap is a largest element -/
theorem heap_root_max {c : Cmp α} (h : c.Lawful) (a : List α) (hi : Nat) (hlen : hi < a.length) (hp : Heap c a 0 hi) :
    ∀ (i : Nat), i ≤ hi → ∀ x y, a[i]? = some x → a[0]? = some y → c.le x y = true := by
  intro i
  induction i using Nat.strongRecOn with
  | _ i ih =>
    intro hi' x y hx hy
    by_cases h0 : i = 0
    · subst h0
      have : x = y := by grind
      exact this ▸ h.le_refl x
    · have hpl : (i - 1) / 2 < a.length := by omega
      have h1 := hp ((i - 1) / 2) i a[(i - 1) / 2] x (by omega) (by omega) hi' (by simp <;> omega) hx
      have h2 := ih ((i - 1) / 2) (by omega) (by omega) a[(i - 1) / 2] y (by simp <;> omega) hy
      exact h.le_trans _ _ _ h1 h2

theorem heapBuild_spec {c : Cmp α} (h : c.Lawful) (n : Nat) (hn : 1 ≤ n) :
    ∀ (k : Nat) (a : List α), a.length = n → k ≤ n → Heap c a k (n - 1) →
      ∃ a', heapBuild c n k a = .ok a' ∧ a'.length = n ∧ a'.Perm a ∧ Heap c a' 0 (n - 1) := by
  intro k
  induction k with
  | zero => intro a hl _ hh; exact ⟨a, rfl, hl, .refl _, hh⟩
  | succ k ih =>
    intro a hl hk hh
    unfold heapBuild
    have hex : HeapEx c a k (n - 1) k := by
      constructor
      · intro i ch x y h1 h2 h3 h4 h5 h6
        exact hh i ch x y (by omega) h3 h4 h5 h6
      · intro p ch x y h1 h2; omega
    obtain ⟨a1, hsd, hl1, hp1, hh1, _, _⟩ :=
      shiftDown_spec h k (n - 1) (n + 1) a k (by omega) (Nat.le_refl _) (by omega) (by omega) hex
    rw [hsd, Res.bind_ok]
    obtain ⟨a2, hb, hl2, hp2, hh2⟩ := ih a1 (by omega) (by omega) hh1
    exact ⟨a2, hb, hl2, hp2.trans hp1, hh2⟩

theorem heapExtract_spec {c : Cmp α} (h : c.Lawful) (n : Nat) :
    ∀ (e : Nat) (a : List α), a.length = n → e < n → Heap c a 0 e →
      (∀ i j x y, e < i → i < j → a[i]? = some x → a[j]? = some y → c.le x y = true) →
      (∀ i j x y, i ≤ e → e < j → a[i]? = some x → a[j]? = some y → c.le x y = true) →
      ∃ a', heapExtract c n e a = .ok a' ∧ a'.Perm a ∧ Sorted c a' := by
  intro e
  induction e with
  | zero =>
    intro a hl _ _ hs1 hs2
    refine ⟨a, rfl, .refl _, ?_⟩
    unfold Sorted
    rw [List.pairwise_iff_getElem]
    intro i j hi hj hij
    by_cases h0 : i = 0
    · exact hs2 i j _ _ (by omega) (by omega) (by simp [hi]) (by simp [hj])
    · exact hs1 i j _ _ (by omega) hij (by simp [hi]) (by simp [hj])
  | succ e ih =>
    intro a hl he hh hs1 hs2
    unfold heapExtract
    obtain ⟨a1, hsw, hl1, hp1, hget1⟩ := swapR_ok a 0 (e + 1) (by omega) (by omega)
    rw [hsw, Res.bind_ok]
    have hex : HeapEx c a1 0 e 0 := by
      constructor
      · intro i ch x y _ hi0 hch hchi hx hy
        rw [hget1] at hx hy
        have hx' : a[i]? = some x := by
          have : i ≠ e + 1 := by omega
          grind
        have hy' : a[ch]? = some y := by
          have : ch ≠ e + 1 ∧ ch ≠ 0 := by omega
          grind
        exact hh i ch x y (by omega) hch (by omega) hx' hy'
      · intro p ch x y _ hp; omega
    obtain ⟨a2, hsd, hl2, hp2, hh2, hfr2, hmem2⟩ :=
      shiftDown_spec h 0 e (n + 1) a1 0 (by omega) (Nat.le_refl _) (by omega) (by omega) hex
    rw [hsd, Res.bind_ok]
    have hmax := heap_root_max h a (e + 1) (by omega) hh
    have h0 : a[0]? = some a[0] := by simp <;> omega
    have he1 : a[e + 1]? = some a[e + 1] := by simp <;> omega
    obtain ⟨a3, hext, hp3, hs3⟩ := ih a2 (by omega) (by omega) hh2
      (by
        intro i j x y hei hij hx hy
        rw [hfr2 i (by omega), hget1] at hx
        rw [hfr2 j (by omega), hget1] at hy
        have hy' : a[j]? = some y := by
          have : j ≠ e + 1 ∧ j ≠ 0 := by omega
          grind
        by_cases hie : i = e + 1
        · have hx' : a[0]? = some x := by grind
          exact hs2 0 j x y (by omega) (by omega) hx' hy'
        · have hx' : a[i]? = some x := by
            have : i ≠ 0 := by omega
            grind
          exact hs1 i j x y (by omega) hij hx' hy')
      (by
        intro i j x y hie hej hx hy
        obtain ⟨i', hi', hx1⟩ := hmem2 i x hie hx
        rw [hget1] at hx1
        rw [hfr2 j (by omega), hget1] at hy
        -- `x` sits in the old prefix `[0, e+1]`
        have hxa : ∃ i'', i'' ≤ e + 1 ∧ a[i'']? = some x := by
          by_cases hi0 : i' = 0
          · exact ⟨e + 1, Nat.le_refl _, by grind⟩
          · exact ⟨i', by omega, by
              have : i' ≠ e + 1 := by omega
              grind⟩
        obtain ⟨i'', hi'', hx2⟩ := hxa
        by_cases hje : j = e + 1
        · have hy' : a[0]? = some y := by grind
          exact hmax i'' hi'' x y hx2 hy'
        · have hy' : a[j]? = some y := by
            have : j ≠ 0 := by omega
            grind
          exact hs2 i'' j x y hi'' (by omega) hx2 hy')
    exact ⟨a3, hext, hp3.trans (hp2.trans hp1), hs3⟩

theorem heapSort_spec {c : Cmp α} (h : c.Lawful) (xs : List α) :
    ∃ s, heapSort c xs = .ok s ∧ s.Perm xs ∧ Sorted c s := by
  unfold heapSort
  by_cases h1 : xs.length ≤ 1
  · rw [if_pos h1]; exact ⟨xs, rfl, .refl _, sorted_of_length_le_one c h1⟩
  · rw [if_neg h1]
    have hvac : Heap c xs (xs.length / 2) (xs.length - 1) := by
      intro i ch x y h1 h2 h3; omega
    obtain ⟨a1, hb, hl1, hp1, hh1⟩ := heapBuild_spec h xs.length (by omega) (xs.length / 2) xs rfl (by omega) hvac
    rw [hb, Res.bind_ok]
    obtain ⟨a2, he, hp2, hs2⟩ := heapExtract_spec h xs.length (xs.length - 1) a1 hl1 (by omega) hh1
      (by intro i j x y hi hij hx hy
          have : j < a1.length := by
            rcases Nat.lt_or_ge j a1.length with h | h
            · exact h
            · simp [List.getElem?_eq_none h] at hy
          omega)
      (by intro i j x y hi hj hx hy
          have : j < a1.length := by
            rcases Nat.lt_or_ge j a1.length with h | h
            · exact h
            · simp [List.getElem?_eq_none h] at hy
          omega)
    exact ⟨a2, he, hp2.trans hp1, hs2⟩

end ArrModel.Sort
