import ArrProofs.Lemmas.C15NormMat
/-!
# Lemmas for C15, part 7: the general integer orders of the one-axis arm (`float_power`), negative orders included
-/
namespace ArrModel.C15
open ArrModel Arr

theorem ratPow_eq_pow (x : Rat) (p : Nat) : ratPow x p = x ^ p := by
  unfold ratPow
  have : ∀ (p : Nat) (acc : Rat), (List.replicate p x).foldl (· * ·) acc = acc * x ^ p := by
    intro p; induction p with
    | zero => intro acc; simp
    | succ k ih => intro acc; rw [List.replicate_succ, List.foldl_cons, ih, pow_succ]; ring
  rw [this]; ring

theorem sumE_fold_fin (l : List Rat) (f : Rat → Rat) : ∀ q : Rat,
    (l.map fun x => ERat.fin (f x)).foldl ERat.add (.fin q) = .fin (q + (l.map f).sum) := by
  induction l with
  | nil => intro q; simp
  | cons x xs ih => intro q; simp only [List.map_cons, List.foldl_cons, ERat.add, ih, List.sum_cons]; congr 1; ring

theorem sumE_fold_inf (l : List ERat) : l.foldl ERat.add .inf = .inf := by
  induction l with
  | nil => rfl
  | cons x xs ih => simp only [List.foldl_cons, ERat.add, ih]

/-- positive order: the lane sum of `|x|^p` is finite -/
theorem sumE_pow_pos (p : Int) (hp : 0 ≤ p) (l : List Rat) :
    sumE (l.map (powE p)) = .fin ((l.map fun x => |x| ^ p.natAbs).sum) := by
  have hf : (l.map (powE p)) = l.map fun x => ERat.fin (|x| ^ p.natAbs) := by
    apply List.map_congr_left; intro x _
    simp only [powE, not_lt.2 hp, if_false, ratPow_eq_pow, absR_eq_abs]
  rw [hf, sumE, sumE_fold_fin l (fun x => |x| ^ p.natAbs) 0]; simp

/-- negative order: `+inf` as soon as the lane holds a zero, otherwise the finite sum of the reciprocal powers -/
theorem sumE_pow_neg (p : Int) (hp : p < 0) (l : List Rat) :
    sumE (l.map (powE p)) = if (0 : Rat) ∈ l then .inf else .fin ((l.map fun x => 1 / |x| ^ p.natAbs).sum) := by
  have key : ∀ (l : List Rat) (q : Rat), (l.map (powE p)).foldl ERat.add (.fin q) =
      if (0 : Rat) ∈ l then .inf else .fin (q + (l.map fun x => 1 / |x| ^ p.natAbs).sum) := by
    intro l; induction l with
    | nil => intro q; simp
    | cons x xs ih =>
      intro q
      by_cases hx : x = 0
      · subst hx
        simp only [List.map_cons, List.foldl_cons, powE, hp, if_true, ERat.add, sumE_fold_inf, List.mem_cons, true_or]
      · have h0 : ¬ ((0 : Rat) = x) := fun h => hx h.symm
        simp only [List.map_cons, List.foldl_cons, powE, hp, if_true, hx, if_false, ERat.add, ih, List.mem_cons, h0, false_or,
          List.sum_cons, ratPow_eq_pow, absR_eq_abs]
        split
        · rfl
        · congr 1; ring
  rw [sumE, key l 0]; simp

theorem powArr_wf (p : Int) (a : Arr Rat) (hwf : a.WF) (hne : a.shape ≠ []) : (powArr p a).WF := by
  unfold Arr.WF powArr at *; simp [hne]; exact hwf

theorem powArr_shape (p : Int) (a : Arr Rat) (hne : a.shape ≠ []) : (powArr p a).shape = a.shape := by
  simp [powArr, hne]

/-- the general integer order along an axis: the entry at `c` is `rootE v` of the lane sum of the powers -/
theorem pow_arm_spec (a : Arr Rat) (ax : Int) (v : Int) (hv0 : v ≠ 0) (hv1 : v ≠ 1) (hv2 : v ≠ 2)
    (hwf : a.WF) (hnz : 0 ∉ a.shape) (hax : normalizeAxis a.ndim ax < a.ndim) :
    ∃ r, normVecX a (.int v) ax = .ok r ∧
      r.shape = (if a.ndim > 1 then a.shape.eraseIdx (normalizeAxis a.ndim ax) else [1]) ∧ r.WF ∧
      ∀ c, inRange (a.shape.eraseIdx (normalizeAxis a.ndim ax)) c = true →
        r.get? (if a.ndim > 1 then c else [0]) =
          some (rootE v (sumE ((laneOf a (normalizeAxis a.ndim ax) (c.insertIdx (normalizeAxis a.ndim ax) 0)).map (powE v)))) := by
  have hne : a.shape ≠ [] := by
    intro h; have : a.ndim = 0 := by simp [Arr.ndim, h]
    omega
  have hsh := powArr_shape v a hne
  have hnd : (powArr v a).ndim = a.ndim := by simp [Arr.ndim, hsh]
  obtain ⟨r, h1, h2, h3, h4⟩ := redAx_spec (powArr v a) (ERat.fin 0) (ERat.fin 0) ax sumBodyE sumE (powArr_wf v a hwf hne)
    (by rw [hsh]; exact hnz) (by rw [hnd]; exact hax) (fun lane _ => rfl)
  rw [hnd, hsh] at h2 h4
  refine ⟨⟨r.elems.map (rootE v), r.shape⟩, ?_, h2, ?_, ?_⟩
  · simp only [normVecX, hv0, hv1, hv2, if_false, bcastGuard_ok a hnz, bind, Res.bind, h1]
  · unfold Arr.WF at *; simpa using h3
  · intro c hc
    have e := h4 c hc
    rw [laneOf_image (powE v) a (powArr v a) hsh rfl] at e
    have hg : ∀ cc, (⟨r.elems.map (rootE v), r.shape⟩ : Arr Sym).get? cc = (r.get? cc).map (rootE v) := by
      intro cc; simp only [Arr.get?, List.getElem?_map]
    rw [hg]
    by_cases hd : a.ndim > 1
    · simp only [hd, if_true] at e ⊢; rw [e]; rfl
    · simp only [hd, if_false] at e ⊢; rw [e]; rfl

end ArrModel.C15
