import ArrProofs.Lemmas.C14Ext
import ArrProofs.Lemmas.Axis
import ArrProofs.Lemmas.C11Append
import ArrProofs.Lemmas.C11OneD
/-! helper lemmas for the C14 extension, part 2: `dot` with an operand of rank ≥ 3 (`dot_1d` on a stack, `dot_nd`) -/

namespace ArrModel
namespace C14
open Finset

/-! ### `dot_1d`, a stack on the left: `get_rows` reads `shape[0]` pieces of length `shape[1]` -/

theorem wf_len_stack {a : A} {s0 s1 : Nat} {rest : List Nat} (hwf : a.WF) (hs : a.shape = s0 :: s1 :: rest) :
    a.elems.length = s0 * (s1 * rest.prod) := by
  rw [hwf, hs]; simp

theorem getRows_stack (a : A) (s0 s1 : Nat) (rest : List Nat) (hsa : a.shape = s0 :: s1 :: rest) :
    getRows a = .ok ((List.range s0).map (fun i => Arr.flat (row a s1 i))) := by
  unfold getRows
  simp [hsa, Res.idx, pieces, row]

theorem row_le_stack {a : A} {s0 k : Nat} {rest : List Nat} (hwf : a.WF) (hs : a.shape = s0 :: k :: rest)
    (hr : 0 < rest.prod) {i : Nat} (hi : i < s0) : (i + 1) * k ≤ a.elems.length := by
  rw [wf_len_stack hwf hs]
  calc (i + 1) * k ≤ s0 * k := Nat.mul_le_mul_right k hi
    _ = s0 * (k * 1) := by rw [Nat.mul_one]
    _ ≤ s0 * (k * rest.prod) := Nat.mul_le_mul_left _ (Nat.mul_le_mul_left _ hr)

theorem dot1dNd_stackvec (a b : A) (s0 k : Nat) (rest : List Nat) (ha : a.WF) (hb : b.WF)
    (hsa : a.shape = s0 :: k :: rest) (hsb : b.shape = [k]) (hk : 0 < k) (hr : 0 < rest.prod) :
    dot1dNd a b = .ok (Arr.flat ((List.range s0).map (fun i => sumProd (row a k i) b.elems))) := by
  have hlb : b.elems.length = k := by rw [hb, hsb]; simp
  unfold dot1dNd
  simp only [Arr.ndim, hsa, hsb, List.length_cons, List.length_nil, Nat.zero_add, Nat.lt_irrefl, if_false,
    getRows_stack a s0 k rest hsa, Res.bind_ok, Res.pure_eq, dotIterate, List.map_cons, List.map_nil, List.flatMap_map]
  rw [if_pos (by omega)]
  rw [← List.map_eq_flatMap, collectRes_map _ _ (fun i => (⟨[sumProd (row a k i) b.elems], [1]⟩ : A))]
  · simp only [Res.bind_ok, List.flatMap_map, ← List.map_eq_flatMap]
  · intro i hi
    have hi' : i < s0 := by simpa using hi
    apply vdot_flat
    · rw [length_row a k i (row_le_stack ha hsa hr hi'), hlb]
    · rw [hlb]; omega

/-- a stack on the left whose `shape[1]` differs from the vector length is refused (whatever the last axis is) -/
theorem dot1dNd_stackvec_refused (a b : A) (s0 s1 k : Nat) (rest : List Nat) (ha : a.WF) (hb : b.WF)
    (hsa : a.shape = s0 :: s1 :: rest) (hsb : b.shape = [k]) (hs0 : 0 < s0) (hr : 0 < rest.prod) (hne : s1 ≠ k) :
    dot1dNd a b = .err .MustBeEqual := by
  have hlb : b.elems.length = k := by rw [hb, hsb]; simp
  unfold dot1dNd
  simp only [Arr.ndim, hsa, hsb, List.length_cons, List.length_nil, Nat.zero_add, Nat.lt_irrefl, if_false,
    getRows_stack a s0 s1 rest hsa, Res.bind_ok, Res.pure_eq, dotIterate, List.map_cons, List.map_nil, List.flatMap_map]
  rw [if_pos (by omega)]
  rw [← List.map_eq_flatMap, collectRes_all_err _ _ .MustBeEqual (by simp; omega)]
  · rfl
  · intro i hi
    have hi' : i < s0 := by simpa using hi
    unfold vdot
    simp [Arr.flat, Arr.len, length_row a s1 i (row_le_stack ha hsa hr hi'), hlb, hne]

/-! ### the all-axes-reversed transpose used by `get_columns` -/

theorem permute_reverse (s : List Nat) : permute (List.range s.length).reverse s = s.reverse := by
  apply List.ext_getElem
  · simp [permute]
  · intro i h1 h2
    have hi : i < s.length := by simpa [permute] using h1
    simp only [permute, List.getElem_map, List.getElem_reverse, List.getElem_range, List.length_range,
      List.getD_eq_getElem?_getD]
    rw [List.getElem?_eq_getElem (by omega)]
    rfl

theorem permute_reverse_of_length (n : Nat) (c : List Nat) (h : c.length = n) :
    permute (List.range n).reverse c = c.reverse := by
  subst h; exact permute_reverse c

/-- the element buffer of `transpose(None)` -/
def revT (b : A) : List Int := transposeElems b.shape (List.range b.ndim).reverse b.elems 0

theorem length_revT (b : A) : (revT b).length = b.elems.length := transposeElems_length _ _ _ _

theorem transpose_none_ok (b : A) (hb : b.WF) : b.transpose 0 none = .ok ⟨revT b, b.shape.reverse⟩ := by
  unfold Arr.transpose
  simp only [axesOf]
  rw [(validAxes_ok_iff b.ndim _).2 (List.reverse_perm _)]
  simp only [Res.bind_ok, Arr.ndim, permute_reverse, Arr.new]
  rw [if_pos (by rw [transposeElems_length, List.prod_reverse]; exact hb.symm)]
  rfl

theorem revT_get (b : A) (hb : b.WF) (c : List Nat) (hc : inRange b.shape c = true) :
    (revT b)[ravel b.shape.reverse c.reverse]? = b.elems[ravel b.shape c]? := by
  have h := transposeElems_get b.shape (List.range b.shape.length).reverse b.elems 0 (List.reverse_perm _) hb c hc
  rw [permute_reverse, permute_reverse_of_length _ c (inRange_length _ _ hc)] at h
  exact h

theorem ravel_zeros : ∀ (s : List Nat), ravel s (List.replicate s.length 0) = 0
  | [] => rfl
  | d :: ds => by simp [List.replicate_succ, ravel, ravel_zeros ds]

theorem inRange_zeros : ∀ (s : List Nat), 0 < s.prod → inRange s (List.replicate s.length 0) = true
  | [], _ => rfl
  | d :: ds, h => by
    simp only [List.prod_cons] at h
    have hd : 0 < d := Nat.pos_of_mul_pos_right h
    have hds : 0 < ds.prod := Nat.pos_of_mul_pos_left h
    simp [List.replicate_succ, inRange, hd, inRange_zeros ds hds]

/-- position `j·s0 + i` of the reversed transpose of a stack `s0 :: s1 :: rest` is the entry `(i, j, 0, …, 0)` -/
theorem revT_col (b : A) (s0 s1 : Nat) (rest : List Nat) (hb : b.WF) (hsb : b.shape = s0 :: s1 :: rest)
    (hr : 0 < rest.prod) (i j : Nat) (hi : i < s0) (hj : j < s1) :
    (revT b).getD (j * s0 + i) 0 = b.ent (i :: j :: List.replicate rest.length 0) := by
  have hc : inRange b.shape (i :: j :: List.replicate rest.length 0) = true := by
    rw [hsb]; simp [inRange, hi, hj, inRange_zeros rest hr]
  have h := revT_get b hb _ hc
  have hrav : ravel b.shape.reverse (i :: j :: List.replicate rest.length 0).reverse = j * s0 + i := by
    rw [hsb]
    simp only [List.reverse_cons, List.append_assoc, List.cons_append, List.nil_append, List.reverse_replicate]
    rw [ravel_append rest.reverse (List.replicate rest.length 0) [s1, s0] [j, i] (by simp)]
    have hz := ravel_zeros rest.reverse
    rw [List.length_reverse] at hz
    rw [hz]; simp [ravel]
  rw [hrav] at h
  rw [List.getD_eq_getElem?_getD, h, ent_eq_getD, List.getD_eq_getElem?_getD]

/-- column piece `j` of the reversed transpose -/
def colT (b : A) (s0 j : Nat) : List Int := ((revT b).drop (j * s0)).take s0

theorem getColumnsNd_stack (b : A) (s0 s1 : Nat) (rest : List Nat) (hb : b.WF) (hsb : b.shape = s0 :: s1 :: rest) :
    getColumnsNd b = .ok ((List.range s1).map (fun j => Arr.flat (colT b s0 j))) := by
  unfold getColumnsNd
  rw [transpose_none_ok b hb]
  simp [hsb, Res.idx, pieces, colT]

theorem colT_le {b : A} {s0 s1 : Nat} {rest : List Nat} (hb : b.WF) (hsb : b.shape = s0 :: s1 :: rest)
    (hr : 0 < rest.prod) {j : Nat} (hj : j < s1) : (j + 1) * s0 ≤ (revT b).length := by
  rw [length_revT, wf_len_stack hb hsb]
  calc (j + 1) * s0 ≤ s1 * s0 := Nat.mul_le_mul_right s0 hj
    _ = s0 * (s1 * 1) := by rw [Nat.mul_one, Nat.mul_comm]
    _ ≤ s0 * (s1 * rest.prod) := Nat.mul_le_mul_left _ (Nat.mul_le_mul_left _ hr)

theorem length_colT {b : A} {s0 s1 : Nat} {rest : List Nat} (hb : b.WF) (hsb : b.shape = s0 :: s1 :: rest)
    (hr : 0 < rest.prod) {j : Nat} (hj : j < s1) : (colT b s0 j).length = s0 :=
  length_piece s0 (revT b) j (colT_le hb hsb hr hj)

theorem dot1dNd_vecstack (a b : A) (k s1 : Nat) (rest : List Nat) (ha : a.WF) (hb : b.WF)
    (hsa : a.shape = [k]) (hsb : b.shape = k :: s1 :: rest) (hk : 0 < k) (hr : 0 < rest.prod) :
    dot1dNd a b = .ok (Arr.flat ((List.range s1).map (fun j => sumProd a.elems (colT b k j)))) := by
  have hla : a.elems.length = k := by rw [ha, hsa]; simp
  unfold dot1dNd
  simp only [Arr.ndim, hsa, hsb, List.length_cons, List.length_nil, Nat.zero_add, Nat.lt_irrefl, if_false,
    getColumnsNd_stack b k s1 rest hb hsb, Res.bind_ok, Res.pure_eq, dotIterate]
  rw [if_pos (by omega)]
  simp only [List.flatMap_cons, List.flatMap_nil, List.append_nil, List.map_map]
  rw [collectRes_map _ _ (fun j => (⟨[sumProd a.elems (colT b k j)], [1]⟩ : A))]
  · simp only [Res.bind_ok, List.flatMap_map, ← List.map_eq_flatMap]
  · intro j hj
    have hj' : j < s1 := by simpa using hj
    apply vdot_flat_right
    · rw [hla]; exact (length_colT hb hsb hr hj').symm
    · rw [length_colT hb hsb hr hj']; omega

theorem dot1dNd_vecstack_refused (a b : A) (k s0 s1 : Nat) (rest : List Nat) (ha : a.WF) (hb : b.WF)
    (hsa : a.shape = [k]) (hsb : b.shape = s0 :: s1 :: rest) (hs1 : 0 < s1) (hr : 0 < rest.prod) (hne : k ≠ s0) :
    dot1dNd a b = .err .MustBeEqual := by
  have hla : a.elems.length = k := by rw [ha, hsa]; simp
  unfold dot1dNd
  simp only [Arr.ndim, hsa, hsb, List.length_cons, List.length_nil, Nat.zero_add, Nat.lt_irrefl, if_false,
    getColumnsNd_stack b s0 s1 rest hb hsb, Res.bind_ok, Res.pure_eq, dotIterate]
  rw [if_pos (by omega)]
  simp only [List.flatMap_cons, List.flatMap_nil, List.append_nil, List.map_map]
  rw [collectRes_all_err _ _ .MustBeEqual (by simp; omega)]
  · rfl
  · intro j hj
    have hj' : j < s1 := by simpa using hj
    unfold vdot
    simp [Function.comp, Arr.flat, Arr.len, length_colT hb hsb hr hj', hla, hne]

end C14
end ArrModel
