import ArrProofs.Lemmas.C18Str
import ArrProofs.Lemmas.C18Join
/-!
# Lemmas for C18 — shape of the Debug text of a regular nested literal

`nest s es = "["^r ++ mid sepL s es ++ "]"^r`: all the structure sits in the middle text, which is the leaves joined by
depth-dependent separators `]^j, [^j`; a written literal is `Valid`.
-/
namespace ArrModel.C18

/-! ### the text between the outer brackets -/

/-- separator between two items of nesting depth `j`, as Debug prints it -/
def sepL : Nat → Str
  | 0 => [',', ' ']
  | j + 1 => rep ']' (j + 1) ++ ',' :: ' ' :: rep '[' (j + 1)

/-- the same after `"], [" → "],["` -/
def sepT : Nat → Str
  | 0 => [',', ' ']
  | j + 1 => rep ']' (j + 1) ++ ',' :: rep '[' (j + 1)

/-- the tight separators with `z` after the element-level comma (`z = " "` for most front ends, `z = ""` for
`array_string!`, whose `"\", \"" → "\",\""` step removes the blank) -/
def sepTz (z : Str) : Nat → Str
  | 0 => ',' :: z
  | j + 1 => rep ']' (j + 1) ++ ',' :: rep '[' (j + 1)

theorem sepT_eq : sepT = sepTz [' '] := by
  funext j; cases j <;> rfl

/-- the text of a regular nesting without its leading `[`s and trailing `]`s -/
def mid (sep : Nat → Str) : List Nat → List Str → Str
  | [], es => es.headD []
  | n :: s, es => joinWith (sep s.length) ((chunks s.prod n es).map (mid sep s))

theorem sepL_eq (j : Nat) : sepL j = rep ']' j ++ [',', ' '] ++ rep '[' j := by
  cases j with
  | zero => rfl
  | succ j => simp [sepL]

theorem nest_eq_mid (s : List Nat) (hpos : ∀ d ∈ s, 1 ≤ d) (es : List Str) :
    nest s es = rep '[' s.length ++ mid sepL s es ++ rep ']' s.length := by
  induction s generalizing es with
  | nil => simp [nest, mid]
  | cons n s ih =>
    have hs : ∀ d ∈ s, 1 ≤ d := fun d hd => hpos d (by simp [hd])
    have hn : 1 ≤ n := hpos n (by simp)
    simp only [nest, mid]
    have : (chunks s.prod n es).map (nest s)
        = (chunks s.prod n es).map (fun c => rep '[' s.length ++ mid sepL s c ++ rep ']' s.length) :=
      List.map_congr_left (fun c _ => ih hs c)
    rw [this, joinWith_wrap _ _ _ _ _ (chunks_ne_nil _ _ _ hn), ← sepL_eq]
    simp [List.replicate_succ, rep_snoc]


/-! ### validity of a written literal -/

/-- characters the surgery treats specially -/
def special (c : Char) : Bool := c == '[' || c == ']' || c == ',' || c == '"' || c == '#'

/-- an element text the generic arm can carry: not empty, free of brackets, commas, quotes and `#`,
not beginning with a blank (the arm turns `", "` into `","` after the brackets are gone) -/
structure Plain (e : Str) : Prop where
  ne : e ≠ []
  chars : ∀ c ∈ e, special c = false
  lead : e.head? ≠ some ' '

/-- a regular nested literal of shape `s` (every axis at least 1) with leaves `es` in reading order -/
structure Valid (s : List Nat) (es : List Str) : Prop where
  pos : ∀ d ∈ s, 1 ≤ d
  len : es.length = s.prod
  plain : ∀ e ∈ es, Plain e

theorem Valid.chunk {n : Nat} {s : List Nat} {es c : List Str} (h : Valid (n :: s) es)
    (hc : c ∈ chunks s.prod n es) : Valid s c := by
  have := mem_chunks (by simpa using h.len) hc
  exact ⟨fun d hd => h.pos d (by simp [hd]), this.1, fun e he => h.plain e (this.2 e he)⟩

theorem Valid.single {es : List Str} (h : Valid [] es) : ∃ e, es = [e] ∧ Plain e := by
  have hl := h.len
  match es, hl with
  | [e], _ => exact ⟨e, rfl, h.plain e (by simp)⟩

theorem Plain.not_mem {e : Str} (h : Plain e) {c : Char} (hc : special c = true) : c ∉ e := by
  intro hm; have := h.chars c hm; rw [hc] at this; cases this

theorem Plain.noStart {e : Str} (h : Plain e) {c : Char} (p : Str) (hc : special c = true) : NoStart (c :: p) e :=
  noStart_of_head_not_mem (h.not_mem hc)

/-- the middle text begins with an ordinary character -/
theorem mid_head (sep : Nat → Str) {s : List Nat} {es : List Str} (h : Valid s es) :
    ∃ c r, mid sep s es = c :: r ∧ special c = false ∧ c ≠ ' ' := by
  induction s generalizing es with
  | nil =>
    obtain ⟨e, rfl, he⟩ := h.single
    cases e with
    | nil => exact absurd rfl he.ne
    | cons c r => exact ⟨c, r, rfl, he.chars c (by simp), by simpa using he.lead⟩
  | cons n s ih =>
    have hn : 1 ≤ n := h.pos n (by simp)
    obtain ⟨n, rfl⟩ : ∃ m, n = m + 1 := ⟨n - 1, by omega⟩
    have hv : Valid s (es.take s.prod) := h.chunk (by simp [chunks])
    obtain ⟨c, r, hcr, hc⟩ := ih hv
    simp only [mid, chunks, List.map_cons]
    cases hrest : (chunks s.prod n (es.drop s.prod)).map (mid sep s) with
    | nil => exact ⟨c, r, by simp [hcr], hc⟩
    | cons y ys => exact ⟨c, r ++ sep s.length ++ joinWith (sep s.length) (y :: ys), by simp [joinWith_cons_cons, hcr], hc⟩

theorem mem_mid {sep : Nat → Str} {s : List Nat} {es : List Str} {c : Char} (h : c ∈ mid sep s es) :
    (∃ j, c ∈ sep j) ∨ ∃ e ∈ es, c ∈ e := by
  induction s generalizing es with
  | nil =>
    cases es with
    | nil => simp [mid] at h
    | cons e r => exact Or.inr ⟨e, by simp, by simpa [mid] using h⟩
  | cons n s ih =>
    simp only [mid] at h
    rcases mem_joinWith h with h | ⟨y, hy, hc⟩
    · exact Or.inl ⟨_, h⟩
    · obtain ⟨ch, hch, rfl⟩ := List.mem_map.1 hy
      rcases ih hc with h | ⟨e, he, hce⟩
      · exact Or.inl h
      · refine Or.inr ⟨e, ?_, hce⟩
        -- members of a chunk are members of the list
        clear ih hc hy h
        generalize s.prod = k at hch
        induction n generalizing es with
        | zero => simp [chunks] at hch
        | succ n ihn =>
          simp only [chunks, List.mem_cons] at hch
          rcases hch with rfl | hch
          · exact List.mem_of_mem_take he
          · exact List.mem_of_mem_drop (ihn hch)

end ArrModel.C18
