import ArrProofs.Lemmas.C01Core
import ArrProofs.Lemmas.C14
import ArrModel.C16
import ArrModel.C19Pipe
import ArrModel.C20
/-!
# Lemmas.C01Num — well-formedness of the results of the numeric layer
(operator overloads C20, structured constructors C16, products C14, bit packing C19).

Every `ok` exit either passes `Array::new` / `reshape` / `flat`, or builds the record literally; the literal
exits (`bitop`, `bitScalar`, `assignop`, `assignScalar`, `multiplyScalar`, `alongRef`) are the ones where the
well-formedness of the operands is really used — the `*_needs_wf` theorems show that it cannot be dropped.
-/
namespace ArrModel.C01
open ArrModel

variable {α β : Type}

/-! ## C20 — operator overloads -/

theorem c20_newUnwrap_wf (elems : List α) (shape : List Nat) {r : Arr α}
    (h : C20.newUnwrap elems shape = .ok r) : r.WF := by
  unfold C20.newUnwrap at h
  split at h
  · cases h; exact new_ok_wf (by assumption)
  · cases h

theorem c20_collectArr_wf (elems : List α) {r : Arr α} (h : C20.collectArr elems = .ok r) : r.WF :=
  c20_newUnwrap_wf _ _ h

theorem c20_reshape_wf (a : Arr α) (shape : List Nat) (_ha : a.WF) {r : Arr α}
    (h : C20.reshape a shape = .ok r) : r.WF := by
  unfold C20.reshape at h
  split at h
  · exact new_ok_wf h
  · cases h

theorem c20_mapArr_wf (f : α → β) (a : Arr α) (_ha : a.WF) {r : Arr β}
    (h : C20.mapArr f a = .ok r) : r.WF := by
  unfold C20.mapArr at h
  obtain ⟨x, hx, h⟩ := bind_ok_inv h
  exact c20_reshape_wf _ _ (c20_collectArr_wf _ hx) h

/-- `binop` goes through `Array::new`: no hypothesis at all -/
theorem c20_binop_wf_unconditional (f : α → α → α) (a b : Arr α) {r : Arr α}
    (h : C20.binop f a b = .ok r) : r.WF := by
  unfold C20.binop at h
  split at h
  · cases h
  · exact c20_newUnwrap_wf _ _ h

theorem c20_binop_wf (f : α → α → α) (a b : Arr α) (_ha : a.WF) (_hb : b.WF) {r : Arr α}
    (h : C20.binop f a b = .ok r) : r.WF := c20_binop_wf_unconditional f a b h

theorem c20_scalarop_wf (f : α → α → α) (a : Arr α) (s : α) (ha : a.WF) {r : Arr α}
    (h : C20.scalarop f a s = .ok r) : r.WF := by
  unfold C20.scalarop at h
  obtain ⟨x, hx, h⟩ := bind_ok_inv h
  exact c20_reshape_wf _ _ (c20_mapArr_wf _ _ ha hx) h

theorem c20_zipAssign_length (g : α → α → α) : ∀ (xs ys : List α), (C20.zipAssign g xs ys).length = xs.length
  | [], _ => by simp [C20.zipAssign]
  | _ :: _, [] => by simp [C20.zipAssign]
  | x :: xs, y :: ys => by simp [C20.zipAssign, c20_zipAssign_length g xs ys]

/-- the receiver keeps its length and its shape: only the receiver's well-formedness is used -/
theorem c20_assignop_wf (g : α → α → α) (a b : Arr α) (ha : a.WF) (_hb : b.WF) {r : Arr α}
    (h : C20.assignop g a b = .ok r) : r.WF := by
  unfold C20.assignop at h
  split at h
  · cases h
  · cases h
    simpa [Arr.WF, c20_zipAssign_length] using ha

theorem c20_assignScalar_wf (g : α → α → α) (a : Arr α) (s : α) (ha : a.WF) {r : Arr α}
    (h : C20.assignScalar g a s = .ok r) : r.WF := by
  unfold C20.assignScalar at h
  cases h
  simpa [Arr.WF] using ha

theorem c20_unop_wf (f : α → α) (a : Arr α) (_ha : a.WF) {r : Arr α}
    (h : C20.unop f a = .ok r) : r.WF := c20_newUnwrap_wf _ _ h

/-- struct literal: the `zip` is as long as the shorter operand, so BOTH operands must be well-formed -/
theorem c20_bitop_wf (f : α → α → α) (a b : Arr α) (ha : a.WF) (hb : b.WF) {r : Arr α}
    (h : C20.bitop f a b = .ok r) : r.WF := by
  unfold C20.bitop at h
  split at h
  · cases h
  · rename_i hs
    have hs : a.shape = b.shape := Decidable.not_not.mp hs
    cases h
    have hb' : b.elems.length = a.shape.prod := by rw [hs]; exact hb
    have ha' : a.elems.length = a.shape.prod := ha
    simp only [Arr.WF, List.length_zipWith]
    omega

theorem c20_bitScalar_wf (f : α → α → α) (a : Arr α) (s : α) (ha : a.WF) {r : Arr α}
    (h : C20.bitScalar f a s = .ok r) : r.WF := by
  unfold C20.bitScalar at h
  cases h
  simpa [Arr.WF] using ha

theorem c20_bitAssign_wf (f : α → α → α) (a b : Arr α) (ha : a.WF) (hb : b.WF) {r : Arr α}
    (h : C20.bitAssign f a b = .ok r) : r.WF := c20_assignop_wf f a b ha hb h

theorem c20_bitAssignScalar_wf (f : α → α → α) (a : Arr α) (s : α) (ha : a.WF) {r : Arr α}
    (h : C20.bitAssignScalar f a s = .ok r) : r.WF := c20_assignScalar_wf f a s ha h

/-! ### sharpness: the struct-literal operators really bypass `Array::new` -/

/-- a well-formed receiver and an ill-formed operand of the same `shape` field: the result is ill-formed -/
theorem c20_bitop_needs_wf : ∃ (a b r : Arr Int), a.WF ∧ a.shape = b.shape ∧
    C20.bitop (· + ·) a b = .ok r ∧ ¬ r.WF :=
  ⟨⟨[1, 2], [2]⟩, ⟨[1], [2]⟩, ⟨[2], [2]⟩, by decide, rfl, rfl, by decide⟩

theorem c20_bitScalar_needs_wf : ∃ (a r : Arr Int), C20.bitScalar (· + ·) a 0 = .ok r ∧ ¬ r.WF :=
  ⟨⟨[1], [2]⟩, ⟨[1], [2]⟩, rfl, by decide⟩

theorem c20_assignScalar_needs_wf : ∃ (a r : Arr Int), C20.assignScalar (· + ·) a 0 = .ok r ∧ ¬ r.WF :=
  ⟨⟨[1], [2]⟩, ⟨[1], [2]⟩, rfl, by decide⟩

/-- for `assignop` it is the receiver that matters (the operand may be ill-formed, see `c20_assignop_wf`) -/
theorem c20_assignop_needs_wf : ∃ (a b r : Arr Int), b.WF ∧ a.shape = b.shape ∧
    C20.assignop (· + ·) a b = .ok r ∧ ¬ r.WF :=
  ⟨⟨[1], [2]⟩, ⟨[1, 2], [2]⟩, ⟨[2], [2]⟩, by decide, rfl, rfl, by decide⟩

/-! ## C16 — structured constructors (every exit is `Array::new` or `Array::flat`) -/

theorem c16_full_wf (shape : List Nat) (v : α) {r : Arr α} (h : C16.full shape v = .ok r) : r.WF := new_ok_wf h

theorem c16_fullLike_wf (other : Arr α) (v : α) (_ho : other.WF) {r : Arr α}
    (h : C16.fullLike other v = .ok r) : r.WF := new_ok_wf h

theorem c16_zeros_wf (shape : List Nat) {r : Arr Int} (h : C16.zeros shape = .ok r) : r.WF := new_ok_wf h

theorem c16_zerosLike_wf (other : Arr Int) (_ho : other.WF) {r : Arr Int}
    (h : C16.zerosLike other = .ok r) : r.WF := new_ok_wf h

theorem c16_ones_wf (shape : List Nat) {r : Arr Int} (h : C16.ones shape = .ok r) : r.WF := new_ok_wf h

theorem c16_onesLike_wf (other : Arr Int) (_ho : other.WF) {r : Arr Int}
    (h : C16.onesLike other = .ok r) : r.WF := new_ok_wf h

theorem c16_rand_wf (draw : Nat → α) (shape : List Nat) {r : Arr α}
    (h : C16.rand draw shape = .ok r) : r.WF := new_ok_wf h

theorem c16_eye_wf (n : Nat) (m : Option Nat) (k : Option Nat) {r : Arr Int}
    (h : C16.eye n m k = .ok r) : r.WF := by
  unfold C16.eye at h
  res_inv
  wf_close

theorem c16_identity_wf (n : Nat) {r : Arr Int} (h : C16.identity n = .ok r) : r.WF := new_ok_wf h

theorem c16_tri_wf (n : Nat) (m : Option Nat) (k : Option Int) {r : Arr Int}
    (h : C16.tri n m k = .ok r) : r.WF := by
  unfold C16.tri at h
  res_inv
  wf_close

theorem c16_applyTriangular_wf (a : Arr Int) (k : Int) (compare : Int → Int → Int → Bool) (_ha : a.WF)
    {r : Arr Int} (h : C16.applyTriangular a k compare = .ok r) : r.WF := by
  unfold C16.applyTriangular at h
  res_inv
  wf_close

theorem c16_tril_wf (a : Arr Int) (k : Option Int) (ha : a.WF) {r : Arr Int}
    (h : C16.tril a k = .ok r) : r.WF := c16_applyTriangular_wf _ _ _ ha h

theorem c16_triu_wf (a : Arr Int) (k : Option Int) (ha : a.WF) {r : Arr Int}
    (h : C16.triu a k = .ok r) : r.WF := c16_applyTriangular_wf _ _ _ ha h

theorem c16_diag1d_wf (data : Arr Int) (k : Int) (_hd : data.WF) {r : Arr Int}
    (h : C16.diag1d data k = .ok r) : r.WF := by
  unfold C16.diag1d at h
  res_inv
  wf_close

theorem c16_diag2d_wf (data : Arr Int) (k : Int) (_hd : data.WF) {r : Arr Int}
    (h : C16.diag2d data k = .ok r) : r.WF := by
  unfold C16.diag2d at h
  res_inv
  wf_close

theorem c16_diag_wf (a : Arr Int) (k : Option Int) (ha : a.WF) {r : Arr Int}
    (h : C16.diag a k = .ok r) : r.WF := by
  unfold C16.diag at h
  split at h
  · cases h
  · dsimp only at h
    split at h
    · exact c16_diag1d_wf _ _ ha h
    · exact c16_diag2d_wf _ _ ha h

theorem c16_diagflat_wf (a : Arr Int) (k : Option Int) (_ha : a.WF) {r : Arr Int}
    (h : C16.diagflat a k = .ok r) : r.WF := c16_diag_wf _ _ (flat_wf _) h

theorem c16_vander_wf (a : Arr Int) (n : Option Nat) (increasing : Option Bool) (_ha : a.WF) {r : Arr Int}
    (h : C16.vander a n increasing = .ok r) : r.WF := by
  unfold C16.vander at h
  res_inv
  wf_close

theorem c16_arange_wf (start stop : Rat) (step : Option Rat) {r : Arr Rat}
    (h : C16.arange start stop step = .ok r) : r.WF := by
  unfold C16.arange at h
  res_inv
  wf_close

theorem c16_linspace_wf (start stop : Rat) (num : Option Nat) (endpoint : Option Bool) {r : Arr Rat}
    (h : C16.linspace start stop num endpoint = .ok r) : r.WF := by
  unfold C16.linspace at h
  res_inv
  wf_close

theorem c16_macroZeros_wf (dims : List Nat) {r : Arr Int} (h : C16.macroZeros dims = .ok r) : r.WF :=
  c16_zeros_wf _ h

theorem c16_macroOnes_wf (dims : List Nat) {r : Arr Int} (h : C16.macroOnes dims = .ok r) : r.WF :=
  c16_ones_wf _ h

theorem c16_macroFull_wf (shape : List Nat) (v : α) {r : Arr α} (h : C16.macroFull shape v = .ok r) : r.WF :=
  c16_full_wf _ _ h

theorem c16_macroEye_wf (n : Nat) (m : Option Nat) (k : Option Nat) {r : Arr Int}
    (h : C16.macroEye n m k = .ok r) : r.WF := c16_eye_wf _ _ _ h

theorem c16_macroIdentity_wf (n : Nat) {r : Arr Int} (h : C16.macroIdentity n = .ok r) : r.WF :=
  c16_identity_wf _ h

theorem c16_macroArange_wf (start stop : Rat) (step : Option Rat) {r : Arr Rat}
    (h : C16.macroArange start stop step = .ok r) : r.WF := c16_arange_wf _ _ _ h

theorem c16_macroRand_wf (draw : Nat → α) (dims : List Nat) {r : Arr α}
    (h : C16.macroRand draw dims = .ok r) : r.WF := c16_rand_wf _ _ h

/-! ## C14 — products (`reshape` / `flat` / a literal single-element array at every exit) -/

theorem c14_vdot_wf (a b : C14.A) (_ha : a.WF) (_hb : b.WF) {r : C14.A}
    (h : C14.vdot a b = .ok r) : r.WF := C14.vdot_wf h

theorem c14_outer_wf (a b : C14.A) (_ha : a.WF) (_hb : b.WF) {r : C14.A}
    (h : C14.outer a b = .ok r) : r.WF := C14.reshape_wf h

theorem c14_inner11_wf (a b : C14.A) (_ha : a.WF) (_hb : b.WF) {r : C14.A}
    (h : C14.inner11 a b = .ok r) : r.WF := by
  unfold C14.inner11 at h
  obtain ⟨_, _, h⟩ := bind_ok_inv h
  -- the C14 model refuses zero-length operands in this arm (an `if` in front of the literal result)
  first
    | (cases h; simp [Arr.WF])
    | (split at h <;> (cases h <;> simp [Arr.WF]))

theorem c14_innerNd_wf (a b : C14.A) (_ha : a.WF) (_hb : b.WF) {r : C14.A}
    (h : C14.innerNd a b = .ok r) : r.WF := by
  unfold C14.innerNd at h
  obtain ⟨_, _, h⟩ := bind_ok_inv h
  obtain ⟨_, _, h⟩ := bind_ok_inv h
  obtain ⟨_, _, h⟩ := bind_ok_inv h
  obtain ⟨_, _, h⟩ := bind_ok_inv h
  obtain ⟨_, _, h⟩ := bind_ok_inv h
  exact C14.reshape_wf h

theorem c14_inner_wf (a b : C14.A) (ha : a.WF) (hb : b.WF) {r : C14.A}
    (h : C14.inner a b = .ok r) : r.WF := by
  unfold C14.inner at h
  split at h
  · exact c14_inner11_wf a b ha hb h
  · obtain ⟨_, _, h⟩ := bind_ok_inv h
    exact c14_innerNd_wf a b ha hb h

theorem c14_matmulIterate_wf (a b : C14.A) (_ha : a.WF) (_hb : b.WF) {r : C14.A}
    (h : C14.matmulIterate a b = .ok r) : r.WF := by
  unfold C14.matmulIterate at h
  obtain ⟨_, _, h⟩ := bind_ok_inv h
  obtain ⟨_, _, h⟩ := bind_ok_inv h
  obtain ⟨_, _, h⟩ := bind_ok_inv h
  obtain ⟨_, _, h⟩ := bind_ok_inv h
  exact C14.reshape_wf h

theorem c14_matmul22_wf (a b : C14.A) (_ha : a.WF) (_hb : b.WF) {r : C14.A}
    (h : C14.matmul22 a b = .ok r) : r.WF := C14.matmul22_wf h

theorem c14_matmul1dNd_wf (fuel : Nat) (a b : C14.A) (_ha : a.WF) (_hb : b.WF) {r : C14.A}
    (h : C14.matmul1dNd fuel a b = .ok r) : r.WF := C14.matmul1dNd_wf fuel a b r h

theorem c14_matmulNd_wf (a b : C14.A) (_ha : a.WF) (_hb : b.WF) {r : C14.A}
    (h : C14.matmulNd a b = .ok r) : r.WF := C14.matmulNd_wf h

theorem c14_matmul_wf (a b : C14.A) (_ha : a.WF) (_hb : b.WF) {r : C14.A}
    (h : C14.matmul a b = .ok r) : r.WF := by
  unfold C14.matmul at h
  split at h
  · exact C14.vdot_wf h
  · split at h
    · obtain ⟨_, _, h⟩ := bind_ok_inv h
      exact C14.matmul1dNd_wf _ a b r h
    · split at h
      · exact C14.matmul22_wf h
      · exact C14.matmulNd_wf h

/-- literal record with the broadcast shape: here the well-formedness of both operands is used -/
theorem c14_multiplyScalar_wf (a b : C14.A) (ha : a.WF) (hb : b.WF) {r : C14.A}
    (h : C14.multiplyScalar a b = .ok r) : r.WF := C14.multiplyScalar_wf a b r ha hb h

theorem c14_dotIterate_wf (v1 v2 : List C14.A) (_h1 : AllWF v1) (_h2 : AllWF v2) {r : C14.A}
    (h : C14.dotIterate v1 v2 = .ok r) : r.WF := C14.dotIterate_wf h

theorem c14_dot1d_wf (a b : C14.A) (_ha : a.WF) (_hb : b.WF) {r : C14.A}
    (h : C14.dot1d a b = .ok r) : r.WF := C14.dot1d_wf h

/-- `dot` answers `none` on the arms that are not modelled (an operand of rank ≥ 3) -/
theorem c14_dot_wf (a b : C14.A) (ha : a.WF) (hb : b.WF) {r : C14.A}
    (h : C14.dot a b = some (.ok r)) : r.WF := by
  unfold C14.dot at h
  split at h
  · exact C14.multiplyScalar_wf a b r ha hb (Option.some.inj h)
  · split at h
    · exact C14.vdot_wf (Option.some.inj h)
    · split at h
      · obtain ⟨_, _, h⟩ := bind_ok_inv (Option.some.inj h)
        exact c14_matmul_wf a b ha hb h
      · split at h
        · split at h
          · exact C14.dot1d_wf (Option.some.inj h)
          · cases h
        · cases h

/-- sharpness of `c14_multiplyScalar_wf`: an ill-formed one-element operand gives an ill-formed product -/
theorem c14_multiplyScalar_needs_wf : ∃ (a b r : C14.A), b.WF ∧ C14.multiplyScalar a b = .ok r ∧ ¬ r.WF :=
  ⟨⟨[1], [3]⟩, ⟨[1, 2], [2]⟩, ⟨[1, 2], [3]⟩, by decide, by decide, by decide⟩

/-! ## C19 — bit unpacking / packing -/

theorem c19_slice1_wf (xs : List Nat) (lo hi : Nat) {r : Arr Nat} (h : C19.slice1 xs lo hi = .ok r) : r.WF := by
  unfold C19.slice1 at h
  split at h
  · cases h
  · cases h; exact flat_wf _

theorem c19_unpackFlatArr_wf (o : C19.BitOrder) (count : Option Int) (a : Arr Nat) (_ha : a.WF) {r : Arr Nat}
    (h : C19.unpackFlatArr o count a = .ok r) : r.WF := by
  unfold C19.unpackFlatArr at h
  dsimp only at h
  repeat' split at h
  all_goals first | cases h | exact c19_slice1_wf _ _ _ h

theorem c19_unpackLane_wf (o : C19.BitOrder) (count : Option Int) (lane : Arr Nat) (hl : lane.WF) {r : Arr Nat}
    (h : C19.unpackLane o count lane = .ok r) : r.WF := by
  unfold C19.unpackLane at h
  split at h
  · cases h; simp [Arr.WF]
  · exact c19_unpackFlatArr_wf _ _ _ hl h

theorem c19_packFlatArr_wf (o : C19.BitOrder) (a : Arr Nat) (_ha : a.WF) {r : Arr Nat}
    (h : C19.packFlatArr o a = .ok r) : r.WF := by
  unfold C19.packFlatArr at h
  obtain ⟨_, _, h⟩ := bind_ok_inv h
  cases h; exact flat_wf _

theorem c19_packLane_wf (o : C19.BitOrder) (lane : Arr Nat) (hl : lane.WF) {r : Arr Nat}
    (h : C19.packLane o lane = .ok r) : r.WF := by
  unfold C19.packLane at h
  split at h
  · cases h; simp [Arr.WF]
  · exact c19_packFlatArr_wf _ _ hl h

theorem prod_set_nat : ∀ (l : List Nat) (i m : Nat), i < l.length →
    (l.set i m).prod = (l.take i).prod * m * (l.drop (i + 1)).prod
  | [], _, _, h => by simp at h
  | _ :: ds, 0, m, _ => by simp
  | d :: ds, i + 1, m, h => by
    have := prod_set_nat ds i m (by simpa using h)
    simp only [List.set_cons_succ, List.prod_cons, List.take_succ_cons, List.drop_succ_cons, this, Nat.mul_assoc]

/-- the reference combinator builds its record literally, but the element list is laid out from the very numbers
(`outer`, `m`, `inner`) the shape is made of (`unlanes` pads/truncates each lane to `m`), so the result is
well-formed whatever the lanes' lengths are — stated in the shape of the `hal` hypothesis below -/
theorem c19_alongRef_wf (x : Arr Nat) (k : Nat) (f : Arr Nat → Res (Arr Nat)) (y : Arr Nat) (_hx : x.WF)
    (_hf : ∀ u v, u.WF → f u = .ok v → v.WF) (h : C19.alongRef x k f = .ok y) : y.WF := by
  unfold C19.alongRef at h
  split at h
  · cases h
  · rename_i hk
    dsimp only at h
    obtain ⟨rs, _, h⟩ := bind_ok_inv h
    split at h
    · cases h
    · cases h
      simp only [Arr.WF, C19.unlanes, List.length_map, List.length_range]
      rw [prod_set_nat _ _ _ (by unfold Arr.ndim at hk; omega)]

theorem c19_alongPipe_wf (x : Arr Nat) (k : Nat) (f : Arr Nat → Res (Arr Nat)) (y : Arr Nat) (_hx : x.WF)
    (_hf : ∀ u v, u.WF → f u = .ok v → v.WF) (h : C19.alongPipe x k f = .ok y) : y.WF :=
  applyAlongAxis_wf _ _ _ _ _ h

theorem c19_unpackBits_wf (along : C19.Along) (a : Arr Nat) (axis : Option Int) (count : Option Int)
    (order : Option C19.Spelling) (ha : a.WF)
    (hal : ∀ x k f y, x.WF → (∀ u v, u.WF → f u = .ok v → v.WF) → along x k f = .ok y → y.WF)
    {r : Arr Nat} (h : C19.unpackBits along a axis count order = .ok r) : r.WF := by
  -- order of the checks as of crate commit 97c65b7: bit order, axis, empty-array shortcut, arms
  unfold C19.unpackBits at h
  split at h
  · cases h
  · cases h
  · split at h
    · cases h
    · cases h
    · split at h
      · cases h; simp [Arr.WF]
      · split at h
        · exact c19_unpackFlatArr_wf _ _ _ ha h
        · exact hal _ _ _ _ ha (fun u v hu huv => c19_unpackLane_wf _ _ u hu huv) h

theorem c19_packBits_wf (along : C19.Along) (a : Arr Nat) (axis : Option Int)
    (order : Option C19.Spelling) (ha : a.WF)
    (hal : ∀ x k f y, x.WF → (∀ u v, u.WF → f u = .ok v → v.WF) → along x k f = .ok y → y.WF)
    {r : Arr Nat} (h : C19.packBits along a axis order = .ok r) : r.WF := by
  unfold C19.packBits at h
  split at h
  · cases h
  · cases h
  · split at h
    · cases h
    · cases h
    · split at h
      · cases h; simp [Arr.WF]
      · split at h
        · exact c19_packFlatArr_wf _ _ ha h
        · exact hal _ _ _ _ ha (fun u v hu huv => c19_packLane_wf _ u hu huv) h

theorem c19_unpackBits_pipe_wf (a : Arr Nat) (axis : Option Int) (count : Option Int)
    (order : Option C19.Spelling) (ha : a.WF) {r : Arr Nat}
    (h : C19.unpackBits C19.alongPipe a axis count order = .ok r) : r.WF :=
  c19_unpackBits_wf _ a axis count order ha c19_alongPipe_wf h

theorem c19_packBits_pipe_wf (a : Arr Nat) (axis : Option Int) (order : Option C19.Spelling) (ha : a.WF)
    {r : Arr Nat} (h : C19.packBits C19.alongPipe a axis order = .ok r) : r.WF :=
  c19_packBits_wf _ a axis order ha c19_alongPipe_wf h

theorem c19_unpackBits_ref_wf (a : Arr Nat) (axis : Option Int) (count : Option Int)
    (order : Option C19.Spelling) (ha : a.WF) {r : Arr Nat}
    (h : C19.unpackBits C19.alongRef a axis count order = .ok r) : r.WF :=
  c19_unpackBits_wf _ a axis count order ha c19_alongRef_wf h

theorem c19_packBits_ref_wf (a : Arr Nat) (axis : Option Int) (order : Option C19.Spelling) (ha : a.WF)
    {r : Arr Nat} (h : C19.packBits C19.alongRef a axis order = .ok r) : r.WF :=
  c19_packBits_wf _ a axis order ha c19_alongRef_wf h

end ArrModel.C01
