import ArrModel.Manip
/-! helper lemmas for C07 (reshape family): `reshape`, unit-axis insertion / removal folds, `sortNat`, `cycleTake` -/
namespace ArrModel
variable {α β : Type}

/-! ### reshape / new -/

theorem Arr.new_ok_iff (e : List α) (s : List Nat) (r : Arr α) :
    Arr.new e s = .ok r ↔ s.prod = e.length ∧ r = ⟨e, s⟩ := by
  unfold Arr.new
  by_cases h : s.prod = e.length
  · simp only [h, if_true, Res.ok.injEq, true_and]; exact eq_comm
  · simp only [h, if_false, false_and]; exact ⟨fun h => (by cases h), False.elim⟩

theorem Arr.new_of_prod {e : List α} {s : List Nat} (h : s.prod = e.length) : Arr.new e s = .ok ⟨e, s⟩ := by
  unfold Arr.new; rw [if_pos h]

theorem Arr.new_of_not_prod {e : List α} {s : List Nat} (h : s.prod ≠ e.length) :
    Arr.new e s = .err .ShapeMustMatchValuesLength := by
  unfold Arr.new; rw [if_neg h]

theorem Arr.reshape_elems {a r : Arr α} {s : List Nat} (h : a.reshape s = .ok r) : r.elems = a.elems := by
  rw [Arr.reshape, Arr.new_ok_iff] at h; rw [h.2]

theorem Arr.reshape_wf {a r : Arr α} {s : List Nat} (h : a.reshape s = .ok r) : r.WF := by
  rw [Arr.reshape, Arr.new_ok_iff] at h; rw [h.2]; exact h.1.symm

theorem Arr.reshape_shape {a r : Arr α} {s : List Nat} (h : a.reshape s = .ok r) : r.shape = s := by
  rw [Arr.reshape, Arr.new_ok_iff] at h; rw [h.2]

theorem Arr.reshape_of_prod {a : Arr α} {s : List Nat} (hwf : a.WF) (h : s.prod = a.shape.prod) :
    a.reshape s = .ok ⟨a.elems, s⟩ := by
  unfold Arr.reshape; exact Arr.new_of_prod (by rw [h]; exact hwf.symm)

/-- a `Res` bind that ends `ok` went through an `ok` -/
theorem Res.bind_eq_ok {γ δ : Type} {x : Res γ} {f : γ → Res δ} {r : δ} (h : (x >>= f) = .ok r) :
    ∃ y, x = .ok y ∧ f y = .ok r := by
  cases x with
  | ok y => exact ⟨y, rfl, h⟩
  | err e => cases h
  | panic => cases h

theorem Res.idx_of_lt {l : List β} {i : Nat} (h : i < l.length) : Res.idx l i = .ok l[i] := by
  unfold Res.idx; rw [List.getElem?_eq_getElem h]

/-! ### products under unit insertion / removal / filtering -/

theorem prod_insertIdx_one : ∀ (l : List Nat) (i : Nat), (l.insertIdx i 1).prod = l.prod
  | _, 0 => by simp
  | [], _ + 1 => by simp
  | x :: xs, i + 1 => by
    simp only [List.insertIdx_succ_cons, List.prod_cons, prod_insertIdx_one xs i]

theorem prod_eraseIdx_one : ∀ (l : List Nat) (i : Nat), l[i]? = some 1 → (l.eraseIdx i).prod = l.prod
  | [], _, h => by simp at h
  | x :: xs, 0, h => by
    simp only [List.getElem?_cons_zero, Option.some.injEq] at h
    simp [h]
  | x :: xs, i + 1, h => by
    simp only [List.getElem?_cons_succ] at h
    simp only [List.eraseIdx_cons_succ, List.prod_cons, prod_eraseIdx_one xs i h]

theorem prod_filter_ne_one : ∀ (l : List Nat), (l.filter (fun d => d != 1)).prod = l.prod
  | [] => rfl
  | x :: xs => by
    by_cases h : x = 1
    · subst h; simp [prod_filter_ne_one xs]
    · have : (x != 1) = true := by simp [h]
      simp only [List.filter_cons, this, if_true, List.prod_cons, prod_filter_ne_one xs]

theorem prod_replicate_one (n : Nat) : (List.replicate n 1).prod = 1 := by
  induction n with
  | zero => rfl
  | succ n ih => simp [List.replicate_succ, ih]

/-! ### `sortNat` -/

theorem sortNat_perm (l : List Nat) : (sortNat l).Perm l := List.mergeSort_perm _ _

theorem sortNat_sorted (l : List Nat) : (sortNat l).Pairwise (· ≤ ·) := by
  have h := List.pairwise_mergeSort (le := fun (a b : Nat) => decide (a ≤ b))
    (by intro a b c; simp only [decide_eq_true_eq]; omega)
    (by intro a b; simp only [Bool.or_eq_true, decide_eq_true_eq]; omega) l
  exact h.imp (by intro a b; simp)

theorem mem_sortNat {l : List Nat} {x : Nat} : x ∈ sortNat l ↔ x ∈ l := (sortNat_perm l).mem_iff

theorem sortNat_length (l : List Nat) : (sortNat l).length = l.length := (sortNat_perm l).length_eq

theorem sortNat_strict {l : List Nat} (h : l.Nodup) : (sortNat l).Pairwise (· < ·) := by
  have hn : (sortNat l).Nodup := (sortNat_perm l).nodup_iff.2 h
  exact ((sortNat_sorted l).and hn).imp (by intro a b ⟨h1, h2⟩; omega)

theorem sortNat_reverse_nodup {l : List Nat} : (sortNat l).reverse.Nodup ↔ l.Nodup :=
  ((List.reverse_perm _).trans (sortNat_perm l)).nodup_iff

theorem sortNat_reverse_desc {l : List Nat} (h : l.Nodup) : (sortNat l).reverse.Pairwise (· > ·) := by
  rw [List.pairwise_reverse]; exact sortNat_strict h

/-! ### `expand_dims`: the insertion fold -/

/-- insert a unit axis at each position in turn -/
def insertAll (sh : List Nat) (ps : List Nat) : List Nat := ps.foldl (fun s p => s.insertIdx p 1) sh

/-- position `k` of the request list is at most `n + k` (what `expand_dims` checks) -/
def okPos : Nat → List Nat → Prop
  | _, [] => True
  | n, p :: ps => p ≤ n ∧ okPos (n + 1) ps

theorem okPos_iff : ∀ (n : Nat) (ps : List Nat), okPos n ps ↔ ∀ k (h : k < ps.length), ps[k] ≤ n + k
  | _, [] => by simp [okPos]
  | n, p :: ps => by
    simp only [okPos, okPos_iff (n + 1) ps]
    constructor
    · rintro ⟨h0, h1⟩ k hk
      cases k with
      | zero => simpa using h0
      | succ k => have := h1 k (by simpa using hk); simp only [List.getElem_cons_succ]; omega
    · intro h
      refine ⟨by have := h 0 (by simp); simp only [List.getElem_cons_zero] at this; omega, fun k hk => ?_⟩
      have := h (k + 1) (by simpa using hk); simp only [List.getElem_cons_succ] at this; omega

theorem zipIdx_check : ∀ (ps : List Nat) (n k : Nat),
    (ps.zipIdx k).any (fun p => decide (p.1 > n + p.2)) = false ↔ okPos (n + k) ps
  | [], _, _ => by simp [okPos]
  | p :: ps, n, k => by
    simp only [List.zipIdx_cons, List.any_cons, Bool.or_eq_false_iff, okPos, zipIdx_check ps n (k + 1),
      decide_eq_false_iff_not, Nat.add_assoc, gt_iff_lt]
    rw [Nat.not_lt]

theorem insertAll_length : ∀ (ps : List Nat) (sh : List Nat), okPos sh.length ps →
    (insertAll sh ps).length = sh.length + ps.length
  | [], _, _ => rfl
  | p :: ps, sh, h => by
    have hl : (sh.insertIdx p 1).length = sh.length + 1 := by rw [List.length_insertIdx, if_pos h.1]
    have := insertAll_length ps (sh.insertIdx p 1) (by rw [hl]; exact h.2)
    simp only [insertAll, List.foldl_cons, List.length_cons] at this ⊢
    omega

theorem insertAll_prod (ps : List Nat) : ∀ (sh : List Nat), (insertAll sh ps).prod = sh.prod := by
  induction ps with
  | nil => intro sh; rfl
  | cons p ps ih => intro sh; simp only [insertAll, List.foldl_cons] at ih ⊢; rw [ih, prod_insertIdx_one]

/-- the fold of `Vec::insert` does not panic exactly under the position check -/
theorem insert_fold_ok : ∀ (ps : List Nat) (sh : List Nat), okPos sh.length ps →
    ps.foldl (fun (acc : Res (List Nat)) item => acc >>= fun sh => Arr.vecInsert sh item 1) (.ok sh)
      = .ok (insertAll sh ps)
  | [], _, _ => rfl
  | p :: ps, sh, h => by
    have hl : (sh.insertIdx p 1).length = sh.length + 1 := by rw [List.length_insertIdx, if_pos h.1]
    have hv : Arr.vecInsert sh p 1 = .ok (sh.insertIdx p 1) := by
      unfold Arr.vecInsert; rw [if_neg (by have := h.1; omega)]
    simp only [List.foldl_cons, Res.bind_ok, hv, insertAll]
    exact insert_fold_ok ps _ (by rw [hl]; exact h.2)

/-- later insertions at positions `≥ p` leave a `1` at position `p` -/
theorem insertAll_keeps_one : ∀ (ps : List Nat) (l : List Nat) (p : Nat), l[p]? = some 1 →
    (∀ q ∈ ps, p ≤ q) → okPos l.length ps → (insertAll l ps)[p]? = some 1
  | [], _, _, h, _, _ => h
  | q :: ps, l, p, h, hq, hok => by
    have hl : (l.insertIdx q 1).length = l.length + 1 := by rw [List.length_insertIdx, if_pos hok.1]
    simp only [insertAll, List.foldl_cons]
    apply insertAll_keeps_one ps (l.insertIdx q 1) p _ (fun x hx => hq x (List.mem_cons_of_mem _ hx))
      (by rw [hl]; exact hok.2)
    have hpq := hq q List.mem_cons_self
    rcases Nat.lt_or_eq_of_le hpq with hlt | heq
    · rw [List.getElem?_insertIdx_of_lt hlt]; exact h
    · subst heq; rw [List.getElem?_insertIdx_self, if_pos hok.1]

/-- every requested position of the result holds a `1` (requests sorted ascending, repetitions allowed) -/
theorem insertAll_one_at : ∀ (ps : List Nat) (sh : List Nat), ps.Pairwise (· ≤ ·) → okPos sh.length ps →
    ∀ p ∈ ps, (insertAll sh ps)[p]? = some 1
  | [], _, _, _ => by simp
  | q :: ps, sh, hs, hok => by
    have hl : (sh.insertIdx q 1).length = sh.length + 1 := by rw [List.length_insertIdx, if_pos hok.1]
    rw [List.pairwise_cons] at hs
    intro p hp
    rcases List.mem_cons.1 hp with rfl | hp
    · simp only [insertAll, List.foldl_cons]
      exact insertAll_keeps_one ps _ p (by rw [List.getElem?_insertIdx_self, if_pos hok.1]) hs.1
        (by rw [hl]; exact hok.2)
    · simp only [insertAll, List.foldl_cons]
      exact insertAll_one_at ps _ hs.2 (by rw [hl]; exact hok.2) p hp

/-- erasing the requested positions, largest first, undoes the insertions -/
theorem erase_insertAll : ∀ (ps : List Nat) (sh : List Nat), okPos sh.length ps →
    ps.foldr (fun p s => s.eraseIdx p) (insertAll sh ps) = sh
  | [], _, _ => rfl
  | p :: ps, sh, hok => by
    have hl : (sh.insertIdx p 1).length = sh.length + 1 := by rw [List.length_insertIdx, if_pos hok.1]
    simp only [insertAll, List.foldl_cons, List.foldr_cons]
    have := erase_insertAll ps (sh.insertIdx p 1) (by rw [hl]; exact hok.2)
    simp only [insertAll] at this
    rw [this, List.eraseIdx_insertIdx_self]

/-! ### `squeeze`: the removal fold -/

/-- remove each position in turn -/
def eraseAll (sh : List Nat) (ds : List Nat) : List Nat := ds.foldl (fun s d => s.eraseIdx d) sh

/-- the fold of `Vec::remove` over strictly descending in-range unit positions: no panic, product kept -/
theorem remove_fold_ok : ∀ (ds : List Nat) (sh : List Nat), ds.Pairwise (· > ·) →
    (∀ d ∈ ds, sh[d]? = some 1) →
    ds.foldl (fun (acc : Res (List Nat)) item => acc >>= fun sh => Arr.vecRemove sh item) (.ok sh)
      = .ok (eraseAll sh ds) ∧ (eraseAll sh ds).prod = sh.prod
  | [], _, _, _ => ⟨rfl, rfl⟩
  | d :: ds, sh, hs, h1 => by
    rw [List.pairwise_cons] at hs
    have hd := h1 d List.mem_cons_self
    have hdl : d < sh.length := by
      rcases Nat.lt_or_ge d sh.length with h | h
      · exact h
      · rw [List.getElem?_eq_none h] at hd; cases hd
    have hv : Arr.vecRemove sh d = .ok (sh.eraseIdx d) := by
      unfold Arr.vecRemove; rw [if_neg (by omega)]
    have ih := remove_fold_ok ds (sh.eraseIdx d) hs.2 (fun x hx => by
      rw [List.getElem?_eraseIdx_of_lt (hs.1 x hx)]; exact h1 x (List.mem_cons_of_mem _ hx))
    simp only [List.foldl_cons, Res.bind_ok, hv, eraseAll]
    refine ⟨ih.1, ?_⟩
    have := ih.2; simp only [eraseAll] at this
    rw [this, prod_eraseIdx_one _ _ hd]

/-- drop the entries whose index satisfies `P` (specification of multi-axis removal) -/
def dropIdx (P : Nat → Bool) : List β → List β
  | [] => []
  | x :: xs => if P 0 then dropIdx (fun i => P (i + 1)) xs else x :: dropIdx (fun i => P (i + 1)) xs

theorem eraseAll_nil (ds : List Nat) : eraseAll [] ds = [] := by
  induction ds with
  | nil => rfl
  | cons d ds ih => simpa [eraseAll] using ih

theorem eraseAll_cons_pos : ∀ (ds : List Nat) (x : Nat) (xs : List Nat), (∀ d ∈ ds, 0 < d) →
    eraseAll (x :: xs) ds = x :: eraseAll xs (ds.map (· - 1))
  | [], _, _, _ => rfl
  | d :: ds, x, xs, h => by
    have hd := h d List.mem_cons_self
    obtain ⟨d', rfl⟩ : ∃ d', d = d' + 1 := ⟨d - 1, by omega⟩
    have := eraseAll_cons_pos ds x (xs.eraseIdx d') (fun y hy => h y (List.mem_cons_of_mem _ hy))
    simp only [eraseAll] at this
    simp only [eraseAll, List.foldl_cons, List.eraseIdx_cons_succ, List.map_cons, Nat.add_sub_cancel, this]

theorem eraseAll_append (sh : List Nat) (ds es : List Nat) : eraseAll sh (ds ++ es) = eraseAll (eraseAll sh ds) es := by
  simp [eraseAll, List.foldl_append]

/-- erasing a strictly descending list of positions, one at a time, drops exactly the entries at those positions -/
theorem eraseAll_eq_dropIdx : ∀ (sh : List Nat) (ds : List Nat), ds.Pairwise (· > ·) →
    eraseAll sh ds = dropIdx (fun i => decide (i ∈ ds)) sh
  | [], ds, _ => by rw [eraseAll_nil]; rfl
  | x :: xs, ds, hs => by
    rcases List.eq_nil_or_concat ds with rfl | ⟨ds', m, rfl⟩
    · have := eraseAll_eq_dropIdx xs [] List.Pairwise.nil
      simp only [eraseAll, List.foldl_nil, List.not_mem_nil, decide_false] at this
      simp only [eraseAll, List.foldl_nil, List.not_mem_nil, decide_false, dropIdx, Bool.false_eq_true, if_false]
      rw [← this]
    · rw [List.concat_eq_append] at hs ⊢
      rw [List.pairwise_append] at hs
      obtain ⟨hs1, _, hs3⟩ := hs
      have hpos : ∀ d ∈ ds', 0 < d := fun d hd => by have := hs3 d hd m (by simp); omega
      have hmap : (ds'.map (· - 1)).Pairwise (· > ·) := by
        rw [List.pairwise_map]
        have := hs1.and (List.pairwise_of_forall_mem_list (r := fun a b => 0 < a ∧ 0 < b) (l := ds')
          (fun a ha b hb => ⟨hpos a ha, hpos b hb⟩))
        exact this.imp (by intro a b ⟨h1, h2, h3⟩; omega)
      cases m with
      | zero =>
        rw [eraseAll_append, eraseAll_cons_pos ds' x xs hpos]
        simp only [eraseAll, List.foldl_cons, List.foldl_nil, List.eraseIdx_cons_zero]
        have ih := eraseAll_eq_dropIdx xs _ hmap
        simp only [eraseAll] at ih
        rw [ih]
        have h0 : decide (0 ∈ ds' ++ [0]) = true := by simp
        simp only [dropIdx, h0, if_true]
        congr 1; funext i
        simp only [List.mem_map, List.mem_append, List.mem_singleton, Nat.add_eq_zero_iff, Nat.succ_ne_self,
          and_false, or_false, decide_eq_decide]
        constructor
        · rintro ⟨a, ha, rfl⟩; have := hpos a ha
          rwa [Nat.sub_add_cancel this]
        · intro h; exact ⟨i + 1, h, rfl⟩
      | succ m =>
        have hpos' : ∀ d ∈ ds' ++ [m + 1], 0 < d := by
          intro d hd
          rcases List.mem_append.1 hd with h | h
          · exact hpos d h
          · simp only [List.mem_singleton] at h; omega
        have hmap' : ((ds' ++ [m + 1]).map (· - 1)).Pairwise (· > ·) := by
          rw [List.map_append, List.pairwise_append]
          refine ⟨hmap, by simp, ?_⟩
          intro a ha b hb
          simp only [List.map_cons, List.map_nil, List.mem_singleton, Nat.add_sub_cancel] at hb
          obtain ⟨a', ha', rfl⟩ := List.mem_map.1 ha
          have := hs3 a' ha' (m + 1) (by simp)
          omega
        rw [eraseAll_cons_pos _ x xs hpos', eraseAll_eq_dropIdx xs _ hmap']
        have h0 : decide (0 ∈ ds' ++ [m + 1]) = false := by
          simp only [decide_eq_false_iff_not]
          intro h; have := hpos' 0 h; omega
        simp only [dropIdx, h0, Bool.false_eq_true, if_false]
        congr 2; funext i
        simp only [decide_eq_decide]
        constructor
        · intro h; obtain ⟨a, ha, rfl⟩ := List.mem_map.1 h
          have := hpos' a ha
          rwa [Nat.sub_add_cancel this]
        · intro h; exact List.mem_map.2 ⟨i + 1, h, rfl⟩

theorem dropIdx_congr {P Q : Nat → Bool} (h : ∀ i, P i = Q i) (l : List β) : dropIdx P l = dropIdx Q l := by
  have : P = Q := funext h
  rw [this]

/-! ### reading the shape at a list of positions -/

theorem mapM'_idx_ok (sh : List Nat) : ∀ (l : List Nat), (∀ i ∈ l, i < sh.length) →
    Res.mapM' (fun i => Res.idx sh i) l = .ok (l.map (fun i => sh.getD i 0))
  | [], _ => rfl
  | i :: l, h => by
    have hi := h i List.mem_cons_self
    have ih := mapM'_idx_ok sh l (fun j hj => h j (List.mem_cons_of_mem _ hj))
    unfold Res.mapM' at ih ⊢
    simp only [List.map_cons, Res.sequence, Res.idx_of_lt hi, Res.bind_ok, ih]
    congr 2
    simp [List.getD, List.getElem?_eq_getElem hi]

/-! ### `cycleTake` -/

theorem cycleTake_nil (n : Nat) : cycleTake ([] : List α) n = [] := rfl

theorem cycleTake_eq_map (l : List α) (h : l ≠ []) (n : Nat) :
    cycleTake l n = (List.range n).pmap (fun i (_ : True) => l[i % l.length]'(Nat.mod_lt _ (List.length_pos_iff.2 h)))
      (fun _ _ => trivial) := by
  unfold cycleTake
  have he : l.isEmpty = false := by cases l with | nil => exact absurd rfl h | cons _ _ => rfl
  rw [he]; simp only [Bool.false_eq_true, if_false]
  have hpos := List.length_pos_iff.2 h
  induction n with
  | zero => rfl
  | succ n ih =>
    simp only [List.range_succ, List.filterMap_append, ih, List.pmap_append]
    simp [List.getElem?_eq_getElem (Nat.mod_lt n hpos)]

theorem cycleTake_length (l : List α) (h : l ≠ []) (n : Nat) : (cycleTake l n).length = n := by
  rw [cycleTake_eq_map l h]; simp

theorem cycleTake_getElem? (l : List α) (h : l ≠ []) (n i : Nat) (hi : i < n) :
    (cycleTake l n)[i]? = l[i % l.length]? := by
  have hpos := List.length_pos_iff.2 h
  rw [cycleTake_eq_map l h, List.getElem?_pmap, List.getElem?_range hi]
  simp [List.getElem?_eq_getElem (Nat.mod_lt i hpos)]


/-! ### the operations, in closed form -/

theorem sortNat_eq_of_perm_sorted {l m : List Nat} (hp : l.Perm m) (hs : m.Pairwise (· ≤ ·)) : sortNat l = m :=
  List.Perm.eq_of_pairwise (le := (· ≤ ·)) (fun _ _ _ _ h1 h2 => Nat.le_antisymm h1 h2)
    (sortNat_sorted l) hs ((sortNat_perm l).trans hp)

/-- strictly ascending requests that all fit in the final rank pass the `expand_dims` check -/
theorem okPos_of_strict_bounded : ∀ (ps : List Nat) (n : Nat), ps.Pairwise (· < ·) →
    (∀ p ∈ ps, p < n + ps.length) → okPos n ps
  | [], _, _, _ => trivial
  | p :: ps, n, hs, hb => by
    rw [List.pairwise_cons] at hs
    have ih := okPos_of_strict_bounded ps (n + 1) hs.2 (fun q hq => by
      have := hb q (List.mem_cons_of_mem _ hq); simp only [List.length_cons] at this; omega)
    refine ⟨?_, ih⟩
    cases ps with
    | nil => have := hb p List.mem_cons_self; simp only [List.length_cons, List.length_nil] at this; omega
    | cons q qs =>
      have h1 := hs.1 q List.mem_cons_self
      have h2 := ih.1
      omega

theorem Arr.expandDims_ok (a : Arr α) (axes : List Int) (hwf : a.WF)
    (hok : okPos a.ndim (sortNat (axes.map (fun i => normalizeAxisDim a.ndim i axes.length)))) :
    a.expandDims axes
      = .ok ⟨a.elems, insertAll a.shape (sortNat (axes.map (fun i => normalizeAxisDim a.ndim i axes.length)))⟩ := by
  unfold Arr.expandDims
  have hc := (zipIdx_check (sortNat (axes.map (fun i => normalizeAxisDim a.ndim i axes.length))) a.ndim 0).2 hok
  simp only [hc, Bool.false_eq_true, if_false, insert_fold_ok _ a.shape hok, Res.bind_ok]
  exact Arr.reshape_of_prod hwf (insertAll_prod _ _)

theorem Arr.expandDims_err (a : Arr α) (axes : List Int)
    (hok : ¬ okPos a.ndim (sortNat (axes.map (fun i => normalizeAxisDim a.ndim i axes.length)))) :
    a.expandDims axes = .err .AxisOutOfBounds := by
  unfold Arr.expandDims
  have hc : ((sortNat (axes.map (fun i => normalizeAxisDim a.ndim i axes.length))).zipIdx).any
      (fun p => decide (p.1 > a.ndim + p.2)) = true := by
    rw [← Bool.not_eq_false]; intro h
    exact hok ((zipIdx_check _ a.ndim 0).1 h)
  simp only [hc, if_true]

theorem Arr.squeeze_some_ok (a : Arr α) (axes : List Int) (hwf : a.WF)
    (hnd : (axes.map (normalizeAxis a.ndim)).Nodup)
    (h1 : ∀ x ∈ axes.map (normalizeAxis a.ndim), a.shape[x]? = some 1) :
    a.squeeze (some axes) = .ok ⟨a.elems, eraseAll a.shape (sortNat (axes.map (normalizeAxis a.ndim))).reverse⟩ := by
  have hmem : ∀ x ∈ (sortNat (axes.map (normalizeAxis a.ndim))).reverse, x ∈ axes.map (normalizeAxis a.ndim) :=
    fun x hx => mem_sortNat.1 (List.mem_reverse.1 hx)
  have hlt : ∀ x ∈ (sortNat (axes.map (normalizeAxis a.ndim))).reverse, x < a.shape.length := by
    intro x hx
    have := h1 x (hmem x hx)
    rcases Nat.lt_or_ge x a.shape.length with h | h
    · exact h
    · rw [List.getElem?_eq_none h] at this; cases this
  have hany : (sortNat (axes.map (normalizeAxis a.ndim))).reverse.any (fun x => decide (x ≥ a.ndim)) = false := by
    rw [List.any_eq_false]; intro x hx
    have := hlt x hx
    simp only [Arr.ndim, ge_iff_le, decide_eq_true_eq]; omega
  have hdims : ((sortNat (axes.map (normalizeAxis a.ndim))).reverse.map (fun i => a.shape.getD i 0)).any
      (fun d => d != 1) = false := by
    rw [List.any_eq_false]; intro d hd
    obtain ⟨x, hx, rfl⟩ := List.mem_map.1 hd
    have := h1 x (hmem x hx)
    simp [List.getD, this]
  have hf := remove_fold_ok _ a.shape (sortNat_reverse_desc hnd) (fun d hd => h1 d (hmem d hd))
  unfold Arr.squeeze
  have hnd' : ¬ ¬ (sortNat (axes.map (normalizeAxis a.ndim))).reverse.Nodup := not_not_intro (sortNat_reverse_nodup.2 hnd)
  simp only [hany, Bool.false_eq_true, if_false, if_neg hnd', mapM'_idx_ok a.shape _ hlt, Res.bind_ok, hdims, hf.1]
  exact Arr.reshape_of_prod hwf hf.2

theorem Arr.squeeze_some_out_of_range (a : Arr α) (axes : List Int)
    (h : ∃ x ∈ axes.map (normalizeAxis a.ndim), a.ndim ≤ x) :
    a.squeeze (some axes) = .err .AxisOutOfBounds := by
  obtain ⟨x, hx, hge⟩ := h
  have hany : (sortNat (axes.map (normalizeAxis a.ndim))).reverse.any (fun x => decide (x ≥ a.ndim)) = true := by
    rw [List.any_eq_true]
    exact ⟨x, List.mem_reverse.2 (mem_sortNat.2 hx), by simpa using hge⟩
  unfold Arr.squeeze
  simp only [hany, if_true]

theorem Arr.squeeze_some_nonunit (a : Arr α) (axes : List Int)
    (hin : ∀ x ∈ axes.map (normalizeAxis a.ndim), x < a.ndim)
    (hnd : (axes.map (normalizeAxis a.ndim)).Nodup)
    (h : ∃ x ∈ axes.map (normalizeAxis a.ndim), a.shape[x]? ≠ some 1) :
    a.squeeze (some axes) = .err .SqueezeShapeOfAxisMustBeOne := by
  have hmem : ∀ x ∈ (sortNat (axes.map (normalizeAxis a.ndim))).reverse, x ∈ axes.map (normalizeAxis a.ndim) :=
    fun x hx => mem_sortNat.1 (List.mem_reverse.1 hx)
  have hlt : ∀ x ∈ (sortNat (axes.map (normalizeAxis a.ndim))).reverse, x < a.shape.length :=
    fun x hx => hin x (hmem x hx)
  have hany : (sortNat (axes.map (normalizeAxis a.ndim))).reverse.any (fun x => decide (x ≥ a.ndim)) = false := by
    rw [List.any_eq_false]; intro x hx
    have := hlt x hx
    simp only [Arr.ndim, ge_iff_le, decide_eq_true_eq]; omega
  obtain ⟨x, hx, hne⟩ := h
  have hdims : ((sortNat (axes.map (normalizeAxis a.ndim))).reverse.map (fun i => a.shape.getD i 0)).any
      (fun d => d != 1) = true := by
    rw [List.any_eq_true]
    refine ⟨a.shape.getD x 0, List.mem_map.2 ⟨x, List.mem_reverse.2 (mem_sortNat.2 hx), rfl⟩, ?_⟩
    have hxl : x < a.shape.length := hin x hx
    simp only [List.getD, List.getElem?_eq_getElem hxl, Option.getD_some, bne_iff_ne, ne_eq]
    intro h1; apply hne; rw [List.getElem?_eq_getElem hxl, h1]
  unfold Arr.squeeze
  have hnd' : ¬ ¬ (sortNat (axes.map (normalizeAxis a.ndim))).reverse.Nodup := not_not_intro (sortNat_reverse_nodup.2 hnd)
  simp only [hany, Bool.false_eq_true, if_false, if_neg hnd', mapM'_idx_ok a.shape _ hlt, Res.bind_ok, hdims, if_true]

theorem Arr.squeeze_some_repeated (a : Arr α) (axes : List Int)
    (hin : ∀ x ∈ axes.map (normalizeAxis a.ndim), x < a.ndim)
    (hnd : ¬ (axes.map (normalizeAxis a.ndim)).Nodup) :
    a.squeeze (some axes) = .err .MustBeUnique := by
  have hany : (sortNat (axes.map (normalizeAxis a.ndim))).reverse.any (fun x => decide (x ≥ a.ndim)) = false := by
    rw [List.any_eq_false]; intro x hx
    have := hin x (mem_sortNat.1 (List.mem_reverse.1 hx))
    simp only [ge_iff_le, decide_eq_true_eq]; omega
  have hnd' : ¬ (sortNat (axes.map (normalizeAxis a.ndim))).reverse.Nodup := fun h => hnd (sortNat_reverse_nodup.1 h)
  unfold Arr.squeeze
  simp only [hany, Bool.false_eq_true, if_false, if_pos hnd']

end ArrModel
