import ArrModel.C20
/-!
# Lemmas for C20 (operator overloads)
-/
namespace ArrModel.C20
open ArrModel

variable {α β : Type}

theorem newUnwrap_ok (elems : List α) (shape : List Nat) (h : shape.prod = elems.length) :
    newUnwrap elems shape = .ok ⟨elems, shape⟩ := by
  simp [newUnwrap, Arr.new, h]

theorem newUnwrap_panic (elems : List α) (shape : List Nat) (h : shape.prod ≠ elems.length) :
    newUnwrap elems shape = .panic := by
  simp [newUnwrap, Arr.new, h]

theorem newUnwrap_ok_iff (elems : List α) (shape : List Nat) (r : Arr α) :
    newUnwrap elems shape = .ok r ↔ shape.prod = elems.length ∧ r = ⟨elems, shape⟩ := by
  by_cases h : shape.prod = elems.length
  · rw [newUnwrap_ok _ _ h]; simp [h, eq_comm]
  · rw [newUnwrap_panic _ _ h]; simp [h]

theorem newUnwrap_ne_err (elems : List α) (shape : List Nat) (e : Err) : newUnwrap elems shape ≠ .err e := by
  by_cases h : shape.prod = elems.length
  · rw [newUnwrap_ok _ _ h]; simp
  · rw [newUnwrap_panic _ _ h]; simp

theorem collectArr_ok (elems : List α) : collectArr elems = .ok ⟨elems, [elems.length]⟩ := by
  unfold collectArr; exact newUnwrap_ok _ _ (by simp)

theorem reshape_ok (a : Arr α) (shape : List Nat) (h : shape.prod = a.elems.length) :
    reshape a shape = .ok ⟨a.elems, shape⟩ := by
  simp [reshape, Arr.new, h]

theorem reshape_err (a : Arr α) (shape : List Nat) (h : shape.prod ≠ a.elems.length) :
    reshape a shape = .err .ShapeMustMatchValuesLength := by
  simp [reshape, h]

theorem mapArr_ok (f : α → β) (a : Arr α) (h : a.WF) : mapArr f a = .ok ⟨a.elems.map f, a.shape⟩ := by
  unfold mapArr
  rw [collectArr_ok]
  simp only [Res.bind_ok]
  rw [reshape_ok _ _ (by simpa using h.symm)]

theorem mapArr_err (f : α → β) (a : Arr α) (h : ¬ a.WF) : mapArr f a = .err .ShapeMustMatchValuesLength := by
  unfold mapArr
  rw [collectArr_ok]
  simp only [Res.bind_ok]
  rw [reshape_err _ _ (by simpa [Arr.WF, eq_comm] using h)]

/-- on equally long lists the in-place zip rewrites every slot -/
theorem zipAssign_eq_zipWith (g : α → α → α) : ∀ (xs ys : List α), xs.length ≤ ys.length →
    zipAssign g xs ys = List.zipWith g xs ys
  | [], _, _ => by simp [zipAssign]
  | x :: xs, [], h => by simp at h
  | x :: xs, y :: ys, h => by
    simp only [zipAssign, List.zipWith_cons_cons]
    rw [zipAssign_eq_zipWith g xs ys (by simpa using h)]

theorem length_zipAssign (g : α → α → α) : ∀ (xs ys : List α), (zipAssign g xs ys).length = xs.length
  | [], _ => by simp [zipAssign]
  | x :: xs, [] => by simp [zipAssign]
  | x :: xs, y :: ys => by simp [zipAssign, length_zipAssign g xs ys]

theorem zipAssign_congr {g f : α → α → α} (h : ∀ x y, g x y = f x y) : ∀ (xs ys : List α),
    zipAssign g xs ys = zipAssign f xs ys
  | [], _ => by simp [zipAssign]
  | x :: xs, [] => by simp [zipAssign]
  | x :: xs, y :: ys => by simp [zipAssign, h, zipAssign_congr h xs ys]

/-- positional reading of a zip -/
theorem getElem?_zipWith_some (f : α → α → α) (xs ys : List α) (i : Nat) (x y : α)
    (hx : xs[i]? = some x) (hy : ys[i]? = some y) : (List.zipWith f xs ys)[i]? = some (f x y) := by
  rw [List.getElem?_zipWith]; simp [hx, hy]

/-! ### slice comparison -/

/-- every aligned pair compares `Equal` -/
def AllEq (pcmp : α → α → Option Ordering) (xs ys : List α) : Prop :=
  ∀ (j : Nat) (u v : α), xs[j]? = some u → ys[j]? = some v → pcmp u v = some .eq

/-- the first aligned pair that does not compare `Equal` is at `k` and compares as `r` -/
def FirstAt (pcmp : α → α → Option Ordering) (r : Option Ordering) (xs ys : List α) : Prop :=
  ∃ (k : Nat) (x y : α), xs[k]? = some x ∧ ys[k]? = some y ∧ pcmp x y = r ∧ r ≠ some .eq ∧
    ∀ j : Nat, j < k → ∀ u v, xs[j]? = some u → ys[j]? = some v → pcmp u v = some .eq

theorem allEq_nil (pcmp : α → α → Option Ordering) : AllEq pcmp [] [] := by
  intro j u v h; simp at h

theorem allEq_cons (pcmp : α → α → Option Ordering) (x y : α) (xs ys : List α) :
    AllEq pcmp (x :: xs) (y :: ys) ↔ pcmp x y = some .eq ∧ AllEq pcmp xs ys := by
  constructor
  · intro h
    exact ⟨h 0 x y rfl rfl, fun j u v hu hv => h (j + 1) u v (by simpa using hu) (by simpa using hv)⟩
  · rintro ⟨h0, h⟩ j u v hu hv
    cases j with
    | zero => simp at hu hv; subst hu hv; exact h0
    | succ j => exact h j u v (by simpa using hu) (by simpa using hv)

theorem firstAt_cons (pcmp : α → α → Option Ordering) (r : Option Ordering) (x y : α) (xs ys : List α) :
    FirstAt pcmp r (x :: xs) (y :: ys) ↔
      (pcmp x y = r ∧ r ≠ some .eq) ∨ (pcmp x y = some .eq ∧ FirstAt pcmp r xs ys) := by
  constructor
  · rintro ⟨k, u, v, hu, hv, hr, hne, hpre⟩
    cases k with
    | zero => simp at hu hv; subst hu hv; exact .inl ⟨hr, hne⟩
    | succ k =>
      refine .inr ⟨hpre 0 (by omega) x y rfl rfl, k, u, v, by simpa using hu, by simpa using hv, hr, hne, ?_⟩
      intro j hj u' v' hu' hv'
      exact hpre (j + 1) (by omega) u' v' (by simpa using hu') (by simpa using hv')
  · rintro (⟨hr, hne⟩ | ⟨h0, k, u, v, hu, hv, hr, hne, hpre⟩)
    · exact ⟨0, x, y, rfl, rfl, hr, hne, fun j hj => by omega⟩
    · refine ⟨k + 1, u, v, by simpa using hu, by simpa using hv, hr, hne, ?_⟩
      intro j hj u' v' hu' hv'
      cases j with
      | zero => simp at hu' hv'; subst hu' hv'; exact h0
      | succ j => exact hpre j (by omega) u' v' (by simpa using hu') (by simpa using hv')

theorem not_firstAt_nil (pcmp : α → α → Option Ordering) (r : Option Ordering) (ys : List α) :
    ¬ FirstAt pcmp r [] ys := by
  rintro ⟨k, x, y, hx, _⟩; simp at hx

/-- on equally long slices: the answer is `Equal` iff all aligned pairs are -/
theorem slicePartialCmp_eq_iff (pcmp : α → α → Option Ordering) : ∀ (xs ys : List α), xs.length = ys.length →
    (slicePartialCmp pcmp xs ys = some .eq ↔ AllEq pcmp xs ys)
  | [], [], _ => by simp [slicePartialCmp, allEq_nil]
  | [], _ :: _, h => by simp at h
  | _ :: _, [], h => by simp at h
  | x :: xs, y :: ys, h => by
    rw [allEq_cons]
    have ih := slicePartialCmp_eq_iff pcmp xs ys (by simpa using h)
    unfold slicePartialCmp
    cases hp : pcmp x y with
    | none => simp
    | some o => cases o <;> simp [ih]

/-- on equally long slices: any other answer is the comparison at the first non-`Equal` position -/
theorem slicePartialCmp_first_iff (pcmp : α → α → Option Ordering) (r : Option Ordering) (hr : r ≠ some .eq) :
    ∀ (xs ys : List α), xs.length = ys.length →
    (slicePartialCmp pcmp xs ys = r ↔ FirstAt pcmp r xs ys)
  | [], [], _ => by
    simp only [slicePartialCmp]
    constructor
    · intro h; exact absurd h.symm hr
    · intro h; exact absurd h (not_firstAt_nil _ _ _)
  | [], _ :: _, h => by simp at h
  | _ :: _, [], h => by simp at h
  | x :: xs, y :: ys, h => by
    rw [firstAt_cons]
    have ih := slicePartialCmp_first_iff pcmp r hr xs ys (by simpa using h)
    unfold slicePartialCmp
    cases hp : pcmp x y with
    | none => simp [hr]
    | some o =>
      cases o with
      | eq => simp [ih]; intro h; exact absurd h.symm hr
      | lt => simp [hr]
      | gt => simp [hr]

/-- slice comparison of integers is Lean's lexicographic order on lists (any lengths) -/
theorem slicePartialCmp_int_lt : ∀ (xs ys : List Int),
    (slicePartialCmp (fun x y => some (compare x y)) xs ys = some .lt ↔ xs < ys)
  | [], [] => by simp [slicePartialCmp]
  | [], _ :: _ => by simp [slicePartialCmp]
  | _ :: _, [] => by simp [slicePartialCmp]
  | x :: xs, y :: ys => by
    have ih := slicePartialCmp_int_lt xs ys
    unfold slicePartialCmp
    rw [List.cons_lt_cons_iff]
    rcases Int.lt_trichotomy x y with h | h | h
    · have : compare x y = .lt := by simp [Int.compare_eq_lt, h] <;> omega
      simp [this, h]
    · subst h
      simp [ih]
    · have : compare x y = .gt := by simp [Int.compare_eq_gt, h] <;> omega
      simp [this]; omega

end ArrModel.C20
