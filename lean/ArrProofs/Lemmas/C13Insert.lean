import ArrProofs.Lemmas.C13Flat
/-!
# C13 helper lemmas: the insertion fold of flat `insert`, `sortByIdx`
-/
namespace ArrModel
open Arr
variable {α β : Type}

/-! ### `sortByIdx` -/

theorem sortByIdx_perm (l : List (Nat × α)) : (sortByIdx l).Perm l := List.mergeSort_perm _ _

theorem sortByIdx_sorted (l : List (Nat × α)) : (sortByIdx l).Pairwise (fun p q => p.1 ≤ q.1) := by
  have h := List.pairwise_mergeSort (le := fun (p q : Nat × α) => decide (p.1 ≤ q.1))
    (by intro a b c; simp only [decide_eq_true_eq]; omega)
    (by intro a b; simp only [Bool.or_eq_true, decide_eq_true_eq]; omega) l
  exact h.imp (by intro a b; simp)

theorem sortByIdx_of_sorted (l : List (Nat × α)) (h : l.Pairwise (fun p q => p.1 ≤ q.1)) : sortByIdx l = l :=
  List.mergeSort_of_pairwise (h.imp (by intro a b; simp))

theorem sortByIdx_length (l : List (Nat × α)) : (sortByIdx l).length = l.length := (sortByIdx_perm l).length_eq

/-- stability: the pairs carrying one and the same index keep their request order -/
theorem sortByIdx_stable (l : List (Nat × α)) (i : Nat) :
    (sortByIdx l).filter (fun p => p.1 == i) = l.filter (fun p => p.1 == i) := by
  have hsub : (l.filter (fun p => p.1 == i)).Sublist (sortByIdx l) := by
    apply List.sublist_mergeSort (le := fun (p q : Nat × α) => decide (p.1 ≤ q.1))
      (by intro a b c; simp only [decide_eq_true_eq]; omega)
      (by intro a b; simp only [Bool.or_eq_true, decide_eq_true_eq]; omega)
    · apply List.pairwise_of_forall_mem_list
      intro a ha b hb
      have h1 := (List.mem_filter.1 ha).2
      have h2 := (List.mem_filter.1 hb).2
      simp only [beq_iff_eq] at h1 h2
      simp [h1, h2]
    · exact List.filter_sublist
  have h2 := hsub.filter (fun p => p.1 == i)
  rw [List.filter_filter] at h2
  simp only [Bool.and_self] at h2
  exact (h2.eq_of_length ((sortByIdx_perm l).filter _).length_eq.symm).symm

/-! ### the insertion fold -/

/-- insert the pairs from the last to the first -/
def insertAllAt (l : List α) (S : List (Nat × α)) : List α := S.foldr (fun p es => es.insertIdx p.1 p.2) l

/-- landing positions: the `j`-th pair (in sorted order) lands at its index plus `j` -/
def landing (S : List (Nat × α)) : List Nat := S.zipIdx.map (fun q => q.1.1 + q.2)

theorem landing_nil : landing ([] : List (Nat × α)) = [] := rfl

theorem landing_cons (p : Nat × α) (S : List (Nat × α)) : landing (p :: S) = p.1 :: (landing S).map (· + 1) := by
  unfold landing
  rw [List.zipIdx_cons, List.map_cons, Nat.zero_add, List.zipIdx_succ, List.map_map, List.map_map]
  rfl

theorem landing_length (S : List (Nat × α)) : (landing S).length = S.length := by simp [landing]

theorem landing_getElem? (S : List (Nat × α)) (j : Nat) : (landing S)[j]? = S[j]?.map (fun p => p.1 + j) := by
  unfold landing
  rw [List.getElem?_map, List.getElem?_zipIdx]
  cases S[j]? <;> simp

theorem landing_ge : ∀ (S : List (Nat × α)) (m : Nat), (∀ q ∈ S, m ≤ q.1) → ∀ y ∈ landing S, m ≤ y
  | [], _, _, y, hy => by simp [landing] at hy
  | p :: S, m, h, y, hy => by
    rw [landing_cons] at hy
    rcases List.mem_cons.1 hy with rfl | hy'
    · exact h p List.mem_cons_self
    · obtain ⟨y', hy1, rfl⟩ := List.mem_map.1 hy'
      have := landing_ge S m (fun q hq => h q (List.mem_cons_of_mem _ hq)) y' hy1
      omega

theorem insertAllAt_length : ∀ (S : List (Nat × α)) (l : List α), (∀ p ∈ S, p.1 ≤ l.length) →
    (insertAllAt l S).length = l.length + S.length
  | [], _, _ => rfl
  | p :: S, l, h => by
    have ih := insertAllAt_length S l (fun q hq => h q (List.mem_cons_of_mem _ hq))
    have hp := h p List.mem_cons_self
    show ((insertAllAt l S).insertIdx p.1 p.2).length = _
    rw [List.length_insertIdx_of_le_length (by omega), ih, List.length_cons]; omega

/-- the model's fold over the reversed pair list never panics and computes `insertAllAt` -/
theorem insert_fold_eq : ∀ (S : List (Nat × α)) (l : List α), (∀ p ∈ S, p.1 ≤ l.length) →
    S.reverse.foldl (fun (acc : Res (List α)) p => acc >>= fun es => vecInsert es p.1 p.2) (.ok l)
      = .ok (insertAllAt l S)
  | [], _, _ => rfl
  | p :: S, l, h => by
    have hS := fun q hq => h q (List.mem_cons_of_mem _ hq)
    have ih := insert_fold_eq S l hS
    have hp := h p List.mem_cons_self
    have hlen := insertAllAt_length S l hS
    rw [List.reverse_cons, List.foldl_append, ih]
    simp only [List.foldl_cons, List.foldl_nil, Res.bind_ok, vecInsert]
    rw [if_neg (by omega)]
    rfl

/-- the part of the list before every insertion index is untouched -/
theorem insertAllAt_take : ∀ (S : List (Nat × α)) (l : List α) (m : Nat), (∀ q ∈ S, m ≤ q.1) →
    (insertAllAt l S).take m = l.take m
  | [], _, _, _ => rfl
  | p :: S, l, m, h => by
    have ih := insertAllAt_take S l m (fun q hq => h q (List.mem_cons_of_mem _ hq))
    have hp := h p List.mem_cons_self
    show ((insertAllAt l S).insertIdx p.1 p.2).take m = _
    rw [← ih]
    apply List.ext_getElem?
    intro i
    rw [List.getElem?_take, List.getElem?_take]
    split
    · rw [List.getElem?_insertIdx_of_lt (by omega)]
    · rfl

/-- the `j`-th pair of the sorted list sits at its landing position -/
theorem insertAllAt_at_landing : ∀ (S : List (Nat × α)) (l : List α), S.Pairwise (fun p q => p.1 ≤ q.1) →
    (∀ p ∈ S, p.1 ≤ l.length) → ∀ j (hj : j < S.length), (insertAllAt l S)[S[j].1 + j]? = some S[j].2
  | [], _, _, _, j, hj => by simp at hj
  | p :: S, l, hs, h, j, hj => by
    rw [List.pairwise_cons] at hs
    have hS := fun q hq => h q (List.mem_cons_of_mem _ hq)
    have hp := h p List.mem_cons_self
    have hlen := insertAllAt_length S l hS
    show ((insertAllAt l S).insertIdx p.1 p.2)[_]? = _
    cases j with
    | zero =>
      simp only [List.getElem_cons_zero, Nat.add_zero]
      rw [List.getElem?_insertIdx_self, if_pos (by omega)]
    | succ j =>
      have hj' : j < S.length := by simpa using hj
      simp only [List.getElem_cons_succ]
      have := hs.1 S[j] (List.getElem_mem hj')
      rw [List.getElem?_insertIdx_of_gt (by omega)]
      exact insertAllAt_at_landing S l hs.2 hS j hj'

theorem dropIdx_insertIdx : ∀ (L : List α) (i : Nat) (v : α) (P : Nat → Bool), i ≤ L.length → P i = true →
    dropIdx P (L.insertIdx i v) = dropIdx (fun j => if j < i then P j else P (j + 1)) L
  | L, 0, v, P, _, hP => by
    simp only [List.insertIdx_zero, dropIdx, hP, if_true, Nat.not_lt_zero, if_false]
  | [], i + 1, _, _, h, _ => by simp at h
  | x :: xs, i + 1, v, P, h, hP => by
    have ih := dropIdx_insertIdx xs i v (fun j => P (j + 1)) (by simpa using h) hP
    simp only [List.insertIdx_succ_cons, dropIdx, ih, Nat.zero_lt_succ, if_true, Nat.add_lt_add_iff_right]

/-- removing the landing positions gives back the old elements, in order -/
theorem dropIdx_landing : ∀ (S : List (Nat × α)) (l : List α), S.Pairwise (fun p q => p.1 ≤ q.1) →
    (∀ p ∈ S, p.1 ≤ l.length) → dropIdx (fun i => decide (i ∈ landing S)) (insertAllAt l S) = l
  | [], l, _, _ => by simp [landing, insertAllAt, dropIdx_false]
  | p :: S, l, hs, h => by
    rw [List.pairwise_cons] at hs
    have hS := fun q hq => h q (List.mem_cons_of_mem _ hq)
    have hp := h p List.mem_cons_self
    have hlen := insertAllAt_length S l hS
    have ih := dropIdx_landing S l hs.2 hS
    show dropIdx _ ((insertAllAt l S).insertIdx p.1 p.2) = l
    rw [dropIdx_insertIdx _ _ _ _ (by omega) (by simp [landing_cons])]
    refine Eq.trans ?_ ih
    apply dropIdx_congr
    intro j
    have hge := landing_ge S p.1 hs.1
    rw [landing_cons]
    by_cases hj : j < p.1
    · rw [if_pos hj]
      have h1 : j ∉ landing S := fun hm => by have := hge j hm; omega
      have h2 : j ∉ p.1 :: (landing S).map (· + 1) := by
        intro hm
        rcases List.mem_cons.1 hm with e | hm'
        · omega
        · obtain ⟨y, hy, e⟩ := List.mem_map.1 hm'
          have := hge y hy; omega
      simp [h1, h2]
    · rw [if_neg hj]
      have : (j + 1 ∈ p.1 :: (landing S).map (· + 1)) ↔ j ∈ landing S := by
        simp only [List.mem_cons, List.mem_map, Nat.add_right_cancel_iff, exists_eq_right]
        constructor
        · rintro (e | hm)
          · omega
          · exact hm
        · exact Or.inr
      simp only [this]

theorem landing_lt (S : List (Nat × α)) (n : Nat) (h : ∀ p ∈ S, p.1 ≤ n) : ∀ y ∈ landing S, y < n + S.length := by
  intro y hy
  obtain ⟨j, hj, e⟩ := List.getElem_of_mem hy
  have hj' : j < S.length := by simpa [landing_length] using hj
  have := landing_getElem? S j
  rw [List.getElem?_eq_getElem hj, List.getElem?_eq_getElem hj'] at this
  simp only [Option.map_some, Option.some.injEq] at this
  have := h S[j] (List.getElem_mem hj')
  omega

end ArrModel
