import ArrProofs.Lemmas.C15Arr
import ArrProofs.Props.C08
import ArrModel.C15Ext
/-!
# Lemmas for C15, part 5: the reductions of `normX` (`ArrModel/C15Ext.lean`) through the C08 lane theorem

`redAx_spec`: for a 1-D body that answers `single (g lane)` on every lane of the right length, the shared reduction
(`Arr.reduceAxis`, i.e. `sum(Some(axis))` / `max(Some(axis))` / `min(Some(axis))` branch for branch) of a well-formed array
without zero-length axes answers the array whose entry at `c` is `g` of the lane through `c` (`C08.reduce_spec`).
-/
namespace ArrModel.C15
open ArrModel Arr

/-! ### lanes of an elementwise image -/

theorem laneOf_image {α β : Type} (f : α → β) (a : Arr α) (b : Arr β) (hs : b.shape = a.shape) (he : b.elems = a.elems.map f)
    (axis : Nat) (c : List Nat) : laneOf b axis c = (laneOf a axis c).map f := by
  unfold laneOf
  rw [hs, List.map_filterMap]
  congr 1
  funext j
  simp only [Arr.get?, hs, he, List.getElem?_map]

theorem laneOf_mapArr (f : Rat → Rat) (a : Arr Rat) (axis : Nat) (c : List Nat) :
    laneOf (mapArr f a) axis c = (laneOf a axis c).map f :=
  laneOf_image f a (mapArr f a) rfl rfl axis c

theorem mapArr_wf (f : Rat → Rat) (a : Arr Rat) (h : a.WF) : (mapArr f a).WF := by
  unfold Arr.WF mapArr at *; simpa using h

@[simp] theorem mapArr_shape (f : Rat → Rat) (a : Arr Rat) : (mapArr f a).shape = a.shape := rfl
@[simp] theorem mapArr_ndim (f : Rat → Rat) (a : Arr Rat) : (mapArr f a).ndim = a.ndim := rfl

/-! ### 1-D bodies -/

theorem sumBody_flat (lane : List Rat) : sumBody (Arr.flat lane) = .ok (Arr.single (sumL lane)) := rfl

theorem maxBody_flat (lane : List Rat) (h : lane.length ≠ 0) : maxBody (Arr.flat lane) = .ok (Arr.single (maxL lane)) := by
  simp [maxBody, Arr.flat, h]

theorem minBody_flat (lane : List Rat) (h : lane.length ≠ 0) : minBody (Arr.flat lane) = .ok (Arr.single (minL lane)) := by
  simp [minBody, Arr.flat, h]

theorem maxBody_nil : maxBody (Arr.flat []) = .err .ParameterError := rfl
theorem minBody_nil : minBody (Arr.flat []) = .err .ParameterError := rfl

theorem getD_pos_of_not_mem (s : List Nat) (k : Nat) (hk : k < s.length) (hnz : 0 ∉ s) : s.getD k 0 ≠ 0 := by
  intro h
  apply hnz
  have : s.getD k 0 = s[k] := by simp [List.getD_eq_getElem?_getD, hk]
  rw [this] at h
  rw [← h]; exact List.getElem_mem hk

/-! ### the reduction along an axis, entry by entry -/

/-- **generic lane statement** for a reduction whose 1-D body is `single ∘ g` on lanes of the length of the axis -/
theorem redAx_spec {α β : Type} (a : Arr α) (zero : α) (zb : β) (ax : Int) (body : Arr α → Res (Arr β)) (g : List α → β)
    (hwf : a.WF) (hnz : 0 ∉ a.shape) (hax : normalizeAxis a.ndim ax < a.ndim)
    (hbody : ∀ lane : List α, lane.length = a.shape.getD (normalizeAxis a.ndim ax) 0 →
      body (Arr.flat lane) = .ok (Arr.single (g lane))) :
    ∃ r, a.reduceAxis zero zb (some ax) body = .ok r ∧
      r.shape = (if a.ndim > 1 then a.shape.eraseIdx (normalizeAxis a.ndim ax) else [1]) ∧ r.WF ∧
      ∀ c, inRange (a.shape.eraseIdx (normalizeAxis a.ndim ax)) c = true →
        r.get? (if a.ndim > 1 then c else [0]) =
          some (g (laneOf a (normalizeAxis a.ndim ax) (c.insertIdx (normalizeAxis a.ndim ax) 0))) := by
  obtain ⟨r, h1, h2, h3, h4⟩ := C08.reduce_spec a zero zb ax body hwf hnz hax
    (fun lane hl => ⟨_, hbody lane hl, rfl⟩)
  refine ⟨r, h1, h2, h3, ?_⟩
  intro c hc
  obtain ⟨y, v, e1, e2, e3⟩ := h4 c hc
  have hlen : (laneOf a (normalizeAxis a.ndim ax) (c.insertIdx (normalizeAxis a.ndim ax) 0)).length
      = a.shape.getD (normalizeAxis a.ndim ax) 0 := by
    apply laneOf_length a _ 1 _ hwf
    have hax' : normalizeAxis a.ndim ax < a.shape.length := hax
    rw [← insertIdx_eraseIdx_self _ _ _ hax']
    exact inRange_insertIdx _ _ _ _ _ hc (by omega)
  rw [hbody _ hlen] at e1
  cases e1
  simp only [Arr.single] at e2
  cases e2
  exact e3

/-! ### `minL` -/

theorem minL_fold (l : List Rat) : ∀ (init : Rat),
    (l.foldl (fun a b => if a > b then b else a) init = init ∨
      l.foldl (fun a b => if a > b then b else a) init ∈ l) ∧
    l.foldl (fun a b => if a > b then b else a) init ≤ init ∧
    ∀ x ∈ l, l.foldl (fun a b => if a > b then b else a) init ≤ x := by
  induction l with
  | nil => intro init; simp
  | cons y ys ih =>
    intro init
    rw [List.foldl_cons]
    obtain ⟨h1, h2, h3⟩ := ih (if init > y then y else init)
    have hle : (if init > y then y else init) ≤ init := by split <;> [exact le_of_lt ‹_›; exact le_refl _]
    have hy : (if init > y then y else init) ≤ y := by split <;> [exact le_refl _; exact not_lt.1 ‹_›]
    refine ⟨?_, le_trans h2 hle, ?_⟩
    · rcases h1 with h | h
      · rw [h]
        by_cases hlt : init > y
        · rw [if_pos hlt]; exact Or.inr (List.mem_cons_self)
        · rw [if_neg hlt]; exact Or.inl rfl
      · exact Or.inr (List.mem_cons_of_mem _ h)
    · intro x hx
      rcases List.mem_cons.1 hx with h | h
      · rw [h]; exact le_trans h2 hy
      · exact h3 x h

/-- `minL` of a non-empty list is its least element -/
theorem minL_spec (l : List Rat) (hne : l ≠ []) : minL l ∈ l ∧ ∀ x ∈ l, minL l ≤ x := by
  unfold minL
  cases l with
  | nil => exact absurd rfl hne
  | cons y ys =>
    obtain ⟨h1, _, h3⟩ := minL_fold (y :: ys) y
    simp only [List.headD_cons]
    refine ⟨?_, h3⟩
    rcases h1 with h | h
    · rw [h]; exact List.mem_cons_self
    · exact h

/-! ### one arm of the one-axis dispatch: map, reduce, wrap -/

theorem get?_wrap {β : Type} (wrap : Rat → β) (r : Arr Rat) (c : List Nat) :
    (⟨r.elems.map wrap, r.shape⟩ : Arr β).get? c = (r.get? c).map wrap := by
  simp only [Arr.get?, List.getElem?_map]

/-- `((mapArr f a).reduceAxis … body).map wrap` entry by entry, for a body that is `single ∘ g` on non-empty lanes -/
theorem vec_arm_spec {β : Type} (a : Arr Rat) (ax : Int) (f : Rat → Rat) (body : Arr Rat → Res (Arr Rat)) (g : List Rat → Rat)
    (wrap : Rat → β)
    (hbody : ∀ lane : List Rat, lane.length ≠ 0 → body (Arr.flat lane) = .ok (Arr.single (g lane)))
    (hwf : a.WF) (hnz : 0 ∉ a.shape) (hax : normalizeAxis a.ndim ax < a.ndim) :
    ∃ r : Arr β, (((mapArr f a).reduceAxis 0 0 (some ax) body).map fun r => (⟨r.elems.map wrap, r.shape⟩ : Arr β)) = .ok r ∧
      r.shape = (if a.ndim > 1 then a.shape.eraseIdx (normalizeAxis a.ndim ax) else [1]) ∧ r.WF ∧
      ∀ c, inRange (a.shape.eraseIdx (normalizeAxis a.ndim ax)) c = true →
        r.get? (if a.ndim > 1 then c else [0]) =
          some (wrap (g ((laneOf a (normalizeAxis a.ndim ax) (c.insertIdx (normalizeAxis a.ndim ax) 0)).map f))) := by
  have hpos := getD_pos_of_not_mem a.shape _ hax hnz
  obtain ⟨r, h1, h2, h3, h4⟩ := redAx_spec (mapArr f a) 0 0 ax body g (mapArr_wf f a hwf) hnz hax
    (fun lane hl => hbody lane (by rw [hl]; exact hpos))
  simp only [mapArr_ndim, mapArr_shape] at h2 h4
  refine ⟨⟨r.elems.map wrap, r.shape⟩, ?_, h2, ?_, ?_⟩
  · rw [h1]; rfl
  · unfold Arr.WF at *; simpa using h3
  · intro c hc
    have e := h4 c hc
    rw [laneOf_mapArr] at e
    rw [get?_wrap]
    by_cases hnd : a.ndim > 1
    · simp only [hnd, if_true] at e ⊢; rw [e]; rfl
    · simp only [hnd, if_false] at e ⊢; rw [e]; rfl

/-- the lane through a position of the remaining axes has the length of the reduced axis … -/
theorem lane_length {α : Type} (a : Arr α) (ax : Int) (c : List Nat) (hwf : a.WF) (hax : normalizeAxis a.ndim ax < a.ndim)
    (hc : inRange (a.shape.eraseIdx (normalizeAxis a.ndim ax)) c = true) :
    (laneOf a (normalizeAxis a.ndim ax) (c.insertIdx (normalizeAxis a.ndim ax) 0)).length
      = a.shape.getD (normalizeAxis a.ndim ax) 0 := by
  apply laneOf_length a _ 1 _ hwf
  have hax' : normalizeAxis a.ndim ax < a.shape.length := hax
  rw [← insertIdx_eraseIdx_self _ _ _ hax']
  exact inRange_insertIdx _ _ _ _ _ hc (by omega)

/-- … and its `j`-th element is the element of `a` at that position with `j` inserted at the reduced axis -/
theorem lane_entry {α : Type} (a : Arr α) (ax : Int) (c : List Nat) (hwf : a.WF) (hax : normalizeAxis a.ndim ax < a.ndim)
    (hc : inRange (a.shape.eraseIdx (normalizeAxis a.ndim ax)) c = true) (j : Nat)
    (hj : j < a.shape.getD (normalizeAxis a.ndim ax) 0) :
    (laneOf a (normalizeAxis a.ndim ax) (c.insertIdx (normalizeAxis a.ndim ax) 0))[j]?
      = a.get? (c.insertIdx (normalizeAxis a.ndim ax) j) := by
  have hax' : normalizeAxis a.ndim ax < a.shape.length := hax
  have hC : inRange (a.shape.set (normalizeAxis a.ndim ax) 1) (c.insertIdx (normalizeAxis a.ndim ax) 0) = true := by
    rw [← insertIdx_eraseIdx_self _ _ _ hax']
    exact inRange_insertIdx _ _ _ _ _ hc (by omega)
  rw [laneOf_getElem? a _ 1 _ hwf hC j hj]
  congr 1
  have hcl : c.length = (a.shape.eraseIdx (normalizeAxis a.ndim ax)).length := inRange_length _ _ hc
  have hal : normalizeAxis a.ndim ax ≤ c.length := by rw [hcl, List.length_eraseIdx]; simp [hax']; omega
  rw [← insertIdx_eraseIdx_self (c.insertIdx (normalizeAxis a.ndim ax) 0) _ j (by rw [List.length_insertIdx]; split <;> omega),
    eraseIdx_insertIdx_self _ _ _ hal]

end ArrModel.C15
