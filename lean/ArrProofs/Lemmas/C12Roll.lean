import ArrProofs.Lemmas.C12Arr
/-!
# C12: the pairing of shifts with axes in `roll` (the three shapes of the broadcast: equal lengths, one shift for several
axes, several shifts for one axis) and `roll` on a given pairing
-/
namespace ArrModel
variable {α β : Type}

theorem sequence_map_ok {ι : Type} (f : ι → β) (l : List ι) :
    Res.sequence (l.map (fun i => Res.ok (f i))) = .ok (l.map f) := by
  induction l with
  | nil => rfl
  | cons x xs ih => simp only [List.map_cons, Res.sequence, Res.bind_ok, ih]

theorem isBroadcastable_one_left (n : Nat) (hn : n ≠ 0) : isBroadcastable [1] [n] = true := by
  simp [isBroadcastable, dimClash, hn]
theorem isBroadcastable_one_right (n : Nat) (hn : n ≠ 0) : isBroadcastable [n] [1] = true := by
  simp [isBroadcastable, dimClash, hn]
theorem isBroadcastable_same (n : Nat) (hn : n ≠ 0) : isBroadcastable [n] [n] = true := by
  simp [isBroadcastable, dimClash, hn]

theorem broadcastShape_one_left (n : Nat) : broadcastShape [1] [n] = .ok [n] := by
  simp [broadcastShape, padRev, bdim, Res.sequence, Res.map]
theorem broadcastShape_one_right (n : Nat) (hn : n ≠ 1) : broadcastShape [n] [1] = .ok [n] := by
  simp [broadcastShape, padRev, bdim, Res.sequence, Res.map, hn]

theorem broadcastTo_flat_one (v : β) (n : Nat) (hn : 2 ≤ n) :
    (Arr.flat [v]).broadcastTo [n] = .ok ⟨List.replicate n v, [n]⟩ := by
  have hb := isBroadcastable_one_left n (by omega)
  have hcell : ∀ idx : Nat, (Arr.flat [v]).atc (bsrc [1] (unravelFold [n] idx)) = Res.ok v := by
    intro idx
    simp [Arr.flat, Arr.atc, Arr.indexAt, bsrc, unravelFold, anyOut, indexAtFold, Res.idx]
  unfold Arr.broadcastTo
  simp only [Arr.flat, List.length_cons, List.length_nil, Nat.zero_add, hb, Bool.not_true, Bool.false_eq_true, if_false,
    List.prod_cons, List.prod_nil, Nat.mul_one]
  rw [if_neg (by omega), if_neg (by omega)]
  simp only [Nat.sub_self, List.drop_zero, List.zip_cons_cons, List.zip_nil_right, List.any_cons, List.any_nil]
  rw [if_neg (by simp)]
  have : (List.range n).map (fun idx => (⟨[v], [1]⟩ : Arr β).atc (bsrc [1] (unravelFold [n] idx)))
       = (List.range n).map (fun idx => Res.ok ((fun _ => v) idx)) := by
    apply List.map_congr_left; intro idx _; exact hcell idx
  rw [this, sequence_map_ok]
  simp [Arr.new, List.map_const']

theorem broadcastTo_flat_self (l : List β) (hn : l.length ≠ 0) :
    (Arr.flat l).broadcastTo [l.length] = .ok ⟨l, [l.length]⟩ := by
  have hb := isBroadcastable_same l.length hn
  unfold Arr.broadcastTo
  simp only [Arr.flat, hb, Bool.not_true, Bool.false_eq_true, if_false, if_true, Arr.reshape, Arr.new, List.prod_cons,
    List.prod_nil, Nat.mul_one]

theorem zip_replicate_left (s : α) (l : List β) : (List.replicate l.length s).zip l = l.map (fun x => (s, x)) := by
  induction l with
  | nil => rfl
  | cons x xs ih => simp only [List.length_cons, List.replicate_succ, List.zip_cons_cons, List.map_cons, ih]

theorem zip_replicate_right (l : List α) (x : β) : l.zip (List.replicate l.length x) = l.map (fun s => (s, x)) := by
  induction l with
  | nil => rfl
  | cons y ys ih => simp only [List.length_cons, List.replicate_succ, List.zip_cons_cons, List.map_cons, ih]

/-- one shift for several axes -/
theorem broadcast_flat_one_left (s : α) (axs : List β) (hn : 2 ≤ axs.length) :
    (Arr.flat [s]).broadcast (Arr.flat axs) = .ok ⟨axs.map (fun x => (s, x)), [axs.length]⟩ := by
  have h1 := broadcastTo_flat_one s axs.length hn
  have h2 := broadcastTo_flat_self axs (by omega)
  have hb := isBroadcastable_one_left axs.length (by omega)
  unfold Arr.broadcast
  have hsh : (Arr.flat [s]).shape = [1] := rfl
  have hsh2 : (Arr.flat axs).shape = [axs.length] := rfl
  rw [hsh, hsh2, hb]
  simp only [Bool.not_true, Bool.false_eq_true, if_false]
  rw [if_neg (by simp; omega), broadcastShape_one_left, Res.bind_ok, h1, Res.bind_ok, h2, Res.bind_ok]
  simp only [zip_replicate_left, Arr.new, List.prod_cons, List.prod_nil, Nat.mul_one, List.length_map, if_true]

/-- several shifts for one axis -/
theorem broadcast_flat_one_right (shift : List α) (x : β) (hn : 2 ≤ shift.length) :
    (Arr.flat shift).broadcast (Arr.flat [x]) = .ok ⟨shift.map (fun s => (s, x)), [shift.length]⟩ := by
  have h1 := broadcastTo_flat_one x shift.length hn
  have h2 := broadcastTo_flat_self shift (by omega)
  have hb := isBroadcastable_one_right shift.length (by omega)
  unfold Arr.broadcast
  have hsh : (Arr.flat [x]).shape = [1] := rfl
  have hsh2 : (Arr.flat shift).shape = [shift.length] := rfl
  rw [hsh, hsh2, hb]
  simp only [Bool.not_true, Bool.false_eq_true, if_false]
  rw [if_neg (by simp; omega), broadcastShape_one_right _ (by omega), Res.bind_ok, h2, Res.bind_ok, h1, Res.bind_ok]
  simp only [zip_replicate_right, Arr.new, List.prod_cons, List.prod_nil, Nat.mul_one, List.length_map, if_true]

/-- the (axis, shift) pairs `roll` works with, from the broadcast (shift, axis) pairs -/
def pairsOf (nd : Nat) (ps : List (Int × Int)) : List (Nat × Int) := ps.map (fun p => (normalizeAxis nd p.2, p.1))

theorem rollPairs_eq (nd : Nat) (shift axs : List Int) : rollPairs nd shift axs = pairsOf nd (shift.zip axs) := rfl

theorem pairsOf_valid (nd : Nat) (ps : List (Int × Int)) (hv : ∀ p ∈ ps, normalizeAxis nd p.2 < nd) :
    ∀ p ∈ accumShifts (pairsOf nd ps), p.1 < nd := by
  intro p hp
  obtain ⟨q, hq, e⟩ := accumShifts_keys _ p hp
  obtain ⟨z, hz, rfl⟩ := List.mem_map.1 hq
  rw [← e]
  exact hv _ hz

/-- `roll` once the pairing of shifts and axes is known -/
theorem roll_of_bc (a : Arr α) (shift axs : List Int) (ps : List (Int × Int)) (n : Nat)
    (hbc : (Arr.flat shift).broadcast (Arr.flat axs) = .ok ⟨ps, [n]⟩) (hne : ps ≠ [])
    (hwf : a.WF) (hpos : ∀ d ∈ a.shape, 0 < d) (hv : ∀ p ∈ ps, normalizeAxis a.ndim p.2 < a.ndim) :
    ∃ r, a.roll shift (some axs) = .ok r ∧ r.shape = a.shape ∧ r.WF ∧
      ∀ c, inRange a.shape c = true →
        r.get? c = a.get? ((accumShifts (pairsOf a.ndim ps)).foldr (fun p c => rollCoord a.shape p.1 p.2 c) c) := by
  have hvalid := pairsOf_valid a.ndim ps hv
  have hany : (accumShifts (pairsOf a.ndim ps)).any (fun p => decide (p.1 ≥ a.ndim)) = false := by
    rw [List.any_eq_false]
    intro p hp
    have := hvalid p hp
    simp only [decide_eq_true_eq]; omega
  have hnd : 0 < a.ndim := by
    cases ps with
    | nil => exact absurd rfl hne
    | cons x _ => have := hv x List.mem_cons_self; omega
  cases a with | mk elems shape =>
  simp only [Arr.ndim] at hv hvalid hany hnd ⊢
  simp only [Arr.WF] at hwf
  cases shape with
  | nil => simp at hnd
  | cons d ds =>
    cases ds with
    | nil =>
      -- rank 1: successive rotations of the element vector
      obtain ⟨h2, h3⟩ := rotFold_at d (accumShifts (pairsOf 1 ps)) hvalid elems hwf
      have hl : [d].prod = ((accumShifts (pairsOf 1 ps)).foldl (fun es p => rotateRight es (p.2 % (es.length : Int)).toNat) elems).length := by
        rw [h2]; exact hwf.symm
      refine ⟨⟨_, [d]⟩, ?_, rfl, hl.symm, fun c hc => h3 c hc⟩
      unfold Arr.roll
      simp only [Option.isNone_some, Bool.false_eq_true, if_false, Option.getD_some, hbc, Res.bind_ok]
      simp only [Arr.ndim, List.length_cons, List.length_nil, Nat.lt_irrefl, if_false, Nat.zero_add]
      have hany' := hany
      simp only [List.length_cons, List.length_nil, Nat.zero_add, pairsOf] at hany'
      simp only [pairsOf, hany', Bool.false_eq_true, if_false, Arr.reshape, Arr.flat, Arr.new]
      exact if_pos (by simpa [pairsOf] using hl)
    | cons d2 ds =>
      obtain ⟨es, h1, h2, h3⟩ := rollFold_at (d :: d2 :: ds) hpos (accumShifts (pairsOf (ds.length + 1 + 1) ps))
        hvalid elems hwf
      have hl : (d :: d2 :: ds).prod = es.length := by rw [h2]; exact hwf.symm
      refine ⟨⟨es, d :: d2 :: ds⟩, ?_, rfl, hl.symm, fun c hc => h3 c hc⟩
      unfold Arr.roll
      simp only [Option.isNone_some, Bool.false_eq_true, if_false, Option.getD_some, hbc, Res.bind_ok]
      simp only [Arr.ndim, List.length_cons, List.length_nil, Nat.lt_irrefl, if_false, Nat.zero_add]
      have hany' := hany
      simp only [List.length_cons, pairsOf] at hany' h1
      simp only [hany', Bool.false_eq_true, if_false, h1, Res.bind_ok, Arr.new, hl, if_true]

/-- the same, read one coordinate at a time: the total shift of each axis is subtracted -/
theorem roll_total_of_bc (a : Arr α) (shift axs : List Int) (ps : List (Int × Int)) (n : Nat)
    (hbc : (Arr.flat shift).broadcast (Arr.flat axs) = .ok ⟨ps, [n]⟩) (hne : ps ≠ [])
    (hwf : a.WF) (hpos : ∀ d ∈ a.shape, 0 < d) (hv : ∀ p ∈ ps, normalizeAxis a.ndim p.2 < a.ndim) :
    ∃ r, a.roll shift (some axs) = .ok r ∧ r.shape = a.shape ∧
      ∀ c, inRange a.shape c = true → ∃ c', inRange a.shape c' = true ∧ r.get? c = a.get? c' ∧
        ∀ k, k < a.ndim → c'.getD k 0 = rollIdx (totalShift (pairsOf a.ndim ps) k) (a.shape.getD k 0) (c.getD k 0) := by
  obtain ⟨r, h1, h2, _, h4⟩ := roll_of_bc a shift axs ps n hbc hne hwf hpos hv
  have hvalid := pairsOf_valid a.ndim ps hv
  refine ⟨r, h1, h2, ?_⟩
  intro c hc
  refine ⟨_, ?_, h4 c hc, ?_⟩
  · exact inRange_foldr (fun (p : Nat × Int) c => rollCoord a.shape p.1 p.2 c) a.shape (fun p => p.1 < a.shape.length)
      (fun x hx c hc => inRange_rollCoord a.shape c x.1 x.2 hc hx) _ hvalid c hc
  · intro k hk
    rw [foldr_rollCoord_getD a.shape hpos _ hvalid c hc k hk, accumShifts_total]

end ArrModel
