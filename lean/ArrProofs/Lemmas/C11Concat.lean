import ArrProofs.Lemmas.C11Append
/-! C11: `concatenate` (the fold of `append`) and the shape validation -/
namespace ArrModel.C11
open ArrModel Arr
variable {α : Type}

/-- length of axis `k` -/
def axLen (k : Nat) (b : Arr α) : Nat := b.shape.getD k 0

/-- prefix sum of the axis lengths: where input `i` starts -/
def offsetOf (k : Nat) (arrs : List (Arr α)) (i : Nat) : Nat := ((arrs.take i).map (axLen k)).sum

theorem axLen_cut (b : Arr α) (P Q : List Nat) (n : Nat) (h : b.shape = P ++ n :: Q) : axLen P.length b = n := by
  rw [axLen, h, getD_mid]

theorem foldAppend_cons (a0 b : Arr α) (rest : List (Arr α)) (zero : α) (axis : Option Nat) (r : Arr α)
    (h : a0.append b zero axis = .ok r) :
    foldAppend a0 (b :: rest) zero axis = foldAppend r rest zero axis := by
  simp only [foldAppend, List.foldl_cons, Res.bind_ok, h]

/-- **the fold of `append` along axis `k = P.length`** -/
theorem foldAppend_cut (zero : α) (P Q : List Nat) :
    ∀ (rest : List (Arr α)) (a0 : Arr α), a0.WF → a0.shape = P ++ axLen P.length a0 :: Q →
      (∀ b ∈ rest, b.WF ∧ b.shape = P ++ axLen P.length b :: Q) →
      ∃ r, foldAppend a0 rest zero (some P.length) = .ok r ∧
        r.shape = P ++ (((a0 :: rest).map (axLen P.length)).sum) :: Q ∧ r.WF ∧
        ∀ i (hi : i < (a0 :: rest).length) p q j, inRange P p = true → inRange Q q = true →
          j < axLen P.length ((a0 :: rest)[i]) →
          r.get? (p ++ (offsetOf P.length (a0 :: rest) i + j) :: q) = ((a0 :: rest)[i]).get? (p ++ j :: q)
  | [], a0, hwf, hs, _ => by
    refine ⟨a0, rfl, by simpa using hs, hwf, ?_⟩
    intro i hi p q j _ _ _
    have : i = 0 := by simpa using hi
    subst this
    simp [offsetOf]
  | b :: rest, a0, hwf, hs, hr => by
    obtain ⟨hbw, hbs⟩ := hr b List.mem_cons_self
    obtain ⟨a1, h1, h2, h3, h4, h5⟩ := appendAxis_cut a0 b zero _ _ P Q hwf hbw hs hbs
    have hl1 : axLen P.length a1 = axLen P.length a0 + axLen P.length b := axLen_cut a1 P Q _ h2
    obtain ⟨r, g1, g2, g3, g4⟩ := foldAppend_cut zero P Q rest a1 h3 (by rw [hl1]; exact h2)
      (fun x hx => hr x (List.mem_cons_of_mem _ hx))
    refine ⟨r, ?_, ?_, g3, ?_⟩
    · rw [foldAppend_cons a0 b rest zero (some P.length) a1 h1]; exact g1
    · rw [g2]; simp only [List.map_cons, List.sum_cons, hl1]; rw [Nat.add_assoc]
    · intro i hi p q j hp hq hj
      match i, hi, hj with
      | 0, _, hj =>
        simp only [List.getElem_cons_zero] at hj ⊢
        have := g4 0 (by simp) p q j hp hq (by simp only [List.getElem_cons_zero, hl1]; omega)
        simp only [offsetOf, List.take_zero, List.map_nil, List.sum_nil, List.getElem_cons_zero] at this ⊢
        rw [this, h4 p q j hp hq hj]
      | 1, _, hj =>
        simp only [List.getElem_cons_succ, List.getElem_cons_zero] at hj ⊢
        have := g4 0 (by simp) p q (axLen P.length a0 + j) hp hq (by simp only [List.getElem_cons_zero, hl1]; omega)
        simp only [offsetOf, List.take_zero, List.map_nil, List.sum_nil, List.getElem_cons_zero, Nat.zero_add] at this
        have e : offsetOf P.length (a0 :: b :: rest) 1 = axLen P.length a0 := by simp [offsetOf]
        rw [e, this, h5 p q j hp hq hj]
      | i + 2, hi, hj =>
        simp only [List.getElem_cons_succ] at hj ⊢
        have := g4 (i + 1) (by simp at hi ⊢; omega) p q j hp hq (by simpa using hj)
        simp only [List.getElem_cons_succ] at this
        have e : offsetOf P.length (a0 :: b :: rest) (i + 2) = offsetOf P.length (a1 :: rest) (i + 1) := by
          simp only [offsetOf, List.take_succ_cons, List.map_cons, List.sum_cons, hl1]; rw [Nat.add_assoc]
        rw [e, this]

/-! ### `validate_stack_shapes` -/

theorem validate_go_ok (k : Nat) (R : List Nat) : ∀ (l : List (Arr α)),
    (∀ b ∈ l, k < b.ndim ∧ b.shape.eraseIdx k = R) → validateStackShapes.go k l = .ok ()
  | [], _ => by simp [validateStackShapes.go]
  | [_], _ => by simp [validateStackShapes.go]
  | a :: b :: rest, h => by
    obtain ⟨ha1, ha2⟩ := h a List.mem_cons_self
    obtain ⟨hb1, hb2⟩ := h b (List.mem_cons_of_mem _ List.mem_cons_self)
    have ha1' : ¬ k ≥ a.shape.length := by simpa [Arr.ndim] using ha1
    have hb1' : ¬ k ≥ b.shape.length := by simpa [Arr.ndim] using hb1
    simp only [validateStackShapes.go, vecRemove, if_neg ha1', if_neg hb1', Res.bind_ok, ha2, hb2, ne_eq, not_true_eq_false, if_false]
    exact validate_go_ok k R (b :: rest) (fun x hx => h x (List.mem_cons_of_mem _ hx))

theorem validate_ok (k : Nat) (R : List Nat) (l : List (Arr α)) (h : ∀ b ∈ l, k < b.ndim ∧ b.shape.eraseIdx k = R) :
    validateStackShapes l k k = .ok () := by
  unfold validateStackShapes
  rw [if_neg]
  · exact validate_go_ok k R l h
  · simp only [List.any_eq_true, decide_eq_true_eq, not_exists, not_and]
    intro x hx; have := (h x hx).1; omega

theorem validate_go_err (k : Nat) : ∀ (l : List (Arr α)) (a0 : Arr α), (∀ b ∈ a0 :: l, k < b.ndim) →
    (∃ b ∈ l, b.shape.eraseIdx k ≠ a0.shape.eraseIdx k) →
    validateStackShapes.go k (a0 :: l) = .err .ConcatenateShapeMismatch
  | [], _, _, h => by obtain ⟨b, hb, _⟩ := h; simp at hb
  | b :: rest, a0, hk, h => by
    have ha1' : ¬ k ≥ a0.shape.length := by have := hk a0 List.mem_cons_self; simpa [Arr.ndim] using this
    have hb1' : ¬ k ≥ b.shape.length := by
      have := hk b (List.mem_cons_of_mem _ List.mem_cons_self); simpa [Arr.ndim] using this
    simp only [validateStackShapes.go, vecRemove, if_neg ha1', if_neg hb1', Res.bind_ok]
    by_cases he : a0.shape.eraseIdx k = b.shape.eraseIdx k
    · rw [if_neg (by simpa using he)]
      apply validate_go_err k rest b (fun x hx => hk x (List.mem_cons_of_mem _ hx))
      obtain ⟨x, hx, hne⟩ := h
      rcases List.mem_cons.1 hx with rfl | hx
      · exact absurd he.symm hne
      · exact ⟨x, hx, by rw [← he]; exact hne⟩
    · rw [if_pos (by simpa using he)]

/-- off-axis disagreement (or an axis outside some rank) is refused by the validation -/
theorem validate_err (k : Nat) (a0 : Arr α) (rest : List (Arr α))
    (h : ∃ b ∈ a0 :: rest, k ≥ b.ndim ∨ b.shape.eraseIdx k ≠ a0.shape.eraseIdx k) :
    ∃ e, validateStackShapes (a0 :: rest) k k = .err e := by
  unfold validateStackShapes
  by_cases hany : (a0 :: rest).any (fun a => decide (k ≥ a.ndim)) = true
  · rw [if_pos hany]; exact ⟨_, rfl⟩
  · rw [if_neg hany]
    have hk : ∀ b ∈ a0 :: rest, k < b.ndim := by
      intro b hb
      simp only [List.any_eq_true, decide_eq_true_eq, not_exists, not_and] at hany
      have := hany b hb; omega
    refine ⟨_, validate_go_err k rest a0 hk ?_⟩
    obtain ⟨b, hb, hor⟩ := h
    rcases hor with h1 | h1
    · have := hk b hb; omega
    · rcases List.mem_cons.1 hb with rfl | hb
      · exact absurd rfl h1
      · exact ⟨b, hb, h1⟩

/-- a shape cut at axis `k`, given what is left after removing the axis -/
theorem shape_cut_of_eraseIdx (s : List Nat) (k : Nat) (P Q : List Nat) (hk : k < s.length) (hPl : P.length = k)
    (h : s.eraseIdx k = P ++ Q) : s = P ++ s.getD k 0 :: Q := by
  have hc := cut_at s k hk
  rw [List.eraseIdx_eq_take_drop_succ] at h
  have hl : (s.take k).length = P.length := by rw [length_take_of_lt s k hk, hPl]
  obtain ⟨e1, e2⟩ := List.append_inj h hl
  rw [e1, e2] at hc
  exact hc

/-- **`concatenate` along axis `k = P.length`** -/
theorem concatenate_cut (zero : α) (P Q : List Nat) (a0 : Arr α) (rest : List (Arr α))
    (h : ∀ b ∈ a0 :: rest, b.WF ∧ b.shape = P ++ axLen P.length b :: Q) :
    ∃ r, concatenate (a0 :: rest) zero (some P.length) = .ok r ∧
      r.shape = P ++ (((a0 :: rest).map (axLen P.length)).sum) :: Q ∧ r.WF ∧
      ∀ i (hi : i < (a0 :: rest).length) p q j, inRange P p = true → inRange Q q = true →
        j < axLen P.length ((a0 :: rest)[i]) →
        r.get? (p ++ (offsetOf P.length (a0 :: rest) i + j) :: q) = ((a0 :: rest)[i]).get? (p ++ j :: q) := by
  have hv : validateStackShapes (a0 :: rest) P.length P.length = .ok () := by
    apply validate_ok P.length (P ++ Q)
    intro b hb
    have := (h b hb).2
    constructor
    · rw [Arr.ndim, this]; simp
    · rw [this, eraseIdx_mid]
  obtain ⟨hw0, hs0⟩ := h a0 List.mem_cons_self
  obtain ⟨r, h1, h2⟩ := foldAppend_cut zero P Q rest a0 hw0 hs0 (fun b hb => h b (List.mem_cons_of_mem _ hb))
  refine ⟨r, ?_, h2⟩
  simp only [concatenate, hv, Res.bind_ok]
  exact h1

end ArrModel.C11
