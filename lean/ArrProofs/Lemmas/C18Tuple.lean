import ArrProofs.Lemmas.C18Rel
/-!
# Lemmas for C18 — `array_tuple!` on the Debug text of a written literal

`array!(Tuple2<..>, lit)` hands `format!("{:?}", vec![vec![lit]])` to `array_tuple!`: two extra bracket levels around the
nest whose leaves are the Debug texts `(c₁, c₂)` of native tuples.  `array_parse_input!` rewrites `", "` between two
quoted components into `","` (inside the leaves) and `], [` into `],[` (between the rows); the `while contains("(")` loop
cuts every parenthesised piece out (first `(`, first `)`), blanks it, and the shape is parsed from the blanked text.
-/
namespace ArrModel.C18

/-- a parenthesised piece -/
def wrapP (b : Str) : Str := '(' :: (b ++ [')'])

/-- what `array_parse_input!` does to the inside of a piece: `", "` between two quotes loses its blank -/
def quoteTight (b : Str) : Str := replace quoteSepL quoteSepT b

/-- a tuple body (the text between the parentheses) `array_tuple!` carries: no `)`, no `\`, and after the
quote rewrite no occurrence of the four characters `], [` (an opening parenthesis inside a body is harmless to the
loop: it takes the first `(` and the first `)` of the whole text) -/
structure TupOk (b : Str) : Prop where
  cls : ')' ∉ b
  back : '\\' ∉ b
  noBr : ∀ k, brSepL.isPrefixOf ((quoteTight b).drop k) = false

/-- the treated part of the text holds no parenthesis -/
def okT (A : Str) : Prop := '(' ∉ A ∧ ')' ∉ A

theorem okT_nil : okT [] := ⟨by simp, by simp⟩
theorem okT_append (a b : Str) (ha : okT a) (hb : okT b) : okT (a ++ b) :=
  ⟨by simp [ha.1, hb.1], by simp [ha.2, hb.2]⟩

theorem mem_quoteTight {x : Char} {b : Str} (h : x ∈ quoteTight b) : x ∈ b ∨ x = '"' ∨ x = ',' := by
  rcases mem_replace (p := quoteSepL) (t := quoteSepT) (by decide) b.length b (Nat.le_refl _) h with h | h
  · exact Or.inl h
  · simp [quoteSepT] at h; rcases h with h | h | h <;> simp [h]

theorem not_mem_quoteTight {x : Char} {b : Str} (hb : x ∉ b) (h1 : x ≠ '"') (h2 : x ≠ ',') : x ∉ quoteTight b := by
  intro h; rcases mem_quoteTight h with h | h | h
  · exact hb h
  · exact h1 h
  · exact h2 h

/-- a body without `]` satisfies the `], [` clause -/
theorem noBr_of_not_mem {b : Str} (h : ']' ∉ b) : ∀ k, brSepL.isPrefixOf ((quoteTight b).drop k) = false := by
  intro k
  cases hh : brSepL.isPrefixOf ((quoteTight b).drop k) with
  | false => rfl
  | true =>
    rw [List.isPrefixOf_iff_prefix] at hh
    have : ']' ∈ (quoteTight b).drop k := hh.subset (by simp [brSepL])
    exact absurd (List.mem_of_mem_drop this) (not_mem_quoteTight h (by decide) (by decide))

/-- one iteration of the `array_tuple!` loop on a piece: found, pushed (without quotes), blanked -/
theorem cutTuples_leaf (b : Str) (h2 : ')' ∉ b) :
    CutRel cutTuples okT (wrapP b) ['_'] [remove '"' (wrapP b)] := by
  refine ⟨⟨by decide, by decide⟩, by simp [wrapP], fun A Z acc fuel hA => ?_⟩
  have hX1 : A ++ (wrapP b ++ Z) = A ++ '(' :: (b ++ ')' :: Z) := by simp [wrapP]
  have hX2 : A ++ (wrapP b ++ Z) = (A ++ '(' :: b) ++ ')' :: Z := by simp [wrapP]
  have hX3 : A ++ (wrapP b ++ Z) = A ++ wrapP b ++ Z := by simp
  have hf1 : find ['('] (A ++ (wrapP b ++ Z)) = some A.length := by rw [hX1]; exact find_char_first _ hA.1
  have hf2 : find [')'] (A ++ (wrapP b ++ Z)) = some (A ++ '(' :: b).length := by
    rw [hX2]; exact find_char_first _ (by simp [hA.2, h2])
  have hsl : slice (A ++ (wrapP b ++ Z)) A.length ((A ++ '(' :: b).length + 1) = .ok (wrapP b) :=
    slice_mid' _ A (wrapP b) Z _ _ hX3 rfl (by simp [wrapP]; omega)
  have hrr : replaceRange (A ++ (wrapP b ++ Z)) A.length ((A ++ '(' :: b).length + 1) ['_'] = .ok (A ++ ['_'] ++ Z) :=
    replaceRange_mid' _ A (wrapP b) Z ['_'] _ _ hX3 rfl (by simp [wrapP]; omega)
  show cutTuples (fuel + 1) _ _ = _
  rw [cutTuples, hf1]
  simp only [hf2, hsl, hrr]
  simp [List.append_assoc]

theorem cutTuples_done (fuel : Nat) (s : Str) (acc : List Str) (h : okT s) :
    cutTuples (fuel + 1) s acc = .ok (acc.reverse, s) := by
  rw [cutTuples, find_char_none h.1]

/-- running a cut-out loop with the fuel the macro model gives it (`text.length + 1`) -/
theorem cutRel_run {run : Nat → Str → List Str → Res (List Str × Str)} {ok : Str → Prop}
    (hdone : ∀ fuel s acc, ok s → run (fuel + 1) s acc = .ok (acc.reverse, s))
    (happ : ∀ a b, ok a → ok b → ok (a ++ b)) {X X' : Str} {items : List Str} (h : CutRel run ok X X' items)
    (A Z : Str) (hA : ok A) (hZ : ok Z) :
    run ((A ++ (X ++ Z)).length + 1) (A ++ (X ++ Z)) [] = .ok (items, A ++ (X' ++ Z)) := by
  obtain ⟨hX', hlen, hrun⟩ := h
  have e : (A ++ (X ++ Z)).length + 1 = ((A ++ (X ++ Z)).length - items.length + 1) + items.length := by
    have : items.length ≤ (A ++ (X ++ Z)).length := by simp; omega
    omega
  rw [e, hrun A Z [] _ hA, hdone _ _ _ (happ _ _ hA (happ _ _ hX' hZ))]
  simp

theorem okT_rep {c : Char} (h1 : c ≠ '(') (h2 : c ≠ ')') (n : Nat) : okT (rep c n) :=
  ⟨not_mem_rep (Ne.symm h1) n, not_mem_rep (Ne.symm h2) n⟩

/-- **`array!(Tuple2<…>/Tuple3<…>, <nested brackets>)`**: the written shape and the pieces in reading order -/
theorem arrayTuple_literal (s : List Nat) (bs : List Str) (hs : s ≠ []) (hpos : ∀ d ∈ s, 1 ≤ d)
    (hl : bs.length = s.prod) (hc : ∀ b ∈ bs, TupOk b) :
    arrayTuple (debugVec (1 :: s) (bs.map wrapP))
      = .ok (s, bs.map (fun b => remove '"' (wrapP (quoteTight b)))) := by
  have hl3 : (bs.map wrapP).length = s.prod := by simpa using hl
  have hl4 : (bs.map (fun b => wrapP (quoteTight b))).length = s.prod := by simpa using hl
  have hr : 1 ≤ s.length := by cases s with | nil => exact absurd rfl hs | cons _ _ => simp
  have hpos1 : ∀ d ∈ 1 :: s, 1 ≤ d := by
    intro d hd; simp at hd; rcases hd with rfl | hd
    · exact Nat.le_refl _
    · exact hpos d hd
  rw [debugVec_eq' hpos1 (by simpa using hl), mid_one_cons _ _ _ hl3]
  have ha : (1 :: s).length + 1 = s.length + 2 := by simp
  rw [ha]
  -- step 1: `", "` between quoted components loses its blank (inside the pieces only)
  have h1 : replace quoteSepL quoteSepT (rep '[' (s.length + 2) ++ mid sepL s (bs.map wrapP) ++ rep ']' (s.length + 2))
      = rep '[' (s.length + 2) ++ mid sepL s (bs.map (fun b => wrapP (quoteTight b))) ++ rep ']' (s.length + 2) := by
    have hqo : NoStart quoteSepL (rep '[' (s.length + 2)) :=
      noStart_of_head_not_mem (c := '"') (p := [',', ' ', '"']) (not_mem_rep (c := '[') (by decide) _)
    have hm := mid_rel (repRel_appRel quoteSepL quoteSepT) sepL sepL wrapP (fun b => wrapP (quoteTight b)) id s bs hpos hl
      (fun j _ => repRel_noStart (noStart_of_head_not_mem (c := '"') (p := [',', ' ', '"']) (quote_not_mem_sepL j)) [])
      (fun b _ => repRel_wrapped (p := quoteSepL) (by decide) '(' ')' (by decide) (by decide) b _)
    rw [List.append_assoc, replace_noStart _ hqo, hm (rep ']' (s.length + 2)),
      replace_of_not_mem (c := '"') (by decide) (not_mem_rep (by decide) _), List.append_assoc]
  -- step 2: `], [` between the rows loses its blank
  have h2 : replace brSepL brSepT (rep '[' (s.length + 2) ++ mid sepL s (bs.map (fun b => wrapP (quoteTight b))) ++ rep ']' (s.length + 2))
      = rep '[' (s.length + 2) ++ mid sepT s (bs.map (fun b => wrapP (quoteTight b))) ++ rep ']' (s.length + 2) := by
    have hbo : NoStart brSepL (rep '[' (s.length + 2)) :=
      noStart_of_head_not_mem (c := ']') (p := [',', ' ', '[']) (not_mem_rep (c := '[') (by decide) _)
    rw [List.append_assoc, replace_noStart _ hbo, replace_br_mid' s _ hpos hl4 (by
        intro e he
        obtain ⟨b, hb, rfl⟩ := List.mem_map.1 he
        exact noStart_br_wrapped (o := '(') (c := ')') (by decide) (by decide) (hc b hb).noBr),
      replace_of_not_mem (c := ',') (by decide) (not_mem_rep (by decide) _), List.append_assoc]
  -- step 3: no backslash
  have hb : '\\' ∉ rep '[' (s.length + 2) ++ mid sepT s (bs.map (fun b => wrapP (quoteTight b))) ++ rep ']' (s.length + 2) := by
    intro hm
    rcases mem_text (fun c j => mem_sepT) hm with (h | h | h | h) | ⟨e, he, hxe⟩
    · exact absurd h (by decide)
    · exact absurd h (by decide)
    · exact absurd h (by decide)
    · exact absurd h (by decide)
    · obtain ⟨b, hbm, rfl⟩ := List.mem_map.1 he
      simp only [wrapP, List.mem_cons, List.mem_append, List.not_mem_nil, or_false] at hxe
      rcases hxe with h | h | h
      · exact absurd h (by decide)
      · exact not_mem_quoteTight (hc b hbm).back (by decide) (by decide) h
      · exact absurd h (by decide)
  have hPI := parseInput_eq' h1 h2 hb
  have hnd : ndimOf 2 (rep '[' (s.length + 2) ++ mid sepT s (bs.map (fun b => wrapP (quoteTight b))) ++ rep ']' (s.length + 2))
      = .ok s.length := by
    obtain ⟨e, r, he, hmid⟩ := mid_head' sepT s _ hpos hl4
    have he' : ∃ b, e = wrapP b := by
      cases bs with
      | nil => simp at he
      | cons b _ => simp at he; exact ⟨_, he.symm⟩
    obtain ⟨b, rfl⟩ := he'
    unfold ndimOf
    rw [hmid, show wrapP b ++ r = '(' :: (b ++ ')' :: r) by simp [wrapP], List.append_assoc,
      List.cons_append, findP_rep (c := '(') (by decide)]
    have : ¬ (s.length + 2 < 2) := by omega
    have h0 : s.length + 2 - 2 = s.length := by omega
    have h1 : ¬ (s.length = 0) := by omega
    simp [this, h0, h1]
  have hrel := mid_rel (cutRel_appRel okT_nil okT_append) sepT sepT (fun b => wrapP (quoteTight b)) (fun _ => ['_'])
    (fun b => remove '"' (wrapP (quoteTight b))) s bs hpos hl
    (fun j _ => cutRel_gap (run := cutTuples) (ok := okT) (G := sepT j)
      ⟨fun hm => by rcases mem_sepT hm with h | h | h | h <;> exact absurd h (by decide),
       fun hm => by rcases mem_sepT hm with h | h | h | h <;> exact absurd h (by decide)⟩)
    (fun b hbm => cutTuples_leaf (quoteTight b)
      (not_mem_quoteTight (hc b hbm).cls (by decide) (by decide)))
  have hcut := cutRel_run cutTuples_done okT_append hrel (rep '[' (s.length + 2)) (rep ']' (s.length + 2))
    (okT_rep (by decide) (by decide) _) (okT_rep (by decide) (by decide) _)
  rw [← List.append_assoc, ← List.append_assoc] at hcut
  have hshape : parseShape s.length _ = .ok s :=
    parseShapeLoop_mid (valid_blank s bs hpos hl) (s.length + 2) (s.length + 2) (by omega)
  unfold arrayTuple
  simp only [hPI, hnd, hcut, hshape]

end ArrModel.C18
