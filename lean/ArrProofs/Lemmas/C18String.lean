import ArrProofs.Lemmas.C18Char
/-!
# Lemmas for C18 — `array_string!` (repaired) on the Debug text of a written literal

`array_parse_input!` first turns `", "` between two strings into `","` (seen from the string contents the separators
are `"<sep>"`, and the element-level one *is* the pattern), then `"], ["` into `"],["`; the quote loop then cuts the
strings out and the shape is parsed from the blanked text with element-level separator `,`.
-/
namespace ArrModel.C18

/-! ### `array_string!`: the `"\", \"" → "\",\""` step -/

/-- Debug separators with the element-level blank already removed -/
def sepL0 : Nat → Str
  | 0 => [',']
  | j + 1 => sepL (j + 1)

/-- separators seen from the string contents: closing quote, separator, opening quote -/
def sepQ (sep : Nat → Str) (j : Nat) : Str := '"' :: sep j ++ ['"']

theorem mid_wrap (L R : Str) (sep : Nat → Str) : ∀ (s : List Nat) (cs : List Str), (∀ d ∈ s, 1 ≤ d) → cs.length = s.prod →
    mid sep s (cs.map (fun c => L ++ c ++ R)) = L ++ mid (fun j => R ++ sep j ++ L) s cs ++ R := by
  intro s
  induction s with
  | nil =>
    intro cs _ hl
    match cs, hl with
    | [c], _ => simp [mid]
  | cons n s ih =>
    intro cs hpos hl
    have hl' : cs.length = n * s.prod := by simpa using hl
    have hn : 1 ≤ n := hpos n (by simp)
    simp only [mid, chunks_map, List.map_map]
    have : (chunks s.prod n cs).map (mid sep s ∘ List.map (fun c => L ++ c ++ R))
        = (chunks s.prod n cs).map (fun ch => L ++ mid (fun j => R ++ sep j ++ L) s ch ++ R) := by
      apply List.map_congr_left
      intro ch hch
      exact ih ch (fun d hd => hpos d (by simp [hd])) (mem_chunks hl' hch).1
    rw [this, joinWith_wrap _ _ _ _ _ (chunks_ne_nil _ _ _ hn)]

theorem noStartCtx_append {p A1 A2 B : Str} (h1 : NoStartCtx p A1 (A2 ++ B)) (h2 : NoStartCtx p A2 B) :
    NoStartCtx p (A1 ++ A2) B := by
  intro k hk
  by_cases hka : k < A1.length
  · have := h1 k hka
    rw [List.drop_append_of_le_length (by omega)]
    simpa [List.append_assoc] using this
  · have := h2 (k - A1.length) (by simp at hk; omega)
    rw [List.drop_append, List.drop_of_length_le (by omega)]
    simpa using this

theorem quote_not_prefix {c W : Str} (h1 : '"' ∉ c) (h2 : c ≠ [',', ' ']) :
    quoteSepL.isPrefixOf ('"' :: (c ++ '"' :: W)) = false := by
  simp only [quoteSepL, List.isPrefixOf_cons_cons, beq_self_eq_true, Bool.true_and]
  match c with
  | [] => simp [List.isPrefixOf_cons_cons]
  | [x] =>
    simp only [List.cons_append, List.nil_append, List.isPrefixOf_cons_cons]
    by_cases hx : x = ','
    · subst hx; simp
    · have : (',' == x) = false := by simpa using fun e => hx e.symm
      simp [this]
  | x :: y :: r =>
    simp only [List.cons_append, List.isPrefixOf_cons_cons]
    by_cases hx : x = ','
    · by_cases hy : y = ' '
      · subst hx hy
        cases r with
        | nil => exact absurd rfl h2
        | cons z r =>
          have hz : z ≠ '"' := by intro e; subst e; simp at h1
          have : ('"' == z) = false := by simpa using fun e => hz e.symm
          simp [List.isPrefixOf_cons_cons, this]
      · have : (' ' == y) = false := by simpa using fun e => hy e.symm
        simp [this]
    · have : (',' == x) = false := by simpa using fun e => hx e.symm
      simp [this]


/-- in the contents view, the text begins with the first content followed by a quote -/
theorem mid_headQ (sep : Nat → Str) : ∀ (s : List Nat) (cs : List Str), (∀ d ∈ s, 1 ≤ d) → cs.length = s.prod →
    ∀ W, ∃ c ∈ cs, ∃ W', mid (sepQ sep) s cs ++ '"' :: W = c ++ '"' :: W' := by
  intro s
  induction s with
  | nil =>
    intro cs _ hl W
    match cs, hl with
    | [c], _ => exact ⟨c, by simp, W, by simp [mid]⟩
  | cons n s ih =>
    intro cs hpos hl W
    have hn : 1 ≤ n := hpos n (by simp)
    obtain ⟨n, rfl⟩ : ∃ m, n = m + 1 := ⟨n - 1, by omega⟩
    have hl' : cs.length = (n + 1) * s.prod := by simpa using hl
    have hlt : (cs.take s.prod).length = s.prod := by
      rw [List.length_take, hl', Nat.succ_mul]; omega
    simp only [mid, chunks, List.map_cons]
    cases hrest : (chunks s.prod n (cs.drop s.prod)).map (mid (sepQ sep) s) with
    | nil =>
      obtain ⟨c, hc, W', hW'⟩ := ih (cs.take s.prod) (fun d hd => hpos d (by simp [hd])) hlt W
      exact ⟨c, List.mem_of_mem_take hc, W', by simpa using hW'⟩
    | cons y ys =>
      obtain ⟨c, hc, W', hW'⟩ := ih (cs.take s.prod) (fun d hd => hpos d (by simp [hd])) hlt
        (sep s.length ++ ['"'] ++ joinWith (sepQ sep s.length) (y :: ys) ++ '"' :: W)
      refine ⟨c, List.mem_of_mem_take hc, W', ?_⟩
      rw [← hW', joinWith_cons_cons]
      simp [sepQ, List.append_assoc]

theorem replace_quote_sep (j : Nat) (c W : Str) (h1 : '"' ∉ c) (h2 : c ≠ [',', ' ']) :
    replace quoteSepL quoteSepT (sepQ sepL j ++ (c ++ '"' :: W))
      = sepQ sepL0 j ++ replace quoteSepL quoteSepT (c ++ '"' :: W) := by
  cases j with
  | zero => exact replace_append_pat _ (by simp [quoteSepL])
  | succ j =>
    have hsame : sepQ sepL0 (j + 1) = sepQ sepL (j + 1) := rfl
    rw [hsame]
    apply replace_ctx
    -- `"`, then `]…, […`, then `"`
    show NoStartCtx quoteSepL (['"'] ++ (sepL (j + 1) ++ ['"'])) _
    refine noStartCtx_append ?_ (noStartCtx_append ?_ ?_)
    · intro k hk
      have : k = 0 := by simpa using hk
      subst this
      simp [sepL, quoteSepL, rep, List.replicate_succ, List.isPrefixOf_cons_cons]
    · exact (noStart_of_head_not_mem (c := '"') (p := [',', ' ', '"']) (quote_not_mem_sepL (j + 1))).ctx _
    · intro k hk
      have : k = 0 := by simpa using hk
      subst this
      simpa using quote_not_prefix (W := W) h1 h2

theorem replace_quote_mid : ∀ (s : List Nat) (cs : List Str), (∀ d ∈ s, 1 ≤ d) → cs.length = s.prod →
    (∀ c ∈ cs, '"' ∉ c ∧ c ≠ [',', ' ']) → ∀ Z,
      replace quoteSepL quoteSepT (mid (sepQ sepL) s cs ++ '"' :: Z)
        = mid (sepQ sepL0) s cs ++ replace quoteSepL quoteSepT ('"' :: Z) := by
  intro s
  induction s with
  | nil =>
    intro cs _ hl hc Z
    match cs, hl with
    | [c], _ => exact replace_noStart _ (noStart_of_head_not_mem (p := [',', ' ', '"']) (hc c (by simp)).1)
  | cons n s ih =>
    intro cs hpos hl hc Z
    have hl' : cs.length = n * s.prod := by simpa using hl
    have hps : ∀ d ∈ s, 1 ≤ d := fun d hd => hpos d (by simp [hd])
    simp only [mid]
    refine joinWith_hom_ctx (fun W => ∃ W', W = '"' :: W') (replace quoteSepL quoteSepT)
      (mid (sepQ sepL) s) (mid (sepQ sepL0) s) _ _ _ ?_ ?_ ?_ _ ⟨Z, rfl⟩
    · intro ch _ W; exact ⟨sepL s.length ++ '"' :: (mid (sepQ sepL) s ch ++ W), by simp [sepQ]⟩
    · rintro ch hch _ ⟨W', rfl⟩
      have := mem_chunks hl' hch
      exact ih ch hps this.1 (fun c hcc => hc c (this.2 c hcc)) W'
    · rintro ch hch _ ⟨W', rfl⟩
      have hm := mem_chunks hl' hch
      obtain ⟨c, hcc, W'', hW''⟩ := mid_headQ sepL s ch hps hm.1 W'
      rw [hW'']
      exact replace_quote_sep s.length c W'' (hc c (hm.2 c hcc)).1 (hc c (hm.2 c hcc)).2


/-! ### `"], [" → "],["` on the result, escapes, and the whole front end -/

theorem replace_br_sep0 (j : Nat) (W : Str) :
    replace brSepL brSepT (sepL0 j ++ W) = sepTz [] j ++ replace brSepL brSepT W := by
  cases j with
  | zero => exact replace_noStart W (noStart_of_head_not_mem (c := ']') (p := [',', ' ', '[']) (A := [',']) (by decide))
  | succ j => exact replace_br_sep (j + 1) W

theorem replace_br_mid0 :
    ∀ (s : List Nat) (es : List Str), (∀ d ∈ s, 1 ≤ d) → es.length = s.prod → (∀ e ∈ es, NoStart brSepL e) → ∀ Z,
      replace brSepL brSepT (mid sepL0 s es ++ Z) = mid (sepTz []) s es ++ replace brSepL brSepT Z := by
  intro s
  induction s with
  | nil =>
    intro es _ hl hleaf Z
    match es, hl with
    | [e], _ => exact replace_noStart Z (hleaf e (by simp))
  | cons n s ih =>
    intro es hpos hl hleaf Z
    have hl' : es.length = n * s.prod := by simpa using hl
    simp only [mid]
    exact joinWith_hom (replace brSepL brSepT) (mid sepL0 s) (mid (sepTz []) s) _ _ _
      (fun c hc Z => by
        have := mem_chunks hl' hc
        exact ih c (fun d hd => hpos d (by simp [hd])) this.1 (fun e he => hleaf e (this.2 e he)) Z)
      (fun _ _ W => replace_br_sep0 s.length _) Z

theorem isPrefixOf_append_stop {p A Z : Str} {d : Char} (hd : d ∉ p) (h : p.isPrefixOf (A ++ d :: Z) = true) :
    p.isPrefixOf A = true := by
  induction p generalizing A with
  | nil => simp
  | cons x p ih =>
    simp only [List.mem_cons, not_or] at hd
    cases A with
    | nil =>
      simp only [List.nil_append, List.isPrefixOf_cons_cons, Bool.and_eq_true, beq_iff_eq] at h
      exact absurd h.1.symm hd.1
    | cons a A =>
      simp only [List.cons_append, List.isPrefixOf_cons_cons, Bool.and_eq_true] at h ⊢
      exact ⟨h.1, ih hd.2 h.2⟩

/-- a quoted string in which `], [` does not occur never starts a `], [` match -/
theorem noStart_br_stringLeaf {c : Str} (hocc : ∀ k, brSepL.isPrefixOf (c.drop k) = false) :
    NoStart brSepL (wrapQ '"' c) := by
  show NoStart brSepL ('"' :: (c ++ ['"']))
  rw [noStart_cons]
  refine ⟨fun Z => by simp [brSepL, List.isPrefixOf_cons_cons], ?_⟩
  refine noStart_of_ctx (fun Z k hk => ?_) (noStart_of_head_not_mem (c := ']') (p := [',', ' ', '[']) (by decide))
  cases hh : brSepL.isPrefixOf (List.drop k c ++ (['"'] ++ Z))
  · rfl
  · have := isPrefixOf_append_stop (d := '"') (by decide) hh
    rw [hocc k] at this; cases this

theorem parseInput_eq' {X X1 T : Str} (h1 : replace quoteSepL quoteSepT X = X1) (h2 : replace brSepL brSepT X1 = T)
    (hb : '\\' ∉ T) : parseInput X = T := by
  have hne : ∀ (c : Char) (t : Str), replace ['\\', c] t T = T :=
    fun c t => replace_of_not_mem (c := '\\') (by simp) hb
  unfold parseInput
  rw [h1, h2, hne, hne, hne, hne, hne]

theorem mem_sepTz_nil {c : Char} {j : Nat} (h : c ∈ sepTz [] j) : c = ']' ∨ c = ',' ∨ c = '[' ∨ c = ' ' := by
  cases j with
  | zero => simp [sepTz] at h; simp [h]
  | succ j =>
    simp only [sepTz, List.mem_append, List.mem_cons, rep, List.mem_replicate] at h
    rcases h with ⟨_, h⟩ | h | ⟨_, h⟩ <;> simp [h]


/-- a string content `array_string!` (repaired) carries unchanged: no `"`, no `\`, not exactly `", "`, and the four
characters `], [` do not occur in it (commas, brackets, blanks, the empty string are all fine) -/
structure StrOk (c : Str) : Prop where
  quote : '"' ∉ c
  back : '\\' ∉ c
  commaSp : c ≠ [',', ' ']
  noBr : ∀ k, brSepL.isPrefixOf (c.drop k) = false

theorem sepQ_fun (sep : Nat → Str) : (fun j => ['"'] ++ sep j ++ ['"']) = sepQ sep := by
  funext j; simp [sepQ]

theorem wrapQ_fun : wrapQ '"' = fun c => ['"'] ++ c ++ ['"'] := by
  funext c; simp [wrapQ]

/-- **`array!(String, <nested brackets>)`** (repaired `array_string!`): the written shape and the strings in reading
order, for every rank. -/
theorem arrayString_literal (s : List Nat) (cs : List Str) (hs : s ≠ []) (hpos : ∀ d ∈ s, 1 ≤ d)
    (hl : cs.length = s.prod) (hc : ∀ c ∈ cs, StrOk c) :
    arrayString (debugVec s (cs.map (wrapQ '"'))) = .ok (s, cs) := by
  have hl3 : (cs.map (wrapQ '"')).length = s.prod := by simpa using hl
  have hr : 1 ≤ s.length := by cases s with | nil => exact absurd rfl hs | cons _ _ => simp
  rw [debugVec_eq' hpos hl3]
  -- step 1: `", "` between strings loses its blank
  have hw : ∀ sep : Nat → Str, mid sep s (cs.map (wrapQ '"')) = '"' :: (mid (sepQ sep) s cs ++ ['"']) := by
    intro sep
    rw [wrapQ_fun, mid_wrap ['"'] ['"'] sep s cs hpos hl, sepQ_fun]; rfl
  have h1 : replace quoteSepL quoteSepT (rep '[' (s.length + 1) ++ mid sepL s (cs.map (wrapQ '"')) ++ rep ']' (s.length + 1))
      = rep '[' (s.length + 1) ++ mid sepL0 s (cs.map (wrapQ '"')) ++ rep ']' (s.length + 1) := by
    have hqo : NoStart quoteSepL (rep '[' (s.length + 1)) :=
      noStart_of_head_not_mem (c := '"') (p := [',', ' ', '"']) (not_mem_rep (c := '[') (by decide) _)
    rw [hw sepL, hw sepL0, List.append_assoc, replace_noStart _ hqo]
    obtain ⟨c, hcm, W', hW'⟩ := mid_headQ sepL s cs hpos hl (rep ']' (s.length + 1))
    have e0 : '"' :: (mid (sepQ sepL) s cs ++ ['"']) ++ rep ']' (s.length + 1)
        = '"' :: (mid (sepQ sepL) s cs ++ '"' :: rep ']' (s.length + 1)) := by simp [List.append_assoc]
    rw [e0, replace_cons_of_not_prefix (by rw [hW']; exact quote_not_prefix (hc c hcm).quote (hc c hcm).commaSp),
      replace_quote_mid s cs hpos hl (fun c hcm => ⟨(hc c hcm).quote, (hc c hcm).commaSp⟩),
      replace_of_not_mem (c := ',') (by decide) (by
        simp only [List.mem_cons, not_or]; exact ⟨by decide, not_mem_rep (by decide) _⟩)]
    simp [List.append_assoc]
  -- step 2: `"], ["` loses its blank
  have h2 : replace brSepL brSepT (rep '[' (s.length + 1) ++ mid sepL0 s (cs.map (wrapQ '"')) ++ rep ']' (s.length + 1))
      = rep '[' (s.length + 1) ++ mid (sepTz []) s (cs.map (wrapQ '"')) ++ rep ']' (s.length + 1) := by
    have hbo : NoStart brSepL (rep '[' (s.length + 1)) :=
      noStart_of_head_not_mem (c := ']') (p := [',', ' ', '[']) (not_mem_rep (c := '[') (by decide) _)
    rw [List.append_assoc, replace_noStart _ hbo,
      replace_br_mid0 s _ hpos hl3 (by
        intro e he
        obtain ⟨c, hcm, rfl⟩ := List.mem_map.1 he
        exact noStart_br_stringLeaf (hc c hcm).noBr),
      replace_of_not_mem (c := ',') (by decide) (not_mem_rep (by decide) _), List.append_assoc]
  -- step 3: no backslash, the escape rewrites do nothing
  have hb : '\\' ∉ rep '[' (s.length + 1) ++ mid (sepTz []) s (cs.map (wrapQ '"')) ++ rep ']' (s.length + 1) := by
    intro hm
    rcases mem_text (fun c j => mem_sepTz_nil) hm with (h | h | h | h) | ⟨e, he, hxe⟩
    · exact absurd h (by decide)
    · exact absurd h (by decide)
    · exact absurd h (by decide)
    · exact absurd h (by decide)
    · obtain ⟨c, hcm, rfl⟩ := List.mem_map.1 he
      simp only [wrapQ, List.mem_cons, List.mem_append] at hxe
      rcases hxe with h | h | h
      · exact absurd h (by decide)
      · exact (hc c hcm).back h
      · rcases h with h | h
        · exact absurd h (by decide)
        · cases h
  have hPI := parseInput_eq' h1 h2 hb
  have hnd : ndimOf 1 (rep '[' (s.length + 1) ++ mid (sepTz []) s (cs.map (wrapQ '"')) ++ rep ']' (s.length + 1))
      = .ok s.length := by
    obtain ⟨e, r, he, hmid⟩ := mid_head' (sepTz []) s _ hpos hl3
    have he' : ∃ c, e = wrapQ '"' c := by
      cases cs with
      | nil => simp at he
      | cons c _ => simp at he; exact ⟨c, he.symm⟩
    obtain ⟨c, rfl⟩ := he'
    unfold ndimOf
    rw [hmid, show wrapQ '"' c ++ r = '"' :: (c ++ '"' :: r) by simp [wrapQ], List.append_assoc,
      List.cons_append, findP_rep (c := '"') (by decide)]
    have : ¬ (s.length + 1 < 1) := by omega
    have h0 : s.length + 1 - 1 = s.length := by omega
    have h1 : ¬ (s.length = 0) := by omega
    simp [this, h0, h1]
  have hcut := cutQuoted_text '"' true (by decide) (by simp) (by decide) (by decide) (sepTz [])
    (fun j hm => by rcases mem_sepTz_nil hm with h | h | h | h <;> exact absurd h (by decide))
    s cs hpos hl (fun c hcm => (hc c hcm).quote) (s.length + 1) (s.length + 1)
  have hshape : parseShape s.length _ = .ok s :=
    parseShapeLoop_midZ [] (by simp) (valid_blank s cs hpos hl) (s.length + 1) (s.length + 1) (by omega)
  unfold arrayString arrayQuoted
  simp only [hPI, hnd, hcut, hshape]

end ArrModel.C18
