import ArrModel.C18
/-!
# Lemmas for C18 — the `std` string primitives of `ArrModel.C18` (`find`, `replace`, occurrence counting)

The working notion is `NoStart p A`: no occurrence of the pattern `p` begins inside the segment `A`, whatever text
follows.  It is context free and closed under concatenation, so texts that are built from segments
(brackets, separators, element texts) can be pushed through `replace`/`find`/`split(..).count()` segment by segment.
-/
namespace ArrModel.C18

theorem isPrefixOf_append_self (p s : Str) : p.isPrefixOf (p ++ s) = true := by
  induction p with
  | nil => simp
  | cons c p ih => simp [ih]

theorem isPrefixOf_length {p s : Str} (h : p.isPrefixOf s = true) : p.length ≤ s.length := by
  rw [List.isPrefixOf_iff_prefix] at h
  exact h.length_le

/-- no occurrence of `p` starts inside `A`, whatever follows `A` -/
def NoStart (p A : Str) : Prop := ∀ k, k < A.length → ∀ Z, p.isPrefixOf (A.drop k ++ Z) = false

theorem NoStart.nil (p : Str) : NoStart p [] := by intro k hk; simp at hk

theorem noStart_cons {p : Str} {c : Char} {A : Str} :
    NoStart p (c :: A) ↔ (∀ Z, p.isPrefixOf (c :: (A ++ Z)) = false) ∧ NoStart p A := by
  constructor
  · intro h
    refine ⟨fun Z => by simpa using h 0 (by simp) Z, fun k hk Z => ?_⟩
    have := h (k + 1) (by simp; omega) Z
    simpa using this
  · rintro ⟨h0, h⟩ k hk Z
    cases k with
    | zero => simpa using h0 Z
    | succ k => simpa using h k (by simp at hk; omega) Z

theorem NoStart.append {p A B : Str} (hA : NoStart p A) (hB : NoStart p B) : NoStart p (A ++ B) := by
  induction A with
  | nil => simpa using hB
  | cons c A ih =>
    rw [noStart_cons] at hA
    show NoStart p (c :: (A ++ B))
    rw [noStart_cons]
    refine ⟨fun Z => ?_, ih hA.2⟩
    have := hA.1 (B ++ Z)
    simpa [List.append_assoc] using this

theorem isPrefixOf_append_left {p q s : Str} (h : (p ++ q).isPrefixOf s = true) : p.isPrefixOf s = true := by
  rw [List.isPrefixOf_iff_prefix] at *
  exact List.IsPrefix.trans (List.prefix_append p q) h

theorem NoStart.mono {p A : Str} (q : Str) (h : NoStart p A) : NoStart (p ++ q) A := by
  intro k hk Z
  have := h k hk Z
  cases hh : (p ++ q).isPrefixOf (A.drop k ++ Z)
  · rfl
  · rw [isPrefixOf_append_left hh] at this; cases this

theorem noStart_of_head_not_mem {c : Char} {p A : Str} (h : c ∉ A) : NoStart (c :: p) A := by
  induction A with
  | nil => exact NoStart.nil _
  | cons d A ih =>
    rw [noStart_cons]
    simp at h
    refine ⟨fun Z => ?_, ih h.2⟩
    rw [List.isPrefixOf_cons_cons]
    have : (c == d) = false := by simpa using h.1
    simp [this]


/-! ### replace -/

theorem replaceAux_skip (p t : Str) (k : Nat) (s : Str) :
    replaceAux p t k s = replaceAux p t 0 (s.drop k) := by
  induction s generalizing k with
  | nil => cases k <;> simp [replaceAux]
  | cons c s ih =>
    cases k with
    | zero => simp
    | succ k => simp [replaceAux, ih k]

@[simp] theorem replace_nil (p t : Str) : replace p t [] = [] := by simp [replace, replaceAux]

theorem replace_cons_of_not_prefix {p t : Str} {c : Char} {s : Str} (h : p.isPrefixOf (c :: s) = false) :
    replace p t (c :: s) = c :: replace p t s := by
  simp [replace, replaceAux, h]

theorem replace_of_prefix {p t s : Str} (hp : p ≠ []) (h : p.isPrefixOf s = true) :
    replace p t s = t ++ replace p t (s.drop p.length) := by
  cases s with
  | nil =>
    cases p with
    | nil => exact absurd rfl hp
    | cons _ _ => simp at h
  | cons c s =>
    have hl : p.length - 1 + 1 = p.length := by
      cases p with
      | nil => exact absurd rfl hp
      | cons _ _ => simp
    simp only [replace, replaceAux, h, if_true]
    rw [replaceAux_skip]
    congr 2
    rw [← hl, List.drop_succ_cons]
    simp

theorem replace_append_pat {p t : Str} (s : Str) (hp : p ≠ []) :
    replace p t (p ++ s) = t ++ replace p t s := by
  rw [replace_of_prefix hp (isPrefixOf_append_self p s)]
  simp

theorem replace_noStart {p t A : Str} (B : Str) (h : NoStart p A) :
    replace p t (A ++ B) = A ++ replace p t B := by
  induction A with
  | nil => simp
  | cons c A ih =>
    rw [noStart_cons] at h
    show replace p t (c :: (A ++ B)) = _
    rw [replace_cons_of_not_prefix (h.1 B), ih h.2]
    rfl

theorem replace_eq_self {p t A : Str} (h : NoStart p A) : replace p t A = A := by
  have := replace_noStart (t := t) [] h
  simpa using this

/-! ### occurrences -/

theorem occAux_skip (p : Str) (k : Nat) (s : Str) : occAux p k s = occAux p 0 (s.drop k) := by
  induction s generalizing k with
  | nil => cases k <;> simp [occAux]
  | cons c s ih =>
    cases k with
    | zero => simp
    | succ k => simp [occAux, ih k]

def occ (p s : Str) : Nat := occAux p 0 s

theorem splitCount_eq (p s : Str) : splitCount p s = occ p s + 1 := rfl

@[simp] theorem occ_nil (p : Str) : occ p [] = 0 := by simp [occ, occAux]

theorem occ_cons_of_not_prefix {p : Str} {c : Char} {s : Str} (h : p.isPrefixOf (c :: s) = false) :
    occ p (c :: s) = occ p s := by
  simp [occ, occAux, h]

theorem occ_of_prefix {p s : Str} (hp : p ≠ []) (h : p.isPrefixOf s = true) :
    occ p s = occ p (s.drop p.length) + 1 := by
  cases s with
  | nil =>
    cases p with
    | nil => exact absurd rfl hp
    | cons _ _ => simp at h
  | cons c s =>
    have hl : p.length - 1 + 1 = p.length := by
      cases p with
      | nil => exact absurd rfl hp
      | cons _ _ => simp
    simp only [occ, occAux, h, if_true]
    rw [occAux_skip]
    congr 2
    rw [← hl, List.drop_succ_cons]
    simp

theorem occ_append_pat {p : Str} (s : Str) (hp : p ≠ []) : occ p (p ++ s) = occ p s + 1 := by
  rw [occ_of_prefix hp (isPrefixOf_append_self p s)]
  simp

theorem occ_noStart {p A : Str} (B : Str) (h : NoStart p A) : occ p (A ++ B) = occ p B := by
  induction A with
  | nil => simp
  | cons c A ih =>
    rw [noStart_cons] at h
    show occ p (c :: (A ++ B)) = _
    rw [occ_cons_of_not_prefix (h.1 B), ih h.2]

/-! ### find -/

theorem find_of_prefix {p s : Str} (h : p.isPrefixOf s = true) : find p s = some 0 := by
  cases s <;> simp [find, h]

theorem find_cons_of_not_prefix {p : Str} {c : Char} {s : Str} (h : p.isPrefixOf (c :: s) = false) :
    find p (c :: s) = (find p s).map (· + 1) := by
  simp [find, h]

theorem find_noStart {p A : Str} (B : Str) (h : NoStart p A) :
    find p (A ++ B) = (find p B).map (· + A.length) := by
  induction A with
  | nil => simp
  | cons c A ih =>
    rw [noStart_cons] at h
    show find p (c :: (A ++ B)) = _
    rw [find_cons_of_not_prefix (h.1 B), ih h.2]
    cases find p B <;> simp [Nat.add_assoc]

theorem find_noStart_pat {p A : Str} (B : Str) (h : NoStart p A) :
    find p (A ++ (p ++ B)) = some A.length := by
  rw [find_noStart _ h, find_of_prefix (isPrefixOf_append_self p B)]
  simp

/-! ### the same with a known continuation -/

/-- no occurrence of `p` starts inside `A` when `A` is followed by `B` -/
def NoStartCtx (p A B : Str) : Prop := ∀ k, k < A.length → p.isPrefixOf (A.drop k ++ B) = false

theorem noStartCtx_cons {p : Str} {c : Char} {A B : Str} :
    NoStartCtx p (c :: A) B ↔ p.isPrefixOf (c :: (A ++ B)) = false ∧ NoStartCtx p A B := by
  constructor
  · intro h
    refine ⟨by simpa using h 0 (by simp), fun k hk => ?_⟩
    simpa using h (k + 1) (by simp; omega)
  · rintro ⟨h0, h⟩ k hk
    cases k with
    | zero => simpa using h0
    | succ k => simpa using h k (by simp at hk; omega)

theorem NoStart.ctx {p A : Str} (h : NoStart p A) (B : Str) : NoStartCtx p A B := fun k hk => h k hk B

theorem noStart_of_ctx {p A B : Str} (hA : ∀ Z, NoStartCtx p A (B ++ Z)) (hB : NoStart p B) : NoStart p (A ++ B) := by
  intro k hk Z
  by_cases hka : k < A.length
  · have := hA Z k hka
    rw [List.drop_append_of_le_length (by omega)]
    simpa [List.append_assoc] using this
  · have hk' : k - A.length < B.length := by simp at hk; omega
    have := hB (k - A.length) hk' Z
    rw [List.drop_append, List.drop_of_length_le (by omega)]
    simpa using this

theorem replace_ctx {p t A : Str} (B : Str) (h : NoStartCtx p A B) :
    replace p t (A ++ B) = A ++ replace p t B := by
  induction A with
  | nil => simp
  | cons c A ih =>
    rw [noStartCtx_cons] at h
    show replace p t (c :: (A ++ B)) = _
    rw [replace_cons_of_not_prefix h.1, ih h.2]
    rfl

theorem occ_ctx {p A : Str} (B : Str) (h : NoStartCtx p A B) : occ p (A ++ B) = occ p B := by
  induction A with
  | nil => simp
  | cons c A ih =>
    rw [noStartCtx_cons] at h
    show occ p (c :: (A ++ B)) = _
    rw [occ_cons_of_not_prefix h.1, ih h.2]

theorem find_ctx {p A : Str} (B : Str) (h : NoStartCtx p A B) :
    find p (A ++ B) = (find p B).map (· + A.length) := by
  induction A with
  | nil => simp
  | cons c A ih =>
    rw [noStartCtx_cons] at h
    show find p (c :: (A ++ B)) = _
    rw [find_cons_of_not_prefix h.1, ih h.2]
    cases find p B <;> simp [Nat.add_assoc]

/-! ### runs of one character -/

theorem rep_snoc (c : Char) (n : Nat) : rep c n ++ [c] = c :: rep c n := by
  show List.replicate n c ++ [c] = c :: List.replicate n c
  rw [← List.replicate_succ', List.replicate_succ]

/-- a run of `i` copies of `c` is not a prefix of a shorter run followed by another character -/
theorem rep_isPrefixOf_short {c d : Char} (hd : d ≠ c) (m i : Nat) (hmi : m < i) (W : Str) :
    (rep c i).isPrefixOf (rep c m ++ d :: W) = false := by
  induction m generalizing i with
  | zero =>
    obtain ⟨i, rfl⟩ : ∃ j, i = j + 1 := ⟨i - 1, by omega⟩
    have : (c == d) = false := by simpa using fun h => hd h.symm
    simp only [rep, List.replicate_succ, List.replicate_zero, List.nil_append, List.isPrefixOf_cons_cons, this, Bool.false_and]
  | succ m ih =>
    obtain ⟨i, rfl⟩ : ∃ j, i = j + 1 := ⟨i - 1, by omega⟩
    have := ih i (by omega)
    simp only [rep] at this ⊢
    simp [List.replicate_succ, this]

theorem noStartCtx_rep {c d : Char} (hd : d ≠ c) (m i : Nat) (hmi : m < i) (q W : Str) :
    NoStartCtx (rep c i ++ q) (rep c m) (d :: W) := by
  intro k hk
  have hk' : k < m := by simpa using hk
  cases hh : (rep c i ++ q).isPrefixOf (List.drop k (rep c m) ++ d :: W)
  · rfl
  · have h1 := isPrefixOf_append_left hh
    rw [show List.drop k (rep c m) = rep c (m - k) by simp [rep]] at h1
    rw [rep_isPrefixOf_short hd (m - k) i (by omega) W] at h1
    cases h1

theorem not_mem_rep {c d : Char} (h : d ≠ c) (n : Nat) : d ∉ rep c n := by
  simp [rep, List.mem_replicate]; intro _; exact h

end ArrModel.C18
