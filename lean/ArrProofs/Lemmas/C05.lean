import ArrModel.C05
/-!
# Lemmas for C05 — element pipelines in `StateM` and in `Id`

Specification vocabulary (`imapFrom`, `enumFrom`, `select`, `stateAfter`, `logged`) and the facts the property theorems
are assembled from.  Core Lean only.
-/
namespace ArrModel.Iter

variable {α β γ σ : Type}

/-! ## specification vocabulary -/

/-- `[f i x₀, f (i+1) x₁, …]` -/
def imapFrom (f : Nat → α → β) : Nat → List α → List β
  | _, [] => []
  | i, x :: xs => f i x :: imapFrom f (i + 1) xs

/-- `[(i, x₀), (i+1, x₁), …]` -/
def enumFrom (i : Nat) (xs : List α) : List (Nat × α) := imapFrom (fun j x => (j, x)) i xs

/-- keep the elements whose flag is `true` -/
def select : List α → List Bool → List α
  | x :: xs, b :: bs => if b then x :: select xs bs else select xs bs
  | _, _ => []

/-- keep the `some` answers -/
def somes : List (Option β) → List β
  | [] => []
  | some y :: ys => y :: somes ys
  | none :: ys => somes ys

/-- state of a stateful closure after it has been called on `xs` (positions `i, i+1, …`) in that order -/
def stateAfter (f : Nat → α → StateM σ β) : Nat → σ → List α → σ
  | _, s, [] => s
  | i, s, x :: xs => stateAfter f (i + 1) ((f i x).run s).2 xs

/-- wrap an arbitrary stateful closure with a recorder of the `(position, element)` pairs it is called with -/
def logged (f : Nat → α → StateM σ β) : Nat → α → StateM (σ × List (Nat × α)) β :=
  fun i x s => (((f i x).run s.1).1, (((f i x).run s.1).2, s.2 ++ [(i, x)]))

/-- the same for a closure that is not handed a position: records the elements it is called with -/
def loggedPlain (f : α → StateM σ β) : α → StateM (σ × List α) β :=
  fun x s => (((f x).run s.1).1, (((f x).run s.1).2, s.2 ++ [x]))

/-- wrap an arbitrary stateful folding closure with a recorder of the elements it is called with -/
def loggedAcc (f : γ → α → StateM σ γ) : γ → α → StateM (σ × List α) γ :=
  fun acc x s => (((f acc x).run s.1).1, (((f acc x).run s.1).2, s.2 ++ [x]))

/-! ## `imapFrom` / `enumFrom` -/

@[simp] theorem length_imapFrom (f : Nat → α → β) (i : Nat) (xs : List α) : (imapFrom f i xs).length = xs.length := by
  induction xs generalizing i with
  | nil => rfl
  | cons x xs ih => simp [imapFrom, ih]

theorem getElem_imapFrom (f : Nat → α → β) (i : Nat) (xs : List α) (p : Nat) (h : p < xs.length) :
    (imapFrom f i xs)[p]'(by simpa using h) = f (i + p) xs[p] := by
  induction xs generalizing i p with
  | nil => simp at h
  | cons x xs ih =>
    cases p with
    | zero => simp [imapFrom]
    | succ p =>
      simp only [imapFrom, List.getElem_cons_succ]
      rw [ih (i + 1) p (by simpa using h)]
      congr 1; omega

theorem imapFrom_const (f : α → β) (i : Nat) (xs : List α) : imapFrom (fun _ x => f x) i xs = xs.map f := by
  induction xs generalizing i with
  | nil => rfl
  | cons x xs ih => simp [imapFrom, ih]

theorem imapFrom_eq_mapIdx (f : Nat → α → β) (xs : List α) : imapFrom f 0 xs = xs.mapIdx f := by
  apply List.ext_getElem
  · simp
  · intro p h1 h2
    rw [getElem_imapFrom f 0 xs p (by simpa using h1)]
    simp

theorem imapFrom_append (f : Nat → α → β) (i : Nat) (xs ys : List α) :
    imapFrom f i (xs ++ ys) = imapFrom f i xs ++ imapFrom f (i + xs.length) ys := by
  induction xs generalizing i with
  | nil => simp [imapFrom]
  | cons x xs ih => simp [imapFrom, ih, Nat.add_assoc, Nat.add_comm 1]

@[simp] theorem length_enumFrom (i : Nat) (xs : List α) : (enumFrom i xs).length = xs.length := by
  simp [enumFrom]

theorem getElem_enumFrom (i : Nat) (xs : List α) (p : Nat) (h : p < xs.length) :
    (enumFrom i xs)[p]'(by simpa using h) = (i + p, xs[p]) := getElem_imapFrom _ i xs p h

theorem enumFrom_map_snd (i : Nat) (xs : List α) : (enumFrom i xs).map (·.2) = xs := by
  induction xs generalizing i with
  | nil => rfl
  | cons x xs ih => simp only [enumFrom, imapFrom, List.map_cons]; rw [← enumFrom, ih]

theorem enumFrom_map_fst (i : Nat) (xs : List α) : (enumFrom i xs).map (·.1) = List.range' i xs.length := by
  induction xs generalizing i with
  | nil => rfl
  | cons x xs ih =>
    simp only [enumFrom, imapFrom, List.map_cons, List.length_cons, List.range'_succ]
    rw [← enumFrom, ih]

/-- the positions are `0 … n-1`, each exactly once, in increasing order, paired with the element stored there -/
theorem enumFrom_zero_eq_zip (xs : List α) : enumFrom 0 xs = (List.range xs.length).zip xs := by
  apply List.ext_getElem
  · simp
  · intro p h1 h2
    rw [getElem_enumFrom 0 xs p (by simpa using h1)]
    simp

/-! ## `select` / `somes` -/

theorem select_pure (p : α → Bool) (xs : List α) : select xs (xs.map p) = xs.filter p := by
  induction xs with
  | nil => rfl
  | cons x xs ih => cases h : p x <;> simp [select, List.filter, h, ih]

theorem select_sublist (xs : List α) (bs : List Bool) : (select xs bs).Sublist xs := by
  induction xs generalizing bs with
  | nil => cases bs <;> simp [select]
  | cons x xs ih =>
    cases bs with
    | nil => simp [select]
    | cons b bs =>
      cases b
      · simpa [select] using (ih bs).cons x
      · simpa [select] using (ih bs).cons_cons x

theorem select_imapFrom (p : Nat → α → Bool) (i : Nat) (xs : List α) :
    select xs (imapFrom p i xs) = ((enumFrom i xs).filter (fun e => p e.1 e.2)).map (·.2) := by
  induction xs generalizing i with
  | nil => rfl
  | cons x xs ih =>
    simp only [imapFrom, select, enumFrom, List.filter]
    rw [← enumFrom]
    cases h : p i x <;> simp [ih]

theorem somes_pure (f : α → Option β) (xs : List α) : somes (xs.map f) = xs.filterMap f := by
  induction xs with
  | nil => rfl
  | cons x xs ih => cases h : f x <;> simp [somes, h, ih]

theorem somes_imapFrom (f : Nat → α → Option β) (i : Nat) (xs : List α) :
    somes (imapFrom f i xs) = (enumFrom i xs).filterMap (fun e => f e.1 e.2) := by
  induction xs generalizing i with
  | nil => rfl
  | cons x xs ih =>
    simp only [imapFrom, enumFrom, List.filterMap_cons]
    rw [← enumFrom]
    cases h : f i x <;> simp [somes, ih]

/-! ## pipelines in `StateM`: unfolding -/

theorem traverseIdx_cons_run (f : Nat → α → StateM σ β) (i : Nat) (x : α) (xs : List α) (s : σ) :
    (traverseIdx f i (x :: xs)).run s =
      (((f i x).run s).1 :: ((traverseIdx f (i + 1) xs).run ((f i x).run s).2).1,
       ((traverseIdx f (i + 1) xs).run ((f i x).run s).2).2) := rfl

theorem filterIdxM_cons_run (f : Nat → α → StateM σ Bool) (i : Nat) (x : α) (xs : List α) (s : σ) :
    (filterIdxM f i (x :: xs)).run s =
      ((if ((f i x).run s).1 then x :: ((filterIdxM f (i + 1) xs).run ((f i x).run s).2).1
        else ((filterIdxM f (i + 1) xs).run ((f i x).run s).2).1),
       ((filterIdxM f (i + 1) xs).run ((f i x).run s).2).2) := rfl

theorem filterMapIdxM_cons_run (f : Nat → α → StateM σ (Option β)) (i : Nat) (x : α) (xs : List α) (s : σ) :
    (filterMapIdxM f i (x :: xs)).run s =
      ((match ((f i x).run s).1 with
        | some y => y :: ((filterMapIdxM f (i + 1) xs).run ((f i x).run s).2).1
        | none => ((filterMapIdxM f (i + 1) xs).run ((f i x).run s).2).1),
       ((filterMapIdxM f (i + 1) xs).run ((f i x).run s).2).2) := rfl

theorem foldIdxM_cons_run (f : Nat → γ → α → StateM σ γ) (i : Nat) (acc : γ) (x : α) (xs : List α) (s : σ) :
    (foldIdxM f i acc (x :: xs)).run s =
      (foldIdxM f (i + 1) ((f i acc x).run s).1 xs).run ((f i acc x).run s).2 := rfl

theorem forEachIdxM_cons_run (f : Nat → α → StateM σ Unit) (i : Nat) (x : α) (xs : List α) (s : σ) :
    (forEachIdxM f i (x :: xs)).run s = (forEachIdxM f (i + 1) xs).run ((f i x).run s).2 := rfl

/-! ## `traverseIdx` with an arbitrary stateful closure -/

theorem traverseIdx_state (f : Nat → α → StateM σ β) (i : Nat) (xs : List α) (s : σ) :
    ((traverseIdx f i xs).run s).2 = stateAfter f i s xs := by
  induction xs generalizing i s with
  | nil => rfl
  | cons x xs ih => rw [traverseIdx_cons_run]; simp only [stateAfter]; exact ih _ _

theorem traverseIdx_length (f : Nat → α → StateM σ β) (i : Nat) (xs : List α) (s : σ) :
    ((traverseIdx f i xs).run s).1.length = xs.length := by
  induction xs generalizing i s with
  | nil => rfl
  | cons x xs ih => rw [traverseIdx_cons_run]; simp [ih]

/-- position `p` of the result is the closure's answer on element `p`, evaluated in the state left by the calls on
elements `0 … p-1` in that order -/
theorem traverseIdx_getElem (f : Nat → α → StateM σ β) (i : Nat) (xs : List α) (s : σ) (p : Nat) (h : p < xs.length) :
    ((traverseIdx f i xs).run s).1[p]'(by rw [traverseIdx_length]; exact h) =
      ((f (i + p) xs[p]).run (stateAfter f i s (xs.take p))).1 := by
  induction xs generalizing i s p with
  | nil => simp at h
  | cons x xs ih =>
    cases p with
    | zero => simp [traverseIdx_cons_run, stateAfter]
    | succ p =>
      simp only [traverseIdx_cons_run, List.getElem_cons_succ, List.take_succ_cons, stateAfter]
      rw [ih (i + 1) _ p (by simpa using h)]
      congr 3; omega

/-- recording is transparent and the record is exactly the elements with their positions, in order, each once -/
theorem traverseIdx_logged (f : Nat → α → StateM σ β) (i : Nat) (xs : List α) (s : σ) (l : List (Nat × α)) :
    (traverseIdx (logged f) i xs).run (s, l) =
      (((traverseIdx f i xs).run s).1, (((traverseIdx f i xs).run s).2, l ++ enumFrom i xs)) := by
  induction xs generalizing i s l with
  | nil => simp [enumFrom, imapFrom]; rfl
  | cons x xs ih =>
    rw [traverseIdx_cons_run, traverseIdx_cons_run]
    have hl : (logged f i x).run (s, l) = (((f i x).run s).1, (((f i x).run s).2, l ++ [(i, x)])) := rfl
    rw [hl]; simp only
    rw [ih]
    simp [enumFrom, imapFrom]

theorem traverseIdx_loggedPlain (f : α → StateM σ β) (i : Nat) (xs : List α) (s : σ) (l : List α) :
    (traverseIdx (fun _ => loggedPlain f) i xs).run (s, l) =
      (((traverseIdx (fun _ => f) i xs).run s).1, (((traverseIdx (fun _ => f) i xs).run s).2, l ++ xs)) := by
  induction xs generalizing i s l with
  | nil => simp; rfl
  | cons x xs ih =>
    rw [traverseIdx_cons_run, traverseIdx_cons_run]
    have hl : (loggedPlain f x).run (s, l) = (((f x).run s).1, (((f x).run s).2, l ++ [x])) := rfl
    rw [hl]; simp only
    rw [ih]
    simp

/-- the other element pipelines make the same calls in the same order: they are `traverseIdx` followed by a selection -/
theorem filterIdxM_eq_traverse (f : Nat → α → StateM σ Bool) (i : Nat) (xs : List α) (s : σ) :
    (filterIdxM f i xs).run s = (select xs ((traverseIdx f i xs).run s).1, ((traverseIdx f i xs).run s).2) := by
  induction xs generalizing i s with
  | nil => rfl
  | cons x xs ih =>
    rw [filterIdxM_cons_run, traverseIdx_cons_run, ih]
    cases h : ((f i x).run s).1 <;> simp [select]

theorem filterMapIdxM_eq_traverse (f : Nat → α → StateM σ (Option β)) (i : Nat) (xs : List α) (s : σ) :
    (filterMapIdxM f i xs).run s = (somes ((traverseIdx f i xs).run s).1, ((traverseIdx f i xs).run s).2) := by
  induction xs generalizing i s with
  | nil => rfl
  | cons x xs ih =>
    rw [filterMapIdxM_cons_run, traverseIdx_cons_run, ih]
    cases h : ((f i x).run s).1 <;> simp [somes]

theorem forEachIdxM_eq_traverse (f : Nat → α → StateM σ Unit) (i : Nat) (xs : List α) (s : σ) :
    (forEachIdxM f i xs).run s = ((), ((traverseIdx f i xs).run s).2) := by
  induction xs generalizing i s with
  | nil => rfl
  | cons x xs ih => rw [forEachIdxM_cons_run, traverseIdx_cons_run, ih]

theorem foldIdxM_loggedAcc (f : γ → α → StateM σ γ) (i : Nat) (acc : γ) (xs : List α) (s : σ) (l : List α) :
    (foldIdxM (fun _ => loggedAcc f) i acc xs).run (s, l) =
      (((foldIdxM (fun _ => f) i acc xs).run s).1, (((foldIdxM (fun _ => f) i acc xs).run s).2, l ++ xs)) := by
  induction xs generalizing i acc s l with
  | nil => simp; rfl
  | cons x xs ih =>
    rw [foldIdxM_cons_run, foldIdxM_cons_run]
    have hl : (loggedAcc f acc x).run (s, l) = (((f acc x).run s).1, (((f acc x).run s).2, l ++ [x])) := rfl
    rw [hl]; simp only
    rw [ih]
    simp

/-- a stateful fold is `List.foldl` on (accumulator, closure state) pairs: strictly left to right -/
theorem foldIdxM_eq_foldl (f : γ → α → StateM σ γ) (i : Nat) (acc : γ) (xs : List α) (s : σ) :
    (foldIdxM (fun _ => f) i acc xs).run s = xs.foldl (fun (p : γ × σ) x => (f p.1 x).run p.2) (acc, s) := by
  induction xs generalizing i acc s with
  | nil => rfl
  | cons x xs ih => rw [foldIdxM_cons_run, ih]; rfl

/-! ## pure readings -/

theorem traverseIdx_pure (f : Nat → α → β) (i : Nat) (xs : List α) :
    Id.run (traverseIdx (m := Id) (fun j x => pure (f j x)) i xs) = imapFrom f i xs := by
  induction xs generalizing i with
  | nil => rfl
  | cons x xs ih =>
    have := ih (i + 1)
    simp only [traverseIdx, imapFrom]
    simpa using this

theorem filterIdxM_pure (p : Nat → α → Bool) (i : Nat) (xs : List α) :
    Id.run (filterIdxM (m := Id) (fun j x => pure (p j x)) i xs) = select xs (imapFrom p i xs) := by
  induction xs generalizing i with
  | nil => rfl
  | cons x xs ih =>
    have := ih (i + 1)
    simp only [filterIdxM, imapFrom, select]
    cases h : p i x <;> simpa [h] using this

theorem filterMapIdxM_pure (f : Nat → α → Option β) (i : Nat) (xs : List α) :
    Id.run (filterMapIdxM (m := Id) (fun j x => pure (f j x)) i xs) = somes (imapFrom f i xs) := by
  induction xs generalizing i with
  | nil => rfl
  | cons x xs ih =>
    have := ih (i + 1)
    simp only [filterMapIdxM, imapFrom]
    cases h : f i x <;> simpa [h, somes] using this

theorem foldIdxM_pure (f : γ → α → γ) (i : Nat) (acc : γ) (xs : List α) :
    Id.run (foldIdxM (m := Id) (fun _ a x => pure (f a x)) i acc xs) = xs.foldl f acc := by
  induction xs generalizing i acc with
  | nil => rfl
  | cons x xs ih =>
    have := ih (i + 1) (f acc x)
    simp only [foldIdxM, List.foldl_cons]
    simpa using this

/-! ## the funnels -/

theorem collect_ok (ys : List β) : collect ys = .ok ⟨ys, [ys.length]⟩ := by
  simp [collect, flat, Arr.new]

theorem collect_reshape (ys : List β) (shape : List Nat) (h : shape.prod = ys.length) :
    (collect ys >>= fun c => reshape c shape) = .ok ⟨ys, shape⟩ := by
  simp [collect_ok, reshape, Arr.new, h]

theorem collect_reshape_err (ys : List β) (shape : List Nat) (h : shape.prod ≠ ys.length) :
    (collect ys >>= fun c => reshape c shape) = .err .ShapeMustMatchValuesLength := by
  simp [collect_ok, reshape, h]

theorem collect_ravel (ys : List β) : (collect ys >>= ravel) = .ok ⟨ys, [ys.length]⟩ := by
  simp [collect_ok, ravel, flat, Arr.new]

/-! ## the counter-stamping closures of the tie -/

theorem traverse_stampE (g : Nat → Option Nat → α → β) (i : Nat) (xs : List α) (l : List (Entry α)) :
    (traverseIdx (fun j => stamp g (some j)) i xs).run (i, l) =
      (imapFrom (fun j x => g j (some j) x) i xs,
       (i + xs.length, l ++ imapFrom (fun j x => ((j, some j, x) : Entry α)) i xs)) := by
  induction xs generalizing i l with
  | nil => simp [imapFrom]; rfl
  | cons x xs ih =>
    rw [traverseIdx_cons_run]
    have hs : (stamp g (some i) x).run (i, l) = (g i (some i) x, (i + 1, l ++ [(i, some i, x)])) := rfl
    rw [hs]; simp only
    rw [ih]
    simp [imapFrom, Nat.add_assoc, Nat.add_comm 1]

theorem traverse_stamp (g : Nat → Option Nat → α → β) (i : Nat) (xs : List α) (l : List (Entry α)) :
    (traverseIdx (fun _ => stamp g none) i xs).run (i, l) =
      (imapFrom (fun j x => g j none x) i xs,
       (i + xs.length, l ++ imapFrom (fun j x => ((j, none, x) : Entry α)) i xs)) := by
  induction xs generalizing i l with
  | nil => simp [imapFrom]; rfl
  | cons x xs ih =>
    rw [traverseIdx_cons_run]
    have hs : (stamp g none x).run (i, l) = (g i none x, (i + 1, l ++ [(i, none, x)])) := rfl
    rw [hs]; simp only
    rw [ih]
    simp [imapFrom, Nat.add_assoc, Nat.add_comm 1]

theorem fold_stamp (g : Nat → γ → α → γ) (i : Nat) (acc : γ) (xs : List α) (l : List (Entry α)) :
    (foldIdxM (fun _ => stampFold g) i acc xs).run (i, l) =
      ((enumFrom i xs).foldl (fun a e => g e.1 a e.2) acc,
       (i + xs.length, l ++ imapFrom (fun j x => ((j, none, x) : Entry α)) i xs)) := by
  induction xs generalizing i acc l with
  | nil => simp [imapFrom, enumFrom]; rfl
  | cons x xs ih =>
    rw [foldIdxM_cons_run]
    have hs : (stampFold g acc x).run (i, l) = (g i acc x, (i + 1, l ++ [(i, none, x)])) := rfl
    rw [hs]; simp only
    rw [ih]
    simp [imapFrom, enumFrom, Nat.add_assoc, Nat.add_comm 1]

/-! ## running the array-level operations in `StateM` / `Id` -/

theorem mapEM_run (a : Arr α) (f : Nat → α → StateM σ β) (s : σ) :
    (mapEM a f).run s =
      ((collect ((traverseIdx f 0 a.elems).run s).1 >>= fun c => reshape c a.shape), ((traverseIdx f 0 a.elems).run s).2) := rfl

theorem filterEM_run (a : Arr α) (f : Nat → α → StateM σ Bool) (s : σ) :
    (filterEM a f).run s =
      ((collect ((filterIdxM f 0 a.elems).run s).1 >>= Iter.ravel), ((filterIdxM f 0 a.elems).run s).2) := rfl

theorem filterMapEM_run (a : Arr α) (f : Nat → α → StateM σ (Option β)) (s : σ) :
    (filterMapEM a f).run s =
      ((collect ((filterMapIdxM f 0 a.elems).run s).1 >>= Iter.ravel), ((filterMapIdxM f 0 a.elems).run s).2) := rfl

theorem forEachEM_run (a : Arr α) (f : Nat → α → StateM σ Unit) (s : σ) :
    (forEachEM a f).run s = (.ok (), ((forEachIdxM f 0 a.elems).run s).2) := rfl

theorem foldM_run (a : Arr α) (init : γ) (f : γ → α → StateM σ γ) (s : σ) :
    (foldM a init f).run s =
      (.ok ((foldIdxM (fun _ acc x => f acc x) 0 init a.elems).run s).1,
       ((foldIdxM (fun _ acc x => f acc x) 0 init a.elems).run s).2) := rfl


theorem mapE_unfold (a : Arr α) (f : Nat → α → β) :
    mapE a f = (collect (imapFrom f 0 a.elems) >>= fun c => reshape c a.shape) := by
  have := traverseIdx_pure f 0 a.elems
  show (collect (Id.run (traverseIdx (m := Id) (fun j x => pure (f j x)) 0 a.elems)) >>= fun c => reshape c a.shape) = _
  rw [this]

theorem map_unfold (a : Arr α) (f : α → β) :
    map a f = (collect (a.elems.map f) >>= fun c => reshape c a.shape) := by
  have := mapE_unfold a (fun _ x => f x)
  rw [imapFrom_const] at this
  exact this

theorem filterE_unfold (a : Arr α) (p : Nat → α → Bool) :
    filterE a p = (collect (select a.elems (imapFrom p 0 a.elems)) >>= Iter.ravel) := by
  have := filterIdxM_pure p 0 a.elems
  show (collect (Id.run (filterIdxM (m := Id) (fun j x => pure (p j x)) 0 a.elems)) >>= Iter.ravel) = _
  rw [this]

theorem filterMapE_unfold (a : Arr α) (f : Nat → α → Option β) :
    filterMapE a f = (collect (somes (imapFrom f 0 a.elems)) >>= Iter.ravel) := by
  have := filterMapIdxM_pure f 0 a.elems
  show (collect (Id.run (filterMapIdxM (m := Id) (fun j x => pure (f j x)) 0 a.elems)) >>= Iter.ravel) = _
  rw [this]

theorem fold_unfold (a : Arr α) (init : γ) (f : γ → α → γ) : fold a init f = .ok (a.elems.foldl f init) := by
  have := foldIdxM_pure f 0 init a.elems
  show Res.ok (Id.run (foldIdxM (m := Id) (fun _ acc x => pure (f acc x)) 0 init a.elems)) = _
  rw [this]


/-- the plain variants are, by definition, the enumerating variants with a closure that ignores the position -/
theorem plain_eq_enumerating {m : Type → Type} [Monad m] (a : Arr α) :
    (∀ f : α → m β, mapM a f = mapEM a (fun _ => f)) ∧
    (∀ f : α → m Bool, filterM a f = filterEM a (fun _ => f)) ∧
    (∀ f : α → m (Option β), filterMapM a f = filterMapEM a (fun _ => f)) ∧
    (∀ f : α → m Unit, forEachM a f = forEachEM a (fun _ => f)) :=
  ⟨fun _ => rfl, fun _ => rfl, fun _ => rfl, fun _ => rfl⟩

end ArrModel.Iter
