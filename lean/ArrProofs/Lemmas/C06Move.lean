import Mathlib.Data.List.Nodup
import Mathlib.Data.List.InsertIdx
import ArrProofs.Lemmas.AxisInv
/-! the axis order built by `moveaxis` (sorted insertion) is a permutation that puts `s[k]` at position `d[k]`
and leaves the other axes in ascending order (C06 extension) -/
namespace ArrModel
variable {α : Type}

/-- the `for_each(|(d, s)| order.insert(d.min(order.len()), s))` loop -/
def insAll (o : List Nat) (L : List (Nat × Nat)) : List Nat :=
  L.foldl (fun o p => o.insertIdx (min p.1 o.length) p.2) o

theorem moveaxisOrder_eq (nd : Nat) (s d : List Nat) :
    Arr.moveaxisOrder nd s d = insAll ((List.range nd).filter (fun f => !s.contains f)) ((d.zip s).mergeSort pairLe) := rfl

theorem insAll_cons (o : List Nat) (p : Nat × Nat) (L : List (Nat × Nat)) :
    insAll o (p :: L) = insAll (o.insertIdx (min p.1 o.length) p.2) L := rfl

theorem insAll_length (L : List (Nat × Nat)) : ∀ o, (insAll o L).length = o.length + L.length := by
  induction L with
  | nil => intro o; rfl
  | cons p L ih =>
    intro o
    rw [insAll_cons, ih, List.length_insertIdx_of_le_length (Nat.min_le_right _ _)]
    simp only [List.length_cons]; omega

/-- every pair's axis is inserted exactly once, whatever the positions -/
theorem insAll_perm (L : List (Nat × Nat)) : ∀ o, (insAll o L).Perm (L.map (·.2) ++ o) := by
  induction L with
  | nil => intro o; exact List.Perm.refl _
  | cons p L ih =>
    intro o
    rw [insAll_cons]
    refine (ih _).trans ?_
    have h := List.perm_insertIdx p.2 o (i := min p.1 o.length) (Nat.min_le_right _ _)
    simp only [List.map_cons, List.cons_append]
    exact (List.Perm.append_left _ h).trans List.perm_middle

/-- later insertions at larger positions do not move what sits below them -/
theorem insAll_getElem?_lt (L : List (Nat × Nat)) : ∀ (o : List Nat) (k : Nat), (∀ q ∈ L, k < q.1) → k < o.length →
    (insAll o L)[k]? = o[k]? := by
  induction L with
  | nil => intro o k _ _; rfl
  | cons p L ih =>
    intro o k hq hk
    rw [insAll_cons, ih _ k (fun q hq' => hq q (List.mem_cons_of_mem _ hq'))
      (by rw [List.length_insertIdx_of_le_length (Nat.min_le_right _ _)]; omega)]
    have := hq p List.mem_cons_self
    exact List.getElem?_insertIdx_of_lt (by omega)

/-- pairs inserted in strictly ascending destination order, none clamped: each axis sits at its destination -/
theorem insAll_at (L : List (Nat × Nat)) : ∀ (o : List Nat), L.Pairwise (fun p q => p.1 < q.1) →
    (∀ j (h : j < L.length), L[j].1 ≤ o.length + j) → ∀ p ∈ L, (insAll o L)[p.1]? = some p.2 := by
  induction L with
  | nil => intro o _ _ p hp; cases hp
  | cons q L ih =>
    intro o hs hb p hp
    have hq0 : q.1 ≤ o.length := by
      have := hb 0 (by simp)
      simp only [List.getElem_cons_zero] at this; omega
    have hmin : min q.1 o.length = q.1 := by omega
    have hl : (o.insertIdx q.1 q.2).length = o.length + 1 := List.length_insertIdx_of_le_length hq0 _
    rw [insAll_cons, hmin]
    rw [List.pairwise_cons] at hs
    rcases List.mem_cons.1 hp with rfl | hp'
    · rw [insAll_getElem?_lt L _ p.1 (fun r hr => hs.1 r hr) (by omega), List.getElem?_insertIdx_self, if_pos hq0]
    · refine ih _ hs.2 ?_ p hp'
      intro j hj
      have := hb (j + 1) (by simp; omega)
      simp only [List.getElem_cons_succ] at this
      omega

/-- the inserted axes are invisible to a filter that rejects them -/
theorem filter_insertIdx_of_false (p : Nat → Bool) (a : Nat) (h : p a = false) : ∀ (i : Nat) (l : List Nat),
    (l.insertIdx i a).filter p = l.filter p
  | 0, l => by simp [h]
  | _ + 1, [] => by simp
  | i + 1, x :: l => by
    simp only [List.insertIdx_succ_cons, List.filter_cons, filter_insertIdx_of_false p a h i l]

theorem insAll_filter (p : Nat → Bool) (L : List (Nat × Nat)) : ∀ (o : List Nat), (∀ q ∈ L, p q.2 = false) →
    (insAll o L).filter p = o.filter p := by
  induction L with
  | nil => intro o _; rfl
  | cons q L ih =>
    intro o h
    rw [insAll_cons, ih _ (fun r hr => h r (List.mem_cons_of_mem _ hr)),
      filter_insertIdx_of_false p q.2 (h q List.mem_cons_self)]

/-! ### the sorted pair list -/

theorem pairLe_trans (a b c : Nat × Nat) : pairLe a b = true → pairLe b c = true → pairLe a c = true := by
  simp only [pairLe, Bool.or_eq_true, Bool.and_eq_true, decide_eq_true_eq, beq_iff_eq]
  omega

theorem pairLe_total (a b : Nat × Nat) : (pairLe a b || pairLe b a) = true := by
  simp only [pairLe, Bool.or_eq_true, Bool.and_eq_true, decide_eq_true_eq, beq_iff_eq]
  omega

/-- `sorted()` on the `(destination, source)` pairs: strictly ascending destinations when they are distinct -/
theorem sortedPairs_pairwise (s d : List Nat) (hd : d.Nodup) (hl : d.length ≤ s.length) :
    ((d.zip s).mergeSort pairLe).Pairwise (fun p q => p.1 < q.1) := by
  have h1 : ((d.zip s).mergeSort pairLe).Pairwise (fun p q => pairLe p q = true) :=
    List.pairwise_mergeSort pairLe_trans pairLe_total _
  have hfst : (((d.zip s).mergeSort pairLe).map (·.1)).Perm d := by
    have := (List.mergeSort_perm (d.zip s) pairLe).map (·.1)
    rwa [List.map_fst_zip hl] at this
  have h2 : (((d.zip s).mergeSort pairLe).map (·.1)).Nodup := hfst.symm.nodup hd
  rw [List.Nodup, List.pairwise_map] at h2
  refine (h1.and h2).imp ?_
  intro p q ⟨hle, hne⟩
  simp only [pairLe, Bool.or_eq_true, Bool.and_eq_true, decide_eq_true_eq, beq_iff_eq] at hle
  omega

/-- a strictly ascending list of naturals grows by at least one per step -/
theorem ascending_gap (l : List Nat) (h : l.Pairwise (· < ·)) (j : Nat) : ∀ (i : Nat) (hi : j + i < l.length),
    l[j]'(by omega) + i ≤ l[j + i] := by
  intro i
  induction i with
  | zero => intro hi; simp
  | succ i ih =>
    intro hi
    have h1 := ih (by omega)
    have h2 := (List.pairwise_iff_getElem.1 h) (j + i) (j + i + 1) (by omega) (by omega) (by omega)
    simp only [← Nat.add_assoc]
    omega

/-- the j-th smallest of m distinct destinations below `nd` is at most `(nd - m) + j`: the code's `min` never clamps -/
theorem ascending_bound (l : List Nat) (h : l.Pairwise (· < ·)) (N : Nat) (hN : ∀ x ∈ l, x < N) (j : Nat) (hj : j < l.length) :
    l[j] + (l.length - j) ≤ N := by
  have h1 := ascending_gap l h j (l.length - 1 - j) (by omega)
  have h2 := hN _ (List.getElem_mem (show j + (l.length - 1 - j) < l.length by omega))
  omega

/-! ### unmoved axes -/

/-- the moved axes followed by the unmoved ones are all the axes -/
theorem source_append_rest_perm (nd : Nat) (s : List Nat) (hs : s.Nodup) (hb : ∀ x ∈ s, x < nd) :
    (s ++ (List.range nd).filter (fun f => !s.contains f)).Perm (List.range nd) := by
  have h1 : ((List.range nd).filter (fun f => s.contains f)).Perm s := by
    rw [List.perm_ext_iff_of_nodup (List.nodup_range.filter _) hs]
    intro a
    simp only [List.mem_filter, List.mem_range, List.contains_iff_mem]
    exact ⟨fun h => h.2, fun h => ⟨hb a h, h⟩⟩
  exact (List.Perm.append_right _ h1.symm).trans (List.filter_append_perm _ _)

/-! ### coordinate forms -/

/-- reading a permuted vector through a second axis list is reading through the composed list -/
theorem permute_permute (p o c : List Nat) (hp : ∀ x ∈ p, x < o.length) :
    permute p (permute o c) = permute (permute p o) c := by
  simp only [permute, List.map_map]
  apply List.map_congr_left
  intro x hx
  have hx' := hp x hx
  simp [List.getD_eq_getElem?_getD, hx']

theorem permute_range (c : List Nat) : permute (List.range c.length) c = c := map_getD_range c

/-- "remove coordinate `i`, re-insert it at position `j`" -/
theorem permute_rollaxisOrder (nd i j : Nat) (c : List Nat) (hc : c.length = nd) :
    permute (Arr.rollaxisOrder nd i j) c = (c.eraseIdx i).insertIdx j (c.getD i 0) := by
  subst hc
  unfold Arr.rollaxisOrder permute
  rw [List.map_insertIdx, ← List.eraseIdx_map, map_getD_range]

/-- exchanging coordinates `i` and `j` -/
theorem permute_swapOrder (nd i j : Nat) (c : List Nat) (hc : c.length = nd) (hi : i < nd) (hj : j < nd) :
    permute (Arr.swapOrder nd i j) c = (c.set i (c.getD j 0)).set j (c.getD i 0) := by
  subst hc
  apply List.ext_getElem
  · simp [permute, Arr.swapOrder]
  · intro k h1 h2
    have hk : k < c.length := by simpa [permute, Arr.swapOrder] using h1
    simp only [permute, Arr.swapOrder, List.getElem_map, List.getElem_range, List.getElem_set,
      List.getD_eq_getElem?_getD]
    by_cases e1 : k = i
    · subst e1
      by_cases e2 : j = k
      · subst e2; simp [hk]
      · simp [e2, hj]
    · by_cases e2 : k = j
      · subst e2; simp [hi, e1]
      · have e3 : ¬ j = k := fun h => e2 h.symm
        have e4 : ¬ i = k := fun h => e1 h.symm
        simp [e1, e2, e3, e4, hk]

theorem filter_not_contains_singleton (nd i : Nat) (hi : i < nd) :
    (List.range nd).filter (fun f => ![i].contains f) = (List.range nd).eraseIdx i := by
  have h1 : (List.range nd).idxOf i = i := by
    have := List.Nodup.idxOf_getElem (List.nodup_range (n := nd)) i (by simpa using hi)
    simpa using this
  rw [← List.erase_eq_eraseIdx_of_idxOf h1, List.nodup_range.erase_eq_filter]
  apply List.filter_congr
  intro x _
  by_cases h : x = i <;> simp [bne, h]

/-- moving one axis: the same order as `rollaxis`, a destination past the end meaning "last" -/
theorem moveaxisOrder_one (nd i j : Nat) (hi : i < nd) :
    Arr.moveaxisOrder nd [i] [j] = Arr.rollaxisOrder nd i (min j (nd - 1)) := by
  unfold Arr.moveaxisOrder Arr.rollaxisOrder
  simp only [List.zip_cons_cons, List.zip_nil_right, List.mergeSort_singleton, List.foldl_cons, List.foldl_nil]
  rw [filter_not_contains_singleton nd i hi, List.length_eraseIdx]
  simp [hi]

end ArrModel
