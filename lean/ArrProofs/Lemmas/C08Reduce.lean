import ArrModel.C08
import ArrProofs.Lemmas.C08AlongAxis
/-! `apply_along_axis` with a lane function that returns one element (reductions, counts, positions) -/
namespace ArrModel
open Arr
variable {α β : Type}

/-- one output element per lane: the buffer of the result, read with the coordinates of the *remaining* axes -/
theorem applyAlongAxis_single (a : Arr α) (zero : α) (zb : β) (axis : Nat) (f : Arr α → Res (Arr β))
    (hwf : a.WF) (hax : axis < a.ndim) (hnz : 0 ∉ a.shape)
    (hf : ∀ lane : List α, lane.length = a.shape.getD axis 0 → ∃ r, f (Arr.flat lane) = .ok r ∧ r.elems.length = 1) :
    ∃ r, a.applyAlongAxis zero zb axis f = .ok r ∧ r.shape = a.shape.set axis 1 ∧ r.WF ∧
      r.elems.length = (a.shape.eraseIdx axis).prod ∧
      ∀ c, inRange (a.shape.eraseIdx axis) c = true →
        ∃ y v, f (Arr.flat (laneOf a axis (c.insertIdx axis 0))) = .ok y ∧ y.elems = [v] ∧
          r.elems[ravel (a.shape.eraseIdx axis) c]? = some v ∧ r.get? (c.insertIdx axis 0) = some v := by
  have hax' : axis < a.shape.length := hax
  obtain ⟨r, h1, h2, h3, h4⟩ := applyAlongAxis_spec a zero zb axis 1 f hwf hax hnz hf
  refine ⟨r, h1, h2, h3, ?_, ?_⟩
  · rw [h3, h2, prod_set_eraseIdx _ _ _ hax', Nat.mul_one]
  · intro c hc
    have hcl : c.length = (a.shape.eraseIdx axis).length := inRange_length _ _ hc
    have hal : axis ≤ c.length := by rw [hcl, List.length_eraseIdx]; simp [hax']; omega
    have hs : a.shape.set axis 1 = (a.shape.eraseIdx axis).insertIdx axis 1 := (insertIdx_eraseIdx_self _ _ _ hax').symm
    have hC : inRange r.shape (c.insertIdx axis 0) = true := by
      rw [h2, hs]; exact inRange_insertIdx _ _ _ _ _ hc (by omega)
    obtain ⟨y, hy1, hy2⟩ := h4 _ hC
    rw [getD_insertIdx_self c axis 0 hal] at hy2
    have hC' : inRange (a.shape.set axis 1) (c.insertIdx axis 0) = true := by rw [← h2]; exact hC
    obtain ⟨y', hy'1, hy'2⟩ := hf _ (laneOf_length a axis 1 _ hwf hC')
    rw [hy1] at hy'1; cases hy'1
    obtain ⟨v, hv⟩ := List.length_eq_one_iff.1 hy'2
    refine ⟨y, v, hy1, hv, ?_, ?_⟩
    · rw [Arr.get?, h2, hs, ravel_insertIdx_one _ _ _ hcl.symm, hv] at hy2
      simpa using hy2
    · rw [hy2, hv]; rfl

/-- on a rank-1 array the only lane is the whole buffer -/
theorem laneOf_rank1 (a : Arr α) (n : Nat) (c : List Nat) (hwf : a.WF) (hs : a.shape = [n]) (hc : c.length = 1) :
    laneOf a 0 c = a.elems := by
  match c, hc with
  | [x], _ =>
    unfold laneOf
    have hl : a.elems.length = n := by rw [hwf, hs]; simp
    conv => rhs; rw [← List.take_length (l := a.elems), hl, take_eq_filterMap]
    rw [hs]
    apply List.filterMap_congr
    intro j _
    simp [Arr.get?, hs, ravel]

end ArrModel

/-! sample 1-D bodies for the non-vacuity examples of `Props/C08.lean` -/
namespace ArrModel.C08
open ArrModel Arr
/-- 1-D `sum(None)` on naturals: `Self::single(fold …)` -/
def sumBody (arr : Arr Nat) : Res (Arr Nat) := .ok (Arr.single arr.elems.sum)
/-- 1-D `cumsum(None)` on naturals: running totals -/
def cumsumBody (arr : Arr Nat) : Res (Arr Nat) :=
  .ok (Arr.flat ((List.range arr.elems.length).map (fun i => (arr.elems.take (i + 1)).sum)))
/-- 1-D `count_nonzero(None, keepdims)` on naturals -/
def countBody (arr : Arr Nat) (kd : Option Bool) : Res (Arr Nat) :=
  Arr.keepdimsTail arr.ndim kd (Arr.single (arr.elems.filter (· != 0)).length)
/-- the `[2,3,2,2]` sample array `0..24` -/
def sample : Arr Nat := ⟨List.range 24, [2, 3, 2, 2]⟩
end ArrModel.C08
