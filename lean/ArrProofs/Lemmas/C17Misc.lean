import ArrProofs.Lemmas.C17
/-! helper lemmas for C17: strip, comparisons, splitlines -/
set_option linter.unusedSimpArgs false
namespace ArrModel.C17

/-! ### strip -/

theorem mem_takeWhile (p : Char → Bool) : ∀ (l : Str) (c : Char), c ∈ l.takeWhile p → p c = true
  | [], c, h => by simp at h
  | x :: xs, c, h => by
    rw [List.takeWhile_cons] at h
    split at h
    · rcases List.mem_cons.1 h with rfl | h'
      · assumption
      · exact mem_takeWhile p xs c h'
    · simp at h

theorem lstrip_eq_dropWhile (s cs : Str) : lstrip s cs = s.dropWhile (fun c => cs.contains c) := by
  simp [lstrip, rstrip]

/-- what `_rstrip` removes is a suffix made of characters of the set, and what is left does not end in one -/
theorem rstrip_decomp (s cs : Str) :
    ∃ t, s = rstrip s cs ++ t ∧ (∀ c ∈ t, cs.contains c = true) ∧
      (∀ l, (rstrip s cs).getLast? = some l → cs.contains l = false) := by
  refine ⟨(s.reverse.takeWhile (fun c => cs.contains c)).reverse, ?_, ?_, ?_⟩
  · have h := @List.takeWhile_append_dropWhile _ (fun c => cs.contains c) s.reverse
    have h2 := congrArg List.reverse h
    simp only [List.reverse_append, List.reverse_reverse] at h2
    exact h2.symm
  · intro c hc
    exact mem_takeWhile _ _ c (List.mem_reverse.1 hc)
  · intro l hl
    simp only [rstrip, List.getLast?_reverse] at hl
    have := List.head?_dropWhile_not (fun c => cs.contains c) s.reverse
    rw [hl] at this
    exact this

theorem lstrip_decomp (s cs : Str) :
    ∃ t, s = t ++ lstrip s cs ∧ (∀ c ∈ t, cs.contains c = true) ∧
      (∀ h, (lstrip s cs).head? = some h → cs.contains h = false) := by
  rw [lstrip_eq_dropWhile]
  refine ⟨s.takeWhile (fun c => cs.contains c), List.takeWhile_append_dropWhile.symm, mem_takeWhile _ _, ?_⟩
  intro h hh
  have := List.head?_dropWhile_not (fun c => cs.contains c) s
  rw [hh] at this
  exact this

theorem rstrip_head (s cs : Str) (h : Char) (hh : s.head? = some h) (hn : cs.contains h = false) :
    (rstrip s cs).head? = some h := by
  cases s with
  | nil => simp at hh
  | cons x xs =>
    simp only [List.head?_cons, Option.some.injEq] at hh
    subst hh
    simp only [rstrip, List.reverse_cons, List.dropWhile_append]
    split
    · have hx : x ∉ cs := by simpa using hn
      simp [List.dropWhile_cons, hx]
    · rename_i hne
      rw [List.reverse_append]
      simp

/-! ### comparisons -/

theorem char_lt_iff (a b : Char) : a.toNat < b.toNat ↔ a < b := by
  rw [Char.lt_def, UInt32.lt_iff_toNat_lt]; rfl

theorem cmpStr_lt_iff : ∀ (a b : Str), cmpStr a b = .lt ↔ a < b
  | [], [] => by simp [cmpStr, List.not_lt_nil]
  | [], b :: bs => by simp [cmpStr, List.nil_lt_cons]
  | a :: as, [] => by simp [cmpStr, List.not_lt_nil]
  | a :: as, b :: bs => by
    rw [List.cons_lt_cons_iff, ← char_lt_iff, ← cmpStr_lt_iff as bs, cmpStr]
    by_cases h1 : a.toNat < b.toNat
    · simp [h1]
    · by_cases h2 : b.toNat < a.toNat
      · have : a ≠ b := by intro h; subst h; omega
        simp [h1, h2, this]
      · have : a = b := Char.toNat_inj.1 (by omega)
        simp [h1, h2, this]

theorem cmpStr_gt_iff : ∀ (a b : Str), cmpStr a b = .gt ↔ b < a
  | [], [] => by simp [cmpStr, List.not_lt_nil]
  | [], b :: bs => by simp [cmpStr, List.not_lt_nil]
  | a :: as, [] => by simp [cmpStr, List.nil_lt_cons]
  | a :: as, b :: bs => by
    rw [List.cons_lt_cons_iff, ← char_lt_iff, ← cmpStr_gt_iff as bs, cmpStr]
    by_cases h1 : a.toNat < b.toNat
    · have : b ≠ a := by intro h; subst h; omega
      have h2 : ¬ b.toNat < a.toNat := by omega
      simp [h1, h2, this]
    · by_cases h2 : b.toNat < a.toNat
      · simp [h1, h2]
      · have : b = a := Char.toNat_inj.1 (by omega)
        simp [h1, h2, this]

theorem cmpStr_eq_iff : ∀ (a b : Str), cmpStr a b = .eq ↔ a = b
  | [], [] => by simp [cmpStr]
  | [], b :: bs => by simp [cmpStr]
  | a :: as, [] => by simp [cmpStr]
  | a :: as, b :: bs => by
    rw [cmpStr, List.cons.injEq, ← cmpStr_eq_iff as bs]
    by_cases h1 : a.toNat < b.toNat
    · have : a ≠ b := by intro h; subst h; omega
      simp [h1, this]
    · by_cases h2 : b.toNat < a.toNat
      · have : a ≠ b := by intro h; subst h; omega
        simp [h1, h2, this]
      · have : a = b := Char.toNat_inj.1 (by omega)
        simp [h1, h2, this]

/-! ### splitlines -/

theorem splitlinesAux_keep_flatten : ∀ (s cur : Str), (splitlinesAux true s cur).flatten = cur.reverse ++ s
  | [], cur => by
    simp only [splitlinesAux]
    split
    · rename_i h; have : cur = [] := by cases cur <;> simp_all
      simp [this]
    · simp
  | [c], cur => by
    simp only [splitlinesAux]
    split <;> simp
  | c :: d :: rest, cur => by
    simp only [splitlinesAux]
    split
    · simp [splitlinesAux_keep_flatten rest []]
    · split
      · simp [splitlinesAux_keep_flatten (d :: rest) []]
      · simp [splitlinesAux_keep_flatten (d :: rest) (c :: cur)]

theorem splitlinesAux_clean : ∀ (s cur : Str), (∀ c ∈ cur, c ≠ '\n' ∧ c ≠ '\r') →
    ∀ l ∈ splitlinesAux false s cur, ∀ c ∈ l, c ≠ '\n' ∧ c ≠ '\r'
  | [], cur, hcur, l, hl, c, hc => by
    simp only [splitlinesAux] at hl
    split at hl
    · simp at hl
    · simp only [List.mem_singleton] at hl; subst hl; exact hcur c (List.mem_reverse.1 hc)
  | [x], cur, hcur, l, hl, c, hc => by
    simp only [splitlinesAux] at hl
    split at hl
    · simp only [Bool.false_eq_true, if_false, List.mem_singleton] at hl; subst hl
      exact hcur c (List.mem_reverse.1 hc)
    · rename_i hx
      simp only [List.mem_singleton] at hl; subst hl
      rcases List.mem_cons.1 (List.mem_reverse.1 hc) with rfl | h'
      · exact ⟨fun h => hx (.inl h), fun h => hx (.inr h)⟩
      · exact hcur c h'
  | x :: d :: rest, cur, hcur, l, hl, c, hc => by
    simp only [splitlinesAux] at hl
    split at hl
    · simp only [Bool.false_eq_true, if_false] at hl
      rcases List.mem_cons.1 hl with rfl | h'
      · exact hcur c (List.mem_reverse.1 hc)
      · exact splitlinesAux_clean rest [] (by simp) l h' c hc
    · split at hl
      · simp only [Bool.false_eq_true, if_false] at hl
        rcases List.mem_cons.1 hl with rfl | h'
        · exact hcur c (List.mem_reverse.1 hc)
        · exact splitlinesAux_clean (d :: rest) [] (by simp) l h' c hc
      · rename_i hx
        refine splitlinesAux_clean (d :: rest) (x :: cur) ?_ l hl c hc
        intro y hy
        rcases List.mem_cons.1 hy with rfl | h'
        · exact ⟨fun h => hx (.inl h), fun h => hx (.inr h)⟩
        · exact hcur y h'

/-! ### `_join` -/

theorem joinChars_foldl (sep : Str) : ∀ (cs acc : Str), acc ≠ [] →
    cs.foldl (fun acc c => (if acc.isEmpty then acc else acc ++ sep) ++ [c]) acc =
      acc ++ (cs.map (fun c => sep ++ [c])).flatten
  | [], acc, _ => by simp
  | c :: cs, acc, h => by
    have hne : acc.isEmpty = false := by cases acc <;> simp_all
    simp only [List.foldl_cons, hne, Bool.false_eq_true, if_false]
    rw [joinChars_foldl sep cs _ (by simp)]
    simp [List.append_assoc]

theorem joinWith_singletons (sep : Str) : ∀ (cs y : Str),
    joinWith sep (y :: cs.map (fun c => [c])) = y ++ (cs.map (fun c => sep ++ [c])).flatten
  | [], y => by simp [joinWith]
  | c :: cs, y => by
    rw [List.map_cons, joinWith_cons _ _ _ (by simp), joinWith_singletons sep cs [c]]
    simp [List.append_assoc]

theorem joinChars_eq_joinWith (s sep : Str) : joinChars s sep = joinWith sep (s.map (fun c => [c])) := by
  cases s with
  | nil => rfl
  | cons c cs =>
    unfold joinChars
    rw [List.map_cons, joinWith_singletons, List.foldl_cons]
    simpa using joinChars_foldl sep cs [c] (by simp)

end ArrModel.C17
