import ArrProofs.Lemmas.C13Insert
import ArrProofs.Lemmas.C08List
/-!
# C13 helper lemmas: broadcasting of 1-D operands (`broadcast_to`, `broadcast`, `broadcast_h2` on vectors)
-/
namespace ArrModel
open Arr
variable {α β : Type}

/-- a vector stretched to length `n`: itself when it has `n` entries, its single entry `n` times when it has one -/
def bc1 (L : List β) (n : Nat) : List β := if L.length = n then L else L.flatMap (fun x => List.replicate n x)

theorem bc1_same (L : List β) : bc1 L L.length = L := by simp [bc1]

theorem bc1_single (x : β) (n : Nat) : bc1 [x] n = List.replicate n x := by
  unfold bc1
  split
  · rename_i h; simp at h; subst h; rfl
  · simp

theorem bc1_length (L : List β) (n : Nat) (h : L.length = n ∨ L.length = 1) : (bc1 L n).length = n := by
  rcases h with h | h
  · simp [bc1, h]
  · obtain ⟨x, rfl⟩ := List.length_eq_one_iff.1 h
    rw [bc1_single]; simp

theorem mem_bc1 (L : List β) (n : Nat) (x : β) (h : x ∈ bc1 L n) : x ∈ L := by
  unfold bc1 at h
  split at h
  · exact h
  · obtain ⟨y, hy, hx⟩ := List.mem_flatMap.1 h
    rw [(List.mem_replicate.1 hx).2]; exact hy

theorem dimClash_false (k m : Nat) (hk : 0 < k) (hm : 0 < m) (hc : k = m ∨ k = 1 ∨ m = 1) : dimClash k m = false := by
  unfold dimClash
  simp only [Bool.or_eq_false_iff, Bool.and_eq_false_iff, bne_eq_false_iff_eq, beq_eq_false_iff_ne]
  omega

theorem isBroadcastable_1d (k m : Nat) : isBroadcastable [k] [m] = !dimClash k m := by
  simp [isBroadcastable]

theorem unravelFold_length_aux : ∀ (r : List Nat) (acc : Nat × List Nat),
    (r.foldl (fun (a : Nat × List Nat) dim => (a.1 / dim, a.2 ++ [a.1 % dim])) acc).2.length = acc.2.length + r.length
  | [], _ => rfl
  | d :: r, acc => by
    rw [List.foldl_cons, unravelFold_length_aux r]
    simp; omega

theorem unravelFold_length (s : List Nat) (i : Nat) : (unravelFold s i).length = s.length := by
  unfold unravelFold
  rw [List.length_reverse, unravelFold_length_aux]; simp

theorem bsrc_one (c : List Nat) (h : c ≠ []) : bsrc [1] c = [0] := by
  have hl : 0 < c.length := List.length_pos_iff.2 h
  have : (c.drop (c.length - 1)).length = 1 := by rw [List.length_drop]; omega
  obtain ⟨y, hy⟩ := List.length_eq_one_iff.1 this
  simp [bsrc, hy]

theorem atc_single (x : β) : (⟨[x], [1]⟩ : Arr β).atc [0] = .ok x := rfl

/-- a one-element vector broadcast to any shape of rank ≥ 1 whose last axis is not empty: every entry is that element -/
theorem broadcastTo_single (x : β) (shape : List Nat) (hne : shape ≠ []) (hlast : shape.getLast? ≠ some 0) :
    (⟨[x], [1]⟩ : Arr β).broadcastTo shape = .ok ⟨List.replicate shape.prod x, shape⟩ := by
  obtain ⟨d, hd⟩ : ∃ d, shape.getLast? = some d := by
    cases h : shape.getLast? with
    | none => rw [List.getLast?_eq_none_iff] at h; exact absurd h hne
    | some d => exact ⟨d, rfl⟩
  have hd0 : d ≠ 0 := by intro h; apply hlast; rw [hd, h]
  have hrev : ∃ t, shape.reverse = d :: t := by
    have := List.head?_reverse (l := shape)
    rw [hd] at this
    cases hr : shape.reverse with
    | nil => rw [hr] at this; simp at this
    | cons y t => rw [hr] at this; simp at this; exact ⟨t, by rw [this]⟩
  obtain ⟨t, ht⟩ := hrev
  have hb : isBroadcastable [1] shape = true := by
    simp [isBroadcastable, ht, dimClash, hd0]
  have hlen : 0 < shape.length := List.length_pos_iff.2 hne
  unfold Arr.broadcastTo
  simp only [hb, Bool.not_true, Bool.false_eq_true, if_false]
  by_cases hp : [1].prod = shape.prod
  · rw [if_pos hp]
    simp only [Arr.reshape, Arr.new]
    rw [if_pos (by rw [← hp]; rfl), ← hp]; rfl
  · rw [if_neg hp, if_neg (by simp; omega)]
    have hany : ([1].zip (shape.drop (shape.length - [1].length))).any (fun p => p.1 != p.2 && p.1 != 1) = false := by
      cases hz : [1].zip (shape.drop (shape.length - [1].length)) with
      | nil => rfl
      | cons q qs =>
        have hq : q ∈ [1].zip (shape.drop (shape.length - [1].length)) := by rw [hz]; exact List.mem_cons_self
        have hq1 := (List.of_mem_zip hq).1
        have hqs : qs = [] := by
          have := congrArg List.length hz
          simp at this
          exact List.length_eq_zero_iff.1 (by omega)
        simp only [List.mem_singleton] at hq1
        simp [hqs, hq1]
    simp only [hany, Bool.false_eq_true, if_false]
    have hseq : Res.sequence ((List.range shape.prod).map (fun idx =>
        (⟨[x], [1]⟩ : Arr β).atc (bsrc [1] (unravelFold shape idx)))) = .ok ((List.range shape.prod).map (fun _ => x)) := by
      rw [← sequence_map_ok]
      congr 1
      apply List.map_congr_left
      intro idx _
      rw [bsrc_one _ (by intro h; have := unravelFold_length shape idx; rw [h] at this; simp at this; omega)]
      rfl
    rw [hseq]
    simp only [Res.bind_ok, Arr.new, List.length_map, List.length_range, if_true]
    congr 2
    apply List.ext_getElem?
    intro i
    by_cases hi : i < shape.prod
    · simp [hi]
    · rw [List.getElem?_eq_none (by simp; omega), List.getElem?_eq_none (by simp; omega)]

theorem broadcastTo_1d (L : List β) (n : Nat) (hn : 0 < n) (h : L.length = n ∨ L.length = 1) :
    (⟨L, [L.length]⟩ : Arr β).broadcastTo [n] = .ok ⟨bc1 L n, [n]⟩ := by
  by_cases hs : L.length = n
  · subst hs
    unfold Arr.broadcastTo
    have : dimClash L.length L.length = false := dimClash_false _ _ hn hn (.inl rfl)
    simp only [isBroadcastable_1d, this, Bool.not_false, Bool.not_true, Bool.false_eq_true, if_false, if_true,
      Arr.reshape, Arr.new, bc1_same]
    simp
  · have h1 : L.length = 1 := by omega
    obtain ⟨x, rfl⟩ := List.length_eq_one_iff.1 h1
    have := broadcastTo_single x [n] (by simp) (by simp; omega)
    simp only [List.prod_cons, List.prod_nil, Nat.mul_one] at this
    rw [bc1_single]
    exact this

theorem broadcastShape_1d (k m : Nat) (hk : 0 < k) (hm : 0 < m) (hc : k = m ∨ k = 1 ∨ m = 1) : broadcastShape [k] [m] = .ok [max k m] := by
  simp only [broadcastShape, List.length_cons, List.length_nil, Nat.max_self, padRev, List.reverse_cons,
    List.reverse_nil, List.nil_append, List.replicate, List.take, List.cons_append, List.zip_cons_cons, List.zip_nil_right,
    List.map_cons, List.map_nil, Res.sequence, bdim]
  by_cases h1 : k = 1
  · subst h1; simp [Res.map]; omega
  · rw [if_neg h1]
    by_cases h2 : m = 1 ∨ k = m
    · rw [if_pos h2]; simp [Res.map]; omega
    · omega

/-- `broadcast` of two vectors whose lengths are equal or one of which is 1 -/
theorem broadcast_1d (A : List α) (B : List β) (hk : 0 < A.length) (hm : 0 < B.length)
    (hc : A.length = B.length ∨ A.length = 1 ∨ B.length = 1) :
    (⟨A, [A.length]⟩ : Arr α).broadcast (⟨B, [B.length]⟩ : Arr β) =
      .ok ⟨(bc1 A (max A.length B.length)).zip (bc1 B (max A.length B.length)), [max A.length B.length]⟩ := by
  have hcl : dimClash A.length B.length = false := dimClash_false _ _ hk hm hc
  unfold Arr.broadcast
  simp only [isBroadcastable_1d, hcl, Bool.not_false, Bool.not_true, Bool.false_eq_true, if_false]
  by_cases he : A.length = B.length
  · rw [if_pos (by rw [he])]
    simp only [he, Nat.max_self, Arr.reshape, Arr.new, Arr.flat, bc1_same]
    rw [← he, bc1_same, if_pos (by simp [he])]
  · rw [if_neg (by simpa using he), broadcastShape_1d _ _ hk hm hc]
    simp only [Res.bind_ok]
    rw [broadcastTo_1d A _ (by omega) (by omega), broadcastTo_1d B _ (by omega) (by omega)]
    simp only [Res.bind_ok, Arr.new]
    rw [if_pos (by simp [bc1_length A (max A.length B.length) (by omega), bc1_length B (max A.length B.length) (by omega)])]

/-- `broadcast_h2` of two vectors -/
theorem broadcastH2_1d (A : List α) (zero : α) (B : List β) (hk : 0 < A.length) (hm : 0 < B.length)
    (hc : A.length = B.length ∨ A.length = 1 ∨ B.length = 1) :
    (Arr.flat A).broadcastH2 zero (Arr.flat B) =
      .ok (⟨bc1 A (max A.length B.length), [max A.length B.length]⟩, ⟨bc1 B (max A.length B.length), [max A.length B.length]⟩) := by
  unfold Arr.broadcastH2
  have h0 := broadcastTo_1d [zero] B.length hm (.inr rfl)
  simp only [List.length_cons, List.length_nil, Nat.zero_add] at h0
  simp only [Arr.flat, h0, Res.bind_ok]
  have hl : (bc1 [zero] B.length).length = B.length := bc1_length _ _ (.inr rfl)
  have hb := broadcast_1d A (bc1 [zero] B.length) hk (by omega) (by omega)
  rw [hl] at hb
  rw [hb]
  simp only [Res.bind_ok, Arr.reshape, Arr.new]
  have hlA := bc1_length A (max A.length B.length) (by omega)
  have hlB := bc1_length (bc1 [zero] B.length) (max A.length B.length) (by omega)
  rw [List.map_fst_zip (by omega), if_pos (by simp [hlA])]
  simp only [Res.bind_ok]
  rw [broadcastTo_1d B _ (by omega) (by omega)]
  rfl

/-! ### flat `insert` -/

theorem insertIdx_append_length : ∀ (l l' : List α) (x : α), (l ++ l').insertIdx l.length x = l ++ x :: l'
  | [], _, _ => rfl
  | y :: ys, l', x => by
    simp only [List.cons_append, List.length_cons, List.insertIdx_succ_cons, insertIdx_append_length ys l' x]

/-- several values at one and the same position go in as a block, in request order -/
theorem insertAllAt_same_index (l : List α) (i : Nat) (hi : i ≤ l.length) : ∀ (vs : List α),
    insertAllAt l (vs.map (fun v => (i, v))) = l.take i ++ vs ++ l.drop i
  | [] => by simp [insertAllAt]
  | v :: vs => by
    have ih := insertAllAt_same_index l i hi vs
    show (insertAllAt l (vs.map (fun v => (i, v)))).insertIdx i v = _
    rw [ih, List.append_assoc]
    have := insertIdx_append_length (l.take i) (vs ++ l.drop i) v
    rw [List.length_take, Nat.min_eq_left hi] at this
    rw [this]; simp

theorem zip_replicate_left (i : Nat) : ∀ (vs : List α), (List.replicate vs.length i).zip vs = vs.map (fun v => (i, v))
  | [] => rfl
  | v :: vs => by simp [List.replicate_succ, zip_replicate_left i vs]

theorem Arr.insertFlat_oob (a : Arr α) (idxs : List Nat) (values : Arr α) (h : ∃ i ∈ idxs, a.elems.length < i) :
    a.insertFlat idxs values = .err .OutOfBounds := by
  unfold Arr.insertFlat
  rw [if_pos (by simpa using h)]

theorem insertFlat_any_false (a : Arr α) (idxs : List Nat) (hb : ∀ i ∈ idxs, i ≤ a.elems.length) :
    idxs.any (fun i => decide (i > a.elems.length)) = false := by
  cases h : idxs.any (fun i => decide (i > a.elems.length))
  · rfl
  · simp only [List.any_eq_true, decide_eq_true_eq] at h
    obtain ⟨i, hi, hlt⟩ := h
    have := hb i hi; omega

theorem Arr.insertFlat_dim (a : Arr α) (idxs : List Nat) (values : Arr α) (hb : ∀ i ∈ idxs, i ≤ a.elems.length)
    (h : values.ndim ≠ 1 ∨ a.ndim = 0) : a.insertFlat idxs values = .err .UnsupportedDimension := by
  unfold Arr.insertFlat
  rw [insertFlat_any_false a idxs hb]
  simp only [Bool.false_eq_true, if_false]
  by_cases h1 : values.ndim = 1
  · rw [if_pos (by simp [h1]; omega)]
  · split
    · rfl
    · rfl

/-- incompatible lengths of the index list and the value vector are refused -/
theorem Arr.insertFlat_mismatch (a : Arr α) (idxs : List Nat) (values : Arr α) (hb : ∀ i ∈ idxs, i ≤ a.elems.length)
    (hv : values.ndim = 1) (ha : 1 ≤ a.ndim)
    (h : idxs.length = 0 ∨ values.elems.length = 0 ∨
      (idxs.length ≠ values.elems.length ∧ idxs.length ≠ 1 ∧ values.elems.length ≠ 1)) :
    a.insertFlat idxs values = .err .BroadcastShapeMismatch := by
  unfold Arr.insertFlat
  rw [insertFlat_any_false a idxs hb]
  simp only [Bool.false_eq_true, if_false]
  rw [if_neg (by simp [hv]; omega), if_neg (by simp [hv])]
  have hcl : dimClash idxs.length values.elems.length = true := by
    unfold dimClash
    simp only [Bool.or_eq_true, Bool.and_eq_true, bne_iff_ne, beq_iff_eq]
    omega
  unfold Arr.broadcastH2
  by_cases hm : values.elems.length = 0
  · have : (Arr.mk [(0 : Nat)] [1]).broadcastTo values.ravel.shape = .err .BroadcastShapeMismatch := by
      unfold Arr.broadcastTo
      rw [if_pos (by simp [Arr.ravel, Arr.flat, isBroadcastable_1d, dimClash, hm])]
    rw [this]; rfl
  · have h0 := broadcastTo_1d [(0 : Nat)] values.elems.length (by omega) (.inr rfl)
    simp only [List.length_cons, List.length_nil, Nat.zero_add] at h0
    simp only [Arr.ravel, Arr.flat, h0, Res.bind_ok]
    have hl : (bc1 [(0 : Nat)] values.elems.length).length = values.elems.length := bc1_length _ _ (.inr rfl)
    unfold Arr.broadcast
    rw [if_pos (by simp [isBroadcastable_1d, hcl])]
    rfl

/-- the success region of flat `insert` with a 1-D value vector: what the call computes -/
theorem Arr.insertFlat_ok (a : Arr α) (idxs : List Nat) (values : Arr α)
    (hv : values.ndim = 1) (ha : 1 ≤ a.ndim) (hk : 0 < idxs.length) (hm : 0 < values.elems.length)
    (hc : idxs.length = values.elems.length ∨ idxs.length = 1 ∨ values.elems.length = 1)
    (hb : ∀ i ∈ idxs, i ≤ a.elems.length) :
    a.insertFlat idxs values = .ok (Arr.flat (insertAllAt a.elems (sortByIdx
      ((bc1 idxs (max idxs.length values.elems.length)).zip (bc1 values.elems (max idxs.length values.elems.length)))))) := by
  unfold Arr.insertFlat
  rw [insertFlat_any_false a idxs hb]
  simp only [Bool.false_eq_true, if_false]
  rw [if_neg (by simp [hv]; omega), if_neg (by simp [hv])]
  rw [Arr.ravel, broadcastH2_1d idxs 0 values.elems hk hm hc]
  simp only [Res.bind_ok]
  rw [insert_fold_eq]
  · rfl
  · intro p hp
    have hp' := (sortByIdx_perm _).mem_iff.1 hp
    exact hb _ (mem_bc1 _ _ _ (List.of_mem_zip hp').1)

/-- the properties of the insertion of a sorted pair list, collected -/
theorem insertAllAt_spec (l : List α) (S : List (Nat × α)) (hs : S.Pairwise (fun p q => p.1 ≤ q.1))
    (hb : ∀ p ∈ S, p.1 ≤ l.length) :
    (insertAllAt l S).length = l.length + S.length ∧
    (∀ j (hj : j < S.length), (insertAllAt l S)[S[j].1 + j]? = some S[j].2) ∧
    keepPositions (insertAllAt l S) (landing S) = l ∧
    (Arr.flat (insertAllAt l S)).deleteFlat (landing S) = .ok (Arr.flat l) := by
  have hlen := insertAllAt_length S l hb
  have hkeep : keepPositions (insertAllAt l S) (landing S) = l := by
    rw [keepPositions_eq_dropIdx]; exact dropIdx_landing S l hs hb
  refine ⟨hlen, insertAllAt_at_landing S l hs hb, hkeep, ?_⟩
  rw [Arr.deleteFlat_ok, show (Arr.flat (insertAllAt l S)).elems = insertAllAt l S from rfl, hkeep]
  intro i hi
  show i < (insertAllAt l S).length
  rw [hlen]; exact landing_lt S _ hb i hi

end ArrModel
