import ArrProofs.Lemmas.C11Stack
/-! C11: the conveniences `vstack` / `hstack` / `dstack` reduce to `concatenate` after `atleast` -/
namespace ArrModel.C11
open ArrModel Arr
variable {α : Type}

theorem reshape_ok (elems : List α) (shape sh' : List Nat) (h : sh'.prod = elems.length) :
    (⟨elems, shape⟩ : Arr α).reshape sh' = .ok ⟨elems, sh'⟩ := by
  simp only [Arr.reshape, Arr.new]; rw [if_pos h]

theorem idx_getD (l : List Nat) (k : Nat) (h : k < l.length) : Res.idx l k = .ok (l.getD k 0) := by
  simp [Res.idx, List.getD_eq_getElem?_getD, h]

/-- the hypotheses under which `concatenate` along `k` is specified (`concatenate_coord`) -/
def Joinable (k : Nat) (a0 : Arr α) (rest : List (Arr α)) : Prop :=
  ∀ b ∈ a0 :: rest, b.WF ∧ k < b.ndim ∧ b.shape.eraseIdx k = a0.shape.eraseIdx k

theorem joinable_validate (k : Nat) (a0 : Arr α) (rest : List (Arr α)) (h : Joinable k a0 rest) :
    validateStackShapes (a0 :: rest) k k = .ok () :=
  validate_ok k (a0.shape.eraseIdx k) _ (fun b hb => ⟨(h b hb).2.1, (h b hb).2.2⟩)

theorem joinable_dims (k : Nat) (a0 : Arr α) (rest : List (Arr α)) (h : Joinable k a0 rest) :
    Res.mapM' (fun (b : Arr α) => Res.idx b.shape k) (a0 :: rest) = .ok ((a0 :: rest).map (axLen k)) :=
  mapM'_ok _ _ _ (fun b hb => idx_getD _ _ (h b hb).2.1)

/-- the common tail of `hstack` / `dstack`: validation, summing the axis lengths, joining and the final reshape
are together just `concatenate` -/
theorem join_tail (zero : α) (k : Nat) (a0 : Arr α) (rest : List (Arr α)) (h : Joinable k a0 rest) :
    (validateStackShapes (a0 :: rest) k k >>= fun _ =>
      Res.mapM' (fun (b : Arr α) => Res.idx b.shape k) (a0 :: rest) >>= fun ds =>
      (Res.idx (a0 :: rest) 0) >>= fun a0' =>
      concatenate (a0 :: rest) zero (some k) >>= fun c => c.reshape (a0'.shape.set k ds.sum))
      = concatenate (a0 :: rest) zero (some k) := by
  obtain ⟨r, h1, h2, h3, _⟩ := concatenate_coord zero k a0 rest h
  rw [joinable_validate k a0 rest h, Res.bind_ok, joinable_dims k a0 rest h, Res.bind_ok]
  have : Res.idx (a0 :: rest) 0 = .ok a0 := rfl
  rw [this, Res.bind_ok, h1, Res.bind_ok, ← h2, reshape_self r h3]

/-- **`vstack` of inputs of rank ≠ 1 is `concatenate` along axis 0** -/
theorem vstack_nd (zero : α) (a0 : Arr α) (rest : List (Arr α)) (h : Joinable 0 a0 rest) (h1 : a0.shape.length ≠ 1) :
    vstack (a0 :: rest) zero = concatenate (a0 :: rest) zero (some 0) := by
  obtain ⟨r, g1, g2, g3, _⟩ := concatenate_coord zero 0 a0 rest h
  unfold Arr.vstack
  dsimp only
  rw [joinable_validate 0 a0 rest h, Res.bind_ok, if_neg h1, joinable_dims 0 a0 rest h]
  simp only [Res.bind_ok]
  rw [g1, Res.bind_ok, ← g2, reshape_self r g3]

/-! ### `atleast` -/

theorem atleast2_rank1 (b : Arr α) (n : Nat) (hwf : b.WF) (hs : b.shape = [n]) : b.atleast 2 = .ok ⟨b.elems, [1, n]⟩ := by
  have hl : b.elems.length = n := by rw [hwf, hs]; simp
  simp only [Arr.atleast, Arr.atleast2d, Arr.ndim, hs, List.length_cons, List.length_nil]
  rw [if_neg (by omega)]
  simp [Res.idx, Arr.reshape, Arr.new, hl]

theorem atleast2_rank_ge (b : Arr α) (h : 2 ≤ b.ndim) : b.atleast 2 = .ok b := by
  simp only [Arr.atleast, Arr.atleast2d]; rw [if_pos h]

theorem atleast3_rank1 (b : Arr α) (n : Nat) (hwf : b.WF) (hs : b.shape = [n]) : b.atleast 3 = .ok ⟨b.elems, [1, n, 1]⟩ := by
  have hl : b.elems.length = n := by rw [hwf, hs]; simp
  simp only [Arr.atleast, Arr.atleast3d, Arr.ndim, hs, List.length_cons, List.length_nil]
  rw [if_neg (by omega)]
  simp [Res.idx, Arr.reshape, Arr.new, hl]

theorem atleast3_rank2 (b : Arr α) (m n : Nat) (hwf : b.WF) (hs : b.shape = [m, n]) :
    b.atleast 3 = .ok ⟨b.elems, [m, n, 1]⟩ := by
  have hl : b.elems.length = m * n := by rw [hwf, hs]; simp
  simp only [Arr.atleast, Arr.atleast3d, Arr.ndim, hs, List.length_cons, List.length_nil]
  rw [if_neg (by omega)]
  simp [Res.idx, Arr.reshape, Arr.new, hl]

theorem atleast3_rank_ge (b : Arr α) (h : 3 ≤ b.ndim) : b.atleast 3 = .ok b := by
  simp only [Arr.atleast, Arr.atleast3d]; rw [if_pos h]

/-! ### `hstack`, `dstack` -/

/-- **`hstack` of 1-D inputs is `concatenate` along axis 0** -/
theorem hstack_1d (zero : α) (a0 : Arr α) (rest : List (Arr α)) (h : (a0 :: rest).all (fun a => a.ndim == 1) = true) :
    hstack (a0 :: rest) zero = concatenate (a0 :: rest) zero (some 0) := by
  unfold Arr.hstack
  simp only [h, if_true]

/-- **`hstack` otherwise is `concatenate` along axis 1 of the inputs promoted by `atleast(2)`** -/
theorem hstack_nd (zero : α) (arrs : List (Arr α)) (a0 : Arr α) (rest : List (Arr α))
    (hnot : arrs.all (fun a => a.ndim == 1) = false)
    (hprom : Res.mapM' (fun (a : Arr α) => a.atleast 2) arrs = .ok (a0 :: rest)) (h : Joinable 1 a0 rest) :
    hstack arrs zero = concatenate (a0 :: rest) zero (some 1) := by
  cases arrs with
  | nil => simp at hnot
  | cons x xs =>
    unfold Arr.hstack
    simp only [hnot, Bool.false_eq_true, if_false, hprom, Res.bind_ok]
    exact join_tail zero 1 a0 rest h

/-- **`dstack` is `concatenate` along axis 2 of the inputs promoted by `atleast(3)`** -/
theorem dstack_nd (zero : α) (arrs : List (Arr α)) (a0 : Arr α) (rest : List (Arr α))
    (hprom : Res.mapM' (fun (a : Arr α) => a.atleast 3) arrs = .ok (a0 :: rest)) (h : Joinable 2 a0 rest) :
    dstack arrs zero = concatenate (a0 :: rest) zero (some 2) := by
  cases arrs with
  | nil => simp [Res.mapM', Res.sequence] at hprom
  | cons x xs =>
    unfold Arr.dstack
    simp only [hprom, Res.bind_ok]
    exact join_tail zero 2 a0 rest h

/-! ### `vstack` of 1-D inputs -/

/-- a 1-D array of length `n` seen as one row -/
def prom2 (n : Nat) (b : Arr α) : Arr α := ⟨b.elems, [1, n]⟩

theorem flatMap_map_elems {β} (f : β → Arr α) (l : List β) : (l.map f).flatMap (·.elems) = l.flatMap (fun x => (f x).elems) := by
  rw [List.flatMap_map]

/-- **`vstack` of 1-D inputs of one length is `concatenate` along axis 0 of the inputs promoted by `atleast(2)`**:
both are the rows laid under each other, shape `[count, n]` -/
theorem vstack_1d (zero : α) (n : Nat) (a0 : Arr α) (rest : List (Arr α))
    (h : ∀ b ∈ a0 :: rest, b.WF ∧ b.shape = [n]) :
    vstack (a0 :: rest) zero = .ok ⟨(a0 :: rest).flatMap (·.elems), [rest.length + 1, n]⟩ ∧
    (Res.mapM' (fun (a : Arr α) => a.atleast 2) (a0 :: rest) >>= fun l => concatenate l zero (some 0))
      = .ok ⟨(a0 :: rest).flatMap (·.elems), [rest.length + 1, n]⟩ := by
  have hax : ∀ b ∈ a0 :: rest, axLen 0 b = n := fun b hb => by rw [axLen, (h b hb).2]; rfl
  have hlen : ∀ b ∈ a0 :: rest, b.elems.length = n := fun b hb => by rw [(h b hb).1, (h b hb).2]; simp
  have hF : ((a0 :: rest).flatMap (·.elems)).length = (rest.length + 1) * n := by
    rw [length_flatMap_uniform _ n _ hlen]; rfl
  constructor
  · have hj : Joinable 0 a0 rest :=
      fun b hb => ⟨(h b hb).1, by rw [Arr.ndim, (h b hb).2]; simp, by rw [(h b hb).2, (h a0 List.mem_cons_self).2]⟩
    have hc := concatenate_axis0 zero [] a0 rest (fun b hb => ⟨(h b hb).1, by rw [hax b hb]; exact (h b hb).2⟩)
    rw [sum_map_const _ n _ hax] at hc
    unfold Arr.vstack
    dsimp only
    rw [joinable_validate 0 a0 rest hj, Res.bind_ok, if_pos (by rw [(h a0 List.mem_cons_self).2]; rfl)]
    have hany : ((a0 :: rest).any (fun a => decide (a.shape ≠ a0.shape))) = false := by
      rw [List.any_eq_false]; intro b hb; simp [(h b hb).2, (h a0 List.mem_cons_self).2]
    rw [if_neg (by rw [hany]; simp)]
    simp only [vecInsert, (h a0 List.mem_cons_self).2]
    rw [if_neg (by simp), Res.bind_ok, hc, Res.bind_ok]
    exact reshape_ok _ _ [rest.length + 1, n] (by rw [hF]; simp)
  · have hprom : Res.mapM' (fun (a : Arr α) => a.atleast 2) (a0 :: rest) = .ok ((a0 :: rest).map (prom2 n)) :=
      mapM'_ok _ _ _ (fun b hb => atleast2_rank1 b n (h b hb).1 (h b hb).2)
    rw [hprom, Res.bind_ok]
    have e : (a0 :: rest).map (prom2 n) = prom2 n a0 :: rest.map (prom2 n) := rfl
    have hc := concatenate_axis0 zero [n] (prom2 n a0) (rest.map (prom2 n)) (by
        intro b hb
        rw [← e] at hb
        obtain ⟨x, hx, rfl⟩ := List.mem_map.1 hb
        exact ⟨by show x.elems.length = [1, n].prod; rw [hlen x hx]; simp, rfl⟩)
    rw [← e] at hc
    rw [hc]
    congr 2
    · rw [List.flatMap_map]; rfl
    · rw [List.map_map, sum_map_const (axLen 0 ∘ prom2 n) 1 _ (fun b _ => rfl)]
      simp

/-! ### `hsplit`, `vsplit`, `dsplit` -/

theorem hsplit_eq (a : Arr α) (zero : α) (parts : Nat) (hp : 0 < parts) (hnd : 1 ≤ a.ndim) :
    a.hsplit zero parts = a.split zero parts (some (if a.ndim = 1 then 0 else 1)) := by
  unfold Arr.hsplit
  rw [if_neg (by omega), if_neg (by omega)]
  split <;> rfl

theorem vsplit_eq (a : Arr α) (zero : α) (parts : Nat) (hp : 0 < parts) (hnd : 2 ≤ a.ndim) :
    a.vsplit zero parts = a.split zero parts (some 0) := by
  unfold Arr.vsplit
  rw [if_neg (by omega), if_neg (by omega)]

theorem dsplit_eq (a : Arr α) (zero : α) (parts : Nat) (hp : 0 < parts) (hnd : 3 ≤ a.ndim) :
    a.dsplit zero parts = a.split zero parts (some 2) := by
  unfold Arr.dsplit
  rw [if_neg (by omega), if_neg (by omega)]

end ArrModel.C11
