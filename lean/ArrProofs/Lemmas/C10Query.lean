import ArrProofs.Lemmas.C10Basic
/-!
# C10 lemmas, part 4 — `argsort` (find / position / remove loop), `argmax` / `argmin`, `unique`
-/
namespace ArrModel.Sort
open ArrModel

variable {α : Type}

/-! ### enumerate -/

theorem enumFrom_map_fst : ∀ (n : Nat) (l : List α), (enumFrom n l).map Prod.fst = List.range' n l.length
  | _, [] => rfl
  | n, x :: xs => by simp [enumFrom, enumFrom_map_fst (n + 1) xs, List.range'_succ]

theorem enumFrom_map_snd : ∀ (n : Nat) (l : List α), (enumFrom n l).map Prod.snd = l
  | _, [] => rfl
  | n, x :: xs => by simp [enumFrom, enumFrom_map_snd (n + 1) xs]

theorem mem_enumFrom : ∀ (n : Nat) (l : List α) (k : Nat) (x : α),
    (k, x) ∈ enumFrom n l ↔ n ≤ k ∧ l[k - n]? = some x
  | _, [], k, x => by simp [enumFrom]
  | n, y :: ys, k, x => by
    simp only [enumFrom, List.mem_cons, Prod.mk.injEq, mem_enumFrom (n + 1) ys k x]
    constructor
    · rintro (⟨rfl, rfl⟩ | ⟨h1, h2⟩)
      · simp
      · refine ⟨by omega, ?_⟩
        have : k - n = (k - (n + 1)) + 1 := by omega
        rw [this]; simpa using h2
    · rintro ⟨h1, h2⟩
      by_cases hk : k = n
      · subst hk; left; simpa using h2.symm
      · right
        refine ⟨by omega, ?_⟩
        have : k - n = (k - (n + 1)) + 1 := by omega
        rw [this] at h2; simpa using h2

/-! ### one step of the argsort closure -/

theorem argsortStep_spec {c : Cmp α} (h : c.Lawful) (S1 S2 : List (Nat × α)) (it : Nat × α)
    (h2 : ∀ q ∈ S1, q.2 ≠ it.2) (h1 : ∀ q ∈ S1, q.1 ≠ it.1) :
    argsortStep c (S1 ++ it :: S2) it.2 = .ok (it.1, S1 ++ S2) := by
  unfold argsortStep
  have hf : (S1 ++ it :: S2).find? (fun p => c.beq p.2 it.2) = some it := by
    rw [List.find?_append]
    have : S1.find? (fun p => c.beq p.2 it.2) = none := by
      rw [List.find?_eq_none]
      intro q hq; simpa using h.beq_false_iff.2 (h2 q hq)
    rw [this]
    simp [h.beq_refl]
  rw [hf]
  have hi : (S1 ++ it :: S2).findIdx? (fun q => q.1 == it.1 && c.beq q.2 it.2) = some S1.length := by
    rw [List.findIdx?_append]
    have : S1.findIdx? (fun q => q.1 == it.1 && c.beq q.2 it.2) = none := by
      rw [List.findIdx?_eq_none_iff]
      intro q hq
      have := h1 q hq
      simp [this]
    rw [this]
    simp [List.findIdx?_cons, h.beq_refl]
  simp only [hi]
  rw [if_pos (by simp)]
  congr 2
  rw [List.eraseIdx_append_of_length_le (Nat.le_refl _)]
  simp

/-- first occurrence of a value among the seconds -/
theorem exists_first_snd (x : α) : ∀ (S : List (Nat × α)), x ∈ S.map Prod.snd →
    ∃ S1 it S2, S = S1 ++ it :: S2 ∧ it.2 = x ∧ ∀ q ∈ S1, q.2 ≠ x
  | [], h => by simp at h
  | q :: S, h => by
    by_cases hq : q.2 = x
    · exact ⟨[], q, S, rfl, hq, by simp⟩
    · have : x ∈ S.map Prod.snd := by
        simp only [List.map_cons, List.mem_cons] at h
        rcases h with h | h
        · exact absurd h.symm hq
        · exact h
      obtain ⟨S1, it, S2, rfl, h1, h2⟩ := exists_first_snd x S this
      refine ⟨q :: S1, it, S2, rfl, h1, ?_⟩
      intro q' hq'
      rcases List.mem_cons.1 hq' with rfl | hq'
      · exact hq
      · exact h2 q' hq'

/-- the whole `map` of `argsort`, for any state `S` whose indices increase and whose values are the items -/
theorem argsortLoop_spec {c : Cmp α} (h : c.Lawful) : ∀ (items : List α) (S : List (Nat × α)),
    (S.map Prod.fst).Pairwise (· < ·) → items.Perm (S.map Prod.snd) →
    ∃ out, argsortLoop c S items = .ok out ∧ out.Perm (S.map Prod.fst) ∧
      (∀ (i : Nat) x (k : Nat), items[i]? = some x → out[i]? = some k → (k, x) ∈ S) ∧
      (∀ (i j : Nat) x (ki kj : Nat), i < j → items[i]? = some x → items[j]? = some x → out[i]? = some ki → out[j]? = some kj →
        ki < kj) := by
  intro items
  induction items with
  | nil =>
    intro S _ hp
    have : S = [] := by
      have := hp.length_eq; simp at this
      exact List.length_eq_zero_iff.1 this.symm
    subst this
    exact ⟨[], rfl, .refl _, by simp, by simp⟩
  | cons x items ih =>
    intro S hS hp
    have hx : x ∈ S.map Prod.snd := hp.subset (List.mem_cons_self)
    obtain ⟨S1, it, S2, rfl, hit, hS1⟩ := exists_first_snd x S hx
    subst hit
    simp only [List.map_append, List.map_cons] at hS hp
    have hS' := List.pairwise_append.1 hS
    have hfst : ∀ q ∈ S1, q.1 ≠ it.1 := by
      intro q hq
      have := hS'.2.2 q.1 (List.mem_map_of_mem hq) it.1 (List.mem_cons_self)
      omega
    unfold argsortLoop
    rw [argsortStep_spec h S1 S2 it hS1 hfst, Res.bind_ok]
    have hSsub : ((S1 ++ S2).map Prod.fst).Pairwise (· < ·) := by
      rw [List.map_append]
      exact List.Pairwise.sublist (List.Sublist.append_left (List.sublist_cons_self _ _) _) hS
    have hpsub : items.Perm ((S1 ++ S2).map Prod.snd) := by
      rw [List.map_append]
      exact (hp.trans List.perm_middle).cons_inv
    obtain ⟨out', ho, hperm, hpt, hst⟩ := ih (S1 ++ S2) hSsub hpsub
    rw [ho, Res.bind_ok]
    refine ⟨it.1 :: out', rfl, ?_, ?_, ?_⟩
    · simp only [List.map_append, List.map_cons] at hperm ⊢
      exact (hperm.cons it.1).trans List.perm_middle.symm
    · intro i y k hi hk
      cases i with
      | zero =>
        simp only [List.getElem?_cons_zero, Option.some.injEq] at hi hk
        subst hi hk
        simp
      | succ i =>
        simp only [List.getElem?_cons_succ] at hi hk
        have := hpt i y k hi hk
        simp only [List.mem_append, List.mem_cons] at this ⊢
        rcases this with h' | h'
        · exact .inl h'
        · exact .inr (.inr h')
    · intro i j y ki kj hij hi hj hki hkj
      cases j with
      | zero => omega
      | succ j =>
        simp only [List.getElem?_cons_succ] at hj hkj
        cases i with
        | zero =>
          simp only [List.getElem?_cons_zero, Option.some.injEq] at hi hki
          subst hi hki
          have hmem := hpt j _ kj hj hkj
          rcases List.mem_append.1 hmem with h' | h'
          · exact absurd rfl (hS1 (kj, it.2) h')
          · exact hS'.2.1 |> fun hc2 => (List.pairwise_cons.1 hc2).1 kj (List.mem_map_of_mem (f := Prod.fst) h')
        | succ i =>
          simp only [List.getElem?_cons_succ] at hi hki
          exact hst i j y ki kj (by omega) hi hj hki hkj

/-! ### `Vec::dedup` on a sorted lane -/

theorem lt_trans' {c : Cmp α} (h : c.Lawful) {a b d : α} (h1 : c.lt a b = true) (h2 : c.lt b d = true) :
    c.lt a d = true := by
  apply h.lt_of_not_le
  cases hle : c.le d a
  · rfl
  · have := h.le_trans _ _ _ hle (h.le_of_lt h1)
    rw [h.not_le_of_lt h2] at this; cases this

theorem lt_of_le_of_ne {c : Cmp α} (h : c.Lawful) {a b : α} (h1 : c.le a b = true) (h2 : a ≠ b) : c.lt a b = true := by
  apply h.lt_of_not_le
  cases hle : c.le b a
  · rfl
  · exact absurd (h.le_antisymm _ _ h1 hle) h2

theorem dedupAux_spec {c : Cmp α} (h : c.Lawful) : ∀ (l : List α) (last : α), Sorted c (last :: l) →
    (∀ y ∈ dedupAux c last l, c.lt last y = true) ∧
    (dedupAux c last l).Pairwise (fun a b => c.lt a b = true) ∧
    (∀ y, y ∈ dedupAux c last l ↔ (y ∈ l ∧ y ≠ last)) := by
  intro l
  induction l with
  | nil => intro last _; simp [dedupAux]
  | cons y l ih =>
    intro last hs
    have hs' := List.pairwise_cons.1 hs
    have hs'' := List.pairwise_cons.1 hs'.2
    unfold dedupAux
    cases hb : c.beq y last
    · -- a new value: kept
      have hne : y ≠ last := h.beq_false_iff.1 hb
      have hlt : c.lt last y = true := lt_of_le_of_ne h (hs'.1 y List.mem_cons_self) (Ne.symm hne)
      obtain ⟨i1, i2, i3⟩ := ih y hs'.2
      simp only [Bool.false_eq_true, ↓reduceIte]
      refine ⟨?_, List.pairwise_cons.2 ⟨i1, i2⟩, ?_⟩
      · intro z hz
        rcases List.mem_cons.1 hz with rfl | hz
        · exact hlt
        · exact lt_trans' h hlt (i1 z hz)
      · intro z
        simp only [List.mem_cons, i3]
        constructor
        · rintro (rfl | ⟨hz, hzy⟩)
          · exact ⟨.inl rfl, hne⟩
          · refine ⟨.inr hz, ?_⟩
            rintro rfl
            exact hzy (h.le_antisymm _ _ (hs'.1 y List.mem_cons_self) (hs''.1 z hz))
        · rintro ⟨rfl | hz, hzl⟩
          · exact .inl rfl
          · by_cases hzy : z = y
            · exact .inl hzy
            · exact .inr ⟨hz, hzy⟩
    · -- equal to the last one kept: dropped
      have he : y = last := (h.beq_iff y last).1 hb
      subst he
      have hsub : Sorted c (y :: l) := hs'.2
      obtain ⟨i1, i2, i3⟩ := ih y hsub
      simp only [↓reduceIte]
      refine ⟨i1, i2, ?_⟩
      intro z
      rw [i3]
      simp only [List.mem_cons]
      constructor
      · rintro ⟨hz, hzy⟩; exact ⟨.inr hz, hzy⟩
      · rintro ⟨rfl | hz, hzy⟩
        · exact absurd rfl hzy
        · exact ⟨hz, hzy⟩

theorem dedup_spec {c : Cmp α} (h : c.Lawful) (l : List α) (hs : Sorted c l) :
    (dedup c l).Pairwise (fun a b => c.lt a b = true) ∧ (∀ y, y ∈ dedup c l ↔ y ∈ l) := by
  match l, hs with
  | [], _ => simp [dedup]
  | x :: l, hs =>
    obtain ⟨i1, i2, i3⟩ := dedupAux_spec h l x hs
    unfold dedup
    refine ⟨List.pairwise_cons.2 ⟨i1, i2⟩, ?_⟩
    intro y
    simp only [List.mem_cons, i3]
    constructor
    · rintro (rfl | ⟨hy, _⟩)
      · exact .inl rfl
      · exact .inr hy
    · rintro (rfl | hy)
      · exact .inl rfl
      · by_cases hyx : y = x
        · exact .inl hyx
        · exact .inr ⟨hy, hyx⟩

/-! ### last / first element of a sorted lane are extreme -/

theorem sorted_last_max {c : Cmp α} (h : c.Lawful) (s : List α) (hs : Sorted c s) (m : α)
    (hm : s[s.length - 1]? = some m) : ∀ y ∈ s, c.le y m = true := by
  intro y hy
  obtain ⟨i, hi, rfl⟩ := List.getElem_of_mem hy
  have hml : s.length - 1 < s.length := by omega
  have hm' : m = s[s.length - 1] := by simpa [List.getElem?_eq_getElem hml] using hm.symm
  by_cases hil : i = s.length - 1
  · subst hm'; simp only [hil]; exact h.le_refl _
  · have := (List.pairwise_iff_getElem.1 hs) i (s.length - 1) hi hml (by omega)
    rw [hm']; exact this

theorem sorted_first_min {c : Cmp α} (h : c.Lawful) (s : List α) (hs : Sorted c s) (m : α)
    (hm : s[0]? = some m) : ∀ y ∈ s, c.le m y = true := by
  intro y hy
  match s, hs, hm, hy with
  | x :: s', hs, hm, hy =>
    simp only [List.getElem?_cons_zero, Option.some.injEq] at hm
    subst hm
    rcases List.mem_cons.1 hy with rfl | hy
    · exact h.le_refl _
    · exact (List.pairwise_cons.1 hs).1 y hy

/-- `iter().position(|item| item == m)` finds the first occurrence of a member -/
theorem findIdx_beq_spec {c : Cmp α} (h : c.Lawful) (xs : List α) (m : α) (hm : m ∈ xs) :
    ∃ p, xs.findIdx? (fun x => c.beq x m) = some p ∧ xs[p]? = some m ∧ ∀ q, q < p → xs[q]? ≠ some m := by
  cases hf : xs.findIdx? (fun x => c.beq x m) with
  | none =>
    rw [List.findIdx?_eq_none_iff] at hf
    have := hf m hm
    rw [h.beq_refl] at this; cases this
  | some p =>
    obtain ⟨hp, h1, h2⟩ := List.findIdx?_eq_some_iff_getElem.1 hf
    refine ⟨p, rfl, ?_, ?_⟩
    · rw [List.getElem?_eq_getElem hp]; exact congrArg some ((h.beq_iff _ _).1 h1)
    · intro q hq heq
      have hql : q < xs.length := by omega
      rw [List.getElem?_eq_getElem hql] at heq
      have := h2 q hq
      simp only [Option.some.injEq] at heq
      rw [heq, h.beq_refl] at this
      exact this rfl

end ArrModel.Sort
