import ArrProofs.Lemmas.C19Along
import ArrProofs.Lemmas.C08Empty
/-!
# Lemmas for C19, extension round: empty arrays / zero-length axes, never-panics, `count` for every count (flat and by
axis), canonical form of `binary_repr`.

Specification-side definitions (`orderAccepted`, `axisAccepted`, `emptyAnswer`, `countKeep`) live here: they are NOT part
of the executable model (`ArrModel/C19.lean` is unchanged); the theorems say that the model's `unpackBits` / `packBits`
compute exactly these.
-/
namespace ArrModel.C19
open ArrModel

/-! ## 1. empty arrays -/

/-- the order option is one that `to_bit_order` accepts -/
def orderAccepted : Option Spelling → Bool
  | none => true
  | some (.enum _) => true
  | some (.text s) => decide (s = ['b', 'i', 'g']) || decide (s = ['l', 'i', 't', 't', 'l', 'e'])

/-- the axis option passes `axis_in_bounds(normalize_axis(axis))` on an array of rank `ndim` -/
def axisAccepted (ndim : Nat) : Option Int → Bool
  | none => true
  | some ax => decide (normalizeAxis ndim ax < ndim)

/-- what both operations answer on an array without elements: order first, axis second, then `Array::empty()` -/
def emptyAnswer (ndim : Nat) (axis : Option Int) (ord : Option Spelling) : Res (Arr Nat) :=
  if orderAccepted ord = false then .err .ParameterError
  else if axisAccepted ndim axis = false then .err .AxisOutOfBounds
  else .ok ⟨[], [0]⟩

theorem optOrder_of_not_accepted (ord : Option Spelling) (h : orderAccepted ord = false) :
    optOrder ord = .err .ParameterError := by
  match ord, h with
  | some (.text s), h =>
    simp only [orderAccepted, Bool.or_eq_false_iff, decide_eq_false_iff_not] at h
    simp [optOrder, toBitOrder, h.1, h.2]

theorem optOrder_of_accepted (ord : Option Spelling) (h : orderAccepted ord = true) : ∃ o, optOrder ord = .ok o := by
  match ord, h with
  | none, _ => exact ⟨.big, rfl⟩
  | some (.enum o), _ => exact ⟨o, rfl⟩
  | some (.text s), h =>
    simp only [orderAccepted, Bool.or_eq_true, decide_eq_true_eq] at h
    by_cases h1 : s = ['b', 'i', 'g']
    · exact ⟨.big, by simp [optOrder, toBitOrder, h1]⟩
    · have h2 := h.resolve_left h1
      exact ⟨.little, by simp [optOrder, toBitOrder, h2]⟩

theorem orderAccepted_iff (ord : Option Spelling) : orderAccepted ord = true ↔ ∃ o, optOrder ord = .ok o := by
  constructor
  · exact optOrder_of_accepted ord
  · rintro ⟨o, ho⟩
    cases hb : orderAccepted ord with
    | true => rfl
    | false => rw [optOrder_of_not_accepted ord hb] at ho; cases ho

theorem axisCheck_eq (ndim : Nat) (axis : Option Int) :
    axisCheck ndim axis = if axisAccepted ndim axis = false then .err .AxisOutOfBounds else .ok () := by
  cases axis with
  | none => rfl
  | some ax =>
    by_cases h : normalizeAxis ndim ax < ndim
    · simp [axisCheck_ok _ _ h, axisAccepted, h]
    · simp [axisCheck_err ndim ax (Nat.le_of_not_lt h), axisAccepted, h]

/-- `normalize_axis` + `axis_in_bounds` accept exactly `-ndim ≤ axis < ndim`, for every `isize` axis and every rank below
`2^63` (outside the `isize` range the wrapping cast of the model could come back into range) -/
theorem normalizeAxis_lt_iff (ndim : Nat) (ax : Int) (hnd : ndim < 2 ^ 63) (hax : -(2 ^ 63 : Int) ≤ ax) :
    normalizeAxis ndim ax < ndim ↔ (-(Int.ofNat ndim) ≤ ax ∧ ax < Int.ofNat ndim) := by
  have h63 : (2 : Int) ^ 64 = 18446744073709551616 := by decide
  have h63' : (2 : Int) ^ 63 = 9223372036854775808 := by decide
  have h63n : (2 : Nat) ^ 63 = 9223372036854775808 := by decide
  rw [h63'] at hax; rw [h63n] at hnd
  unfold normalizeAxis
  simp only [Int.ofNat_eq_natCast]
  split
  · rename_i hneg
    rw [h63]
    by_cases hs : 0 ≤ ax + (ndim : Int)
    · rw [Int.emod_eq_of_lt hs (by omega)]
      omega
    · have : (ax + (ndim : Int)) % 18446744073709551616 = ax + (ndim : Int) + 18446744073709551616 := by
        rw [← Int.add_emod_right, Int.emod_eq_of_lt (by omega) (by omega)]
      rw [this]
      omega
  · omega

/-- **outcome on an array without elements** (any `apply_along_axis`, any count): `emptyAnswer` -/
theorem unpackBits_of_isEmpty (along : Along) (a : Arr Nat) (he : a.isEmpty = true) (axis count : Option Int)
    (ord : Option Spelling) : unpackBits along a axis count ord = emptyAnswer a.ndim axis ord := by
  unfold emptyAnswer
  cases ho : orderAccepted ord with
  | false => simp [unpackBits, optOrder_of_not_accepted ord ho]
  | true =>
    obtain ⟨o, hoo⟩ := optOrder_of_accepted ord ho
    simp only [unpackBits, hoo, axisCheck_eq, he]
    cases axisAccepted a.ndim axis <;> simp

theorem packBits_of_isEmpty (along : Along) (a : Arr Nat) (he : a.isEmpty = true) (axis : Option Int)
    (ord : Option Spelling) : packBits along a axis ord = emptyAnswer a.ndim axis ord := by
  unfold emptyAnswer
  cases ho : orderAccepted ord with
  | false => simp [packBits, optOrder_of_not_accepted ord ho]
  | true =>
    obtain ⟨o, hoo⟩ := optOrder_of_accepted ord ho
    simp only [packBits, hoo, axisCheck_eq, he]
    cases axisAccepted a.ndim axis <;> simp

theorem isEmpty_of_zero_mem (a : Arr Nat) (hwf : a.WF) (h0 : 0 ∈ a.shape) : a.isEmpty = true := by
  simp [Arr.isEmpty, elems_nil_of_zero_mem a hwf h0]

theorem zero_mem_of_prod_zero : ∀ (s : List Nat), s.prod = 0 → 0 ∈ s
  | [], h => by simp at h
  | d :: ds, h => by
    simp only [List.prod_cons, Nat.mul_eq_zero] at h
    rcases h with h | h
    · subst h; exact List.mem_cons_self
    · exact List.mem_cons_of_mem _ (zero_mem_of_prod_zero ds h)

/-- for a well-formed array "no elements" and "some axis has length 0" are the same thing -/
theorem isEmpty_iff_zero_mem (a : Arr Nat) (hwf : a.WF) : a.isEmpty = true ↔ 0 ∈ a.shape := by
  constructor
  · intro he
    have : a.elems.length = 0 := by simpa [Arr.isEmpty] using he
    exact zero_mem_of_prod_zero _ (by rw [← hwf]; exact this)
  · exact isEmpty_of_zero_mem a hwf

/-! ## never a panic -/

theorem unpackFlatArr_ne_panic (o : BitOrder) (count : Option Int) (a : Arr Nat) : unpackFlatArr o count a ≠ .panic := by
  unfold unpackFlatArr slice1
  simp only
  split
  · split <;> simp
  · split
    · simp
    · split <;> simp

theorem unpackLane_ne_panic (o : BitOrder) (count : Option Int) (lane : Arr Nat) : unpackLane o count lane ≠ .panic := by
  unfold unpackLane
  split
  · simp
  · exact unpackFlatArr_ne_panic o count lane

theorem packFlatArr_ok (o : BitOrder) (a : Arr Nat) :
    ∃ r, packFlat o a.elems = .ok r ∧ packFlatArr o a = .ok (Arr.flat r) := by
  obtain ⟨r, hr⟩ := packFlat_total o a.elems
  exact ⟨r, hr, by simp only [packFlatArr, hr, Res.bind_ok]⟩

theorem packLane_ne_panic (o : BitOrder) (lane : Arr Nat) : packLane o lane ≠ .panic := by
  unfold packLane
  split
  · simp
  · obtain ⟨r, _, hr⟩ := packFlatArr_ok o lane
    rw [hr]; simp

theorem flat_wf (l : List Nat) : (Arr.flat l).WF := by simp [Arr.WF, Arr.flat]

theorem slice1_wf (xs : List Nat) (lo hi : Nat) (u : Arr Nat) (h : slice1 xs lo hi = .ok u) : u.WF := by
  unfold slice1 at h
  split at h
  · cases h
  · cases h; exact flat_wf _

theorem unpackFlatArr_wf (o : BitOrder) (count : Option Int) (a u : Arr Nat) (h : unpackFlatArr o count a = .ok u) :
    u.WF := by
  unfold unpackFlatArr at h
  simp only at h
  split at h
  · exact slice1_wf _ _ _ _ h
  · split at h
    · cases h
    · exact slice1_wf _ _ _ _ h

/-- **`unpack_bits` on the pipeline model is total**: `Ok` with a well-formed array, or `Err` — for every well-formed
array (zero-length axes included), every axis, count and order option -/
theorem unpackBits_pipe_total (a : Arr Nat) (hwf : a.WF) (axis count : Option Int) (ord : Option Spelling) :
    (∃ u, unpackBits alongPipe a axis count ord = .ok u ∧ u.WF) ∨ (∃ e, unpackBits alongPipe a axis count ord = .err e) := by
  cases he : a.isEmpty with
  | true =>
    rw [unpackBits_of_isEmpty _ a he]
    unfold emptyAnswer
    split
    · exact Or.inr ⟨_, rfl⟩
    · split
      · exact Or.inr ⟨_, rfl⟩
      · exact Or.inl ⟨_, rfl, rfl⟩
  | false =>
    cases ho : orderAccepted ord with
    | false => exact Or.inr ⟨.ParameterError, by simp [unpackBits, optOrder_of_not_accepted ord ho]⟩
    | true =>
      obtain ⟨o, hoo⟩ := optOrder_of_accepted ord ho
      cases axis with
      | none =>
        rw [unpackBits_flat _ a count ord o hoo he]
        cases hr : unpackFlatArr o count a with
        | ok u => exact Or.inl ⟨u, rfl, unpackFlatArr_wf o count a u hr⟩
        | err e => exact Or.inr ⟨e, rfl⟩
        | panic => exact absurd hr (unpackFlatArr_ne_panic o count a)
      | some ax =>
        by_cases hk : normalizeAxis a.ndim ax < a.ndim
        · rw [unpackBits_axis _ a ax count ord o hoo hk he]
          rcases applyAlongAxis_total a 0 0 (normalizeAxis a.ndim ax) (unpackLane o count) hwf
            (unpackLane_ne_panic o count) with ⟨r, h1, h2, _⟩ | ⟨e, h1⟩
          · exact Or.inl ⟨r, h1, h2⟩
          · exact Or.inr ⟨e, h1⟩
        · exact Or.inr ⟨.AxisOutOfBounds, by simp only [unpackBits, hoo, axisCheck_err _ _ (Nat.le_of_not_lt hk)]⟩

theorem packBits_pipe_total (a : Arr Nat) (hwf : a.WF) (axis : Option Int) (ord : Option Spelling) :
    (∃ u, packBits alongPipe a axis ord = .ok u ∧ u.WF) ∨ (∃ e, packBits alongPipe a axis ord = .err e) := by
  cases he : a.isEmpty with
  | true =>
    rw [packBits_of_isEmpty _ a he]
    unfold emptyAnswer
    split
    · exact Or.inr ⟨_, rfl⟩
    · split
      · exact Or.inr ⟨_, rfl⟩
      · exact Or.inl ⟨_, rfl, rfl⟩
  | false =>
    cases ho : orderAccepted ord with
    | false => exact Or.inr ⟨.ParameterError, by simp [packBits, optOrder_of_not_accepted ord ho]⟩
    | true =>
      obtain ⟨o, hoo⟩ := optOrder_of_accepted ord ho
      cases axis with
      | none =>
        rw [packBits_flat _ a ord o hoo he]
        obtain ⟨r, _, hr⟩ := packFlatArr_ok o a
        exact Or.inl ⟨_, hr, flat_wf r⟩
      | some ax =>
        by_cases hk : normalizeAxis a.ndim ax < a.ndim
        · rw [packBits_axis _ a ax ord o hoo hk he]
          rcases applyAlongAxis_total a 0 0 (normalizeAxis a.ndim ax) (packLane o) hwf
            (packLane_ne_panic o) with ⟨r, h1, h2, _⟩ | ⟨e, h1⟩
          · exact Or.inl ⟨r, h1, h2⟩
          · exact Or.inr ⟨e, h1⟩
        · exact Or.inr ⟨.AxisOutOfBounds, by simp only [packBits, hoo, axisCheck_err _ _ (Nat.le_of_not_lt hk)]⟩

/-! ## what the lane pipeline itself would answer on a zero-length axis (the shortcut is what decides) -/

theorem set_getD_zero (s : List Nat) (k : Nat) (h : s.getD k 0 = 0) : s.set k 0 = s := by
  have := set_getD_self s k
  rw [h] at this; exact this

/-- on a well-formed array with a zero-length axis, the crate's `apply_along_axis` handed a lane function that answers the
empty 1-D array on the empty lane (both `unpackLane` and `packLane` do) would refuse with `ParameterError` when an axis
OTHER than the processed one has length 0, and give back the input array (its own shape) otherwise — neither is the
`Array::empty()` of shape `[0]` that the shortcut answers; the shortcut is reached first and decides -/
theorem alongPipe_zero_axis (a : Arr Nat) (hwf : a.WF) (k : Nat) (hk : k < a.ndim) (h0 : 0 ∈ a.shape)
    (f : Arr Nat → Res (Arr Nat)) (hf : f (Arr.flat []) = .ok ⟨[], [0]⟩) :
    alongPipe a k f = if 0 ∈ a.shape.eraseIdx k then .err .ParameterError else .ok a := by
  unfold alongPipe
  rcases zero_mem_cases a.shape k hk h0 with h | ⟨hrest, hn⟩
  · rw [if_pos h]; exact applyAlongAxis_other_zero a 0 0 k f hwf hk h
  · rw [if_neg hrest, applyAlongAxis_axis_zero a 0 0 k f hwf hk hrest hn, hf]
    simp only [Res.bind_ok, List.length_nil, or_true, if_true]
    rw [set_getD_zero _ _ hn]
    exact congrArg _ (eq_mk_nil_of_zero_mem a hwf h0).symm

theorem unpackLane_nil (o : BitOrder) (count : Option Int) : unpackLane o count (Arr.flat []) = .ok ⟨[], [0]⟩ := rfl
theorem packLane_nil (o : BitOrder) : packLane o (Arr.flat []) = .ok ⟨[], [0]⟩ := rfl

/-! ## 3. `count` -/

/-- how many of `total` bits the `count` option keeps (`none` = refused with `OutOfBounds`):
absent — all; `c ≥ 0` — the first `c`, refused when `c > total`; `c < 0` — all but the last `|c|`, refused when
`|c| > total` -/
def countKeep (total : Nat) : Option Int → Option Nat
  | none => some total
  | some c =>
    if 0 ≤ c then (if c.toNat ≤ total then some c.toNat else none)
    else (if c.natAbs ≤ total then some (total - c.natAbs) else none)

theorem unpackFlatArr_count (o : BitOrder) (count : Option Int) (a : Arr Nat) :
    unpackFlatArr o count a =
      match countKeep (8 * a.elems.length) count with
      | some m => .ok (Arr.flat ((unpackFlat o a.elems).take m))
      | none => .err .OutOfBounds := by
  cases count with
  | none =>
    simp only [countKeep]
    unfold unpackFlatArr
    simp only [Option.getD_none]
    have : (Int.ofNat a.elems.length * 8).toNat = (unpackFlat o a.elems).length := by
      rw [unpackFlat_length]; simp; omega
    rw [if_pos (by simp; omega), this, slice1_full, ← unpackFlat_length o, List.take_length]
  | some c =>
    simp only [countKeep]
    unfold unpackFlatArr
    simp only [Option.getD_some, ge_iff_le, unpackFlat_length, gt_iff_lt]
    by_cases hc : 0 ≤ c
    · rw [if_pos hc, if_pos hc]
      by_cases h : c.toNat ≤ 8 * a.elems.length
      · rw [if_pos h]; exact slice1_ok _ _ (by rw [unpackFlat_length]; exact h)
      · rw [if_neg h]; exact slice1_err _ _ (by rw [unpackFlat_length]; omega)
    · rw [if_neg hc, if_neg hc]
      by_cases h : c.natAbs ≤ 8 * a.elems.length
      · rw [if_neg (by omega), if_pos h]
        exact slice1_ok _ _ (by rw [unpackFlat_length]; omega)
      · rw [if_pos (by omega), if_neg h]

theorem countKeep_le (total : Nat) (count : Option Int) (m : Nat) (h : countKeep total count = some m) : m ≤ total := by
  cases count with
  | none => simp [countKeep] at h; omega
  | some c =>
    simp only [countKeep] at h
    split at h <;> split at h <;> simp at h <;> omega

/-- a lane function that refuses every lane with the same error makes `apply_along_axis` refuse with that error -/
theorem applyAlongAxis_all_err {α β : Type} (a : Arr α) (zero : α) (zb : β) (axis : Nat) (f : Arr α → Res (Arr β)) (e : Err)
    (hwf : a.WF) (hax : axis < a.ndim) (hnz : 0 ∉ a.shape)
    (hf : ∀ lane : List α, lane.length = a.shape.getD axis 0 → f (Arr.flat lane) = .err e) :
    a.applyAlongAxis zero zb axis f = .err e := by
  have hP : 0 < (a.shape.eraseIdx axis).prod := prod_pos_of_not_mem _ (not_mem_eraseIdx _ _ hnz)
  have hn : 0 < a.shape.getD axis 0 := getD_mem_pos _ _ hax hnz
  obtain ⟨arr, ha1, ha2, ha3, _⟩ := moveLast_spec a zero axis hwf hax
  have hL : arr.elems.length = (a.shape.eraseIdx axis).prod * a.shape.getD axis 0 := by
    rw [ha3, ha2]; simp [List.prod_append]
  have hsplit := split_flat_even arr.elems zero _ _ hP hn hL
  unfold Arr.applyAlongAxis
  rw [if_neg (by omega)]
  simp only [ha1, Res.bind_ok, Arr.ravel, hsplit]
  obtain ⟨P, hPe⟩ : ∃ P, (a.shape.eraseIdx axis).prod = P + 1 := ⟨_, (Nat.succ_pred_eq_of_pos hP).symm⟩
  rw [hPe, List.range_succ_eq_map]
  simp only [List.map_cons, Res.mapM', Res.sequence]
  rw [hf _ (by
    rw [List.length_take, List.length_drop, hL, hPe]
    simp only [Nat.zero_mul, Nat.sub_zero]
    rw [Nat.add_mul]; omega)]
  rfl

theorem unpackLane_count_flat (o : BitOrder) (count : Option Int) (l : List Nat) (hl : l ≠ []) :
    unpackLane o count (Arr.flat l) =
      match countKeep (8 * l.length) count with
      | some m => .ok (Arr.flat ((unpackFlat o l).take m))
      | none => .err .OutOfBounds := by
  have he : (Arr.flat l).isEmpty = false := by simpa [Arr.isEmpty, Arr.flat] using hl
  simp only [unpackLane, he, Bool.false_eq_true, if_false]
  exact unpackFlatArr_count o count (Arr.flat l)

/-! ## 2. `binary_repr`: canonical form -/

/-- the digit loop emits exactly as many digits as the value needs: `2^(len-1) ≤ x < 2^len` -/
theorem reprLoop_length_bounds : ∀ (fuel x : Nat), 0 < x → x < fuel →
    2 ^ ((reprLoop fuel x).length - 1) ≤ x ∧ x < 2 ^ (reprLoop fuel x).length
  | 0, _, _, h => by omega
  | fuel + 1, x, hx, hf => by
    unfold reprLoop
    by_cases h2 : x / 2 = 0
    · rw [if_pos h2]
      simp only [List.length_cons, List.length_nil]
      have : x = 1 := by omega
      subst this; decide
    · rw [if_neg h2]
      obtain ⟨ih1, ih2⟩ := reprLoop_length_bounds fuel (x / 2) (by omega) (by omega)
      simp only [List.length_cons, Nat.add_sub_cancel]
      generalize (reprLoop fuel (x / 2)).length = L at ih1 ih2
      cases L with
      | zero => simp at ih2; omega
      | succ L' =>
        simp only [Nat.add_sub_cancel] at ih1
        simp only [Nat.pow_succ] at ih2 ⊢
        omega

/-- the last digit emitted (the most significant one) is `1` for a positive value: no leading zeros -/
theorem reprLoop_getLast : ∀ (fuel x : Nat), 0 < x → x < fuel → (reprLoop fuel x).getLast? = some 1
  | 0, _, _, h => by omega
  | fuel + 1, x, hx, hf => by
    unfold reprLoop
    by_cases h2 : x / 2 = 0
    · rw [if_pos h2]
      have : x = 1 := by omega
      subst this; rfl
    · rw [if_neg h2]
      have ih := reprLoop_getLast fuel (x / 2) (by omega) (by omega)
      cases hr : reprLoop fuel (x / 2) with
      | nil => rw [hr] at ih; simp at ih
      | cons y ys => rw [hr] at ih; simpa [List.getLast?_cons_cons] using ih

theorem binaryRepr_length (n : Nat) : (binaryRepr n).length = (reprLoop (n + 1) n).length := by
  simp [binaryRepr, binaryDigits]

/-- a value that needs `L` digits and needs `w` digits: `L = w` -/
theorem pow_window_unique (u L w : Nat) (h1 : 2 ^ (L - 1) ≤ u) (h2 : u < 2 ^ L) (h3 : 2 ^ (w - 1) ≤ u) (h4 : u < 2 ^ w) :
    L = w := by
  rcases Nat.lt_trichotomy L w with h | h | h
  · have : 2 ^ L ≤ 2 ^ (w - 1) := Nat.pow_le_pow_right (by decide) (by omega)
    omega
  · exact h
  · have : 2 ^ w ≤ 2 ^ (L - 1) := Nat.pow_le_pow_right (by decide) (by omega)
    omega

/-- the bit pattern of a value of a `w`-bit signed type -/
theorem signed_pattern (w : Nat) (v : Int) (hw : 0 < w)
    (hlo : -(2 ^ (w - 1) : Int) ≤ v) (hhi : v < (2 ^ (w - 1) : Int)) :
    ∃ u : Nat, (v % (2 ^ w : Int)).toNat = u ∧ u < 2 ^ w ∧
      (0 ≤ v → (u : Int) = v ∧ u < 2 ^ (w - 1)) ∧ (v < 0 → (u : Int) = v + (2 ^ w : Int) ∧ 2 ^ (w - 1) ≤ u) := by
  obtain ⟨P, hP⟩ : ∃ P : Nat, 2 ^ (w - 1) = P := ⟨_, rfl⟩
  have hPpos : 0 < P := by rw [← hP]; exact Nat.two_pow_pos _
  have hW : 2 ^ w = 2 * P := by rw [← hP]; exact two_pow_pred w hw
  have hPi : (2 ^ (w - 1) : Int) = (P : Int) := by rw [← hP]; simp
  have hWi : (2 ^ w : Int) = 2 * (P : Int) := by
    have : ((2 ^ w : Nat) : Int) = ((2 * P : Nat) : Int) := by rw [hW]
    simpa using this
  rw [hPi] at hlo hhi
  have hmod : v % (2 ^ w : Int) = if 0 ≤ v then v else v + 2 * (P : Int) := by
    rw [hWi]
    split
    · exact Int.emod_eq_of_lt (by assumption) (by omega)
    · rw [← Int.add_emod_right, Int.emod_eq_of_lt (by omega) (by omega)]
  refine ⟨(v % (2 ^ w : Int)).toNat, rfl, ?_⟩
  have hui : (((v % (2 ^ w : Int)).toNat : Nat) : Int) = if 0 ≤ v then v else v + 2 * (P : Int) := by
    rw [← hmod]; exact Int.toNat_of_nonneg (by rw [hmod]; split <;> omega)
  generalize (v % (2 ^ w : Int)).toNat = u at hui
  rw [hW, hWi]
  split at hui <;> refine ⟨by omega, fun _ => ⟨by omega, by omega⟩, fun _ => ⟨by omega, by omega⟩⟩

/-! ### the converse: a canonical digit list is what the digit loop emits for its value -/

theorem ofDigitsLE_pos : ∀ ds : List Nat, ds.getLast? = some 1 → 0 < ofDigitsLE ds
  | [], h => by simp at h
  | [d], h => by
    simp only [List.getLast?_singleton, Option.some.injEq] at h
    subst h; decide
  | d :: e :: r, h => by
    have := ofDigitsLE_pos (e :: r) (by simpa [List.getLast?_cons_cons] using h)
    simp only [ofDigitsLE] at this ⊢
    omega

theorem reprLoop_ofDigitsLE : ∀ (ds : List Nat) (fuel : Nat), ds ≠ [] → (∀ d ∈ ds, d < 2) →
    (ds = [0] ∨ ds.getLast? = some 1) → ofDigitsLE ds < fuel → reprLoop fuel (ofDigitsLE ds) = ds
  | [], _, h, _, _, _ => absurd rfl h
  | _, 0, _, _, _, hf => by omega
  | [d], fuel + 1, _, hd, _, _ => by
    have : d < 2 := hd d (by simp)
    have hx : ofDigitsLE [d] = d := by simp [ofDigitsLE]
    rw [hx]
    unfold reprLoop
    rw [if_pos (by omega)]
    congr 1; omega
  | d :: e :: r, fuel + 1, _, hd, hc, hf => by
    have hd2 : d < 2 := hd d (by simp)
    have hlast : (e :: r).getLast? = some 1 := by
      rcases hc with h | h
      · cases h
      · simpa [List.getLast?_cons_cons] using h
    have hpos := ofDigitsLE_pos (e :: r) hlast
    have hx : ofDigitsLE (d :: e :: r) = d + 2 * ofDigitsLE (e :: r) := rfl
    rw [hx] at hf ⊢
    unfold reprLoop
    rw [if_neg (by omega)]
    have h1 : (d + 2 * ofDigitsLE (e :: r)) % 2 = d := by omega
    have h2 : (d + 2 * ofDigitsLE (e :: r)) / 2 = ofDigitsLE (e :: r) := by omega
    rw [h1, h2, reprLoop_ofDigitsLE (e :: r) fuel (by simp) (fun x hx => hd x (List.mem_cons_of_mem _ hx))
      (Or.inr hlast) (by omega)]

/-- a canonical most-significant-first digit list (non-empty, binary digits, no leading zero unless it is `[0]`) is the
digit list `binary_repr` produces for its value -/
theorem binaryDigits_ofDigitsBE (ds : List Nat) (hne : ds ≠ []) (hd : ∀ d ∈ ds, d < 2)
    (hc : ds = [0] ∨ ds.head? = some 1) : binaryDigits (ofDigitsBE ds) = ds := by
  have hv : ofDigitsBE ds = ofDigitsLE ds.reverse := by
    have := ofDigitsBE_reverse ds.reverse
    rwa [List.reverse_reverse] at this
  unfold binaryDigits
  rw [hv, reprLoop_ofDigitsLE ds.reverse _ (by simpa using hne) (fun d h => hd d (by simpa using h))
    (by
      rcases hc with h | h
      · left; rw [h]; rfl
      · right; rw [List.getLast?_reverse]; exact h)
    (by omega), List.reverse_reverse]

end ArrModel.C19
