import ArrProofs.Lemmas.C11Split
/-! C11: `append(values, Some(axis))` lays the two inputs one after the other along the axis (every rank, every axis) -/
namespace ArrModel.C11
open ArrModel Arr
variable {α : Type}

theorem lin2_lt (x y A B : Nat) (hx : x < A) (hy : y < B) : x * B + y < A * B := by
  have : (x + 1) * B ≤ A * B := Nat.mul_le_mul_right _ hx
  rw [Nat.add_mul] at this; omega

theorem lin3_eq (j x y A B : Nat) : (j * A + x) * B + y = j * (A * B) + (x * B + y) := by
  rw [Nat.add_mul, Nat.mul_assoc]; omega

theorem sectionSizes_self (n : Nat) (hn : 0 < n) : sectionSizes n n = List.replicate n 1 := by
  rw [sectionSizes_dvd n n (Nat.mod_self n), Nat.div_self hn]

theorem sum_take_replicate_one (n i : Nat) (hi : i ≤ n) : ((List.replicate n 1).take i).sum = i := by
  rw [List.take_replicate, sum_replicate, Nat.min_eq_left hi, Nat.mul_one]

theorem getD_replicate_one (n i : Nat) (h : i < n) : (List.replicate n 1).getD i 0 = 1 := by
  simp [List.getD_eq_getElem?_getD, h]

theorem mem_append_cons_iff (P Q : List Nat) (n : Nat) : 0 ∉ P ++ n :: Q ↔ (0 ∉ P ∧ n ≠ 0 ∧ 0 ∉ Q) := by
  simp only [List.mem_append, List.mem_cons, not_or]
  constructor
  · rintro ⟨h1, h2, h3⟩; exact ⟨h1, fun e => h2 e.symm, h3⟩
  · rintro ⟨h1, h2, h3⟩; exact ⟨h1, fun e => h2 e.symm, h3⟩

/-- **`split_axis` followed by flattening**: the flat buffer holds the input with the axis moved to the front -/
theorem splitAxis_flat (a : Arr α) (zero : α) (na : Nat) (P Q : List Nat) (hwf : a.WF) (hs : a.shape = P ++ na :: Q) :
    ∃ pieces, a.splitAxis zero P.length = .ok pieces ∧
      (pieces.flatMap (·.elems)).length = na * (P.prod * Q.prod) ∧
      ∀ p q i, inRange P p = true → inRange Q q = true → i < na →
        (pieces.flatMap (·.elems))[(i * P.prod + ravel P p) * Q.prod + ravel Q q]? = a.get? (p ++ i :: q) := by
  have hnd : a.ndim = P.length + Q.length + 1 := by simp [Arr.ndim, hs]; omega
  have hL : a.elems.length = na * (P.prod * Q.prod) := by
    rw [hwf, hs]; simp only [List.prod_append, List.prod_cons]
    rw [Nat.mul_left_comm]
  unfold Arr.splitAxis
  rw [if_neg (by omega)]
  by_cases he : (a.isEmpty || a.ndim == 1) = true
  · rw [if_pos he]
    refine ⟨[a], rfl, by simpa using hL, ?_⟩
    intro p q i hp hq hi
    simp only [List.flatMap_cons, List.flatMap_nil, List.append_nil, Arr.get?, hs]
    rw [ravel_mid _ _ _ _ _ _ (inRange_length _ _ hp).symm]
    rcases Bool.or_eq_true _ _ ▸ he with h | h
    · -- empty: no position on either side
      simp only [Arr.isEmpty, beq_iff_eq] at h
      rw [List.getElem?_eq_none (by omega), List.getElem?_eq_none (by omega)]
    · -- rank 1
      simp only [beq_iff_eq] at h
      have hP0 : P = [] := List.eq_nil_of_length_eq_zero (by omega)
      have hp0 : p = [] := by subst hP0; exact List.eq_nil_of_length_eq_zero (inRange_length _ _ hp)
      subst hP0 hp0
      simp [ravel]
  · rw [if_neg he]
    simp only [Bool.or_eq_true, beq_iff_eq, not_or] at he
    have hna : 0 < na := by
      rcases Nat.eq_zero_or_pos na with h | h
      · exfalso; apply he.1; simp [Arr.isEmpty, hL, h]
      · exact h
    have hnz : 0 ∉ a.shape := by
      intro hm
      apply he.1
      simp [Arr.isEmpty, show a.elems.length = a.shape.prod from hwf, prod_eq_zero_of_mem _ hm]
    have hidx : Res.idx a.shape P.length = .ok na := by simp [Res.idx, hs]
    obtain ⟨pieces, h1, h2, h3⟩ := arraySplit_cut a zero na na P Q hwf hs hnz hna
    rw [sectionSizes_self na hna] at h3
    have hm : ∀ x ∈ pieces, x.elems.length = P.prod * Q.prod := by
      intro x hx
      obtain ⟨i, hi, rfl⟩ := List.getElem_of_mem hx
      obtain ⟨g1, g2, _⟩ := h3 i hi
      rw [g2, g1, getD_replicate_one na i (by omega)]
      simp
    refine ⟨pieces, by rw [hidx, Res.bind_ok]; exact h1, ?_, ?_⟩
    · rw [length_flatMap_uniform _ _ pieces hm, h2]
    · intro p q i hp hq hi
      have hxl := ravel_lt _ _ hp
      have hyl := ravel_lt _ _ hq
      obtain ⟨g1, g2, g3⟩ := h3 i (by omega)
      have hg : (List.replicate na 1).getD i 0 = 1 := getD_replicate_one na i hi
      rw [hg] at g1 g3
      have := g3 p q 0 hp hq (by omega)
      rw [sum_take_replicate_one na i (by omega), Nat.add_zero] at this
      rw [← this, lin3_eq, getElem?_flatMap_uniform (·.elems) _ pieces i _ (by omega) hm (lin2_lt _ _ _ _ hxl hyl)]
      simp only [Arr.get?, g1]
      rw [ravel_mid _ _ _ _ _ _ (inRange_length _ _ hp).symm]
      simp

/-- the shape `append` reshapes the chained buffer to before transposing: the new axis in front, then a rearrangement
of the leading axes (same length, same product), then the trailing axes -/
theorem listSwap_tmp (P Q : List Nat) (N : Nat) :
    ∃ P', listSwap (P ++ N :: Q) 0 P.length = N :: P' ++ Q ∧ P'.length = P.length ∧ P'.prod = P.prod := by
  cases P with
  | nil => exact ⟨[], by simp [listSwap], rfl, rfl⟩
  | cons d P1 =>
    refine ⟨P1 ++ [d], ?_, by simp, by simp [Nat.mul_comm]⟩
    have h1 : (d :: P1 ++ N :: Q)[0]? = some d := rfl
    have h2 : (d :: P1 ++ N :: Q)[(d :: P1).length]? = some N := by simp
    simp only [listSwap, h1, h2]
    simp

/-- **`append` along axis `k = P.length`** of shapes `P ++ na :: Q` and `P ++ nv :: Q` -/
theorem appendAxis_cut (a v : Arr α) (zero : α) (na nv : Nat) (P Q : List Nat) (hwa : a.WF) (hwv : v.WF)
    (hsa : a.shape = P ++ na :: Q) (hsv : v.shape = P ++ nv :: Q) :
    ∃ r, a.appendAxis v zero P.length = .ok r ∧ r.shape = P ++ (na + nv) :: Q ∧ r.WF ∧
      (∀ p q j, inRange P p = true → inRange Q q = true → j < na → r.get? (p ++ j :: q) = a.get? (p ++ j :: q)) ∧
      (∀ p q j, inRange P p = true → inRange Q q = true → j < nv → r.get? (p ++ (na + j) :: q) = v.get? (p ++ j :: q)) := by
  have hnda : a.ndim = P.length + Q.length + 1 := by simp [Arr.ndim, hsa]; omega
  have hndv : v.ndim = P.length + Q.length + 1 := by simp [Arr.ndim, hsv]; omega
  obtain ⟨pa, ha1, ha2, ha3⟩ := splitAxis_flat a zero na P Q hwa hsa
  obtain ⟨pv, hv1, hv2, hv3⟩ := splitAxis_flat v zero nv P Q hwv hsv
  generalize hFa : pa.flatMap (·.elems) = Fa at *
  generalize hFv : pv.flatMap (·.elems) = Fv at *
  have hF : (pa ++ pv).flatMap (·.elems) = Fa ++ Fv := by rw [List.flatMap_append, hFa, hFv]
  have hFl : (Fa ++ Fv).length = (na + nv) * (P.prod * Q.prod) := by rw [List.length_append, ha2, hv2, Nat.add_mul]
  have hra : vecRemove a.shape P.length = .ok (P ++ Q) := by
    simp only [vecRemove, hsa, eraseIdx_mid]; rw [if_neg (by simp)]
  have hrv : vecRemove v.shape P.length = .ok (P ++ Q) := by
    simp only [vecRemove, hsv, eraseIdx_mid]; rw [if_neg (by simp)]
  have hia : Res.idx a.shape P.length = .ok na := by simp [Res.idx, hsa]
  have hiv : Res.idx v.shape P.length = .ok nv := by simp [Res.idx, hsv]
  obtain ⟨P', hsw, hP'l, hP'p⟩ := listSwap_tmp P Q (na + nv)
  -- the chained buffer under the temporary shape
  let t : Arr α := ⟨Fa ++ Fv, (na + nv) :: P' ++ Q⟩
  have htwf : t.WF := by
    show (Fa ++ Fv).length = ((na + nv) :: P' ++ Q).prod
    rw [hFl]; simp [List.prod_append, hP'p]
  have htnd : t.ndim = a.ndim := by
    show ((na + nv) :: P' ++ Q).length = a.ndim
    rw [hnda]; simp [hP'l]
  obtain ⟨r, hr1, hr2, hr3, hr4⟩ := frontTo_spec t zero (na + nv) P' Q htwf rfl
  rw [htnd, hP'l] at hr1
  have hrl : r.elems.length = (na + nv) * (P.prod * Q.prod) := by
    rw [hr3, hr2]; simp only [List.prod_append, List.prod_cons, hP'p]
    rw [Nat.mul_left_comm]
  -- coordinates of the final result, through the flat position
  have hget : ∀ p q j, inRange P p = true → inRange Q q = true → j < na + nv →
      r.elems[ravel (P ++ (na + nv) :: Q) (p ++ j :: q)]? = (Fa ++ Fv)[(j * P.prod + ravel P p) * Q.prod + ravel Q q]? := by
    intro p q j hp hq hj
    have hx : ravel P p < P'.prod := by rw [hP'p]; exact ravel_lt _ _ hp
    obtain ⟨e1, e2⟩ := ravel_unravel P' _ hx
    have := hr4 (unravel P' (ravel P p)) q j e2 hq hj
    simp only [Arr.get?, hr2, t] at this
    rw [ravel_mid _ _ _ _ _ _ (inRange_length _ _ e2).symm, e1] at this
    rw [show ((na + nv) :: P' ++ Q) = (na + nv) :: (P' ++ Q) from rfl,
      show (j :: unravel P' (ravel P p) ++ q) = j :: (unravel P' (ravel P p) ++ q) from rfl] at this
    simp only [ravel] at this
    rw [ravel_append _ _ _ _ (inRange_length _ _ e2).symm, e1, List.prod_append, hP'p] at this
    rw [ravel_mid _ _ _ _ _ _ (inRange_length _ _ hp).symm, this]
    congr 1
    rw [Nat.add_mul, Nat.mul_assoc]; omega
  refine ⟨⟨r.elems, P ++ (na + nv) :: Q⟩, ?_, rfl, ?_, ?_, ?_⟩
  · unfold Arr.appendAxis
    rw [if_neg (by omega), if_neg (by omega)]
    simp only [hra, hrv, Res.bind_ok, ne_eq, not_true_eq_false, if_false, ha1, hv1, hia, hiv, hF]
    simp only [Arr.flat, hsa, set_mid, hsw]
    have hre : Arr.reshape (⟨Fa ++ Fv, [(Fa ++ Fv).length]⟩ : Arr α) ((na + nv) :: P' ++ Q) = .ok t := by
      simp only [Arr.reshape, Arr.new]
      rw [if_pos (by rw [hFl]; simp [List.prod_append, hP'p])]
    rw [hre, Res.bind_ok, hr1, Res.bind_ok]
    simp only [Arr.reshape, Arr.new]
    rw [if_pos (by rw [hrl]; simp only [List.prod_append, List.prod_cons]; rw [Nat.mul_left_comm])]
  · show r.elems.length = (P ++ (na + nv) :: Q).prod
    rw [hrl]; simp only [List.prod_append, List.prod_cons]; rw [Nat.mul_left_comm]
  · intro p q j hp hq hj
    show r.elems[ravel (P ++ (na + nv) :: Q) (p ++ j :: q)]? = _
    rw [hget p q j hp hq (by omega), ← ha3 p q j hp hq hj]
    apply List.getElem?_append_left
    rw [ha2, lin3_eq]
    have := lin2_lt _ _ _ _ (ravel_lt _ _ hp) (ravel_lt _ _ hq)
    have h2 : (j + 1) * (P.prod * Q.prod) ≤ na * (P.prod * Q.prod) := Nat.mul_le_mul_right _ hj
    rw [Nat.add_mul] at h2; omega
  · intro p q j hp hq hj
    show r.elems[ravel (P ++ (na + nv) :: Q) (p ++ (na + j) :: q)]? = _
    rw [hget p q (na + j) hp hq (by omega), ← hv3 p q j hp hq hj]
    rw [List.getElem?_append_right (by rw [ha2, lin3_eq, Nat.add_mul]; omega)]
    congr 1
    rw [ha2, lin3_eq, lin3_eq, Nat.add_mul]; omega

end ArrModel.C11
