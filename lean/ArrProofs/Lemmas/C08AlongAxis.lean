import ArrProofs.Lemmas.C08List
import ArrProofs.Props.C06
/-!
# the central lemma about `apply_along_axis` (C08; reused by C10 / C13 / C19)

`applyAlongAxis_spec`: on a well-formed array without zero-length axes, for a lane function `f` that succeeds on every
lane with an output of `m` elements, `a.applyAlongAxis zero zb axis f` succeeds, the result has shape
`a.shape.set axis m`, is well formed, and its element at coordinate `c` is element number `c[axis]` of `f` applied to the
lane of `a` through `c` (`laneOf a axis c`, the elements at `c.set axis 0, c.set axis 1, …`).
-/
namespace ArrModel
open Arr
variable {α β : Type}

theorem axesOf_ofNat (nd : Nat) (l : List Nat) : axesOf nd (some (l.map Int.ofNat)) = l := by
  simp only [axesOf, map_normalizeAxis_ofNat]

/-- `transpose_spec` for an explicit natural-number axis order -/
theorem transpose_nat_spec (a : Arr α) (zero : α) (ax : List Nat) (hwf : a.WF) (hperm : ax.Perm (List.range a.ndim)) :
    ∃ r, a.transpose zero (some (ax.map Int.ofNat)) = .ok r ∧ r.shape = permute ax a.shape ∧ r.WF ∧
      ∀ c, inRange a.shape c = true → r.get? (permute ax c) = a.get? c := by
  have := C06.transpose_spec a zero (some (ax.map Int.ofNat)) hwf (by rw [axesOf_ofNat]; exact hperm)
  rwa [axesOf_ofNat] at this

/-! ### stage 1: move the axis last -/

theorem moveLast_spec (a : Arr α) (zero : α) (axis : Nat) (hwf : a.WF) (hax : axis < a.ndim) :
    ∃ arr, a.moveaxis zero [Int.ofNat axis] [Int.ofNat a.ndim] = .ok arr ∧
      arr.shape = a.shape.eraseIdx axis ++ [a.shape.getD axis 0] ∧ arr.WF ∧
      ∀ c, inRange a.shape c = true → arr.get? (c.eraseIdx axis ++ [c.getD axis 0]) = a.get? c := by
  have hm : a.moveaxis zero [Int.ofNat axis] [Int.ofNat a.ndim] =
      a.transpose zero (some (((List.range a.ndim).eraseIdx axis ++ [axis]).map Int.ofNat)) := by
    rw [C06.moveaxis_eq_transpose a zero _ _ (by simp) (by simp) (by simp) (by simp)]
    simp only [List.map_cons, List.map_nil, normalizeAxis_ofNat, moveaxisOrder_last _ _ hax]
  obtain ⟨r, h1, h2, h3, h4⟩ := transpose_nat_spec a zero ((List.range a.ndim).eraseIdx axis ++ [axis]) hwf (moveLast_perm a.ndim axis hax)
  refine ⟨r, hm.trans h1, ?_, h3, ?_⟩
  · rw [h2, permute_moveLast a.shape a.ndim axis rfl]
  · intro c hc
    have := h4 c hc
    rwa [permute_moveLast c a.ndim axis (inRange_length _ _ hc)] at this

/-! ### stage 4: move the last axis back to `axis` (both arms of the code) -/

theorem moveBack_spec (p : Arr β) (zb : β) (s' : List Nat) (m axis : Nat) (hwf : p.WF) (hs : p.shape = s' ++ [m])
    (hax : axis ≤ s'.length) :
    ∃ r, (if axis = 0 then p.rollaxis zb (Int.ofNat s'.length) none
          else p.moveaxis zb [Int.ofNat s'.length] [Int.ofNat axis]) = .ok r ∧
      r.shape = s'.insertIdx axis m ∧ r.WF ∧
      ∀ c' j, inRange s' c' = true → j < m → r.get? (c'.insertIdx axis j) = p.get? (c' ++ [j]) := by
  have hnd : p.ndim = s'.length + 1 := by simp [Arr.ndim, hs]
  have hm : (if axis = 0 then p.rollaxis zb (Int.ofNat s'.length) none
          else p.moveaxis zb [Int.ofNat s'.length] [Int.ofNat axis]) =
      p.transpose zb (some (((List.range s'.length).insertIdx axis s'.length).map Int.ofNat)) := by
    split
    · rename_i h0
      rw [C06.rollaxis_eq_transpose p zb _ none (by rw [normalizeAxis_ofNat]; omega) (by simp [startOf, hnd])]
      simp only [normalizeAxis_ofNat, startOf, hnd, rollaxisOrder_back, h0]
    · rw [C06.moveaxis_eq_transpose p zb _ _ (by simp) (by simp) (by simp) (by simp)]
      simp only [List.map_cons, List.map_nil, normalizeAxis_ofNat, hnd, moveaxisOrder_back _ _ hax]
  obtain ⟨r, h1, h2, h3, h4⟩ := transpose_nat_spec p zb ((List.range s'.length).insertIdx axis s'.length) hwf
    (by rw [hnd]; exact moveBack_perm s'.length axis hax)
  refine ⟨r, hm.trans h1, ?_, h3, ?_⟩
  · rw [h2, hs, permute_moveBack s' m s'.length axis rfl]
  · intro c' j hc hj
    have hl := inRange_length _ _ hc
    have hin : inRange p.shape (c' ++ [j]) = true := by
      rw [hs, inRange_append_singleton _ _ _ _ hl.symm]; simp [hc, hj]
    have := h4 _ hin
    rwa [permute_moveBack c' j s'.length axis hl] at this

/-! ### stage 2: ravel and cut into lanes -/

theorem flat_WF (L : List α) : (Arr.flat L).WF := by simp [Arr.WF, Arr.flat]

theorem rollaxis_flat_id (L : List α) (zero : α) : (Arr.flat L).rollaxis zero (Int.ofNat 0) none = .ok (Arr.flat L) := by
  have hnd : (Arr.flat L).ndim = 1 := rfl
  rw [C06.rollaxis_eq_transpose _ zero _ none (by rw [normalizeAxis_ofNat, hnd]; omega) (by simp [startOf, hnd])]
  have ho : rollaxisOrder (Arr.flat L).ndim (normalizeAxis (Arr.flat L).ndim (Int.ofNat 0)) (startOf (Arr.flat L).ndim none) = [0] := by
    rw [normalizeAxis_ofNat, hnd]; decide
  rw [ho]
  obtain ⟨r, h1, h2, h3, h4⟩ := transpose_nat_spec (Arr.flat L) zero [0] (flat_WF L) (by rw [hnd]; decide)
  rw [h1]
  congr 1
  have hs : r.shape = (Arr.flat L).shape := by rw [h2]; simp [permute, Arr.flat]
  apply Arr.ext_get r _ h3 (flat_WF L) hs
  intro c hc
  rw [hs] at hc
  have hl : c.length = 1 := inRange_length _ _ hc
  have := h4 c hc
  have hp : permute [0] c = c := by
    match c, hl with
    | [x], _ => simp [permute]
  rwa [hp] at this


/-- `ravel().split(parts, None)` on a buffer of `P * n` elements: the `P` consecutive chunks of width `n` -/
theorem split_flat_even (L : List α) (zero : α) (P n : Nat) (hP : 0 < P) (hn : 0 < n) (hL : L.length = P * n) :
    (Arr.flat L).split zero P none = .ok ((List.range P).map (fun k => Arr.flat ((L.drop (k * n)).take n))) := by
  have hpos : 0 < P * n := Nat.mul_pos hP hn
  have hne : (Arr.flat L).isEmpty = false := by simp [Arr.isEmpty, Arr.flat, hL]; omega
  have hidx : Res.idx (Arr.flat L).shape 0 = .ok (P * n) := by simp [Res.idx, Arr.flat, hL]
  have hlen : (Arr.flat L).len = P * n := by simp [Arr.len, Arr.flat, hL]
  have hnd : (Arr.flat L).ndim = 1 := rfl
  unfold Arr.split
  simp only [hne, Option.getD_none, hidx, Res.bind_ok, Nat.mul_mod_right, if_true]
  rw [if_neg (by simp [hnd]), if_neg (by omega)]
  simp only [Bool.false_eq_true, if_false]
  unfold Arr.arraySplit
  rw [if_neg (by omega), if_neg (by simp [hnd])]
  simp only [hne, hidx, Res.bind_ok, Bool.false_eq_true, if_false, hlen, Nat.div_self hpos, Option.getD_none,
    rollaxis_flat_id, sectionSizes_even P n hP, windows2_divPoints_even, hnd, if_true, Nat.mul_one]
  unfold Res.mapM'
  rw [List.map_map, ← sequence_map_ok]
  congr 1
  apply List.map_congr_left
  intro k _
  simp only [Function.comp, Arr.flat]
  rw [show (k + 1) * n - k * n = n by rw [Nat.add_mul]; omega]

/-! ### lanes -/

/-- the lane of `a` along `axis` through coordinate `c`: the elements at `c` with coordinate `axis` replaced by
`0, 1, …, a.shape[axis] - 1` (the value of `c[axis]` itself is irrelevant) -/
def laneOf (a : Arr α) (axis : Nat) (c : List Nat) : List α :=
  (List.range (a.shape.getD axis 0)).filterMap (fun j => a.get? (c.set axis j))

theorem inRange_set_axis (s c : List Nat) (axis m j : Nat) (h : inRange (s.set axis m) c = true) (hj : j < s.getD axis 0) :
    inRange s (c.set axis j) = true := by
  have := inRange_set (s.set axis m) c axis (s.getD axis 0) j h hj
  rwa [List.set_set, set_getD_self] at this

theorem get?_isSome_of_inRange (a : Arr α) (hwf : a.WF) (c : List Nat) (h : inRange a.shape c = true) : (a.get? c).isSome = true := by
  have := ravel_lt _ _ h
  rw [← hwf] at this
  simp [Arr.get?, this]

/-- a lane has as many elements as the axis is long -/
theorem laneOf_length (a : Arr α) (axis m : Nat) (c : List Nat) (hwf : a.WF) (hc : inRange (a.shape.set axis m) c = true) :
    (laneOf a axis c).length = a.shape.getD axis 0 := by
  unfold laneOf
  rw [length_filterMap_of_isSome, List.length_range]
  intro j hj
  exact get?_isSome_of_inRange a hwf _ (inRange_set_axis _ _ _ _ _ hc (by simpa using hj))

theorem laneOf_set (a : Arr α) (axis : Nat) (c : List Nat) (j : Nat) : laneOf a axis (c.set axis j) = laneOf a axis c := by
  unfold laneOf
  simp only [List.set_set]

theorem getD_set_self (c : List Nat) (i j : Nat) (h : i < c.length) : (c.set i j).getD i 0 = j := by
  simp [List.getD_eq_getElem?_getD, h]

/-- after the axis has been moved last, chunk number `ravel rest (c without axis)` of the buffer is the lane through `c` -/
theorem chunk_eq_lane (a arr : Arr α) (axis m : Nat) (c : List Nat) (hax : axis < a.ndim)
    (hs : arr.shape = a.shape.eraseIdx axis ++ [a.shape.getD axis 0])
    (hget : ∀ c, inRange a.shape c = true → arr.get? (c.eraseIdx axis ++ [c.getD axis 0]) = a.get? c)
    (hc : inRange (a.shape.set axis m) c = true) :
    (arr.elems.drop (ravel (a.shape.eraseIdx axis) (c.eraseIdx axis) * a.shape.getD axis 0)).take (a.shape.getD axis 0)
      = laneOf a axis c := by
  rw [chunk_eq_filterMap]
  unfold laneOf
  apply List.filterMap_congr
  intro j hj
  have hj' : j < a.shape.getD axis 0 := by simpa using hj
  have hin := inRange_set_axis _ _ _ _ _ hc hj'
  have hcl : c.length = a.ndim := by have := inRange_length _ _ hc; simpa [Arr.ndim] using this
  have := hget _ hin
  rw [List.eraseIdx_set_eq, getD_set_self c axis j (by omega)] at this
  rw [← this, Arr.get?, hs, ravel_append_singleton]
  simp [List.length_eraseIdx, hcl, Arr.ndim]


theorem set_append_singleton (l : List Nat) (x y k : Nat) (h : k = l.length) : (l ++ [x]).set k y = l ++ [y] := by
  subst h; simp

theorem getD_mem_pos (s : List Nat) (i : Nat) (h : i < s.length) (hnz : 0 ∉ s) : 0 < s.getD i 0 := by
  have : s.getD i 0 = s[i] := by simp [List.getD_eq_getElem?_getD, h]
  rw [this]
  exact Nat.pos_of_ne_zero (fun e => hnz (e ▸ List.getElem_mem h))

/-- stage 3: flatten the `P` lane results (each of `m` elements) and reshape to `rest ++ [m]` -/
theorem flatten_reshape_spec (outs : List (Arr β)) (rest : List Nat) (m : Nat)
    (hlen : outs.length = rest.prod) (hm : ∀ x ∈ outs, x.elems.length = m) :
    ∃ p, (Arr.flat (outs.flatMap (·.elems))).reshape (rest ++ [m]) = .ok p ∧ p.shape = rest ++ [m] ∧ p.WF ∧
      ∀ c' j, inRange rest c' = true → j < m →
        ∃ (h : ravel rest c' < outs.length), p.get? (c' ++ [j]) = (outs[ravel rest c']).elems[j]? := by
  have hl : (outs.flatMap (·.elems)).length = rest.prod * m := by
    rw [length_flatMap_uniform _ m outs hm, hlen]
  refine ⟨⟨outs.flatMap (·.elems), rest ++ [m]⟩, ?_, rfl, ?_, ?_⟩
  · simp [Arr.reshape, Arr.new, Arr.flat, hl]
  · simp [Arr.WF, hl]
  · intro c' j hc hj
    have hk : ravel rest c' < outs.length := by rw [hlen]; exact ravel_lt _ _ hc
    refine ⟨hk, ?_⟩
    simp only [Arr.get?]
    rw [ravel_append_singleton _ _ _ _ (inRange_length _ _ hc).symm]
    exact getElem?_flatMap_uniform (·.elems) m outs _ j hk hm hj


/-- **the central lemma**: `apply_along_axis` applies `f` to every lane and writes the `m` outputs back along the axis -/
theorem applyAlongAxis_spec (a : Arr α) (zero : α) (zb : β) (axis m : Nat) (f : Arr α → Res (Arr β))
    (hwf : a.WF) (hax : axis < a.ndim) (hnz : 0 ∉ a.shape)
    (hf : ∀ lane : List α, lane.length = a.shape.getD axis 0 → ∃ r, f (Arr.flat lane) = .ok r ∧ r.elems.length = m) :
    ∃ r, a.applyAlongAxis zero zb axis f = .ok r ∧ r.shape = a.shape.set axis m ∧ r.WF ∧
      ∀ c, inRange r.shape c = true →
        ∃ y, f (Arr.flat (laneOf a axis c)) = .ok y ∧ r.get? c = y.elems[c.getD axis 0]? := by
  have hax' : axis < a.shape.length := hax
  have hP : 0 < (a.shape.eraseIdx axis).prod := prod_pos_of_not_mem _ (not_mem_eraseIdx _ _ hnz)
  have hn : 0 < a.shape.getD axis 0 := getD_mem_pos _ _ hax hnz
  have hrl : a.ndim - 1 = (a.shape.eraseIdx axis).length := by simp [List.length_eraseIdx, hax', Arr.ndim]
  -- stage 1
  obtain ⟨arr, ha1, ha2, ha3, ha4⟩ := moveLast_spec a zero axis hwf hax
  have hL : arr.elems.length = (a.shape.eraseIdx axis).prod * a.shape.getD axis 0 := by
    rw [ha3, ha2]; simp [List.prod_append]
  -- stage 2
  have hsplit := split_flat_even arr.elems zero _ _ hP hn hL
  -- stage 3
  have hchunk : ∀ k, k < (a.shape.eraseIdx axis).prod →
      ((arr.elems.drop (k * a.shape.getD axis 0)).take (a.shape.getD axis 0)).length = a.shape.getD axis 0 := by
    intro k hk
    rw [List.length_take, List.length_drop, hL]
    have : (k + 1) * a.shape.getD axis 0 ≤ (a.shape.eraseIdx axis).prod * a.shape.getD axis 0 := Nat.mul_le_mul_right _ hk
    rw [Nat.add_mul] at this
    omega
  obtain ⟨outs, ho1, ho2, ho3⟩ := mapM'_exists f
    ((List.range (a.shape.eraseIdx axis).prod).map (fun k => Arr.flat ((arr.elems.drop (k * a.shape.getD axis 0)).take (a.shape.getD axis 0))))
    (by
      intro x hx
      simp only [List.mem_map, List.mem_range] at hx
      obtain ⟨k, hk, rfl⟩ := hx
      obtain ⟨r, hr, _⟩ := hf _ (hchunk k hk)
      exact ⟨r, hr⟩)
  simp only [List.length_map, List.length_range] at ho2 ho3
  have hom : ∀ x ∈ outs, x.elems.length = m := by
    intro x hx
    obtain ⟨i, hi, rfl⟩ := List.getElem_of_mem hx
    have h1 := ho3 i (by omega) hi
    simp only [List.getElem_map, List.getElem_range] at h1
    obtain ⟨r, hr, hrm⟩ := hf _ (hchunk i (by omega))
    rw [hr] at h1
    cases h1; exact hrm
  have h0 : 0 < outs.length := by omega
  have hidx : Res.idx outs 0 = .ok outs[0] := by simp [Res.idx, h0]
  have hp0 : outs[0].len = m := hom _ (List.getElem_mem h0)
  obtain ⟨p, hp1, hp2, hp3, hp4⟩ := flatten_reshape_spec outs (a.shape.eraseIdx axis) m ho2 hom
  -- stage 4
  obtain ⟨r, hr1, hr2, hr3, hr4⟩ := moveBack_spec p zb (a.shape.eraseIdx axis) m axis hp3 hp2 (by omega)
  refine ⟨r, ?_, ?_, hr3, ?_⟩
  · unfold Arr.applyAlongAxis
    rw [if_neg (by omega)]
    simp only [ha1, Res.bind_ok, Arr.ravel, hsplit, ho1, hidx, hp0, ha2]
    rw [set_append_singleton _ _ _ _ hrl, hp1, hrl]
    exact hr1
  · rw [hr2, insertIdx_eraseIdx_self _ _ _ hax']
  · intro c hc
    rw [hr2, insertIdx_eraseIdx_self _ _ _ hax'] at hc
    have hcl : c.length = a.shape.length := by have := inRange_length _ _ hc; simpa using this
    have hc' : inRange (a.shape.eraseIdx axis) (c.eraseIdx axis) = true := by
      have := inRange_eraseIdx _ _ axis hc
      rwa [List.eraseIdx_set_eq] at this
    have hj : c.getD axis 0 < m := by
      have := inRange_getD_lt _ _ axis hc (by simpa using hax')
      rwa [getD_set_self _ _ _ hax'] at this
    have h4 := hr4 _ _ hc' hj
    rw [insertIdx_eraseIdx_getD c axis (by omega)] at h4
    obtain ⟨hk, h5⟩ := hp4 _ _ hc' hj
    have h6 := ho3 _ (by omega) hk
    simp only [List.getElem_map, List.getElem_range] at h6
    rw [chunk_eq_lane a arr axis m c hax ha2 ha4 hc] at h6
    exact ⟨_, h6, h4.trans h5⟩


theorem getElem?_filterMap_of_isSome (f : α → Option β) : ∀ (l : List α) (i : Nat), (∀ x ∈ l, (f x).isSome = true) →
    (l.filterMap f)[i]? = l[i]?.bind f
  | [], _, _ => by simp
  | x :: xs, i, h => by
    obtain ⟨y, hy⟩ := Option.isSome_iff_exists.1 (h x List.mem_cons_self)
    rw [List.filterMap_cons_some hy]
    cases i with
    | zero => simp [hy]
    | succ i => simpa using getElem?_filterMap_of_isSome f xs i (fun z hz => h z (List.mem_cons_of_mem _ hz))

/-- element `j` of the lane through `c` is the element of `a` at `c` with coordinate `axis` set to `j` -/
theorem laneOf_getElem? (a : Arr α) (axis m : Nat) (c : List Nat) (hwf : a.WF) (hc : inRange (a.shape.set axis m) c = true)
    (j : Nat) (hj : j < a.shape.getD axis 0) : (laneOf a axis c)[j]? = a.get? (c.set axis j) := by
  unfold laneOf
  rw [getElem?_filterMap_of_isSome]
  · rw [List.getElem?_range hj]; rfl
  · intro k hk
    exact get?_isSome_of_inRange a hwf _ (inRange_set_axis _ _ _ _ _ hc (by simpa using hk))

/-- an axis outside the rank is refused -/
theorem applyAlongAxis_axis_err (a : Arr α) (zero : α) (zb : β) (axis : Nat) (f : Arr α → Res (Arr β)) (h : a.ndim ≤ axis) :
    a.applyAlongAxis zero zb axis f = .err .AxisOutOfBounds := by
  unfold Arr.applyAlongAxis
  rw [if_pos h]

end ArrModel
