import ArrProofs.Lemmas.AxisInv
import ArrModel.AlongAxis
/-! list / coordinate lemmas for C08 (`apply_along_axis`): erase / insert / set of one axis, lanes, chunks -/
namespace ArrModel
variable {α β : Type}

/-! ### map through eraseIdx / insertIdx -/

theorem map_eraseIdx' (f : α → β) : ∀ (l : List α) (i : Nat), (l.eraseIdx i).map f = (l.map f).eraseIdx i
  | [], _ => by simp
  | _ :: _, 0 => by simp
  | x :: xs, i + 1 => by simp [map_eraseIdx' f xs i]

theorem map_insertIdx' (f : α → β) (x : α) : ∀ (l : List α) (i : Nat), (l.insertIdx i x).map f = (l.map f).insertIdx i (f x)
  | [], 0 => by simp
  | [], i + 1 => by simp
  | _ :: _, 0 => by simp
  | y :: ys, i + 1 => by simp [List.insertIdx_succ_cons, map_insertIdx' f x ys i]

theorem map_getD_range' (c : List Nat) (n : Nat) (h : c.length = n) : (List.range n).map (fun i => c.getD i 0) = c := by
  subst h; exact map_getD_range c

/-- moving axis `i` last, on a coordinate vector -/
theorem permute_moveLast (c : List Nat) (n i : Nat) (h : c.length = n) :
    permute ((List.range n).eraseIdx i ++ [i]) c = c.eraseIdx i ++ [c.getD i 0] := by
  simp only [permute, List.map_append, map_eraseIdx', map_getD_range' c n h, List.map_cons, List.map_nil]

/-- moving the last axis to position `i`, on a coordinate vector -/
theorem permute_moveBack (c : List Nat) (j k i : Nat) (h : c.length = k) :
    permute ((List.range k).insertIdx i k) (c ++ [j]) = c.insertIdx i j := by
  simp only [permute, map_insertIdx']
  have h1 : (List.range k).map (fun ax => (c ++ [j]).getD ax 0) = c := by
    conv => rhs; rw [← map_getD_range' c k h]
    apply List.map_congr_left
    intro x hx
    simp only [List.mem_range] at hx
    simp [List.getD_eq_getElem?_getD, List.getElem?_append_left (by omega : x < c.length)]
  have h2 : (c ++ [j]).getD k 0 = j := by
    simp [List.getD_eq_getElem?_getD, ← h]
  rw [h1, h2]

theorem moveLast_perm (n i : Nat) (hi : i < n) : ((List.range n).eraseIdx i ++ [i]).Perm (List.range n) := by
  have e : List.range n = (List.range n).take i ++ i :: (List.range n).drop (i + 1) := by
    conv => lhs; rw [← List.take_append_drop i (List.range n)]
    rw [List.drop_eq_getElem_cons (by simpa using hi)]; simp
  rw [List.eraseIdx_eq_take_drop_succ]
  conv => rhs; rw [e]
  refine (List.perm_append_singleton _ _).trans ?_
  exact List.perm_middle.symm

theorem moveBack_perm (k i : Nat) (hi : i ≤ k) : ((List.range k).insertIdx i k).Perm (List.range (k + 1)) := by
  refine (List.perm_insertIdx k (List.range k) (by simpa using hi)).trans ?_
  rw [List.range_succ]
  exact (List.perm_append_singleton _ _).symm

/-! ### the axis orders `moveaxis` / `rollaxis` build inside `apply_along_axis` -/

theorem filter_ne_range' : ∀ (k s i : Nat), (List.range' s k).filter (fun f => !([s + i].contains f)) = (List.range' s k).eraseIdx i
  | 0, _, _ => by simp
  | k + 1, s, 0 => by
    simp only [List.range'_succ, Nat.add_zero, List.eraseIdx_cons_zero]
    rw [List.filter_cons_of_neg (by simp)]
    rw [List.filter_eq_self]
    intro a ha
    have := (List.mem_range'_1.1 ha).1
    simp; omega
  | k + 1, s, i + 1 => by
    simp only [List.range'_succ, List.eraseIdx_cons_succ]
    rw [List.filter_cons_of_pos (by simp)]
    have := filter_ne_range' k (s + 1) i
    rw [show s + 1 + i = s + (i + 1) by omega] at this
    rw [this]

theorem filter_ne_range (n i : Nat) : (List.range n).filter (fun f => !([i].contains f)) = (List.range n).eraseIdx i := by
  have := filter_ne_range' n 0 i
  simpa [List.range_eq_range'] using this

theorem moveaxisOrder_single (nd s d : Nat) :
    Arr.moveaxisOrder nd [s] [d] = ((List.range nd).eraseIdx s).insertIdx (min d ((List.range nd).eraseIdx s).length) s := by
  simp only [Arr.moveaxisOrder, List.zip_cons_cons, List.zip_nil_right, List.mergeSort_singleton, List.foldl_cons, List.foldl_nil,
    filter_ne_range]

theorem eraseIdx_range_last (k : Nat) : (List.range (k + 1)).eraseIdx k = List.range k := by
  rw [List.range_succ, List.eraseIdx_append_of_length_le (by simp)]
  simp

/-- forward move of `apply_along_axis`: `moveaxis([axis], [ndim])` -/
theorem moveaxisOrder_last (nd axis : Nat) (h : axis < nd) :
    Arr.moveaxisOrder nd [axis] [nd] = (List.range nd).eraseIdx axis ++ [axis] := by
  rw [moveaxisOrder_single]
  have : ((List.range nd).eraseIdx axis).length = nd - 1 := by simp [List.length_eraseIdx, h]
  rw [show min nd ((List.range nd).eraseIdx axis).length = ((List.range nd).eraseIdx axis).length by omega]
  exact List.insertIdx_length_self

/-- backward move of `apply_along_axis`, `axis ≠ 0` arm: `moveaxis([ndim-1], [axis])` -/
theorem moveaxisOrder_back (k axis : Nat) (h : axis ≤ k) :
    Arr.moveaxisOrder (k + 1) [k] [axis] = (List.range k).insertIdx axis k := by
  rw [moveaxisOrder_single, eraseIdx_range_last]
  simp [Nat.min_eq_left h]

/-- backward move, `axis = 0` arm: `rollaxis(ndim-1, None)` -/
theorem rollaxisOrder_back (k : Nat) : Arr.rollaxisOrder (k + 1) k 0 = (List.range k).insertIdx 0 k := by
  simp only [Arr.rollaxisOrder, eraseIdx_range_last]


/-! ### ravel / inRange through append, erase, insert, set -/

theorem ravel_append_singleton : ∀ (s c : List Nat) (n j : Nat), s.length = c.length →
    ravel (s ++ [n]) (c ++ [j]) = ravel s c * n + j
  | [], [], n, j, _ => by simp [ravel]
  | d :: ds, x :: xs, n, j, h => by
    simp only [List.cons_append, ravel, List.prod_append, List.prod_cons, List.prod_nil, Nat.mul_one]
    rw [ravel_append_singleton ds xs n j (by simpa using h), Nat.add_mul, Nat.mul_assoc]; omega
  | [], _ :: _, _, _, h => by simp at h
  | _ :: _, [], _, _, h => by simp at h

theorem inRange_append_singleton : ∀ (s c : List Nat) (n j : Nat), s.length = c.length →
    inRange (s ++ [n]) (c ++ [j]) = (inRange s c && decide (j < n))
  | [], [], n, j, _ => by simp [inRange]
  | d :: ds, x :: xs, n, j, h => by
    simp only [List.cons_append, inRange, inRange_append_singleton ds xs n j (by simpa using h), Bool.and_assoc]
  | [], _ :: _, _, _, h => by simp at h
  | _ :: _, [], _, _, h => by simp at h

theorem inRange_eraseIdx : ∀ (s c : List Nat) (i : Nat), inRange s c = true → inRange (s.eraseIdx i) (c.eraseIdx i) = true
  | [], [], _, _ => by simp [inRange]
  | d :: ds, x :: xs, 0, h => by simp [inRange] at h; simpa using h.2
  | d :: ds, x :: xs, i + 1, h => by
    simp [inRange] at h
    simp [inRange, h.1, inRange_eraseIdx ds xs i h.2]
  | [], _ :: _, _, h => by simp [inRange] at h
  | _ :: _, [], _, h => by simp [inRange] at h

theorem inRange_insertIdx : ∀ (s c : List Nat) (i m j : Nat), inRange s c = true → j < m →
    inRange (s.insertIdx i m) (c.insertIdx i j) = true
  | [], [], 0, m, j, _, hj => by simp [inRange, hj]
  | [], [], i + 1, m, j, _, hj => by simp [inRange]
  | d :: ds, x :: xs, 0, m, j, h, hj => by simp [inRange] at h; simp [inRange, hj, h]
  | d :: ds, x :: xs, i + 1, m, j, h, hj => by
    simp [inRange] at h
    simp [List.insertIdx_succ_cons, inRange, h.1, inRange_insertIdx ds xs i m j h.2 hj]
  | [], _ :: _, _, _, _, h, _ => by simp [inRange] at h
  | _ :: _, [], _, _, _, h, _ => by simp [inRange] at h

/-- changing one coordinate inside a (possibly different) length of that axis -/
theorem inRange_set : ∀ (s c : List Nat) (i m j : Nat), inRange s c = true → j < m →
    inRange (s.set i m) (c.set i j) = true
  | [], [], _, m, j, _, hj => by simp [inRange]
  | d :: ds, x :: xs, 0, m, j, h, hj => by simp [inRange] at h; simp [inRange, hj, h]
  | d :: ds, x :: xs, i + 1, m, j, h, hj => by
    simp [inRange] at h
    simp [inRange, h.1, inRange_set ds xs i m j h.2 hj]
  | [], _ :: _, _, _, _, h, _ => by simp [inRange] at h
  | _ :: _, [], _, _, _, h, _ => by simp [inRange] at h

theorem inRange_getD_lt (s c : List Nat) (i : Nat) (h : inRange s c = true) (hi : i < s.length) : c.getD i 0 < s.getD i 0 :=
  ((inRange_iff s c).1 h).2 i hi

theorem insertIdx_eraseIdx_self : ∀ (l : List α) (i : Nat) (x : α), i < l.length → (l.eraseIdx i).insertIdx i x = l.set i x
  | [], _, _, h => by simp at h
  | _ :: _, 0, _, _ => by simp
  | y :: ys, i + 1, x, h => by
    simp [List.insertIdx_succ_cons, insertIdx_eraseIdx_self ys i x (by simpa using h)]

theorem eraseIdx_insertIdx_self : ∀ (l : List α) (i : Nat) (x : α), i ≤ l.length → (l.insertIdx i x).eraseIdx i = l
  | [], 0, _, _ => by simp
  | [], i + 1, _, h => by simp at h
  | _ :: _, 0, _, _ => by simp
  | y :: ys, i + 1, x, h => by
    simp [List.insertIdx_succ_cons, eraseIdx_insertIdx_self ys i x (by simpa using h)]

theorem getD_insertIdx_self (l : List Nat) (i x : Nat) (h : i ≤ l.length) : (l.insertIdx i x).getD i 0 = x := by
  simp [List.getD_eq_getElem?_getD, List.getElem?_insertIdx, h]

theorem set_getD_self (c : List Nat) (i : Nat) : c.set i (c.getD i 0) = c := by
  by_cases h : i < c.length
  · simp [List.getD_eq_getElem?_getD, h]
  · exact List.set_eq_of_length_le (by omega)

/-- split a coordinate at one axis and put it back -/
theorem insertIdx_eraseIdx_getD (c : List Nat) (i : Nat) (h : i < c.length) : (c.eraseIdx i).insertIdx i (c.getD i 0) = c := by
  rw [insertIdx_eraseIdx_self c i _ h, set_getD_self]

theorem prod_set_eraseIdx : ∀ (s : List Nat) (i m : Nat), i < s.length → (s.set i m).prod = (s.eraseIdx i).prod * m
  | [], _, _, h => by simp at h
  | _ :: ds, 0, m, _ => by simp [Nat.mul_comm]
  | d :: ds, i + 1, m, h => by
    simp [prod_set_eraseIdx ds i m (by simpa using h), Nat.mul_assoc]

/-- a unit axis does not change the row-major position -/
theorem ravel_insertIdx_one : ∀ (s c : List Nat) (i : Nat), s.length = c.length →
    ravel (s.insertIdx i 1) (c.insertIdx i 0) = ravel s c
  | [], [], 0, _ => by simp [ravel]
  | [], [], i + 1, _ => by simp [ravel]
  | d :: ds, x :: xs, 0, _ => by simp [ravel]
  | d :: ds, x :: xs, i + 1, h => by
    have ih := ravel_insertIdx_one ds xs i (by simpa using h)
    have hp : (ds.insertIdx i 1).prod = ds.prod := by
      by_cases hi : i ≤ ds.length
      · exact (perm_prod (List.perm_insertIdx 1 ds hi)).trans (by simp)
      · rw [List.insertIdx_of_length_lt (by omega)]
    simp [List.insertIdx_succ_cons, ravel, ih, hp]
  | [], _ :: _, _, h => by simp at h
  | _ :: _, [], _, h => by simp at h

theorem not_mem_eraseIdx (s : List Nat) (i : Nat) (h : 0 ∉ s) : 0 ∉ s.eraseIdx i :=
  fun hm => h (List.mem_of_mem_eraseIdx hm)

theorem prod_pos_of_not_mem (s : List Nat) (h : 0 ∉ s) : 0 < s.prod :=
  prod_pos_of s (fun _ hd => Nat.pos_of_ne_zero (fun e => h (e ▸ hd)))


/-! ### chunks, flattening, sequencing -/

theorem take_eq_filterMap (M : List α) : ∀ n, M.take n = (List.range n).filterMap (fun j => M[j]?)
  | 0 => by simp
  | n + 1 => by
    rw [List.take_add_one, List.range_succ, List.filterMap_append, ← take_eq_filterMap M n]
    cases h : M[n]? <;> simp [h]

/-- chunk `k` of width `n` of a flat buffer, element by element -/
theorem chunk_eq_filterMap (L : List α) (k n : Nat) :
    (L.drop (k * n)).take n = (List.range n).filterMap (fun j => L[k * n + j]?) := by
  rw [take_eq_filterMap]
  apply List.filterMap_congr
  intro j _
  rw [List.getElem?_drop]

theorem length_filterMap_of_isSome (f : α → Option β) : ∀ (l : List α), (∀ x ∈ l, (f x).isSome = true) → (l.filterMap f).length = l.length
  | [], _ => rfl
  | x :: xs, h => by
    have hx := h x List.mem_cons_self
    obtain ⟨y, hy⟩ := Option.isSome_iff_exists.1 hx
    rw [List.filterMap_cons_some hy]
    simp [length_filterMap_of_isSome f xs (fun z hz => h z (List.mem_cons_of_mem _ hz))]

theorem length_flatMap_uniform (g : α → List β) (m : Nat) : ∀ (l : List α), (∀ x ∈ l, (g x).length = m) → (l.flatMap g).length = l.length * m
  | [], _ => by simp
  | x :: xs, h => by
    simp only [List.flatMap_cons, List.length_append, List.length_cons, h x List.mem_cons_self,
      length_flatMap_uniform g m xs (fun z hz => h z (List.mem_cons_of_mem _ hz))]
    rw [Nat.add_mul]; omega

/-- flattening equal-length pieces: position `k * m + j` is element `j` of piece `k` -/
theorem getElem?_flatMap_uniform (g : α → List β) (m : Nat) : ∀ (l : List α) (k j : Nat) (hk : k < l.length),
    (∀ x ∈ l, (g x).length = m) → j < m → (l.flatMap g)[k * m + j]? = (g l[k])[j]?
  | [], _, _, hk, _, _ => by simp at hk
  | x :: xs, 0, j, _, h, hj => by
    simp only [List.flatMap_cons, Nat.zero_mul, Nat.zero_add, List.getElem_cons_zero]
    rw [List.getElem?_append_left (by rw [h x List.mem_cons_self]; exact hj)]
  | x :: xs, k + 1, j, hk, h, hj => by
    simp only [List.flatMap_cons, List.getElem_cons_succ]
    rw [List.getElem?_append_right (by rw [h x List.mem_cons_self, Nat.add_mul]; omega)]
    rw [h x List.mem_cons_self, show (k + 1) * m + j - m = k * m + j by rw [Nat.add_mul]; omega]
    exact getElem?_flatMap_uniform g m xs k j (by simpa using hk) (fun z hz => h z (List.mem_cons_of_mem _ hz)) hj

theorem sequence_map_ok (g : α → β) : ∀ (l : List α), Res.sequence (l.map (fun x => Res.ok (g x))) = Res.ok (l.map g)
  | [] => rfl
  | x :: xs => by
    simp only [List.map_cons, Res.sequence, Res.bind_ok, sequence_map_ok g xs]

theorem mapM'_ok (f : α → Res β) (g : α → β) (l : List α) (h : ∀ x ∈ l, f x = .ok (g x)) :
    Res.mapM' f l = .ok (l.map g) := by
  unfold Res.mapM'
  rw [← sequence_map_ok]
  congr 1
  exact List.map_congr_left h

/-- a lane function that succeeds on every lane gives a list of results, in order -/
theorem mapM'_exists (f : α → Res β) : ∀ (l : List α), (∀ x ∈ l, ∃ r, f x = .ok r) →
    ∃ rs, Res.mapM' f l = .ok rs ∧ rs.length = l.length ∧ ∀ (i : Nat) (h1 : i < l.length) (h2 : i < rs.length), f l[i] = .ok rs[i]
  | [], _ => ⟨[], rfl, rfl, fun i h => by simp at h⟩
  | x :: xs, h => by
    obtain ⟨r, hr⟩ := h x List.mem_cons_self
    obtain ⟨rs, h1, h2, h3⟩ := mapM'_exists f xs (fun z hz => h z (List.mem_cons_of_mem _ hz))
    refine ⟨r :: rs, ?_, by simp [h2], ?_⟩
    · unfold Res.mapM' at h1 ⊢
      simp only [List.map_cons, Res.sequence, hr, Res.bind_ok, h1]
    · intro i hi1 hi2
      cases i with
      | zero => simpa using hr
      | succ i => simpa using h3 i (by simpa using hi1) (by simpa using hi2)

/-! ### the cut points of `array_split` when the sections are equal -/

theorem sectionSizes_even (P n : Nat) (hP : 0 < P) : sectionSizes (P * n) P = List.replicate P n := by
  unfold sectionSizes
  simp [Nat.mul_mod_right, Nat.mul_div_cancel_left _ hP]

theorem sum_replicate' (k n : Nat) : (List.replicate k n).sum = k * n := by
  induction k with
  | zero => simp
  | succ k ih => simp [List.replicate_succ, ih, Nat.add_mul]; omega

theorem windows2_map_range' (g : Nat → β) : ∀ (k s : Nat),
    windows2 ((List.range' s (k + 1)).map g) = (List.range' s k).map (fun i => (g i, g (i + 1)))
  | 0, s => by simp [windows2]
  | k + 1, s => by
    have ih := windows2_map_range' g k (s + 1)
    rw [List.range'_succ, List.range'_succ] at *
    simp only [List.map_cons, windows2] at ih ⊢
    rw [ih]
    conv => rhs; rw [List.range'_succ]
    simp

theorem windows2_divPoints_even (P n : Nat) :
    windows2 (divPoints (List.replicate P n)) = (List.range P).map (fun k => (k * n, (k + 1) * n)) := by
  unfold divPoints
  rw [List.length_replicate, List.range_eq_range', windows2_map_range', List.range_eq_range']
  apply List.map_congr_left
  intro k hk
  have := (List.mem_range'_1.1 hk).2
  simp only [List.take_replicate, sum_replicate']
  rw [Nat.min_eq_left (by omega), Nat.min_eq_left (by omega)]

end ArrModel
