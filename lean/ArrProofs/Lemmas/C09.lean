import ArrModel.C09
import ArrModel.Index
import ArrModel.Broadcast
import ArrModel.Manip
import ArrModel.Split
import ArrModel.AlongAxis
import ArrModel.C08
import ArrModel.Reorder
import ArrModel.C13
import ArrModel.Joining
/-!
# Lemmas for C09 — generic table lookup, `Res` plumbing, refusal arms of the shared models

Everything here is proved directly from the `ArrModel` definitions (no dependency on other properties' theorem files,
which may be mid-edit).
-/
namespace ArrModel.C09
open ArrModel ArrModel.Gen.Tables

/-! ## generic lookup -/

theorem lookup_none_iff (rows : List (List Char × Nat)) (s : List Char) :
    lookup rows s = none ↔ ∀ r ∈ rows, r.1 ≠ s := by
  induction rows with
  | nil => simp [lookup]
  | cons r rest ih =>
    obtain ⟨k, v⟩ := r
    unfold lookup
    by_cases h : s = k
    · subst h; simp
    · simp only [if_neg h, ih, List.mem_cons, forall_eq_or_imp]
      exact ⟨fun hr => ⟨fun hk => h hk.symm, hr⟩, fun hr => hr.2⟩

theorem lookup_some_mem (rows : List (List Char × Nat)) (s : List Char) (i : Nat) (h : lookup rows s = some i) :
    (s, i) ∈ rows := by
  induction rows with
  | nil => simp [lookup] at h
  | cons r rest ih =>
    obtain ⟨k, v⟩ := r
    unfold lookup at h
    by_cases hk : s = k
    · subst hk; simp only [if_true, Option.some.injEq] at h; subst h; simp
    · rw [if_neg hk] at h; exact List.mem_cons_of_mem _ (ih h)

/-! ## `Res` plumbing -/

theorem bind_ne_panic_of {α β} (x : Res α) (f : α → Res β) (hx : x ≠ .panic) (hf : ∀ a, x = .ok a → f a ≠ .panic) :
    (x >>= f) ≠ .panic := by
  cases x with
  | ok a => exact hf a rfl
  | err e => simp
  | panic => exact absurd rfl hx

theorem new_ne_panic {α} (es : List α) (sh : List Nat) : Arr.new es sh ≠ .panic := by
  unfold Arr.new; split <;> simp

theorem errOf_known {β} (fall : List Char) (e : Err) (h : Err.ofChars? fall = some e) : (errOf fall : Res β) = .err e := by
  unfold errOf; rw [h]

theorem normalizeAxis_ofNat (nd n : Nat) : normalizeAxis nd (Int.ofNat n) = n := by
  unfold normalizeAxis
  have h : ¬ (Int.ofNat n < 0) := Int.not_lt.2 (Int.natCast_nonneg n)
  rw [if_neg h]
  exact Int.toNat_natCast n

/-! ## transposition family: no panic ever, refusal of out-of-range axes -/

theorem validAxes_ne_panic (nd : Nat) (ax : List Nat) : validAxes nd ax ≠ .panic := by
  unfold validAxes; split
  · simp
  · split
    · simp
    · split <;> simp

theorem transpose_ne_panic {α} (a : Arr α) (zero : α) (axes : Option (List Int)) : a.transpose zero axes ≠ .panic := by
  unfold Arr.transpose
  exact bind_ne_panic_of _ _ (validAxes_ne_panic _ _) (fun _ _ => new_ne_panic _ _)

theorem moveaxis_ne_panic {α} (a : Arr α) (zero : α) (s d : List Int) : a.moveaxis zero s d ≠ .panic := by
  unfold Arr.moveaxis
  split
  · simp
  · split
    · simp
    · simp only []
      split
      · simp
      · split
        · simp
        · exact transpose_ne_panic _ _ _

theorem rollaxis_ne_panic {α} (a : Arr α) (zero : α) (axis : Int) (start : Option Int) : a.rollaxis zero axis start ≠ .panic := by
  unfold Arr.rollaxis
  simp only []
  split
  · simp
  · split
    · simp
    · exact transpose_ne_panic _ _ _

theorem swapaxes_ne_panic {α} (a : Arr α) (zero : α) (x y : Int) : a.swapaxes zero x y ≠ .panic := by
  unfold Arr.swapaxes
  simp only []
  split
  · simp
  · split
    · simp
    · exact transpose_ne_panic _ _ _

theorem transpose_err_of_length {α} (a : Arr α) (zero : α) (axes : List Int) (h : axes.length ≠ a.ndim) :
    a.transpose zero (some axes) = .err .MustBeEqual := by
  unfold Arr.transpose validAxes
  simp [axesOf, h]

theorem transpose_err_of_range {α} (a : Arr α) (zero : α) (axes : List Int) (hl : axes.length = a.ndim)
    (h : ∃ i ∈ axes, normalizeAxis a.ndim i ≥ a.ndim) : a.transpose zero (some axes) = .err .AxisOutOfBounds := by
  unfold Arr.transpose validAxes
  have h1 : ((axesOf a.ndim (some axes)).length ≠ a.ndim) = False := by simp [axesOf, hl]
  have h2 : (axesOf a.ndim (some axes)).any (fun x => decide (x ≥ a.ndim)) = true := by
    obtain ⟨i, hi, hge⟩ := h
    simp only [axesOf, List.any_eq_true, List.mem_map, decide_eq_true_eq]
    exact ⟨_, ⟨i, hi, rfl⟩, hge⟩
  simp only [h1, if_false, h2, if_true, Res.bind_err]

theorem validAxes_err_of_dup (nd : Nat) (ax : List Nat) (h : ¬ ax.Nodup) : ∃ e, validAxes nd ax = .err e := by
  unfold validAxes
  by_cases h1 : ax.length ≠ nd
  · exact ⟨_, if_pos h1⟩
  · rw [if_neg h1]
    by_cases h2 : ax.any (fun x => decide (x ≥ nd)) = true
    · exact ⟨_, if_pos h2⟩
    · rw [if_neg h2]; exact ⟨_, if_pos h⟩

theorem transpose_err_of_dup {α} (a : Arr α) (zero : α) (axes : List Int)
    (h : ¬ (axes.map (normalizeAxis a.ndim)).Nodup) : ∃ e, a.transpose zero (some axes) = .err e := by
  obtain ⟨e, he⟩ := validAxes_err_of_dup a.ndim (axesOf a.ndim (some axes)) h
  exact ⟨e, by unfold Arr.transpose; simp only [he, Res.bind_err]⟩

/-- an accepted explicit order mentions only axes inside the rank -/
theorem transpose_ok_lt {α} (a : Arr α) (zero : α) (axes : List Int) (r : Arr α) (h : a.transpose zero (some axes) = .ok r) :
    ∀ i ∈ axes, normalizeAxis a.ndim i < a.ndim := by
  intro i hi
  rcases Nat.lt_or_ge (normalizeAxis a.ndim i) a.ndim with hlt | hge
  · exact hlt
  · exfalso
    by_cases hl : axes.length = a.ndim
    · rw [transpose_err_of_range a zero axes hl ⟨i, hi, hge⟩] at h; cases h
    · rw [transpose_err_of_length a zero axes hl] at h; cases h

theorem rollaxis_err {α} (a : Arr α) (zero : α) (axis : Int) (start : Option Int)
    (h : normalizeAxis a.ndim axis ≥ a.ndim ∨ Arr.startOf a.ndim start ≥ a.ndim) :
    a.rollaxis zero axis start = .err .AxisOutOfBounds := by
  unfold Arr.rollaxis
  simp only []
  by_cases h1 : normalizeAxis a.ndim axis ≥ a.ndim
  · rw [if_pos h1]
  · rw [if_neg h1, if_pos (by omega)]

theorem swapaxes_err {α} (a : Arr α) (zero : α) (x y : Int)
    (h : normalizeAxis a.ndim x ≥ a.ndim ∨ normalizeAxis a.ndim y ≥ a.ndim) :
    a.swapaxes zero x y = .err .AxisOutOfBounds := by
  unfold Arr.swapaxes
  simp only []
  by_cases h1 : normalizeAxis a.ndim x ≥ a.ndim
  · rw [if_pos h1]
  · rw [if_neg h1, if_pos (by omega)]

theorem moveaxis_err_of_length {α} (a : Arr α) (zero : α) (s d : List Int) (h : s.length ≠ d.length) :
    ∃ e, a.moveaxis zero s d = .err e := by
  unfold Arr.moveaxis
  by_cases h1 : ¬ s.Nodup
  · exact ⟨_, if_pos h1⟩
  · rw [if_neg h1]; exact ⟨_, if_pos h⟩

/-- a source axis outside the rank survives into the order handed to `transpose`, which refuses it -/
theorem moveaxis_err_of_source {α} (a : Arr α) (zero : α) (s d : List Int)
    (h : ∃ i ∈ s, normalizeAxis a.ndim i ≥ a.ndim) :
    ∃ e, a.moveaxis zero s d = .err e := by
  have hne := moveaxis_ne_panic a zero s d
  -- the result cannot be `ok`: an accepted `transpose` order mentions only axes inside the rank, but every source
  -- axis is inserted into the order by the fold
  cases hr : a.moveaxis zero s d with
  | err e => exact ⟨e, rfl⟩
  | panic => exact absurd hr hne
  | ok r =>
    exfalso
    unfold Arr.moveaxis at hr
    by_cases h1 : ¬ s.Nodup
    · rw [if_pos h1] at hr; cases hr
    rw [if_neg h1] at hr
    by_cases h2 : s.length ≠ d.length
    · rw [if_pos h2] at hr; cases hr
    rw [if_neg h2] at hr
    simp only [] at hr
    by_cases h3 : ¬ (s.map (normalizeAxis a.ndim)).Nodup
    · rw [if_pos h3] at hr; cases hr
    rw [if_neg h3] at hr
    by_cases h4 : ¬ (d.map (normalizeAxis a.ndim)).Nodup
    · rw [if_pos h4] at hr; cases hr
    rw [if_neg h4] at hr
    have hlt := transpose_ok_lt a zero _ r hr
    obtain ⟨i, hi, hge⟩ := h
    have hmem : normalizeAxis a.ndim i ∈ Arr.moveaxisOrder a.ndim (s.map (normalizeAxis a.ndim)) (d.map (normalizeAxis a.ndim)) := by
      unfold Arr.moveaxisOrder
      simp only []
      have hpair : ∃ dd, (dd, normalizeAxis a.ndim i) ∈ ((d.map (normalizeAxis a.ndim)).zip (s.map (normalizeAxis a.ndim))).mergeSort pairLe := by
        have hlen2 : (d.map (normalizeAxis a.ndim)).length = (s.map (normalizeAxis a.ndim)).length := by
          simp only [List.length_map]; exact (Decidable.of_not_not h2).symm
        have hsm : normalizeAxis a.ndim i ∈ s.map (normalizeAxis a.ndim) := List.mem_map.2 ⟨i, hi, rfl⟩
        obtain ⟨k, hk, hkv⟩ := List.mem_iff_getElem.1 hsm
        refine ⟨(d.map (normalizeAxis a.ndim))[k]'(by omega), ?_⟩
        rw [List.mem_mergeSort]
        rw [List.mem_iff_getElem]
        refine ⟨k, by simp only [List.length_zip]; omega, ?_⟩
        simp [List.getElem_zip, hkv]
      obtain ⟨dd, hdd⟩ := hpair
      have key : ∀ (l : List (Nat × Nat)) (o : List Nat) (x : Nat), (x ∈ o ∨ ∃ q, (q, x) ∈ l) →
          x ∈ l.foldl (fun o p => o.insertIdx (min p.1 o.length) p.2) o := by
        intro l
        induction l with
        | nil =>
          intro o x hx
          rcases hx with hx | ⟨q, hq⟩
          · simpa using hx
          · simp at hq
        | cons p rest ih =>
          intro o x hx
          simp only [List.foldl_cons]
          apply ih
          rcases hx with hx | ⟨q, hq⟩
          · left; rw [List.mem_insertIdx (by omega)]; exact .inr hx
          · rcases List.mem_cons.1 hq with hq | hq
            · left; rw [List.mem_insertIdx (by omega)]; left; rw [← hq]
            · right; exact ⟨q, hq⟩
      exact key _ _ _ (.inr ⟨dd, hdd⟩)
    have := hlt (Int.ofNat (normalizeAxis a.ndim i)) (List.mem_map.2 ⟨_, hmem, rfl⟩)
    rw [normalizeAxis_ofNat] at this
    omega

/-! ## `apply_along_axis` and the wrappers built on it -/

theorem applyAlongAxis_err {α β} (a : Arr α) (zero : α) (zb : β) (axis : Nat) (f : Arr α → Res (Arr β))
    (h : axis ≥ a.ndim) : a.applyAlongAxis zero zb axis f = .err .AxisOutOfBounds := by
  unfold Arr.applyAlongAxis; rw [if_pos h]

theorem wrappers_err {α β} (a : Arr α) (zero : α) (zb : β) (ax : Int) (h : normalizeAxis a.ndim ax ≥ a.ndim)
    (f1 : Arr α → Res (Arr β)) (kd : Option Bool) (g1 : Arr α → Option Bool → Res (Arr β)) :
    a.reduceAxis zero zb (some ax) f1 = .err .AxisOutOfBounds ∧
    a.countAxis zero zb (some ax) kd g1 = .err .AxisOutOfBounds ∧
    a.scanAxis zero zb (some ax) f1 = .err .AxisOutOfBounds := by
  simp only [Arr.reduceAxis, Arr.countAxis, Arr.scanAxis, applyAlongAxis_err _ _ _ _ _ h, Res.bind_err, and_self]

/-! ## splitting -/

theorem arraySplit_zero {α} (a : Arr α) (zero : α) (axis : Option Nat) : a.arraySplit zero 0 axis = .err .ParameterError := by
  unfold Arr.arraySplit; simp

theorem arraySplit_axis_err {α} (a : Arr α) (zero : α) (parts ax : Nat) (h : ax ≥ a.ndim) :
    ∃ e, a.arraySplit zero parts (some ax) = .err e := by
  rcases Nat.eq_zero_or_pos parts with hp | hp
  · exact ⟨.ParameterError, by simp [Arr.arraySplit, hp]⟩
  · exact ⟨.AxisOutOfBounds, by simp [Arr.arraySplit, Nat.ne_of_gt hp, h]⟩

theorem split_zero {α} (a : Arr α) (zero : α) (axis : Option Nat) : ∃ e, a.split zero 0 axis = .err e := by
  cases axis with
  | none =>
    by_cases h : 0 ≥ a.ndim
    · exact ⟨.AxisOutOfBounds, by simp [Arr.split, h]⟩
    · exact ⟨.ParameterError, by simp [Arr.split, h]⟩
  | some ax =>
    by_cases h : ax ≥ a.ndim
    · exact ⟨.AxisOutOfBounds, by simp [Arr.split, h]⟩
    · exact ⟨.ParameterError, by simp [Arr.split, h]⟩

theorem split_axis_err {α} (a : Arr α) (zero : α) (parts ax : Nat) (h : ax ≥ a.ndim) :
    a.split zero parts (some ax) = .err .AxisOutOfBounds := by
  unfold Arr.split; simp [h]

theorem splitAxis_err {α} (a : Arr α) (zero : α) (ax : Nat) (h : ax ≥ a.ndim) : a.splitAxis zero ax = .err .AxisOutOfBounds := by
  unfold Arr.splitAxis; rw [if_pos h]

/-! ## reorder -/

theorem flip_err {α} (a : Arr α) (axes : List Int) (h : ∃ x ∈ axes, normalizeAxis a.ndim x ≥ a.ndim) :
    a.flip (some axes) = .err .AxisOutOfBounds := by
  unfold Arr.flip
  simp only []
  rw [if_pos]
  obtain ⟨x, hx, hge⟩ := h
  simp only [List.any_eq_true, List.mem_map, decide_eq_true_eq]
  exact ⟨_, ⟨x, hx, rfl⟩, hge⟩

theorem rot90_err_of_length {α} (a : Arr α) (zero : α) (k : Nat) (axes : List Int) (h : axes.length ≠ 2) :
    ∃ e, a.rot90 zero k axes = .err e := by
  unfold Arr.rot90
  split
  · exact ⟨_, rfl⟩
  · split
    · simp at h
    · exact ⟨_, rfl⟩

theorem rot90_err_of_range {α} (a : Arr α) (zero : α) (k : Nat) (a0 a1 : Int)
    (h : a0 ≥ a.ndim ∨ a0 < -(a.ndim : Int) ∨ a1 ≥ a.ndim ∨ a1 < -(a.ndim : Int)) :
    ∃ e, a.rot90 zero k [a0, a1] = .err e := by
  unfold Arr.rot90
  split
  · exact ⟨_, rfl⟩
  · simp only []
    rw [if_pos h]; exact ⟨_, rfl⟩

/-! ## delete / insert / repeat -/

theorem deleteFlat_err {α} (a : Arr α) (idxs : List Nat) (h : ∃ i ∈ idxs, i ≥ a.elems.length) :
    a.deleteFlat idxs = .err .OutOfBounds := by
  unfold Arr.deleteFlat
  simp only []
  rw [if_pos]
  obtain ⟨i, hi, hge⟩ := h
  simp only [List.any_eq_true, decide_eq_true_eq]
  refine ⟨i, ?_, hge⟩
  -- `deleteOrder` = sort, dedup, reverse keeps every member
  unfold deleteOrder
  rw [List.mem_reverse]
  have hs : i ∈ sortNat idxs := by unfold sortNat; rw [List.mem_mergeSort]; exact hi
  have key : ∀ (l : List Nat) (x : Nat), x ∈ l → x ∈ dedupSorted l := by
    intro l
    induction l using dedupSorted.induct with
    | case1 b r ih => intro x hx; unfold dedupSorted; rw [if_pos rfl]
                      rcases List.mem_cons.1 hx with hx | hx
                      · exact ih x (by rw [hx]; exact List.mem_cons_self)
                      · exact ih x hx
    | case2 a b r hab ih => intro x hx; unfold dedupSorted; rw [if_neg hab]
                            rcases List.mem_cons.1 hx with hx | hx
                            · rw [hx]; exact List.mem_cons_self
                            · exact List.mem_cons_of_mem _ (ih x hx)
    | case3 l hl => intro x hx; unfold dedupSorted
                    split
                    · rename_i a b r; exact absurd rfl (hl a b r)
                    · exact hx
  exact key _ _ hs

theorem delete_axis_err {α} (a : Arr α) (zero : α) (idxs : List Nat) (ax : Nat) (h : ax ≥ a.ndim) :
    a.delete zero idxs (some ax) = .err .AxisOutOfBounds := by
  unfold Arr.delete; exact applyAlongAxis_err _ _ _ _ _ h

theorem insertFlat_err {α} (a : Arr α) (idxs : List Nat) (values : Arr α) (h : ∃ i ∈ idxs, i > a.elems.length) :
    a.insertFlat idxs values = .err .OutOfBounds := by
  unfold Arr.insertFlat
  rw [if_pos]
  obtain ⟨i, hi, hgt⟩ := h
  simp only [List.any_eq_true, decide_eq_true_eq]
  exact ⟨i, hi, hgt⟩

theorem repeatAxis_err {α} (a : Arr α) (zero : α) (reps : List Nat) (ax : Nat) (h : ax ≥ a.ndim) :
    a.repeatAxis zero reps ax = .err .AxisOutOfBounds := by
  unfold Arr.repeatAxis; rw [if_pos h]

/-! ## joining -/

theorem appendAxis_err_axis {α} (a v : Arr α) (zero : α) (ax : Nat) (h : ax ≥ a.ndim) :
    a.appendAxis v zero ax = .err .AxisOutOfBounds := by
  unfold Arr.appendAxis; rw [if_pos h]

theorem appendAxis_err_rank {α} (a v : Arr α) (zero : α) (ax : Nat) (h : a.ndim ≠ v.ndim) :
    ∃ e, a.appendAxis v zero ax = .err e := by
  unfold Arr.appendAxis
  by_cases h1 : ax ≥ a.ndim
  · exact ⟨_, if_pos h1⟩
  · rw [if_neg h1]; exact ⟨_, if_pos h⟩

theorem concatenate_err_axis {α} (a0 : Arr α) (rest : List (Arr α)) (zero : α) (ax : Nat)
    (h : ∃ b ∈ a0 :: rest, ax ≥ b.ndim) : Arr.concatenate (a0 :: rest) zero (some ax) = .err .AxisOutOfBounds := by
  unfold Arr.concatenate Arr.validateStackShapes
  simp only []
  rw [if_pos]
  · rfl
  · obtain ⟨b, hb, hge⟩ := h
    simp only [List.any_eq_true, decide_eq_true_eq]
    exact ⟨b, hb, hge⟩

theorem stack_err_axis {α} (arrs : List (Arr α)) (zero : α) (ax : Nat) (h : ∃ b ∈ arrs, ax ≥ b.ndim) :
    Arr.stack arrs zero (some ax) = .err .AxisOutOfBounds := by
  unfold Arr.stack
  rw [if_pos]
  obtain ⟨b, hb, hge⟩ := h
  simp only [List.any_eq_true, decide_eq_true_eq]
  exact ⟨b, hb, hge⟩

theorem stack_err_shapes {α} (a0 : Arr α) (rest : List (Arr α)) (zero : α) (axis : Option Nat)
    (h : ∃ b ∈ rest, b.shape ≠ a0.shape) : ∃ e, Arr.stack (a0 :: rest) zero axis = .err e := by
  have hany : (a0 :: rest).any (fun a => decide (a.shape ≠ a0.shape)) = true := by
    obtain ⟨b, hb, hne⟩ := h
    simp only [List.any_eq_true, decide_eq_true_eq]
    exact ⟨b, List.mem_cons_of_mem _ hb, hne⟩
  cases axis with
  | none => exact ⟨_, by unfold Arr.stack; simp only [Bool.false_eq_true, if_false]; exact if_pos hany⟩
  | some ax =>
    by_cases h1 : (a0 :: rest).any (fun a => decide (ax ≥ a.ndim)) = true
    · exact ⟨_, by unfold Arr.stack; exact if_pos h1⟩
    · exact ⟨_, by unfold Arr.stack; simp only [h1, Bool.false_eq_true, if_false]; exact if_pos hany⟩

end ArrModel.C09
