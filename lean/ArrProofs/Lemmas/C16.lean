import ArrModel.C16
import ArrProofs.Lemmas.Index
/-! helper lemmas for C16 (structured constructors): matrix read-back, uniform `flat_map`, `chunks`,
the `apply_triangular` mask as one enumerate, `diag_1d`/`diag_2d` closed forms, the `arange` loop -/
namespace ArrModel.C16
open ArrModel

theorem new_ok {α} (elems : List α) (shape : List Nat) (h : shape.prod = elems.length) :
    Arr.new elems shape = .ok ⟨elems, shape⟩ := by
  unfold Arr.new; rw [if_pos h]

theorem ravel2 (n m i j : Nat) : ravel [n, m] [i, j] = i * m + j := by
  simp [ravel]

theorem divmod2 (m i j : Nat) (hj : j < m) : (i * m + j) / m = i ∧ (i * m + j) % m = j := by
  have hpos : 0 < m := by omega
  constructor
  · rw [Nat.add_comm, Nat.add_mul_div_right _ _ hpos, Nat.div_eq_of_lt hj]; simp
  · rw [Nat.add_comm, Nat.add_mul_mod_self_right, Nat.mod_eq_of_lt hj]

theorem lt2 (n m i j : Nat) (hi : i < n) (hj : j < m) : i * m + j < n * m := by
  have : (i + 1) * m ≤ n * m := Nat.mul_le_mul_right _ hi
  rw [Nat.add_mul] at this; omega

/-- matrices built by `(0..n*m).map(f)` read back `f (i*m+j)` at `[i, j]` -/
theorem get_rangeMap {α} (n m : Nat) (f : Nat → α) (i j : Nat) (hi : i < n) (hj : j < m) :
    (⟨(List.range (n * m)).map f, [n, m]⟩ : Arr α).get? [i, j] = some (f (i * m + j)) := by
  simp [Arr.get?, ravel2, lt2 n m i j hi hj]

/-- uniform `flat_map`: `l.flat_map(|x| (0..m).map(|j| g(x, j)))` at position `i*m + j` -/
theorem getElem?_flatMap_uniform {α β} (m : Nat) (g : α → Nat → β) :
    ∀ (l : List α) (i j : Nat), j < m →
      (l.flatMap fun x => (List.range m).map (g x))[i * m + j]? = l[i]?.map (fun x => g x j)
  | [], i, j, _ => by simp
  | x :: xs, 0, j, hj => by simp [List.getElem?_append_left, hj]
  | x :: xs, i + 1, j, hj => by
    have ih := getElem?_flatMap_uniform m g xs i j hj
    simp only [List.flatMap_cons, List.getElem?_cons_succ]
    rw [List.getElem?_append_right (by simp [Nat.add_mul]; omega)]
    simp only [List.length_map, List.length_range]
    rw [show (i + 1) * m + j - m = i * m + j by rw [Nat.add_mul]; omega]
    exact ih

theorem length_flatMap_uniform {α β} (m : Nat) (g : α → Nat → β) :
    ∀ (l : List α), (l.flatMap fun x => (List.range m).map (g x)).length = l.length * m
  | [] => by simp
  | x :: xs => by
    simp only [List.flatMap_cons, List.length_append, List.length_map, List.length_range, List.length_cons,
      length_flatMap_uniform m g xs, Nat.add_mul]; omega

theorem mapIdx_congr_lt {α β} (l : List α) (f g : Nat → α → β) (h : ∀ i (hi : i < l.length), f i l[i] = g i l[i]) :
    l.mapIdx f = l.mapIdx g := by
  apply List.ext_getElem (by simp)
  intro i h1 h2
  simp only [List.getElem_mapIdx]
  exact h i (by simpa using h1)

/-- `chunks(n).flat_map(|chunk| chunk.iter().enumerate().map(f))` = one enumerate with the index taken mod `n` -/
theorem flatMap_chunksAux {α β} (n : Nat) (hn : 0 < n) (f : Nat → α → β) :
    ∀ (fuel : Nat) (l : List α), l.length ≤ fuel →
      (chunksAux n fuel l).flatMap (fun chunk => chunk.mapIdx f) = l.mapIdx (fun idx v => f (idx % n) v)
  | 0, l, h => by
    have : l = [] := List.eq_nil_of_length_eq_zero (by omega)
    subst this; simp [chunksAux]
  | fuel + 1, l, h => by
    unfold chunksAux
    by_cases he : l.isEmpty = true
    · have : l = [] := by simpa using he
      subst this; simp
    · rw [if_neg he]
      have hne : l ≠ [] := by simpa using he
      have hlen : 0 < l.length := List.length_pos_iff.2 hne
      have ih := flatMap_chunksAux n hn f fuel (l.drop n) (by simp; omega)
      simp only [List.flatMap_cons, ih]
      conv => rhs; rw [← List.take_append_drop n l]
      rw [List.mapIdx_append]
      congr 1
      · apply mapIdx_congr_lt
        intro i hi
        have : i < n := by simp at hi; omega
        rw [Nat.mod_eq_of_lt this]
      · by_cases hl : n ≤ l.length
        · apply mapIdx_congr_lt
          intro i hi
          simp only [List.length_take, Nat.min_eq_left hl, Nat.add_mod_right]
        · have : l.drop n = [] := by simp; omega
          rw [this]; simp

/-- the mask `apply_triangular` applies at flat position `idx` of a stack of `r × m` matrices -/
def maskAt (r m : Nat) (k : Int) (compare : Int → Int → Int → Bool) (idx : Nat) (value : Int) : Int :=
  if compare ((idx % m : Nat) : Int) (((idx / m) % r : Nat) : Int) k then 0 else value

theorem applyTriangular_eq (a : Arr Int) (k : Int) (cmp : Int → Int → Int → Bool) (pre : List Nat) (r m : Nat)
    (hwf : a.WF) (hs : a.shape = pre ++ [r, m]) :
    applyTriangular a k cmp = .ok ⟨a.elems.mapIdx (maskAt r m k cmp), a.shape⟩ := by
  unfold applyTriangular
  have hlen : a.shape.length = pre.length + 2 := by rw [hs]; simp
  rw [if_neg (by omega)]
  have hlast : a.shape.getD (a.shape.length - 1) 0 = m := by
    rw [hlen, hs]; simp [List.getD_eq_getElem?_getD]
  have hsl : a.shape.getD (a.shape.length - 2) 0 = r := by
    rw [hlen, hs]; simp [List.getD_eq_getElem?_getD]
  simp only [hlast, hsl]
  have hpos : 0 < max (m * r) 1 := by omega
  simp only [chunks, if_neg (Nat.pos_iff_ne_zero.1 hpos)]
  rw [flatMap_chunksAux _ hpos _ _ _ (Nat.le_refl _)]
  have : (a.elems.mapIdx fun idx value =>
        if cmp ((idx % max (m * r) 1 % m : Nat) : Int) ((idx % max (m * r) 1 / m % r : Nat) : Int) k = true then (0:Int) else value)
      = a.elems.mapIdx (maskAt r m k cmp) := by
    apply mapIdx_congr_lt
    intro idx h1
    simp only [maskAt]
    have hidx : idx < a.shape.prod := by rw [← hwf]; exact h1
    have hprod : a.shape.prod = pre.prod * (r * m) := by rw [hs]; simp [List.prod_append]
    have hrm : 0 < r * m := by
      rcases Nat.eq_zero_or_pos (r * m) with h0 | h0
      · rw [hprod, h0] at hidx; simp at hidx
      · exact h0
    have hmx : max (m * r) 1 = r * m := by rw [Nat.mul_comm m r]; omega
    rw [hmx]
    have hm : 0 < m := Nat.pos_of_mul_pos_left hrm
    have e1 : idx % (r * m) % m = idx % m := Nat.mod_mod_of_dvd _ (Nat.dvd_mul_left _ _)
    have e2 : idx % (r * m) / m % r = idx / m % r := by
      rw [Nat.mul_comm r m, Nat.mod_mul_right_div_self, Nat.mod_mod]
    rw [e1, e2]
  rw [this]
  exact new_ok _ _ (by simp only [List.length_mapIdx]; exact hwf.symm)

theorem ravel_snoc2 (r m i j : Nat) : ∀ (pre cp : List Nat), pre.length = cp.length →
    ravel (pre ++ [r, m]) (cp ++ [i, j]) = ravel pre cp * (r * m) + (i * m + j)
  | [], [], _ => by simp [ravel]
  | d :: ds, c :: cs, h => by
    simp only [List.cons_append, ravel]
    rw [ravel_snoc2 r m i j ds cs (by simpa using h)]
    simp [List.prod_append, Nat.add_mul, Nat.mul_assoc, Nat.add_assoc]
  | [], _ :: _, h => by simp at h
  | _ :: _, [], h => by simp at h

theorem inRange_snoc2 (r m i j : Nat) : ∀ (pre cp : List Nat), pre.length = cp.length →
    inRange (pre ++ [r, m]) (cp ++ [i, j]) = true → inRange pre cp = true ∧ i < r ∧ j < m
  | [], [], _, h => by simpa [inRange] using h
  | d :: ds, c :: cs, hl, h => by
    simp only [List.cons_append, inRange, Bool.and_eq_true, decide_eq_true_eq] at h ⊢
    have := inRange_snoc2 r m i j ds cs (by simpa using hl) h.2
    exact ⟨⟨h.1, this.1⟩, this.2⟩
  | [], _ :: _, h, _ => by simp at h
  | _ :: _, [], h, _ => by simp at h

/-- position of `[…, i, j]` in a stack of `r × m` matrices: column = `pos % m`, row = `pos / m % r` -/
theorem ravel_row_col (pre cp : List Nat) (r m i j : Nat)
    (h : inRange (pre ++ [r, m]) (cp ++ [i, j]) = true) :
    ravel (pre ++ [r, m]) (cp ++ [i, j]) % m = j ∧ ravel (pre ++ [r, m]) (cp ++ [i, j]) / m % r = i := by
  have hl : pre.length = cp.length := by
    have := inRange_length _ _ h; simp at this; omega
  obtain ⟨_, hi, hj⟩ := inRange_snoc2 r m i j pre cp hl h
  rw [ravel_snoc2 r m i j pre cp hl]
  have hm : 0 < m := by omega
  constructor
  · rw [← Nat.mul_assoc, ← Nat.add_assoc, ← Nat.add_mul]
    exact (divmod2 m _ j hj).2
  · rw [← Nat.mul_assoc, ← Nat.add_assoc, ← Nat.add_mul, (divmod2 m _ j hj).1]
    rw [Nat.add_comm, Nat.add_mul_mod_self_right, Nat.mod_eq_of_lt hi]

theorem sequence_map_ok {α β} (g : α → β) : ∀ (l : List α), Res.sequence (l.map fun x => Res.ok (g x)) = .ok (l.map g)
  | [] => rfl
  | x :: xs => by
    simp only [List.map_cons, Res.sequence, sequence_map_ok g xs]; rfl

/-- a `map` whose every call succeeds collects all the values -/
theorem mapM'_ok {α β} (f : α → Res β) (g : α → β) (l : List α) (h : ∀ x ∈ l, f x = .ok (g x)) :
    Res.mapM' f l = .ok (l.map g) := by
  unfold Res.mapM'
  have : l.map f = l.map (fun x => Res.ok (g x)) := List.map_congr_left h
  rw [this, sequence_map_ok]

theorem idx_ok {α} [Inhabited α] (l : List α) (i : Nat) (h : i < l.length) : Res.idx l i = .ok (l[i]'h) := by
  simp [Res.idx, h]

/-- value `diag_1d` writes at flat position `idx` of the `n × n` result (`n = size + |k|`) -/
def diag1dAt (v : List Int) (k : Int) (idx : Nat) : Int :=
  let n := v.length + k.natAbs
  let i := idx / n
  let j := idx % n
  if k ≥ 0 ∧ j = i + k.toNat then (if i < v.length then v.getD i 0 else 0)
  else if k < 0 ∧ i = j + k.natAbs then (if j < v.length then v.getD j 0 else 0)
  else 0

theorem diag1d_eq (v : List Int) (k : Int)
    (hb : (v.length + k.natAbs) * (v.length + k.natAbs) ≤ usizeMax) :
    diag1d (Arr.flat v) k = .ok ⟨(List.range ((v.length + k.natAbs) * (v.length + k.natAbs))).map (diag1dAt v k),
      [v.length + k.natAbs, v.length + k.natAbs]⟩ := by
  unfold diag1d
  have hb1 : ¬ (v.length + k.natAbs > usizeMax ∨ (v.length + k.natAbs) * (v.length + k.natAbs) > usizeMax) := by
    have : v.length + k.natAbs ≤ (v.length + k.natAbs) * (v.length + k.natAbs) := Nat.le_mul_self _
    omega
  simp only [Arr.flat, Res.idx, List.getElem?_cons_zero, bind, Res.bind, if_neg hb1]
  rw [mapM'_ok _ (diag1dAt v k)]
  · exact new_ok _ _ (by simp)
  · intro idx _
    simp only [diag1dAt]
    split
    · split
      · rename_i h; simp [List.getD_eq_getElem?_getD, h]
      · rfl
    · split
      · split
        · rename_i h; simp [List.getD_eq_getElem?_getD, h]
        · rfl
      · rfl

/-- a side `size + |k|` whose square does not fit `usize` is refused with an error value -/
theorem diag1d_too_large (v : List Int) (k : Int)
    (hb : (v.length + k.natAbs) * (v.length + k.natAbs) > usizeMax) :
    diag1d (Arr.flat v) k = .err .OutOfBounds := by
  unfold diag1d
  simp only [Arr.flat, Res.idx, List.getElem?_cons_zero, bind, Res.bind]
  rw [if_pos (Or.inr hb)]

/-- `saturating_add` decides the three comparisons of `tri/tril/triu` exactly like unbounded addition, for
every column index that fits `isize` with room to spare and every offset (even outside `isize`) -/
theorem satAdd_cmp (j i k : Int) (hj0 : 0 ≤ j) (hj : j < isizeMax) (hi : 0 ≤ i) :
    (j ≤ satAdd i k ↔ j ≤ i + k) ∧ (j > satAdd i k ↔ j > i + k) ∧ (j < satAdd i k ↔ j < i + k) := by
  unfold satAdd isizeMin
  unfold isizeMax at hj ⊢
  omega

/-- coordinates: the vector sits on the k-th diagonal -/
theorem diag1dAt_coord (v : List Int) (k : Int) (i j : Nat)
    (hi : i < v.length + k.natAbs) (hj : j < v.length + k.natAbs) :
    diag1dAt v k (i * (v.length + k.natAbs) + j) = if (j : Int) = i + k then v.getD (min i j) 0 else 0 := by
  obtain ⟨h1, h2⟩ := divmod2 (v.length + k.natAbs) i j hj
  simp only [diag1dAt, h1, h2]
  by_cases hk : k ≥ 0
  · by_cases hd : (j : Int) = i + k
    · have e1 : j = i + k.toNat := by omega
      have e2 : i < v.length := by omega
      have e3 : min i j = i := by omega
      simp [hk, hd, e1, e2]
      intro h; omega
    · have e1 : ¬ (j = i + k.toNat) := by omega
      have e2 : ¬ (k < 0) := by omega
      simp [hd, e1, e2]
  · by_cases hd : (j : Int) = i + k
    · have e1 : i = j + k.natAbs := by omega
      have e2 : j < v.length := by omega
      have e3 : min i j = j := by omega
      have e4 : k < 0 := by omega
      simp [hk, hd, e4, e2, e3]
      intro; omega
    · have e1 : ¬ (i = j + k.natAbs) := by omega
      simp [hk, hd, e1]

/-- the coordinate pairs `(start_row..rows).zip(start_col..cols)` walked by `diag_2d` -/
def diagPairs (r c : Nat) (k : Int) : List (Nat × Nat) :=
  (List.range' (-k).toNat (r - (-k).toNat)).zip (List.range' k.toNat (c - k.toNat))

theorem diagPairs_length (r c : Nat) (k : Int) :
    (diagPairs r c k).length = min (r - (-k).toNat) (c - k.toNat) := by
  simp [diagPairs]

theorem diagPairs_getElem (r c : Nat) (k : Int) (t : Nat) (h : t < (diagPairs r c k).length) :
    (diagPairs r c k)[t] = ((-k).toNat + t, k.toNat + t) := by
  simp [diagPairs, List.getElem_zip, List.getElem_range']

theorem diagPairs_mem (r c : Nat) (k : Int) (p : Nat × Nat) (h : p ∈ diagPairs r c k) : p.1 < r ∧ p.2 < c := by
  obtain ⟨t, ht, rfl⟩ := List.getElem_of_mem h
  rw [diagPairs_getElem]
  rw [diagPairs_length] at ht
  simp only; omega

theorem diag2d_eq (a : Arr Int) (r c : Nat) (k : Int) (hwf : a.WF) (hs : a.shape = [r, c]) :
    diag2d a k = .ok (Arr.flat ((diagPairs r c k).map fun p => a.elems.getD (p.1 * c + p.2) 0)) := by
  unfold diag2d
  have hstart : (if k ≥ 0 then ((0 : Nat), k.toNat) else (k.natAbs, 0)) = ((-k).toNat, k.toNat) := by
    split
    · exact Prod.ext (by simp only; omega) rfl
    · exact Prod.ext (by simp only; omega) (by simp only; omega)
  simp only [hs, Res.idx, List.getElem?_cons_zero, List.getElem?_cons_succ, bind, Res.bind, hstart]
  have hlen : a.elems.length = r * c := by rw [hwf, hs]; simp
  rw [show (List.range' (-k).toNat (r - (-k).toNat)).zip (List.range' k.toNat (c - k.toNat)) = diagPairs r c k from rfl]
  rw [mapM'_ok _ (fun p => a.elems.getD (p.1 * c + p.2) 0)]
  · exact new_ok _ _ (by simp)
  · intro p hp
    obtain ⟨h1, h2⟩ := diagPairs_mem r c k p hp
    have : p.1 * c + p.2 < a.elems.length := by rw [hlen]; exact lt2 r c _ _ h1 h2
    simp [List.getD_eq_getElem?_getD, this]

theorem arangeLoop_length (step : Rat) : ∀ (n : Nat) (v : Rat), (arangeLoop step n v).length = n
  | 0, _ => rfl
  | n + 1, v => by simp [arangeLoop, arangeLoop_length step n]

theorem arangeLoop_getElem? (step : Rat) : ∀ (n : Nat) (v : Rat) (i : Nat), i < n →
    (arangeLoop step n v)[i]? = some (v + (i : Rat) * step)
  | 0, _, _, h => by omega
  | n + 1, v, 0, _ => by simp [arangeLoop, Rat.zero_mul, Rat.add_zero]
  | n + 1, v, i + 1, h => by
    simp only [arangeLoop, List.getElem?_cons_succ]
    rw [arangeLoop_getElem? step n (v + step) i (by omega)]
    congr 1
    have : ((i + 1 : Nat) : Rat) = (i : Rat) + 1 := by simp
    rw [this]; grind

theorem arange_bound (s t step : Rat) (hstep : 1 ≤ step) (i : Nat)
    (hi : i < ((t + 1 - s) / step).floor.toNat) : s + (i : Rat) * step ≤ t := by
  have h1 : ((i + 1 : Nat) : Int) ≤ ((t + 1 - s) / step).floor := by omega
  have h2 : (((i + 1 : Nat) : Int) : Rat) ≤ (t + 1 - s) / step := Rat.le_floor_iff.1 h1
  have hpos : (0 : Rat) < step := by grind
  have h3 : ((i : Rat) + 1) * step ≤ t + 1 - s := by
    have hne : step ≠ 0 := by grind
    have := Rat.mul_le_mul_of_nonneg_right h2 (Rat.le_of_lt hpos)
    rw [Rat.div_mul_cancel hne, Rat.intCast_natCast] at this
    simpa using this
  grind

/-- `identity`'s test `i % (n+1) == 0` picks exactly the main diagonal -/
theorem identity_diag (n i : Nat) (h : i < n * n) : (i % (n + 1) = 0) ↔ (i % n = i / n) := by
  have hn : 0 < n := by
    rcases Nat.eq_zero_or_pos n with h0 | h0
    · subst h0; simp at h
    · exact h0
  have hc : i % n < n := Nat.mod_lt _ hn
  have hr : i / n < n := (Nat.div_lt_iff_lt_mul hn).2 h
  have hi : i = n * (i / n) + i % n := (Nat.div_add_mod i n).symm
  generalize i / n = r at *
  generalize i % n = c at *
  have hs : (n + 1) * r = n * r + r := by rw [Nat.add_mul]; simp
  by_cases hcr : r ≤ c
  · have : i = (n + 1) * r + (c - r) := by omega
    rw [this, Nat.mul_add_mod_self_left, Nat.mod_eq_of_lt (by omega)]; omega
  · have hr1 : r = (r - 1) + 1 := by omega
    have hs2 : (n + 1) * r = (n + 1) * (r - 1) + (n + 1) := by
      conv => lhs; rw [hr1, Nat.mul_add]; simp
    have : i = (n + 1) * (r - 1) + (n + 1 + c - r) := by omega
    rw [this, Nat.mul_add_mod_self_left, Nat.mod_eq_of_lt (by omega)]; omega

end ArrModel.C16
