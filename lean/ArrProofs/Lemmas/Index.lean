import ArrModel.Index
/-! helper lemmas for C02: ravel/unravel bijection and fold ↔ structural forms -/
namespace ArrModel

theorem ravel_lt : ∀ (s c : List Nat), inRange s c = true → ravel s c < s.prod
  | [], [], _ => by simp [ravel]
  | d :: ds, c :: cs, h => by
    simp [inRange] at h
    have ih := ravel_lt ds cs h.2
    simp only [ravel, List.prod_cons]
    have : c * ds.prod + ds.prod ≤ d * ds.prod := by
      have : (c + 1) * ds.prod ≤ d * ds.prod := Nat.mul_le_mul_right _ h.1
      rw [Nat.add_mul] at this; omega
    omega
  | [], _ :: _, h => by simp [inRange] at h
  | _ :: _, [], h => by simp [inRange] at h

theorem unravel_ravel : ∀ (s c : List Nat), inRange s c = true → unravel s (ravel s c) = c
  | [], [], _ => by simp [unravel]
  | d :: ds, c :: cs, h => by
    simp [inRange] at h
    have hlt := ravel_lt ds cs h.2
    have ih := unravel_ravel ds cs h.2
    have hpos : 0 < ds.prod := by omega
    simp only [ravel, unravel]
    have h1 : (c * ds.prod + ravel ds cs) / ds.prod = c := by
      rw [Nat.add_comm, Nat.add_mul_div_right _ _ hpos, Nat.div_eq_of_lt hlt]; simp
    have h2 : (c * ds.prod + ravel ds cs) % ds.prod = ravel ds cs := by
      rw [Nat.add_comm, Nat.add_mul_mod_self_right, Nat.mod_eq_of_lt hlt]
    rw [h1, h2, ih]
  | [], _ :: _, h => by simp [inRange] at h
  | _ :: _, [], h => by simp [inRange] at h

theorem ravel_unravel : ∀ (s : List Nat) (i : Nat), i < s.prod →
    ravel s (unravel s i) = i ∧ inRange s (unravel s i) = true
  | [], i, h => by simp at h; simp [unravel, ravel, inRange, h]
  | d :: ds, i, h => by
    simp only [List.prod_cons] at h
    have hpos : 0 < ds.prod := by
      rcases Nat.eq_zero_or_pos ds.prod with h0 | h0
      · simp [h0] at h
      · exact h0
    have hm : i % ds.prod < ds.prod := Nat.mod_lt _ hpos
    have ⟨ih1, ih2⟩ := ravel_unravel ds (i % ds.prod) hm
    simp only [unravel, ravel, inRange, ih1, ih2, Bool.and_true, decide_eq_true_eq]
    refine ⟨Nat.div_add_mod' i ds.prod, ?_⟩
    exact (Nat.div_lt_iff_lt_mul hpos).2 h

theorem unravel_length : ∀ (s : List Nat) (i : Nat), (unravel s i).length = s.length
  | [], _ => rfl
  | _ :: ds, i => by simp [unravel, unravel_length ds]

theorem inRange_length : ∀ (s c : List Nat), inRange s c = true → c.length = s.length
  | [], [], _ => rfl
  | d :: ds, c :: cs, h => by
    simp [inRange] at h; simp [inRange_length ds cs h.2]
  | [], _ :: _, h => by simp [inRange] at h
  | _ :: _, [], h => by simp [inRange] at h

theorem foldl_ravel (l : List (Nat × Nat)) (a s : Nat) :
    l.reverse.foldl (fun (acc : Nat × Nat) (dc : Nat × Nat) => (acc.1 + dc.2 * acc.2, acc.2 * dc.1)) (a, s)
      = (a + s * ravel (l.map Prod.fst) (l.map Prod.snd), s * (l.map Prod.fst).prod) := by
  induction l generalizing a s with
  | nil => simp [ravel]
  | cons x xs ih =>
    simp only [List.reverse_cons, List.foldl_append, List.foldl_cons, List.foldl_nil, ih, List.map_cons, ravel, List.prod_cons]
    refine Prod.ext ?_ ?_ <;> simp only [Nat.mul_add, Nat.mul_comm, Nat.mul_left_comm, Nat.add_assoc, Nat.mul_assoc]
    · omega

theorem indexAtFold_eq (s c : List Nat) (h : s.length = c.length) : (indexAtFold s c).1 = ravel s c := by
  unfold indexAtFold
  rw [foldl_ravel]
  rw [List.map_fst_zip (by omega), List.map_snd_zip (by omega)]; simp

/-- `anyOut` is the negation of `inRange` once lengths agree -/
theorem anyOut_eq : ∀ (s c : List Nat), s.length = c.length → anyOut s c = !inRange s c
  | [], [], _ => by simp [anyOut, inRange]
  | d :: ds, c :: cs, h => by
    have ih := anyOut_eq ds cs (by simpa using h)
    simp only [anyOut, List.zip_cons_cons, List.any_cons, inRange] at ih ⊢
    rw [ih]
    by_cases hc : c < d <;> simp [hc, Nat.not_le.2, Nat.not_lt.1]
  | [], _ :: _, h => by simp at h
  | _ :: _, [], h => by simp at h

theorem prod_pos_of : ∀ (s : List Nat), (∀ d ∈ s, 0 < d) → 0 < s.prod
  | [], _ => by simp
  | d :: ds, h => by
    simp only [List.prod_cons]
    exact Nat.mul_pos (h d List.mem_cons_self) (prod_pos_of ds (fun x hx => h x (List.mem_cons_of_mem _ hx)))

theorem prod_eq_zero_of_mem : ∀ (s : List Nat), 0 ∈ s → s.prod = 0
  | [], h => by simp at h
  | d :: ds, h => by
    simp only [List.prod_cons]
    rcases List.mem_cons.1 h with h | h
    · subst h; simp
    · simp [prod_eq_zero_of_mem ds h]

/-- the unravel fold: generalised accumulator form -/
theorem unravelFold_aux (s : List Nat) (i : Nat) (acc : List Nat) (hpos : ∀ d ∈ s, 0 < d) :
    (s.reverse.foldl (fun (a : Nat × List Nat) dim => (a.1 / dim, a.2 ++ [a.1 % dim])) (i, acc))
      = (i / s.prod, acc ++ (unravel s (i % s.prod)).reverse) := by
  induction s generalizing i acc with
  | nil => simp [unravel, Nat.mod_one]
  | cons d ds ih =>
    have hds : ∀ x ∈ ds, 0 < x := fun x hx => hpos x (List.mem_cons_of_mem _ hx)
    have hd : 0 < d := hpos d (List.mem_cons_self)
    have hp : 0 < ds.prod := prod_pos_of ds hds
    simp only [List.reverse_cons, List.foldl_append, List.foldl_cons, List.foldl_nil, ih i acc hds,
      List.prod_cons, unravel, List.reverse_cons, List.append_assoc]
    refine Prod.ext ?_ ?_
    · simp only; rw [Nat.div_div_eq_div_mul, Nat.mul_comm]
    · simp only
      congr 1
      have h1 : i % (d * ds.prod) % ds.prod = i % ds.prod := Nat.mod_mod_of_dvd _ (Nat.dvd_mul_left _ _)
      have h2 : i % (d * ds.prod) / ds.prod = i / ds.prod % d := by
        rw [Nat.mul_comm d, Nat.mod_mul_right_div_self]
      rw [h1, h2]

theorem unravelFold_eq (s : List Nat) (i : Nat) (h : i < s.prod) : unravelFold s i = unravel s i := by
  have hpos : ∀ d ∈ s, 0 < d := by
    intro d hd
    rcases Nat.eq_zero_or_pos d with h0 | h0
    · subst h0
      have : s.prod = 0 := prod_eq_zero_of_mem s hd
      omega
    · exact h0
  unfold unravelFold
  rw [unravelFold_aux s i [] hpos]
  simp [Nat.mod_eq_of_lt h]

end ArrModel
