import ArrProofs.Lemmas.C12Rot
import ArrProofs.Lemmas.C12FlipAll
import ArrProofs.Lemmas.C12Roll
/-!
# C12 on arrays with a zero-length axis

A well-formed array with a zero-length axis has no elements.  `flip_axis` / `roll_axis` (`permAxis`) on the empty
element vector still CUT it: arm "first axis" cuts into `shape[0]` blocks, arm "last axis" into `prod shape[..ax]` rows,
arm "inner axis" into `shape[0]` blocks and recurses.  `splitFlat 0 _` refuses with `ParameterError`, `splitFlat p []`
(`p > 0`) returns the single empty piece.  So the outcome is decided by the axes the code cuts along, `cutAxes ax shape`:
an error when one of them has length 0, otherwise the (empty) vector unchanged.
-/
namespace ArrModel
open Arr
variable {α : Type}

/-- the axes `flip_axis(ax)` / `roll_axis(ax)` cut along: `0 … ax`, except that the last axis of an array of rank ≥ 2 is
processed by cutting along `0 … ax − 1` only -/
def cutAxes (ax : Nat) (shape : List Nat) : List Nat :=
  shape.take (if 0 < ax ∧ ax + 1 = shape.length then ax else ax + 1)

theorem prod_eq_zero_iff_mem (s : List Nat) : s.prod = 0 ↔ 0 ∈ s := by
  constructor
  · intro h
    apply Classical.byContradiction
    intro hn
    have := prod_pos_of s (fun d hd => Nat.pos_of_ne_zero (fun e => hn (e ▸ hd)))
    omega
  · exact prod_eq_zero_of_mem s

theorem elems_nil_of_zero_mem' (a : Arr α) (hwf : a.WF) (h0 : 0 ∈ a.shape) : a.elems = [] := by
  apply List.eq_nil_of_length_eq_zero
  rw [hwf]; exact prod_eq_zero_of_mem _ h0

theorem eq_mk_nil_of_zero_mem' (a : Arr α) (hwf : a.WF) (h0 : 0 ∈ a.shape) : a = ⟨[], a.shape⟩ := by
  cases a with | mk e s =>
  have := elems_nil_of_zero_mem' ⟨e, s⟩ hwf h0
  simp only at this; subst this; rfl

theorem splitFlat_nil {β : Type} (parts : Nat) :
    splitFlat parts ([] : List β) = if parts = 0 then .err .ParameterError else .ok [[]] := by
  unfold splitFlat; split <;> simp

/-- **the skeleton on the empty vector** -/
theorem permAxis_nil (p : ∀ β : Type, List β → List β) (h0 : p α [] = []) (h1 : p (List α) [[]] = [[]]) :
    ∀ (ax : Nat) (shape : List Nat), shape.prod = 0 → ax < shape.length →
      permAxis p ax shape ([] : List α) = if 0 ∈ cutAxes ax shape then .err .ParameterError else .ok [] := by
  intro ax
  induction ax with
  | zero =>
    intro shape hp hax
    cases shape with
    | nil => simp at hax
    | cons d ds =>
      have hc : cutAxes 0 (d :: ds) = [d] := by simp [cutAxes]
      simp only [permAxis, Res.idx, List.getElem?_cons_zero, Res.bind_ok, splitFlat_nil, hc, List.mem_singleton]
      by_cases hd : d = 0
      · rw [if_pos hd, if_pos hd.symm]; rfl
      · rw [if_neg hd, if_neg (fun e => hd e.symm)]
        simp only [Res.bind_ok, h1, List.flatten_cons, List.flatten_nil, List.append_nil]
  | succ ax ih =>
    intro shape hp hax
    by_cases hlast : ax + 1 = shape.length - 1
    · have hc : cutAxes (ax + 1) shape = shape.take (ax + 1) := by
        unfold cutAxes; rw [if_pos ⟨by omega, by omega⟩]
      have hiff := prod_eq_zero_iff_mem (shape.take (ax + 1))
      rw [permAxis, if_pos hlast, splitFlat_nil, hc]
      by_cases hz : (shape.take (ax + 1)).prod = 0
      · rw [if_pos hz, if_pos (hiff.1 hz)]; rfl
      · rw [if_neg hz, if_neg (fun h => hz (hiff.2 h))]
        simp only [Res.bind_ok, List.map_cons, List.map_nil, h0, List.flatten_cons, List.flatten_nil, List.append_nil]
    · cases shape with
      | nil => simp at hax
      | cons d ds =>
        have hax' : ax < ds.length := by simp at hax; omega
        have hne : ¬ (ax + 1 + 1 = (d :: ds).length) := by simp at hlast ⊢; omega
        have hc : cutAxes (ax + 1) (d :: ds) = d :: ds.take (ax + 1) := by
          unfold cutAxes; rw [if_neg (fun h => hne h.2)]; rfl
        have hc' : cutAxes ax ds = ds.take (ax + 1) := by
          unfold cutAxes; rw [if_neg (fun h => by simp at hne; omega)]
        simp only [permAxis, hlast, if_false, Res.idx, List.getElem?_cons_zero, Res.bind_ok, splitFlat_nil, hc, List.mem_cons,
          List.drop_succ_cons, List.drop_zero]
        by_cases hd : d = 0
        · rw [if_pos hd, if_pos (Or.inl hd.symm)]; rfl
        · have hds : ds.prod = 0 := by
            simp only [List.prod_cons] at hp
            rcases Nat.mul_eq_zero.1 hp with h | h
            · exact absurd h hd
            · exact h
          rw [if_neg hd]
          simp only [Res.bind_ok, Res.mapM', List.map_cons, List.map_nil, List.length_nil, hds, if_true, Res.sequence,
            ih ds hds hax', hc']
          by_cases hz : 0 ∈ ds.take (ax + 1)
          · rw [if_pos hz, if_pos (Or.inr hz)]; rfl
          · rw [if_neg hz, if_neg (by rintro (h | h); exact hd h.symm; exact hz h)]; rfl

theorem rotateRight_singleton {β : Type} (x : β) (k : Nat) : rotateRight [x] k = [x] := by
  unfold rotateRight
  simp [List.rotateRight]

theorem flipAxis_nil (ax : Nat) (shape : List Nat) (hp : shape.prod = 0) (hax : ax < shape.length) :
    flipAxis ax shape ([] : List α) = if 0 ∈ cutAxes ax shape then .err .ParameterError else .ok [] := by
  rw [flipAxis_eq_permAxis]
  exact permAxis_nil (fun _ => List.reverse) rfl rfl ax shape hp hax

theorem rollAxis_nil (ax : Nat) (shape : List Nat) (sh : Int) (hp : shape.prod = 0) (hax : ax < shape.length) :
    rollAxis ax shape sh ([] : List α) = if 0 ∈ cutAxes ax shape then .err .ParameterError else .ok [] := by
  rw [rollAxis_eq_permAxis]
  exact permAxis_nil (rollPerm sh) (by simp [rollPerm, rotateRight]) (by simp [rollPerm, rotateRight_singleton]) ax shape hp hax

/-- folding steps that answer `Err(ParameterError)` on a marked item and keep the empty vector otherwise -/
theorem foldl_nil_steps {ι : Type} (step : ι → List α → Res (List α)) (bad : ι → Bool)
    (l : List ι) (hstep : ∀ x ∈ l, step x [] = if bad x then .err .ParameterError else .ok []) :
    l.foldl (fun (acc : Res (List α)) x => acc >>= fun es => step x es) (.ok []) =
      if l.any bad then .err .ParameterError else .ok [] := by
  have herr : ∀ (l : List ι) (e : Err), l.foldl (fun (acc : Res (List α)) x => acc >>= fun es => step x es) (.err e) = .err e := by
    intro l e; induction l with
    | nil => rfl
    | cons x xs ih => simpa only [List.foldl_cons, Res.bind_err] using ih
  induction l with
  | nil => rfl
  | cons x xs ih =>
    simp only [List.foldl_cons, Res.bind_ok, List.any_cons, hstep x List.mem_cons_self]
    by_cases hb : bad x = true
    · simp only [hb, if_true, Bool.true_or, herr]
    · have hb' : bad x = false := by simpa using hb
      simp only [hb', Bool.false_eq_true, if_false, Bool.false_or]
      exact ih (fun y hy => hstep y (List.mem_cons_of_mem _ hy))

/-- **flip of an empty array along a list of valid axes**: `Err(ParameterError)` when one of the listed axes makes the
code cut along a zero-length axis, otherwise the array unchanged -/
theorem flip_empty (a : Arr α) (axes : List Int) (hwf : a.WF) (h0 : 0 ∈ a.shape)
    (hv : ∀ x ∈ axes, normalizeAxis a.ndim x < a.ndim) :
    a.flip (some axes) =
      if axes.any (fun x => decide (0 ∈ cutAxes (normalizeAxis a.ndim x) a.shape)) then .err .ParameterError else .ok a := by
  have hany : (axes.map (normalizeAxis a.ndim)).any (fun x => decide (x ≥ a.ndim)) = false := by
    rw [List.any_eq_false]
    intro x hx
    obtain ⟨y, hy, rfl⟩ := List.mem_map.1 hx
    have := hv y hy
    simp only [decide_eq_true_eq]; omega
  have he := elems_nil_of_zero_mem' a hwf h0
  have hp : a.shape.prod = 0 := prod_eq_zero_of_mem _ h0
  have hfold := foldl_nil_steps (α := α) (fun x es => flipAxis x a.shape es) (fun x => decide (0 ∈ cutAxes x a.shape))
    (axes.map (normalizeAxis a.ndim))
    (fun x hx => by
      obtain ⟨y, hy, rfl⟩ := List.mem_map.1 hx
      simp only [flipAxis_nil _ a.shape hp (hv y hy), decide_eq_true_eq])
  unfold Arr.flip
  simp only [hany, Bool.false_eq_true, if_false, he, hfold, List.any_map, Function.comp_def]
  split
  · rfl
  · simp only [Res.bind_ok, Arr.reshape, Arr.flat, Arr.new, hp, List.length_nil, if_true]
    rw [eq_mk_nil_of_zero_mem' a hwf h0]

/-- **flip without axes on an empty array**: the array unchanged -/
theorem flip_none_empty (a : Arr α) (hwf : a.WF) (h0 : 0 ∈ a.shape) : a.flip none = .ok a := by
  have he := elems_nil_of_zero_mem' a hwf h0
  have hp : a.shape.prod = 0 := prod_eq_zero_of_mem _ h0
  simp only [Arr.flip, he, List.reverse_nil, Arr.new, hp, List.length_nil, if_true]
  rw [eq_mk_nil_of_zero_mem' a hwf h0]

/-- **roll of an empty array on a given pairing of shifts and valid axes**: rank 1 — the array unchanged; rank ≥ 2 —
`Err(ParameterError)` when one of the accumulated axes makes the code cut along a zero-length axis, else unchanged -/
theorem roll_empty_of_bc (a : Arr α) (shift axs : List Int) (ps : List (Int × Int)) (n : Nat)
    (hbc : (Arr.flat shift).broadcast (Arr.flat axs) = .ok ⟨ps, [n]⟩)
    (hwf : a.WF) (h0 : 0 ∈ a.shape) (hv : ∀ p ∈ ps, normalizeAxis a.ndim p.2 < a.ndim) :
    a.roll shift (some axs) =
      if 2 ≤ a.ndim ∧ (accumShifts (pairsOf a.ndim ps)).any (fun p => decide (0 ∈ cutAxes p.1 a.shape)) = true
      then .err .ParameterError else .ok a := by
  have hvalid := pairsOf_valid a.ndim ps hv
  have hany : (accumShifts (pairsOf a.ndim ps)).any (fun p => decide (p.1 ≥ a.ndim)) = false := by
    rw [List.any_eq_false]
    intro p hp
    have := hvalid p hp
    simp only [decide_eq_true_eq]; omega
  have ha := eq_mk_nil_of_zero_mem' a hwf h0
  have hp : a.shape.prod = 0 := prod_eq_zero_of_mem _ h0
  cases a with | mk elems shape =>
  simp only [Arr.mk.injEq, and_true] at ha
  subst ha
  simp only [Arr.ndim] at hv hvalid hany hp ⊢
  cases shape with
  | nil => simp at h0
  | cons d ds =>
    cases ds with
    | nil =>
      have hfold : ∀ (l : List (Nat × Int)),
          l.foldl (fun (es : List α) p => rotateRight es (p.2 % (es.length : Int)).toNat) [] = [] := by
        intro l; induction l with
        | nil => rfl
        | cons x xs ih => simpa only [List.foldl_cons, rotateRight, List.isEmpty_nil, if_true] using ih
      unfold Arr.roll
      simp only [Option.isNone_some, Bool.false_eq_true, if_false, Option.getD_some, hbc, Res.bind_ok]
      simp only [Arr.ndim, List.length_cons, List.length_nil, Nat.lt_irrefl, if_false, Nat.zero_add]
      have hany' := hany
      simp only [List.length_cons, List.length_nil, Nat.zero_add, pairsOf] at hany'
      simp only [pairsOf, hany', Bool.false_eq_true, if_false, hfold, Arr.reshape, Arr.flat, Arr.new, hp, List.length_nil, if_true]
      exact (if_neg (fun h => absurd h.1 (by omega))).symm
    | cons d2 ds =>
      have hfold := foldl_nil_steps (α := α) (fun (p : Nat × Int) es => rollAxis p.1 (d :: d2 :: ds) p.2 es)
        (fun p => decide (0 ∈ cutAxes p.1 (d :: d2 :: ds)))
        (accumShifts (pairsOf (ds.length + 1 + 1) ps))
        (fun p hp' => by
          simp only [rollAxis_nil p.1 (d :: d2 :: ds) p.2 hp (hvalid p hp'), decide_eq_true_eq])
      unfold Arr.roll
      simp only [Option.isNone_some, Bool.false_eq_true, if_false, Option.getD_some, hbc, Res.bind_ok]
      simp only [Arr.ndim, List.length_cons, List.length_nil, Nat.lt_irrefl, if_false, Nat.zero_add]
      have hany' := hany
      simp only [List.length_cons, pairsOf] at hany' hfold
      simp only [hany', Bool.false_eq_true, if_false, hfold, pairsOf]
      have h2 : 2 ≤ ds.length + 1 + 1 := by omega
      simp only [h2, true_and]
      split
      · rename_i h; simp only [h, if_true, Res.bind_err]
      · rename_i h; simp only [h, Arr.new, hp]; rfl

/-- **roll along the flattened order on an empty array**: the array unchanged -/
theorem roll_flat_empty (a : Arr α) (s : Int) (hwf : a.WF) (h0 : 0 ∈ a.shape) : a.roll [s] none = .ok a := by
  have hbc := broadcast_flat_same [s] [0] rfl (by simp)
  have he := elems_nil_of_zero_mem' a hwf h0
  have hp : a.shape.prod = 0 := prod_eq_zero_of_mem _ h0
  unfold Arr.roll
  simp only [Option.isNone_none, if_true, Option.getD_none, hbc, Res.bind_ok]
  simp only [Arr.ndim, Arr.ravel, Arr.flat, he, List.length_cons, List.length_nil, List.zip_cons_cons, List.zip_nil_right,
    List.map_cons, List.map_nil, accumShifts, List.find?_nil, List.any_cons, List.any_nil, List.foldl_cons, List.foldl_nil,
    Arr.reshape, Arr.new, rotateRight, List.isEmpty_nil, if_true, hp]
  have : ¬ (normalizeAxis a.shape.length 0 ≥ 0 + 1) := by simp [normalizeAxis]
  simp only [this, decide_false, Bool.or_false, Bool.false_eq_true, if_false, Nat.lt_irrefl]
  rw [eq_mk_nil_of_zero_mem' a hwf h0]

/-- exchanging two axes of an empty array: the empty array of the exchanged shape -/
theorem swap_empty (a : Arr α) (zero : α) (i j : Nat) (hwf : a.WF) (h0 : 0 ∈ a.shape) (hi : i < a.ndim) (hj : j < a.ndim) :
    a.transpose zero (some ((swapOrder a.ndim i j).map Int.ofNat)) = .ok ⟨[], permute (swapOrder a.ndim i j) a.shape⟩ ∧
    0 ∈ permute (swapOrder a.ndim i j) a.shape := by
  obtain ⟨r, h1, h2, h3, _⟩ := swap_at a zero a.ndim i j rfl hwf hi hj
  have hp : (permute (swapOrder a.ndim i j) a.shape).prod = 0 := by
    rw [prod_permute _ _ (C06.swapOrder_perm a.ndim i j hi hj)]; exact prod_eq_zero_of_mem _ h0
  have hz := (prod_eq_zero_iff_mem _).1 hp
  refine ⟨?_, hz⟩
  rw [h1]; congr 1
  have := eq_mk_nil_of_zero_mem' r h3 (by rw [h2]; exact hz)
  rw [this, h2]

/-- every axis that is paired with a shift survives the accumulation -/
theorem accumShifts_keys_conv : ∀ (ps : List (Nat × Int)) (q : Nat × Int), q ∈ ps → ∃ p ∈ accumShifts ps, p.1 = q.1
  | [], _, h => by simp at h
  | (a, s) :: rest, q, h => by
    have ih := accumShifts_keys_conv rest
    simp only [accumShifts]
    cases hf : (accumShifts rest).find? (fun p => p.1 == a) with
    | some p0 =>
      simp only
      have hp0 : p0 ∈ accumShifts rest := List.mem_of_find?_eq_some hf
      have hk0 : p0.1 = a := by have := List.find?_some hf; simpa using this
      rcases List.mem_cons.1 h with rfl | hq
      · exact ⟨_, List.mem_map.2 ⟨p0, hp0, rfl⟩, by simp only [hk0, beq_self_eq_true, if_true]⟩
      · obtain ⟨p, hp, e⟩ := ih q hq
        refine ⟨_, List.mem_map.2 ⟨p, hp, rfl⟩, ?_⟩
        split <;> exact e
    | none =>
      simp only
      rcases List.mem_cons.1 h with rfl | hq
      · exact ⟨_, List.mem_cons_self, rfl⟩
      · obtain ⟨p, hp, e⟩ := ih q hq
        exact ⟨p, List.mem_cons_of_mem _ hp, e⟩

/-- **roll with equally long lists refuses an axis outside the rank**, wherever it stands (every array) -/
theorem roll_list_rejects (a : Arr α) (shift axs : List Int) (hlen : shift.length = axs.length) (hne : shift ≠ [])
    (h : ∃ x ∈ axs, normalizeAxis a.ndim x ≥ a.ndim) : a.roll shift (some axs) = .err .AxisOutOfBounds := by
  obtain ⟨x, hx, hge⟩ := h
  obtain ⟨i, hi, rfl⟩ := List.getElem_of_mem hx
  have hi' : i < shift.length := by omega
  have hz : (shift[i], axs[i]) ∈ shift.zip axs := by
    rw [List.mem_iff_getElem]
    exact ⟨i, by simp [List.length_zip]; omega, by simp [List.getElem_zip]⟩
  have hq : (normalizeAxis a.ndim axs[i], shift[i]) ∈ (shift.zip axs).map (fun p => (normalizeAxis a.ndim p.2, p.1)) :=
    List.mem_map.2 ⟨_, hz, rfl⟩
  obtain ⟨p, hp, e⟩ := accumShifts_keys_conv _ _ hq
  have hany : (accumShifts ((shift.zip axs).map (fun p => (normalizeAxis a.ndim p.2, p.1)))).any
      (fun p => decide (p.1 ≥ a.ndim)) = true := by
    rw [List.any_eq_true]
    exact ⟨p, hp, by simp only [decide_eq_true_eq]; simp only at e; omega⟩
  have hbc := broadcast_flat_same shift axs hlen hne
  unfold Arr.roll
  simp only [Option.isNone_some, Bool.false_eq_true, if_false, Option.getD_some, hbc, Res.bind_ok]
  simp only [Arr.ndim, List.length_cons, List.length_nil, Nat.lt_irrefl, if_false, Nat.zero_add]
  simp only [Arr.ndim] at hany
  simp only [hany, if_true]

end ArrModel
