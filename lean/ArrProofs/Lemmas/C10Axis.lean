import ArrProofs.Lemmas.C08Reduce
import ArrProofs.Lemmas.C10Basic
/-!
# C10 lemmas, part 5 — lifting lane functions through `apply_along_axis`

Built on the lead's central lemma `applyAlongAxis_spec` / `applyAlongAxis_single` (`Lemmas/C08AlongAxis`, `C08Reduce`).
* `along_lanewise`: a length-preserving lane function (sort, argsort) replaces every lane by its image;
* `countAxis_single`: a one-element lane function behind the `keepdims` wrapper `countAxis` (argmax, argmin).
-/
namespace ArrModel.Sort
open ArrModel Arr

variable {α β : Type}

/-- `apply_along_axis` with a lane function `f` that maps every lane `l` to the 1-D array `g l` of the same length:
the shape is kept and **every lane of the result is `g` of the corresponding input lane** -/
theorem along_lanewise (a : Arr α) (zero : α) (zb : β) (axis : Nat) (f : Arr α → Res (Arr β)) (g : List α → List β)
    (hwf : a.WF) (hax : axis < a.ndim) (hnz : 0 ∉ a.shape)
    (hg : ∀ lane : List α, lane.length = a.shape.getD axis 0 →
      f (Arr.flat lane) = .ok (Arr.flat (g lane)) ∧ (g lane).length = lane.length) :
    ∃ r, a.applyAlongAxis zero zb axis f = .ok r ∧ r.shape = a.shape ∧ r.WF ∧
      ∀ c, inRange a.shape c = true → laneOf r axis c = g (laneOf a axis c) := by
  obtain ⟨r, h1, h2, h3, h4⟩ := applyAlongAxis_spec a zero zb axis (a.shape.getD axis 0) f hwf hax hnz
    (fun lane hl => ⟨_, (hg lane hl).1, by simp only [Arr.flat]; rw [(hg lane hl).2, hl]⟩)
  rw [set_getD_self] at h2
  refine ⟨r, h1, h2, h3, ?_⟩
  intro c hc
  have hax' : axis < a.shape.length := hax
  have hcl : c.length = a.shape.length := inRange_length _ _ hc
  have hca : inRange (a.shape.set axis (a.shape.getD axis 0)) c = true := by rw [set_getD_self]; exact hc
  have hcr : inRange (r.shape.set axis (a.shape.getD axis 0)) c = true := by rw [h2]; exact hca
  have hla : (laneOf a axis c).length = a.shape.getD axis 0 := laneOf_length a axis _ c hwf hca
  have hlr : (laneOf r axis c).length = a.shape.getD axis 0 := by
    have := laneOf_length r axis _ c h3 hcr; rw [h2] at this; exact this
  have hgl := (hg _ hla)
  apply List.ext_getElem?
  intro j
  by_cases hj : j < a.shape.getD axis 0
  · rw [laneOf_getElem? r axis _ c h3 hcr j (by rw [h2]; exact hj)]
    have hcj : inRange r.shape (c.set axis j) = true := by
      rw [h2]; exact inRange_set_axis _ _ _ _ _ hca hj
    obtain ⟨y, hy1, hy2⟩ := h4 _ hcj
    rw [laneOf_set, hgl.1] at hy1
    cases hy1
    rw [hy2, getD_set_self c axis j (by omega)]
    rfl
  · rw [List.getElem?_eq_none (by omega), List.getElem?_eq_none (by rw [hgl.2]; omega)]

/-- the `keepdims` wrapper `countAxis` around a lane function returning one element (argmax / argmin):
`keepdims = Some(true)` keeps the axis with length 1, otherwise the axis is removed; the value at every position of
the remaining axes is the element returned on the lane through that position -/
theorem countAxis_single (a : Arr α) (zero : α) (zb : β) (ax : Int) (kd : Option Bool)
    (f1 : Arr α → Option Bool → Res (Arr β))
    (hwf : a.WF) (hnz : 0 ∉ a.shape) (hax : normalizeAxis a.ndim ax < a.ndim)
    (hf : ∀ lane : List α, lane.length = a.shape.getD (normalizeAxis a.ndim ax) 0 →
      ∃ y, f1 (Arr.flat lane) kd = .ok y ∧ y.elems.length = 1) :
    ∃ r, a.countAxis zero zb (some ax) kd f1 = .ok r ∧
      r.shape = (if kd = some true then a.shape.set (normalizeAxis a.ndim ax) 1
                 else a.shape.eraseIdx (normalizeAxis a.ndim ax)) ∧
      r.WF ∧
      ∀ c, inRange (a.shape.eraseIdx (normalizeAxis a.ndim ax)) c = true →
        ∃ y v, f1 (Arr.flat (laneOf a (normalizeAxis a.ndim ax) (c.insertIdx (normalizeAxis a.ndim ax) 0))) kd = .ok y ∧
          y.elems = [v] ∧
          r.get? (if kd = some true then c.insertIdx (normalizeAxis a.ndim ax) 0 else c) = some v := by
  generalize haxis : normalizeAxis a.ndim ax = axis at *
  have hax' : axis < a.shape.length := hax
  obtain ⟨r, h1, h2, h3, h4, h5⟩ := applyAlongAxis_single a zero zb axis (fun arr => f1 arr kd) hwf hax hnz hf
  by_cases hkd : kd = some true
  · subst hkd
    refine ⟨r, ?_, by simp [h2], h3, ?_⟩
    · simp only [Arr.countAxis, haxis, h1, Res.bind_ok, if_true]
    · intro c hc
      obtain ⟨y, v, e1, e2, _, e4⟩ := h5 c hc
      exact ⟨y, v, e1, e2, by simpa using e4⟩
  · refine ⟨⟨r.elems, a.shape.eraseIdx axis⟩, ?_, by simp [hkd], h4, ?_⟩
    · simp only [Arr.countAxis, haxis, h1, Res.bind_ok, hkd, if_false, vecRemove, Arr.reshape, Arr.new, h4]
      rw [if_neg (by omega)]; simp
    · intro c hc
      obtain ⟨y, v, e1, e2, e3, _⟩ := h5 c hc
      exact ⟨y, v, e1, e2, by simpa [hkd, Arr.get?] using e3⟩

end ArrModel.Sort
