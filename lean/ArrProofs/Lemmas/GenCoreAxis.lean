import ArrProofs.Lemmas.GenCore
import ArrModel.Axis
import ArrModel.Manip
import ArrProofs.Lemmas.C07
/-!
# GenCoreAxis — the translated `axis.rs` ring (`moveaxis`, `rollaxis`, `swapaxes`, `expand_dims`, `squeeze`),
`IterSorted::sorted`, `ValidateUnique::is_unique` are the hand-written model

`transpose` is OUTSIDE the translated set (a nested recursive fn over `&mut` slices): the generated definitions take it as a
parameter and the theorems instantiate it with the hand-written `Arr.transpose zero`.
-/
set_option linter.unusedSimpArgs false
namespace ArrModel.Gen.Core
open ArrModel Arr

variable {α β : Type}

/-! ## A. `sorted`, `is_unique`, general fold / map facts -/

theorem sorted_nat_eq (l : List Nat) : Iter_sorted l = sortNat l := rfl

theorem ordLe_pair_eq : (Rs.Ord.le : Nat × Nat → Nat × Nat → Bool) = pairLe := by
  funext p q
  show ((decide (p.1 ≤ q.1) && !decide (q.1 ≤ p.1)) || (decide (p.1 ≤ q.1) && decide (q.1 ≤ p.1) && decide (p.2 ≤ q.2)))
      = (decide (p.1 < q.1) || (p.1 == q.1 && decide (p.2 ≤ q.2)))
  rcases Nat.lt_trichotomy p.1 q.1 with h | h | h
  · have h1 : p.1 ≤ q.1 := by omega
    have h2 : ¬ q.1 ≤ p.1 := by omega
    simp [h, h1, h2]
  · simp [h]
  · have h1 : ¬ p.1 ≤ q.1 := by omega
    have h2 : ¬ p.1 < q.1 := by omega
    have h3 : ¬ p.1 = q.1 := by omega
    simp [h1, h2, h3]

/-- `sorted()` on pairs is the stable merge sort by the lexicographic order `pairLe` of the hand-written model -/
theorem sorted_pair_eq (l : List (Nat × Nat)) : Iter_sorted l = l.mergeSort pairLe := by
  show l.mergeSort Rs.Ord.le = _
  rw [ordLe_pair_eq]

theorem toHashSet_length_le [DecidableEq β] : ∀ (l : List β), (Rs.toHashSet l).length ≤ l.length
  | [] => Nat.le_refl _
  | x :: xs => by
    have ih := toHashSet_length_le xs
    unfold Rs.toHashSet
    by_cases h : xs.contains x = true
    · rw [if_pos h, List.length_cons]; omega
    · rw [if_neg h, List.length_cons, List.length_cons]; omega

/-- the number of distinct elements equals the length exactly when no element repeats -/
theorem toHashSet_length_eq_iff [DecidableEq β] : ∀ (l : List β), (Rs.toHashSet l).length = l.length ↔ l.Nodup
  | [] => by simp [Rs.toHashSet]
  | x :: xs => by
    have ih := toHashSet_length_eq_iff xs
    have hle := toHashSet_length_le xs
    unfold Rs.toHashSet
    by_cases h : xs.contains x = true
    · rw [if_pos h, List.length_cons, List.nodup_cons]
      have hm : x ∈ xs := by simpa using h
      constructor
      · intro he; omega
      · intro hn; exact absurd hm hn.1
    · rw [if_neg h, List.length_cons, List.length_cons, List.nodup_cons]
      have hm : x ∉ xs := by simpa using h
      constructor
      · intro he; exact ⟨hm, ih.1 (by omega)⟩
      · intro hn; rw [ih.2 hn.2]

/-- **`is_unique` accepts exactly the lists without repetition** -/
theorem is_unique_eq [DecidableEq β] (l : List β) :
    Vec_is_unique l = if l.Nodup then .ok () else .err .MustBeUnique := by
  unfold Vec_is_unique
  have := toHashSet_length_eq_iff l
  by_cases h : l.Nodup
  · have h' : l.length = (Rs.toHashSet l).length := (this.2 h).symm
    simp [h, ← h']
  · have h' : ¬ l.length = (Rs.toHashSet l).length := fun he => h (this.1 he.symm)
    simp [h, h']

theorem mapM_eq_map {γ δ : Type} (f : γ → Res δ) (g : γ → δ) (h : ∀ x, f x = .ok (g x)) :
    ∀ l : List γ, Rs.mapM l f = .ok (l.map g)
  | [] => rfl
  | x :: xs => by rw [Rs.mapM, h x, bind_ok', mapM_eq_map f g h xs]; rfl

theorem foldl_bind_of_not_ok {γ σ : Type} (f : σ → γ → Res σ) (r : Res σ) (hr : ∀ b, r ≠ .ok b) :
    ∀ l : List γ, l.foldl (fun acc x => acc >>= fun s => f s x) r = r
  | [] => rfl
  | x :: xs => by
    have : (r >>= fun s => f s x) = r := by
      cases r with
      | ok b => exact absurd rfl (hr b)
      | err e => rfl
      | panic => rfl
    rw [List.foldl_cons, this]; exact foldl_bind_of_not_ok f r hr xs

/-- a loop over mutated locals is the fold of the hand-written model that threads a `Res` -/
theorem foldM_eq_foldl_bind {γ σ : Type} (f : σ → γ → Res σ) :
    ∀ (l : List γ) (init : σ), Rs.foldM l init f = l.foldl (fun acc x => acc >>= fun s => f s x) (.ok init)
  | [], _ => rfl
  | x :: xs, init => by
    rw [Rs.foldM, List.foldl_cons, bind_ok']
    cases hfx : f init x with
    | ok b => rw [bind_ok']; exact foldM_eq_foldl_bind f xs b
    | err e => rw [bind_err', foldl_bind_of_not_ok f _ (by intro b h; cases h)]
    | panic => rw [bind_panic', foldl_bind_of_not_ok f _ (by intro b h; cases h)]

/-- a loop whose body only checks: it fails at the first offending element -/
theorem forM_check {γ : Type} (p : γ → Bool) (e : Err) (f : Unit → γ → Res Unit)
    (hf : ∀ x, f () x = if p x then .err e else .ok ()) :
    ∀ l : List γ, Rs.foldM l () f = if l.any p then .err e else .ok ()
  | [] => rfl
  | x :: xs => by
    rw [Rs.foldM, hf x]
    by_cases hp : p x = true
    · simp [hp]
    · simp only [hp, if_false, bind_ok', List.any_cons, Bool.false_or, Bool.false_eq_true]
      have := forM_check p e f hf xs
      simpa using this

theorem range_eq (n : Nat) : Rs.range 0 n = List.range n := by
  simp [Rs.range, List.range_eq_range']

theorem normalize_axis_mapM (a : Arr α) (l : List Int) :
    Rs.mapM l (fun i => Array_normalize_axis a i) = .ok (l.map (normalizeAxis a.ndim)) :=
  mapM_eq_map _ _ (fun i => normalize_axis_eq a i) l

theorem is_equal_nat (m n : Nat) : T_is_equal m n = if m = n then .ok () else .err .MustBeEqual := is_equal_spec m n

/-! ## B. `moveaxis`, `rollaxis`, `swapaxes` (C06) -/

/-- the insertion loop of `moveaxis` never panics (`d.min(order.len())` is a valid position) and is `moveaxisOrder` -/
theorem moveaxis_order (nd : Nat) (s d : List Nat) (f : List Nat → Nat × Nat → Res (List Nat))
    (hf : ∀ o p, f o p = Rs.vecInsert o (min p.1 o.length) p.2) :
    Rs.foldM (Iter_sorted (Rs.zip d s)) (Rs.filter (Rs.range 0 nd) (fun f => !(Rs.contains s f))) f
      = .ok (moveaxisOrder nd s d) := by
  rw [foldM_eq_foldl f (fun o p => o.insertIdx (min p.1 o.length) p.2)]
  · rw [sorted_pair_eq, range_eq]; rfl
  · intro o p _
    rw [hf]; unfold Rs.vecInsert
    rw [if_neg (by have := Nat.min_le_right p.1 o.length; omega)]

/-- **`moveaxis` as translated from the source, with the hand-written `transpose` plugged in, is `Arr.moveaxis` up to the error
variant.**  The script splits on the outcome of each of the four validations and closes every case by `simp`, so the order in which
the source performs them does not matter (it only decides which variant is reported when several fail). -/
theorem moveaxis_sim (a : Arr α) (zero : α) (src dst : List Int) :
    Res.sameClass (Array_moveaxis (fun x ax => x.transpose zero ax) a src dst) (a.moveaxis zero src dst) := by
  unfold Array_moveaxis Arr.moveaxis
  simp only [is_unique_eq, is_equal_nat, normalize_axis_mapM, bind_ok', Array_ndim, Arr.ndim]
  have ho := moveaxis_order a.shape.length (src.map (normalizeAxis a.shape.length)) (dst.map (normalizeAxis a.shape.length))
    _ (fun o p => rfl)
  by_cases h1 : src.Nodup <;> by_cases h2 : src.length = dst.length <;>
    by_cases h3 : (src.map (normalizeAxis a.shape.length)).Nodup <;>
    by_cases h4 : (dst.map (normalizeAxis a.shape.length)).Nodup <;>
    first
    | (simp only [h1, h2, h3, h4, if_true, bind_ok', not_true_eq_false, if_false, ne_eq]
       simp only [Rs.forM, Rs.umin, ho, bind_ok', Rs.map, Rs.toIsize]
       exact Res.sameClass_self _)
    | simp [*]

/-- … and `rollaxis`, `swapaxes`, `expand_dims`, `squeeze` in the same form (their validations all report the same variant, or are
ordered by data dependency, so the exact theorems below are as stable) -/
theorem getElem_range_idx (n i : Nat) (h : i < n) : Rs.index (List.range n) i = .ok i := by
  simp [Rs.index, Res.idx, h]

/-- **`rollaxis` (translated, hand-written `transpose` plugged in) is `Arr.rollaxis`** -/
theorem rollaxis_eq (a : Arr α) (zero : α) (axis : Int) (start : Option Int) :
    Array_rollaxis (fun x ax => x.transpose zero ax) a axis start = a.rollaxis zero axis start := by
  unfold Array_rollaxis Arr.rollaxis
  have hst : Rs.mapOrM start 0 (fun ax => Res.ok (normalizeAxis a.ndim ax)) = .ok (startOf a.ndim start) := by
    cases start <;> simp [Rs.mapOrM, startOf]
  simp only [normalize_axis_eq, hst, bind_ok', axis_in_bounds_eq, Array_ndim, range_eq]
  by_cases h1 : normalizeAxis a.ndim axis < a.ndim
  · by_cases h2 : startOf a.ndim start < a.ndim
    · have h1' : ¬ normalizeAxis a.ndim axis ≥ a.ndim := by omega
      have h2' : ¬ startOf a.ndim start ≥ a.ndim := by omega
      simp only [h1, h2, h1', h2', if_true, if_false, bind_ok']
      have e1 := getElem_range_idx a.ndim _ h1
      unfold Arr.ndim at e1 h1 h2 ⊢
      rw [e1, bind_ok']
      have e2 : Rs.vecRemove (List.range a.shape.length) (normalizeAxis a.shape.length axis)
          = .ok ((List.range a.shape.length).eraseIdx (normalizeAxis a.shape.length axis)) := by
        unfold Rs.vecRemove; rw [if_neg (by simp; omega)]
      rw [e2, bind_ok']
      have e3 : Rs.vecInsert ((List.range a.shape.length).eraseIdx (normalizeAxis a.shape.length axis))
          (startOf a.shape.length start) (normalizeAxis a.shape.length axis)
          = .ok (rollaxisOrder a.shape.length (normalizeAxis a.shape.length axis) (startOf a.shape.length start)) := by
        unfold Rs.vecInsert rollaxisOrder
        rw [if_neg (by rw [List.length_eraseIdx_of_lt (by simpa using h1)]; simp; omega)]
      rw [e3, bind_ok']
    · have h2' : startOf a.ndim start ≥ a.ndim := by omega
      have h1' : ¬ normalizeAxis a.ndim axis ≥ a.ndim := by omega
      simp [h1, h2, h1', h2']
  · have h1' : normalizeAxis a.ndim axis ≥ a.ndim := by omega
    simp [h1, h1']

theorem swap_range_eq (nd i j : Nat) (hi : i < nd) (hj : j < nd) : listSwap (List.range nd) i j = swapOrder nd i j := by
  unfold listSwap swapOrder
  have e1 : (List.range nd)[i]? = some i := by simp [hi]
  have e2 : (List.range nd)[j]? = some j := by simp [hj]
  rw [e1, e2]
  apply List.ext_getElem
  · simp
  · intro k h1 h2
    simp only [List.length_set, List.length_range] at h1
    simp only [List.getElem_set, List.getElem_map, List.getElem_range]
    by_cases hkj : j = k
    · subst hkj; by_cases hki : j = i <;> simp [hki]
    · by_cases hki : i = k
      · subst hki; simp [hkj]
      · have a1 : ¬ k = i := fun h => hki h.symm
        have a2 : ¬ k = j := fun h => hkj h.symm
        simp [hkj, hki, a1, a2]

theorem vecSwap_eq (l : List β) (i j : Nat) :
    Rs.vecSwap l i j = if i < l.length ∧ j < l.length then .ok (listSwap l i j) else .panic := swap_ext_eq l i j

/-- **`swapaxes` (translated, hand-written `transpose` plugged in) is `Arr.swapaxes`** -/
theorem swapaxes_eq (a : Arr α) (zero : α) (ax1 ax2 : Int) :
    Array_swapaxes (fun x ax => x.transpose zero ax) a ax1 ax2 = a.swapaxes zero ax1 ax2 := by
  unfold Array_swapaxes Arr.swapaxes
  simp only [normalize_axis_eq, bind_ok', axis_in_bounds_eq, Array_ndim, range_eq, swap_ext_eq, vecSwap_eq]
  by_cases h1 : normalizeAxis a.ndim ax1 < a.ndim
  · by_cases h2 : normalizeAxis a.ndim ax2 < a.ndim
    · have h1' : ¬ normalizeAxis a.ndim ax1 ≥ a.ndim := by omega
      have h2' : ¬ normalizeAxis a.ndim ax2 ≥ a.ndim := by omega
      have hs := swap_range_eq a.ndim _ _ h1 h2
      unfold Arr.ndim at h1 h2 h1' h2' hs ⊢
      simp [h1, h2, h1', h2', hs, Rs.map, Rs.toIsize] <;> rfl
    · have h2' : normalizeAxis a.ndim ax2 ≥ a.ndim := by omega
      have h1' : ¬ normalizeAxis a.ndim ax1 ≥ a.ndim := by omega
      simp [h1, h2, h1', h2']
  · have h1' : normalizeAxis a.ndim ax1 ≥ a.ndim := by omega
    simp [h1, h1']

/-! ## C. `expand_dims`, `squeeze` (C07) -/

theorem enumFrom_eq_zipIdx : ∀ (l : List β) (k : Nat), Rs.enumFrom k l = (l.zipIdx k).map (fun p => (p.2, p.1))
  | [], _ => rfl
  | x :: xs, k => by simp [Rs.enumFrom, List.zipIdx_cons, enumFrom_eq_zipIdx xs (k + 1)]

theorem enumerate_any (l : List β) (q : Nat × β → Bool) :
    (Rs.enumerate l).any q = l.zipIdx.any (fun p => q (p.2, p.1)) := by
  rw [Rs.enumerate, enumFrom_eq_zipIdx, List.any_map]; rfl

theorem normalize_axis_dim_mapM (a : Arr α) (l : List Int) (n : Nat) :
    Rs.mapM l (fun i => Array_normalize_axis_dim a i n) = .ok (l.map (fun i => normalizeAxisDim a.ndim i n)) :=
  mapM_eq_map _ _ (fun i => normalize_axis_dim_eq a i n) l

/-- **`expand_dims` as translated from the source is `Arr.expandDims`** (all inputs) -/
theorem expand_dims_eq (a : Arr α) (axes : List Int) : Array_expand_dims a axes = a.expandDims axes := by
  unfold Array_expand_dims Arr.expandDims
  simp only [normalize_axis_dim_mapM, bind_ok', sorted_nat_eq, Array_get_shape, reshape_eq, Rs.forM,
    foldM_eq_foldl_bind, Rs.any, enumerate_any, Arr.ndim]
  rfl

/-- the `axis_in_bounds` loop of `squeeze` -/
theorem squeeze_bounds_loop (a : Arr α) (ax : List Nat) (f : Unit → Nat → Res Unit)
    (hf : ∀ x, f () x = (Array_axis_in_bounds a x >>= fun _ => Res.ok ())) :
    Rs.foldM ax () f = if ax.any (fun x => decide (x ≥ a.ndim)) then .err .AxisOutOfBounds else .ok () := by
  apply forM_check
  intro x
  rw [hf, axis_in_bounds_eq]
  by_cases h : x < a.ndim
  · have h' : ¬ x ≥ a.ndim := by omega
    simp [h, h']
  · have h' : x ≥ a.ndim := by omega
    simp [h, h']

/-- with every position inside the shape, the short-circuit test `any(|a| shape[a] != 1)` reads what the model's `mapM'` reads -/
theorem squeeze_unit_test (sh ax : List Nat) (h : ∀ i ∈ ax, i < sh.length) (p : Nat → Res Bool)
    (hp : ∀ i, p i = (Rs.index sh i >>= fun t => Res.ok (t != 1))) :
    Rs.anyM ax p = .ok ((ax.map (fun i => sh.getD i 0)).any (fun d => d != 1)) := by
  rw [anyM_eq_any p (fun i => sh.getD i 0 != 1), List.any_map]
  · rfl
  · intro i hi
    rw [hp, idx_getD sh i (h i hi)]; rfl

/-- **`squeeze` as translated from the source is `Arr.squeeze`** (all inputs) -/
theorem squeeze_eq (a : Arr α) (axes : Option (List Int)) : Array_squeeze a axes = a.squeeze axes := by
  unfold Array_squeeze Arr.squeeze
  cases axes with
  | none => simp [Array_get_shape, reshape_eq, Rs.filter]
  | some l =>
    simp only [normalize_axis_mapM, bind_ok', sorted_nat_eq, Array_get_shape, Rs.rev, Rs.forM, reshape_eq, is_unique_eq]
    rw [squeeze_bounds_loop a _ _ (fun x => rfl)]
    by_cases hb : ((sortNat (l.map (normalizeAxis a.ndim))).reverse.any fun x => decide (x ≥ a.ndim)) = true
    · simp [hb]
    · have hin : ∀ i ∈ (sortNat (l.map (normalizeAxis a.ndim))).reverse, i < a.shape.length := by
        intro i hi
        have h' : ¬ (i ≥ a.shape.length) := fun hge => hb (List.any_eq_true.2 ⟨i, hi, by simpa [Arr.ndim] using hge⟩)
        omega
      simp only [hb, if_false, bind_ok', Bool.false_eq_true]
      by_cases hn : (sortNat (l.map (normalizeAxis a.ndim))).reverse.Nodup
      · simp only [hn, if_true, bind_ok', not_true_eq_false, if_false]
        rw [squeeze_unit_test a.shape _ hin _ (fun i => rfl), mapM'_idx_ok a.shape _ hin]
        simp only [bind_ok', Res.bind_ok, foldM_eq_foldl_bind]
        rfl
      · simp [hn]

/-! ## D. the same, up to the error variant (the form the property corollaries use) -/

theorem rollaxis_sim (a : Arr α) (zero : α) (axis : Int) (start : Option Int) :
    Res.sameClass (Array_rollaxis (fun x ax => x.transpose zero ax) a axis start) (a.rollaxis zero axis start) :=
  Res.sameClass_of_eq (rollaxis_eq a zero axis start)

theorem swapaxes_sim (a : Arr α) (zero : α) (ax1 ax2 : Int) :
    Res.sameClass (Array_swapaxes (fun x ax => x.transpose zero ax) a ax1 ax2) (a.swapaxes zero ax1 ax2) :=
  Res.sameClass_of_eq (swapaxes_eq a zero ax1 ax2)

theorem expand_dims_sim (a : Arr α) (axes : List Int) : Res.sameClass (Array_expand_dims a axes) (a.expandDims axes) :=
  Res.sameClass_of_eq (expand_dims_eq a axes)

theorem squeeze_sim (a : Arr α) (axes : Option (List Int)) : Res.sameClass (Array_squeeze a axes) (a.squeeze axes) :=
  Res.sameClass_of_eq (squeeze_eq a axes)

end ArrModel.Gen.Core
