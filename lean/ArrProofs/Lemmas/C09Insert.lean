import ArrProofs.Lemmas.C09
import ArrProofs.Lemmas.C09Total
import ArrProofs.Props.C11
import ArrProofs.Props.C13
import ArrModel.C01Diff
/-!
# Lemmas.C09Insert — `insert(indices, values, Some(axis))` never panics (`Arr.insertAxis`, `ArrModel/C01Diff.lean`)

The model has two panic arms on receivers of rank >= 2: `Vec::insert` above the length of the piece list, and the division by the
slice length.  Neither is reachable on a well-formed receiver:
* a zero-length off-axis makes the fit loop answer `BroadcastShapeMismatch` (`foldl_bind_blocked`), so the slice length is positive
  wherever the division is reached;
* `split_axis` hands out `shape[axis]` pieces (`C11.arraySplit_coord`) and every index is at most `shape[axis]`; on an empty receiver
  it hands out one piece, and then - no off-axis being empty - the axis itself has length 0 and every admissible index is 0;
* every step in between (`create`, `repeat` along axis 0, `moveaxis`, `split`, `reshape`, `transpose`) is total on well-formed
  arrays, and well-formedness is an invariant of the fit loop (`foldl_bind_inv`).

Second part: the three-argument relation of round 5 (number of insertion points against the rows of the values).  With values of
the receiver's rank whose other axes match exactly the fit loop is the identity (`foldl_bind_id`), `moveaxis` keeps the element
count (`moveaxis_ok_length`) and `split(k, None)` of the flattened values refuses a count that is not a multiple of `k`
(`split_flat_uneven`): `insertAxis_uneven_not_ok`.
-/
namespace ArrModel.C09
open ArrModel

section insertAxisTotal
variable {α : Type}

theorem create_ne_panic (es : List α) (sh : List Nat) (nd : Option Nat) : Arr.create es sh nd ≠ .panic := by
  unfold Arr.create
  simp only []
  split
  · exact bind_ne_panic_of _ _ (new_ne_panic _ _) (fun _ _ => new_ne_panic _ _)
  · exact new_ne_panic _ _

/-- a `foldl` of `Res` steps under an invariant of the state: no panic, and the invariant holds for an `ok` result -/
theorem foldl_bind_inv {ι γ : Type} (P : γ → Prop) (step : ι → γ → Res γ) (l : List ι)
    (hs : ∀ i ∈ l, ∀ g, P g → step i g ≠ .panic ∧ ∀ g', step i g = .ok g' → P g') :
    ∀ acc : Res γ, (acc ≠ .panic ∧ ∀ g, acc = .ok g → P g) →
      (l.foldl (fun acc x => acc >>= fun es => step x es) acc ≠ .panic ∧
        ∀ g, l.foldl (fun acc x => acc >>= fun es => step x es) acc = .ok g → P g) := by
  induction l with
  | nil => intro acc h; exact h
  | cons x xs ih =>
    intro acc h
    simp only [List.foldl_cons]
    refine ih (fun i hi => hs i (List.mem_cons_of_mem _ hi)) _ ⟨?_, ?_⟩
    · exact bind_ne_panic_of _ _ h.1 (fun es he => (hs x List.mem_cons_self es (h.2 es he)).1)
    · intro g hg
      cases acc with
      | ok es => exact (hs x List.mem_cons_self es (h.2 es rfl)).2 g hg
      | err e => cases hg
      | panic => exact absurd rfl h.1

/-- once the state is not `ok` it never becomes `ok` again -/
theorem foldl_bind_not_ok {ι γ : Type} (step : ι → γ → Res γ) (l : List ι) :
    ∀ acc : Res γ, (∀ g, acc ≠ .ok g) → ∀ g, l.foldl (fun acc x => acc >>= fun es => step x es) acc ≠ .ok g := by
  induction l with
  | nil => intro acc h; exact h
  | cons x xs ih =>
    intro acc h
    simp only [List.foldl_cons]
    refine ih _ (fun g hg => ?_)
    cases acc with
    | ok es => exact h es rfl
    | err e => cases hg
    | panic => cases hg

/-- a step that never answers `ok` makes the whole fold not `ok` -/
theorem foldl_bind_blocked {ι γ : Type} (step : ι → γ → Res γ) (l : List ι) (b : ι) (hb : b ∈ l) (hblock : ∀ g g', step b g ≠ .ok g') :
    ∀ acc : Res γ, ∀ g, l.foldl (fun acc x => acc >>= fun es => step x es) acc ≠ .ok g := by
  induction l with
  | nil => cases hb
  | cons x xs ih =>
    intro acc
    simp only [List.foldl_cons]
    rcases List.mem_cons.mp hb with h | h
    · subst h
      refine foldl_bind_not_ok step xs _ (fun g hg => ?_)
      cases acc with
      | ok es => exact hblock es g hg
      | err e => cases hg
      | panic => cases hg
    · exact ih h _

theorem vecInsert_fold_ne_panic {β : Type} (pairs : List (Nat × β)) :
    ∀ (arrs : List β), (∀ p ∈ pairs, p.1 ≤ arrs.length) →
      pairs.foldl (fun (acc : Res (List β)) p => acc >>= fun arrs => Arr.vecInsert arrs p.1 p.2) (.ok arrs) ≠ .panic := by
  induction pairs with
  | nil => intro arrs _; exact fun h => nomatch h
  | cons p ps ih =>
    intro arrs h
    have hp : p.1 ≤ arrs.length := h p List.mem_cons_self
    simp only [List.foldl_cons, Res.bind_ok, Arr.vecInsert, if_neg (Nat.not_lt.mpr hp)]
    refine ih _ (fun q hq => ?_)
    have := h q (List.mem_cons_of_mem _ hq)
    rw [List.length_insertIdx]; split <;> omega

theorem new_ok_wf' {e : List α} {s : List Nat} {r : Arr α} (h : Arr.new e s = .ok r) : r.WF := by
  unfold Arr.new at h
  split at h
  · cases h; simpa [Arr.WF] using (by assumption : s.prod = e.length).symm
  · cases h

theorem create_ok_wf (e : List α) (s : List Nat) (nd : Option Nat) {r : Arr α} (h : Arr.create e s nd = .ok r) : r.WF := by
  unfold Arr.create at h
  dsimp only at h
  split at h
  · cases hn : Arr.new e s with
    | ok x => rw [hn, Res.bind_ok] at h; exact new_ok_wf' h
    | err _ => rw [hn] at h; cases h
    | panic => rw [hn] at h; cases h
  · exact new_ok_wf' h

/-- `repeat` along an axis: never a panic on a well-formed array, and an `ok` result is well-formed -/
theorem repeatAxis_np_wf (x : Arr α) (zero : α) (reps : List Nat) (k : Nat) (hx : x.WF) :
    x.repeatAxis zero reps k ≠ .panic ∧ ∀ r, x.repeatAxis zero reps k = .ok r → r.WF := by
  rcases C13.repeatAxis_total x zero reps k hx with ⟨_, h⟩ | ⟨_, _, h⟩ | ⟨_, _, _, r, h, _, hr⟩
  · rw [h]; exact ⟨(fun h => nomatch h), (fun _ h => nomatch h)⟩
  · rw [h]; exact ⟨(fun h => nomatch h), (fun _ h => nomatch h)⟩
  · rw [h]; exact ⟨(fun h => nomatch h), (fun r' h' => by cases h'; exact hr)⟩


/-- the receiver's shape without the axis, read through the positions that the fit loop visits -/
theorem mem_eraseIdx_shape (s : List Nat) (axis : Nat) (x : Nat) (hx : x ∈ s.eraseIdx axis) :
    ∃ i ∈ ((List.range s.length).eraseIdx axis).reverse, s.getD i 0 = x := by
  rw [List.mem_eraseIdx_iff_getElem] at hx
  obtain ⟨i, hi, hne, hxe⟩ := hx
  refine ⟨i, ?_, ?_⟩
  · rw [List.mem_reverse, List.mem_eraseIdx_iff_getElem]
    exact ⟨i, by simpa using hi, hne, by simp⟩
  · simp [List.getD_eq_getElem?_getD, hi, hxe]

/-- **`insert` with an axis never panics** on a well-formed receiver, for every index list, every values array and every axis -/
theorem insertAxis_ne_panic (a : Arr α) (zero : α) (indices : List Nat) (v : Arr α) (axis : Nat) (ha : a.WF) :
    a.insertAxis zero indices v axis ≠ .panic := by
  unfold Arr.insertAxis
  split
  · exact fun h => nomatch h
  rename_i hax
  split
  · exact fun h => nomatch h
  rename_i hidx
  split
  · exact fun h => nomatch h
  split
  · exact C13.insertFlat_no_panic a indices v
  rename_i hn1
  split
  · exact fun h => nomatch h
  have hax' : axis < a.ndim := by omega
  have hix : ∀ i ∈ indices, i ≤ a.shape.getD axis 0 := by
    intro i hi
    refine Classical.byContradiction (fun hc => hidx (List.any_eq_true.mpr ⟨i, hi, ?_⟩))
    simpa using Nat.lt_of_not_le hc
  refine bind_ne_panic_of _ _ (C11.split_total a zero 1 axis ha).2.2.1 (fun arrays harr => ?_)
  refine bind_ne_panic_of _ _ (create_ne_panic _ _ _) (fun v0 hv0 => ?_)
  have hv0wf : v0.WF := create_ok_wf _ _ _ hv0
  -- the fit loop: no panic, a well-formed result
  have hfold := foldl_bind_inv (Arr.WF (α := α))
    (fun i (w : Arr α) =>
      if (swapExt v0.shape 0 axis).getD i 0 = 0 then (.err .BroadcastShapeMismatch : Res (Arr α))
      else if (swapExt v0.shape 0 axis).getD i 0 > a.shape.getD i 0 then .err .BroadcastShapeMismatch
      else if a.shape.getD i 0 % (swapExt v0.shape 0 axis).getD i 0 ≠ 0 then .err .BroadcastShapeMismatch
      else if (swapExt v0.shape 0 axis).getD i 0 < a.shape.getD i 0 then
        w.repeatAxis zero [a.shape.getD i 0 / (swapExt v0.shape 0 axis).getD i 0] 0 >>= fun w' => Arr.create w'.elems w'.shape (some a.ndim)
      else .ok w)
    ((List.range a.ndim).eraseIdx axis).reverse
    (by
      intro i _ g hg
      split
      · exact ⟨(fun h => nomatch h), (fun _ h => nomatch h)⟩
      split
      · exact ⟨(fun h => nomatch h), (fun _ h => nomatch h)⟩
      split
      · exact ⟨(fun h => nomatch h), (fun _ h => nomatch h)⟩
      split
      · refine ⟨bind_ne_panic_of _ _ (repeatAxis_np_wf g zero _ 0 hg).1 (fun _ _ => create_ne_panic _ _ _), ?_⟩
        intro g' hg'
        cases hr : g.repeatAxis zero [a.shape.getD i 0 / (swapExt v0.shape 0 axis).getD i 0] 0 with
        | ok w' => rw [hr, Res.bind_ok] at hg'; exact create_ok_wf _ _ _ hg'
        | err _ => rw [hr] at hg'; cases hg'
        | panic => rw [hr] at hg'; cases hg'
      · exact ⟨(fun h => nomatch h), (fun g' h => by cases h; exact hg)⟩)
    (.ok v0) ⟨(fun h => nomatch h), (fun g h => by cases h; exact hv0wf)⟩
  by_cases hz : ∃ i ∈ ((List.range a.ndim).eraseIdx axis).reverse, a.shape.getD i 0 = 0
  · -- a zero-length off-axis: the fit loop refuses
    obtain ⟨b, hb, hb0⟩ := hz
    have hblk := foldl_bind_blocked
      (fun i (w : Arr α) =>
        if (swapExt v0.shape 0 axis).getD i 0 = 0 then (.err .BroadcastShapeMismatch : Res (Arr α))
        else if (swapExt v0.shape 0 axis).getD i 0 > a.shape.getD i 0 then .err .BroadcastShapeMismatch
        else if a.shape.getD i 0 % (swapExt v0.shape 0 axis).getD i 0 ≠ 0 then .err .BroadcastShapeMismatch
        else if (swapExt v0.shape 0 axis).getD i 0 < a.shape.getD i 0 then
          w.repeatAxis zero [a.shape.getD i 0 / (swapExt v0.shape 0 axis).getD i 0] 0 >>= fun w' => Arr.create w'.elems w'.shape (some a.ndim)
        else .ok w)
      _ b hb
      (by
        intro g g'
        rw [hb0]
        split
        · exact fun h => nomatch h
        · rw [if_pos (by omega)]; exact fun h => nomatch h)
      (.ok v0)
    refine bind_ne_panic_of _ _ hfold.1 (fun v1 hv1 => absurd hv1 (hblk v1))
  · -- every off-axis is non-empty: the slice length is positive
    have hrem : (a.shape.eraseIdx axis).prod ≠ 0 := by
      have : 0 ∉ a.shape.eraseIdx axis := fun h0 => by
        obtain ⟨i, hi, hi0⟩ := mem_eraseIdx_shape a.shape axis 0 h0
        exact hz ⟨i, hi, hi0⟩
      exact Nat.pos_iff_ne_zero.mp (prod_pos_of_not_mem _ this)
    refine bind_ne_panic_of _ _ hfold.1 (fun v1 hv1 => ?_)
    have hv1wf : v1.WF := hfold.2 v1 hv1
    refine bind_ne_panic_of _ _ ?_ (fun vals _ => ?_)
    · split
      · refine bind_ne_panic_of _ _ ?_ (fun v2 _ => ?_)
        · split
          · exact (repeatAxis_np_wf v1 zero _ 0 hv1wf).1
          · exact fun h => nomatch h
        · split
          · exact fun h => nomatch h
          · refine bind_ne_panic_of _ _ (moveaxis_ne_panic _ _ _ _) (fun m _ => ?_)
            exact (C11.split_total _ zero indices.length 0 (flat_wf _)).2.2.2.2.2.2.2
      · exact fun h => nomatch h
    · refine bind_ne_panic_of _ _ ?_ (fun arrays' _ => ?_)
      · refine vecInsert_fold_ne_panic _ arrays (fun p hp => ?_)
        have hp1 : p.1 ∈ indices := by
          have := (List.of_mem_zip hp).1
          simpa using this
        have hle := hix p.1 hp1
        by_cases hb0 : a.shape.getD axis 0 = 0
        · omega
        · -- no zero axis at all: `split_axis` hands out `shape[axis]` pieces
          have hnz : 0 ∉ a.shape := by
            intro h0
            obtain ⟨j, hj, hj0⟩ := List.mem_iff_getElem.mp h0
            by_cases hja : j = axis
            · subst hja; exact hb0 (by simp [List.getD_eq_getElem?_getD, hj, hj0])
            · exact hz ⟨j, by
                rw [List.mem_reverse, List.mem_eraseIdx_iff_getElem]
                exact ⟨j, by simpa [Arr.ndim] using hj, hja, by simp⟩, by simp [List.getD_eq_getElem?_getD, hj, hj0]⟩
          have hne : a.isEmpty = false := by
            have hp := prod_pos_of_not_mem _ hnz
            unfold Arr.isEmpty
            rw [ha]
            simp only [beq_eq_false_iff_ne, ne_eq]
            omega
          have hk' : axis < a.shape.length := by unfold Arr.ndim at hax'; exact hax'
          unfold Arr.splitAxis at harr
          rw [if_neg hax] at harr
          have hn1' : (a.ndim == 1) = false := by simpa using hn1
          simp only [hne, hn1', Bool.or_false, Bool.false_eq_true, if_false] at harr
          rw [C11.idx_getD a.shape axis hk', Res.bind_ok] at harr
          obtain ⟨pieces, h1, h2, _⟩ := C11.arraySplit_coord a zero (a.shape.getD axis 0) axis ha hnz (Nat.pos_of_ne_zero hb0) hax'
          rw [h1] at harr
          cases harr
          omega
      · dsimp only
        rw [if_neg hrem]
        exact bind_ne_panic_of _ _ (new_ne_panic _ _) (fun _ _ => transpose_ne_panic _ _ _)

/-! ## the rows of the values against the insertion points -/

theorem bind_ok_split {β γ} {x : Res β} {f : β → Res γ} {r : γ} (h : (x >>= f) = .ok r) : ∃ b, x = .ok b ∧ f b = .ok r := by
  cases x with
  | ok b => exact ⟨b, rfl, h⟩
  | err e => cases h
  | panic => cases h

/-- a fold whose every step hands the state on unchanged -/
theorem foldl_bind_id {ι γ : Type} (step : ι → γ → Res γ) (l : List ι) (hs : ∀ i ∈ l, ∀ g, step i g = .ok g) (g : γ) :
    l.foldl (fun acc x => acc >>= fun es => step x es) (.ok g) = .ok g := by
  induction l with
  | nil => rfl
  | cons x xs ih =>
    simp only [List.foldl_cons, Res.bind_ok, hs x List.mem_cons_self g]
    exact ih (fun i hi => hs i (List.mem_cons_of_mem _ hi))

theorem moveaxis_ok_length (x : Arr α) (zero : α) (s d : List Int) {m : Arr α} (h : x.moveaxis zero s d = .ok m) :
    m.elems.length = x.elems.length := by
  unfold Arr.moveaxis at h
  dsimp only at h
  repeat' split at h
  all_goals first
    | cases h
    | (unfold Arr.transpose at h
       obtain ⟨_, _, h⟩ := bind_ok_split h
       unfold Arr.new at h
       split at h
       · cases h; exact transposeElems_length _ _ _ _
       · cases h)

/-- `split(parts, None)` of a flat buffer whose length is not a multiple of the part count is refused -/
theorem split_flat_uneven (es : List α) (zero : α) (k : Nat) (hk : es.length % k ≠ 0) :
    ∀ r, (Arr.flat es).split zero k none ≠ .ok r := by
  intro r h
  unfold Arr.split at h
  have hnd : (Arr.flat es).ndim = 1 := rfl
  simp only [Option.getD_none, hnd, ge_iff_le, Nat.le_zero_eq, Nat.succ_ne_zero, decide_false, Bool.false_eq_true, if_false] at h
  split at h
  · cases h
  split at h
  · rename_i he
    simp only [Arr.isEmpty, Arr.flat, beq_iff_eq] at he
    rw [he] at hk; simp at hk
  · have : Res.idx (Arr.flat es).shape 0 = .ok es.length := by simp [Res.idx, Arr.flat]
    rw [this, Res.bind_ok, if_neg hk] at h
    cases h


/-- **rows against insertion points** (the three-argument relation of `insert` along an axis): on a receiver of rank >= 2, a values
array of the receiver's rank whose other axes match the receiver exactly, which is not the single slice and whose element count is
not a multiple of (slice length x number of insertion points) - i.e. whose whole slices cannot be distributed equally over the two
or more insertion points - is not accepted (since /repo 34ccd75 without the earlier "shares no factor" restriction) -/
theorem insertAxis_uneven_not_ok (a v : Arr α) (zero : α) (indices : List Nat) (axis : Nat) (hv : v.WF)
    (hn1 : a.ndim ≠ 1) (hk : 1 < indices.length) (hvr : v.ndim = a.ndim)
    (hfit : ∀ i, i < a.ndim → i ≠ axis → (swapExt v.shape 0 axis).getD i 0 = a.shape.getD i 0 ∧ a.shape.getD i 0 ≠ 0)
    (hone : v.len ≠ (a.shape.eraseIdx axis).prod) (hrows : v.len % ((a.shape.eraseIdx axis).prod * indices.length) ≠ 0) :
    ∀ r, a.insertAxis zero indices v axis ≠ .ok r := by
  intro r h
  unfold Arr.insertAxis at h
  split at h
  · cases h
  split at h
  · cases h
  split at h
  · cases h
  try rw [if_neg hn1] at h
  split at h
  · cases h
  obtain ⟨arrays, _, h2⟩ := bind_ok_split h
  obtain ⟨v0, hv0, h3⟩ := bind_ok_split h2
  clear h h2
  -- `to_array_ndim` of a values array of the receiver's rank is the array itself
  have hv0e : v0 = v := by
    unfold Arr.create at hv0
    dsimp only at hv0
    rw [if_neg (by simp only [Option.getD_some]; unfold Arr.ndim at hvr ⊢; omega)] at hv0
    unfold Arr.new at hv0
    rw [if_pos hv.symm] at hv0
    cases hv0; rfl
  subst hv0e
  obtain ⟨v1, hv1, h4⟩ := bind_ok_split h3
  clear h3
  -- the fit loop hands the values on unchanged
  have hid := foldl_bind_id
    (fun i (w : Arr α) =>
      if (swapExt v0.shape 0 axis).getD i 0 = 0 then (.err .BroadcastShapeMismatch : Res (Arr α))
      else if (swapExt v0.shape 0 axis).getD i 0 > a.shape.getD i 0 then .err .BroadcastShapeMismatch
      else if a.shape.getD i 0 % (swapExt v0.shape 0 axis).getD i 0 ≠ 0 then .err .BroadcastShapeMismatch
      else if (swapExt v0.shape 0 axis).getD i 0 < a.shape.getD i 0 then
        w.repeatAxis zero [a.shape.getD i 0 / (swapExt v0.shape 0 axis).getD i 0] 0 >>= fun w' => Arr.create w'.elems w'.shape (some a.ndim)
      else .ok w)
    ((List.range a.ndim).eraseIdx axis).reverse
    (by
      intro i hi g
      rw [List.mem_reverse, List.mem_eraseIdx_iff_getElem] at hi
      obtain ⟨j, hj, hne, hji⟩ := hi
      have hj' : j < a.ndim := by simpa using hj
      have hij : i = j := by simpa using hji.symm
      subst hij
      obtain ⟨h1, h2⟩ := hfit i hj' hne
      rw [h1, if_neg h2, if_neg (Nat.lt_irrefl _), if_neg (by simp), if_neg (Nat.lt_irrefl _)])
    v0
  rw [hid] at hv1
  cases hv1
  obtain ⟨vals, hvals, _⟩ := bind_ok_split h4
  simp only [if_neg hone, Res.bind_ok] at hvals
  -- the refusal of /repo 34ccd75: the element count is not a multiple of (slice length x number of insertion points)
  split at hvals
  · cases hvals
  · rename_i hdiv
    exact hdiv hrows


end insertAxisTotal
end ArrModel.C09
