import ArrModel.C05Float
import ArrProofs.Lemmas.C05
/-!
# Lemmas for C05 — the `frexp` / `ldexp` loops over exact rationals

Loop invariants, termination under the fuel bound, fuel monotonicity.  Core Lean only (`grind` for ordered-field steps).
-/
namespace ArrModel.Flt
open Dbl

/-! ## powers of two in `Rat` -/

theorem two_pow_num (n : Nat) : ((2 : Rat) ^ n).num = 2 ^ n := by simp
theorem two_pow_den (n : Nat) : ((2 : Rat) ^ n).den = 1 := by simp

theorem two_pow_pos (n : Nat) : (0 : Rat) < (2 : Rat) ^ n := Rat.pow_pos (by decide)
theorem two_zpow_pos (e : Int) : (0 : Rat) < (2 : Rat) ^ e := Rat.zpow_pos (by decide)

theorem two_zpow_succ (e : Int) : (2 : Rat) ^ (e + 1) = (2 : Rat) ^ e * 2 := Rat.zpow_add_one (by decide) e
theorem two_zpow_pred (e : Int) : (2 : Rat) ^ (e - 1) = (2 : Rat) ^ e / 2 := by
  rw [Rat.zpow_sub_one (by decide) e, Rat.div_def]

/-- every rational is below `2 ^ (|num| + den)` -/
theorem up_bound (q : Rat) (N : Nat) (h : q.num.natAbs + q.den ≤ N) : q < (2 : Rat) ^ N := by
  rw [Rat.lt_iff]; simp only [two_pow_num, two_pow_den]
  have h1 : q.num.natAbs < 2 ^ q.num.natAbs := Nat.lt_two_pow_self
  have h2 : 2 ^ q.num.natAbs ≤ 2 ^ N := Nat.pow_le_pow_right (by decide) (by omega)
  have h3 : 0 < q.den := q.den_pos
  have h4 : (2 : Int) ^ N = ((2 ^ N : Nat) : Int) := by simp
  rw [h4]
  have : q.num ≤ (q.num.natAbs : Int) := Int.le_natAbs
  have h5 : ((2 ^ N : Nat) : Int) * 1 ≤ ((2 ^ N : Nat) : Int) * (q.den : Int) := by
    apply Int.mul_le_mul_of_nonneg_left <;> omega
  omega

theorem num_pos_of_pos {q : Rat} (hq : 0 < q) : 0 < q.num := by
  have h1 : 0 ≤ q.num := Rat.num_nonneg.2 (Rat.le_of_lt hq)
  have h2 : q.num ≠ 0 := fun h => by
    have := Rat.num_eq_zero.1 h
    rw [this] at hq; exact absurd hq (by decide)
  omega

theorem eq_num_div_den (q : Rat) : q = (q.num : Rat) / (q.den : Rat) := by
  have := Rat.mkRat_eq_div q.num q.den
  rw [Rat.mkRat_self] at this
  exact this

/-- a positive rational times `2 ^ (|num| + den)` is at least one -/
theorem down_bound (q : Rat) (hq : 0 < q) (N : Nat) (h : q.num.natAbs + q.den ≤ N) : 1 ≤ q * (2 : Rat) ^ N := by
  have hnum : 0 < q.num := num_pos_of_pos hq
  have hden : 0 < q.den := q.den_pos
  have hdenQ : (0 : Rat) < (q.den : Rat) := Rat.natCast_pos.2 hden
  have h1 : q.den < 2 ^ q.den := Nat.lt_two_pow_self
  have h2 : 2 ^ q.den ≤ 2 ^ N := Nat.pow_le_pow_right (by decide) (by omega)
  have h3 : ((q.den : Nat) : Rat) ≤ ((2 ^ N : Nat) : Rat) := Rat.natCast_le_natCast.2 (by omega)
  have h4 : ((2 ^ N : Nat) : Rat) = (2 : Rat) ^ N := by simp
  rw [h4] at h3
  have h5 : q * (q.den : Rat) ≤ q * (2 : Rat) ^ N := Rat.mul_le_mul_of_nonneg_left h3 (Rat.le_of_lt hq)
  have h6 : q * (q.den : Rat) = (q.num : Rat) := by
    have := eq_num_div_den q
    grind
  have h7 : (1 : Rat) ≤ (q.num : Rat) := by
    have : ((1 : Int) : Rat) ≤ (q.num : Rat) := Rat.intCast_le_intCast.2 (by omega)
    simpa using this
  grind

/-! ## fuel monotonicity of the four loops -/

theorem loopUp_mono (n k : Nat) (x : Dbl) (e : Int) (r : Dbl × Int) (h : loopUp n x e = some r) :
    loopUp (n + k) x e = some r := by
  induction n generalizing x e with
  | zero => simp [loopUp] at h
  | succ n ih =>
    rw [Nat.add_right_comm]
    simp only [loopUp] at h ⊢
    split
    · rename_i hc; rw [if_pos hc] at h; exact ih _ _ h
    · rename_i hc; rw [if_neg hc] at h; exact h

theorem loopDown_mono (n k : Nat) (x : Dbl) (e : Int) (r : Dbl × Int) (h : loopDown n x e = some r) :
    loopDown (n + k) x e = some r := by
  induction n generalizing x e with
  | zero => simp [loopDown] at h
  | succ n ih =>
    rw [Nat.add_right_comm]
    simp only [loopDown] at h ⊢
    split
    · rename_i hc; rw [if_pos hc] at h; exact ih _ _ h
    · rename_i hc; rw [if_neg hc] at h; exact h

theorem frexp1_mono (g : Bool) (n k : Nat) (x : Dbl) (r : Dbl × Int) (h : frexp1 g n x = some r) :
    frexp1 g (n + k) x = some r := by
  unfold frexp1 at h ⊢
  simp only at h ⊢
  split
  · rename_i hz; rw [if_pos hz] at h; exact h
  · rename_i hz; rw [if_neg hz] at h
    split
    · rename_i hg; rw [if_pos hg] at h; exact h
    · rename_i hg; rw [if_neg hg] at h
      cases hu : loopUp n x.abs 0 with
      | none => rw [hu] at h; simp at h
      | some r1 =>
        rw [hu] at h; rw [loopUp_mono n k _ _ _ hu]
        simp only at h ⊢
        cases hd : loopDown n r1.1 r1.2 with
        | none => rw [hd] at h; simp at h
        | some r2 =>
          rw [hd] at h; rw [loopDown_mono n k _ _ _ hd]
          exact h

/-! ## the loops on positive finite values -/

/-- first loop: halving while `≥ 1`.  `n` halvings suffice when `q < 2^n`. -/
theorem loopUp_fin (n : Nat) (q : Rat) (e : Int) (hq : 0 < q) (hn : q < (2 : Rat) ^ n) :
    ∃ q' e', loopUp (n + 1) (fin q) e = some (fin q', e') ∧ 0 < q' ∧ q' < 1 ∧ (1 / 2 ≤ q → 1 / 2 ≤ q') ∧
      (q < 1 → q' = q ∧ e' = e) ∧ q' * (2 : Rat) ^ e' = q * (2 : Rat) ^ e := by
  induction n generalizing q e with
  | zero =>
    have hq1 : q < 1 := by simpa using hn
    refine ⟨q, e, ?_, hq, hq1, id, fun _ => ⟨rfl, rfl⟩, rfl⟩
    have : ¬ (1 ≤ q) := by grind
    simp [loopUp, ge1, this]
  | succ n ih =>
    by_cases h1 : 1 ≤ q
    · have hq2 : 0 < q / 2 := by grind
      have hn2 : q / 2 < (2 : Rat) ^ n := by
        rw [Rat.pow_succ] at hn; grind
      obtain ⟨q', e', hl, hpos, hlt, hge, _, hval⟩ := ih (q / 2) (e + 1) hq2 hn2
      refine ⟨q', e', ?_, hpos, hlt, fun _ => hge (by grind), fun h => absurd h (by grind), ?_⟩
      · rw [show n + 1 + 1 = (n + 1) + 1 from rfl, loopUp]
        simp only [ge1, h1, decide_true, if_true, half]
        exact hl
      · rw [hval, two_zpow_succ]; grind
    · have hq1 : q < 1 := by grind
      refine ⟨q, e, ?_, hq, hq1, id, fun _ => ⟨rfl, rfl⟩, rfl⟩
      simp [loopUp, ge1, h1]

/-- second loop: doubling while `< ½`.  `n` doublings suffice when `½ ≤ q·2^n`. -/
theorem loopDown_fin (n : Nat) (q : Rat) (e : Int) (hq : 0 < q) (hq1 : q < 1) (hn : 1 / 2 ≤ q * (2 : Rat) ^ n) :
    ∃ q' e', loopDown (n + 1) (fin q) e = some (fin q', e') ∧ 1 / 2 ≤ q' ∧ q' < 1 ∧
      (1 / 2 ≤ q → q' = q ∧ e' = e) ∧ q' * (2 : Rat) ^ e' = q * (2 : Rat) ^ e := by
  induction n generalizing q e with
  | zero =>
    have hh : 1 / 2 ≤ q := by simpa using hn
    refine ⟨q, e, ?_, hh, hq1, fun _ => ⟨rfl, rfl⟩, rfl⟩
    have : ¬ (q < 1 / 2) := by grind
    simp [loopDown, ltHalf, this]
  | succ n ih =>
    by_cases h1 : q < 1 / 2
    · have hq2 : 0 < q * 2 := by grind
      have hq3 : q * 2 < 1 := by grind
      have hn2 : 1 / 2 ≤ q * 2 * (2 : Rat) ^ n := by
        rw [Rat.pow_succ] at hn; grind
      obtain ⟨q', e', hl, hge, hlt, _, hval⟩ := ih (q * 2) (e - 1) hq2 hq3 hn2
      refine ⟨q', e', ?_, hge, hlt, fun h => absurd h (by grind), ?_⟩
      · rw [show n + 1 + 1 = (n + 1) + 1 from rfl, loopDown]
        simp only [ltHalf, h1, decide_true, if_true, twice]
        exact hl
      · rw [hval, two_zpow_pred]; grind
    · have hh : 1 / 2 ≤ q := by grind
      refine ⟨q, e, ?_, hh, hq1, fun _ => ⟨rfl, rfl⟩, rfl⟩
      simp [loopDown, ltHalf, h1]

/-- both loops in sequence on a positive finite value, with one fuel for both -/
theorem loops_fin (n : Nat) (q : Rat) (hq : 0 < q) (hup : q < (2 : Rat) ^ n) (hdown : 1 / 2 ≤ q * (2 : Rat) ^ n) :
    ∃ q1 e1 q2 e2, loopUp (n + 1) (fin q) 0 = some (fin q1, e1) ∧ loopDown (n + 1) (fin q1) e1 = some (fin q2, e2) ∧
      1 / 2 ≤ q2 ∧ q2 < 1 ∧ q2 * (2 : Rat) ^ e2 = q := by
  obtain ⟨q1, e1, hl1, hpos1, hlt1, hge1, hsame1, hval1⟩ := loopUp_fin n q 0 hq hup
  by_cases h1 : 1 / 2 ≤ q
  · -- the first loop leaves a value in [½, 1); the second does nothing
    have hh := hge1 h1
    obtain ⟨q2, e2, hl2, hge2, hlt2, hsame2, hval2⟩ := loopDown_fin 0 q1 e1 hpos1 hlt1 (by simpa using hh)
    have hl2' := loopDown_mono 1 n _ _ _ hl2
    rw [Nat.add_comm] at hl2'
    refine ⟨q1, e1, q2, e2, hl1, hl2', hge2, hlt2, ?_⟩
    rw [hval2, hval1]; simp
  · -- q < ½ < 1: the first loop does nothing
    have hq1 : q < 1 := by grind
    obtain ⟨hq', he'⟩ := hsame1 hq1
    subst hq' he'
    obtain ⟨q2, e2, hl2, hge2, hlt2, _, hval2⟩ := loopDown_fin n q1 0 hq hq1 hdown
    refine ⟨q1, 0, q2, e2, hl1, hl2, hge2, hlt2, ?_⟩
    rw [hval2]; simp

/-! ## `ldexp` loops -/

theorem ldUp_fin (n : Nat) (m : Rat) (e : Int) (he : e.toNat ≤ n) :
    ldUp (n + 1) (fin m) e = some (fin (m * (2 : Rat) ^ e.toNat), min e 0) := by
  induction n generalizing m e with
  | zero =>
    have : ¬ (e > 0) := by omega
    have h0 : e.toNat = 0 := by omega
    simp [ldUp, this, h0]; omega
  | succ n ih =>
    by_cases h : e > 0
    · rw [show n + 1 + 1 = (n + 1) + 1 from rfl, ldUp]
      simp only [h, if_true, twice]
      rw [ih (m * 2) (e - 1) (by omega)]
      have h1 : e.toNat = (e - 1).toNat + 1 := by omega
      rw [h1, Rat.pow_succ]
      have : min (e - 1) 0 = min e 0 := by omega
      rw [this]
      congr 2; grind
    · have h0 : e.toNat = 0 := by omega
      simp [ldUp, h, h0]; omega

theorem ldDown_fin (n : Nat) (m : Rat) (e : Int) (he : (-e).toNat ≤ n) :
    ∃ e', ldDown (n + 1) (fin m) e = some (fin (m / (2 : Rat) ^ (-e).toNat), e') := by
  induction n generalizing m e with
  | zero =>
    have : ¬ (e < 0) := by omega
    have h0 : (-e).toNat = 0 := by omega
    exact ⟨e, by simp [ldDown, this, h0]; grind⟩
  | succ n ih =>
    by_cases h : e < 0
    · obtain ⟨e', hl⟩ := ih (m / 2) (e + 1) (by omega)
      refine ⟨e', ?_⟩
      rw [show n + 1 + 1 = (n + 1) + 1 from rfl, ldDown]
      simp only [h, if_true, half]
      rw [hl]
      have h1 : (-e).toNat = (-(e + 1)).toNat + 1 := by omega
      rw [h1, Rat.pow_succ]
      have hp := two_pow_pos (-(e + 1)).toNat
      congr 2
      rw [Rat.div_def, Rat.div_def, Rat.div_def]
      have : ((2 : Rat) ^ (-(e + 1)).toNat * 2)⁻¹ = (2 : Rat)⁻¹ * ((2 : Rat) ^ (-(e + 1)).toNat)⁻¹ := by
        rw [Rat.inv_mul_rev]
      rw [this]; grind
    · have h0 : (-e).toNat = 0 := by omega
      exact ⟨e, by simp [ldDown, h, h0]; grind⟩

theorem two_zpow_of_nonneg (e : Int) (h : 0 ≤ e) : (2 : Rat) ^ e = (2 : Rat) ^ e.toNat := by
  obtain ⟨n, rfl⟩ : ∃ n : Nat, e = (n : Int) := ⟨e.toNat, by omega⟩
  rw [Rat.zpow_natCast]; simp

theorem two_zpow_of_neg (e : Int) (h : e < 0) : (2 : Rat) ^ e = ((2 : Rat) ^ (-e).toNat)⁻¹ := by
  obtain ⟨n, rfl⟩ : ∃ n : Nat, e = -(n : Int) := ⟨(-e).toNat, by omega⟩
  rw [Rat.zpow_neg, Rat.zpow_natCast]; simp

/-- non-finite and zero values pass through the `ldexp` loops unchanged -/
theorem ldUp_nonfin (n : Nat) (x : Dbl) (hx : x.isFinite = false) (e : Int) (he : e.toNat ≤ n) :
    ldUp (n + 1) x e = some (x, min e 0) := by
  induction n generalizing e with
  | zero =>
    have : ¬ (e > 0) := by omega
    simp [ldUp, this]; omega
  | succ n ih =>
    by_cases h : e > 0
    · rw [show n + 1 + 1 = (n + 1) + 1 from rfl, ldUp]
      simp only [h, if_true]
      have : x.twice = x := by cases x <;> simp_all [twice, isFinite]
      rw [this, ih (e - 1) (by omega)]
      have : min (e - 1) 0 = min e 0 := by omega
      rw [this]
    · simp [ldUp, h]; omega

theorem ldDown_nonfin (n : Nat) (x : Dbl) (hx : x.isFinite = false) (e : Int) (he : (-e).toNat ≤ n) :
    ∃ e', ldDown (n + 1) x e = some (x, e') := by
  induction n generalizing e with
  | zero =>
    have : ¬ (e < 0) := by omega
    exact ⟨e, by simp [ldDown, this]⟩
  | succ n ih =>
    by_cases h : e < 0
    · obtain ⟨e', hl⟩ := ih (e + 1) (by omega)
      refine ⟨e', ?_⟩
      rw [show n + 1 + 1 = (n + 1) + 1 from rfl, ldDown]
      simp only [h, if_true]
      have : x.half = x := by cases x <;> simp_all [half, isFinite]
      rw [this, hl]
    · exact ⟨e, by simp [ldDown, h]⟩

/-! ## the `for_each` of `frexp` in `StateT _ Option` -/

/-- given that `_frexp` returns on every element, the pushes append mantissas and exponents in element order -/
theorem forEach_frexpPush (htot : ∀ x : Dbl, ∃ r, frexp x = some r) (i : Nat) (xs : List Dbl) (s : List Dbl × List Int) :
    ∃ ms es, (Iter.forEachIdxM (fun _ => frexpPush) i xs).run s = some ((), (s.1 ++ ms, s.2 ++ es)) ∧
      ms.length = xs.length ∧ es.length = xs.length ∧
      ∀ (p : Nat) (h : p < xs.length) (h1 : p < ms.length) (h2 : p < es.length), frexp xs[p] = some (ms[p], es[p]) := by
  induction xs generalizing i s with
  | nil => exact ⟨[], [], by simp [Iter.forEachIdxM], rfl, rfl, fun p h => absurd h (by simp)⟩
  | cons x xs ih =>
    obtain ⟨r, hr⟩ := htot x
    obtain ⟨ms, es, hrun, hm, he, hget⟩ := ih (i + 1) (s.1 ++ [r.1], s.2 ++ [r.2])
    refine ⟨r.1 :: ms, r.2 :: es, ?_, by simp [hm], by simp [he], ?_⟩
    · have hstep : (frexpPush x).run s = some ((), (s.1 ++ [r.1], s.2 ++ [r.2])) := by
        simp [frexpPush, StateT.run, hr]
      show ((frexpPush x).run s >>= fun p => (Iter.forEachIdxM (fun _ => frexpPush) (i + 1) xs).run p.2) = _
      rw [hstep]; simp only [Option.bind_eq_bind, Option.bind_some]
      rw [hrun]; simp
    · intro p h h1 h2
      cases p with
      | zero => simpa using hr
      | succ p => simpa using hget p (by simpa using h) (by simpa using h1) (by simpa using h2)

end ArrModel.Flt
