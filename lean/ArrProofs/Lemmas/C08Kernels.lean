import ArrModel.C08Kernels
import ArrProofs.Props.C10
/-!
# Lemmas about the 1-D kernels of `ArrModel/C08Kernels.lean`
-/
namespace ArrModel.C08K
open ArrModel ArrModel.Sort Arr

variable {α : Type}

/-! ## laws (hypotheses of the theorems; instances below) -/

/-- `(f, e)` is a monoid: what turns "left fold" into "sum of the parts" -/
structure IsMonoid (f : α → α → α) (e : α) : Prop where
  assoc : ∀ a b c, f (f a b) c = f a (f b c)
  left_id : ∀ a, f e a = a
  right_id : ∀ a, f a e = a

/-- the comparison operators describe one linear order without NaN (what the integer types provide) -/
structure Elem.LawfulOrd (E : Elem α) : Prop where
  cmp : E.cmp.Lawful
  gt_iff : ∀ a b, E.gt a b = E.lt b a

/-- the IEEE rules the propagation statements need -/
structure Elem.NanLaws (E : Elem α) : Prop where
  zero_not_nan : E.isNan E.zero = false
  one_not_nan : E.isNan E.one = false
  add_nan : ∀ a b, E.isNan (E.add a b) = (E.isNan a || E.isNan b)
  mul_nan : ∀ a b, E.isNan (E.mul a b) = (E.isNan a || E.isNan b)
  beq_nan : ∀ a b, E.isNan a = true → E.beq a b = false

theorem Elem.int_lawfulOrd : Elem.int.LawfulOrd where
  cmp := Cmp.int_lawful
  gt_iff a b := by simp [Elem.int]

theorem Elem.int_add_monoid : IsMonoid Elem.int.add Elem.int.zero where
  assoc a b c := by simp only [Elem.int]; omega
  left_id a := by simp only [Elem.int]; omega
  right_id a := by simp only [Elem.int]; omega

theorem Elem.int_mul_monoid : IsMonoid Elem.int.mul Elem.int.one where
  assoc a b c := by simp only [Elem.int]; exact Int.mul_assoc a b c
  left_id a := by simp only [Elem.int]; exact Int.one_mul a
  right_id a := by simp only [Elem.int]; exact Int.mul_one a

theorem Elem.int_nanLaws : Elem.int.NanLaws where
  zero_not_nan := rfl
  one_not_nan := rfl
  add_nan _ _ := rfl
  mul_nan _ _ := rfl
  beq_nan _ _ h := by simp [Elem.int] at h

theorem Elem.nanInt_add_monoid : IsMonoid Elem.nanInt.add Elem.nanInt.zero where
  assoc a b c := by cases a <;> cases b <;> cases c <;> simp [Elem.nanInt, Int.add_assoc]
  left_id a := by cases a <;> simp [Elem.nanInt]
  right_id a := by cases a <;> simp [Elem.nanInt]

theorem Elem.nanInt_mul_monoid : IsMonoid Elem.nanInt.mul Elem.nanInt.one where
  assoc a b c := by cases a <;> cases b <;> cases c <;> simp [Elem.nanInt, Int.mul_assoc]
  left_id a := by cases a <;> simp [Elem.nanInt]
  right_id a := by cases a <;> simp [Elem.nanInt]

theorem Elem.nanInt_nanLaws : Elem.nanInt.NanLaws where
  zero_not_nan := rfl
  one_not_nan := rfl
  add_nan a b := by cases a <;> cases b <;> simp [Elem.nanInt]
  mul_nan a b := by cases a <;> cases b <;> simp [Elem.nanInt]
  beq_nan a b h := by cases a <;> cases b <;> simp_all [Elem.nanInt]

/-! ## left folds -/

theorem foldl_monoid_init {f : α → α → α} {e : α} (h : IsMonoid f e) :
    ∀ (ys : List α) (a : α), ys.foldl f a = f a (ys.foldl f e) := by
  intro ys
  induction ys with
  | nil => intro a; simp [h.right_id]
  | cons y ys ih =>
    intro a
    rw [List.foldl_cons, List.foldl_cons, ih (f a y), ih (f e y), h.left_id, h.assoc]

theorem foldl_append_monoid {f : α → α → α} {e : α} (h : IsMonoid f e) (xs ys : List α) :
    (xs ++ ys).foldl f e = f (xs.foldl f e) (ys.foldl f e) := by
  rw [List.foldl_append, foldl_monoid_init h]

/-- replacing by the neutral element = leaving out -/
theorem foldl_replace_eq_filter {f : α → α → α} {e : α} (h : IsMonoid f e) (p : α → Bool) :
    ∀ (xs : List α) (a : α), xs.foldl (fun acc x => f acc (if p x then e else x)) a = (xs.filter (fun x => !p x)).foldl f a := by
  intro xs
  induction xs with
  | nil => intro a; rfl
  | cons x xs ih =>
    intro a
    by_cases hp : p x = true
    · simp [hp, h.right_id, ih]
    · simp [hp, ih]

theorem foldl_replace_eq_map (f : α → α → α) (g : α → α) (xs : List α) (a : α) :
    xs.foldl (fun acc x => f acc (g x)) a = (xs.map g).foldl f a := by
  rw [List.foldl_map]

theorem isNan_foldl (isNan : α → Bool) (f : α → α → α) (hf : ∀ a b, isNan (f a b) = (isNan a || isNan b)) :
    ∀ (xs : List α) (a : α), isNan (xs.foldl f a) = (isNan a || xs.any isNan) := by
  intro xs
  induction xs with
  | nil => intro a; simp
  | cons x xs ih => intro a; simp [ih, hf, Bool.or_assoc]

/-! ## running folds -/

@[simp] theorem runAcc_length (step : α → α → α) : ∀ (xs : List α) (acc : α), (runAcc step acc xs).length = xs.length := by
  intro xs
  induction xs with
  | nil => intro acc; rfl
  | cons x xs ih => intro acc; simp [runAcc, ih]

theorem runAcc_getElem? (step : α → α → α) : ∀ (xs : List α) (acc : α) (i : Nat),
    (runAcc step acc xs)[i]? = if i < xs.length then some ((xs.take (i + 1)).foldl step acc) else none := by
  intro xs
  induction xs with
  | nil => intro acc i; simp [runAcc]
  | cons x xs ih =>
    intro acc i
    cases i with
    | zero => simp [runAcc]
    | succ i => simp [runAcc, ih]

theorem runAcc_getLast? (step : α → α → α) (xs : List α) (acc : α) :
    (runAcc step acc xs).getLast? = if xs = [] then none else some (xs.foldl step acc) := by
  rw [List.getLast?_eq_getElem?, runAcc_getElem?, runAcc_length]
  cases xs with
  | nil => simp
  | cons x xs => simp

theorem runAcc_append (step : α → α → α) : ∀ (xs ys : List α) (acc : α),
    runAcc step acc (xs ++ ys) = runAcc step acc xs ++ runAcc step (xs.foldl step acc) ys := by
  intro xs
  induction xs with
  | nil => intro ys acc; rfl
  | cons x xs ih => intro ys acc; simp [runAcc, ih]

theorem runAcc_replace_eq_map (f : α → α → α) (g : α → α) : ∀ (xs : List α) (a : α),
    runAcc (fun acc x => f acc (g x)) a xs = runAcc f a (xs.map g) := by
  intro xs
  induction xs with
  | nil => intro a; rfl
  | cons x xs ih => intro a; simp [runAcc, ih]

/-! ## extrema -/

section order
variable {E : Elem α}

theorem foldl_maxStep_spec (h : E.cmp.Lawful) : ∀ (xs : List α) (x0 : α),
    (xs.foldl E.maxStep x0 = x0 ∨ xs.foldl E.maxStep x0 ∈ xs) ∧ E.cmp.le x0 (xs.foldl E.maxStep x0) = true ∧
      ∀ y ∈ xs, E.cmp.le y (xs.foldl E.maxStep x0) = true := by
  intro xs
  induction xs with
  | nil => intro x0; exact ⟨Or.inl rfl, h.le_refl x0, by simp⟩
  | cons x xs ih =>
    intro x0
    obtain ⟨h1, h2, h3⟩ := ih (E.maxStep x0 x)
    rw [List.foldl_cons]
    have hstep : (E.maxStep x0 x = x0 ∨ E.maxStep x0 x = x) ∧ E.cmp.le x0 (E.maxStep x0 x) = true ∧
        E.cmp.le x (E.maxStep x0 x) = true := by
      unfold Elem.maxStep
      by_cases hl : E.lt x0 x = true
      · rw [if_pos hl]; exact ⟨Or.inr rfl, h.le_of_lt hl, h.le_refl x⟩
      · rw [if_neg hl]
        have hl' : E.cmp.lt x0 x = false := by show E.lt x0 x = false; simpa using hl
        exact ⟨Or.inl rfl, h.le_refl x0, h.le_of_not_lt hl'⟩
    obtain ⟨s1, s2, s3⟩ := hstep
    refine ⟨?_, h.le_trans _ _ _ s2 h2, ?_⟩
    · rcases h1 with h1 | h1
      · rcases s1 with s1 | s1
        · left; rw [h1, s1]
        · right; rw [h1, s1]; exact List.mem_cons_self
      · right; exact List.mem_cons_of_mem _ h1
    · intro y hy
      rcases List.mem_cons.1 hy with rfl | hy
      · exact h.le_trans _ _ _ s3 h2
      · exact h3 y hy

theorem foldl_minStep_spec (h : E.LawfulOrd) : ∀ (xs : List α) (x0 : α),
    (xs.foldl E.minStep x0 = x0 ∨ xs.foldl E.minStep x0 ∈ xs) ∧ E.cmp.le (xs.foldl E.minStep x0) x0 = true ∧
      ∀ y ∈ xs, E.cmp.le (xs.foldl E.minStep x0) y = true := by
  have hc := h.cmp
  intro xs
  induction xs with
  | nil => intro x0; exact ⟨Or.inl rfl, hc.le_refl x0, by simp⟩
  | cons x xs ih =>
    intro x0
    obtain ⟨h1, h2, h3⟩ := ih (E.minStep x0 x)
    rw [List.foldl_cons]
    have hstep : (E.minStep x0 x = x0 ∨ E.minStep x0 x = x) ∧ E.cmp.le (E.minStep x0 x) x0 = true ∧
        E.cmp.le (E.minStep x0 x) x = true := by
      unfold Elem.minStep
      rw [h.gt_iff]
      by_cases hl : E.lt x x0 = true
      · rw [if_pos hl]; exact ⟨Or.inr rfl, hc.le_of_lt hl, hc.le_refl x⟩
      · rw [if_neg hl]
        have hl' : E.cmp.lt x x0 = false := by show E.lt x x0 = false; simpa using hl
        exact ⟨Or.inl rfl, hc.le_refl x0, hc.le_of_not_lt hl'⟩
    obtain ⟨s1, s2, s3⟩ := hstep
    refine ⟨?_, hc.le_trans _ _ _ h2 s2, ?_⟩
    · rcases h1 with h1 | h1
      · rcases s1 with s1 | s1
        · left; rw [h1, s1]
        · right; rw [h1, s1]; exact List.mem_cons_self
      · right; exact List.mem_cons_of_mem _ h1
    · intro y hy
      rcases List.mem_cons.1 hy with rfl | hy
      · exact hc.le_trans _ _ _ h2 s3
      · exact h3 y hy

theorem any_isNan_false (h : E.cmp.Lawful) (xs : List α) : xs.any E.isNan = false := by
  rw [List.any_eq_false]; intro x _
  have hx : E.isNan x = false := h.not_nan x
  simp [hx]

theorem maxK_lawful (h : E.cmp.Lawful) (xs : List α) (hne : xs ≠ []) :
    ∃ m, maxK E xs = .ok m ∧ m ∈ xs ∧ ∀ y ∈ xs, E.le y m = true := by
  obtain ⟨x, t, rfl⟩ := List.exists_cons_of_ne_nil hne
  obtain ⟨h1, _, h3⟩ := foldl_maxStep_spec h (x :: t) x
  refine ⟨(x :: t).foldl E.maxStep x, ?_, ?_, h3⟩
  · simp [maxK, any_isNan_false h (x :: t), Res.idx]
  · rcases h1 with h1 | h1
    · rw [h1]; exact List.mem_cons_self
    · exact h1

theorem minK_lawful (h : E.LawfulOrd) (xs : List α) (hne : xs ≠ []) :
    ∃ m, minK E xs = .ok m ∧ m ∈ xs ∧ ∀ y ∈ xs, E.le m y = true := by
  obtain ⟨x, t, rfl⟩ := List.exists_cons_of_ne_nil hne
  obtain ⟨h1, _, h3⟩ := foldl_minStep_spec h (x :: t) x
  refine ⟨(x :: t).foldl E.minStep x, ?_, ?_, h3⟩
  · simp [minK, any_isNan_false h.cmp (x :: t), Res.idx]
  · rcases h1 with h1 | h1
    · rw [h1]; exact List.mem_cons_self
    · exact h1

end order

/-- the non-NaN elements of a lane that is not all NaN: not empty, no NaN -/
theorem filter_notNan_facts (E : Elem α) (xs : List α) (h : xs.all E.isNan = false) :
    (xs.filter (fun i => !E.isNan i)).isEmpty = false ∧ (xs.filter (fun i => !E.isNan i)).any E.isNan = false := by
  constructor
  · have : ∃ x ∈ xs, E.isNan x = false := by
      by_contra hc
      have : xs.all E.isNan = true := by
        rw [List.all_eq_true]; intro x hx
        by_contra hx'
        exact hc ⟨x, hx, by simpa using hx'⟩
      rw [this] at h; exact Bool.noConfusion h
    obtain ⟨x, hx, hn⟩ := this
    have hm : x ∈ xs.filter (fun i => !E.isNan i) := by simp [List.mem_filter, hx, hn]
    cases hf : xs.filter (fun i => !E.isNan i) with
    | nil => rw [hf] at hm; simp at hm
    | cons _ _ => rfl
  · rw [List.any_eq_false]
    intro x hx
    have := (List.mem_filter.1 hx).2
    simpa using this

theorem nanmaxK_eq (E : Elem α) (xs : List α) (h : xs.all E.isNan = false) :
    nanmaxK E xs = maxK E (xs.filter (fun i => !E.isNan i)) := by
  obtain ⟨h1, h2⟩ := filter_notNan_facts E xs h
  simp only [nanmaxK, maxK, h, h1, h2, Bool.false_eq_true, ↓reduceIte]

theorem nanminK_eq (E : Elem α) (xs : List α) (h : xs.all E.isNan = false) :
    nanminK E xs = minK E (xs.filter (fun i => !E.isNan i)) := by
  obtain ⟨h1, h2⟩ := filter_notNan_facts E xs h
  simp only [nanminK, minK, h, h1, h2, Bool.false_eq_true, ↓reduceIte]

/-! ## the lane bodies on a lane (what the axis theorems are instantiated with) -/

theorem RedOp.kernel_ok (E : Elem α) (op : RedOp) (xs : List α) (hne : xs ≠ []) : ∃ v, op.kernel E xs = .ok v := by
  obtain ⟨x, t, rfl⟩ := List.exists_cons_of_ne_nil hne
  have extreme : ∀ step : α → α → α, ∀ l : List α, l.isEmpty = false → ∃ v,
      (Res.idx l 0 >>= fun x0 => Res.ok (l.foldl step x0)) = .ok v := by
    intro step l hl
    cases l with
    | nil => simp at hl
    | cons y l => exact ⟨(y :: l).foldl step y, by simp [Res.idx]⟩
  cases op with
  | sum => exact ⟨_, rfl⟩
  | prod => exact ⟨_, rfl⟩
  | nansum => exact ⟨_, rfl⟩
  | nanprod => exact ⟨_, rfl⟩
  | max =>
    simp only [RedOp.kernel, maxK, List.isEmpty_cons, Bool.false_eq_true, ↓reduceIte]
    split
    · exact ⟨_, rfl⟩
    · exact extreme _ _ rfl
  | min =>
    simp only [RedOp.kernel, minK, List.isEmpty_cons, Bool.false_eq_true, ↓reduceIte]
    split
    · exact ⟨_, rfl⟩
    · exact extreme _ _ rfl
  | nanmax =>
    simp only [RedOp.kernel, nanmaxK]
    split
    · exact ⟨_, rfl⟩
    · next hn => exact extreme _ _ (filter_notNan_facts E _ (by simpa using hn)).1
  | nanmin =>
    simp only [RedOp.kernel, nanminK]
    split
    · exact ⟨_, rfl⟩
    · next hn => exact extreme _ _ (filter_notNan_facts E _ (by simpa using hn)).1

theorem RedOp.lane_flat (E : Elem α) (op : RedOp) (xs : List α) (v : α) (h : op.kernel E xs = .ok v) :
    op.lane E (Arr.flat xs) = .ok (Arr.single v) := by
  simp [RedOp.lane, Arr.flat, h]

theorem ScanOp.kernel_eq_runAcc (E : Elem α) (op : ScanOp) (xs : List α) :
    op.kernel E xs = runAcc (op.step E) (op.init E) xs := by
  cases op <;> rfl

@[simp] theorem ScanOp.kernel_length (E : Elem α) (op : ScanOp) (xs : List α) : (op.kernel E xs).length = xs.length := by
  rw [ScanOp.kernel_eq_runAcc, runAcc_length]

theorem ScanOp.lane_flat (E : Elem α) (op : ScanOp) (xs : List α) :
    op.lane E (Arr.flat xs) = .ok ⟨op.kernel E xs, [xs.length]⟩ := by
  simp [ScanOp.lane, Arr.ravel, Arr.flat, Arr.reshape, Arr.new]

theorem countNonzero_lane_flat (E : Elem α) (xs : List α) (kd : Option Bool) :
    CntOp.lane E .countNonzero (Arr.flat xs) kd = .ok (Arr.single (countK E xs)) := by
  by_cases hk : kd = some true
  · simp [CntOp.lane, Arr.keepdimsTail, hk, Arr.flat, Arr.ndim, Arr.atleast, Arr.atleast1d]
  · simp [CntOp.lane, Arr.keepdimsTail, hk, Arr.flat]


/-- the reduction whose running values a scan lists -/
def ScanOp.total : ScanOp → RedOp
  | .cumsum => .sum | .cumprod => .prod | .nancumsum => .nansum | .nancumprod => .nanprod

theorem ScanOp.total_kernel (E : Elem α) (op : ScanOp) (xs : List α) :
    op.total.kernel E xs = .ok (xs.foldl (op.step E) (op.init E)) := by
  cases op <;> rfl

theorem CntOp.kernel_ok (E : Elem α) (op : CntOp) (hop : op = .countNonzero ∨ E.cmp.Lawful) (xs : List α) (hne : xs ≠ []) :
    ∃ v, op.kernel E xs = .ok v := by
  have hemp : xs.isEmpty = false := by cases xs with | nil => exact absurd rfl hne | cons _ _ => rfl
  cases op with
  | countNonzero => exact ⟨_, rfl⟩
  | argmax =>
    rcases hop with hop | hop
    · cases hop
    · obtain ⟨p, _, hp, _⟩ := C10.argmax_spec hop xs hne
      exact ⟨p, by simp [CntOp.kernel, hemp, hp]⟩
  | argmin =>
    rcases hop with hop | hop
    · cases hop
    · obtain ⟨p, _, hp, _⟩ := C10.argmin_spec hop xs hne
      exact ⟨p, by simp [CntOp.kernel, hemp, hp]⟩

theorem CntOp.lane_flat (E : Elem α) (op : CntOp) (xs : List α) (kd : Option Bool) (v : Nat) (h : op.kernel E xs = .ok v) :
    op.lane E (Arr.flat xs) kd = .ok (Arr.single v) := by
  have tail : Arr.keepdimsTail (Arr.flat xs).ndim kd (Arr.single v) = .ok (Arr.single v) := by
    by_cases hk : kd = some true
    · simp [Arr.keepdimsTail, hk, Arr.flat, Arr.ndim, Arr.atleast, Arr.atleast1d]
    · simp [Arr.keepdimsTail, hk]
  cases op with
  | countNonzero =>
    simp only [CntOp.kernel, Res.ok.injEq] at h
    rw [countNonzero_lane_flat, h]
  | argmax =>
    simp only [CntOp.kernel] at h
    split at h
    · cases h
    · next hemp =>
      have he : (Arr.flat xs).isEmpty = false := by
        cases xs with
        | nil => simp at hemp
        | cons _ _ => simp [Arr.isEmpty, Arr.flat]
      simp only [CntOp.lane, argExtremeLane, he, Bool.false_eq_true, ↓reduceIte]
      show (argExtremePos E.cmp true xs >>= _) = _
      rw [h]; exact tail
  | argmin =>
    simp only [CntOp.kernel] at h
    split at h
    · cases h
    · next hemp =>
      have he : (Arr.flat xs).isEmpty = false := by
        cases xs with
        | nil => simp at hemp
        | cons _ _ => simp [Arr.isEmpty, Arr.flat]
      simp only [CntOp.lane, argExtremeLane, he, Bool.false_eq_true, ↓reduceIte]
      show (argExtremePos E.cmp false xs >>= _) = _
      rw [h]; exact tail

/-- the lane through a position of the remaining axes has the length of the processed axis -/
theorem laneOf_reduced_length (a : Arr α) (axis : Nat) (c : List Nat) (hwf : a.WF) (hax : axis < a.shape.length)
    (hc : inRange (a.shape.eraseIdx axis) c = true) :
    (laneOf a axis (c.insertIdx axis 0)).length = a.shape.getD axis 0 := by
  have hcl : c.length = (a.shape.eraseIdx axis).length := inRange_length _ _ hc
  have hal : axis ≤ c.length := by rw [hcl, List.length_eraseIdx]; simp [hax]; omega
  have hs : a.shape.set axis 1 = (a.shape.eraseIdx axis).insertIdx axis 1 := (insertIdx_eraseIdx_self _ _ _ hax).symm
  have hC : inRange (a.shape.set axis 1) (c.insertIdx axis 0) = true := by
    rw [hs]; exact inRange_insertIdx _ _ _ _ _ hc (by omega)
  exact laneOf_length a axis 1 _ hwf hC

theorem length_pos_ne_nil {β : Type} (l : List β) (n : Nat) (h : l.length = n) (hn : 0 < n) : l ≠ [] := by
  intro e; rw [e] at h; simp at h; omega

/-! ## integer and NaN-tagged instances -/

theorem foldl_add_int (xs : List Int) (a : Int) : xs.foldl (fun acc x => acc + x) a = a + xs.sum := by
  induction xs generalizing a with
  | nil => simp
  | cons x xs ih => rw [List.foldl_cons, ih, List.sum_cons]; omega

/-- NaN-free lanes of the NaN-tagged instance behave like the integer instance -/
theorem foldl_nanInt_some (f : Int → Int → Int) (g : Option Int → Option Int → Option Int)
    (hg : ∀ x y, g (some x) (some y) = some (f x y)) :
    ∀ (xs : List Int) (a : Int), (xs.map some).foldl g (some a) = some (xs.foldl f a) := by
  intro xs
  induction xs with
  | nil => intro a; rfl
  | cons x xs ih => intro a; simp [hg, ih]

/-! sample arrays for the non-vacuity examples of `Props/C08.lean` -/
def sampleI : Arr Int := ⟨[3, -1, 4, 1, -5, 9, 2, 6, 5, 3, 5, 0], [2, 3, 2]⟩
def sampleN : Arr (Option Int) := ⟨[some 3, none, some 4, some 1, some (-5), some 9, none, some 6, some 5, none, some 5, some 0], [2, 3, 2]⟩

end ArrModel.C08K
