import ArrProofs.Lemmas.C17Split
/-! helper lemmas for C17: the `_replace` loop against `split` / `splitn` -/
namespace ArrModel.C17

/-- non-empty `old`, no limit: the loop rebuilds the text as the pieces of `split` joined by `new`
(same fuel on both sides: the two loops take the same steps) -/
theorem replaceLoop_none (old new : Str) (hold : old ≠ []) : ∀ (f : Nat) (done rest : Str) (k : Nat),
    replaceLoop old new none f done rest k = done ++ joinWith new (splitF old f rest)
  | 0, done, rest, k => by simp [replaceLoop, splitF, joinWith]
  | f + 1, done, rest, k => by
    have hne : old.isEmpty = false := by cases old <;> simp_all
    simp only [replaceLoop, splitF]
    split
    · simp [joinWith]
    · rename_i i hi
      simp only [limitReached, hne, Bool.false_eq_true, if_false]
      rw [replaceLoop_none old new hold f, joinWith_cons _ _ _ (splitF_ne_nil _ _ _)]
      simp [List.append_assoc]

/-- non-empty `old`, limit `c`, `k` replacements done so far: `splitn` with `c - k + 1` pieces -/
theorem replaceLoop_some (old new : Str) (hold : old ≠ []) (c : Nat) : ∀ (f : Nat) (done rest : Str) (k : Nat),
    k ≤ c → replaceLoop old new (some c) f done rest k = done ++ joinWith new (splitnF old f (c - k + 1) rest)
  | 0, done, rest, k, hk => by
    cases hn : c - k with
    | zero => simp [replaceLoop, splitnF, joinWith]
    | succ n => simp [replaceLoop, splitnF, joinWith]
  | f + 1, done, rest, k, hk => by
    have hne : old.isEmpty = false := by cases old <;> simp_all
    by_cases hck : c ≤ k
    · have : c - k = 0 := by omega
      simp only [this, replaceLoop, splitnF, joinWith, limitReached, hck, decide_true, if_true]
      split <;> rfl
    · obtain ⟨n, hn⟩ : ∃ n, c - k = n + 1 := ⟨c - k - 1, by omega⟩
      have hn' : c - (k + 1) + 1 = n + 1 := by omega
      simp only [hn, replaceLoop, splitnF, limitReached, hck, decide_false, Bool.false_eq_true, if_false, hne]
      split
      · simp [joinWith]
      · rename_i i hi
        rw [replaceLoop_some old new hold c f _ _ (k + 1) (by omega), hn',
          joinWith_cons _ _ _ (splitnF_ne_nil _ _ _ _)]
        simp [List.append_assoc]

/-- empty `old`, no limit: `new` goes before every character and at the end -/
theorem replaceLoop_empty_none (new : Str) : ∀ (rest : Str) (f : Nat) (done : Str) (k : Nat), rest.length < f →
    replaceLoop [] new none f done rest k = done ++ joinWith new (splitEmpty rest)
  | _, 0, _, _, h => by omega
  | [], f + 1, done, k, _ => by
    simp [replaceLoop, limitReached, find, splitEmpty, joinWith]
  | c :: cs, f + 1, done, k, h => by
    have ih := replaceLoop_empty_none new cs f (done ++ new ++ [c]) (k + 1) (by simp at h; omega)
    have hf : find (c :: cs) [] = some 0 := find_nil_pat _
    simp only [replaceLoop, limitReached, hf, List.isEmpty_nil, if_true, List.drop_zero, List.take_zero, List.append_nil,
      Bool.false_eq_true, if_false]
    rw [ih]
    have hne : ∀ (l : Str), l.map (fun c => [c]) ++ [[]] ≠ [] := by intro l; simp
    unfold splitEmpty
    rw [joinWith_cons _ _ _ (hne cs), joinWith_cons _ _ _ (hne (c :: cs)), List.map_cons, List.cons_append,
      joinWith_cons _ _ _ (hne cs)]
    simp [List.append_assoc]

/-- empty `old`, limit `c` -/
theorem replaceLoop_empty_some (new : Str) (c : Nat) : ∀ (rest : Str) (f : Nat) (done : Str) (k : Nat),
    rest.length < f → k ≤ c →
    replaceLoop [] new (some c) f done rest k = done ++ joinWith new (splitnEmpty (c - k + 1) rest)
  | _, 0, _, _, h, _ => by omega
  | rest, f + 1, done, k, h, hk => by
    have hf : find rest [] = some 0 := find_nil_pat _
    by_cases hck : c ≤ k
    · have : c - k = 0 := by omega
      simp [this, replaceLoop, limitReached, hf, hck, splitnEmpty, joinWith]
    · obtain ⟨n, hn⟩ : ∃ n, c - k = n + 1 := ⟨c - k - 1, by omega⟩
      have hn' : c - (k + 1) + 1 = n + 1 := by omega
      simp only [hn, replaceLoop, limitReached, hf, hck, decide_false, Bool.false_eq_true, if_false, List.isEmpty_nil, if_true,
        List.drop_zero, List.take_zero, List.append_nil, splitnEmpty]
      cases rest with
      | nil =>
        cases n <;> simp [splitnEmptyGo, joinWith]
      | cons d ds =>
        simp only
        rw [replaceLoop_empty_some new c ds f _ (k + 1) (by simp at h; omega) (by omega), hn',
          joinWith_cons _ _ _ (splitnEmptyGo_ne_nil _ _)]
        cases n with
        | zero => simp [splitnEmpty, splitnEmptyGo, joinWith]
        | succ m =>
          simp only [splitnEmpty, splitnEmptyGo]
          rw [joinWith_cons _ _ _ (splitnEmptyGo_ne_nil _ _), joinWith_cons _ _ _ (splitnEmptyGo_ne_nil _ _)]
          simp [List.append_assoc]

/-- fuel: with more than `rest.length` units the loop never runs out (the result no longer depends on the fuel).
This is the lemma that has no proof for the pinned loop, which searches the whole text again after each replacement. -/
theorem replaceLoop_fuel (old new : Str) (cnt : Option Nat) : ∀ (f g : Nat) (done rest : Str) (k : Nat),
    rest.length < f → rest.length < g →
    replaceLoop old new cnt f done rest k = replaceLoop old new cnt g done rest k
  | 0, _, _, _, _, hf, _ => by omega
  | _ + 1, 0, _, _, _, _, hg => by omega
  | f + 1, g + 1, done, rest, k, hf, hg => by
    simp only [replaceLoop]
    split
    · rfl
    · rename_i i hi
      by_cases hl : limitReached cnt k = true
      · simp only [hl, if_true]
      · simp only [hl, Bool.false_eq_true, if_false]
        by_cases he : old.isEmpty = true
        · simp only [he, if_true]
          have hi0 : i = 0 := by
            have : old = [] := by cases old <;> simp_all
            subst this; rw [find_nil_pat] at hi; cases hi; rfl
          subst hi0
          cases hr : rest.drop 0 with
          | nil => rfl
          | cons c after =>
            simp only
            have : rest = c :: after := by simpa using hr
            subst this
            exact replaceLoop_fuel old new cnt f g _ _ _ (by simp at hf; omega) (by simp at hg; omega)
        · simp only [he, Bool.false_eq_true, if_false]
          have hold : old ≠ [] := by cases old <;> simp_all
          have := drop_match_length_lt rest old i hold hi
          exact replaceLoop_fuel old new cnt f g _ _ _ (by omega) (by omega)

end ArrModel.C17
