import ArrProofs.Lemmas.C15Norm
/-!
# Lemmas for C15, part 6: the two reductions of a matrix norm on a rank-2 array

`colAbsSums a m n` / `rowAbsSums a m n`: the textbook column / row sums of absolute values of the row-major `m × n` matrix.
`sumAx_abs_axis0/1`: `abs().sum(Some(0))` / `abs().sum(Some(1))` of the shared model return exactly these lists;
`maxAx_vec` / `minAx_vec`: `max(Some(0))`, `max(Some(-1))` of a non-empty vector return its greatest element.
-/
namespace ArrModel.C15
open ArrModel Arr

/-- `Σ_i |a[i][j]|` for every column `j` -/
def colAbsSums (a : Arr Rat) (m n : Nat) : List Rat :=
  (List.range n).map fun j => ((List.range m).map fun i => |vget a.elems (i * n + j)|).sum
/-- `Σ_j |a[i][j]|` for every row `i` -/
def rowAbsSums (a : Arr Rat) (m n : Nat) : List Rat :=
  (List.range m).map fun i => ((List.range n).map fun j => |vget a.elems (i * n + j)|).sum

theorem get?_mat (a : Arr Rat) (m n i j : Nat) (hs : a.shape = [m, n]) (hwf : a.WF) (hi : i < m) (hj : j < n) :
    a.get? [i, j] = some (vget a.elems (i * n + j)) := by
  have hlen : a.elems.length = m * n := by rw [hwf, hs]; simp
  have hlt : i * n + j < a.elems.length := by
    rw [hlen]; calc i * n + j < i * n + n := by omega
      _ = (i + 1) * n := by rw [Nat.add_mul]; omega
      _ ≤ m * n := Nat.mul_le_mul_right n hi
  simp only [Arr.get?, hs, ravel, List.prod_cons, List.prod_nil, Nat.mul_one, Nat.add_zero, vget]
  rw [List.getElem?_eq_getElem hlt, List.getD_eq_getElem?_getD, List.getElem?_eq_getElem hlt]; rfl

theorem lane_axis0 (a : Arr Rat) (m n j : Nat) (hs : a.shape = [m, n]) (hwf : a.WF) (hj : j < n) :
    laneOf a 0 [0, j] = (List.range m).map fun i => vget a.elems (i * n + j) := by
  have hC : inRange (a.shape.set 0 1) [0, j] = true := by simp [hs, inRange, hj]
  have hlen : (laneOf a 0 [0, j]).length = m := by rw [laneOf_length a 0 1 _ hwf hC, hs]; rfl
  apply List.ext_getElem?
  intro i
  by_cases hi : i < m
  · rw [laneOf_getElem? a 0 1 _ hwf hC i (by rw [hs]; exact hi)]
    simp only [List.set_cons_zero]
    rw [get?_mat a m n i j hs hwf hi hj, List.getElem?_map, List.getElem?_range hi]; rfl
  · rw [List.getElem?_eq_none (by omega), List.getElem?_eq_none (by simp; omega)]

theorem lane_axis1 (a : Arr Rat) (m n i : Nat) (hs : a.shape = [m, n]) (hwf : a.WF) (hi : i < m) :
    laneOf a 1 [i, 0] = (List.range n).map fun j => vget a.elems (i * n + j) := by
  have hC : inRange (a.shape.set 1 1) [i, 0] = true := by simp [hs, inRange, hi]
  have hlen : (laneOf a 1 [i, 0]).length = n := by rw [laneOf_length a 1 1 _ hwf hC, hs]; rfl
  apply List.ext_getElem?
  intro j
  by_cases hj : j < n
  · rw [laneOf_getElem? a 1 1 _ hwf hC j (by rw [hs]; exact hj)]
    simp only [List.set_cons_succ, List.set_cons_zero]
    rw [get?_mat a m n i j hs hwf hi hj, List.getElem?_map, List.getElem?_range hj]; rfl
  · rw [List.getElem?_eq_none (by omega), List.getElem?_eq_none (by simp; omega)]

theorem normalizeAxis_nonneg (nd : Nat) (k : Nat) : normalizeAxis nd (k : Int) = k := by
  simp [normalizeAxis]

theorem abs_lane_sum (l : List Rat) : sumL (l.map absR) = (l.map fun x => |x|).sum := by
  rw [sumL_eq_sum]; congr 1; apply List.map_congr_left; intro x _; exact absR_eq_abs x

/-- an array is determined by its shape and, for a vector shape `[n]`, by its `n` entries -/
theorem arr_vec_ext (r : Arr Rat) (l : List Rat) (n : Nat) (hs : r.shape = [n]) (hwf : r.WF) (hl : l.length = n)
    (h : ∀ j, j < n → r.get? [j] = l[j]?) : r = ⟨l, [n]⟩ := by
  obtain ⟨el, sh⟩ := r
  simp only at hs; subst hs
  have hlen : el.length = n := by simpa [Arr.WF] using hwf
  congr 1
  apply List.ext_getElem?
  intro j
  by_cases hj : j < n
  · have := h j hj
    simpa [Arr.get?, ravel] using this
  · rw [List.getElem?_eq_none (by omega), List.getElem?_eq_none (by omega)]

theorem sumAx_abs_axis0 (a : Arr Rat) (m n : Nat) (hm : 0 < m) (hn : 0 < n) (hs : a.shape = [m, n]) (hwf : a.WF) :
    sumAx (mapArr absR a) 0 = .ok ⟨colAbsSums a m n, [n]⟩ := by
  have hnz : 0 ∉ a.shape := by rw [hs]; simp; omega
  have hnd : a.ndim = 2 := by simp [Arr.ndim, hs]
  have hk : normalizeAxis (mapArr absR a).ndim 0 = 0 := by simp [normalizeAxis]
  obtain ⟨r, h1, h2, h3, h4⟩ := redAx_spec (mapArr absR a) 0 0 0 sumBody sumL (mapArr_wf _ a hwf) hnz
    (by rw [hk]; simp [hnd]) (fun lane _ => sumBody_flat lane)
  rw [hk] at h2 h4
  simp only [mapArr_ndim, mapArr_shape, hnd, hs, List.eraseIdx_cons_zero] at h2 h4
  unfold sumAx
  rw [h1]; congr 1
  apply arr_vec_ext r _ n (by simpa using h2) h3 (by simp [colAbsSums])
  intro j hj
  have := h4 [j] (by simp [inRange, hj])
  simp only [List.insertIdx_zero] at this
  simp only [show (2 : Nat) > 1 from by omega, if_true] at this
  rw [this, laneOf_mapArr, lane_axis0 a m n j hs hwf hj, abs_lane_sum, List.map_map]
  simp [colAbsSums, hj, Function.comp_def]

theorem sumAx_abs_axis1 (a : Arr Rat) (m n : Nat) (hm : 0 < m) (hn : 0 < n) (hs : a.shape = [m, n]) (hwf : a.WF) :
    sumAx (mapArr absR a) 1 = .ok ⟨rowAbsSums a m n, [m]⟩ := by
  have hnz : 0 ∉ a.shape := by rw [hs]; simp; omega
  have hnd : a.ndim = 2 := by simp [Arr.ndim, hs]
  have hk : normalizeAxis (mapArr absR a).ndim 1 = 1 := by simp [normalizeAxis]
  obtain ⟨r, h1, h2, h3, h4⟩ := redAx_spec (mapArr absR a) 0 0 1 sumBody sumL (mapArr_wf _ a hwf) hnz
    (by rw [hk]; simp [hnd]) (fun lane _ => sumBody_flat lane)
  rw [hk] at h2 h4
  simp only [mapArr_ndim, mapArr_shape, hnd, hs, List.eraseIdx_cons_succ, List.eraseIdx_cons_zero] at h2 h4
  unfold sumAx
  rw [h1]; congr 1
  apply arr_vec_ext r _ m (by simpa using h2) h3 (by simp [rowAbsSums])
  intro i hi
  have := h4 [i] (by simp [inRange, hi])
  simp only [List.insertIdx_succ_cons, List.insertIdx_zero] at this
  simp only [show (2 : Nat) > 1 from by omega, if_true] at this
  rw [this, laneOf_mapArr, lane_axis1 a m n i hs hwf hi, abs_lane_sum, List.map_map]
  simp [rowAbsSums, hi, Function.comp_def]

/-- `max(Some(0))` = `max(Some(-1))` of a non-empty vector: its greatest element, shape `[1]` -/
theorem extAx_vec (body : Arr Rat → Res (Arr Rat)) (g : List Rat → Rat)
    (hbody : ∀ lane : List Rat, lane.length ≠ 0 → body (Arr.flat lane) = .ok (Arr.single (g lane)))
    (l : List Rat) (n : Nat) (hn : 0 < n) (hl : l.length = n) (ax : Int) (hax : ax = 0 ∨ ax = -1) :
    (⟨l, [n]⟩ : Arr Rat).reduceAxis 0 0 (some ax) body = .ok ⟨[g l], [1]⟩ := by
  have hwf : (⟨l, [n]⟩ : Arr Rat).WF := by simp [Arr.WF, hl]
  have hnz : 0 ∉ (⟨l, [n]⟩ : Arr Rat).shape := by simp; omega
  have hk : normalizeAxis (⟨l, [n]⟩ : Arr Rat).ndim ax = 0 := by
    rcases hax with h | h <;> subst h <;> simp [normalizeAxis, Arr.ndim]
  obtain ⟨r, h1, h2, h3, h4⟩ := redAx_spec (⟨l, [n]⟩ : Arr Rat) 0 0 ax body g hwf hnz (by rw [hk]; simp [Arr.ndim])
    (fun lane hlen => hbody lane (by rw [hlen, hk]; simp; omega))
  rw [hk] at h2 h4
  have hnd : ¬ ((⟨l, [n]⟩ : Arr Rat).ndim > 1) := by simp [Arr.ndim]
  simp only [hnd, if_false] at h2 h4
  rw [h1]; congr 1
  have e := h4 [] (by simp [inRange])
  rw [laneOf_rank1 (⟨l, [n]⟩ : Arr Rat) n _ hwf rfl (by simp)] at e
  apply arr_vec_ext r [g l] 1 h2 h3 rfl
  intro j hj
  have hj0 : j = 0 := by omega
  subst hj0
  simpa using e

theorem maxAx_vec (l : List Rat) (n : Nat) (hn : 0 < n) (hl : l.length = n) (ax : Int) (hax : ax = 0 ∨ ax = -1) :
    maxAx ⟨l, [n]⟩ ax = .ok ⟨[maxL l], [1]⟩ := extAx_vec maxBody maxL maxBody_flat l n hn hl ax hax

theorem minAx_vec (l : List Rat) (n : Nat) (hn : 0 < n) (hl : l.length = n) (ax : Int) (hax : ax = 0 ∨ ax = -1) :
    minAx ⟨l, [n]⟩ ax = .ok ⟨[minL l], [1]⟩ := extAx_vec minBody minL minBody_flat l n hn hl ax hax

/-! ### unfolding the dispatch of `normX` -/

theorem normX_one_axis (a : Arr Rat) (ord : Ord) (ax : Int) (keep : Bool) :
    normX a (some ord) (some [ax]) keep = normVecX a ord ax := by
  simp [normX]

/-- the two-axis dispatch for one ordered pair of distinct in-range normalised axes -/
theorem normX_two_axes (a : Arr Rat) (ord : Ord) (ax0 ax1 : Int) (keep : Bool) (row col : Int)
    (h0 : normAxis a.ndim ax0 = row) (h1 : normAxis a.ndim ax1 = col) (hne : row ≠ col)
    (hr : 0 ≤ row ∧ row < a.ndim) (hc : 0 ≤ col ∧ col < a.ndim) :
    normX a (some ord) (some [ax0, ax1]) keep =
      (if keep then (normMatX a ord row col) >>= fun r => .ok (symArr ⟨r.elems, r.shape ++ [1]⟩)
       else (normMatX a ord row col).map symArr) := by
  have hr' : ¬ (row < 0 ∨ row ≥ a.ndim) := by omega
  have hc' : ¬ (col < 0 ∨ col ≥ a.ndim) := by omega
  simp only [normX, Option.getD_some, h0, h1, hne, hr', hc', if_false]
  rfl

theorem sumL_indicator (l : List Rat) :
    sumL (l.map fun x => if x = 0 then (0 : Rat) else 1) = ((l.filter fun x => decide (x ≠ 0)).length : Rat) := by
  rw [sumL_eq_sum]
  induction l with
  | nil => simp
  | cons x xs ih =>
    by_cases h : x = 0
    · simp [h, ih]
    · simp [h, ih]; ring

theorem bcastGuard_ok (a : Arr Rat) (hnz : 0 ∉ a.shape) : bcastGuard a = .ok () := by
  simp [bcastGuard, hnz]

theorem sq_lane_sum (l : List Rat) : sumL (l.map fun x => absR (x * x)) = (l.map fun x => x * x).sum := by
  rw [sumL_eq_sum]; congr 1; apply List.map_congr_left; intro x _
  rw [absR_eq_abs, abs_of_nonneg (mul_self_nonneg x)]

end ArrModel.C15
