import ArrProofs.Lemmas.C01Machine
/-!
# Lemmas.C01Ext — well-formedness of the results of the operations added to the C01 machine after the first build

`slice` / `indices_at` (`ArrModel/IndexExt.lean`), `dot` with an operand of rank ≥ 3 (`ArrModel/C14Ext.lean`),
`clip` with a missing bound, `filter_map`, and the string-array operations (`ArrModel/C17Lift.lean`).
One lemma per operation; all names carry the prefix `c01x_`.
-/
namespace ArrModel.C01
open ArrModel

variable {α β γ δ : Type}

/-! ## indexing -/

/-- `slice`: the exits are `flat`, the receiver itself (here its well-formedness is used) and `Array::new` -/
theorem c01x_slice_wf (a : Arr α) (start stop : Nat) (ha : a.WF) {r : Arr α}
    (h : a.slice start stop = .ok r) : r.WF := by
  unfold Arr.slice at h
  res_inv
  all_goals first
    | (cases h; done)
    | exact new_ok_wf h
    | (cases h; exact flat_wf _)
    | (cases h; exact ha)

/-- `indices_at`: the exits are `flat`, `Array::new` and `reshape` -/
theorem c01x_indicesAt_wf (a : Arr α) (indices : List Nat) (_ha : a.WF) {r : Arr α}
    (h : a.indicesAt indices = .ok r) : r.WF := by
  unfold Arr.indicesAt at h
  res_inv
  wf_close

/-! ## `dot`, every arm -/

theorem c01x_dot1dNd_wf (a b : C14.A) {r : C14.A} (h : C14.dot1dNd a b = .ok r) : r.WF := by
  unfold C14.dot1dNd at h
  by_cases h1 : a.ndim > 1 <;> by_cases h2 : b.ndim > 1 <;>
    simp only [h1, h2, if_true, if_false, C14.bind_eq_ok_iff] at h <;>
    obtain ⟨_, _, _, _, h⟩ := h <;> exact C14.dotIterate_wf h

/-- `dot_nd` ends in `transpose` of a `reshape` -/
theorem c01x_dotNd_wf (a b : C14.A) {r : C14.A} (h : C14.dotNd a b = .ok r) : r.WF := by
  unfold C14.dotNd at h
  obtain ⟨_, _, h⟩ := bind_ok_inv h
  obtain ⟨_, _, h⟩ := bind_ok_inv h
  obtain ⟨_, _, h⟩ := bind_ok_inv h
  obtain ⟨_, _, h⟩ := bind_ok_inv h
  obtain ⟨_, _, h⟩ := bind_ok_inv h
  obtain ⟨_, _, h⟩ := bind_ok_inv h
  obtain ⟨x, _, h⟩ := bind_ok_inv h
  exact transpose_wf x 0 _ h

/-- `dot` on operands of any rank (the arms of `C14.dot`, `dot_1d` on a stack, `dot_nd`) -/
theorem c01x_dotFull_wf (a b : C14.A) (ha : a.WF) (hb : b.WF) {r : C14.A}
    (h : C14.dotFull a b = .ok r) : r.WF := by
  unfold C14.dotFull at h
  split at h
  · rename_i x hx
    exact c14_dot_wf a b ha hb (by rw [hx, h])
  · split at h
    · exact c01x_dot1dNd_wf a b h
    · exact c01x_dotNd_wf a b h

/-! ## `clip` with a missing bound -/

theorem c01x_clipBound_wf (a : A) (ha : a.WF) (b : Option A) (hb : ∀ x, b = some x → x.WF) {r : A}
    (h : clipBound a b = .ok r) : r.WF := by
  cases b with
  | some x => simp only [clipBound] at h; cases h; exact hb _ rfl
  | none => exact reduceAxis_wf a 0 0 none _ ha extremeBody_wf h

theorem c01x_clipOpt_wf (a : A) (ha : a.WF) (lo hi : Option A) (_hlo : ∀ x, lo = some x → x.WF)
    (_hhi : ∀ x, hi = some x → x.WF) {r : A} (h : clipOptArr a lo hi = .ok r) : r.WF := by
  unfold clipOptArr at h
  obtain ⟨l, _, h⟩ := bind_ok_inv h
  obtain ⟨lo', hlo', h⟩ := bind_ok_inv h
  obtain ⟨u, _, h⟩ := bind_ok_inv h
  obtain ⟨hi', hhi', h⟩ := bind_ok_inv h
  exact c04_clipLike_wf _ a lo' hi' ha (broadcastTo_wf l _ hlo') (broadcastTo_wf u _ hhi') h

theorem getOpt_wf {s : Store} (hs : StoreWF s) {i : Option Nat} {o : Option A} (h : getOpt s i = some o) :
    ∀ x, o = some x → x.WF := by
  intro x hx
  subst hx
  cases i with
  | none => simp [getOpt] at h
  | some i =>
    simp only [getOpt, Option.map_eq_some_iff] at h
    obtain ⟨y, hy, hxy⟩ := h
    cases hxy
    exact getA_wf hs hy

/-! ## the string-array operations: every lifting shape of `ArrModel/C17Lift.lean` rebuilds through `Array::new` -/

theorem strArr_wf {a : A} (h : a.WF) : (strArr a).WF := by simpa [strArr, Arr.WF] using h
theorem blankArr_wf (a : Arr β) (h : a.WF) : (blankArr a).WF := by simpa [blankArr, Arr.WF] using h

theorem c01x_lift1_wf (f : α → β) (a : Arr α) {r : Arr β} (h : C17.lift1 f a = .ok r) : r.WF := new_ok_wf h

theorem c01x_lift2_wf (B : C17.Bcast) (f : α → β → γ) (a : Arr α) (b : Arr β) {r : Arr γ}
    (h : C17.lift2 B f a b = .ok r) : r.WF := by
  unfold C17.lift2 at h
  obtain ⟨_, _, h⟩ := bind_ok_inv h
  exact new_ok_wf h

theorem c01x_lift2h_wf (B : C17.Bcast) (z : α) (f : α → β → γ) (a : Arr α) (b : Arr β) {r : Arr γ}
    (h : C17.lift2h B z f a b = .ok r) : r.WF := by
  unfold C17.lift2h at h
  obtain ⟨_, _, h⟩ := bind_ok_inv h
  exact new_ok_wf h

theorem c01x_lift3h_wf (B : C17.Bcast) (z : α) (f : α → β → γ → δ) (a : Arr α) (b : Arr β) (c : Arr γ) {r : Arr δ}
    (h : C17.lift3h B z f a b c = .ok r) : r.WF := by
  unfold C17.lift3h at h
  obtain ⟨_, _, h⟩ := bind_ok_inv h
  exact new_ok_wf h

theorem c01x_lift3_wf (B : C17.Bcast) (f : α → α → α → β) (a b c : Arr α) {r : Arr β}
    (h : C17.lift3 B f a b c = .ok r) : r.WF := by
  unfold C17.lift3 at h
  obtain ⟨_, _, h⟩ := bind_ok_inv h
  obtain ⟨_, _, h⟩ := bind_ok_inv h
  obtain ⟨_, _, h⟩ := bind_ok_inv h
  obtain ⟨_, _, h⟩ := bind_ok_inv h
  obtain ⟨_, _, h⟩ := bind_ok_inv h
  exact new_ok_wf h

theorem c01x_liftSplit_wf (B : C17.Bcast) (f : α → α → Option Nat → β) (a sep : Arr α) (m : Option (Arr Nat))
    {r : Arr β} (h : C17.liftSplit B f a sep m = .ok r) : r.WF := by
  unfold C17.liftSplit at h
  obtain ⟨_, _, h⟩ := bind_ok_inv h
  obtain ⟨_, _, h⟩ := bind_ok_inv h
  obtain ⟨_, _, h⟩ := bind_ok_inv h
  exact new_ok_wf h

/-- `capitalize` (and every other one-operand string operation: `lift1`) -/
theorem c01x_strUnary_wf (a : C17.SArr) {r : C17.SArr} (h : C17.capitalizeA a = .ok r) : r.WF := c01x_lift1_wf _ a h

/-- `add` (and every other two-string operation: `lift2`) -/
theorem c01x_strBinary_wf (B : C17.Bcast) (a b : C17.SArr) {r : C17.SArr} (h : C17.add B a b = .ok r) : r.WF :=
  c01x_lift2_wf B _ a b h

/-- `strip` = `lstrip` then `rstrip` -/
theorem c01x_strStrip_wf (B : C17.Bcast) (a : C17.SArr) (c : Option C17.SArr) {r : C17.SArr}
    (h : C17.stripA B a c = .ok r) : r.WF := by
  unfold C17.stripA at h
  obtain ⟨l, _, h⟩ := bind_ok_inv h
  exact c01x_lift2_wf B _ l _ h

theorem c01x_strCompare_wf (B : C17.Bcast) (a b : C17.SArr) (op : C17.Str) {r : Arr Bool}
    (h : C17.compareA B a b op = .ok r) : r.WF := by
  unfold C17.compareA at h
  obtain ⟨o, _, h⟩ := bind_ok_inv h
  exact c01x_lift2_wf B _ a b h

theorem c01x_strMultiply_wf (B : C17.Bcast) (a : C17.SArr) (n : Arr Nat) {r : C17.SArr}
    (h : C17.multiplyA B a n = .ok r) : r.WF := c01x_lift2h_wf B _ _ a n h

theorem c01x_strSplitlines_wf (B : C17.Bcast) (a : C17.SArr) (k : Option (Arr Bool)) {r : Arr (List C17.Str)}
    (h : C17.splitlinesA B a k = .ok r) : r.WF := c01x_lift2h_wf B _ _ a _ h

theorem c01x_strPad_wf (B : C17.Bcast) (a : C17.SArr) (w : Arr Nat) (fill : Option (Arr Char)) {r : C17.SArr}
    (h : C17.centerA B a w fill = .ok r) : r.WF := c01x_lift3h_wf B _ _ a w _ h

theorem c01x_strSplit_wf (a : A) (sep : Option A) (m : Option Nat) {r : A} (h : strSplitArr a sep m = .ok r) : r.WF := by
  unfold strSplitArr at h
  obtain ⟨x, hx, rfl⟩ := map_ok_inv h
  exact blankArr_wf x (c01x_liftSplit_wf _ _ _ _ _ hx)

theorem c01x_strReplace_wf (B : C17.Bcast) (a o n : C17.SArr) (cnt : Option Nat) {r : C17.SArr}
    (h : C17.replaceA B a o n cnt = .ok r) : r.WF := c01x_lift3_wf B _ a o n h

end ArrModel.C01
