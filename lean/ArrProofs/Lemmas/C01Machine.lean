import ArrModel.C01
import ArrProofs.Lemmas.C01Struct
import ArrProofs.Lemmas.C01Ops
import ArrProofs.Lemmas.C01Num
/-!
# Lemmas.C01Machine — store-level plumbing for the C01 machine

Reading an entry of a well-formed store gives well-formed arrays; the wrappers `with1/2/3`, `withL`, `ofRes*` carry
well-formedness; the element-type bridges, the 1-D bodies, the lane functions, the pattern and operator tables are
well-formedness preserving.
-/
namespace ArrModel.C01
open ArrModel

theorem getA_wf {s : Store} (hs : StoreWF s) {i : Nat} {a : A} (h : getA s i = some a) : a.WF := by
  unfold getA at h
  split at h
  · rename_i a' hget
    cases h
    exact hs (.arr a) (List.mem_of_getElem? hget)
  · cases h

theorem getL_wf {s : Store} (hs : StoreWF s) {i : Nat} {l : List A} (h : getL s i = some l) : AllWF l := by
  unfold getL at h
  split at h
  · rename_i l' hget
    cases h
    exact hs (.list l) (List.mem_of_getElem? hget)
  · cases h

theorem getAs_wf {s : Store} (hs : StoreWF s) : ∀ {is : List Nat} {l : List A}, getAs s is = some l → AllWF l
  | [], l, h => by simp [getAs] at h; subst h; intro a ha; cases ha
  | i :: is, l, h => by
    unfold getAs at h
    split at h
    · rename_i a as ha has
      cases h
      intro x hx
      rcases List.mem_cons.mp hx with rfl | hx
      · exact getA_wf hs ha
      · exact getAs_wf hs has x hx
    · cases h

theorem getRefs_wf {s : Store} (hs : StoreWF s) {r : Refs} {l : List A} (h : getRefs s r = some l) : AllWF l := by
  cases r with
  | idxs is => exact getAs_wf hs h
  | lst i => exact getL_wf hs h

theorem ofRes_wf {x : Res A} (h : ∀ r, x = .ok r → r.WF) : ValWF (ofRes x) := by
  cases x with
  | ok a => exact h a rfl
  | err e => trivial
  | panic => trivial

theorem ofResL_wf {x : Res (List A)} (h : ∀ r, x = .ok r → AllWF r) : ValWF (ofResL x) := by
  cases x with
  | ok l => exact h l rfl
  | err e => trivial
  | panic => trivial

theorem ofRes_map_wf {β : Type} {x : Res (Arr β)} {g : Arr β → A} (hg : ∀ b, b.WF → (g b).WF)
    (h : ∀ r, x = .ok r → r.WF) : ValWF (ofRes (x.map g)) := by
  cases x with
  | ok a => exact hg a (h a rfl)
  | err e => trivial
  | panic => trivial

theorem with1_wf {s : Store} (hs : StoreWF s) {i : Nat} {f : A → Val} (hf : ∀ a, a.WF → ValWF (f a)) :
    ValWF (with1 s i f) := by
  unfold with1
  split
  · rename_i a ha; exact hf a (getA_wf hs ha)
  · trivial

theorem with2_wf {s : Store} (hs : StoreWF s) {i j : Nat} {f : A → A → Val}
    (hf : ∀ a b, a.WF → b.WF → ValWF (f a b)) : ValWF (with2 s i j f) := by
  unfold with2
  split
  · rename_i a b ha hb; exact hf a b (getA_wf hs ha) (getA_wf hs hb)
  · trivial

theorem with3_wf {s : Store} (hs : StoreWF s) {i j k : Nat} {f : A → A → A → Val}
    (hf : ∀ a b c, a.WF → b.WF → c.WF → ValWF (f a b c)) : ValWF (with3 s i j k f) := by
  unfold with3
  split
  · rename_i a b c ha hb hc; exact hf a b c (getA_wf hs ha) (getA_wf hs hb) (getA_wf hs hc)
  · trivial

theorem withL_wf {s : Store} (hs : StoreWF s) {r : Refs} {f : List A → Val}
    (hf : ∀ l, AllWF l → ValWF (f l)) : ValWF (withL s r f) := by
  unfold withL
  split
  · rename_i l hl; exact hf l (getRefs_wf hs hl)
  · trivial

/-! ### bridges -/
theorem toNatArr_wf {a : A} (h : a.WF) : (toNatArr a).WF := by simpa [toNatArr, Arr.WF] using h
theorem ofNatArr_wf (a : Arr Nat) (h : a.WF) : (ofNatArr a).WF := by simpa [ofNatArr, Arr.WF] using h
theorem ofRatArr_wf (a : Arr Rat) (h : a.WF) : (ofRatArr a).WF := by simpa [ofRatArr, Arr.WF] using h
theorem fstArr_wf (a : Arr (Int × Int)) (h : a.WF) : (fstArr a).WF := by simpa [fstArr, Arr.WF] using h

theorem tagArr_wf {shape : List Nat} {r : A} (h : tagArr shape = .ok r) : r.WF := new_ok_wf h

/-! ### bodies, lane functions, tables -/
theorem foldBody_wf (x y : A) (_hx : x.WF) (h : foldBody x = .ok y) : y.WF := by
  unfold foldBody at h; cases h; exact single_wf _

theorem extremeBody_wf (x y : A) (_hx : x.WF) (h : extremeBody x = .ok y) : y.WF := by
  unfold extremeBody at h
  split at h
  · cases h
  · cases h; exact single_wf _

theorem countBody_wf (x : A) (k : Option Bool) (y : A) (_hx : x.WF) (h : countBody x k = .ok y) : y.WF := by
  unfold countBody at h
  exact keepdimsTail_wf _ _ _ (single_wf _) h

theorem scanBody_wf (x y : A) (_hx : x.WF) (h : scanBody x = .ok y) : y.WF := by
  unfold scanBody at h
  exact c04_map1_wf _ _ (ravel_wf _) h

theorem laneFn_wf (f : LaneFn) (x y : A) (hx : x.WF) (h : f.run x = .ok y) : y.WF := by
  cases f with
  | ident => simp [LaneFn.run] at h; subst h; exact hx
  | rev => exact flip_wf x none hx (by simpa [LaneFn.run] using h)
  | take k => simp [LaneFn.run] at h; subst h; exact cycleTakeArr_wf _ _ hx

theorem binPat_wf (p : BinPat) (a b : A) (ha : a.WF) (hb : b.WF) {r : A} (h : p.run a b = .ok r) : r.WF := by
  cases p
  · exact c04_zipWithB_wf _ _ _ ha hb h
  · exact c04_divideLike_wf _ _ _ _ ha hb h
  · exact c04_floorDivideLike_wf _ _ _ _ _ ha hb h
  · exact c04_bitwiseLike_wf _ _ _ ha hb h
  · exact c04_zipWithR_wf _ _ _ ha hb h
  · exact c04_zipWithRA_wf _ _ _ _ _ ha hb h

/-- the operator overloads, **including the struct-literal bypasses** (`bitop`, `bitScalar`, the `*Assign` forms):
both operands well-formed (and, for `bitop`, the shape equality the code asserts — it is the `ok` branch) give a
well-formed result. -/
theorem opKind_wf (k : OpKind) (a b : A) (ha : a.WF) (hb : b.WF) {r : A} (h : k.run a b = .ok r) : r.WF := by
  cases k
  · exact c20_binop_wf _ _ _ ha hb h
  · exact c20_scalarop_wf _ _ _ ha h
  · exact c20_assignop_wf _ _ _ ha hb h
  · exact c20_assignScalar_wf _ _ _ ha h
  · exact c20_unop_wf _ _ ha h
  · exact c20_bitop_wf _ _ _ ha hb h
  · exact c20_bitScalar_wf _ _ _ ha h
  · exact c20_bitAssign_wf _ _ _ ha hb h
  · exact c20_bitAssignScalar_wf _ _ _ ha h

theorem roundLike_wf (a d : A) (_ha : a.WF) (_hd : d.WF) {r : A} (h : roundLike a d = .ok r) : r.WF := by
  unfold roundLike at h
  obtain ⟨_, _, h⟩ := bind_ok_inv h
  exact new_ok_wf h

theorem ext_wf (e : Ext) : ValWF e.run := by
  cases e with
  | arr shape => exact ofRes_wf fun r h => tagArr_wf h
  | list shapes => exact ofResL_wf fun r h => mapM'_ok_forall h (fun sh _ b hb => tagArr_wf hb)
  | none => trivial

end ArrModel.C01
