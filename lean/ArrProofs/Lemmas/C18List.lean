import ArrProofs.Lemmas.C18Tuple
/-!
# Lemmas for C18 — `array_list!` on the Debug text of a written literal

`array!(List<T>, lit)` hands `format!("{:?}", vec![lit])` to `array_list!`; the leaves of the nest are the Debug texts
`[i₁, i₂, …]` of native arrays / `Vec`s, so in the text the list items form one more bracket level.  After
`array_parse_input!` (`", "` between quoted items → `","`; `], [` → `],[`, which here also tightens the element-level
separator between two lists) the first loop writes `&[` for every bracket opening level `ndim + 2`, the second loop cuts
`&[ … ]` out (first `&`, next `]`), blanks it, and the shape is parsed from the blanked text.
-/
namespace ArrModel.C18

/-- a bracketed piece -/
def wrapB (b : Str) : Str := '[' :: (b ++ [']'])

/-- a list body (the text between the brackets) `array_list!` carries: no `[`, no `]`, no `\` -/
structure ListOk (b : Str) : Prop where
  opn : '[' ∉ b
  cls : ']' ∉ b
  back : '\\' ∉ b

theorem wrapB_fun : wrapB = fun c => ['['] ++ c ++ [']'] := by
  funext c; simp [wrapB]

/-- the leaves `[b]` seen as one more nesting level: their brackets move into the separators -/
theorem view_wrapB (sepA sepB : Nat → Str) (hsep : (fun j => [']'] ++ sepA j ++ ['[']) = sepB) (s : List Nat)
    (cs : List Str) (hpos : ∀ d ∈ s, 1 ≤ d) (hl : cs.length = s.prod) (a : Nat) :
    rep '[' a ++ mid sepA s (cs.map wrapB) ++ rep ']' a = rep '[' (a + 1) ++ mid sepB s cs ++ rep ']' (a + 1) := by
  rw [wrapB_fun, mid_wrap ['['] [']'] sepA s cs hpos hl, hsep]
  have e1 : rep '[' (a + 1) = rep '[' a ++ ['['] := rep_succ_snoc _ _
  have e2 : rep ']' (a + 1) = ']' :: rep ']' a := rfl
  rw [e1, e2]
  simp [List.append_assoc]

theorem sepL_succ : (fun j => [']'] ++ sepL j ++ ['[']) = fun j => sepL (j + 1) := by
  funext j
  rw [sepL_eq, sepL_eq, rep_succ_snoc '[' j]
  show [']'] ++ (rep ']' j ++ [',', ' '] ++ rep '[' j) ++ ['['] = (']' :: rep ']' j) ++ [',', ' '] ++ (rep '[' j ++ ['['])
  simp [List.append_assoc]

theorem sepTz_nil_succ : (fun j => [']'] ++ sepTz [] j ++ ['[']) = fun j => sepT (j + 1) := by
  funext j
  cases j with
  | zero => rfl
  | succ j =>
    show [']'] ++ (rep ']' (j + 1) ++ ',' :: rep '[' (j + 1)) ++ ['['] = rep ']' (j + 2) ++ ',' :: rep '[' (j + 2)
    rw [rep_succ_snoc '[' (j + 1)]
    show _ = (']' :: rep ']' (j + 1)) ++ ',' :: (rep '[' (j + 1) ++ ['['])
    simp [List.append_assoc]

/-! ### the marking pass -/

theorem res_map_map {α β γ} (f : α → β) (g : β → γ) (x : Res α) : (x.map f).map g = x.map (fun a => g (f a)) := by
  cases x <;> rfl

theorem markLists_plain (r : Nat) (b : Str) (h1 : '[' ∉ b) (h2 : ']' ∉ b) (lvl : Nat) (Z : Str) :
    markLists r lvl (b ++ Z) = (markLists r lvl Z).map (b ++ ·) := by
  induction b with
  | nil => cases h : markLists r lvl Z <;> simp [Res.map, h]
  | cons x b ih =>
    simp only [List.mem_cons, not_or] at h1 h2
    have e1 : ¬ x = '[' := fun e => h1.1 e.symm
    have e2 : ¬ x = ']' := fun e => h2.1 e.symm
    show markLists r lvl (x :: (b ++ Z)) = _
    rw [markLists, if_neg e1, if_neg e2, ih h1.2 h2.2, res_map_map]
    rfl

theorem markLists_open (r : Nat) (Z : Str) : ∀ (k lvl : Nat), lvl + k ≤ r + 1 →
    markLists r lvl (rep '[' k ++ Z) = (markLists r (lvl + k) Z).map (rep '[' k ++ ·) := by
  intro k
  induction k with
  | zero => intro lvl _; cases h : markLists r lvl Z <;> simp [Res.map, h]
  | succ k ih =>
    intro lvl hk
    show markLists r lvl ('[' :: (rep '[' k ++ Z)) = _
    have hne : ¬ (lvl + 1 = r + 2) := by omega
    rw [markLists, if_pos rfl, ih (lvl + 1) (by omega), res_map_map]
    simp only [hne, if_false]
    have : lvl + 1 + k = lvl + (k + 1) := by omega
    rw [this]
    rfl

theorem markLists_close (r : Nat) (Z : Str) : ∀ (k lvl : Nat), k ≤ lvl →
    markLists r lvl (rep ']' k ++ Z) = (markLists r (lvl - k) Z).map (rep ']' k ++ ·) := by
  intro k
  induction k with
  | zero => intro lvl _; cases h : markLists r lvl Z <;> simp [Res.map, h]
  | succ k ih =>
    intro lvl hk
    show markLists r lvl (']' :: (rep ']' k ++ Z)) = _
    have hne : ¬ (lvl = 0) := by omega
    rw [markLists, if_neg (by decide), if_pos rfl, if_neg hne, ih (lvl - 1) (by omega), res_map_map]
    have : lvl - 1 - k = lvl - (k + 1) := by omega
    rw [this]
    rfl

/-- the marking pass at the level just outside the lists (`ndim + 1`), as a relation on segments -/
def MarkRel (r : Nat) (X X' : Str) (_ : List Str) : Prop :=
  ∀ Z, markLists r (r + 1) (X ++ Z) = (markLists r (r + 1) Z).map (X' ++ ·)

theorem markRel_appRel (r : Nat) : AppRel (MarkRel r) := by
  refine ⟨fun Z => by cases h : markLists r (r + 1) Z <;> simp [Res.map, h], ?_⟩
  intro a a' b b' i i' ha hb Z
  rw [List.append_assoc, ha, hb, res_map_map]
  cases h : markLists r (r + 1) Z <;> simp [Res.map]

theorem markRel_sep (r j : Nat) (hj : j ≤ r) (i : List Str) : MarkRel r (sepTz [] j) (sepTz [] j) i := by
  intro Z
  cases j with
  | zero => exact markLists_plain r [','] (by decide) (by decide) _ Z
  | succ j =>
    show markLists r (r + 1) ((rep ']' (j + 1) ++ ',' :: rep '[' (j + 1)) ++ Z) = _
    have e : (rep ']' (j + 1) ++ ',' :: rep '[' (j + 1)) ++ Z = rep ']' (j + 1) ++ ([','] ++ (rep '[' (j + 1) ++ Z)) := by
      simp [List.append_assoc]
    have hlv : r + 1 - (j + 1) + (j + 1) = r + 1 := by omega
    rw [e, markLists_close r _ (j + 1) (r + 1) (by omega), markLists_plain r [','] (by decide) (by decide),
      markLists_open r Z (j + 1) (r + 1 - (j + 1)) (by omega), hlv, res_map_map, res_map_map]
    cases h : markLists r (r + 1) Z <;> simp [Res.map, sepTz, List.append_assoc]

theorem markRel_leaf (r : Nat) (c : Str) (h1 : '[' ∉ c) (h2 : ']' ∉ c) (i : List Str) :
    MarkRel r (wrapB c) ('&' :: wrapB c) i := by
  intro Z
  show markLists r (r + 1) ('[' :: (c ++ [']'] ++ Z)) = _
  have e : c ++ [']'] ++ Z = c ++ (']' :: Z) := by simp
  have hne : ¬ (r + 1 + 1 = 0) := by omega
  rw [markLists, if_pos rfl, e, markLists_plain r c h1 h2, markLists, if_neg (by decide), if_pos rfl, if_neg hne,
    res_map_map, res_map_map]
  cases h : markLists r (r + 1 + 1 - 1) Z <;> simp [Res.map, wrapB] <;> simp_all

/-! ### the cut-out loop -/

def okL (A : Str) : Prop := '&' ∉ A

theorem okL_append (a b : Str) (ha : okL a) (hb : okL b) : okL (a ++ b) := by
  unfold okL at *; simp [ha, hb]

theorem cutLists_leaf (c : Str) (h : ']' ∉ c) : CutRel cutLists okL ('&' :: wrapB c) ['_'] [remove '"' c] := by
  refine ⟨by unfold okL; decide, by simp [wrapB], fun A Z acc fuel hA => ?_⟩
  have hX1 : A ++ ('&' :: wrapB c ++ Z) = A ++ '&' :: ('[' :: (c ++ ']' :: Z)) := by simp [wrapB]
  have hf1 : find ['&'] (A ++ ('&' :: wrapB c ++ Z)) = some A.length := by rw [hX1]; exact find_char_first _ hA
  have hdrop : (A ++ ('&' :: wrapB c ++ Z)).drop (A.length + 1) = ('[' :: c) ++ ']' :: Z :=
    drop_mid' _ (A ++ ['&']) _ _ (by simp [wrapB]) (by simp)
  have hf2 : find [']'] (('[' :: c) ++ ']' :: Z) = some (c.length + 1) := by
    have := find_char_first (q := ']') (g := '[' :: c) Z (by simp [h])
    simpa using this
  have hsl : slice (A ++ ('&' :: wrapB c ++ Z)) (A.length + 2) (A.length + (c.length + 1) + 1) = .ok c :=
    slice_mid' _ (A ++ ['&', '[']) c (']' :: Z) _ _ (by simp [wrapB]) (by simp) (by simp; omega)
  have hrr : replaceRange (A ++ ('&' :: wrapB c ++ Z)) A.length (A.length + (c.length + 1) + 2) ['_']
      = .ok (A ++ ['_'] ++ Z) :=
    replaceRange_mid' _ A ('&' :: wrapB c) Z ['_'] _ _ (by simp) rfl (by simp [wrapB]; omega)
  show cutLists (fuel + 1) _ _ = _
  rw [cutLists, hf1]
  simp only [hdrop, hf2, hsl, hrr]
  simp [List.append_assoc]

theorem cutLists_done (fuel : Nat) (s : Str) (acc : List Str) (h : okL s) :
    cutLists (fuel + 1) s acc = .ok (acc.reverse, s) := by
  rw [cutLists, find_char_none h]

/-- **`array!(List<T>, <nested brackets>)`**: the written shape and the list bodies in reading order -/
theorem arrayList_literal (s : List Nat) (bs : List Str) (hs : s ≠ []) (hpos : ∀ d ∈ s, 1 ≤ d)
    (hl : bs.length = s.prod) (hc : ∀ b ∈ bs, ListOk b) :
    arrayList (debugVec s (bs.map wrapB)) = .ok (s, bs.map (fun b => remove '"' (quoteTight b))) := by
  have hl3 : (bs.map wrapB).length = s.prod := by simpa using hl
  have hlq : (bs.map quoteTight).length = s.prod := by simpa using hl
  have hl4 : (bs.map (fun b => wrapB (quoteTight b))).length = s.prod := by simpa using hl
  have hr : 1 ≤ s.length := by cases s with | nil => exact absurd rfl hs | cons _ _ => simp
  rw [debugVec_eq' hpos hl3]
  -- step 1: `", "` between quoted items loses its blank (inside the lists only)
  have h1 : replace quoteSepL quoteSepT (rep '[' (s.length + 1) ++ mid sepL s (bs.map wrapB) ++ rep ']' (s.length + 1))
      = rep '[' (s.length + 1) ++ mid sepL s (bs.map (fun b => wrapB (quoteTight b))) ++ rep ']' (s.length + 1) := by
    have hqo : NoStart quoteSepL (rep '[' (s.length + 1)) :=
      noStart_of_head_not_mem (c := '"') (p := [',', ' ', '"']) (not_mem_rep (c := '[') (by decide) _)
    have hm := mid_rel (repRel_appRel quoteSepL quoteSepT) sepL sepL wrapB (fun b => wrapB (quoteTight b)) id s bs hpos hl
      (fun j _ => repRel_noStart (noStart_of_head_not_mem (c := '"') (p := [',', ' ', '"']) (quote_not_mem_sepL j)) [])
      (fun b _ => repRel_wrapped (p := quoteSepL) (by decide) '[' ']' (by decide) (by decide) b _)
    rw [List.append_assoc, replace_noStart _ hqo, hm (rep ']' (s.length + 1)),
      replace_of_not_mem (c := '"') (by decide) (not_mem_rep (by decide) _), List.append_assoc]
  -- step 2: `], [` loses its blank — also between two lists of one row
  have hmm : (bs.map (fun b => wrapB (quoteTight b))) = (bs.map quoteTight).map wrapB := by simp [List.map_map]
  have h2 : replace brSepL brSepT (rep '[' (s.length + 1) ++ mid sepL s (bs.map (fun b => wrapB (quoteTight b))) ++ rep ']' (s.length + 1))
      = rep '[' (s.length + 1) ++ mid (sepTz []) s (bs.map (fun b => wrapB (quoteTight b))) ++ rep ']' (s.length + 1) := by
    rw [hmm, view_wrapB sepL _ sepL_succ s _ hpos hlq, view_wrapB (sepTz []) _ sepTz_nil_succ s _ hpos hlq]
    have hbo : NoStart brSepL (rep '[' (s.length + 1 + 1)) :=
      noStart_of_head_not_mem (c := ']') (p := [',', ' ', '[']) (not_mem_rep (c := '[') (by decide) _)
    have hm := mid_rel (repRel_appRel brSepL brSepT) (fun j => sepL (j + 1)) (fun j => sepT (j + 1)) quoteTight quoteTight id
      s bs hpos hl (fun j _ Z => replace_br_sep (j + 1) Z)
      (fun b hb => repRel_noStart (noStart_of_head_not_mem (c := ']') (p := [',', ' ', '['])
        (not_mem_quoteTight (hc b hb).cls (by decide) (by decide))) _)
    rw [List.append_assoc, replace_noStart _ hbo, hm (rep ']' (s.length + 1 + 1)),
      replace_of_not_mem (c := ',') (by decide) (not_mem_rep (by decide) _), List.append_assoc]
  -- step 3: no backslash
  have hb : '\\' ∉ rep '[' (s.length + 1) ++ mid (sepTz []) s (bs.map (fun b => wrapB (quoteTight b))) ++ rep ']' (s.length + 1) := by
    intro hm
    rcases mem_text (fun c j => mem_sepTz_nil) hm with (h | h | h | h) | ⟨e, he, hxe⟩
    · exact absurd h (by decide)
    · exact absurd h (by decide)
    · exact absurd h (by decide)
    · exact absurd h (by decide)
    · obtain ⟨b, hbm, rfl⟩ := List.mem_map.1 he
      simp only [wrapB, List.mem_cons, List.mem_append, List.not_mem_nil, or_false] at hxe
      rcases hxe with h | h | h
      · exact absurd h (by decide)
      · exact not_mem_quoteTight (hc b hbm).back (by decide) (by decide) h
      · exact absurd h (by decide)
  have hPI := parseInput_eq' h1 h2 hb
  have hnd : ndimOf 2 (rep '[' (s.length + 1) ++ mid (sepTz []) s (bs.map (fun b => wrapB (quoteTight b))) ++ rep ']' (s.length + 1))
      = .ok s.length := by
    obtain ⟨e, r, he, hmid⟩ := mid_head' (sepTz []) s _ hpos hl4
    have he' : ∃ b ∈ bs, e = wrapB (quoteTight b) := by
      cases bs with
      | nil => simp at he
      | cons b _ => simp at he; exact ⟨b, by simp, he.symm⟩
    obtain ⟨b, hbm, rfl⟩ := he'
    have hno : '[' ∉ quoteTight b := not_mem_quoteTight (hc b hbm).opn (by decide) (by decide)
    have hfind : ∀ W, findP (· != '[') (rep '[' (s.length + 1) ++ (wrapB (quoteTight b) ++ W)) = some (s.length + 2) := by
      intro W
      have e1 : rep '[' (s.length + 1) ++ (wrapB (quoteTight b) ++ W)
          = rep '[' (s.length + 2) ++ (quoteTight b ++ ']' :: W) := by
        rw [rep_succ_snoc '[' (s.length + 1)]; simp [wrapB, List.append_assoc]
      rw [e1]
      cases hq : quoteTight b with
      | nil => exact findP_rep (c := ']') (by decide) _ _
      | cons x t =>
        have : x ≠ '[' := by intro e; rw [hq] at hno; simp [e] at hno
        exact findP_rep (c := x) this _ _
    unfold ndimOf
    rw [hmid, List.append_assoc, List.append_assoc, hfind]
    have : ¬ (s.length + 2 < 2) := by omega
    have h0 : s.length + 2 - 2 = s.length := by omega
    have h1 : ¬ (s.length = 0) := by omega
    simp [this, h0, h1]
  -- the marking pass
  have hmark : markLists s.length 0 (rep '[' (s.length + 1) ++ mid (sepTz []) s (bs.map (fun b => wrapB (quoteTight b))) ++ rep ']' (s.length + 1))
      = .ok (rep '[' (s.length + 1) ++ mid (sepTz []) s (bs.map (fun b => '&' :: wrapB (quoteTight b))) ++ rep ']' (s.length + 1)) := by
    have hm := mid_rel (markRel_appRel s.length) (sepTz []) (sepTz []) (fun b => wrapB (quoteTight b))
      (fun b => '&' :: wrapB (quoteTight b)) id s bs hpos hl
      (fun j hj => markRel_sep s.length j (by omega) [])
      (fun b hbm => markRel_leaf s.length (quoteTight b) (not_mem_quoteTight (hc b hbm).opn (by decide) (by decide))
        (not_mem_quoteTight (hc b hbm).cls (by decide) (by decide)) _)
    have hend : markLists s.length (s.length + 1) (rep ']' (s.length + 1)) = .ok (rep ']' (s.length + 1)) := by
      have := markLists_close s.length [] (s.length + 1) (s.length + 1) (Nat.le_refl _)
      simpa [markLists, Res.map] using this
    rw [List.append_assoc, markLists_open s.length _ (s.length + 1) 0 (by omega), Nat.zero_add, hm, hend]
    simp [Res.map, List.append_assoc]
  -- the cut-out loop
  have hrel := mid_rel (cutRel_appRel (run := cutLists) (ok := okL) (by unfold okL; simp) okL_append) (sepTz []) (sepTz [])
    (fun b => '&' :: wrapB (quoteTight b)) (fun _ => ['_']) (fun b => remove '"' (quoteTight b)) s bs hpos hl
    (fun j _ => cutRel_gap (run := cutLists) (ok := okL) (G := sepTz [] j)
      (fun hm => by rcases mem_sepTz_nil hm with h | h | h | h <;> exact absurd h (by decide)))
    (fun b hbm => cutLists_leaf (quoteTight b) (not_mem_quoteTight (hc b hbm).cls (by decide) (by decide)))
  have hcut := cutRel_run cutLists_done okL_append hrel (rep '[' (s.length + 1)) (rep ']' (s.length + 1))
    (not_mem_rep (by decide) _) (not_mem_rep (by decide) _)
  rw [← List.append_assoc, ← List.append_assoc] at hcut
  have hshape : parseShape s.length _ = .ok s :=
    parseShapeLoop_midZ [] (by simp) (valid_blank s bs hpos hl) (s.length + 1) (s.length + 1) (by omega)
  unfold arrayList
  simp only [hPI, hnd, hmark, hcut, hshape]

end ArrModel.C18
