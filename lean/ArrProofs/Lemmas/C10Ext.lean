import ArrProofs.Lemmas.C08Empty
import ArrProofs.Lemmas.C10Axis
/-!
# C10 lemmas, part 6 — `apply_along_axis` with a lane function whose output length may differ from lane to lane
  (`unique(axis)`), and on arrays with a zero-length axis

* `lanesOf a axis`: the lanes of `a` along `axis` in the order in which `apply_along_axis` processes them
  (`mem_lanesOf`: exactly the lanes `laneOf a axis cd` through the positions of `a`).
* `applyAlongAxis_pure`: the COMPLETE outcome of `apply_along_axis` for a lane function that answers `Ok(flat (g lane))`
  on every lane, whatever the lengths of the `g lane`: with `k0` = the length of the FIRST lane's answer and `buf` = the
  concatenation of all answers, the call answers `Ok` (shape with the axis replaced by `k0`, `buf` read back along the
  axis) exactly when `rest.prod * k0 = buf.length`, and `Err(ShapeMustMatchValuesLength)` otherwise.
* `applyAlongAxis_lanes_uniform`: when every lane's answer has the same length `m` the result has `shape[axis := m]`
  and every lane of the result is `g` of the corresponding input lane (hypothesis only about the lanes of `a`).
* `along_zero_*`: arrays with a zero-length axis.
* `rankOf` / `rank_unique`: the closed form of `argsort` and the uniqueness of a list of positions with its three facts.
-/
namespace ArrModel.Sort
open ArrModel Arr

variable {α β : Type}

/-- the lanes of `a` along `axis`, in processing order: lane number `k` runs through the position whose remaining
coordinates are `unravel rest k` -/
def lanesOf (a : Arr α) (axis : Nat) : List (List α) :=
  (List.range (a.shape.eraseIdx axis).prod).map
    (fun k => laneOf a axis ((unravel (a.shape.eraseIdx axis) k).insertIdx axis 0))

theorem lanesOf_length (a : Arr α) (axis : Nat) : (lanesOf a axis).length = (a.shape.eraseIdx axis).prod := by
  simp [lanesOf]

theorem rest_length (a : Arr α) (axis : Nat) (hax : axis < a.ndim) :
    (a.shape.eraseIdx axis).length = a.ndim - 1 := by
  have hax' : axis < a.shape.length := hax
  simp [List.length_eraseIdx, hax', Arr.ndim]

/-- the position `unravel rest k` with `0` inserted at the axis is a position of `a` -/
theorem lanePos_inRange (a : Arr α) (axis k : Nat) (hax : axis < a.ndim) (hnz : 0 ∉ a.shape)
    (hk : k < (a.shape.eraseIdx axis).prod) :
    inRange a.shape ((unravel (a.shape.eraseIdx axis) k).insertIdx axis 0) = true := by
  have hax' : axis < a.shape.length := hax
  have hn : 0 < a.shape.getD axis 0 := getD_mem_pos _ _ hax hnz
  have h := inRange_insertIdx _ _ axis (a.shape.getD axis 0) 0 (ravel_unravel _ k hk).2 hn
  rwa [insertIdx_eraseIdx_self _ _ _ hax', set_getD_self] at h

/-- the lane through a position `cd` of `a` is lane number `ravel rest (cd without the axis)` -/
theorem laneOf_eq_lanesOf (a : Arr α) (axis : Nat) (cd : List Nat) (hax : axis < a.ndim)
    (hcd : inRange a.shape cd = true) :
    ∃ h : ravel (a.shape.eraseIdx axis) (cd.eraseIdx axis) < (lanesOf a axis).length,
      (lanesOf a axis)[ravel (a.shape.eraseIdx axis) (cd.eraseIdx axis)] = laneOf a axis cd := by
  have hax' : axis < a.shape.length := hax
  have hc' : inRange (a.shape.eraseIdx axis) (cd.eraseIdx axis) = true := inRange_eraseIdx _ _ axis hcd
  have hlt := ravel_lt _ _ hc'
  have hcl : cd.length = a.shape.length := inRange_length _ _ hcd
  refine ⟨by rw [lanesOf_length]; exact hlt, ?_⟩
  simp only [lanesOf, List.getElem_map, List.getElem_range]
  rw [unravel_ravel _ _ hc', insertIdx_eraseIdx_self _ _ _ (by omega), laneOf_set]

theorem mem_lanesOf (a : Arr α) (axis : Nat) (hax : axis < a.ndim) (hnz : 0 ∉ a.shape) (lane : List α) :
    lane ∈ lanesOf a axis ↔ ∃ cd, inRange a.shape cd = true ∧ lane = laneOf a axis cd := by
  constructor
  · intro h
    simp only [lanesOf, List.mem_map, List.mem_range] at h
    obtain ⟨k, hk, rfl⟩ := h
    exact ⟨_, lanePos_inRange a axis k hax hnz hk, rfl⟩
  · rintro ⟨cd, hcd, rfl⟩
    obtain ⟨h, e⟩ := laneOf_eq_lanesOf a axis cd hax hcd
    rw [← e]; exact List.getElem_mem h

/-- after the axis has been moved last, the consecutive chunks of the buffer are the lanes in processing order -/
theorem chunks_eq_lanesOf (a arr : Arr α) (axis : Nat) (hax : axis < a.ndim) (hnz : 0 ∉ a.shape)
    (hs : arr.shape = a.shape.eraseIdx axis ++ [a.shape.getD axis 0])
    (hget : ∀ c, inRange a.shape c = true → arr.get? (c.eraseIdx axis ++ [c.getD axis 0]) = a.get? c) :
    (List.range (a.shape.eraseIdx axis).prod).map
        (fun k => Arr.flat ((arr.elems.drop (k * a.shape.getD axis 0)).take (a.shape.getD axis 0)))
      = (lanesOf a axis).map Arr.flat := by
  simp only [lanesOf, List.map_map]
  apply List.map_congr_left
  intro k hk
  have hk' : k < (a.shape.eraseIdx axis).prod := by simpa using hk
  have hin := lanePos_inRange a axis k hax hnz hk'
  have hl : (unravel (a.shape.eraseIdx axis) k).length = (a.shape.eraseIdx axis).length := unravel_length _ _
  have hrl := rest_length a axis hax
  have hin' : inRange (a.shape.set axis (a.shape.getD axis 0))
      ((unravel (a.shape.eraseIdx axis) k).insertIdx axis 0) = true := by rw [set_getD_self]; exact hin
  have := chunk_eq_lane a arr axis (a.shape.getD axis 0) _ hax hs hget hin'
  rw [eraseIdx_insertIdx_self _ _ _ (by rw [hl, hrl]; omega), (ravel_unravel _ k hk').1] at this
  simp only [Function.comp, this]

/-- **complete outcome of `apply_along_axis` for a lane function that succeeds with arbitrary output lengths** -/
theorem applyAlongAxis_pure (a : Arr α) (zero : α) (zb : β) (axis : Nat) (f : Arr α → Res (Arr β)) (g : List α → List β)
    (hwf : a.WF) (hax : axis < a.ndim) (hnz : 0 ∉ a.shape)
    (hf : ∀ lane ∈ lanesOf a axis, f (Arr.flat lane) = .ok (Arr.flat (g lane))) :
    ((a.shape.eraseIdx axis).prod * (g ((lanesOf a axis).headD [])).length = ((lanesOf a axis).flatMap g).length →
      ∃ r, a.applyAlongAxis zero zb axis f = .ok r ∧
        r.shape = a.shape.set axis (g ((lanesOf a axis).headD [])).length ∧ r.WF ∧
        ∀ c' j, inRange (a.shape.eraseIdx axis) c' = true → j < (g ((lanesOf a axis).headD [])).length →
          r.get? (c'.insertIdx axis j) =
            ((lanesOf a axis).flatMap g)[ravel (a.shape.eraseIdx axis) c' * (g ((lanesOf a axis).headD [])).length + j]?) ∧
    ((a.shape.eraseIdx axis).prod * (g ((lanesOf a axis).headD [])).length ≠ ((lanesOf a axis).flatMap g).length →
      a.applyAlongAxis zero zb axis f = .err .ShapeMustMatchValuesLength) := by
  have hax' : axis < a.shape.length := hax
  have hP : 0 < (a.shape.eraseIdx axis).prod := prod_pos_of_not_mem _ (not_mem_eraseIdx _ _ hnz)
  have hn : 0 < a.shape.getD axis 0 := getD_mem_pos _ _ hax hnz
  have hrl : a.ndim - 1 = (a.shape.eraseIdx axis).length := (rest_length a axis hax).symm
  obtain ⟨arr, ha1, ha2, ha3, ha4⟩ := moveLast_spec a zero axis hwf hax
  have hL : arr.elems.length = (a.shape.eraseIdx axis).prod * a.shape.getD axis 0 := by
    rw [ha3, ha2]; simp [List.prod_append]
  have hsplit := split_flat_even arr.elems zero _ _ hP hn hL
  rw [chunks_eq_lanesOf a arr axis hax hnz ha2 ha4] at hsplit
  generalize hLs : lanesOf a axis = L at *
  have hLl : L.length = (a.shape.eraseIdx axis).prod := by rw [← hLs]; exact lanesOf_length a axis
  have ho1 : Res.mapM' f (L.map Arr.flat) = .ok ((L.map Arr.flat).map (fun x => Arr.flat (g x.elems))) :=
    mapM'_ok f _ _ (by
      intro x hx
      obtain ⟨lane, hl, rfl⟩ := List.mem_map.1 hx
      exact hf lane hl)
  rw [List.map_map] at ho1
  have hne : L ≠ [] := by intro h0; rw [h0] at hLl; simp at hLl; omega
  obtain ⟨l0, lt, hcons⟩ := List.exists_cons_of_ne_nil hne
  have hidx : Res.idx (L.map ((fun x => Arr.flat (g x.elems)) ∘ Arr.flat)) 0 = .ok (Arr.flat (g (L.headD []))) := by
    rw [hcons]; simp [Res.idx, Arr.flat]
  have hflat : (L.map ((fun x : Arr α => Arr.flat (g x.elems)) ∘ Arr.flat)).flatMap (·.elems) = L.flatMap g := by
    rw [List.flatMap_map]; rfl
  have hlen0 : (Arr.flat (g (L.headD []))).len = (g (L.headD [])).length := rfl
  -- the common prefix of both arms
  have hpre : a.applyAlongAxis zero zb axis f =
      (Arr.flat (L.flatMap g)).reshape (a.shape.eraseIdx axis ++ [(g (L.headD [])).length]) >>= fun p =>
        if axis = 0 then p.rollaxis zb (Int.ofNat (a.shape.eraseIdx axis).length) none
        else p.moveaxis zb [Int.ofNat (a.shape.eraseIdx axis).length] [Int.ofNat axis] := by
    unfold Arr.applyAlongAxis
    rw [if_neg (by omega)]
    simp only [ha1, Res.bind_ok, Arr.ravel, hsplit, ho1, hidx, hlen0, hflat, ha2]
    rw [set_append_singleton _ _ _ _ hrl, hrl]
  have hprod : (a.shape.eraseIdx axis ++ [(g (L.headD [])).length]).prod =
      (a.shape.eraseIdx axis).prod * (g (L.headD [])).length := by simp [List.prod_append]
  constructor
  · intro heq
    have hpwf : (⟨L.flatMap g, a.shape.eraseIdx axis ++ [(g (L.headD [])).length]⟩ : Arr β).WF := by
      simp only [Arr.WF, hprod, heq]
    obtain ⟨r, hr1, hr2, hr3, hr4⟩ := moveBack_spec ⟨L.flatMap g, a.shape.eraseIdx axis ++ [(g (L.headD [])).length]⟩ zb
      (a.shape.eraseIdx axis) (g (L.headD [])).length axis hpwf rfl (by omega)
    refine ⟨r, ?_, ?_, hr3, ?_⟩
    · rw [hpre]
      simp only [Arr.reshape, Arr.new, Arr.flat, hprod, heq, if_true, Res.bind_ok]
      exact hr1
    · rw [hr2, insertIdx_eraseIdx_self _ _ _ hax']
    · intro c' j hc hj
      rw [hr4 c' j hc hj]
      simp only [Arr.get?]
      rw [ravel_append_singleton _ _ _ _ (inRange_length _ _ hc).symm]
  · intro hneq
    rw [hpre]
    simp only [Arr.reshape, Arr.new, Arr.flat, hprod, hneq, if_false, Res.bind_err]

theorem sum_le_of_forall_le (g : List α → List β) (m : Nat) : ∀ (L : List (List α)), (∀ l ∈ L, (g l).length ≤ m) →
    (L.flatMap g).length ≤ L.length * m
  | [], _ => by simp
  | x :: xs, h => by
    have ih := sum_le_of_forall_le g m xs (fun l hl => h l (List.mem_cons_of_mem _ hl))
    have hx := h x List.mem_cons_self
    simp only [List.flatMap_cons, List.length_append, List.length_cons, Nat.add_mul, Nat.one_mul]
    omega

theorem sum_lt_of_exists_lt (g : List α → List β) (m : Nat) : ∀ (L : List (List α)), (∀ l ∈ L, (g l).length ≤ m) →
    (∃ l ∈ L, (g l).length < m) → (L.flatMap g).length < L.length * m
  | [], _, h => by obtain ⟨l, hl, _⟩ := h; simp at hl
  | x :: xs, h, hex => by
    have hle := sum_le_of_forall_le g m xs (fun l hl => h l (List.mem_cons_of_mem _ hl))
    have hx := h x List.mem_cons_self
    simp only [List.flatMap_cons, List.length_append, List.length_cons, Nat.add_mul, Nat.one_mul]
    obtain ⟨l, hl, hlt⟩ := hex
    rcases List.mem_cons.1 hl with rfl | hl'
    · omega
    · have := sum_lt_of_exists_lt g m xs (fun l hl => h l (List.mem_cons_of_mem _ hl)) ⟨l, hl', hlt⟩
      omega

theorem sum_ge_of_forall_ge (g : List α → List β) (m : Nat) : ∀ (L : List (List α)), (∀ l ∈ L, m ≤ (g l).length) →
    L.length * m ≤ (L.flatMap g).length
  | [], _ => by simp
  | x :: xs, h => by
    have ih := sum_ge_of_forall_ge g m xs (fun l hl => h l (List.mem_cons_of_mem _ hl))
    have hx := h x List.mem_cons_self
    simp only [List.flatMap_cons, List.length_append, List.length_cons, Nat.add_mul, Nat.one_mul]
    omega

theorem sum_gt_of_exists_gt (g : List α → List β) (m : Nat) : ∀ (L : List (List α)), (∀ l ∈ L, m ≤ (g l).length) →
    (∃ l ∈ L, m < (g l).length) → L.length * m < (L.flatMap g).length
  | [], _, h => by obtain ⟨l, hl, _⟩ := h; simp at hl
  | x :: xs, h, hex => by
    have hge := sum_ge_of_forall_ge g m xs (fun l hl => h l (List.mem_cons_of_mem _ hl))
    have hx := h x List.mem_cons_self
    simp only [List.flatMap_cons, List.length_append, List.length_cons, Nat.add_mul, Nat.one_mul]
    obtain ⟨l, hl, hlt⟩ := hex
    rcases List.mem_cons.1 hl with rfl | hl'
    · omega
    · have := sum_gt_of_exists_gt g m xs (fun l hl => h l (List.mem_cons_of_mem _ hl)) ⟨l, hl', hlt⟩
      omega

/-- **uniform output length**: every lane of `a` is mapped to `m` elements — the result has `shape[axis := m]` and
every lane of the result is `g` of the corresponding lane of `a` -/
theorem applyAlongAxis_lanes_uniform (a : Arr α) (zero : α) (zb : β) (axis m : Nat) (f : Arr α → Res (Arr β))
    (g : List α → List β) (hwf : a.WF) (hax : axis < a.ndim) (hnz : 0 ∉ a.shape)
    (hf : ∀ cd, inRange a.shape cd = true → f (Arr.flat (laneOf a axis cd)) = .ok (Arr.flat (g (laneOf a axis cd))))
    (hm : ∀ cd, inRange a.shape cd = true → (g (laneOf a axis cd)).length = m) :
    ∃ r, a.applyAlongAxis zero zb axis f = .ok r ∧ r.shape = a.shape.set axis m ∧ r.WF ∧
      ∀ cd, inRange a.shape cd = true → laneOf r axis cd = g (laneOf a axis cd) := by
  have hax' : axis < a.shape.length := hax
  have hP : 0 < (a.shape.eraseIdx axis).prod := prod_pos_of_not_mem _ (not_mem_eraseIdx _ _ hnz)
  have hmem := mem_lanesOf a axis hax hnz
  have hf' : ∀ lane ∈ lanesOf a axis, f (Arr.flat lane) = .ok (Arr.flat (g lane)) := by
    intro lane hl; obtain ⟨cd, hcd, rfl⟩ := (hmem lane).1 hl; exact hf cd hcd
  have hm' : ∀ lane ∈ lanesOf a axis, (g lane).length = m := by
    intro lane hl; obtain ⟨cd, hcd, rfl⟩ := (hmem lane).1 hl; exact hm cd hcd
  have hLl := lanesOf_length a axis
  have hhead : (lanesOf a axis).headD [] ∈ lanesOf a axis := by
    cases hL : lanesOf a axis with
    | nil => rw [hL] at hLl; simp at hLl; omega
    | cons x xs => simp
  have hk0 : (g ((lanesOf a axis).headD [])).length = m := hm' _ hhead
  have hsum : ((lanesOf a axis).flatMap g).length = (a.shape.eraseIdx axis).prod * m := by
    rw [length_flatMap_uniform g m _ hm', hLl]
  obtain ⟨r, h1, h2, h3, h4⟩ := (applyAlongAxis_pure a zero zb axis f g hwf hax hnz hf').1 (by rw [hk0, hsum])
  rw [hk0] at h2
  refine ⟨r, h1, h2, h3, ?_⟩
  intro cd hcd
  have hcl : cd.length = a.shape.length := inRange_length _ _ hcd
  have hc' : inRange (a.shape.eraseIdx axis) (cd.eraseIdx axis) = true := inRange_eraseIdx _ _ axis hcd
  have hrs : r.shape.set axis (a.shape.getD axis 0) = a.shape := by rw [h2, List.set_set, set_getD_self]
  have hcr : inRange (r.shape.set axis (a.shape.getD axis 0)) cd = true := by rw [hrs]; exact hcd
  have hrget : r.shape.getD axis 0 = m := by rw [h2]; exact getD_set_self _ _ _ hax'
  have hlr : (laneOf r axis cd).length = m := by rw [laneOf_length r axis _ cd h3 hcr, hrget]
  apply List.ext_getElem?
  intro j
  by_cases hj : j < m
  · rw [laneOf_getElem? r axis _ cd h3 hcr j (by rw [hrget]; exact hj)]
    have h4' := h4 (cd.eraseIdx axis) j hc' (by rw [hk0]; exact hj)
    rw [insertIdx_eraseIdx_self _ _ _ (by omega)] at h4'
    rw [h4', hk0]
    obtain ⟨hlt, he⟩ := laneOf_eq_lanesOf a axis cd hax hcd
    rw [getElem?_flatMap_uniform g m _ _ j hlt hm' hj, he]
  · rw [List.getElem?_eq_none (by omega), List.getElem?_eq_none (by rw [hm cd hcd]; omega)]

/-! ## arrays with a zero-length axis -/

/-- a lane function that maps the empty lane to the empty lane, on an array with a zero-length axis: when another axis
has length 0 the call is refused (`split(0, None)`), otherwise the (empty) array comes back with its shape -/
theorem along_zero_empty_lane (a : Arr α) (zero : α) (zb : β) (axis : Nat) (f : Arr α → Res (Arr β))
    (hwf : a.WF) (hax : axis < a.ndim) (h0 : 0 ∈ a.shape) (hf : f (Arr.flat []) = .ok (Arr.flat [])) :
    a.applyAlongAxis zero zb axis f =
      if 0 ∈ a.shape.eraseIdx axis then .err .ParameterError else .ok ⟨[], a.shape⟩ := by
  rcases zero_mem_cases a.shape axis hax h0 with h | ⟨hrest, hn⟩
  · rw [if_pos h]; exact applyAlongAxis_other_zero a zero zb axis f hwf hax h
  · rw [if_neg hrest, applyAlongAxis_axis_zero a zero zb axis f hwf hax hrest hn, hf]
    simp only [Res.bind_ok, Arr.flat, List.length_nil, or_true, if_true]
    rw [← hn, set_getD_self]

/-- a lane function that refuses the empty lane: every call on an array with a zero-length axis is refused -/
theorem along_zero_refusing_lane (a : Arr α) (zero : α) (zb : β) (axis : Nat) (f : Arr α → Res (Arr β)) (e : Err)
    (hwf : a.WF) (hax : axis < a.ndim) (h0 : 0 ∈ a.shape) (hf : f (Arr.flat []) = .err e) :
    a.applyAlongAxis zero zb axis f = .err (if 0 ∈ a.shape.eraseIdx axis then .ParameterError else e) := by
  rcases zero_mem_cases a.shape axis hax h0 with h | ⟨hrest, hn⟩
  · rw [if_pos h]; exact applyAlongAxis_other_zero a zero zb axis f hwf hax h
  · rw [if_neg hrest, applyAlongAxis_axis_zero a zero zb axis f hwf hax hrest hn, hf]; rfl

/-- `Array::single(p).atleast(n)` never panics -/
theorem single_atleast_no_panic (p : β) : ∀ nd : Nat, (Arr.single p).atleast nd ≠ .panic
  | 0 => by simp [Arr.atleast]
  | 1 => by simp [Arr.atleast, Arr.atleast1d]
  | 2 => by
    simp only [Arr.atleast, Arr.atleast2d, Arr.single, Arr.ndim, Res.idx, Arr.reshape, Arr.new]
    simp
  | 3 => by
    simp only [Arr.atleast, Arr.atleast3d, Arr.single, Arr.ndim, Res.idx, Arr.reshape, Arr.new]
    simp
  | _ + 4 => by simp [Arr.atleast]

/-- `Array::single(p).atleast(n)`: `Ok` with a well-formed array, or an error value (`n >= 4`) -/
theorem single_atleast_total (p : β) : ∀ nd : Nat,
    (∃ r, (Arr.single p).atleast nd = .ok r ∧ r.WF) ∨ (∃ e, (Arr.single p).atleast nd = .err e)
  | 0 => Or.inl ⟨_, rfl, rfl⟩
  | 1 => Or.inl ⟨_, rfl, rfl⟩
  | 2 => Or.inl ⟨⟨[p], [1, 1]⟩, rfl, rfl⟩
  | 3 => Or.inl ⟨⟨[p], [1, 1, 1]⟩, rfl, rfl⟩
  | _ + 4 => Or.inr ⟨_, rfl⟩

/-! ## the first lane, and the model's own `merge_sort` inside `unique` (for evaluation by `decide`) -/

theorem ravel_all_zero : ∀ (s c : List Nat), (∀ x ∈ c, x = 0) → ravel s c = 0
  | [], _, _ => by simp [ravel]
  | _ :: _, [], _ => rfl
  | d :: ds, x :: xs, h => by
    have hx := h x List.mem_cons_self
    have ih := ravel_all_zero ds xs (fun z hz => h z (List.mem_cons_of_mem _ hz))
    simp [ravel, hx, ih]

theorem headD_eq_getElem_zero : ∀ (L : List β) (d : β) (h : 0 < L.length), L.headD d = L[0]
  | _ :: _, _, _ => rfl

/-- the first lane processed is the lane through the origin -/
theorem lanesOf_headD (a : Arr α) (axis : Nat) (hax : axis < a.ndim) (hnz : 0 ∉ a.shape) :
    (lanesOf a axis).headD [] = laneOf a axis (List.replicate a.ndim 0) := by
  obtain ⟨hlt, he⟩ := laneOf_eq_lanesOf a axis (List.replicate a.ndim 0) hax (inRange_replicate_zero a.shape hnz)
  have hz : ravel (a.shape.eraseIdx axis) ((List.replicate a.ndim 0).eraseIdx axis) = 0 :=
    ravel_all_zero _ _ (fun x hx => (List.mem_replicate.1 (List.mem_of_mem_eraseIdx hx)).2)
  simp only [hz] at he hlt
  rw [← he]
  exact headD_eq_getElem_zero _ _ _

/-- on a lawful order `unique`'s standard stable sort is the model's own `merge_sort` (which `decide` can evaluate) -/
theorem uniqueFlat_eq_model_sort {c : Cmp α} (h : c.Lawful) (xs : List α) :
    uniqueFlat c xs = dedup c (mergeSort c xs) := by
  rw [uniqueFlat, ← h.eq_mergeSort_of_sorted_perm (mergeSort_sorted h xs) (mergeSort_perm c xs)]

theorem uniqueLane_eq_model_sort {c : Cmp α} (h : c.Lawful) :
    uniqueLane c = fun a => .ok (Arr.flat (dedup c (mergeSort c a.elems))) :=
  funext fun a => by simp only [uniqueLane, uniqueFlat_eq_model_sort h]

/-! ## the closed form of `argsort`: an element's rank -/

/-- `j` comes before `i` in the sorted lane: its value is smaller, or equal and it appears earlier -/
def before (c : Cmp α) (xs : List α) (j i : Nat) : Bool :=
  match xs[j]?, xs[i]? with
  | some y, some x => c.lt y x || (c.beq y x && decide (j < i))
  | _, _ => false

/-- the rank of position `i`: the number of elements smaller than `xs[i]`, plus the number of equal elements that
appear before position `i` -/
def rankOf (c : Cmp α) (xs : List α) (i : Nat) : Nat :=
  ((List.range xs.length).filter (fun j => before c xs j i)).length

theorem filter_lt_range (p : Nat) : ∀ n, ((List.range n).filter (fun v => decide (v < p))).length = min p n
  | 0 => by simp
  | n + 1 => by
    rw [List.range_succ, List.filter_append, List.length_append, filter_lt_range p n]
    by_cases h : n < p
    · simp [h]; omega
    · simp [h]; omega

/-- a list of positions that is a permutation of `0..n`, is compatible with the sorted lane `s` (`s[r[i]] = xs[i]`)
and ranks equal elements in order of appearance, is the list of ranks — **the three facts of `argsort_spec`
determine the answer** -/
theorem rank_unique {c : Cmp α} (h : c.Lawful) (xs s : List α) (r : List Nat) (hs : Sorted c s)
    (hperm : r.Perm (List.range xs.length))
    (hA : ∀ (i : Nat) (x : α) (p : Nat), xs[i]? = some x → r[i]? = some p → s[p]? = some x)
    (hB : ∀ (i j : Nat) (x : α) (pi pj : Nat), i < j → xs[i]? = some x → xs[j]? = some x → r[i]? = some pi →
        r[j]? = some pj → pi < pj) :
    r = (List.range xs.length).map (rankOf c xs) := by
  have hrl : r.length = xs.length := by rw [hperm.length_eq, List.length_range]
  -- monotonicity of `r` with respect to `before`
  have hmono : ∀ j i, j < xs.length → i < xs.length → before c xs j i = true → r.getD j 0 < r.getD i 0 := by
    intro j i hj hi hb
    have hrj : r[j]? = some (r.getD j 0) := by simp [List.getD_eq_getElem?_getD, hrl, hj]
    have hri : r[i]? = some (r.getD i 0) := by simp [List.getD_eq_getElem?_getD, hrl, hi]
    have hxj : xs[j]? = some xs[j] := List.getElem?_eq_getElem hj
    have hxi : xs[i]? = some xs[i] := List.getElem?_eq_getElem hi
    simp only [before, hxj, hxi, Bool.or_eq_true, Bool.and_eq_true, decide_eq_true_eq] at hb
    rcases hb with hlt | ⟨heq, hji⟩
    · have sj := hA j _ _ hxj hrj
      have si := hA i _ _ hxi hri
      apply Nat.lt_of_not_le
      intro hle
      have hle' : c.le xs[i] xs[j] = true := by
        rcases Nat.lt_or_eq_of_le hle with hl | he
        · obtain ⟨hp, e1⟩ := List.getElem?_eq_some_iff.1 si
          obtain ⟨hq, e2⟩ := List.getElem?_eq_some_iff.1 sj
          have := List.pairwise_iff_getElem.1 hs _ _ hp hq hl
          rwa [e1, e2] at this
        · rw [he] at si
          have : xs[i] = xs[j] := Option.some.inj (si.symm.trans sj)
          rw [this]; exact h.le_refl _
      rw [h.lt_iff, hle'] at hlt
      simp at hlt
    · have e : xs[j] = xs[i] := (h.beq_iff _ _).1 heq
      exact hB j i xs[j] _ _ hji hxj (by rw [hxi, e]) hrj hri
  have htot : ∀ j i, j < xs.length → i < xs.length → j ≠ i → before c xs j i = true ∨ before c xs i j = true := by
    intro j i hj hi hne
    have hxj : xs[j]? = some xs[j] := List.getElem?_eq_getElem hj
    have hxi : xs[i]? = some xs[i] := List.getElem?_eq_getElem hi
    simp only [before, hxj, hxi, Bool.or_eq_true, Bool.and_eq_true, decide_eq_true_eq]
    by_cases h1 : c.lt xs[j] xs[i] = true
    · exact Or.inl (Or.inl h1)
    · by_cases h2 : c.lt xs[i] xs[j] = true
      · exact Or.inr (Or.inl h2)
      · have e : xs[j] = xs[i] :=
          h.le_antisymm _ _ (h.le_of_not_lt (by simpa using h2)) (h.le_of_not_lt (by simpa using h1))
        rcases Nat.lt_or_gt_of_ne hne with hl | hg
        · exact Or.inl (Or.inr ⟨(h.beq_iff _ _).2 e, hl⟩)
        · exact Or.inr (Or.inr ⟨(h.beq_iff _ _).2 e.symm, hg⟩)
  apply List.ext_getElem
  · simp [hrl]
  · intro i hi1 hi2
    have hi : i < xs.length := by rw [← hrl]; exact hi1
    rw [List.getElem_map, List.getElem_range]
    have hgi : r.getD i 0 = r[i] := by simp [List.getD_eq_getElem?_getD, hi1]
    have hmem : r[i] ∈ List.range xs.length := hperm.mem_iff.1 (List.getElem_mem hi1)
    generalize r[i] = p at hgi hmem ⊢
    have hlt : p < xs.length := List.mem_range.1 hmem
    -- number of entries of `r` below `p`
    have hc : (r.filter (fun v => decide (v < p))).length = p := by
      rw [(hperm.filter _).length_eq, filter_lt_range]; omega
    have hr : r = (List.range xs.length).map (fun j => r.getD j 0) := (map_getD_range' r _ hrl).symm
    have hc2 : ((List.range xs.length).filter (fun j => decide (r.getD j 0 < p))).length = p := by
      have := hc
      rw [hr, List.filter_map, List.length_map] at this
      exact this
    rw [← hc2, rankOf]
    congr 1
    apply List.filter_congr
    intro j hj
    have hj' : j < xs.length := List.mem_range.1 hj
    rw [← hgi]
    cases hb : before c xs j i
    · simp only [decide_eq_false_iff_not]
      intro hlt'
      have hne : j ≠ i := by intro e; subst e; omega
      rcases htot j i hj' hi hne with h1 | h1
      · rw [hb] at h1; cases h1
      · have := hmono i j hi hj' h1; omega
    · simp only [decide_eq_true_eq]
      exact hmono j i hj' hi hb

end ArrModel.Sort
