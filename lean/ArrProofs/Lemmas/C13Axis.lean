import ArrProofs.Lemmas.C13Bcast
import ArrProofs.Lemmas.C08AlongAxis
/-!
# C13 helper lemmas: `delete` along an axis (through `apply_along_axis`)
-/
namespace ArrModel
open Arr
variable {α β : Type}

theorem keepPositions_getElem? (l : List α) (idxs : List Nat) (j : Nat) :
    (keepPositions l idxs)[j]? = (keptIdx l.length idxs)[j]?.bind (fun i => l[i]?) := by
  rw [keepPositions_eq_kept l.length l idxs rfl, getElem?_filterMap_of_isSome]
  intro k hk
  have := (keptIdx_lt _ _ _ hk).1
  simp [this]

theorem keepPositions_length' (l : List α) (idxs : List Nat) :
    (keepPositions l idxs).length = (keptIdx l.length idxs).length := by
  rw [keepPositions_eq_kept l.length l idxs rfl, length_filterMap_of_isSome]
  intro k hk
  have := (keptIdx_lt _ _ _ hk).1
  simp [this]

/-- `delete(indices, Some(axis))`: every lane loses exactly the requested positions -/
theorem Arr.delete_axis_ok (a : Arr α) (zero : α) (idxs : List Nat) (axis : Nat)
    (hwf : a.WF) (hax : axis < a.ndim) (hnz : 0 ∉ a.shape) (hb : ∀ i ∈ idxs, i < a.shape.getD axis 0) :
    ∃ r, a.delete zero idxs (some axis) = .ok r ∧
      r.shape = a.shape.set axis (keptIdx (a.shape.getD axis 0) idxs).length ∧ r.WF ∧
      ∀ c, inRange r.shape c = true →
        ∃ k, (keptIdx (a.shape.getD axis 0) idxs)[c.getD axis 0]? = some k ∧ r.get? c = a.get? (c.set axis k) := by
  have hf : ∀ lane : List α, lane.length = a.shape.getD axis 0 →
      (Arr.flat lane).deleteFlat idxs = .ok (Arr.flat (keepPositions lane idxs)) := by
    intro lane hl
    exact Arr.deleteFlat_ok (Arr.flat lane) idxs (by intro i hi; show i < lane.length; rw [hl]; exact hb i hi)
  obtain ⟨r, h1, h2, h3, h4⟩ := applyAlongAxis_spec a zero zero axis (keptIdx (a.shape.getD axis 0) idxs).length
    (fun lane => lane.deleteFlat idxs) hwf hax hnz
    (fun lane hl => ⟨_, hf lane hl, by
      show (keepPositions lane idxs).length = _
      rw [keepPositions_length', hl]⟩)
  refine ⟨r, h1, h2, h3, ?_⟩
  intro c hc
  have hc' : inRange (a.shape.set axis (keptIdx (a.shape.getD axis 0) idxs).length) c = true := by rw [← h2]; exact hc
  have hll := laneOf_length a axis _ c hwf hc'
  obtain ⟨y, hy1, hy2⟩ := h4 c hc
  rw [hf _ hll] at hy1
  cases hy1
  have hax' : axis < a.shape.length := hax
  have hj : c.getD axis 0 < (keptIdx (a.shape.getD axis 0) idxs).length := by
    have := inRange_getD_lt _ _ axis hc' (by simpa using hax')
    rwa [getD_set_self _ _ _ hax'] at this
  refine ⟨(keptIdx (a.shape.getD axis 0) idxs)[c.getD axis 0], List.getElem?_eq_getElem hj, ?_⟩
  rw [hy2]
  show (keepPositions (laneOf a axis c) idxs)[c.getD axis 0]? = _
  rw [keepPositions_getElem?, hll, List.getElem?_eq_getElem hj]
  simp only [Option.bind_some]
  exact laneOf_getElem? a axis _ c hwf hc' _ (keptIdx_lt _ _ _ (List.getElem_mem hj)).1

theorem mapM'_first_err (f : α → Res β) (e : Err) : ∀ (l : List α), l ≠ [] → (∀ x ∈ l, f x = .err e) → Res.mapM' f l = .err e
  | [], h, _ => absurd rfl h
  | x :: xs, _, h => by
    unfold Res.mapM'
    simp only [List.map_cons, Res.sequence, h x List.mem_cons_self, Res.bind_err]

/-- an index beyond the axis length is refused -/
theorem Arr.delete_axis_oob (a : Arr α) (zero : α) (idxs : List Nat) (axis : Nat)
    (hwf : a.WF) (hax : axis < a.ndim) (hnz : 0 ∉ a.shape) (hb : ∃ i ∈ idxs, a.shape.getD axis 0 ≤ i) :
    a.delete zero idxs (some axis) = .err .OutOfBounds := by
  have hP : 0 < (a.shape.eraseIdx axis).prod := prod_pos_of_not_mem _ (not_mem_eraseIdx _ _ hnz)
  have hn : 0 < a.shape.getD axis 0 := getD_mem_pos _ _ hax hnz
  obtain ⟨arr, ha1, ha2, ha3, _⟩ := moveLast_spec a zero axis hwf hax
  have hL : arr.elems.length = (a.shape.eraseIdx axis).prod * a.shape.getD axis 0 := by
    rw [ha3, ha2]; simp [List.prod_append]
  have hsplit := split_flat_even arr.elems zero _ _ hP hn hL
  show a.applyAlongAxis zero zero axis (fun lane => lane.deleteFlat idxs) = _
  unfold Arr.applyAlongAxis
  rw [if_neg (by omega)]
  simp only [ha1, Res.bind_ok, Arr.ravel, hsplit]
  rw [mapM'_first_err _ .OutOfBounds]
  · rfl
  · intro h
    have := congrArg List.length h
    simp at this; omega
  · intro x hx
    simp only [List.mem_map, List.mem_range] at hx
    obtain ⟨k, hk, rfl⟩ := hx
    apply Arr.deleteFlat_err
    obtain ⟨i, hi, hle⟩ := hb
    refine ⟨i, hi, ?_⟩
    show ((arr.elems.drop (k * a.shape.getD axis 0)).take (a.shape.getD axis 0)).length ≤ i
    rw [List.length_take]; omega

end ArrModel
