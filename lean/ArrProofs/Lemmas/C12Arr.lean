import ArrProofs.Lemmas.C12Perm
/-!
# C12: folds of single-axis steps (`flip` over an axis list, `roll` over the accumulated shifts), `accumShifts`
-/
namespace ArrModel
variable {α : Type}

theorem inRange_foldr {ι : Type} (coord : ι → List Nat → List Nat) (shape : List Nat) (good : ι → Prop)
    (hcoord : ∀ x, good x → ∀ c, inRange shape c = true → inRange shape (coord x c) = true) :
    ∀ (xs : List ι), (∀ x ∈ xs, good x) → ∀ c, inRange shape c = true → inRange shape (xs.foldr coord c) = true
  | [], _, c, hc => hc
  | x :: xs, h, c, hc => by
    simp only [List.foldr_cons]
    exact hcoord x (h x List.mem_cons_self) _ (inRange_foldr coord shape good hcoord xs (fun y hy => h y (List.mem_cons_of_mem _ hy)) c hc)

/-- a left fold of element-list steps, each with a coordinate description, has the composed coordinate description
(the LAST step is the outermost map on result coordinates, hence `foldr` on the coordinate side) -/
theorem stepFold_at {ι : Type} (step : ι → List α → Res (List α)) (coord : ι → List Nat → List Nat) (shape : List Nat)
    (good : ι → Prop)
    (hstep : ∀ x, good x → ∀ es : List α, es.length = shape.prod →
      ∃ es', step x es = .ok es' ∧ es'.length = es.length ∧
        ∀ c, inRange shape c = true → es'[ravel shape c]? = es[ravel shape (coord x c)]?)
    (hcoord : ∀ x, good x → ∀ c, inRange shape c = true → inRange shape (coord x c) = true) :
    ∀ (xs : List ι), (∀ x ∈ xs, good x) → ∀ es : List α, es.length = shape.prod →
      ∃ es', xs.foldl (fun (acc : Res (List α)) x => acc >>= fun es => step x es) (.ok es) = .ok es' ∧
        es'.length = es.length ∧
        ∀ c, inRange shape c = true → es'[ravel shape c]? = es[ravel shape (xs.foldr coord c)]? := by
  intro xs
  induction xs with
  | nil => intro _ es _; exact ⟨es, rfl, rfl, fun c _ => rfl⟩
  | cons x xs ih =>
    intro hg es hl
    obtain ⟨es1, h1, h2, h3⟩ := hstep x (hg x List.mem_cons_self) es hl
    obtain ⟨es2, g1, g2, g3⟩ := ih (fun y hy => hg y (List.mem_cons_of_mem _ hy)) es1 (by omega)
    refine ⟨es2, ?_, by omega, ?_⟩
    · simp only [List.foldl_cons, Res.bind_ok, h1]; exact g1
    · intro c hc
      have hin := inRange_foldr coord shape good hcoord xs (fun y hy => hg y (List.mem_cons_of_mem _ hy)) c hc
      rw [g3 c hc, h3 _ hin]; rfl

/-- a fold of total steps is a pure fold -/
theorem foldl_bind_ok {ι : Type} (g : ι → List α → List α) (xs : List ι) (es : List α) :
    xs.foldl (fun (acc : Res (List α)) x => acc >>= fun es => Res.ok (g x es)) (.ok es) = .ok (xs.foldl (fun es x => g x es) es) := by
  induction xs generalizing es with
  | nil => rfl
  | cons x xs ih => simp only [List.foldl_cons, Res.bind_ok]; exact ih _

/-! ### accumShifts -/

/-- total shift requested for axis `k` in a list of (axis, shift) pairs -/
def totalShift (ps : List (Nat × Int)) (k : Nat) : Int := ((ps.filter (fun p => p.1 == k)).map (·.2)).sum

theorem accumShifts_keys : ∀ (ps : List (Nat × Int)) (p : Nat × Int), p ∈ accumShifts ps → ∃ q ∈ ps, q.1 = p.1
  | [], p, h => by simp [accumShifts] at h
  | (a, s) :: rest, p, h => by
    simp only [accumShifts] at h
    split at h
    · obtain ⟨q, hq, rfl⟩ := List.mem_map.1 h
      obtain ⟨q', hq', e⟩ := accumShifts_keys rest q hq
      refine ⟨q', List.mem_cons_of_mem _ hq', ?_⟩
      split <;> simp [e]
    · rcases List.mem_cons.1 h with rfl | h
      · exact ⟨(a, s), List.mem_cons_self, rfl⟩
      · obtain ⟨q', hq', e⟩ := accumShifts_keys rest p h
        exact ⟨q', List.mem_cons_of_mem _ hq', e⟩

theorem accumShifts_nodup : ∀ (ps : List (Nat × Int)), ((accumShifts ps).map (·.1)).Nodup
  | [] => by simp [accumShifts]
  | (a, s) :: rest => by
    have ih := accumShifts_nodup rest
    simp only [accumShifts]
    split
    · have : ((accumShifts rest).map (fun p => if p.1 == a then (p.1, p.2 + s) else p)).map (·.1) = (accumShifts rest).map (·.1) := by
        rw [List.map_map]; apply List.map_congr_left; intro p _; simp only [Function.comp]; split <;> rfl
      rw [this]; exact ih
    · rename_i hnone
      simp only [List.map_cons, List.nodup_cons]
      refine ⟨?_, ih⟩
      intro hmem
      obtain ⟨q, hq, e⟩ := List.mem_map.1 hmem
      have := List.find?_eq_none.1 hnone q hq
      simp [e] at this

theorem totalShift_cons (p : Nat × Int) (ps : List (Nat × Int)) (k : Nat) :
    totalShift (p :: ps) k = (if p.1 = k then p.2 else 0) + totalShift ps k := by
  unfold totalShift
  by_cases h : p.1 = k
  · simp [h]
  · simp [h]

theorem totalShift_of_not_mem (ps : List (Nat × Int)) (k : Nat) (h : k ∉ ps.map (·.1)) : totalShift ps k = 0 := by
  induction ps with
  | nil => rfl
  | cons p ps ih =>
    simp only [List.map_cons, List.mem_cons, not_or] at h
    rw [totalShift_cons, ih h.2, if_neg (fun e => h.1 e.symm)]; rfl

/-- adding `s` to the entry of axis `a` in a list with distinct axes adds `s` to the total of `a` only -/
theorem totalShift_bump (ps : List (Nat × Int)) (a : Nat) (s : Int) (k : Nat) (hnd : (ps.map (·.1)).Nodup)
    (hmem : a ∈ ps.map (·.1)) :
    totalShift (ps.map (fun p => if p.1 == a then (p.1, p.2 + s) else p)) k = (if a = k then s else 0) + totalShift ps k := by
  induction ps with
  | nil => simp at hmem
  | cons p ps ih =>
    simp only [List.map_cons, List.nodup_cons] at hnd
    simp only [List.map_cons, List.mem_cons] at hmem
    rw [List.map_cons, totalShift_cons, totalShift_cons]
    by_cases hp : p.1 = a
    · -- this is the entry; the rest does not contain `a`
      have hrest : ps.map (fun p => if p.1 == a then (p.1, p.2 + s) else p) = ps := by
        conv => rhs; rw [← List.map_id ps]
        apply List.map_congr_left
        intro q hq
        have : q.1 ≠ a := by
          intro e; apply hnd.1; rw [hp, ← e]; exact List.mem_map.2 ⟨q, hq, rfl⟩
        simp [this]
      rw [hrest]
      simp only [hp, beq_self_eq_true, if_true]
      by_cases hk : a = k
      · simp only [hk, if_true]; omega
      · simp only [hk, if_false]; omega
    · have hmem' : a ∈ ps.map (·.1) := by
        rcases hmem with h | h
        · exact absurd h.symm hp
        · exact h
      rw [ih hnd.2 hmem']
      have : (p.1 == a) = false := by simp [hp]
      simp only [this, Bool.false_eq_true, if_false]
      omega

/-- **the accumulated shift of an axis is the sum of all shifts given for it** -/
theorem accumShifts_total : ∀ (ps : List (Nat × Int)) (k : Nat), totalShift (accumShifts ps) k = totalShift ps k
  | [], _ => rfl
  | (a, s) :: rest, k => by
    have ih := accumShifts_total rest k
    simp only [accumShifts]
    split
    · rename_i x hsome
      have hmem : a ∈ (accumShifts rest).map (·.1) := by
        have h1 := List.mem_of_find?_eq_some hsome
        have h2 := List.find?_some hsome
        simp only [beq_iff_eq] at h2
        exact List.mem_map.2 ⟨x, h1, h2⟩
      rw [totalShift_bump _ a s k (accumShifts_nodup rest) hmem, totalShift_cons, ih]
    · rw [totalShift_cons, totalShift_cons, ih]

/-- the composed roll coordinate map, read one coordinate at a time: the total shift of that axis is subtracted -/
theorem foldr_rollCoord_getD (shape : List Nat) (hpos : ∀ d ∈ shape, 0 < d) :
    ∀ (ps : List (Nat × Int)), (∀ p ∈ ps, p.1 < shape.length) → ∀ (c : List Nat), inRange shape c = true → ∀ k, k < shape.length →
      (ps.foldr (fun p c => rollCoord shape p.1 p.2 c) c).getD k 0 = rollIdx (totalShift ps k) (shape.getD k 0) (c.getD k 0)
  | [], _, c, hc, k, hk => by
    simp only [List.foldr_nil]
    exact (rollIdx_zero _ _ (inRange_getD_lt shape c hc k hk)).symm
  | p :: ps, hv, c, hc, k, hk => by
    have hv' : ∀ q ∈ ps, q.1 < shape.length := fun q hq => hv q (List.mem_cons_of_mem _ hq)
    have ih := foldr_rollCoord_getD shape hpos ps hv' c hc
    have hin := inRange_foldr (fun (p : Nat × Int) c => rollCoord shape p.1 p.2 c) shape (fun p => p.1 < shape.length)
      (fun x hx c hc => inRange_rollCoord shape c x.1 x.2 hc hx) ps hv' c hc
    have hl := inRange_length _ _ hin
    have hp := hv p List.mem_cons_self
    simp only [List.foldr_cons]
    rw [getD_rollCoord _ _ _ _ _ (by omega), totalShift_cons]
    by_cases e : k = p.1
    · subst e
      have hd : 0 < shape.getD p.1 0 := by
        have := inRange_getD_lt shape c hc p.1 hk; omega
      simp only [if_true]
      rw [ih p.1 hk, rollIdx_rollIdx _ _ _ _ hd]
    · rw [if_neg e, if_neg (fun h => e h.symm), ih k hk]; simp

/-! ### the two single-axis steps and their folds -/

theorem flipAxis_spec (ax : Nat) (shape : List Nat) (elems : List α)
    (hpos : ∀ d ∈ shape, 0 < d) (hlen : elems.length = shape.prod) (hax : ax < shape.length) :
    ∃ es, flipAxis ax shape elems = .ok es ∧ es.length = elems.length ∧
      ∀ c, inRange shape c = true → es[ravel shape c]? = elems[ravel shape (flipCoord shape ax c)]? := by
  rw [flipAxis_eq_permAxis]
  exact permAxis_at _ _ reverse_permSpec ax shape elems hpos hlen hax

theorem rollAxis_spec (ax : Nat) (shape : List Nat) (sh : Int) (elems : List α)
    (hpos : ∀ d ∈ shape, 0 < d) (hlen : elems.length = shape.prod) (hax : ax < shape.length) :
    ∃ es, rollAxis ax shape sh elems = .ok es ∧ es.length = elems.length ∧
      ∀ c, inRange shape c = true → es[ravel shape c]? = elems[ravel shape (rollCoord shape ax sh c)]? := by
  rw [rollAxis_eq_permAxis]
  exact permAxis_at _ _ (rollPerm_permSpec sh) ax shape elems hpos hlen hax

theorem flipFold_at (shape : List Nat) (hpos : ∀ d ∈ shape, 0 < d) (axes : List Nat) (hv : ∀ x ∈ axes, x < shape.length)
    (es : List α) (hl : es.length = shape.prod) :
    ∃ es', axes.foldl (fun (acc : Res (List α)) x => acc >>= fun es => flipAxis x shape es) (.ok es) = .ok es' ∧
      es'.length = es.length ∧
      ∀ c, inRange shape c = true → es'[ravel shape c]? = es[ravel shape (axes.foldr (flipCoord shape) c)]? :=
  stepFold_at (fun x es => flipAxis x shape es) (flipCoord shape) shape (fun x => x < shape.length)
    (fun x hx es hl => flipAxis_spec x shape es hpos hl hx)
    (fun x hx c hc => inRange_flipCoord shape c x hc hx) axes hv es hl

theorem rollFold_at (shape : List Nat) (hpos : ∀ d ∈ shape, 0 < d) (ps : List (Nat × Int)) (hv : ∀ p ∈ ps, p.1 < shape.length)
    (es : List α) (hl : es.length = shape.prod) :
    ∃ es', ps.foldl (fun (acc : Res (List α)) p => acc >>= fun es => rollAxis p.1 shape p.2 es) (.ok es) = .ok es' ∧
      es'.length = es.length ∧
      ∀ c, inRange shape c = true →
        es'[ravel shape c]? = es[ravel shape (ps.foldr (fun p c => rollCoord shape p.1 p.2 c) c)]? :=
  stepFold_at (fun (p : Nat × Int) es => rollAxis p.1 shape p.2 es) (fun p c => rollCoord shape p.1 p.2 c) shape
    (fun p => p.1 < shape.length)
    (fun p hp es hl => rollAxis_spec p.1 shape p.2 es hpos hl hp)
    (fun p hp c hc => inRange_rollCoord shape c p.1 p.2 hc hp) ps hv es hl

/-- the rank-1 arm of `roll`: successive `rotate_right` on the element vector -/
theorem rotFold_at (n : Nat) (ps : List (Nat × Int)) (hv : ∀ p ∈ ps, p.1 < [n].length)
    (es : List α) (hl : es.length = [n].prod) :
    (ps.foldl (fun es p => rotateRight es (p.2 % (es.length : Int)).toNat) es).length = es.length ∧
      ∀ c, inRange [n] c = true →
        (ps.foldl (fun es p => rotateRight es (p.2 % (es.length : Int)).toNat) es)[ravel [n] c]?
          = es[ravel [n] (ps.foldr (fun p c => rollCoord [n] p.1 p.2 c) c)]? := by
  obtain ⟨es', h1, h2, h3⟩ := stepFold_at (fun (p : Nat × Int) (es : List α) => Res.ok (rotateRight es (p.2 % (es.length : Int)).toNat))
    (fun p c => rollCoord [n] p.1 p.2 c) [n] (fun p => p.1 < [n].length)
    (fun p hp es hl => by
      refine ⟨_, rfl, rotateRight_length _ _, ?_⟩
      intro c hc
      have hp0 : p.1 = 0 := by simp at hp; exact hp
      obtain ⟨i, cs, rfl, hi, hcs⟩ := inRange_cons_inv n [] c hc
      cases cs with
      | cons _ _ => simp [inRange] at hcs
      | nil =>
        simp only [List.prod_cons, List.prod_nil, Nat.mul_one] at hl
        have := (rollPerm_permSpec p.2).get _ es i (by omega)
        simp only [rollPerm] at this
        simp only [rollCoord, hp0, List.set_cons_zero, List.getD_cons_zero, ravel, List.prod_nil, Nat.mul_one, Nat.add_zero]
        rw [this, hl])
    (fun p hp c hc => inRange_rollCoord [n] c p.1 p.2 hc hp) ps hv es hl
  rw [foldl_bind_ok (fun (p : Nat × Int) (es : List α) => rotateRight es (p.2 % (es.length : Int)).toNat)] at h1
  cases h1
  exact ⟨h2, h3⟩

/-- pairing of shifts and axes when the two lists have the same (non-zero) length -/
theorem broadcast_flat_same (shift axs : List Int) (h : shift.length = axs.length) (hne : shift ≠ []) :
    (Arr.flat shift).broadcast (Arr.flat axs) = .ok ⟨shift.zip axs, [shift.length]⟩ := by
  have hn : shift.length ≠ 0 := by cases shift with | nil => exact absurd rfl hne | cons _ _ => simp
  have hn' : axs.length ≠ 0 := by omega
  have hb : isBroadcastable [axs.length] [axs.length] = true := by
    simp [isBroadcastable, dimClash, hn']
  unfold Arr.broadcast
  simp only [Arr.flat, h, hb, Bool.not_true, Bool.false_eq_true, if_false, if_true, Arr.reshape, Arr.new, List.prod_cons,
    List.prod_nil, Nat.mul_one, List.length_zip, Nat.min_self]

/-- the (axis, shift) pairs `roll` works with -/
def rollPairs (nd : Nat) (shift axs : List Int) : List (Nat × Int) :=
  (shift.zip axs).map (fun p => (normalizeAxis nd p.2, p.1))

theorem rollPairs_valid (nd : Nat) (shift axs : List Int) (hv : ∀ x ∈ axs, normalizeAxis nd x < nd) :
    ∀ p ∈ accumShifts (rollPairs nd shift axs), p.1 < nd := by
  intro p hp
  obtain ⟨q, hq, e⟩ := accumShifts_keys _ p hp
  obtain ⟨z, hz, rfl⟩ := List.mem_map.1 hq
  rw [← e]
  exact hv _ (List.of_mem_zip hz).2

/-- flip along a list of valid axes: shape kept, composed coordinate map -/
theorem flip_list_spec (a : Arr α) (axes : List Int) (hwf : a.WF) (hpos : ∀ d ∈ a.shape, 0 < d)
    (hv : ∀ x ∈ axes, normalizeAxis a.ndim x < a.ndim) :
    ∃ r, a.flip (some axes) = .ok r ∧ r.shape = a.shape ∧ r.WF ∧
      ∀ c, inRange a.shape c = true →
        r.get? c = a.get? ((axes.map (normalizeAxis a.ndim)).foldr (flipCoord a.shape) c) := by
  have hany : (axes.map (normalizeAxis a.ndim)).any (fun x => decide (x ≥ a.ndim)) = false := by
    rw [List.any_eq_false]
    intro x hx
    obtain ⟨y, hy, rfl⟩ := List.mem_map.1 hx
    have := hv y hy
    simp only [decide_eq_true_eq]; omega
  obtain ⟨es, h1, h2, h3⟩ := flipFold_at a.shape hpos (axes.map (normalizeAxis a.ndim))
    (fun x hx => by obtain ⟨y, hy, rfl⟩ := List.mem_map.1 hx; exact hv y hy) a.elems hwf
  have hl : a.shape.prod = es.length := by rw [h2]; exact hwf.symm
  refine ⟨⟨es, a.shape⟩, ?_, rfl, hl.symm, fun c hc => h3 c hc⟩
  unfold Arr.flip
  simp only [hany, Bool.false_eq_true, if_false, h1, Res.bind_ok, Arr.reshape, Arr.flat, Arr.new, hl, if_true]

end ArrModel
