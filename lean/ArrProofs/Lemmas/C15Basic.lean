import Mathlib.LinearAlgebra.Matrix.Determinant.Basic
import Mathlib.LinearAlgebra.Matrix.Block
import Mathlib.Tactic.FieldSimp
import Mathlib.Tactic.Linarith
import ArrModel.C15
/-!
# Lemmas for C15, part 1: reading `build`, sums, and the bridge `detN = Matrix.det`
-/
namespace ArrModel.C15
open ArrModel

/-! ### total reads -/

theorem vget_eq_getElem (v : List Rat) (i : Nat) (h : i < v.length) : vget v i = v[i] := by
  simp [vget, List.getD_eq_getElem?_getD, h]

theorem vget_of_le (v : List Rat) (i : Nat) (h : v.length ≤ i) : vget v i = 0 := by
  simp [vget, List.getD_eq_getElem?_getD, h]

theorem getD_map_range {α} (n : Nat) (f : Nat → α) (i : Nat) (d : α) :
    ((List.range n).map f).getD i d = if i < n then f i else d := by
  by_cases h : i < n <;> simp [List.getD_eq_getElem?_getD, h]

theorem entry_build (r c : Nat) (f : Nat → Nat → Rat) (i j : Nat) :
    entry (build r c f) i j = if i < r ∧ j < c then f i j else 0 := by
  unfold entry build
  rw [getD_map_range]
  by_cases hi : i < r
  · simp only [hi, if_true, true_and]; rw [getD_map_range]
  · simp [hi]

theorem entry_build_lt {r c : Nat} (f : Nat → Nat → Rat) {i j : Nat} (hi : i < r) (hj : j < c) :
    entry (build r c f) i j = f i j := by
  rw [entry_build, if_pos ⟨hi, hj⟩]

theorem build_length (r c : Nat) (f : Nat → Nat → Rat) : (build r c f).length = r := by simp [build]

theorem build_row_length (r c : Nat) (f : Nat → Nat → Rat) (i : Nat) (hi : i < r) :
    ((build r c f).getD i []).length = c := by
  unfold build; rw [getD_map_range, if_pos hi]; simp

theorem build_getD (r c : Nat) (f : Nat → Nat → Rat) (i : Nat) (hi : i < r) :
    (build r c f).getD i [] = (List.range c).map (f i) := by
  unfold build; rw [getD_map_range, if_pos hi]

theorem vget_map_range (n : Nat) (f : Nat → Rat) (i : Nat) :
    vget ((List.range n).map f) i = if i < n then f i else 0 := by
  unfold vget; exact getD_map_range n f i 0

/-! ### sums and products -/

theorem sumTo_eq_sum (n : Nat) (f : Nat → Rat) : sumTo n f = ∑ i ∈ Finset.range n, f i := by
  induction n with
  | zero => simp [sumTo]
  | succ n ih => rw [sumTo, ih, Finset.sum_range_succ]

theorem prodTo_eq_prod (n : Nat) (f : Nat → Rat) : prodTo n f = ∏ i ∈ Finset.range n, f i := by
  induction n with
  | zero => simp [prodTo]
  | succ n ih => rw [prodTo, ih, Finset.prod_range_succ]

theorem sumTo_congr (n : Nat) (f g : Nat → Rat) (h : ∀ i, i < n → f i = g i) : sumTo n f = sumTo n g := by
  rw [sumTo_eq_sum, sumTo_eq_sum]; exact Finset.sum_congr rfl fun i hi => h i (Finset.mem_range.1 hi)

theorem absR_eq_abs (x : Rat) : absR x = |x| := by
  unfold absR
  split
  · rw [abs_of_neg ‹_›]
  · rw [abs_of_nonneg (not_lt.1 ‹_›)]

theorem sgn_eq_pow (i : Nat) : sgn i = (-1 : Rat) ^ i := by
  unfold sgn
  rcases Nat.even_or_odd i with h | h
  · rw [if_pos (Nat.even_iff.1 h), h.neg_one_pow]
  · rw [if_neg (by rw [Nat.odd_iff.1 h]; decide), h.neg_one_pow]

/-! ### the bridge to `Matrix.det` -/

/-- the `n × n` matrix read off a list of rows -/
def toM (n : Nat) (m : Mat) : Matrix (Fin n) (Fin n) ℚ := fun i j => entry m i j

theorem getD_eraseIdx {α} (l : List α) (r i : Nat) (d : α) :
    (l.eraseIdx r).getD i d = l.getD (if i < r then i else i + 1) d := by
  simp only [List.getD_eq_getElem?_getD, List.getElem?_eraseIdx]
  split <;> rfl

theorem entry_minor (m : Mat) (r c i j : Nat) :
    entry (minor m r c) i j = entry m (if i < r then i else i + 1) (if j < c then j else j + 1) := by
  unfold entry minor
  have : ((m.eraseIdx r).map (·.eraseIdx c)).getD i [] = ((m.eraseIdx r).getD i []).eraseIdx c := by
    simp only [List.getD_eq_getElem?_getD, List.getElem?_map]
    cases (m.eraseIdx r)[i]? <;> simp
  rw [this, getD_eraseIdx, getD_eraseIdx]

theorem toM_minor (n : Nat) (m : Mat) (i : Fin (n + 1)) :
    toM n (minor m i 0) = (toM (n + 1) m).submatrix i.succAbove Fin.succ := by
  funext a b
  simp only [toM, Matrix.submatrix_apply, entry_minor]
  congr 1
  · by_cases h : (a : Nat) < i
    · rw [if_pos h, Fin.succAbove_of_castSucc_lt _ _ (by simpa [Fin.lt_def] using h)]; rfl
    · rw [if_neg h, Fin.succAbove_of_le_castSucc _ _ (by simpa [Fin.le_def] using not_lt.1 h)]; rfl

/-- **the list model of `det` is the determinant**, for every size the code accepts (`n ≥ 2`) -/
theorem detN_eq_det : ∀ (n : Nat) (m : Mat), 2 ≤ n → detN n m = (toM n m).det
  | 2, m, _ => by
    rw [detN, Matrix.det_fin_two]; rfl
  | n + 3, m, _ => by
    rw [detN, Matrix.det_succ_column_zero, sumTo_eq_sum, ← Fin.sum_univ_eq_sum_range
      (fun i => entry m i 0 * sgn (i + 2) * detN (n + 2) (minor m i 0)) (n + 3)]
    refine Finset.sum_congr rfl fun i _ => ?_
    rw [detN_eq_det (n + 2) _ (by omega), toM_minor, sgn_eq_pow, pow_add]
    have h0 : (toM (n + 2 + 1) m) i 0 = entry m i 0 := by simp [toM]
    rw [h0]; ring

end ArrModel.C15
