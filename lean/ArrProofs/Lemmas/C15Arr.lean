import ArrProofs.Lemmas.C15Solve
/-!
# Lemmas for C15, part 4: flat (row-major) views, products and exchanges as `Matrix` operations, 1-D reductions
-/
namespace ArrModel.C15
open ArrModel

/-! ### flatten / row-major reads -/

theorem flatten_length (k : Nat) : ∀ (x : Mat), (∀ row ∈ x, row.length = k) → x.flatten.length = x.length * k
  | [], _ => by simp
  | r :: rest, h => by
    rw [List.flatten_cons, List.length_append, flatten_length k rest (fun row hr => h row (List.mem_cons_of_mem _ hr)),
      h r (List.mem_cons_self), List.length_cons]
    ring

theorem vget_flatten (k : Nat) : ∀ (x : Mat), (∀ row ∈ x, row.length = k) → ∀ t c, c < k →
    vget x.flatten (t * k + c) = entry x t c
  | [], _, t, c, _ => by simp [vget, entry]
  | r :: rest, h, t, c, hc => by
    have hr : r.length = k := h r (List.mem_cons_self)
    cases t with
    | zero =>
      rw [entry_cons_zero, List.flatten_cons]
      simp only [Nat.zero_mul, Nat.zero_add, vget, List.getD_eq_getElem?_getD]
      rw [List.getElem?_append_left (by omega)]
    | succ t =>
      rw [entry_cons_succ, List.flatten_cons, ← vget_flatten k rest (fun row hm => h row (List.mem_cons_of_mem _ hm)) t c hc]
      simp only [vget, List.getD_eq_getElem?_getD]
      rw [List.getElem?_append_right (by rw [hr, Nat.succ_mul]; omega)]
      congr 2
      rw [hr, Nat.succ_mul]; omega

theorem bwd_rows (k : Nat) (u y : Mat) : ∀ len s, (bwd k u y s len).length = len ∧ ∀ row ∈ bwd k u y s len, row.length = k
  | 0, s => by simp [bwd]
  | len + 1, s => by
    rw [bwd_succ]
    obtain ⟨h1, h2⟩ := bwd_rows k u y len (s + 1)
    refine ⟨by simp [h1], ?_⟩
    intro row hrow
    rcases List.mem_cons.1 hrow with h | h
    · rw [h, List.length_map, subRow_length]
    · exact h2 row h

theorem solveMat_rows (n k : Nat) (a b : Mat) :
    (solveMat n k a b).length = n ∧ ∀ row ∈ solveMat n k a b, row.length = k := by
  unfold solveMat
  simp only [backSubst_eq]; exact bwd_rows k _ _ n 0

theorem entry_toMat {r c : Nat} (e : List Rat) {i j : Nat} (hi : i < r) (hj : j < c) :
    entry (toMat r c e) i j = vget e (i * c + j) := by
  unfold toMat; rw [entry_build_lt _ hi hj]

theorem toMat_rows (r c : Nat) (e : List Rat) : ∀ i, i < r → ((toMat r c e).getD i []).length = c :=
  fun _ hi => build_row_length _ _ _ _ hi

/-! ### products and exchanges as `Matrix` operations -/

theorem toM_matMul (n : Nat) (a b : Mat) : toM n (matMul n a b) = toM n a * toM n b := by
  funext i j
  rw [Matrix.mul_apply]
  show entry (matMul n a b) i j = _
  rw [matMul, entry_build_lt _ i.2 j.2, sumTo_eq_sum,
    ← Fin.sum_univ_eq_sum_range (fun t => entry a i t * entry b t j) n]
  rfl

theorem toM_swapRows (n : Nat) (a : Mat) (i j : Nat) (hi : i < n) (hj : j < n) :
    toM n (swapRows n n a i j) = (toM n a).submatrix (Equiv.swap (⟨i, hi⟩ : Fin n) ⟨j, hj⟩) id := by
  funext r c
  rw [Matrix.submatrix_apply]
  show entry (swapRows n n a i j) r c = entry a ((Equiv.swap (⟨i, hi⟩ : Fin n) ⟨j, hj⟩ r : Fin n) : Nat) c
  rw [swapRows, entry_build_lt _ r.2 c.2, Equiv.swap_apply_def]
  by_cases h1 : r = ⟨i, hi⟩
  · rw [if_pos h1, if_pos (by rw [h1])]
  · have h1' : (r : Nat) ≠ i := fun e => h1 (Fin.ext e)
    rw [if_neg h1, if_neg h1']
    by_cases h2 : r = ⟨j, hj⟩
    · rw [if_pos h2, if_pos (by rw [h2])]
    · have h2' : (r : Nat) ≠ j := fun e => h2 (Fin.ext e)
      rw [if_neg h2, if_neg h2']

/-! ### reductions of a vector -/

theorem reduceAxis_vec (f : List Rat → Rat) (a : Arr Rat) (m : Nat) (hs : a.shape = [m]) (hw : a.elems.length = m)
    (ax : Int) (hax : ax = 0 ∨ ax = -1) :
    reduceAxis f a ax = .ok ⟨[f a.elems], [1]⟩ := by
  have hlane : (List.range m).map (fun t => vget a.elems (ravelC [m] (insertAt [] 0 t))) = a.elems := by
    apply List.ext_getElem
    · simp [hw]
    · intro i h1 h2
      simp only [List.getElem_map, List.getElem_range, insertAt]
      have : ravelC [m] [i] = i := by simp [ravelC]
      simp only [List.take_nil, List.drop_nil, List.nil_append]
      rw [this, vget_eq_getElem _ _ h2]
  have hnd : a.ndim = 1 := by simp [Arr.ndim, hs]
  unfold reduceAxis
  rcases hax with h | h <;> subst h <;>
    simp [hnd, normAxis, hs, unravelC, hlane]

theorem sumL_eq_sum (l : List Rat) : sumL l = l.sum := by
  unfold sumL
  have : ∀ (l : List Rat) (acc : Rat), l.foldl (· + ·) acc = acc + l.sum := by
    intro l; induction l with
    | nil => intro acc; simp
    | cons x xs ih => intro acc; rw [List.foldl_cons, ih, List.sum_cons]; ring
  rw [this]; ring

theorem maxL_fold (l : List Rat) : ∀ (init : Rat),
    (l.foldl (fun a b => if a < b then b else a) init = init ∨
      l.foldl (fun a b => if a < b then b else a) init ∈ l) ∧
    init ≤ l.foldl (fun a b => if a < b then b else a) init ∧
    ∀ x ∈ l, x ≤ l.foldl (fun a b => if a < b then b else a) init := by
  induction l with
  | nil => intro init; simp
  | cons y ys ih =>
    intro init
    rw [List.foldl_cons]
    obtain ⟨h1, h2, h3⟩ := ih (if init < y then y else init)
    have hle : init ≤ (if init < y then y else init) := by split <;> [exact le_of_lt ‹_›; exact le_refl _]
    have hy : y ≤ (if init < y then y else init) := by split <;> [exact le_refl _; exact not_lt.1 ‹_›]
    refine ⟨?_, le_trans hle h2, ?_⟩
    · rcases h1 with h | h
      · rw [h]
        by_cases hlt : init < y
        · rw [if_pos hlt]; exact Or.inr (List.mem_cons_self)
        · rw [if_neg hlt]; exact Or.inl rfl
      · exact Or.inr (List.mem_cons_of_mem _ h)
    · intro x hx
      rcases List.mem_cons.1 hx with h | h
      · rw [h]; exact le_trans hy h2
      · exact h3 x h

/-- `maxL` of a non-empty list is its greatest element -/
theorem maxL_spec (l : List Rat) (hne : l ≠ []) : maxL l ∈ l ∧ ∀ x ∈ l, x ≤ maxL l := by
  unfold maxL
  cases l with
  | nil => exact absurd rfl hne
  | cons y ys =>
    obtain ⟨h1, _, h3⟩ := maxL_fold (y :: ys) y
    simp only [List.headD_cons]
    refine ⟨?_, h3⟩
    rcases h1 with h | h
    · rw [h]; exact List.mem_cons_self
    · exact h

theorem singTol_pos : 0 < singTol := by unfold singTol; norm_num

end ArrModel.C15
