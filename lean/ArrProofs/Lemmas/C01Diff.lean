import ArrModel.C01Diff
import ArrProofs.Lemmas.C01Machine
import ArrProofs.Lemmas.C08AlongAxis
/-!
# Lemmas.C01Diff — `ediff1d`, `diff`, `insert` with an axis, `convolve` (`ArrModel/C01Diff.lean`)

* well-formedness of every result (`c01d_*_wf`): the lemmas the store machine's `eval_wf` uses;
* per-element specifications: adjacent differences, the `n`-fold iteration, the lane-wise reading of the N-D arm of `diff`
  (through `applyAlongAxis_spec` of C08), the double-sum formula of the convolution and its three windows.
-/
namespace ArrModel.C01
open ArrModel Arr

variable {α : Type}

/-! ## adjacent differences -/

theorem adjDiff_length [Sub α] : ∀ (l : List α), (adjDiff l).length = l.length - 1
  | [] => rfl
  | [_] => rfl
  | a :: b :: r => by
    rw [adjDiff, List.length_cons, adjDiff_length (b :: r)]
    simp

/-- element `i` of the adjacent differences is `l[i+1] - l[i]` -/
theorem adjDiff_getElem? [Sub α] : ∀ (l : List α) (i : Nat) (h : i + 1 < l.length),
    (adjDiff l)[i]? = some (l[i + 1] - l[i])
  | [], _, h => by simp at h
  | [_], _, h => by simp at h
  | a :: b :: r, 0, _ => by simp [adjDiff]
  | a :: b :: r, i + 1, h => by
    have h' : i + 1 < (b :: r).length := by simpa using h
    rw [adjDiff, List.getElem?_cons_succ, adjDiff_getElem? (b :: r) i h']
    simp

theorem adjDiff_eq_nil_of_short [Sub α] (l : List α) (h : l.length ≤ 1) : adjDiff l = [] := by
  match l, h with
  | [], _ => rfl
  | [_], _ => rfl

theorem diffLoop_eq_iterDiff [Sub α] : ∀ (n : Nat) (l : List α), diffLoop n l = iterDiff n l
  | 0, _ => rfl
  | n + 1, l => by
    rw [diffLoop, iterDiff, ← diffLoop_eq_iterDiff n]
    simp [ediff1d, optElems, Arr.empty, Arr.ravel, Arr.flat]

theorem iterDiff_length [Sub α] : ∀ (n : Nat) (l : List α), (iterDiff n l).length = l.length - n
  | 0, _ => rfl
  | n + 1, l => by
    rw [iterDiff, iterDiff_length n, adjDiff_length]
    omega

/-- the `n`-th order difference peels off as first-order difference of the `(n-1)`-th order one -/
theorem iterDiff_succ' [Sub α] : ∀ (n : Nat) (l : List α), iterDiff (n + 1) l = adjDiff (iterDiff n l)
  | 0, _ => rfl
  | n + 1, l => by
    rw [iterDiff, iterDiff_succ' n (adjDiff l)]
    rfl

/-! ## well-formedness -/

theorem c01d_ediff1d_wf [Sub α] (a : Arr α) (e b : Option (Arr α)) : (a.ediff1d e b).WF := flat_wf _

theorem c01d_diffLane_wf [Sub α] (n : Nat) (lane : Arr α) {r : Arr α} (h : diffLane n lane = .ok r) : r.WF := by
  unfold diffLane at h; cases h; exact flat_wf _

theorem c01d_diff_wf [Sub α] (a : Arr α) (zero : α) (n : Nat) (axis : Option Int) (p q : Option (Arr α)) {r : Arr α}
    (h : a.diff zero n axis p q = .ok r) : r.WF := by
  unfold Arr.diff at h
  split at h
  · cases h
  · split at h
    · cases h; exact empty_wf
    · split at h
      · cases h; exact flat_wf _
      · dsimp only at h
        split at h
        · cases h
        · obtain ⟨x, _, h⟩ := bind_ok_inv h
          exact applyAlongAxis_wf x zero zero _ _ h

theorem c01d_diffRelay_wf (a : Arr α) (zero : α) (ax : Nat) (p q : Option (Arr α)) {r : Arr α}
    (h : a.diffRelay zero ax p q = .ok r) : r.WF := by
  unfold Arr.diffRelay at h
  obtain ⟨_, _, h⟩ := bind_ok_inv h
  obtain ⟨_, _, h⟩ := bind_ok_inv h
  obtain ⟨_, _, h⟩ := bind_ok_inv h
  obtain ⟨_, _, h⟩ := bind_ok_inv h
  obtain ⟨x, _, h⟩ := bind_ok_inv h
  split at h
  · exact transpose_wf x zero _ h
  · exact moveaxis_wf x zero _ _ h

theorem c01d_insertAxis_wf (a : Arr α) (zero : α) (indices : List Nat) (v : Arr α) (axis : Nat) (ha : a.WF) (hv : v.WF) {r : Arr α}
    (h : a.insertAxis zero indices v axis = .ok r) : r.WF := by
  unfold Arr.insertAxis at h
  split at h
  · cases h
  · split at h
    · cases h
    · split at h
      · cases h
      · split at h
        · exact insertFlat_wf a indices v ha hv h
        · split at h
          · cases h
          · obtain ⟨_, _, h⟩ := bind_ok_inv h
            obtain ⟨_, _, h⟩ := bind_ok_inv h
            obtain ⟨_, _, h⟩ := bind_ok_inv h
            obtain ⟨_, _, h⟩ := bind_ok_inv h
            obtain ⟨_, _, h⟩ := bind_ok_inv h
            dsimp only at h
            split at h
            · cases h
            · obtain ⟨x, _, h⟩ := bind_ok_inv h
              exact transpose_wf x zero _ h

/-- the result shape of `insert` with an axis, as the code computes it: the receiver's shape with the axis length replaced by the
new length `K`, axes 0 and `axis` swapped, then permuted by `(1..ndim).insert_at(axis, 0)` -/
theorem c01d_insertAxis_shape (a : Arr α) (zero : α) (indices : List Nat) (v : Arr α) (axis : Nat) (h1 : a.ndim ≠ 1) {r : Arr α}
    (h : a.insertAxis zero indices v axis = .ok r) :
    axis < a.ndim ∧ ∃ K, r.shape = permute ((List.range' 1 (a.ndim - 1)).insertIdx axis 0) (swapExt (a.shape.set axis K) 0 axis) := by
  unfold Arr.insertAxis at h
  rw [if_neg h1] at h
  split at h
  · cases h
  · rename_i hax
    refine ⟨Nat.not_le.mp hax, ?_⟩
    split at h
    · cases h
    · split at h
      · cases h
      · split at h
        · cases h
        · obtain ⟨_, _, h⟩ := bind_ok_inv h
          obtain ⟨_, _, h⟩ := bind_ok_inv h
          obtain ⟨_, _, h⟩ := bind_ok_inv h
          obtain ⟨_, _, h⟩ := bind_ok_inv h
          obtain ⟨arrs, _, h⟩ := bind_ok_inv h
          dsimp only at h
          split at h
          · cases h
          · obtain ⟨x, hx, h⟩ := bind_ok_inv h
            refine ⟨(Arr.flat (arrs.flatMap (·.elems))).len / (a.shape.eraseIdx axis).prod, ?_⟩
            unfold Arr.transpose at h
            obtain ⟨_, _, h⟩ := bind_ok_inv h
            rw [(new_ok_shape h).1, axesOf_ofNat, (new_ok_shape hx).1]

/-- along the only axis of a rank-1 receiver `insert` IS the flat insert (after the argument checks) -/
theorem c01d_insertAxis_rank1 (a : Arr α) (zero : α) (indices : List Nat) (v : Arr α) (h1 : a.ndim = 1)
    (hix : indices.any (fun i => decide (i > a.shape.getD 0 0)) = false) (hv : v.ndim = 1) :
    a.insertAxis zero indices v 0 = a.insertFlat indices v := by
  unfold Arr.insertAxis
  rw [if_neg (by omega), hix]
  simp [h1, hv]

theorem c01d_convolve_wf (a b : Arr Int) (mode : Option (List Char)) {r : Arr Int} (h : a.convolve b mode = .ok r) : r.WF := by
  unfold Arr.convolve at h
  split at h
  · cases h
  · split at h
    · cases h
    · cases h; exact flat_wf _

/-! ## the pair-returning `modf` / `divmod` / `frexp` -/

theorem ofResP_wf {x : Res (A × A)} (h : ∀ r, x = .ok r → r.1.WF ∧ r.2.WF) : ValWF (ofResP x) := by
  cases x with
  | ok p =>
    intro a ha
    have := h p rfl
    simp only [List.mem_cons, List.not_mem_nil, or_false] at ha
    rcases ha with rfl | rfl
    · exact this.1
    · exact this.2
  | err e => trivial
  | panic => trivial

/-- both members of the pair are consistent and have the receiver's shape class: the fractional part is the result of `mod` against
`[1]`, the integral part the result of `floor` -/
theorem c01d_modfPair_wf (a : A) (ha : a.WF) {r : A × A} (h : modfPair a = .ok r) : r.1.WF ∧ r.2.WF := by
  unfold modfPair at h
  obtain ⟨f, hf, h⟩ := bind_ok_inv h
  obtain ⟨i, hi, h⟩ := bind_ok_inv h
  cases h
  exact ⟨binPat_wf .G a _ ha (single_wf _) hf, iter_unary_wf _ a ha hi⟩

theorem c01d_divmodPair_wf (a : A) (ha : a.WF) {r : A × A} (h : divmodPair a = .ok r) : r.1.WF ∧ r.2.WF := by
  unfold divmodPair at h
  obtain ⟨f, hf, h⟩ := bind_ok_inv h
  obtain ⟨i, hi, h⟩ := bind_ok_inv h
  cases h
  exact ⟨iter_unary_wf _ a ha hi, binPat_wf .G a _ ha (single_wf _) hf⟩

/-- `frexp`: both members are consistent AND have exactly the receiver's shape (each is a `reshape` to it) -/
theorem c01d_frexpPair_wf (a : A) {r : A × A} (h : frexpPair a = .ok r) :
    r.1.WF ∧ r.2.WF ∧ r.1.shape = a.shape ∧ r.2.shape = a.shape := by
  unfold frexpPair at h
  obtain ⟨m, hm, h⟩ := bind_ok_inv h
  obtain ⟨e, he, h⟩ := bind_ok_inv h
  cases h
  exact ⟨reshape_wf hm, reshape_wf he, (new_ok_shape hm).1, (new_ok_shape he).1⟩

/-- on a consistent receiver `frexp` always succeeds -/
theorem c01d_frexpPair_ok (a : A) (ha : a.WF) : ∃ r, frexpPair a = .ok r := by
  unfold frexpPair Arr.reshape
  have h1 : Arr.new (Arr.flat (a.elems.map fun x => x)).elems a.shape = .ok ⟨_, a.shape⟩ :=
    new_accepts _ _ (by simpa [Arr.flat, Arr.WF] using ha)
  have h2 : Arr.new (Arr.flat (a.elems.map fun _ => (0 : Int))).elems a.shape = .ok ⟨_, a.shape⟩ :=
    new_accepts _ _ (by simpa [Arr.flat, Arr.WF] using ha)
  rw [h1, Res.bind_ok, h2, Res.bind_ok]
  exact ⟨_, rfl⟩

/-! ## `ediff1d` and the rank-1 arm of `diff` -/

theorem c01d_ediff1d_spec [Sub α] (a : Arr α) (e b : Option (Arr α)) :
    (a.ediff1d e b).elems = optElems b ++ adjDiff a.elems ++ optElems e ∧
    (a.ediff1d e b).shape = [(optElems b).length + (a.elems.length - 1) + (optElems e).length] := by
  simp [ediff1d, Arr.flat, Arr.ravel, adjDiff_length, Nat.add_assoc]

theorem c01d_diff_flat_spec [Sub α] (a : Arr α) (zero : α) (n : Nat) (axis : Option Int) (p q : Option (Arr α))
    (hax : diffAxisBad a.ndim axis = false) (hn : n ≠ 0) (h1 : a.ndim = 1) :
    a.diff zero n axis p q = .ok (Arr.flat (iterDiff n (optElems p ++ a.elems ++ optElems q))) := by
  unfold Arr.diff
  rw [hax]
  simp only [Bool.false_eq_true, if_false, if_neg hn, if_pos h1, diffFlat, diffLoop_eq_iterDiff]

/-! ## the N-D arm of `diff`: lane-wise through `apply_along_axis` -/

theorem c01d_diff_nd_eq [Sub α] (a : Arr α) (zero : α) (n : Nat) (axis : Option Int) (p q : Option (Arr α))
    (hax : diffAxisBad a.ndim axis = false) (hn : n ≠ 0) (h1 : a.ndim ≠ 1)
    (hin : normalizeAxis a.ndim (axis.getD (-1)) < a.ndim) :
    a.diff zero n axis p q =
      (a.diffRelay zero (normalizeAxis a.ndim (axis.getD (-1))) p q >>= fun x =>
        x.applyAlongAxis zero zero (normalizeAxis a.ndim (axis.getD (-1))) (diffLane n)) := by
  unfold Arr.diff
  rw [hax]
  simp only [Bool.false_eq_true, if_false, if_neg hn, if_neg h1, if_neg (Nat.not_le.mpr hin)]

/-- the lane-wise reading of the N-D arm: on the re-laid array `x` (well formed, no zero-length axis) the result has the
shape of `x` with the axis shortened by `n`, and its element at coordinate `c` is element `c[axis]` of the `n`-th order
difference of the lane of `x` through `c` -/
theorem c01d_diff_lanes [Sub α] (x : Arr α) (zero : α) (n ax : Nat) (hwf : x.WF) (hax : ax < x.ndim) (hnz : 0 ∉ x.shape) :
    ∃ r, x.applyAlongAxis zero zero ax (diffLane n) = .ok r ∧ r.shape = x.shape.set ax (x.shape.getD ax 0 - n) ∧ r.WF ∧
      ∀ c, inRange r.shape c = true → r.get? c = (iterDiff n (laneOf x ax c))[c.getD ax 0]? := by
  obtain ⟨r, h1, h2, h3, h4⟩ := applyAlongAxis_spec x zero zero ax (x.shape.getD ax 0 - n) (diffLane n) hwf hax hnz
    (by
      intro lane hl
      refine ⟨_, rfl, ?_⟩
      simp [diffFlat, optElems, Arr.empty, Arr.flat, diffLoop_eq_iterDiff, iterDiff_length, hl])
  refine ⟨r, h1, h2, h3, ?_⟩
  intro c hc
  obtain ⟨y, hy, hg⟩ := h4 c hc
  unfold diffLane at hy
  cases hy
  rw [hg]
  simp [diffFlat, optElems, Arr.empty, Arr.flat, diffLoop_eq_iterDiff]

/-! ## `convolve` -/

/-- one accumulation `out[p] += v` -/
def accAt (out : List Int) (p : Nat × Int) : List Int := out.set p.1 (out.getD p.1 0 + p.2)

theorem accAt_length (out : List Int) (p : Nat × Int) : (accAt out p).length = out.length := by simp [accAt]

theorem foldl_accAt_length (ups : List (Nat × Int)) : ∀ (out : List Int), (ups.foldl accAt out).length = out.length := by
  induction ups with
  | nil => intro out; rfl
  | cons p ups ih => intro out; rw [List.foldl_cons, ih, accAt_length]

theorem accAt_getD (out : List Int) (p : Nat × Int) (k : Nat) (hk : k < out.length) :
    (accAt out p).getD k 0 = out.getD k 0 + (if p.1 = k then p.2 else 0) := by
  unfold accAt
  rw [List.getD_eq_getElem?_getD, List.getElem?_set]
  by_cases h : p.1 = k
  · subst h
    simp [hk]
  · simp [h, List.getD_eq_getElem?_getD]

/-- a run of accumulations adds, at every position, the sum of the values addressed to it -/
theorem foldl_accAt_getD (ups : List (Nat × Int)) : ∀ (out : List Int) (k : Nat), k < out.length →
    (ups.foldl accAt out).getD k 0 = out.getD k 0 + (ups.map fun p => if p.1 = k then p.2 else 0).sum := by
  induction ups with
  | nil => intro out k _; simp
  | cons p ups ih =>
    intro out k hk
    rw [List.foldl_cons, ih _ k (by rw [accAt_length]; exact hk), accAt_getD out p k hk]
    simp only [List.map_cons, List.sum_cons]
    omega

theorem sum_append_int (l₁ l₂ : List Int) : (l₁ ++ l₂).sum = l₁.sum + l₂.sum := by
  induction l₁ with
  | nil => simp
  | cons a l ih => simp only [List.cons_append, List.sum_cons, ih]; omega

theorem sum_flatMap_int {β : Type} (l : List β) (f : β → List Int) :
    (l.flatMap f).sum = (l.map fun i => (f i).sum).sum := by
  induction l with
  | nil => rfl
  | cons a l ih => simp only [List.flatMap_cons, sum_append_int, ih, List.map_cons, List.sum_cons]

/-- the update list of the double loop -/
def convUpdates (x y : List Int) : List (Nat × Int) :=
  (List.range x.length).flatMap fun i => (List.range y.length).map fun j => (i + j, x.getD i 0 * y.getD j 0)

theorem convFull_eq_foldl (x y : List Int) :
    convFull x y = (convUpdates x y).foldl accAt (List.replicate (x.length + y.length - 1) 0) := by
  unfold convFull convUpdates
  rw [List.foldl_flatMap]
  congr 1
  funext out i
  rw [List.foldl_map]
  rfl

theorem convFull_length (x y : List Int) : (convFull x y).length = x.length + y.length - 1 := by
  rw [convFull_eq_foldl, foldl_accAt_length, List.length_replicate]

/-- **the defining sum**: position `k` of the accumulated buffer holds `Σ_{i + j = k} x[i] * y[j]` -/
theorem convFull_getD (x y : List Int) (k : Nat) (hk : k < x.length + y.length - 1) :
    (convFull x y).getD k 0 = convCoeff x y k := by
  rw [convFull_eq_foldl, foldl_accAt_getD _ _ k (by rw [List.length_replicate]; exact hk)]
  have h0 : (List.replicate (x.length + y.length - 1) (0 : Int)).getD k 0 = 0 := by
    simp [List.getD_eq_getElem?_getD, hk]
  rw [h0, Int.zero_add]
  unfold convUpdates convCoeff
  rw [List.map_flatMap, sum_flatMap_int]
  simp only [List.map_map]
  rfl

theorem convFull_getElem? (x y : List Int) (k : Nat) (hk : k < x.length + y.length - 1) :
    (convFull x y)[k]? = some (convCoeff x y k) := by
  have hl : k < (convFull x y).length := by rw [convFull_length]; exact hk
  have := convFull_getD x y k hk
  rw [List.getD_eq_getElem?_getD, List.getElem?_eq_getElem hl] at this
  rw [List.getElem?_eq_getElem hl]
  simpa using this

/-- the three windows: lengths -/
theorem convWindow_length (md : ConvMode) (x y : List Int) (hm : 1 ≤ y.length) (hnm : y.length ≤ x.length) :
    (convWindow md x.length y.length (convFull x y)).length = convLen md x.length y.length := by
  cases md <;> simp only [convWindow, convLen, List.length_take, List.length_drop, convFull_length] <;> omega

/-- the three windows: element `k` of the window is coefficient `k + offset` of the full product -/
theorem convWindow_getElem? (md : ConvMode) (x y : List Int) (hm : 1 ≤ y.length) (hnm : y.length ≤ x.length) (k : Nat)
    (hk : k < (convWindow md x.length y.length (convFull x y)).length) :
    (convWindow md x.length y.length (convFull x y))[k]? =
      some (convCoeff x y (k + convOffset md y.length)) := by
  rw [convWindow_length md x y hm hnm] at hk
  cases md
  · simp only [convWindow, convOffset, convLen, Nat.add_zero] at hk ⊢
    exact convFull_getElem? x y k hk
  · simp only [convWindow, convOffset, convLen] at hk ⊢
    rw [List.getElem?_take_of_lt hk, List.getElem?_drop, Nat.add_comm]
    exact convFull_getElem? x y _ (by omega)
  · simp only [convWindow, convOffset, convLen] at hk ⊢
    rw [List.getElem?_take_of_lt hk, List.getElem?_drop, Nat.add_comm]
    exact convFull_getElem? x y _ (by omega)

end ArrModel.C01
