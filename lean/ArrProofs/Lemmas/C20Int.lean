import ArrProofs.Lemmas.C20
import ArrModel.C20Int
/-!
# Lemmas for C20Int — the native fixed-width integer operators (all widths, all values)

Core Lean only (`BitVec` / `Int` lemmas of `Init`, `omega`, `simp`).
-/
namespace ArrModel.C20
open ArrModel

variable {β γ : Type}

/-! ### structure: evaluating the terms of the generic model -/

theorem range_map_eq_zipWith (f : β → β → γ) (xs ys : List β) (h : xs.length = ys.length) (g : Nat → γ)
    (hg : ∀ i (h1 : i < xs.length) (h2 : i < ys.length), g i = f xs[i] ys[i]) :
    (List.range xs.length).map g = List.zipWith f xs ys := by
  apply List.ext_getElem
  · simp [h]
  · intro i h1 h2
    simp only [List.length_map, List.length_range] at h1
    simp [hg i h1 (h ▸ h1)]

theorem range_map_eq_map (f : β → γ) (xs : List β) (g : Nat → γ)
    (hg : ∀ i (h1 : i < xs.length), g i = f xs[i]) :
    (List.range xs.length).map g = xs.map f := by
  apply List.ext_getElem
  · simp
  · intro i h1 h2
    simp only [List.length_map, List.length_range] at h1
    simp [hg i h1]

theorem zipWith_range_map (c d : Nat → Sym) (k : Sym → Sym → Sym) (n : Nat) :
    List.zipWith k ((List.range n).map c) ((List.range n).map d) = (List.range n).map (fun i => k (c i) (d i)) := by
  simp [List.zipWith_map, List.zipWith_self]

/-- the answer of an operator call whose scalar function may panic: all positions, or a panic -/
def liftOpt (sh : List Nat) : Option (List β) → Res (Arr β)
  | some vs => .ok ⟨vs, sh⟩
  | none => .panic

theorem evalArr_ok (ev : Sym → Option β) (ts : List Sym) (sh : List Nat) :
    evalArr ev (.ok ⟨ts, sh⟩) = liftOpt sh (allSome (ts.map ev)) := by
  simp only [evalArr, liftOpt]; cases allSome (ts.map ev) <;> rfl

theorem allSome_map_some (xs : List β) : allSome (xs.map some) = some xs := by
  induction xs with
  | nil => rfl
  | cons x xs ih => simp [allSome, ih]

theorem allSome_eq_some_iff : ∀ (os : List (Option β)) (vs : List β),
    allSome os = some vs ↔ os = vs.map some
  | [], vs => by cases vs <;> simp [allSome]
  | none :: os, vs => by cases vs <;> simp [allSome]
  | some x :: os, vs => by
    cases vs with
    | nil => simp only [allSome]; cases allSome os <;> simp
    | cons v vs =>
      simp only [allSome, List.map_cons, List.cons.injEq, Option.some.injEq]
      rw [← allSome_eq_some_iff os vs]
      cases allSome os <;> simp

theorem allSome_eq_none_iff (os : List (Option β)) : allSome os = none ↔ none ∈ os := by
  induction os with
  | nil => simp [allSome]
  | cons o os ih =>
    cases o with
    | none => simp [allSome]
    | some x =>
      simp only [allSome, List.mem_cons, reduceCtorEq, false_or]
      rw [← ih]; cases allSome os <;> simp

/-- per position: a value answer holds `f x y` everywhere -/
theorem zipOpt_some_getElem (f : β → β → Option β) (xs ys vs : List β) (h : zipOpt f xs ys = some vs)
    (i : Nat) (x y : β) (hx : xs[i]? = some x) (hy : ys[i]? = some y) : ∃ v, f x y = some v ∧ vs[i]? = some v := by
  rw [zipOpt, allSome_eq_some_iff] at h
  have := congrArg (·[i]?) h
  simp only [List.getElem?_zipWith, hx, hy, List.getElem?_map] at this
  cases hv : vs[i]? with
  | none => simp [hv] at this
  | some v => exact ⟨v, by simpa [hv] using this, rfl⟩

theorem zipOpt_none_iff (f : β → β → Option β) (xs ys : List β) :
    zipOpt f xs ys = none ↔ ∃ (i : Nat) (x y : β), xs[i]? = some x ∧ ys[i]? = some y ∧ f x y = none := by
  rw [zipOpt, allSome_eq_none_iff, List.mem_iff_getElem?]
  constructor
  · rintro ⟨i, hi⟩
    rw [List.getElem?_zipWith] at hi
    cases hx : xs[i]? with
    | none => simp [hx] at hi
    | some x =>
      cases hy : ys[i]? with
      | none => simp [hx, hy] at hi
      | some y => exact ⟨i, x, y, hx, hy, by simpa [hx, hy] using hi⟩
  · rintro ⟨i, x, y, hx, hy, hf⟩
    exact ⟨i, by rw [List.getElem?_zipWith, hx, hy]; simpa using hf⟩

/-- if every defined `f x y` is `g x y`, a value answer of the lifted `f` is the plain zip with `g` -/
theorem zipOpt_some_eq (f : β → β → Option β) (g : β → β → β) (hfg : ∀ x y v, f x y = some v → v = g x y) :
    ∀ (xs ys vs : List β), zipOpt f xs ys = some vs → vs = List.zipWith g xs ys
  | [], _, vs, h => by simp [zipOpt, allSome] at h; simp [h]
  | _ :: _, [], vs, h => by simp [zipOpt, allSome] at h; simp [h]
  | x :: xs, y :: ys, vs, h => by
    simp only [zipOpt, List.zipWith_cons_cons] at h
    cases hf : f x y with
    | none => simp [hf, allSome] at h
    | some v =>
      rw [hf] at h
      simp only [allSome] at h
      cases hr : allSome (List.zipWith f xs ys) with
      | none => simp [hr] at h
      | some r =>
        simp only [hr, Option.some.injEq] at h
        subst h
        rw [List.zipWith_cons_cons, ← hfg x y v hf, ← zipOpt_some_eq f g hfg xs ys r hr]

section forms
variable (ty : IntTy) (bld : Build) (op : BinOp) (un : UnOp)

theorem iBinop_eq (a b : IArr ty) (ha : a.WF) (hb : b.WF) (hs : a.shape = b.shape) :
    iBinop ty bld op a b = liftOpt a.shape (zipOpt (scalarBin ty bld op) a.elems b.elems) := by
  have hl : a.elems.length = b.elems.length := by rw [ha, hb, hs]
  unfold iBinop binop symOf zipOpt
  simp only [hs, ne_eq, not_true_eq_false, if_false, ← hl]
  rw [zipWith_range_map, newUnwrap_ok _ _ (by simp [← hs, ha.symm]), evalArr_ok, List.map_map, ← hs]
  congr 2
  apply range_map_eq_zipWith _ _ _ hl
  intro i h1 h2
  simp [evalTerm, envAB, h1, h2]

theorem iAssign_eq (a b : IArr ty) (ha : a.WF) (hb : b.WF) (hs : a.shape = b.shape) :
    iAssign ty bld op a b = liftOpt a.shape (zipOpt (scalarAsg ty bld op) a.elems b.elems) := by
  have hl : a.elems.length = b.elems.length := by rw [ha, hb, hs]
  unfold iAssign assignop symOf zipOpt
  simp only [hs, ne_eq, not_true_eq_false, if_false, ← hl]
  rw [zipAssign_eq_zipWith _ _ _ (by simp), zipWith_range_map, evalArr_ok, List.map_map, ← hs]
  congr 2
  apply range_map_eq_zipWith _ _ _ hl
  intro i h1 h2
  simp [evalTerm, envAB, h1, h2]

theorem iBitop_eq (a b : IArr ty) (ha : a.WF) (hb : b.WF) (hs : a.shape = b.shape) :
    iBitop ty bld op a b = liftOpt a.shape (zipOpt (scalarBin ty bld op) a.elems b.elems) := by
  have hl : a.elems.length = b.elems.length := by rw [ha, hb, hs]
  unfold iBitop bitop symOf zipOpt
  simp only [hs, ne_eq, not_true_eq_false, if_false, ← hl]
  rw [zipWith_range_map, evalArr_ok, List.map_map, ← hs]
  congr 2
  apply range_map_eq_zipWith _ _ _ hl
  intro i h1 h2
  simp [evalTerm, envAB, h1, h2]

theorem iBitAssign_eq (a b : IArr ty) (ha : a.WF) (hb : b.WF) (hs : a.shape = b.shape) :
    iBitAssign ty bld op a b = liftOpt a.shape (zipOpt (scalarBin ty bld op) a.elems b.elems) := by
  have hl : a.elems.length = b.elems.length := by rw [ha, hb, hs]
  unfold iBitAssign bitAssign assignop symOf zipOpt
  simp only [hs, ne_eq, not_true_eq_false, if_false, ← hl]
  rw [zipAssign_eq_zipWith _ _ _ (by simp), zipWith_range_map, evalArr_ok, List.map_map, ← hs]
  congr 2
  apply range_map_eq_zipWith _ _ _ hl
  intro i h1 h2
  simp [evalTerm, envAB, h1, h2]

theorem symOf_WF (c : Nat → Sym) (a : Arr β) (ha : a.WF) : (symOf c a).WF := by
  simpa [symOf, Arr.WF] using ha

theorem iScalar_eq (a : IArr ty) (s : BitVec ty.w) (ha : a.WF) :
    iScalar ty bld op a s = liftOpt a.shape (allSome (a.elems.map (fun x => scalarBin ty bld op x s))) := by
  unfold iScalar scalarop
  rw [mapArr_ok _ _ (symOf_WF _ a ha)]
  simp only [Res.bind_ok]
  rw [reshape_ok _ _ (by simpa [symOf, Arr.WF] using ha.symm)]
  simp only [symOf, List.map_map]
  rw [evalArr_ok, List.map_map]
  congr 2
  apply range_map_eq_map
  intro i h1
  simp [evalTerm, envAS, h1]

theorem iAssignScalar_eq (a : IArr ty) (s : BitVec ty.w) :
    iAssignScalar ty bld op a s = liftOpt a.shape (allSome (a.elems.map (fun x => scalarAsg ty bld op x s))) := by
  unfold iAssignScalar assignScalar
  simp only [symOf, List.map_map]
  rw [evalArr_ok, List.map_map]
  congr 2
  apply range_map_eq_map
  intro i h1
  simp [evalTerm, envAS, h1]

theorem iBitScalar_eq (a : IArr ty) (s : BitVec ty.w) :
    iBitScalar ty bld op a s = liftOpt a.shape (allSome (a.elems.map (fun x => scalarBin ty bld op x s))) := by
  unfold iBitScalar bitScalar
  simp only [symOf, List.map_map]
  rw [evalArr_ok, List.map_map]
  congr 2
  apply range_map_eq_map
  intro i h1
  simp [evalTerm, envAS, h1]

theorem iUnop_eq (a : IArr ty) (ha : a.WF) :
    iUnop ty bld un a = liftOpt a.shape (allSome (a.elems.map (scalarUn ty bld un))) := by
  unfold iUnop unop
  rw [newUnwrap_ok _ _ (by simpa [symOf, Arr.WF] using ha.symm)]
  simp only [symOf, List.map_map]
  rw [evalArr_ok, List.map_map]
  congr 2
  apply range_map_eq_map
  intro i h1
  simp [evalTerm, envAB, h1]

end forms

/-! ### scalars: range, exact results without overflow -/

section scalars
variable (ty : IntTy) (bld : Build)

theorem inRange_iff (v : Int) : ty.inRange v = true ↔ ty.minVal ≤ v ∧ v ≤ ty.maxVal := by
  simp [IntTy.inRange]

theorem two_pow_cast (w : Nat) : ((2 ^ w : Nat) : Int) = (2 : Int) ^ w := by simp

/-- every bit pattern denotes a representable integer -/
theorem val_inRange (x : BitVec ty.w) : ty.inRange (ty.val x) = true := by
  rw [inRange_iff]
  unfold IntTy.val IntTy.minVal IntTy.maxVal
  cases ty.signed
  · simp only [Bool.false_eq_true, if_false]
    have := x.isLt
    have h2 := two_pow_cast ty.w
    omega
  · simp only [if_true]
    have h1 := BitVec.le_toInt x
    have h2 := @BitVec.toInt_le _ x
    omega

theorem val_inj (x y : BitVec ty.w) : ty.val x = ty.val y ↔ x = y := by
  unfold IntTy.val
  cases ty.signed
  · simp only [Bool.false_eq_true, if_false]
    rw [Int.ofNat_inj, BitVec.toNat_inj]
  · simp only [if_true]; exact BitVec.toInt_inj

/-- the bit pattern is the value modulo `2^w` -/
theorem val_emod (x : BitVec ty.w) : ty.val x % (2 : Int) ^ ty.w = (x.toNat : Int) := by
  have hlt : (x.toNat : Int) < (2 : Int) ^ ty.w := by
    have := x.isLt; have := two_pow_cast ty.w; omega
  unfold IntTy.val
  cases ty.signed
  · simp only [Bool.false_eq_true, if_false]
    exact Int.emod_eq_of_lt (by omega) hlt
  · simp only [if_true]
    rw [BitVec.toInt_eq_toNat_bmod, ← two_pow_cast, Int.bmod_emod, two_pow_cast]
    exact Int.emod_eq_of_lt (by omega) hlt

theorem add_value (x y v : BitVec ty.w) (h : scalarBin ty Build.harness .add x y = some v) :
    ty.val v = ty.val x + ty.val y := by
  unfold scalarBin binPanics at h
  simp only [Build.harness, Bool.true_and] at h
  split at h
  · simp at h
  · rename_i hr
    simp only [Bool.not_eq_eq_eq_not, Bool.not_true, Bool.not_eq_false, inRange_iff] at hr
    simp only [wrapBin, Option.some.injEq] at h
    subst h
    revert hr
    unfold IntTy.val IntTy.minVal IntTy.maxVal
    cases ty.signed
    · simp only [Bool.false_eq_true, if_false]
      intro hr
      have h2 := two_pow_cast ty.w
      rw [BitVec.toNat_add_of_lt (by omega)]; simp
    · simp only [if_true]
      intro hr
      apply BitVec.toInt_add_of_not_saddOverflow
      simp only [BitVec.saddOverflow, ge_iff_le, Bool.or_eq_true, decide_eq_true_eq, not_or]
      omega

theorem sub_value (x y v : BitVec ty.w) (h : scalarBin ty Build.harness .sub x y = some v) :
    ty.val v = ty.val x - ty.val y := by
  unfold scalarBin binPanics at h
  simp only [Build.harness, Bool.true_and] at h
  split at h
  · simp at h
  · rename_i hr
    simp only [Bool.not_eq_eq_eq_not, Bool.not_true, Bool.not_eq_false, inRange_iff] at hr
    simp only [wrapBin, Option.some.injEq] at h
    subst h
    revert hr
    unfold IntTy.val IntTy.minVal IntTy.maxVal
    cases ty.signed
    · simp only [Bool.false_eq_true, if_false]
      intro hr
      rw [BitVec.toNat_sub_of_not_usubOverflow (by simp [BitVec.usubOverflow]; omega)]; omega
    · simp only [if_true]
      intro hr
      apply BitVec.toInt_sub_of_not_ssubOverflow
      simp only [BitVec.ssubOverflow, ge_iff_le, Bool.or_eq_true, decide_eq_true_eq, not_or]
      omega

theorem mul_value (x y v : BitVec ty.w) (h : scalarBin ty Build.harness .mul x y = some v) :
    ty.val v = ty.val x * ty.val y := by
  unfold scalarBin binPanics at h
  simp only [Build.harness, Bool.true_and] at h
  split at h
  · simp at h
  · rename_i hr
    simp only [Bool.not_eq_eq_eq_not, Bool.not_true, Bool.not_eq_false, inRange_iff] at hr
    simp only [wrapBin, Option.some.injEq] at h
    subst h
    revert hr
    unfold IntTy.val IntTy.minVal IntTy.maxVal
    cases ty.signed
    · simp only [Bool.false_eq_true, if_false]
      intro hr
      have h2 := two_pow_cast ty.w
      have h3 : ((x.toNat * y.toNat : Nat) : Int) < ((2 ^ ty.w : Nat) : Int) := by
        rw [Int.natCast_mul]; omega
      rw [BitVec.toNat_mul_of_lt (Int.ofNat_lt.1 h3), Int.natCast_mul]
    · simp only [if_true]
      intro hr
      apply BitVec.toInt_mul_of_not_smulOverflow
      simp only [BitVec.smulOverflow, ge_iff_le, Bool.or_eq_true, decide_eq_true_eq, not_or]
      omega

theorem neg_value (x v : BitVec ty.w) (h : scalarUn ty Build.harness .neg x = some v) :
    ty.signed = true ∧ x ≠ BitVec.intMin ty.w ∧ v = -x ∧ ty.val v = - ty.val x := by
  unfold scalarUn unPanics at h
  simp only [Build.harness, Bool.true_and] at h
  split at h
  · simp at h
  · rename_i hr
    simp only [Bool.or_eq_true, Bool.not_eq_eq_eq_not, Bool.not_true, not_or, Bool.not_eq_false, beq_iff_eq] at hr
    simp only [wrapUn, Option.some.injEq] at h
    subst h
    have hs : ty.signed = true := by simpa using hr.1
    refine ⟨hs, hr.2, rfl, ?_⟩
    unfold IntTy.val
    simp only [hs, if_true]
    exact BitVec.toInt_neg_of_ne_intMin hr.2

theorem divPanics_iff (x y : BitVec ty.w) :
    binPanics ty bld .div x y = true ↔ y = 0 ∨ (ty.signed = true ∧ x = BitVec.intMin ty.w ∧ y = BitVec.allOnes ty.w) := by
  simp [binPanics, and_assoc]

theorem remPanics_iff (x y : BitVec ty.w) :
    binPanics ty bld .rem x y = true ↔ y = 0 ∨ (ty.signed = true ∧ x = BitVec.intMin ty.w ∧ y = BitVec.allOnes ty.w) := by
  simp [binPanics, and_assoc]

theorem div_value (x y q : BitVec ty.w) (h : scalarBin ty bld .div x y = some q) :
    ty.val q = (ty.val x).tdiv (ty.val y) := by
  unfold scalarBin at h
  split at h
  · simp at h
  · rename_i hp
    rw [divPanics_iff] at hp
    simp only [wrapBin, Option.some.injEq] at h
    subst h
    unfold IntTy.val
    cases hs : ty.signed
    · simp only [Bool.false_eq_true, if_false, BitVec.toNat_udiv, Int.ofNat_tdiv]
    · simp only [if_true]
      apply BitVec.toInt_sdiv_of_ne_or_ne
      rw [BitVec.neg_one_eq_allOnes]
      simp only [hs, true_and, not_or, not_and] at hp
      by_cases hx : x = BitVec.intMin ty.w
      · exact Or.inr (hp.2 hx)
      · exact Or.inl hx

theorem rem_value (x y r : BitVec ty.w) (h : scalarBin ty bld .rem x y = some r) :
    ty.val r = (ty.val x).tmod (ty.val y) := by
  unfold scalarBin at h
  split at h
  · simp at h
  · simp only [wrapBin, Option.some.injEq] at h
    subst h
    unfold IntTy.val
    cases hs : ty.signed
    · simp only [Bool.false_eq_true, if_false, BitVec.toNat_umod, Int.ofNat_tmod]
    · simp only [if_true]; exact BitVec.toInt_srem x y

theorem shl_value (x k : BitVec ty.w) (hk : k.toNat < ty.w) :
    scalarBin ty bld .shl x k = some (x * BitVec.twoPow ty.w k.toNat) := by
  have : ¬ ty.w ≤ k.toNat := by omega
  simp only [scalarBin, binPanics, this, decide_false, Bool.and_false, Bool.false_eq_true, if_false, wrapBin,
    Nat.mod_eq_of_lt hk, BitVec.shiftLeft_eq_mul_twoPow]

theorem shr_value (x k r : BitVec ty.w) (hk : k.toNat < ty.w) (h : scalarBin ty bld .shr x k = some r) :
    ty.val r = ty.val x / (2 : Int) ^ k.toNat := by
  have : ¬ ty.w ≤ k.toNat := by omega
  simp only [scalarBin, binPanics, this, decide_false, Bool.and_false, Bool.false_eq_true, if_false, wrapBin,
    Nat.mod_eq_of_lt hk, Option.some.injEq] at h
  subst h
  unfold IntTy.val
  cases hs : ty.signed
  · simp [Nat.shiftRight_eq_div_pow]
  · simp [BitVec.toInt_sshiftRight, Int.shiftRight_eq_div_pow]

/-- a value in any build is the wrapped value -/
theorem scalarBin_some (op : BinOp) (x y v : BitVec ty.w) (h : scalarBin ty bld op x y = some v) :
    v = wrapBin ty.signed op x y := by
  unfold scalarBin at h; split at h <;> simp_all

/-- what the overflow-checks build computes, the plain release build computes too -/
theorem harness_some_release (op : BinOp) (x y v : BitVec ty.w) (h : scalarBin ty Build.harness op x y = some v) :
    scalarBin ty Build.release op x y = some v := by
  have hv := scalarBin_some ty _ op x y v h
  subst hv
  unfold scalarBin at h ⊢
  split at h
  · simp at h
  · rename_i hp
    have : binPanics ty Build.release op x y = false := by
      cases op <;> simp_all [binPanics, Build.harness, Build.release]
    simp [this]

/-- without overflow checks `+ - * & | ^ << >>` never panic -/
theorem release_total (op : BinOp) (h1 : op ≠ .div) (h2 : op ≠ .rem) (x y : BitVec ty.w) :
    scalarBin ty Build.release op x y = some (wrapBin ty.signed op x y) := by
  cases op <;> simp_all [scalarBin, binPanics, Build.release]

end scalars

end ArrModel.C20
