import ArrProofs.Lemmas.GenCoreAxis
/-!
# GenCoreAxisExact — exact-variant form of the `moveaxis` equivalence

NOT imported by any `Props` file: it pins the order of the four validations of `moveaxis` (which error VARIANT is reported when several
fail), which no property speaks about.  `GenCoreAxis.moveaxis_sim` is the form the corollaries use.
-/
set_option linter.unusedSimpArgs false
namespace ArrModel.Gen.Core
open ArrModel Arr
variable {α : Type}

/-- **`moveaxis` as translated from the source, with the hand-written `transpose` plugged in, is `Arr.moveaxis`** -/
theorem moveaxis_eq (a : Arr α) (zero : α) (src dst : List Int) :
    Array_moveaxis (fun x ax => x.transpose zero ax) a src dst = a.moveaxis zero src dst := by
  unfold Array_moveaxis Arr.moveaxis
  simp only [is_unique_eq, is_equal_nat, normalize_axis_mapM, bind_ok', Array_ndim]
  by_cases h1 : src.Nodup
  · by_cases h2 : src.length = dst.length
    · by_cases h3 : (src.map (normalizeAxis a.ndim)).Nodup
      · by_cases h4 : (dst.map (normalizeAxis a.ndim)).Nodup
        · simp only [h1, h2, h3, h4, if_true, bind_ok', not_true_eq_false, if_false, ne_eq]
          have := moveaxis_order a.ndim (src.map (normalizeAxis a.ndim)) (dst.map (normalizeAxis a.ndim)) _ (fun o p => rfl)
          unfold Arr.ndim at this
          simp only [Rs.forM, Rs.umin, this, bind_ok', Rs.map, Rs.toIsize, Arr.ndim]
        · simp [h1, h2, h3, h4]
      · simp [h1, h2, h3]
    · simp [h1, h2]
  · simp [h1]

end ArrModel.Gen.Core
