import ArrModel.Broadcast
import ArrProofs.Lemmas.Index
/-!
helper lemmas for C03 (broadcasting): the specification predicates `stretchEq` / `stretchable`,
`Res.sequence` over a map, alignment of the reversed zip with the trailing suffix, and the
coordinate facts about `bsrc`.
-/
namespace ArrModel

/-! ### specification predicates -/

/-- axis-by-axis stretch rule on two shapes of the same rank: the source axis equals the target
axis or is one; zero lengths are refused (as the code refuses them) -/
def stretchEq : List Nat → List Nat → Bool
  | [], [] => true
  | d :: s, e :: u => (d == e || d == 1) && d != 0 && e != 0 && stretchEq s u
  | _, _ => false

/-- `s` can be stretched to `t`: trailing alignment; the added leading axes of `t` are unconstrained -/
def stretchable (s t : List Nat) : Bool :=
  decide (s.length ≤ t.length) && stretchEq s (t.drop (t.length - s.length))

/-- `bsrc` on already aligned lists -/
def bsrcA (s c : List Nat) : List Nat := (c.zip s).map (fun p => if p.2 = 1 then 0 else p.1)

theorem bsrc_eq (s c : List Nat) : bsrc s c = bsrcA s (c.drop (c.length - s.length)) := rfl

theorem stretchEq_cons (d e : Nat) (s u : List Nat) :
    stretchEq (d :: s) (e :: u) = true ↔ (d = e ∨ d = 1) ∧ d ≠ 0 ∧ e ≠ 0 ∧ stretchEq s u = true := by
  simp [stretchEq, and_assoc]

theorem stretchEq_length (s u : List Nat) (h : stretchEq s u = true) : s.length = u.length := by
  induction s generalizing u with
  | nil => cases u <;> simp_all [stretchEq]
  | cons d s ih =>
    cases u with
    | nil => simp [stretchEq] at h
    | cons e u => rw [stretchEq_cons] at h; simp [ih u h.2.2.2]

/-! ### `Res.sequence` over a map -/

theorem sequence_map_ok_iff {α β : Type} (f : β → Res α) (l : List β) (ys : List α) :
    Res.sequence (l.map f) = .ok ys ↔
      ys.length = l.length ∧ ∀ (i : Nat) x, l[i]? = some x → ∃ y, ys[i]? = some y ∧ f x = .ok y := by
  induction l generalizing ys with
  | nil =>
    simp only [List.map_nil, Res.sequence, List.length_nil, List.length_eq_zero_iff]
    constructor
    · intro h; cases h; simp
    · intro h; rw [h.1]
  | cons b l ih =>
    simp only [List.map_cons, Res.sequence]
    constructor
    · intro h
      cases hb : f b with
      | ok y =>
        rw [hb] at h
        simp only [Res.bind_ok] at h
        cases hs : Res.sequence (l.map f) with
        | ok zs =>
          rw [hs] at h
          simp only [Res.bind_ok] at h
          cases h
          obtain ⟨h1, h2⟩ := (ih zs).1 hs
          refine ⟨by simp [h1], ?_⟩
          intro i x hx
          cases i with
          | zero => simp at hx; subst hx; exact ⟨y, by simp, hb⟩
          | succ i => simp at hx; simpa using h2 i x hx
        | err e => rw [hs] at h; cases h
        | panic => rw [hs] at h; cases h
      | err e => rw [hb] at h; cases h
      | panic => rw [hb] at h; cases h
    · rintro ⟨h1, h2⟩
      cases ys with
      | nil => simp at h1
      | cons y zs =>
        obtain ⟨y', hy1, hy2⟩ := h2 0 b (by simp)
        simp at hy1; subst hy1
        have := (ih zs).2 ⟨by simpa using h1, fun i x hx => by simpa using h2 (i + 1) x (by simpa using hx)⟩
        rw [hy2, this]; rfl

theorem sequence_map_ok {α β : Type} (f : β → Res α) (l : List β) (h : ∀ x ∈ l, ∃ y, f x = .ok y) :
    ∃ ys, Res.sequence (l.map f) = .ok ys := by
  induction l with
  | nil => exact ⟨[], rfl⟩
  | cons b l ih =>
    obtain ⟨y, hy⟩ := h b List.mem_cons_self
    obtain ⟨ys, hys⟩ := ih (fun x hx => h x (List.mem_cons_of_mem _ hx))
    exact ⟨y :: ys, by simp only [List.map_cons, Res.sequence, hy, hys]; rfl⟩

/-! ### coordinates: `bsrcA` on aligned lists -/

theorem inRange_bsrcA (s u c : List Nat) (h : stretchEq s u = true) (hr : inRange u c = true) :
    inRange s (bsrcA s c) = true := by
  induction s generalizing u c with
  | nil => cases u <;> cases c <;> simp_all [stretchEq, inRange, bsrcA]
  | cons d s ih =>
    cases u with
    | nil => simp [stretchEq] at h
    | cons e u =>
      cases c with
      | nil => simp [inRange] at hr
      | cons x c =>
        rw [stretchEq_cons] at h
        simp only [inRange, Bool.and_eq_true, decide_eq_true_eq] at hr
        have ih' := ih u c h.2.2.2 hr.2
        simp only [bsrcA] at ih' ⊢
        simp only [List.zip_cons_cons, List.map_cons, inRange, Bool.and_eq_true, decide_eq_true_eq]
        refine ⟨?_, ih'⟩
        split <;> omega

theorem bsrcA_of_inRange (s c : List Nat) (hr : inRange s c = true) : bsrcA s c = c := by
  induction s generalizing c with
  | nil => cases c <;> simp_all [inRange, bsrcA]
  | cons d s ih =>
    cases c with
    | nil => simp [inRange] at hr
    | cons x c =>
      simp only [inRange, Bool.and_eq_true, decide_eq_true_eq] at hr
      have ih' := ih c hr.2
      simp only [bsrcA] at ih' ⊢
      simp only [List.zip_cons_cons, List.map_cons, ih']
      congr 1
      split <;> omega

theorem stretchEq_prod_pos (s u : List Nat) (h : stretchEq s u = true) : 0 < s.prod ∧ s.prod ≤ u.prod := by
  induction s generalizing u with
  | nil => cases u <;> simp_all [stretchEq]
  | cons d s ih =>
    cases u with
    | nil => simp [stretchEq] at h
    | cons e u =>
      rw [stretchEq_cons] at h
      obtain ⟨h1, h2⟩ := ih u h.2.2.2
      simp only [List.prod_cons]
      refine ⟨Nat.mul_pos (by omega) h1, ?_⟩
      rcases h.1 with rfl | rfl
      · exact Nat.mul_le_mul_left _ h2
      · calc 1 * s.prod ≤ 1 * u.prod := Nat.mul_le_mul_left _ h2
          _ ≤ e * u.prod := Nat.mul_le_mul_right _ (by omega)

/-- a stretch that does not change the element count is the identity -/
theorem stretchEq_prod_eq (s u : List Nat) (h : stretchEq s u = true) (hp : s.prod = u.prod) : s = u := by
  induction s generalizing u with
  | nil => cases u <;> simp_all [stretchEq]
  | cons d s ih =>
    cases u with
    | nil => simp [stretchEq] at h
    | cons e u =>
      rw [stretchEq_cons] at h
      obtain ⟨h1, h2⟩ := stretchEq_prod_pos s u h.2.2.2
      simp only [List.prod_cons] at hp
      rcases h.1 with rfl | rfl
      · have := Nat.eq_of_mul_eq_mul_left (by omega : 0 < d) hp
        rw [ih u h.2.2.2 this]
      · have he : e = 1 := by
          have : e * s.prod ≤ 1 * s.prod := by
            calc e * s.prod ≤ e * u.prod := Nat.mul_le_mul_left _ h2
              _ = 1 * s.prod := hp.symm
          have := Nat.le_of_mul_le_mul_right this h1
          omega
        subst he
        rw [ih u h.2.2.2 (by omega)]

/-! ### coordinates: prefix / suffix split -/

theorem inRange_append (p u c : List Nat) (h : inRange (p ++ u) c = true) :
    inRange p (c.take p.length) = true ∧ inRange u (c.drop p.length) = true := by
  induction p generalizing c with
  | nil => simpa [inRange] using h
  | cons d p ih =>
    cases c with
    | nil => simp [inRange] at h
    | cons x c =>
      simp only [List.cons_append, inRange, Bool.and_eq_true, decide_eq_true_eq] at h
      have := ih c h.2
      simp [inRange, h.1, this]

theorem ravel_append (p u cp cu : List Nat) (hl : cp.length = p.length) :
    ravel (p ++ u) (cp ++ cu) = ravel p cp * u.prod + ravel u cu := by
  induction p generalizing cp with
  | nil => cases cp <;> simp_all [ravel]
  | cons d p ih =>
    cases cp with
    | nil => simp at hl
    | cons x cp =>
      simp only [List.cons_append, ravel, ih cp (by simpa using hl), List.prod_append, Nat.add_mul, Nat.mul_assoc]
      omega

/-- in range coordinates of `t`, cut at the alignment point -/
theorem inRange_split (t c : List Nat) (k : Nat) (h : inRange t c = true) :
    inRange (t.take k) (c.take k) = true ∧ inRange (t.drop k) (c.drop k) = true := by
  by_cases hk : k ≤ t.length
  · have := inRange_append (t.take k) (t.drop k) c (by rw [List.take_append_drop]; exact h)
    rwa [List.length_take, Nat.min_eq_left hk] at this
  · have hl := inRange_length _ _ h
    have h1 : t.take k = t := List.take_of_length_le (by omega)
    have h2 : c.take k = c := List.take_of_length_le (by omega)
    have h3 : t.drop k = [] := List.drop_of_length_le (by omega)
    have h4 : c.drop k = [] := List.drop_of_length_le (by omega)
    rw [h1, h2, h3, h4]; exact ⟨h, rfl⟩

/-- **source coordinate is in range** whenever the target coordinate is -/
theorem inRange_bsrc (s t c : List Nat) (hs : stretchable s t = true) (hr : inRange t c = true) :
    inRange s (bsrc s c) = true := by
  simp only [stretchable, Bool.and_eq_true, decide_eq_true_eq] at hs
  rw [bsrc_eq, inRange_length _ _ hr]
  exact inRange_bsrcA s _ _ hs.2 (inRange_split t c _ hr).2

/-- **equal-count shortcut**: when the stretch does not change the element count, the source shape is
the aligned suffix of the target, every added leading axis has length one, and the row-major position
of a target coordinate equals the position of its source coordinate -/
theorem ravel_bsrc_of_prod_eq (s t c : List Nat) (hs : stretchable s t = true) (hp : s.prod = t.prod)
    (hr : inRange t c = true) : ravel t c = ravel s (bsrc s c) := by
  simp only [stretchable, Bool.and_eq_true, decide_eq_true_eq] at hs
  obtain ⟨hle, hse⟩ := hs
  have hcl := inRange_length _ _ hr
  obtain ⟨hr1, hr2⟩ := inRange_split t c (t.length - s.length) hr
  obtain ⟨hpos, hsu⟩ := stretchEq_prod_pos _ _ hse
  have htp : t.prod = (t.take (t.length - s.length)).prod * (t.drop (t.length - s.length)).prod := by
    rw [← List.prod_append, List.take_append_drop]
  generalize hpre : t.take (t.length - s.length) = pre at *
  generalize hu : t.drop (t.length - s.length) = u at *
  have hpre1 : pre.prod = 1 := by
    rcases Nat.lt_trichotomy pre.prod 1 with h | h | h
    · have : pre.prod = 0 := by omega
      rw [this] at htp; omega
    · exact h
    · have : 2 * u.prod ≤ pre.prod * u.prod := Nat.mul_le_mul_right _ h
      omega
  have ht : t = pre ++ u := by rw [← hpre, ← hu, List.take_append_drop]
  have hsu' : s = u := stretchEq_prod_eq s u hse (by rw [hp, htp, hpre1]; omega)
  subst hsu'
  have h0 : ravel pre (c.take (t.length - s.length)) = 0 := by
    have := ravel_lt _ _ hr1; omega
  have hplen : (c.take (t.length - s.length)).length = pre.length := by
    rw [← hpre]; simp [hcl]
  rw [bsrc_eq, hcl, bsrcA_of_inRange _ _ hr2]
  conv => lhs; rw [ht, ← List.take_append_drop (t.length - s.length) c]
  rw [ravel_append _ _ _ _ hplen, h0]; omega

/-! ### `isBroadcastable`: reversed zip = reversed aligned zip -/

theorem zip_reverse_aligned {β : Type} (s : List β) (t : List β) (h : s.length ≤ t.length) :
    s.reverse.zip t.reverse = (s.zip (t.drop (t.length - s.length))).reverse := by
  have hl : s.length = (t.drop (t.length - s.length)).length := by simp; omega
  conv => lhs; rw [← List.take_append_drop (t.length - s.length) t, List.reverse_append]
  rw [List.zip_eq_zipWith, List.zip_eq_zipWith, List.reverse_zipWith hl]
  rw [← List.zip_eq_zipWith, ← List.zip_eq_zipWith]
  have := @List.zip_append _ _ s.reverse [] (t.drop (t.length - s.length)).reverse
    (t.take (t.length - s.length)).reverse (by simpa using hl)
  simpa using this

theorem isBroadcastable_aligned (s t : List Nat) (h : s.length ≤ t.length) :
    isBroadcastable s t = !(s.zip (t.drop (t.length - s.length))).any (fun p => dimClash p.1 p.2) := by
  unfold isBroadcastable
  rw [zip_reverse_aligned s t h, List.any_reverse]

/-- on aligned lists: no clash and no directional mismatch ⇔ the stretch rule -/
theorem stretchEq_iff_checks (s u : List Nat) (hl : s.length = u.length) :
    stretchEq s u = true ↔
      ((s.zip u).any (fun p => dimClash p.1 p.2) = false ∧
       (s.zip u).any (fun p => p.1 != p.2 && p.1 != 1) = false) := by
  induction s generalizing u with
  | nil => cases u <;> simp_all [stretchEq]
  | cons d s ih =>
    cases u with
    | nil => simp at hl
    | cons e u =>
      have ih' := ih u (by simpa using hl)
      rw [stretchEq_cons, ih']
      simp only [List.zip_cons_cons, List.any_cons, Bool.or_eq_false_iff, dimClash]
      simp only [Bool.and_eq_false_iff, bne_eq_false_iff_eq, beq_eq_false_iff_ne]
      grind

/-! ### array level -/
variable {α β : Type}

theorem atc_ok_get (a : Arr α) (hwf : a.WF) (c : List Nat) (h : inRange a.shape c = true) :
    ∃ x, a.atc c = .ok x ∧ a.get? c = some x := by
  have hlt : ravel a.shape c < a.elems.length := by rw [hwf]; exact ravel_lt _ _ h
  have hl := (inRange_length _ _ h).symm
  refine ⟨a.elems[ravel a.shape c], ?_, by simp [Arr.get?, hlt]⟩
  unfold Arr.atc Arr.indexAt
  rw [if_neg (by simpa using hl), anyOut_eq _ _ hl, h]
  simp [indexAtFold_eq _ _ hl, Res.idx, hlt]

theorem get?_isSome (a : Arr α) (hwf : a.WF) (c : List Nat) (h : inRange a.shape c = true) :
    ∃ x, a.get? c = some x := by
  obtain ⟨x, _, hx⟩ := atc_ok_get a hwf c h
  exact ⟨x, hx⟩

/-- the gather of `broadcast_to`: every read succeeds and the list produced is described position by position -/
theorem gather_ok (a : Arr α) (hwf : a.WF) (t : List Nat) (hs : stretchable a.shape t = true) :
    ∃ es, Res.sequence ((List.range t.prod).map (fun idx => a.atc (bsrc a.shape (unravelFold t idx)))) = .ok es ∧
      es.length = t.prod ∧
      ∀ c, inRange t c = true → es[ravel t c]? = a.get? (bsrc a.shape c) := by
  have hread : ∀ idx, idx < t.prod → ∃ y, a.atc (bsrc a.shape (unravelFold t idx)) = .ok y ∧
      a.get? (bsrc a.shape (unravel t idx)) = some y := by
    intro idx hidx
    rw [unravelFold_eq _ _ hidx]
    exact atc_ok_get a hwf _ (inRange_bsrc _ _ _ hs (ravel_unravel t idx hidx).2)
  obtain ⟨es, hes⟩ := sequence_map_ok (fun idx => a.atc (bsrc a.shape (unravelFold t idx))) (List.range t.prod)
    (fun idx hidx => by
      obtain ⟨y, hy, _⟩ := hread idx (List.mem_range.1 hidx)
      exact ⟨y, hy⟩)
  obtain ⟨hlen, hval⟩ := (sequence_map_ok_iff _ _ _).1 hes
  refine ⟨es, hes, by simpa using hlen, ?_⟩
  intro c hc
  have hlt := ravel_lt _ _ hc
  obtain ⟨y, hy1, hy2⟩ := hval (ravel t c) (ravel t c) (List.getElem?_range hlt)
  obtain ⟨y', hy1', hy2'⟩ := hread _ hlt
  rw [hy1'] at hy2; cases hy2
  rw [unravel_ravel _ _ hc] at hy2'
  rw [hy1, hy2']

theorem bsrc_of_inRange (s c : List Nat) (h : inRange s c = true) : bsrc s c = c := by
  rw [bsrc_eq, inRange_length _ _ h, Nat.sub_self, List.drop_zero, bsrcA_of_inRange _ _ h]

/-- pairing two well-formed arrays of one shape position by position -/
theorem new_zip (a : Arr α) (b : Arr β) (fs : List Nat) (h1 : a.shape = fs) (h2 : b.shape = fs)
    (w1 : a.WF) (w2 : b.WF) :
    ∃ r, Arr.new (a.elems.zip b.elems) fs = .ok r ∧ r.shape = fs ∧ r.WF ∧
      ∀ c x y, a.get? c = some x → b.get? c = some y → r.get? c = some (x, y) := by
  have hlen : (a.elems.zip b.elems).length = fs.prod := by
    rw [List.length_zip, w1, w2, h1, h2]; simp
  refine ⟨⟨a.elems.zip b.elems, fs⟩, if_pos hlen.symm, rfl, hlen, ?_⟩
  intro c x y hx hy
  unfold Arr.get? at hx hy
  rw [h1] at hx; rw [h2] at hy
  show (a.elems.zip b.elems)[ravel fs c]? = some (x, y)
  rw [List.getElem?_zip_eq_some]
  exact ⟨hx, hy⟩

end ArrModel
