import ArrProofs.Lemmas.C18List
/-!
# Lemmas for C18 — the cut-out loops end: fuel bounds, and the `)(` texts of `array_tuple!`

`array_tuple!` takes the first `(` and the first `)` *of the whole text*.  When the first `)` stands directly before the
first `(`, `start..=end` is the empty range at `start`: the iteration pushes an empty piece, inserts a `_` and removes
nothing (no progress: the text grows, the same `(` is still there).  The next iteration then finds `start = end + 2`
and the slice `[start..=end]` panics.  So the loop ends on every text: an iteration either removes the first `(`, or
panics, or is the one no-progress iteration that is followed by a panic.
-/
namespace ArrModel.C18

theorem find_char_some {q : Char} {s : Str} {k : Nat} (h : find [q] s = some k) :
    ∃ g t, s = g ++ q :: t ∧ q ∉ g ∧ g.length = k := by
  by_cases hq : q ∈ s
  · obtain ⟨g, t, rfl, hg⟩ := split_first hq
    rw [find_char_first _ hg] at h
    exact ⟨g, t, rfl, hg, by simpa using h⟩
  · rw [find_char_none hq] at h; cases h

theorem cutTuples_succ (fuel : Nat) (s : Str) (acc : List Str) :
    cutTuples (fuel + 1) s acc =
      match find ['('] s with
      | none => .ok (acc.reverse, s)
      | some start =>
        match find [')'] s with
        | none => .panic
        | some e =>
          match slice s start (e + 1), replaceRange s start (e + 1) ['_'] with
          | .ok piece, .ok s' => cutTuples fuel s' (remove '"' piece :: acc)
          | _, _ => .panic := by
  rw [cutTuples]; rfl

/-- the no-progress iteration: `)` directly before the first `(` (no parenthesis before them) — an empty piece is
pushed, a `_` is inserted between the two, nothing is removed -/
theorem cutTuples_adjacent_step (A Z : Str) (acc : List Str) (fuel : Nat) (hA : okT A) :
    cutTuples (fuel + 1) (A ++ ')' :: '(' :: Z) acc = cutTuples fuel (A ++ ')' :: '_' :: '(' :: Z) ([] :: acc) := by
  have hX : A ++ ')' :: '(' :: Z = (A ++ [')']) ++ '(' :: Z := by simp
  have hf1 : find ['('] (A ++ ')' :: '(' :: Z) = some (A.length + 1) := by
    rw [hX]; have := find_char_first (q := '(') (g := A ++ [')']) Z (by simp [hA.1]); simpa using this
  have hf2 : find [')'] (A ++ ')' :: '(' :: Z) = some A.length := find_char_first _ hA.2
  have hsl : slice (A ++ ')' :: '(' :: Z) (A.length + 1) (A.length + 1) = .ok [] :=
    slice_mid' _ (A ++ [')']) [] ('(' :: Z) _ _ (by simp) (by simp) (by simp)
  have hrr : replaceRange (A ++ ')' :: '(' :: Z) (A.length + 1) (A.length + 1) ['_']
      = .ok ((A ++ [')']) ++ ['_'] ++ '(' :: Z) :=
    replaceRange_mid' _ (A ++ [')']) [] ('(' :: Z) ['_'] _ _ (by simp) (by simp) (by simp)
  rw [cutTuples_succ, hf1]
  simp only [hf2, hsl, hrr]
  simp [remove, List.append_assoc]

/-- … and the iteration after it panics (`start = end + 2`) -/
theorem cutTuples_adjacent_next (A Z : Str) (acc : List Str) (fuel : Nat) (hA : okT A) :
    cutTuples (fuel + 1) (A ++ ')' :: '_' :: '(' :: Z) acc = .panic := by
  have hX : A ++ ')' :: '_' :: '(' :: Z = (A ++ [')', '_']) ++ '(' :: Z := by simp
  have hf1 : find ['('] (A ++ ')' :: '_' :: '(' :: Z) = some (A.length + 2) := by
    rw [hX]; have := find_char_first (q := '(') (g := A ++ [')', '_']) Z (by simp [hA.1]); simpa using this
  have hf2 : find [')'] (A ++ ')' :: '_' :: '(' :: Z) = some A.length := find_char_first _ hA.2
  have hsl : slice (A ++ ')' :: '_' :: '(' :: Z) (A.length + 2) (A.length + 1) = .panic := by
    unfold slice; rw [if_neg (by omega)]
  rw [cutTuples_succ, hf1]
  simp only [hf2, hsl]

/-- **`array_tuple!` on a text whose first `)` directly precedes its first `(`**: the loop never delivers a result,
whatever the fuel — it panics in its second iteration (it does not run forever) -/
theorem cutTuples_adjacent (A Z : Str) (acc : List Str) (hA : okT A) :
    ∀ fuel, cutTuples fuel (A ++ ')' :: '(' :: Z) acc = .panic
  | 0 => rfl
  | 1 => by rw [cutTuples_adjacent_step A Z acc 0 hA]; rfl
  | fuel + 2 => by rw [cutTuples_adjacent_step A Z acc (fuel + 1) hA, cutTuples_adjacent_next A Z _ fuel hA]

/-- … likewise when something stands between them: the first iteration already panics (`start > end + 1`) -/
theorem cutTuples_close_first (A G Z : Str) (acc : List Str) (hA : okT A) (hG : '(' ∉ G) (hne : G ≠ []) :
    ∀ fuel, cutTuples fuel (A ++ ')' :: (G ++ '(' :: Z)) acc = .panic
  | 0 => rfl
  | fuel + 1 => by
    have hX : A ++ ')' :: (G ++ '(' :: Z) = (A ++ ')' :: G) ++ '(' :: Z := by simp
    have hf1 : find ['('] (A ++ ')' :: (G ++ '(' :: Z)) = some (A ++ ')' :: G).length := by
      rw [hX]; exact find_char_first (q := '(') (g := A ++ ')' :: G) Z (by simp [hA.1, hG])
    have hf2 : find [')'] (A ++ ')' :: (G ++ '(' :: Z)) = some A.length := find_char_first _ hA.2
    have hgl : 1 ≤ G.length := by cases G with | nil => exact absurd rfl hne | cons _ _ => simp
    have hsl : slice (A ++ ')' :: (G ++ '(' :: Z)) (A ++ ')' :: G).length (A.length + 1) = .panic := by
      unfold slice; rw [if_neg (by simp; omega)]
    rw [cutTuples_succ, hf1]
    simp only [hf2, hsl]

/-! ### fuel bounds for arbitrary texts -/

theorem count_drop_le (c : Char) (l : Str) (i : Nat) : (l.drop i).count c ≤ l.count c :=
  (List.drop_sublist i l).count_le c

theorem cutLists_succ (fuel : Nat) (s : Str) (acc : List Str) :
    cutLists (fuel + 1) s acc =
      match find ['&'] s with
      | none => .ok (acc.reverse, s)
      | some start =>
        match find [']'] (s.drop (start + 1)) with
        | none => .panic
        | some e =>
          match slice s (start + 2) (start + e + 1), replaceRange s start (start + e + 2) ['_'] with
          | .ok piece, .ok s' => cutLists fuel s' (remove '"' piece :: acc)
          | _, _ => .panic := by
  rw [cutLists]; rfl

/-- **the `array_list!` loop ends on every text**: each iteration that does not panic removes the first `&`, so
`count('&') + 1` iterations are all the loop can use — more fuel never changes the outcome -/
theorem cutLists_fuel : ∀ (n : Nat) (s : Str) (acc : List Str) (k : Nat), s.count '&' ≤ n →
    cutLists (n + 1 + k) s acc = cutLists (n + 1) s acc := by
  intro n
  induction n with
  | zero =>
    intro s acc k hn
    have hno : '&' ∉ s := by
      intro hm; have := List.count_pos_iff.2 hm; omega
    rw [show 0 + 1 + k = k + 1 by omega, cutLists_succ, cutLists_succ, find_char_none hno]
  | succ m ih =>
    intro s acc k hn
    rw [show m + 1 + 1 + k = (m + 1 + k) + 1 by omega, cutLists_succ, cutLists_succ]
    cases hf : find ['&'] s with
    | none => rfl
    | some start =>
      obtain ⟨g, t, rfl, hg, hgl⟩ := find_char_some hf
      simp only []
      cases hf2 : find [']'] ((g ++ '&' :: t).drop (start + 1)) with
      | none => rfl
      | some e =>
        simp only []
        cases hsl : slice (g ++ '&' :: t) (start + 2) (start + e + 1) with
        | err _ => rfl
        | panic => rfl
        | ok piece =>
          cases hrr : replaceRange (g ++ '&' :: t) start (start + e + 2) ['_'] with
          | err _ => rfl
          | panic => rfl
          | ok s' =>
            simp only []
            unfold replaceRange at hrr
            split at hrr
            · injection hrr with hrr
              subst hrr
              have h1 : (g ++ '&' :: t).take start = g := List.take_left' hgl
              have h2 : (g ++ '&' :: t).drop (start + e + 2) = t.drop (e + 1) := by
                rw [← hgl, show g.length + e + 2 = g.length + (e + 2) by omega, List.drop_length_add_append]
                rfl
              have hc : (g ++ '&' :: t).count '&' = t.count '&' + 1 := by
                rw [List.count_append, List.count_eq_zero_of_not_mem hg, List.count_cons_self]; omega
              have hcnt : ((g ++ '&' :: t).take start ++ ['_'] ++ (g ++ '&' :: t).drop (start + e + 2)).count '&' ≤ m := by
                rw [h1, h2, List.count_append, List.count_append, List.count_eq_zero_of_not_mem hg]
                have := count_drop_le '&' t (e + 1)
                have h0 : List.count '&' ['_'] = 0 := by decide
                omega
              exact ih _ _ k hcnt
            · cases hrr

/-- **the `array_tuple!` loop ends on every text**: `count('(') + 1` iterations are all it can use — an iteration
removes the first `(`, or panics, or is the single no-progress iteration, which is followed by a panic -/
theorem cutTuples_fuel : ∀ (n : Nat) (s : Str) (acc : List Str) (k : Nat), s.count '(' ≤ n →
    cutTuples (n + 1 + k) s acc = cutTuples (n + 1) s acc := by
  intro n
  induction n with
  | zero =>
    intro s acc k hn
    have hno : '(' ∉ s := by
      intro hm; have := List.count_pos_iff.2 hm; omega
    rw [show 0 + 1 + k = k + 1 by omega, cutTuples_succ, cutTuples_succ, find_char_none hno]
  | succ m ih =>
    intro s acc k hn
    rw [show m + 1 + 1 + k = (m + 1 + k) + 1 by omega, cutTuples_succ, cutTuples_succ]
    cases hf : find ['('] s with
    | none => rfl
    | some start =>
      obtain ⟨g, t, rfl, hg, hgl⟩ := find_char_some hf
      simp only []
      cases hf2 : find [')'] (g ++ '(' :: t) with
      | none => rfl
      | some e =>
        simp only []
        by_cases hle : start ≤ e
        · -- the first `(` is removed
          cases hsl : slice (g ++ '(' :: t) start (e + 1) with
          | err _ => rfl
          | panic => rfl
          | ok piece =>
            cases hrr : replaceRange (g ++ '(' :: t) start (e + 1) ['_'] with
            | err _ => rfl
            | panic => rfl
            | ok s' =>
              simp only []
              unfold replaceRange at hrr
              split at hrr
              · injection hrr with hrr
                subst hrr
                have h1 : (g ++ '(' :: t).take start = g := List.take_left' hgl
                have h2 : (g ++ '(' :: t).drop (e + 1) = t.drop (e - start) := by
                  rw [show e + 1 = g.length + ((e - start) + 1) by omega, List.drop_length_add_append]
                  rfl
                have hc : (g ++ '(' :: t).count '(' = t.count '(' + 1 := by
                  rw [List.count_append, List.count_eq_zero_of_not_mem hg, List.count_cons_self]; omega
                have hcnt : ((g ++ '(' :: t).take start ++ ['_'] ++ (g ++ '(' :: t).drop (e + 1)).count '(' ≤ m := by
                  rw [h1, h2, List.count_append, List.count_append, List.count_eq_zero_of_not_mem hg]
                  have := count_drop_le '(' t (e - start)
                  have h0 : List.count '(' ['_'] = 0 := by decide
                  omega
                exact ih _ _ k hcnt
              · cases hrr
        · by_cases heq : start = e + 1
          · -- the no-progress iteration, then a panic
            obtain ⟨g2, t2, hs2, hg2, hg2l⟩ := find_char_some hf2
            have hgg : g = g2 ++ [')'] := by
              have h := congrArg (List.take (g2.length + 1)) hs2
              rw [List.take_left' (by omega), List.take_length_add_append] at h
              simpa using h
            subst hgg
            have hA : okT g2 := ⟨fun hm => hg (by simp [hm]), hg2⟩
            have hX : g2 ++ [')'] ++ '(' :: t = g2 ++ ')' :: '(' :: t := by simp
            have hL := cutTuples_adjacent_step g2 t acc (m + 1 + k) hA
            have hR := cutTuples_adjacent_step g2 t acc (m + 1) hA
            rw [cutTuples_succ, ← hX, hf] at hL hR
            simp only [hf2] at hL hR
            rw [hL, hR, show m + 1 + k = (m + k) + 1 by omega, cutTuples_adjacent_next _ _ _ _ hA,
              cutTuples_adjacent_next _ _ _ _ hA]
          · -- `start > end + 1`: the slice panics at once
            have hsl : slice (g ++ '(' :: t) start (e + 1) = .panic := by
              unfold slice; rw [if_neg (by omega)]
            simp only [hsl]

/-- the fuel the model gives the loops (`text.length + 1`) is never what decides the answer -/
theorem cutTuples_fuel_text (s : Str) (acc : List Str) (k : Nat) :
    cutTuples (s.length + 1 + k) s acc = cutTuples (s.length + 1) s acc :=
  cutTuples_fuel s.length s acc k List.count_le_length

theorem cutLists_fuel_text (s : Str) (acc : List Str) (k : Nat) :
    cutLists (s.length + 1 + k) s acc = cutLists (s.length + 1) s acc :=
  cutLists_fuel s.length s acc k List.count_le_length

end ArrModel.C18
