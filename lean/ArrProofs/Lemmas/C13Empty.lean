import ArrProofs.Lemmas.C13Repeat
/-!
# C13 helper lemmas: arrays with a zero-length axis through `apply_along_axis` / `delete` / `repeat`,
the counts of flat `repeat` broadcast along the last axis, and the total case analysis of flat `insert`
-/
namespace ArrModel
open Arr
variable {α β : Type}

/-! ### `apply_along_axis` on an array with a zero-length axis -/

/-- `ravel().split(parts, None)` on an empty buffer: zero parts are refused, otherwise the buffer is the single lane -/
theorem split_flat_nil_none (zero : α) (parts : Nat) :
    (Arr.flat ([] : List α)).split zero parts none =
      if parts = 0 then .err .ParameterError else .ok [Arr.flat []] := by
  unfold Arr.split
  simp [Arr.isEmpty, Arr.flat, Arr.ndim]

theorem elems_nil_of_prod_zero (a : Arr α) (hwf : a.WF) (h : a.shape.prod = 0) : a.elems = [] :=
  List.eq_nil_of_length_eq_zero (by rw [hwf, h])

/-- the array has no element when some axis is empty -/
theorem elems_nil_of_zero_mem (a : Arr α) (hwf : a.WF) (h : 0 ∈ a.shape) : a.elems = [] :=
  elems_nil_of_prod_zero a hwf (prod_eq_zero_of_mem _ h)

/-- a zero-length axis OFF the working axis: the lane count is zero and the code's `split(0, None)` refuses -/
theorem applyAlongAxis_zero_off_axis (a : Arr α) (zero : α) (zb : β) (axis : Nat) (f : Arr α → Res (Arr β))
    (hwf : a.WF) (hax : axis < a.ndim) (hP : (a.shape.eraseIdx axis).prod = 0) :
    a.applyAlongAxis zero zb axis f = .err .ParameterError := by
  obtain ⟨arr, ha1, ha2, ha3, _⟩ := moveLast_spec a zero axis hwf hax
  have hnil : arr.elems = [] := elems_nil_of_prod_zero arr ha3 (by rw [ha2]; simp [List.prod_append, hP])
  unfold Arr.applyAlongAxis
  rw [if_neg (by omega)]
  simp only [ha1, Res.bind_ok, Arr.ravel, hnil, split_flat_nil_none, hP, if_true, Res.bind_err]

/-- the working axis itself is the (only) empty one: there is ONE lane, the empty one; the call answers what `f` answers
on it (an error of `f` is passed on, an empty output gives the array back) -/
theorem applyAlongAxis_zero_on_axis (a : Arr α) (zero : α) (zb : β) (axis : Nat) (f : Arr α → Res (Arr β))
    (hwf : a.WF) (hax : axis < a.ndim) (hP : (a.shape.eraseIdx axis).prod ≠ 0) (hn : a.shape.getD axis 0 = 0) :
    (∀ e, f (Arr.flat []) = .err e → a.applyAlongAxis zero zb axis f = .err e) ∧
    (f (Arr.flat []) = .panic → a.applyAlongAxis zero zb axis f = .panic) ∧
    (∀ y, f (Arr.flat []) = .ok y → y.elems = [] → a.applyAlongAxis zero zb axis f = .ok ⟨[], a.shape⟩) := by
  have hax' : axis < a.shape.length := hax
  have hrl : a.ndim - 1 = (a.shape.eraseIdx axis).length := by simp [List.length_eraseIdx, hax', Arr.ndim]
  obtain ⟨arr, ha1, ha2, ha3, _⟩ := moveLast_spec a zero axis hwf hax
  have hnil : arr.elems = [] := elems_nil_of_prod_zero arr ha3 (by rw [ha2, List.prod_append, hn]; simp)
  have hstart : a.applyAlongAxis zero zb axis f =
      (Res.mapM' f [Arr.flat []] >>= fun parts_out =>
        (Res.idx parts_out 0) >>= fun p0 =>
        (Arr.flat (parts_out.flatMap (·.elems))).reshape (arr.shape.set (a.ndim - 1) p0.len) >>= fun p =>
        if axis = 0 then p.rollaxis zb (Int.ofNat (a.ndim - 1)) none
        else p.moveaxis zb [Int.ofNat (a.ndim - 1)] [Int.ofNat axis]) := by
    unfold Arr.applyAlongAxis
    rw [if_neg (by omega)]
    simp only [ha1, Res.bind_ok, Arr.ravel, hnil, split_flat_nil_none, hP, if_false]
  refine ⟨?_, ?_, ?_⟩
  · intro e he
    rw [hstart]
    simp only [Res.mapM', List.map_cons, List.map_nil, Res.sequence, he, Res.bind_err]
  · intro he
    rw [hstart]
    simp only [Res.mapM', List.map_cons, List.map_nil, Res.sequence, he, Res.bind_panic]
  · intro y he hy
    rw [hstart]
    have hidx : Res.idx [y] 0 = .ok y := rfl
    have hlen : y.len = 0 := by simp [Arr.len, hy]
    simp only [Res.mapM', List.map_cons, List.map_nil, Res.sequence, he, Res.bind_ok, hidx, hlen,
      List.flatMap_cons, List.flatMap_nil, hy, List.append_nil, ha2]
    rw [set_append_singleton _ _ _ _ hrl]
    have hre : (Arr.flat ([] : List β)).reshape (a.shape.eraseIdx axis ++ [0]) =
        .ok ⟨[], a.shape.eraseIdx axis ++ [0]⟩ := by
      simp [Arr.reshape, Arr.new, Arr.flat, List.prod_append]
    rw [hre, Res.bind_ok, hrl]
    obtain ⟨r, hr1, hr2, hr3, _⟩ := moveBack_spec (⟨[], a.shape.eraseIdx axis ++ [0]⟩ : Arr β) zb
      (a.shape.eraseIdx axis) 0 axis (by simp [Arr.WF, List.prod_append]) rfl (by omega)
    rw [hr1]
    have hsh : r.shape = a.shape := by
      rw [hr2, ← hn, insertIdx_eraseIdx_self _ _ _ hax', set_getD_self]
    have hre : r.elems = [] := elems_nil_of_prod_zero r hr3 (by
      rw [hsh]
      have := shape_prod_axis a.shape axis hax'
      rw [this, hn]; simp)
    congr 1
    cases r
    simp only at hsh hre
    rw [hsh, hre]

/-- in a well-formed array with an empty axis: either another axis than `axis` is empty, or `axis` is -/
theorem zero_axis_cases (s : List Nat) (axis : Nat) (hax : axis < s.length) (hz : 0 ∈ s) :
    (s.eraseIdx axis).prod = 0 ∨ ((s.eraseIdx axis).prod ≠ 0 ∧ s.getD axis 0 = 0) := by
  by_cases hP : (s.eraseIdx axis).prod = 0
  · exact .inl hP
  · refine .inr ⟨hP, ?_⟩
    have h1 := shape_prod_axis s axis hax
    rw [prod_eq_zero_of_mem _ hz] at h1
    rcases Nat.mul_eq_zero.1 h1.symm with h | h
    · exact absurd h hP
    · exact h

/-! ### `delete` along an axis of an array with a zero-length axis -/

theorem deleteFlat_nil (idxs : List Nat) :
    (Arr.flat ([] : List α)).deleteFlat idxs = if idxs = [] then .ok (Arr.flat []) else .err .OutOfBounds := by
  by_cases h : idxs = []
  · subst h
    rw [if_pos rfl, Arr.deleteFlat_ok _ _ (by simp)]; rfl
  · rw [if_neg h]
    obtain ⟨i, hi⟩ := List.exists_mem_of_ne_nil _ h
    exact Arr.deleteFlat_err _ idxs ⟨i, hi, Nat.zero_le _⟩

/-- **`delete` along an axis, array with a zero-length axis** — complete: an empty axis other than the working axis
gives `Err(ParameterError)` (the lane count is zero); when the working axis is the only empty one an empty request
returns the array and any other request is `Err(OutOfBounds)` (every index is beyond the empty lane) -/
theorem Arr.delete_axis_zero (a : Arr α) (zero : α) (idxs : List Nat) (axis : Nat)
    (hwf : a.WF) (hax : axis < a.ndim) (hz : 0 ∈ a.shape) :
    ((a.shape.eraseIdx axis).prod = 0 → a.delete zero idxs (some axis) = .err .ParameterError) ∧
    ((a.shape.eraseIdx axis).prod ≠ 0 → idxs = [] → a.delete zero idxs (some axis) = .ok a) ∧
    ((a.shape.eraseIdx axis).prod ≠ 0 → idxs ≠ [] → a.delete zero idxs (some axis) = .err .OutOfBounds) := by
  refine ⟨fun hP => applyAlongAxis_zero_off_axis a zero zero axis _ hwf hax hP, ?_, ?_⟩
  · intro hP hi
    have hn : a.shape.getD axis 0 = 0 := by
      rcases zero_axis_cases a.shape axis hax hz with h | h
      · exact absurd h hP
      · exact h.2
    have := (applyAlongAxis_zero_on_axis a zero zero axis (fun lane => lane.deleteFlat idxs) hwf hax hP hn).2.2
      (Arr.flat []) (by rw [deleteFlat_nil, if_pos hi]) rfl
    show a.applyAlongAxis zero zero axis (fun lane => lane.deleteFlat idxs) = _
    rw [this]
    congr 1
    cases a
    simp only [Arr.mk.injEq, and_true]
    exact (elems_nil_of_zero_mem _ hwf hz).symm
  · intro hP hi
    have hn : a.shape.getD axis 0 = 0 := by
      rcases zero_axis_cases a.shape axis hax hz with h | h
      · exact absurd h hP
      · exact h.2
    exact (applyAlongAxis_zero_on_axis a zero zero axis (fun lane => lane.deleteFlat idxs) hwf hax hP hn).1
      .OutOfBounds (by rw [deleteFlat_nil, if_neg hi])

/-! ### `repeat` along an axis of an array with a zero-length axis -/

/-- a vector is refused by `broadcast_to([n])` unless `n > 0` and its length is `n` or 1 -/
theorem broadcastTo_1d_reject (L : List β) (n : Nat) (h : ¬ (0 < n ∧ (L.length = n ∨ L.length = 1))) :
    (⟨L, [L.length]⟩ : Arr β).broadcastTo [n] = .err .BroadcastShapeMismatch := by
  unfold Arr.broadcastTo
  by_cases hcl : dimClash L.length n = true
  · rw [if_pos (by simp [isBroadcastable_1d, hcl])]
  · have hcl' : dimClash L.length n = false := by simpa using hcl
    have h1 : n = 1 ∧ 2 ≤ L.length := by
      unfold dimClash at hcl'
      simp only [Bool.or_eq_false_iff, Bool.and_eq_false_iff, bne_eq_false_iff_eq, beq_eq_false_iff_ne] at hcl'
      omega
    obtain ⟨rfl, h2⟩ := h1
    rw [if_neg (by simp [isBroadcastable_1d, hcl'])]
    rw [if_neg (by simp; omega), if_neg (by simp)]
    simp only [List.length_cons, List.length_nil, Nat.sub_self, List.drop_zero, List.zip_cons_cons, List.zip_nil_right,
      List.any_cons, List.any_nil, Bool.or_false]
    rw [if_pos (by simp; omega)]

/-- every count vector that is not of the axis length or a single count — and every count vector at all when the axis
is empty — is refused by `repeat` along an axis (any array) -/
theorem repeatAxis_count_err' (a : Arr α) (zero : α) (repeats : List Nat) (axis : Nat) (hax : axis < a.ndim)
    (h : ¬ (0 < a.shape.getD axis 0 ∧ (repeats.length = a.shape.getD axis 0 ∨ repeats.length = 1))) :
    a.repeatAxis zero repeats axis = .err .BroadcastShapeMismatch := by
  have hax' : axis < a.shape.length := hax
  have hidx : Res.idx a.shape axis = .ok (a.shape.getD axis 0) := by
    simp [Res.idx, List.getD_eq_getElem?_getD, hax']
  unfold Arr.repeatAxis
  rw [if_neg (by omega)]
  simp only [hidx, Res.bind_ok]
  have := broadcastTo_1d_reject repeats (a.shape.getD axis 0) h
  rw [show Arr.flat repeats = ⟨repeats, [repeats.length]⟩ from rfl, this]; rfl

theorem flatMap_replicate_elems_nil (l : List (Arr α × Nat)) (h : ∀ p ∈ l, p.1.elems = []) :
    (l.flatMap (fun p => List.replicate p.2 p.1)).flatMap (·.elems) = [] := by
  rw [List.flatMap_eq_nil_iff]
  intro x hx
  obtain ⟨p, hp, hxp⟩ := List.mem_flatMap.1 hx
  rw [(List.mem_replicate.1 hxp).2]
  exact h p hp

/-- `split(parts, Some(axis))` of an array without elements: the array as the single piece -/
theorem split_isEmpty (a : Arr α) (zero : α) (parts axis : Nat) (he : a.isEmpty = true) (hax : axis < a.ndim)
    (hp : parts ≠ 0) : a.split zero parts (some axis) = .ok [a] := by
  have hd : ¬ (decide (axis ≥ a.ndim) = true) := by simp; omega
  unfold Arr.split
  simp only [Option.getD_some, hd, he, hp, Bool.false_eq_true, if_false, if_true]

/-- **`repeat` along an axis, an empty axis OTHER than the working axis** (the working axis itself is not empty), counts
of the axis length or a single count: the empty array with the working axis set to the sum of the counts -/
theorem Arr.repeatAxis_zero_ok (a : Arr α) (zero : α) (repeats : List Nat) (axis : Nat)
    (hwf : a.WF) (hax : axis < a.ndim) (hz : 0 ∈ a.shape) (hn : a.shape.getD axis 0 ≠ 0)
    (hr : repeats.length = a.shape.getD axis 0 ∨ repeats.length = 1) :
    a.repeatAxis zero repeats axis = .ok ⟨[], a.shape.set axis (bc1 repeats (a.shape.getD axis 0)).sum⟩ := by
  have hax' : axis < a.shape.length := hax
  have hP : (a.shape.eraseIdx axis).prod = 0 := by
    rcases zero_axis_cases a.shape axis hax' hz with h | h
    · exact h
    · exact absurd h.2 hn
  have he : a.isEmpty = true := by simp [Arr.isEmpty, elems_nil_of_zero_mem a hwf hz]
  generalize hR : bc1 repeats (a.shape.getD axis 0) = R
  have hidx : Res.idx a.shape axis = .ok (a.shape.getD axis 0) := by
    simp [Res.idx, List.getD_eq_getElem?_getD, hax']
  have hbc : (Arr.flat repeats).broadcastTo [a.shape.getD axis 0] = .ok ⟨R, [a.shape.getD axis 0]⟩ := by
    rw [← hR]; exact broadcastTo_1d repeats _ (by omega) hr
  have hsplit := split_isEmpty a zero (a.shape.getD axis 0) axis he hax hn
  have hpart : (([a].zip R).flatMap (fun p => List.replicate p.2 p.1)).flatMap (·.elems) = [] := by
    apply flatMap_replicate_elems_nil
    intro p hp
    have := (List.of_mem_zip hp).1
    simp only [List.mem_singleton] at this
    rw [this]; exact elems_nil_of_zero_mem a hwf hz
  obtain ⟨P', htmp, hP'l, hP'p⟩ := tmpShape_decomp a.shape axis R.sum hax'
  have hrest : a.shape.eraseIdx axis = (a.shape.eraseIdx axis).take axis ++ (a.shape.eraseIdx axis).drop axis :=
    (List.take_append_drop _ _).symm
  have hQprod : (P' ++ (a.shape.eraseIdx axis).drop axis).prod = 0 := by
    rw [← hP]
    conv => rhs; rw [hrest]
    rw [List.prod_append, List.prod_append, hP'p]
  have hre1 : (Arr.flat ([] : List α)).reshape (R.sum :: (P' ++ (a.shape.eraseIdx axis).drop axis)) =
      .ok ⟨[], R.sum :: (P' ++ (a.shape.eraseIdx axis).drop axis)⟩ :=
    Arr.new_of_prod (by simp only [Arr.flat]; rw [List.prod_cons, hQprod]; simp)
  obtain ⟨m, hm1, hm2, hm3, _⟩ := moveFront_spec
    (⟨[], R.sum :: (P' ++ (a.shape.eraseIdx axis).drop axis)⟩ : Arr α) zero
    (P' ++ (a.shape.eraseIdx axis).drop axis) R.sum axis
    (by simp only [Arr.WF]; rw [List.prod_cons, hQprod]; simp) rfl (by simp [hP'l])
  have hmlen : m.elems.length = (a.shape.set axis R.sum).prod := by
    rw [hm3, hm2, prod_set_eraseIdx _ _ _ hax',
      perm_prod (List.perm_insertIdx R.sum _ (by simp [hP'l])), List.prod_cons, hQprod, hP]; simp
  have hmnil : m.elems = [] := by
    apply List.eq_nil_of_length_eq_zero
    rw [hmlen, prod_set_eraseIdx _ _ _ hax', hP]; simp
  unfold Arr.repeatAxis
  rw [if_neg (by omega)]
  simp only [hidx, Res.bind_ok, hbc, hsplit, hpart, htmp, hre1, hm1]
  rw [← hmnil]
  exact Arr.new_of_prod hmlen.symm

/-! ### flat `repeat`: the count vector broadcast along the LAST axis of an array of any rank -/

/-- the last coordinate of a row-major position is the position modulo the last axis length -/
theorem unravel_snoc : ∀ (P : List Nat) (L i : Nat), i < (P ++ [L]).prod →
    ∃ cp, unravel (P ++ [L]) i = cp ++ [i % L] ∧ cp.length = P.length
  | [], L, i, h => by
    refine ⟨[], ?_, rfl⟩
    have hi : i < L := by simpa using h
    simp [unravel, Nat.mod_eq_of_lt hi]
  | d :: P, L, i, h => by
    have hpos : 0 < (P ++ [L]).prod := by
      rcases Nat.eq_zero_or_pos (P ++ [L]).prod with h0 | h0
      · rw [List.cons_append, List.prod_cons, h0] at h; simp at h
      · exact h0
    obtain ⟨cp, h1, h2⟩ := unravel_snoc P L (i % (P ++ [L]).prod) (Nat.mod_lt _ hpos)
    refine ⟨(i / (P ++ [L]).prod) :: cp, ?_, by simp [h2]⟩
    show unravel (d :: (P ++ [L])) i = _
    simp only [unravel, h1, List.cons_append]
    rw [show (P ++ [L]).prod = P.prod * L by simp [List.prod_append], Nat.mod_mul_left_mod]

theorem bsrc_last (L : Nat) (cp : List Nat) (j : Nat) : bsrc [L] (cp ++ [j]) = [if L = 1 then 0 else j] := by
  simp [bsrc]

theorem atc_1d (R : List β) (j : Nat) (hj : j < R.length) : (⟨R, [R.length]⟩ : Arr β).atc [j] = .ok R[j] := by
  simp only [Arr.atc, Arr.indexAt, anyOut, indexAtFold, Res.idx, List.length_cons, List.length_nil, ne_eq,
    not_true_eq_false, if_false, List.zip_cons_cons, List.zip_nil_right, List.any_cons, List.any_nil, Bool.or_false,
    decide_eq_true_eq, List.reverse_cons, List.reverse_nil, List.nil_append, List.foldl_cons, List.foldl_nil]
  rw [if_neg (by omega)]
  simp [hj]

/-- the vector tiled `n` times, position by position -/
theorem tile_eq (R : List β) (d : β) : ∀ (n : Nat),
    (List.range (n * R.length)).map (fun i => R.getD (i % R.length) d) = (List.replicate n R).flatten
  | 0 => by simp
  | n + 1 => by
    rw [List.replicate_succ', List.flatten_append, ← tile_eq R d n, Nat.add_mul, Nat.one_mul,
      List.range_add, List.map_append, List.map_map]
    congr 1
    simp only [List.flatten_cons, List.flatten_nil, List.append_nil]
    apply List.ext_getElem
    · simp
    · intro i h1 h2
      have hi : i < R.length := by simpa using h2
      simp [Nat.mod_eq_of_lt hi, List.getD_eq_getElem?_getD, hi]

/-- a vector of the last-axis length broadcast to a shape of any rank: the vector tiled once per row — both arms of the
code (the equal-count `reshape` shortcut when all leading axes are 1, the coordinate gather otherwise); a zero-length
LEADING axis gives the empty tiling -/
theorem broadcastTo_lastaxis (R : List β) (d : β) (P : List Nat) (hL : 0 < R.length) :
    (⟨R, [R.length]⟩ : Arr β).broadcastTo (P ++ [R.length]) =
      .ok ⟨(List.replicate P.prod R).flatten, P ++ [R.length]⟩ := by
  have hL0 : R.length ≠ 0 := by omega
  have hb : isBroadcastable [R.length] (P ++ [R.length]) = true := by
    simp [isBroadcastable, dimClash, hL0]
  unfold Arr.broadcastTo
  simp only [hb, Bool.not_true, Bool.false_eq_true, if_false]
  by_cases hp : [R.length].prod = (P ++ [R.length]).prod
  · rw [if_pos hp]
    have hP1 : P.prod = 1 := by
      simp only [List.prod_cons, List.prod_nil, Nat.mul_one, List.prod_append] at hp
      have : 1 * R.length = P.prod * R.length := by omega
      exact (Nat.eq_of_mul_eq_mul_right hL this).symm
    simp only [Arr.reshape, Arr.new]
    rw [if_pos (by rw [← hp]; simp), hP1]
    simp
  · rw [if_neg hp, if_neg (by simp)]
    have hany : ([R.length].zip ((P ++ [R.length]).drop ((P ++ [R.length]).length - [R.length].length))).any
        (fun p => p.1 != p.2 && p.1 != 1) = false := by
      simp
    simp only [hany, Bool.false_eq_true, if_false]
    have hseq : Res.sequence ((List.range (P ++ [R.length]).prod).map (fun idx =>
        (⟨R, [R.length]⟩ : Arr β).atc (bsrc [R.length] (unravelFold (P ++ [R.length]) idx)))) =
        .ok ((List.range (P ++ [R.length]).prod).map (fun idx => R.getD (idx % R.length) d)) := by
      rw [← sequence_map_ok]
      congr 1
      apply List.map_congr_left
      intro idx hidx
      have hlt : idx < (P ++ [R.length]).prod := List.mem_range.1 hidx
      obtain ⟨cp, h1, _⟩ := unravel_snoc P R.length idx hlt
      have hm : idx % R.length < R.length := Nat.mod_lt _ hL
      rw [unravelFold_eq _ _ hlt, h1, bsrc_last]
      have hj : (if R.length = 1 then 0 else idx % R.length) = idx % R.length := by
        split
        · omega
        · rfl
      rw [hj, atc_1d R _ hm]
      simp [List.getD_eq_getElem?_getD, hm]
    rw [hseq]
    simp only [Res.bind_ok, Arr.new, List.length_map, List.length_range, if_true]
    rw [show (P ++ [R.length]).prod = P.prod * R.length by simp [List.prod_append], tile_eq]

theorem flatten_replicate_replicate (x : β) (L : Nat) : ∀ (n : Nat),
    (List.replicate n (List.replicate L x)).flatten = List.replicate (n * L) x
  | 0 => by simp
  | n + 1 => by
    rw [List.replicate_succ, List.flatten_cons, flatten_replicate_replicate x L n, Nat.add_mul, Nat.one_mul,
      Nat.add_comm, List.replicate_add]

/-- a count vector of the last-axis length, or a single count, broadcast to the shape `P ++ [L]` -/
theorem broadcastTo_lastaxis_bc1 (R : List β) (d : β) (P : List Nat) (L : Nat) (hL : 0 < L)
    (hr : R.length = L ∨ R.length = 1) :
    (⟨R, [R.length]⟩ : Arr β).broadcastTo (P ++ [L]) = .ok ⟨(List.replicate P.prod (bc1 R L)).flatten, P ++ [L]⟩ := by
  by_cases h : R.length = L
  · subst h
    rw [bc1_same]
    exact broadcastTo_lastaxis R d P hL
  · have h1 : R.length = 1 := by omega
    obtain ⟨x, rfl⟩ := List.length_eq_one_iff.1 h1
    have := broadcastTo_single x (P ++ [L]) (by simp) (by simp; omega)
    rw [bc1_single, flatten_replicate_replicate]
    simp only [List.length_cons, List.length_nil, Nat.zero_add]
    rw [this]
    simp [List.prod_append]

/-- flat `repeat` on an array of any rank ≥ 1 with a non-empty last axis `L`, counts of length `L` (one per index of the
last axis) or a single count: every element is emitted as often as the count of its LAST coordinate says -/
theorem repeatFlat_lastaxis (a : Arr α) (repeats : List Nat) (P : List Nat) (L : Nat) (hs : a.shape = P ++ [L])
    (hL : 0 < L) (hr : repeats.length = L ∨ repeats.length = 1) :
    a.repeatFlat repeats = .ok (Arr.flat ((a.elems.zip (List.replicate P.prod (bc1 repeats L)).flatten).flatMap
      (fun p => List.replicate p.2 p.1))) := by
  unfold Arr.repeatFlat
  rw [hs, show Arr.flat repeats = ⟨repeats, [repeats.length]⟩ from rfl, broadcastTo_lastaxis_bc1 repeats 0 P L hL hr]
  rfl

theorem isBroadcastable_1d_last (k : Nat) (P : List Nat) (L : Nat) : isBroadcastable [k] (P ++ [L]) = !dimClash k L := by
  simp [isBroadcastable]

/-- an empty last axis, an empty count vector, or a count vector whose length is neither the last-axis length nor 1
(the last axis not being 1) is refused -/
theorem repeatFlat_clash (a : Arr α) (repeats : List Nat) (P : List Nat) (L : Nat) (hs : a.shape = P ++ [L])
    (h : L = 0 ∨ repeats.length = 0 ∨ (repeats.length ≠ L ∧ repeats.length ≠ 1 ∧ L ≠ 1)) :
    a.repeatFlat repeats = .err .BroadcastShapeMismatch := by
  have hcl : dimClash repeats.length L = true := by
    unfold dimClash
    simp only [Bool.or_eq_true, Bool.and_eq_true, bne_iff_ne, beq_iff_eq]
    omega
  unfold Arr.repeatFlat Arr.broadcastTo
  rw [if_pos (by rw [hs]; simp only [Arr.flat, isBroadcastable_1d_last, hcl]; rfl)]
  rfl

/-- the remaining region — last axis of length 1 and two or more counts: the equal-count `reshape` shortcut of
`broadcast_to` accepts exactly `P.prod` counts (then one count per element, in order) and refuses any other number -/
theorem repeatFlat_unit_last (a : Arr α) (repeats : List Nat) (P : List Nat) (hs : a.shape = P ++ [1])
    (hk : 2 ≤ repeats.length) :
    a.repeatFlat repeats =
      if repeats.length = P.prod then .ok (Arr.flat ((a.elems.zip repeats).flatMap (fun p => List.replicate p.2 p.1)))
      else .err .BroadcastShapeMismatch := by
  have hcl : dimClash repeats.length 1 = false := by
    have hk0 : repeats.length ≠ 0 := by omega
    generalize repeats.length = k at hk0
    simp [dimClash, hk0]
  unfold Arr.repeatFlat Arr.broadcastTo
  rw [if_neg (by rw [hs]; simp only [Arr.flat, isBroadcastable_1d_last, hcl]; simp)]
  have hprod : (Arr.flat repeats).shape.prod = repeats.length := by simp [Arr.flat]
  have hprod2 : a.shape.prod = P.prod := by rw [hs]; simp [List.prod_append]
  by_cases hp : repeats.length = P.prod
  · rw [if_pos (by rw [hprod, hprod2]; exact hp), if_pos hp]
    have hre : (Arr.flat repeats).reshape a.shape = .ok ⟨repeats, a.shape⟩ :=
      Arr.new_of_prod (by rw [hprod2]; exact hp.symm)
    rw [hre]; rfl
  · rw [if_neg (by rw [hprod, hprod2]; exact hp), if_neg hp, if_neg (by rw [hs]; simp [Arr.flat])]
    have hany : ((Arr.flat repeats).shape.zip (a.shape.drop (a.shape.length - (Arr.flat repeats).shape.length))).any
        (fun p => p.1 != p.2 && p.1 != 1) = true := by
      rw [hs]
      simp [Arr.flat]
      omega
    simp only [hany, if_true]
    rfl

/-- a rank-0 receiver: exactly one count is accepted -/
theorem repeatFlat_rank0 (a : Arr α) (repeats : List Nat) (hs : a.shape = []) :
    a.repeatFlat repeats =
      if repeats.length = 1 then .ok (Arr.flat ((a.elems.zip repeats).flatMap (fun p => List.replicate p.2 p.1)))
      else .err .BroadcastShapeMismatch := by
  unfold Arr.repeatFlat Arr.broadcastTo
  rw [hs]
  simp only [isBroadcastable, List.reverse_nil, List.zip_nil_right, List.any_nil, Bool.not_false, Bool.not_true,
    Bool.false_eq_true, if_false]
  have hprod : (Arr.flat repeats).shape.prod = repeats.length := by simp [Arr.flat]
  by_cases hp : repeats.length = 1
  · rw [if_pos (by rw [hprod, hp]; rfl), if_pos hp]
    have hre : (Arr.flat repeats).reshape [] = .ok ⟨repeats, []⟩ := Arr.new_of_prod (by simp [Arr.flat, hp])
    rw [hre]; rfl
  · rw [if_neg (by rw [hprod]; simpa using hp), if_neg hp, if_pos (by simp [Arr.flat])]
    rfl

/-- flat `repeat` never panics (any array, any count vector) -/
theorem repeatFlat_no_panic (a : Arr α) (repeats : List Nat) : a.repeatFlat repeats ≠ .panic := by
  rcases List.eq_nil_or_concat a.shape with hs | ⟨P, L, hs⟩
  on_goal 2 => rw [List.concat_eq_append] at hs
  · rw [repeatFlat_rank0 a repeats hs]; split <;> simp
  · by_cases hcl : L = 0 ∨ repeats.length = 0 ∨ (repeats.length ≠ L ∧ repeats.length ≠ 1 ∧ L ≠ 1)
    · rw [repeatFlat_clash a repeats P L hs hcl]; simp
    · by_cases hr : repeats.length = L ∨ repeats.length = 1
      · rw [repeatFlat_lastaxis a repeats P L hs (by omega) hr]; simp
      · have hL1 : L = 1 := by omega
        subst hL1
        rw [repeatFlat_unit_last a repeats P hs (by omega)]
        split <;> simp

/-- the tiling used by `repeatFlat_lastaxis`: its length, its sum and its entries -/
theorem tile_spec (R : List Nat) (n : Nat) :
    ((List.replicate n R).flatten).length = n * R.length ∧ ((List.replicate n R).flatten).sum = n * R.sum ∧
    ∀ i, i < n * R.length → ((List.replicate n R).flatten)[i]? = R[i % R.length]? := by
  refine ⟨by simp, ?_, ?_⟩
  · induction n with
    | zero => simp
    | succ n ih => rw [List.replicate_succ, List.flatten_cons, List.sum_append, ih, Nat.add_mul, Nat.one_mul, Nat.add_comm]
  · intro i hi
    have hL : 0 < R.length := by
      rcases Nat.eq_zero_or_pos R.length with h | h
      · rw [h] at hi; simp at hi
      · exact h
    have hm : i % R.length < R.length := Nat.mod_lt _ hL
    rw [← tile_eq R 0 n, List.getElem?_map, List.getElem?_range hi]
    simp [List.getD_eq_getElem?_getD, hm]

end ArrModel
